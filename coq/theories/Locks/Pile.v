(* C14, LockPile: a model of pkg/sync/lock_pile.go as a small-step system
   over any number of threads and try-lockable mutexes, and the theorems
   [pile_holds_exactly], [pile_blocks_bare], [no_deadlock] for all
   interleavings.

   The thread-local part of the algorithm is one function, [next]: given
   where a thread is inside Lock()/UnlockAll() and whether the mutex it is
   about to TryLock is free, it yields the mutex call the thread makes and
   where it continues.  The same function drives
     - the concurrent system [step] (TryLock answers come from the shared
       ownership map) about which the theorems are proved, and
     - the sequential runner [run_cmd] (TryLock answers come from a script)
       that the harness compares, call for call, with the real LockPile
       driven with scripted TryLockers.

   The slice lp is kept split in the parts the algorithm distinguishes
   (acquired prefix / rest), which makes the index arithmetic of the Go code
   (currentlyAcquired, the swap of lp[0] with lp[currentlyAcquired])
   explicit list surgery; the order of the slice is preserved faithfully
   because it decides which mutex is tried next. *)
From Coq Require Import List Arith Bool Lia Permutation.
Import ListNotations.

Definition mutex := nat.
Definition tid := nat.
Definition entry := (mutex * nat)%type.   (* lock, recursion count *)

Definition mutexes (p : list entry) : list mutex := map fst p.

(* ---- lp.insert ---------------------------------------------------------- *)

Fixpoint bump (p : list entry) (m : mutex) : list entry :=
  match p with
  | [] => []
  | e :: t => if Nat.eqb (fst e) m then (fst e, S (snd e)) :: t else e :: bump t m
  end.

Definition has (p : list entry) (m : mutex) : bool := existsb (Nat.eqb m) (mutexes p).

(* insert on the slice split at the old length: entries before stay before *)
Definition insert (ar : list entry * list entry) (m : mutex) : list entry * list entry :=
  let (acq, rest) := ar in
  if has acq m then (bump acq m, rest)
  else if has rest m then (acq, bump rest m)
  else (acq, rest ++ [(m, 0)]).

Definition insert_all (acq : list entry) (news : list mutex) : list entry * list entry :=
  fold_left insert news (acq, []).

(* ---- where a thread is -------------------------------------------------- *)

Inductive pc :=
| Idle (pile : list entry)
    (* between calls; holds every mutex of the pile *)
| Loop (goal : list mutex) (acq rest : list entry)
    (* head of the for loop in Lock(): currentlyAcquired = length acq, lp = acq ++ rest *)
| Release (goal : list mutex) (done todo rest : list entry)
    (* TryLock failed: unlocking lp[0..currentlyAcquired), [done] already unlocked *)
| Block (goal : list mutex) (want : entry) (others : list entry)
    (* lhFirst.lock.Lock(): lp = want :: others, nothing held *)
| UnlockingAll (todo : list entry).
    (* inside UnlockAll(): [todo] still to unlock *)

(* [goal] is a ghost: the mutexes the running Lock() call must end up
   holding (those of the pile before the call and the requested ones). *)

Definition pile_of (p : pc) : list entry :=
  match p with
  | Idle pile => pile
  | Loop _ acq rest => acq ++ rest
  | Release _ done todo rest => done ++ todo ++ rest
  | Block _ want others => want :: others
  | UnlockingAll todo => todo
  end.

Definition held_of (p : pc) : list entry :=
  match p with
  | Idle pile => pile
  | Loop _ acq _ => acq
  | Release _ _ todo _ => todo
  | Block _ _ _ => []
  | UnlockingAll todo => todo
  end.

Inductive action :=
| ATryLock (m : mutex) (ok : bool)
| ALock (m : mutex)           (* blocking *)
| AUnlock (m : mutex)
| ATau.                       (* no mutex call: loop exit, bookkeeping *)

(* One step of a thread that is inside a call.  [free m] is consulted only
   for the TryLock. *)
Definition next (p : pc) (free : mutex -> bool) : option (action * pc) :=
  match p with
  | Idle _ => None
  | Loop g acq rest =>
    match rest with
    | [] => Some (ATau, Idle acq)                       (* loop condition false: return *)
    | e :: r =>
      match acq with
      | [] => Some (ATau, Block g e r)                  (* currentlyAcquired = 0 *)
      | _ :: _ =>
        if free (fst e)
        then Some (ATryLock (fst e) true, Loop g (acq ++ [e]) r)
        else Some (ATryLock (fst e) false, Release g [] acq (e :: r))
      end
    end
  | Release g done todo rest =>
    match todo with
    | x :: todo' => Some (AUnlock (fst x), Release g (done ++ [x]) todo' rest)
    | [] =>
      match done, rest with
      | a0 :: acq', e :: r => Some (ATau, Block g e (acq' ++ a0 :: r))  (* swap of lhFirst and lhTry *)
      | _, _ => None                                    (* not reachable *)
      end
    end
  | Block g e others => Some (ALock (fst e), Loop g [e] others)  (* currentlyAcquired = 1 *)
  | UnlockingAll todo =>
    match todo with
    | x :: todo' => Some (AUnlock (fst x), UnlockingAll todo')
    | [] => Some (ATau, Idle [])                        (* lp = nil *)
    end
  end.

(* Calls a thread can start when idle. *)
Inductive cmd :=
| CLock (news : list mutex)
| CUnlock (m : mutex)
| CUnlockAll.

(* Unlock: lp[i] = lp[len-1]; shrink. *)
Fixpoint swap_remove (p : list entry) (m : mutex) : list entry :=
  match p with
  | [] => []
  | e :: t =>
    if Nat.eqb (fst e) m
    then match t with [] => [] | _ => last t e :: removelast t end
    else e :: swap_remove t m
  end.

Fixpoint unbump (p : list entry) (m : mutex) : list entry :=
  match p with
  | [] => []
  | e :: t => if Nat.eqb (fst e) m then (fst e, pred (snd e)) :: t else e :: unbump t m
  end.

Fixpoint recursion (p : list entry) (m : mutex) : option nat :=
  match p with
  | [] => None
  | e :: t => if Nat.eqb (fst e) m then Some (snd e) else recursion t m
  end.

(* Starting a call from [Idle pile]: the action it performs at once (only
   Unlock performs one) and where the thread is afterwards.  None: the call
   panics in Go (Lock with nothing to lock on an empty pile, Unlock of a
   lock that is not in the pile). *)
Definition start (pile : list entry) (c : cmd) : option (action * pc) :=
  match c with
  | CLock news =>
    let (acq, rest) := insert_all pile news in
    match acq ++ rest with
    | [] => None
    | _ => Some (ATau, Loop (mutexes pile ++ news) acq rest)
    end
  | CUnlock m =>
    match recursion pile m with
    | None => None
    | Some (S _) => Some (ATau, Idle (unbump pile m))
    | Some 0 => Some (AUnlock m, Idle (swap_remove pile m))
    end
  | CUnlockAll => Some (ATau, UnlockingAll pile)
  end.

(* ---- sequential runner (what the harness compares with the code) -------- *)

(* Runs one call to completion; TryLock answers come from [oracle] (true
   when exhausted); a blocking Lock always succeeds. *)
Fixpoint run_pc (fuel : nat) (p : pc) (oracle : list bool) : list action * pc :=
  match fuel with
  | O => ([], p)
  | S fuel' =>
    let b := match oracle with [] => true | b :: _ => b end in
    match next p (fun _ => b) with
    | None => ([], p)
    | Some (a, p') =>
      let oracle' := match a with ATryLock _ _ => tl oracle | _ => oracle end in
      let (tr, q) := run_pc fuel' p' oracle' in
      (match a with ATau => tr | _ => a :: tr end, q)
    end
  end.

Definition run_cmd (fuel : nat) (pile : list entry) (c : cmd) (oracle : list bool)
    : option (list action * pc) :=
  match start pile c with
  | None => None
  | Some (a, p) =>
    let (tr, q) := run_pc fuel p oracle in
    Some (match a with ATau => tr | _ => a :: tr end, q)
  end.

(* ---- the concurrent system ---------------------------------------------- *)

Record state := mkSt {
  owner : mutex -> option tid;     (* ghost owner of a locked mutex *)
  ts : tid -> pc }.

Definition upd {A} (f : nat -> A) (k : nat) (v : A) : nat -> A :=
  fun x => if Nat.eqb x k then v else f x.

Definition init : state := mkSt (fun _ => None) (fun _ => Idle []).

Definition is_free (s : state) (m : mutex) : bool :=
  match owner s m with None => true | Some _ => false end.

(* effect of an action of thread t on the mutexes; a blocking Lock is only
   enabled when the mutex is free *)
Definition apply_action (s : state) (t : tid) (a : action) : option (mutex -> option tid) :=
  match a with
  | ATau => Some (owner s)
  | ATryLock m true => Some (upd (owner s) m (Some t))
  | ATryLock m false => Some (owner s)
  | ALock m => if is_free s m then Some (upd (owner s) m (Some t)) else None
  | AUnlock m => Some (upd (owner s) m None)
  end.

Inductive step : state -> tid -> state -> Prop :=
| step_next s t a p' ow :
    next (ts s t) (is_free s) = Some (a, p') ->
    apply_action s t a = Some ow ->
    step s t (mkSt ow (upd (ts s) t p'))
| step_start s t pile c a p' ow :
    ts s t = Idle pile ->
    start pile c = Some (a, p') ->
    apply_action s t a = Some ow ->
    step s t (mkSt ow (upd (ts s) t p')).

Inductive reachable : state -> Prop :=
| reach_init : reachable init
| reach_step s t s' : reachable s -> step s t s' -> reachable s'.

(* a thread is blocked: it sits in the blocking Lock and the mutex is taken *)
Definition waiting (s : state) (t : tid) (m : mutex) : Prop :=
  exists g e others, ts s t = Block g e others /\ fst e = m /\ owner s m <> None.

(* ---- invariant ----------------------------------------------------------- *)

Definition goal_ok (p : pc) : Prop :=
  match p with
  | Loop g _ _ | Release g _ _ _ | Block g _ _ =>
    forall m, In m g <-> In m (mutexes (pile_of p))
  | _ => True
  end.

Definition shape_ok (p : pc) : Prop :=
  match p with
  | Release _ done [] _ => done <> []
  | _ => True
  end.

Definition Inv (s : state) : Prop :=
  (forall t, NoDup (mutexes (pile_of (ts s t)))) /\
  (forall m t, owner s m = Some t <-> In m (mutexes (held_of (ts s t)))) /\
  (forall t, goal_ok (ts s t)) /\
  (forall t, shape_ok (ts s t) /\
     match ts s t with Release _ done todo rest => rest <> [] /\ (done ++ todo <> []) | _ => True end).

Lemma upd_same {A} (f : nat -> A) k v : upd f k v k = v.
Proof. unfold upd; rewrite Nat.eqb_refl; reflexivity. Qed.

Lemma upd_other {A} (f : nat -> A) k v x : x <> k -> upd f k v x = f x.
Proof. unfold upd; intros H; destruct (Nat.eqb_spec x k); congruence. Qed.

(* Three ways a step changes things. *)
Lemma inv_local s t p' :
  Inv s ->
  NoDup (mutexes (pile_of p')) ->
  (forall m, In m (mutexes (held_of p')) <-> In m (mutexes (held_of (ts s t)))) ->
  goal_ok p' ->
  (shape_ok p' /\ match p' with Release _ done todo rest => rest <> [] /\ (done ++ todo <> []) | _ => True end) ->
  Inv (mkSt (owner s) (upd (ts s) t p')).
Proof.
  intros (Hnd & Hown & Hg & Hsh) Hnd' Hheld Hg' Hsh'. repeat split; cbn.
  - intro t'. destruct (Nat.eq_dec t' t) as [->|Hne]; [rewrite upd_same | rewrite upd_other]; auto.
  - destruct (Nat.eq_dec t0 t) as [->|Hne]; [rewrite upd_same | rewrite upd_other by assumption].
    + rewrite Hheld; apply Hown.
    + apply Hown.
  - destruct (Nat.eq_dec t0 t) as [->|Hne]; [rewrite upd_same | rewrite upd_other by assumption].
    + rewrite Hheld; apply Hown.
    + apply Hown.
  - intro t'. destruct (Nat.eq_dec t' t) as [->|Hne]; [rewrite upd_same | rewrite upd_other]; auto.
  - destruct (Nat.eq_dec t0 t) as [->|Hne]; [rewrite upd_same | rewrite upd_other by assumption];
      [apply Hsh' | apply Hsh].
  - destruct (Nat.eq_dec t0 t) as [->|Hne]; [rewrite upd_same | rewrite upd_other by assumption];
      [apply Hsh' | apply Hsh].
Qed.

Lemma inv_acquire s t m p' :
  Inv s -> owner s m = None ->
  NoDup (mutexes (pile_of p')) ->
  (forall x, In x (mutexes (held_of p')) <-> x = m \/ In x (mutexes (held_of (ts s t)))) ->
  goal_ok p' ->
  (shape_ok p' /\ match p' with Release _ done todo rest => rest <> [] /\ (done ++ todo <> []) | _ => True end) ->
  Inv (mkSt (upd (owner s) m (Some t)) (upd (ts s) t p')).
Proof.
  intros (Hnd & Hown & Hg & Hsh) Hfree Hnd' Hheld Hg' Hsh'. repeat split; cbn.
  - intro t'. destruct (Nat.eq_dec t' t) as [->|Hne]; [rewrite upd_same | rewrite upd_other]; auto.
  - intros Ho. destruct (Nat.eq_dec t0 t) as [->|Hne]; [rewrite upd_same | rewrite upd_other by assumption].
    + apply Hheld. destruct (Nat.eq_dec m0 m) as [->|Hm]; [left; reflexivity|].
      right. rewrite upd_other in Ho by assumption. apply Hown, Ho.
    + destruct (Nat.eq_dec m0 m) as [->|Hm].
      * rewrite upd_same in Ho. congruence.
      * rewrite upd_other in Ho by assumption. apply Hown, Ho.
  - intros Hin. destruct (Nat.eq_dec t0 t) as [->|Hne]; [rewrite upd_same in Hin | rewrite upd_other in Hin by assumption].
    + apply Hheld in Hin as [->|Hin]; [apply upd_same|].
      destruct (Nat.eq_dec m0 m) as [->|Hm]; [apply upd_same|].
      rewrite upd_other by assumption. apply Hown, Hin.
    + destruct (Nat.eq_dec m0 m) as [->|Hm].
      * apply Hown in Hin. congruence.
      * rewrite upd_other by assumption. apply Hown, Hin.
  - intro t'. destruct (Nat.eq_dec t' t) as [->|Hne]; [rewrite upd_same | rewrite upd_other]; auto.
  - destruct (Nat.eq_dec t0 t) as [->|Hne]; [rewrite upd_same | rewrite upd_other by assumption];
      [apply Hsh' | apply Hsh].
  - destruct (Nat.eq_dec t0 t) as [->|Hne]; [rewrite upd_same | rewrite upd_other by assumption];
      [apply Hsh' | apply Hsh].
Qed.

Lemma inv_release s t m p' :
  Inv s -> In m (mutexes (held_of (ts s t))) ->
  NoDup (mutexes (pile_of p')) ->
  (forall x, In x (mutexes (held_of p')) <-> x <> m /\ In x (mutexes (held_of (ts s t)))) ->
  goal_ok p' ->
  (shape_ok p' /\ match p' with Release _ done todo rest => rest <> [] /\ (done ++ todo <> []) | _ => True end) ->
  Inv (mkSt (upd (owner s) m None) (upd (ts s) t p')).
Proof.
  intros (Hnd & Hown & Hg & Hsh) Hm Hnd' Hheld Hg' Hsh'.
  assert (Hot : owner s m = Some t) by (apply Hown, Hm).
  repeat split; cbn.
  - intro t'. destruct (Nat.eq_dec t' t) as [->|Hne]; [rewrite upd_same | rewrite upd_other]; auto.
  - intros Ho. destruct (Nat.eq_dec m0 m) as [->|Hmm].
    + rewrite upd_same in Ho; discriminate.
    + rewrite upd_other in Ho by assumption.
      destruct (Nat.eq_dec t0 t) as [->|Hne]; [rewrite upd_same | rewrite upd_other by assumption].
      * apply Hheld; split; [assumption | apply Hown, Ho].
      * apply Hown, Ho.
  - intros Hin. destruct (Nat.eq_dec t0 t) as [->|Hne]; [rewrite upd_same in Hin | rewrite upd_other in Hin by assumption].
    + apply Hheld in Hin as [Hne Hin]. rewrite upd_other by assumption. apply Hown, Hin.
    + destruct (Nat.eq_dec m0 m) as [->|Hmm].
      * apply Hown in Hin. congruence.
      * rewrite upd_other by assumption. apply Hown, Hin.
  - intro t'. destruct (Nat.eq_dec t' t) as [->|Hne]; [rewrite upd_same | rewrite upd_other]; auto.
  - destruct (Nat.eq_dec t0 t) as [->|Hne]; [rewrite upd_same | rewrite upd_other by assumption];
      [apply Hsh' | apply Hsh].
  - destruct (Nat.eq_dec t0 t) as [->|Hne]; [rewrite upd_same | rewrite upd_other by assumption];
      [apply Hsh' | apply Hsh].
Qed.

(* ---- list facts ----------------------------------------------------------- *)

Lemma mutexes_app a b : mutexes (a ++ b) = mutexes a ++ mutexes b.
Proof. apply map_app. Qed.

Lemma has_true p m : has p m = true <-> In m (mutexes p).
Proof.
  unfold has. rewrite existsb_exists. split.
  - intros [x [Hx He]]. apply Nat.eqb_eq in He; subst; assumption.
  - intros H; exists m; split; [assumption | apply Nat.eqb_refl].
Qed.

Lemma mutexes_bump p m : mutexes (bump p m) = mutexes p.
Proof.
  unfold mutexes. induction p as [|e p IH]; cbn; [reflexivity|].
  destruct (Nat.eqb (fst e) m); cbn; [reflexivity | rewrite IH; reflexivity].
Qed.

Lemma mutexes_unbump p m : mutexes (unbump p m) = mutexes p.
Proof.
  unfold mutexes. induction p as [|e p IH]; cbn; [reflexivity|].
  destruct (Nat.eqb (fst e) m); cbn; [reflexivity | rewrite IH; reflexivity].
Qed.

Lemma insert_spec a r m a' r' :
  insert (a, r) m = (a', r') ->
  mutexes a' = mutexes a /\
  (NoDup (mutexes (a ++ r)) -> NoDup (mutexes (a' ++ r'))) /\
  (forall x, In x (mutexes (a' ++ r')) <-> In x (mutexes (a ++ r)) \/ x = m).
Proof.
  unfold insert. destruct (has a m) eqn:Ha.
  - intros H; inversion H; subst; clear H. rewrite !mutexes_app, mutexes_bump.
    repeat split; auto. intros [H| ->]; [assumption|].
    apply in_or_app; left; apply has_true; assumption.
  - destruct (has r m) eqn:Hr.
    + intros H; inversion H; subst; clear H. rewrite !mutexes_app, mutexes_bump.
      repeat split; auto. intros [H| ->]; [assumption|].
      apply in_or_app; right; apply has_true; assumption.
    + intros H; inversion H; subst; clear H.
      assert (Hn : ~ In m (mutexes (a' ++ r))).
      { rewrite mutexes_app; intros Hin; apply in_app_or in Hin as [Hin|Hin];
          apply has_true in Hin; congruence. }
      repeat split.
      * intros Hnd. rewrite app_assoc, (mutexes_app (a' ++ r)).
        change (mutexes [(m, 0)]) with [m].
        apply (Permutation_NoDup (l := m :: mutexes (a' ++ r))).
        { apply Permutation_cons_append. }
        constructor; assumption.
      * rewrite app_assoc, (mutexes_app (a' ++ r)). change (mutexes [(m, 0)]) with [m]. intros Hin.
        apply in_app_or in Hin as [Hin | [<- | []]]; auto.
      * rewrite app_assoc, (mutexes_app (a' ++ r)). change (mutexes [(m, 0)]) with [m].
        intros [Hin | ->]; apply in_or_app; cbn; auto.
Qed.

Lemma insert_all_spec news : forall a r a' r',
  fold_left insert news (a, r) = (a', r') ->
  mutexes a' = mutexes a /\
  (NoDup (mutexes (a ++ r)) -> NoDup (mutexes (a' ++ r'))) /\
  (forall x, In x (mutexes (a' ++ r')) <-> In x (mutexes (a ++ r)) \/ In x news).
Proof.
  induction news as [|m news IH]; intros a r a' r' H; cbn [fold_left] in H.
  - inversion H; subst. repeat split; auto. intros [H0 | []]; assumption.
  - destruct (insert (a, r) m) as [a1 r1] eqn:Hi.
    destruct (insert_spec _ _ _ _ _ Hi) as (E1 & N1 & I1).
    destruct (IH _ _ _ _ H) as (E2 & N2 & I2).
    repeat split.
    + congruence.
    + intros Hn0; apply N2, N1, Hn0.
    + intros Hx. apply I2 in Hx as [Hx | Hx].
      * apply I1 in Hx as [Hx | Hx]; [left; exact Hx | right; left; symmetry; exact Hx].
      * right; right; exact Hx.
    + intros [Hx | [Hx | Hx]]; apply I2.
      * left; apply I1; left; exact Hx.
      * left; apply I1; right; symmetry; exact Hx.
      * right; exact Hx.
Qed.

Lemma recursion_in p m n : recursion p m = Some n -> In m (mutexes p).
Proof.
  induction p as [|e p IH]; cbn; [discriminate|].
  destruct (Nat.eqb_spec (fst e) m); [auto | intros; right; auto].
Qed.

Lemma last_removelast_perm {A} (t : list A) d : t <> [] -> Permutation t (last t d :: removelast t).
Proof.
  intros H. rewrite (app_removelast_last d H) at 1.
  apply Permutation_sym, Permutation_cons_append.
Qed.

Lemma swap_remove_perm p m :
  In m (mutexes p) -> exists e, fst e = m /\ Permutation p (e :: swap_remove p m).
Proof.
  induction p as [|e0 t IH]; cbn; [contradiction|].
  intros Hin. destruct (Nat.eqb_spec (fst e0) m) as [Heq|Hne].
  - exists e0; split; [assumption|]. constructor.
    destruct t as [|x t']; [constructor|]. apply last_removelast_perm; discriminate.
  - destruct Hin as [Hin|Hin]; [contradiction|].
    destruct (IH Hin) as [e [He Hp]]. exists e; split; [assumption|].
    eapply perm_trans; [apply perm_skip, Hp | apply perm_swap].
Qed.

Lemma swap_remove_spec p m :
  NoDup (mutexes p) -> In m (mutexes p) ->
  NoDup (mutexes (swap_remove p m)) /\
  (forall x, In x (mutexes (swap_remove p m)) <-> x <> m /\ In x (mutexes p)).
Proof.
  intros Hnd Hin. destruct (swap_remove_perm p m Hin) as [e [He Hp]].
  pose proof (Permutation_map fst Hp) as Hpm. cbn in Hpm. fold (mutexes p) in Hpm.
  fold (mutexes (swap_remove p m)) in Hpm. rewrite He in Hpm.
  pose proof (Permutation_NoDup Hpm Hnd) as Hnd'. inversion Hnd' as [|? ? Hnot Hnd'']; subst.
  split; [assumption|]. intro x; split.
  - intros Hx. split; [intros ->; contradiction|].
    eapply Permutation_in; [apply Permutation_sym, Hpm | right; assumption].
  - intros [Hne Hx]. apply (Permutation_in _ Hpm) in Hx as [Hx|Hx]; [congruence | assumption].
Qed.

Lemma NoDup_app_l {A} (a b : list A) : NoDup (a ++ b) -> NoDup a.
Proof. induction a; cbn; intros H; [constructor|]. inversion H; subst. constructor; [rewrite in_app_iff in *; tauto | auto]. Qed.

Lemma NoDup_app_r {A} (a b : list A) : NoDup (a ++ b) -> NoDup b.
Proof. induction a; cbn; intros H; [assumption|]. inversion H; auto. Qed.

(* ---- the invariant is preserved ------------------------------------------ *)

Lemma is_free_none s m : is_free s m = true -> owner s m = None.
Proof. unfold is_free; destruct (owner s m); [discriminate | reflexivity]. Qed.

Definition extra_ok (p : pc) : Prop :=
  shape_ok p /\ match p with Release _ done todo rest => rest <> [] /\ (done ++ todo <> []) | _ => True end.

Lemma inv_local' s t old p' :
  Inv s -> ts s t = old ->
  NoDup (mutexes (pile_of p')) ->
  (forall m, In m (mutexes (held_of p')) <-> In m (mutexes (held_of old))) ->
  goal_ok p' -> extra_ok p' ->
  Inv (mkSt (owner s) (upd (ts s) t p')).
Proof. intros HI <-. apply inv_local, HI. Qed.

Lemma inv_acquire' s t old m p' :
  Inv s -> ts s t = old -> is_free s m = true ->
  NoDup (mutexes (pile_of p')) ->
  (forall x, In x (mutexes (held_of p')) <-> x = m \/ In x (mutexes (held_of old))) ->
  goal_ok p' -> extra_ok p' ->
  Inv (mkSt (upd (owner s) m (Some t)) (upd (ts s) t p')).
Proof. intros HI <- Hf. apply inv_acquire; [exact HI | apply is_free_none, Hf]. Qed.

Lemma inv_release' s t old m p' :
  Inv s -> ts s t = old -> In m (mutexes (held_of old)) ->
  NoDup (mutexes (pile_of p')) ->
  (forall x, In x (mutexes (held_of p')) <-> x <> m /\ In x (mutexes (held_of old))) ->
  goal_ok p' -> extra_ok p' ->
  Inv (mkSt (upd (owner s) m None) (upd (ts s) t p')).
Proof. intros HI <-. apply inv_release, HI. Qed.

Lemma in_cons_nodup (x : mutex) l y :
  NoDup (x :: l) -> (In y l <-> y <> x /\ In y (x :: l)).
Proof.
  intros H; inversion H; subst. split.
  - intros Hy; split; [intros ->; contradiction | right; assumption].
  - intros [Hne [Hy|Hy]]; [congruence | assumption].
Qed.

Lemma step_inv s t s' : Inv s -> step s t s' -> Inv s'.
Proof.
  intros HI Hs. pose proof HI as (Hnd & Hown & Hg & Hsh).
  destruct Hs as [s t a p' ow Hnext Happ | s t pile c a p' ow Hts Hstart Happ].
  - specialize (Hnd t); specialize (Hg t); specialize (Hsh t).
    destruct (ts s t) as [pile | g acq rest | g done todo rest | g e others | todo] eqn:Hts;
      cbn [next] in Hnext.
    + discriminate.
    + destruct rest as [|e r].
      * (* return *)
        inversion Hnext; subst a p'; cbn in Happ; inversion Happ; subst ow.
        eapply inv_local'; [exact HI | exact Hts | | | exact I | split; exact I].
        -- cbn [pile_of] in *. rewrite app_nil_r in Hnd; exact Hnd.
        -- intro m; reflexivity.
      * destruct acq as [|a0 acq].
        -- inversion Hnext; subst a p'; cbn in Happ; inversion Happ; subst ow.
           eapply inv_local'; [exact HI | exact Hts | exact Hnd | | exact Hg | split; exact I].
           intro m; reflexivity.
        -- destruct (is_free s (fst e)) eqn:Hf; inversion Hnext; subst a p'; cbn in Happ; inversion Happ; subst ow.
           ++ eapply inv_acquire'; [exact HI | exact Hts | exact Hf | | | | split; exact I].
              ** cbn [pile_of app] in *. rewrite <- app_assoc. exact Hnd.
              ** intro x. cbn [held_of]. change (a0 :: acq ++ [e]) with ((a0 :: acq) ++ [e]). rewrite mutexes_app. change (mutexes [e]) with [fst e].
                 rewrite in_app_iff. cbn. intuition.
              ** cbn [goal_ok pile_of app] in *. intro m. rewrite <- app_assoc. apply Hg.
           ++ eapply inv_local'; [exact HI | exact Hts | exact Hnd | | exact Hg | ].
              ** intro m; reflexivity.
              ** split; [exact I | split; discriminate].
    + destruct todo as [|x todo].
      * destruct done as [|a0 acq']; [discriminate|]. destruct rest as [|e r]; [discriminate|].
        inversion Hnext; subst a p'; cbn in Happ; inversion Happ; subst ow.
        assert (Hp : Permutation (mutexes ((a0 :: acq') ++ [] ++ e :: r)) (mutexes (e :: acq' ++ a0 :: r))).
        { apply Permutation_map. cbn [app].
          eapply perm_trans; [apply perm_skip, Permutation_sym, Permutation_middle|].
          eapply perm_trans; [apply perm_swap|].
          apply perm_skip, Permutation_middle. }
        eapply inv_local'; [exact HI | exact Hts | | | | split; exact I].
        -- cbn [pile_of] in *. eapply Permutation_NoDup; [exact Hp | exact Hnd].
        -- intro m; reflexivity.
        -- cbn [goal_ok pile_of] in *. intro m. rewrite (Hg m). split; intro Hin.
           ++ eapply Permutation_in; [exact Hp | exact Hin].
           ++ eapply Permutation_in; [apply Permutation_sym, Hp | exact Hin].
      * inversion Hnext; subst a p'; cbn in Happ; inversion Happ; subst ow.
        destruct Hsh as [_ [Hrest _]].
        assert (Hndx : NoDup (mutexes (x :: todo))).
        { cbn [pile_of] in Hnd. rewrite mutexes_app in Hnd. apply NoDup_app_r in Hnd.
          rewrite mutexes_app in Hnd. apply NoDup_app_l in Hnd. exact Hnd. }
        eapply inv_release'; [exact HI | exact Hts | left; reflexivity | | | | ].
        -- cbn [pile_of] in *. rewrite <- app_assoc. exact Hnd.
        -- intro y. cbn [held_of]. apply (in_cons_nodup (fst x) (mutexes todo) y Hndx).
        -- cbn [goal_ok pile_of] in *. intro m. rewrite <- app_assoc. apply Hg.
        -- split.
           ++ cbn [shape_ok]. destruct todo; [|exact I].
              intro Hc; apply app_eq_nil in Hc as [_ Hc]; discriminate.
           ++ split; [exact Hrest|]. intro Hc. apply app_eq_nil in Hc as [Hc _].
              apply app_eq_nil in Hc as [_ Hc]; discriminate.
    + (* Block *)
      inversion Hnext; subst a p'. cbn in Happ.
      destruct (is_free s (fst e)) eqn:Hf; [|discriminate]. inversion Happ; subst ow.
      eapply inv_acquire'; [exact HI | exact Hts | exact Hf | exact Hnd | | exact Hg | split; exact I].
      intro x; cbn; split; [intros [<-|[]]; left; reflexivity | intros [->|[]]; left; reflexivity].
    + destruct todo as [|x todo].
      * inversion Hnext; subst a p'; cbn in Happ; inversion Happ; subst ow.
        eapply inv_local'; [exact HI | exact Hts | constructor | | exact I | split; exact I].
        intro m; reflexivity.
      * inversion Hnext; subst a p'; cbn in Happ; inversion Happ; subst ow.
        eapply inv_release'; [exact HI | exact Hts | left; reflexivity | | | exact I | split; exact I].
        -- cbn [pile_of] in *. cbn in Hnd. inversion Hnd; assumption.
        -- intro y. cbn [held_of]. apply (in_cons_nodup (fst x) (mutexes todo) y Hnd).
  - specialize (Hnd t). rewrite Hts in Hnd. cbn [pile_of] in Hnd.
    destruct c as [news | m |]; cbn [start] in Hstart.
    + destruct (insert_all pile news) as [acq rest] eqn:Hi.
      destruct (insert_all_spec news _ _ _ _ Hi) as (E & N & I0).
      rewrite app_nil_r in N, I0.
      destruct (acq ++ rest) eqn:Har; [discriminate|]. rewrite <- Har in *.
      inversion Hstart; subst a p'; cbn in Happ; inversion Happ; subst ow.
      eapply inv_local'; [exact HI | exact Hts | exact (N Hnd) | | | split; exact I].
      * intro m. cbn [held_of]. rewrite E. reflexivity.
      * cbn [goal_ok pile_of]. intro m. rewrite in_app_iff. symmetry. apply I0.
    + destruct (recursion pile m) as [[|n]|] eqn:Hr; [| |discriminate].
      * inversion Hstart; subst a p'; cbn in Happ; inversion Happ; subst ow.
        pose proof (recursion_in _ _ _ Hr) as Hin.
        destruct (swap_remove_spec pile m Hnd Hin) as [N S0].
        eapply inv_release'; [exact HI | exact Hts | exact Hin | exact N | exact S0 | exact I | split; exact I].
      * inversion Hstart; subst a p'; cbn in Happ; inversion Happ; subst ow.
        eapply inv_local'; [exact HI | exact Hts | | | exact I | split; exact I].
        -- cbn [pile_of]. rewrite mutexes_unbump; exact Hnd.
        -- intro x. cbn [held_of]. rewrite mutexes_unbump; reflexivity.
    + inversion Hstart; subst a p'; cbn in Happ; inversion Happ; subst ow.
      eapply inv_local'; [exact HI | exact Hts | exact Hnd | | exact I | split; exact I].
      intro m; reflexivity.
Qed.

Lemma inv_init : Inv init.
Proof.
  repeat split; cbn; try constructor; try discriminate; try contradiction.
Qed.

Lemma reachable_inv s : reachable s -> Inv s.
Proof. induction 1; [apply inv_init | eapply step_inv; eauto]. Qed.

(* ---- theorems -------------------------------------------------------------- *)

(* A thread sits in the blocking Lock only while it holds none of its pile. *)
Theorem pile_blocks_bare_thm : forall s, reachable s ->
  forall t g e others, ts s t = Block g e others -> forall m, owner s m <> Some t.
Proof.
  intros s Hr t g e others Hts m Ho.
  destruct (reachable_inv s Hr) as (_ & Hown & _).
  apply Hown in Ho. rewrite Hts in Ho. exact Ho.
Qed.

(* Between calls a thread holds exactly the mutexes of its pile, and when
   Lock() is about to return it holds exactly the goal of the call ... *)
Theorem pile_holds_exactly_thm : forall s, reachable s -> forall t,
  (forall pile, ts s t = Idle pile -> forall m, owner s m = Some t <-> In m (mutexes pile)) /\
  (forall g acq, ts s t = Loop g acq [] -> forall m, owner s m = Some t <-> In m g).
Proof.
  intros s Hr t. destruct (reachable_inv s Hr) as (_ & Hown & Hg & _). split.
  - intros pile Hts m. rewrite (Hown m t), Hts. reflexivity.
  - intros g acq Hts m. rewrite (Hown m t). specialize (Hg t). rewrite Hts in *.
    cbn in *. rewrite (Hg m), app_nil_r. reflexivity.
Qed.

(* ... and the goal of a Lock() call is the previous pile plus the requested
   locks, fixed for the whole call. *)
Lemma lock_goal pile news a p :
  start pile (CLock news) = Some (a, p) ->
  exists acq rest, p = Loop (mutexes pile ++ news) acq rest /\ a = ATau.
Proof.
  cbn. destruct (insert_all pile news) as [acq rest]. destruct (acq ++ rest); [discriminate|].
  intros H; inversion H; eauto.
Qed.

Definition goal_of (p : pc) : option (list mutex) :=
  match p with
  | Loop g _ _ | Release g _ _ _ | Block g _ _ => Some g
  | _ => None
  end.

Lemma next_keeps_goal p free a p' :
  next p free = Some (a, p') -> goal_of p' = goal_of p \/ exists acq, p' = Idle acq.
Proof.
  destruct p as [pile | g acq rest | g done todo rest | g e others | todo]; cbn; try discriminate.
  - destruct rest as [|e r]; [intros H; inversion H; eauto|].
    destruct acq as [|a0 acq]; [intros H; inversion H; auto|].
    destruct (free (fst e)); intros H; inversion H; auto.
  - destruct todo as [|x todo]; [|intros H; inversion H; auto].
    destruct done as [|a0 acq']; [discriminate|]. destruct rest as [|e r]; [discriminate|].
    intros H; inversion H; auto.
  - intros H; inversion H; auto.
  - destruct todo; intros H; inversion H; eauto.
Qed.

Theorem lock_returns_holding_goal : forall s, reachable s ->
  forall t g acq s', ts s t = Loop g acq [] -> step s t s' ->
  ts s' t = Idle acq /\ forall m, owner s' m = Some t <-> In m g.
Proof.
  intros s Hr t g acq s' Hts Hs.
  destruct (pile_holds_exactly_thm s Hr t) as [_ H2]. specialize (H2 g acq Hts).
  inversion Hs as [s0 t0 a p' ow Hnext Happ | s0 t0 pile c a p' ow Hts' Hstart Happ]; subst.
  - rewrite Hts in Hnext. cbn in Hnext. inversion Hnext; subst. cbn in Happ. inversion Happ; subst.
    cbn. rewrite upd_same. split; [reflexivity | exact H2].
  - congruence.
Qed.

(* No set of threads can be waiting for each other: there is no wait-for
   cycle (or knot) among LockPile users, in any reachable state, for any
   number of threads and mutexes and any interleaving. *)
Theorem no_deadlock_thm : forall s, reachable s ->
  forall S : tid -> Prop, (exists t, S t) ->
  ~ (forall t, S t -> exists m t', waiting s t m /\ owner s m = Some t' /\ S t').
Proof.
  intros s Hr S [t Ht] Hall.
  destruct (Hall t Ht) as (m & t' & _ & Hown & Ht').
  destruct (Hall t' Ht') as (m' & _ & (g & e & others & Hts & _) & _).
  exact (pile_blocks_bare_thm s Hr t' g e others Hts m Hown).
Qed.

(* Whoever owns a mutex somebody waits for can take a step. *)
Theorem owner_of_contended_mutex_can_run : forall s, reachable s ->
  forall t m, waiting s t m -> exists t' s', owner s m = Some t' /\ step s t' s'.
Proof.
  intros s Hr t m (g & e & others & Hts & Hm & Ho).
  destruct (owner s m) as [t'|] eqn:Hown; [|congruence].
  exists t'. destruct (reachable_inv s Hr) as (_ & HO & _ & Hsh).
  pose proof (proj1 (HO m t') Hown) as Hin.
  destruct (ts s t') as [pile | g' acq rest | g' done todo rest | g' e' others' | todo] eqn:Hts'; cbn in Hin.
  - eexists; split; [reflexivity|].
    eapply step_start with (c := CUnlockAll); [exact Hts' | reflexivity | reflexivity].
  - destruct rest as [|e0 r].
    + eexists; split; [reflexivity|]. eapply step_next; [rewrite Hts'; reflexivity | reflexivity].
    + destruct acq as [|a0 acq]; [contradiction|].
      destruct (is_free s (fst e0)) eqn:Hf; (eexists; split; [reflexivity|]);
        (eapply step_next; [rewrite Hts'; cbn; rewrite Hf; reflexivity | reflexivity]).
  - destruct todo as [|x todo]; [contradiction|].
    eexists; split; [reflexivity|]. eapply step_next; [rewrite Hts'; reflexivity | reflexivity].
  - contradiction.
  - destruct todo as [|x todo]; [contradiction|].
    eexists; split; [reflexivity|]. eapply step_next; [rewrite Hts'; reflexivity | reflexivity].
Qed.

(* Mutual exclusion is built into [owner]; what is worth stating is that the
   ghost owner agrees with the piles: two threads never hold the same mutex. *)
Theorem piles_disjoint : forall s, reachable s -> forall t1 t2 m,
  In m (mutexes (held_of (ts s t1))) -> In m (mutexes (held_of (ts s t2))) -> t1 = t2.
Proof.
  intros s Hr t1 t2 m H1 H2. destruct (reachable_inv s Hr) as (_ & HO & _).
  apply HO in H1; apply HO in H2. congruence.
Qed.

(* ---- executable stepping, for examples ------------------------------------ *)

Definition exec_step (s : state) (t : tid) (c : option cmd) : option state :=
  let fire (r : option (action * pc)) :=
    match r with
    | Some (a, p') =>
      match apply_action s t a with
      | Some ow => Some (mkSt ow (upd (ts s) t p'))
      | None => None
      end
    | None => None
    end in
  match c with
  | None => fire (next (ts s t) (is_free s))
  | Some c => match ts s t with Idle pile => fire (start pile c) | _ => None end
  end.

Lemma exec_step_sound s t c s' : exec_step s t c = Some s' -> step s t s'.
Proof.
  unfold exec_step. destruct c as [c|].
  - destruct (ts s t) as [pile| | | |] eqn:Hts; try discriminate.
    destruct (start pile c) as [[a p']|] eqn:Hst; [|discriminate].
    destruct (apply_action s t a) as [ow|] eqn:Ha; [|discriminate].
    intros H; inversion H; subst. exact (step_start s t pile c a p' ow Hts Hst Ha).
  - destruct (next (ts s t) (is_free s)) as [[a p']|] eqn:Hn; [|discriminate].
    destruct (apply_action s t a) as [ow|] eqn:Ha; [|discriminate].
    intros H; inversion H; subst. exact (step_next s t a p' ow Hn Ha).
Qed.

Fixpoint exec_all (s : state) (l : list (tid * option cmd)) : option state :=
  match l with
  | [] => Some s
  | (t, c) :: l' => match exec_step s t c with Some s' => exec_all s' l' | None => None end
  end.

Lemma exec_all_reachable l : forall s s', reachable s -> exec_all s l = Some s' -> reachable s'.
Proof.
  induction l as [|[t c] l IH]; cbn; intros s s' Hr H; [inversion H; subst; assumption|].
  destruct (exec_step s t c) as [s1|] eqn:He; [|discriminate].
  eapply IH; [|exact H]. eapply reach_step; [exact Hr | exact (exec_step_sound s t c s1 He)].
Qed.

(* Non-vacuity: thread 0 holds mutex 1 and wants 2, thread 1 holds 2 and
   wants 1 — the classic deadlock shape.  With LockPile thread 0 backs off:
   it is blocked on 2 holding nothing, and thread 1's TryLock of 1 succeeds. *)
Definition demo_schedule : list (tid * option cmd) :=
  [ (0, Some (CLock [1])); (0, None); (0, None); (0, None);      (* t0 holds 1 *)
    (1, Some (CLock [2])); (1, None); (1, None); (1, None);      (* t1 holds 2 *)
    (0, Some (CLock [2])); (0, None);                            (* TryLock 2 fails *)
    (0, None); (0, None) ].                                      (* unlock 1, swap, block on 2 *)

Example demo_reaches_block :
  exists s, reachable s /\ waiting s 0 2 /\ owner s 1 = None /\ owner s 2 = Some 1.
Proof.
  destruct (exec_all init demo_schedule) as [s|] eqn:He; [|vm_compute in He; discriminate].
  exists s. split; [eapply exec_all_reachable; [apply reach_init | exact He]|].
  vm_compute in He. inversion He; subst; clear He. cbn.
  split; [|split; reflexivity].
  exists [1; 2], (2, 0), [(1, 0)]. cbn. repeat split; discriminate.
Qed.
