(* C14, static part: the lock skeleton language the translator
   (/verif/translator) emits for every function of the packages C14 names,
   its path semantics, an executable abstract interpreter [balanced], and the
   soundness theorem [balanced_sound].

   Reading guide.
   - A lock is identified syntactically: the normalised Go expression the
     method is called on ("i.lock", "hp.lock", "bq.lock").  An [item] is a
     lock together with how it is held: exclusively ([MW]), shared ([MR]) or
     through a LockPile variable ([MP pile]).
   - The locks a thread of control is responsible for are a *signed multiset*
     of items, relative to what it was responsible for when the function was
     entered: Lock adds one, Unlock removes one.  A function such as
     [leave()] that releases a lock its caller acquired therefore has net
     effect -1 and a function such as [enter()] +1; this is what a
     [summary] declares.  Every function without a declared summary must have
     net effect zero on every path that returns: "every call releases
     everything it acquired, whatever its outcome".
   - [exec] is the path semantics: all branch choices, loops any number of
     times, [defer]s run LIFO when the function body is left (by return or by
     panic), calls execute the callee's body in a fresh frame and add the
     callee's net effect (renamed into the caller's names) to the caller.
   - Paths that end in a Go panic are exempt: there is no recover() in the
     analysed packages (the translator fails if one appears), so a panic
     terminates the process.
   - [ai] computes, for a statement and an abstract state, the set of
     (outcome, state) pairs reachable through [exec]; calls are replaced by the
     callee's declared summary.  [fn_ok] checks a function body against its
     own summary.  If every function of the program passes, every path of
     every function has exactly the declared net effect ([balanced_sound]). *)
From Coq Require Import String List ZArith Bool Lia.
Import ListNotations.
Local Open Scope Z_scope.

(* ------------------------------------------------------------------------ *)
(* Items and signed multisets                                               *)

Inductive mode := MW | MR | MP (pile : string).
Definition item := (mode * string)%type.

Definition mode_eqb (a b : mode) : bool :=
  match a, b with
  | MW, MW => true
  | MR, MR => true
  | MP p, MP q => String.eqb p q
  | _, _ => false
  end.

Lemma mode_eqb_spec a b : reflect (a = b) (mode_eqb a b).
Proof.
  destruct a as [| |p], b as [| |q]; cbn; try (constructor; congruence).
  destruct (String.eqb_spec p q); constructor; congruence.
Qed.

Definition item_eqb (a b : item) : bool :=
  mode_eqb (fst a) (fst b) && String.eqb (snd a) (snd b).

Lemma item_eqb_spec a b : reflect (a = b) (item_eqb a b).
Proof.
  destruct a as [m l], b as [m' l']; unfold item_eqb; cbn.
  destruct (mode_eqb_spec m m'); destruct (String.eqb_spec l l'); cbn;
    constructor; congruence.
Qed.

Lemma item_eqb_refl a : item_eqb a a = true.
Proof. destruct (item_eqb_spec a a); congruence. Qed.

Definition smset := list (item * Z).

Fixpoint cnt (h : smset) (i : item) : Z :=
  match h with
  | [] => 0
  | e :: t => (if item_eqb i (fst e) then snd e else 0) + cnt t i
  end.

Definition sm_equiv (a b : smset) : Prop := forall i, cnt a i = cnt b i.

Lemma cnt_app a b i : cnt (a ++ b) i = cnt a i + cnt b i.
Proof. induction a as [|e a IH]; cbn; [reflexivity | rewrite IH; lia]. Qed.

Lemma sm_equiv_refl a : sm_equiv a a.
Proof. intro; reflexivity. Qed.

Lemma sm_equiv_sym a b : sm_equiv a b -> sm_equiv b a.
Proof. intros H i; symmetry; apply H. Qed.

Lemma sm_equiv_trans a b c : sm_equiv a b -> sm_equiv b c -> sm_equiv a c.
Proof. intros H1 H2 i; rewrite H1; apply H2. Qed.

Lemma sm_equiv_app a a' b b' :
  sm_equiv a a' -> sm_equiv b b' -> sm_equiv (a ++ b) (a' ++ b').
Proof. intros H1 H2 i; rewrite !cnt_app, H1, H2; reflexivity. Qed.

Lemma sm_equiv_cons e a b : sm_equiv a b -> sm_equiv (e :: a) (e :: b).
Proof. intros H i; cbn; rewrite H; reflexivity. Qed.

Lemma cnt_notin h i : ~ In i (map fst h) -> cnt h i = 0.
Proof.
  induction h as [|e h IH]; cbn; intros Hn; [reflexivity|].
  destruct (item_eqb_spec i (fst e)) as [->|_].
  - exfalso; apply Hn; left; reflexivity.
  - rewrite IH; [reflexivity | intro; apply Hn; right; assumption].
Qed.

(* Decidable equivalence. *)
Definition sm_eqb (a b : smset) : bool :=
  forallb (fun e => Z.eqb (cnt a (fst e)) (cnt b (fst e))) (a ++ b).

Lemma in_items_dec (i : item) (l : list item) : {In i l} + {~ In i l}.
Proof.
  apply in_dec. intros x y.
  destruct (item_eqb_spec x y); [left | right]; assumption.
Defined.

Lemma sm_eqb_sound a b : sm_eqb a b = true -> sm_equiv a b.
Proof.
  unfold sm_eqb; intros H i. rewrite forallb_forall in H.
  destruct (in_items_dec i (map fst (a ++ b))) as [Hin | Hn].
  - apply in_map_iff in Hin as [e [<- He]]. apply Z.eqb_eq, H, He.
  - rewrite map_app in Hn.
    rewrite !cnt_notin; [reflexivity | |]; intro; apply Hn, in_or_app; auto.
Qed.

(* Items of one LockPile variable. *)
Definition in_pile (p : string) (i : item) : bool :=
  match fst i with MP q => String.eqb p q | _ => false end.

Definition clear_pile (p : string) (h : smset) : smset :=
  filter (fun e => negb (in_pile p (fst e))) h.

Lemma cnt_clear_pile p h i :
  cnt (clear_pile p h) i = if in_pile p i then 0 else cnt h i.
Proof.
  unfold clear_pile. induction h as [|e h IH]; cbn.
  - destruct (in_pile p i); reflexivity.
  - destruct (in_pile p (fst e)) eqn:He; cbn; rewrite IH;
      destruct (in_pile p i) eqn:Hpi;
      destruct (item_eqb_spec i (fst e)) as [Hi|Hi]; subst; try congruence; lia.
Qed.

Definition in_piles (ps : list string) (i : item) : bool :=
  existsb (fun p => in_pile p i) ps.

Definition strip_piles (ps : list string) (h : smset) : smset :=
  filter (fun e => negb (in_piles ps (fst e))) h.

Definition only_piles (ps : list string) (h : smset) : smset :=
  filter (fun e => in_piles ps (fst e)) h.

Lemma strip_only_split ps h : sm_equiv h (strip_piles ps h ++ only_piles ps h).
Proof.
  intro i. induction h as [|e h IH]; cbn; [reflexivity|].
  unfold strip_piles, only_piles in *; cbn.
  destruct (in_piles ps (fst e)); cbn; rewrite IH, !cnt_app; cbn; lia.
Qed.

(* Support of a multiset lies in the given piles. *)
Definition supp_in (ps : list string) (h : smset) : Prop :=
  forall e, In e h -> in_piles ps (fst e) = true.

Lemma supp_in_only ps h : supp_in ps (only_piles ps h).
Proof. intros e He; apply filter_In in He; tauto. Qed.

Lemma supp_in_app ps a b : supp_in ps a -> supp_in ps b -> supp_in ps (a ++ b).
Proof. intros Ha Hb e He; apply in_app_or in He as [|]; auto. Qed.

Lemma in_piles_mono ps qs i :
  (forall p, In p ps -> In p qs) -> in_piles ps i = true -> in_piles qs i = true.
Proof.
  unfold in_piles; rewrite !existsb_exists.
  intros Hs [p [Hp Hi]]; exists p; auto.
Qed.

Lemma supp_in_mono ps qs h :
  (forall p, In p ps -> In p qs) -> supp_in ps h -> supp_in qs h.
Proof. intros Hs Hh e He; eapply in_piles_mono; eauto. Qed.

(* Renaming along a call. *)
Definition map_items (f : item -> item) (h : smset) : smset :=
  map (fun e => (f (fst e), snd e)) h.

Lemma map_items_app f a b : map_items f (a ++ b) = map_items f a ++ map_items f b.
Proof. apply map_app. Qed.

(* [cnt] of an image = sum over the preimage.  The congruence
   [sm_equiv a b -> sm_equiv (map_items f a) (map_items f b)] goes through
   sums over a duplicate-free list covering both supports. *)
Fixpoint cntP (P : item -> bool) (h : smset) : Z :=
  match h with
  | [] => 0
  | e :: t => (if P (fst e) then snd e else 0) + cntP P t
  end.

Lemma cnt_map_items f h j :
  cnt (map_items f h) j = cntP (fun i => item_eqb j (f i)) h.
Proof.
  unfold map_items. induction h as [|e h IH]; cbn; [reflexivity | rewrite <- IH; reflexivity].
Qed.

Fixpoint sumK (K : list item) (g : item -> Z) : Z :=
  match K with [] => 0 | k :: t => g k + sumK t g end.

Lemma sumK_ext K g g' : (forall k, In k K -> g k = g' k) -> sumK K g = sumK K g'.
Proof.
  induction K as [|k K IH]; cbn; intros H; [reflexivity|].
  rewrite H, IH; auto.
Qed.

Lemma sumK_add K g g' : sumK K (fun k => g k + g' k) = sumK K g + sumK K g'.
Proof. induction K as [|k K IH]; cbn; [reflexivity | rewrite IH; lia]. Qed.

Lemma sumK_zero K : sumK K (fun _ => 0) = 0.
Proof. induction K; cbn; lia. Qed.

Lemma sumK_single K i c :
  NoDup K -> In i K -> sumK K (fun k => if item_eqb k i then c else 0) = c.
Proof.
  induction 1 as [|k K Hk Hnd IH]; cbn; intros Hin; [contradiction|].
  destruct Hin as [-> | Hin].
  - rewrite item_eqb_refl.
    rewrite (sumK_ext K _ (fun _ => 0)), sumK_zero; [lia|].
    intros k' Hk'. destruct (item_eqb_spec k' i) as [->|]; [contradiction | reflexivity].
  - destruct (item_eqb_spec k i) as [->|]; [contradiction|].
    rewrite IH; auto.
Qed.

Lemma cntP_sumK P h K :
  NoDup K -> (forall e, In e h -> In (fst e) K) ->
  cntP P h = sumK K (fun k => if P k then cnt h k else 0).
Proof.
  intros Hnd. induction h as [|e h IH]; cbn; intros Hsub.
  - rewrite (sumK_ext K _ (fun _ => 0)), sumK_zero; [reflexivity|].
    intros k _; destruct (P k); reflexivity.
  - rewrite IH by (intros; apply Hsub; right; assumption).
    rewrite (sumK_ext K
       (fun k => if P k then (if item_eqb k (fst e) then snd e else 0) + cnt h k else 0)
       (fun k => (if item_eqb k (fst e) then (if P (fst e) then snd e else 0) else 0)
                 + (if P k then cnt h k else 0))).
    + rewrite sumK_add, sumK_single; [reflexivity | assumption | apply Hsub; left; reflexivity].
    + intros k _. destruct (item_eqb_spec k (fst e)) as [->|]; destruct (P _); lia.
Qed.

Lemma cntP_equiv P a b : sm_equiv a b -> cntP P a = cntP P b.
Proof.
  intros H.
  set (K := nodup (fun x y => match item_eqb_spec x y with ReflectT _ e => left e | ReflectF _ n => right n end)
                  (map fst (a ++ b))).
  assert (HK : NoDup K) by apply NoDup_nodup.
  assert (Hin : forall e, In e (a ++ b) -> In (fst e) K).
  { intros e He. apply nodup_In, in_map, He. }
  rewrite (cntP_sumK P a K), (cntP_sumK P b K); auto.
  - apply sumK_ext; intros k _; rewrite H; reflexivity.
  - intros e He; apply Hin, in_or_app; auto.
  - intros e He; apply Hin, in_or_app; auto.
Qed.

Lemma map_items_equiv f a b :
  sm_equiv a b -> sm_equiv (map_items f a) (map_items f b).
Proof. intros H j; rewrite !cnt_map_items; apply cntP_equiv, H. Qed.

(* ------------------------------------------------------------------------ *)
(* Syntax                                                                   *)

Fixpoint amap (m : list (string * string)) (x : string) : string :=
  match m with
  | [] => x
  | (k, v) :: t => if String.eqb k x then v else amap t x
  end.

(* How a callee's names (receiver/parameter-rooted lock expressions, LockPile
   parameters) read in the caller. *)
Record subst := mkS { s_piles : list (string * string); s_locks : list (string * string) }.

Definition rename_pile (sg : subst) (p : string) : string := amap (s_piles sg) p.

Definition rename (sg : subst) (i : item) : item :=
  (match fst i with MP p => MP (rename_pile sg p) | m => m end, amap (s_locks sg) (snd i)).

Inductive stmt :=
| Skip
| Acq (i : item)                 (* Lock / RLock / lockPile.Lock(&l) *)
| Rel (i : item)                 (* Unlock / RUnlock / lockPile.Unlock(&l) *)
| PileUnlockAll (p : string)
| Defer (s : stmt)
| Call (f : string) (sg : subst) (* also: go f(), with the locks handed over *)
| Return | Panic | Break | Continue
| If (a b : stmt)                (* either branch *)
| Loop (inf : bool) (a : stmt)   (* [inf]: a `for {}` that is only left by break/return *)
| Seq (a b : stmt)
| Scope (a : stmt)               (* body of an inlined closure: return ends the closure *)
| SetFlag (x : string) (v : bool)       (* local bool assigned constants only *)
| IfFlag (x : string) (a b : stmt).     (* if x {a} else {b} *)

(* The translator's vocabulary. *)
Definition Lock (l : string) := Acq (MW, l).
Definition Unlock (l : string) := Rel (MW, l).
Definition RLock (l : string) := Acq (MR, l).
Definition RUnlock (l : string) := Rel (MR, l).
Definition PileLock (p l : string) := Acq (MP p, l).
Definition PileUnlock (p l : string) := Rel (MP p, l).
Fixpoint Seqs (l : list stmt) : stmt :=
  match l with [] => Skip | [s] => s | s :: t => Seq s (Seqs t) end.
Fixpoint Alts (l : list stmt) : stmt :=
  match l with [] => Skip | [s] => s | s :: t => If s (Alts t) end.

Definition mode_eq_dec (a b : mode) : {a = b} + {a <> b}.
Proof. decide equality; apply string_dec. Defined.
Definition item_eq_dec (a b : item) : {a = b} + {a <> b}.
Proof. decide equality; [apply string_dec | apply mode_eq_dec]. Defined.
Definition subst_eq_dec (a b : subst) : {a = b} + {a <> b}.
Proof.
  decide equality; apply list_eq_dec; decide equality; apply string_dec.
Defined.
Definition stmt_eq_dec (a b : stmt) : {a = b} + {a <> b}.
Proof.
  decide equality; try apply string_dec; try apply bool_dec;
    try apply item_eq_dec; apply subst_eq_dec.
Defined.

Fixpoint nodefer (s : stmt) : bool :=
  match s with
  | Defer _ => false
  | If a b | Seq a b | IfFlag _ a b => nodefer a && nodefer b
  | Loop _ a | Scope a => nodefer a
  | _ => true
  end.

(* Deferred statements, most recent first, as one statement. *)
Fixpoint unwind (ds : list stmt) : stmt :=
  match ds with [] => Skip | d :: t => Seq (Scope d) (unwind t) end.

Record summary := mkSum {
  s_delta : smset;          (* net effect on the caller, in the callee's names *)
  s_dirty : list string }.  (* LockPile parameters it may add locks to *)

Definition neutral : summary := mkSum [] [].

Definition program := list (string * (stmt * summary)).

Fixpoint assoc {A} (k : string) (l : list (string * A)) : option A :=
  match l with
  | [] => None
  | (k', v) :: t => if String.eqb k k' then Some v else assoc k t
  end.

(* ------------------------------------------------------------------------ *)
(* Path semantics                                                           *)

Record frame := mkF {
  held : smset;                     (* signed, relative to function entry *)
  flags : list (string * bool);
  defers : list stmt }.

Definition frame0 : frame := mkF [] [] [].

Inductive outcome := ONormal | OBreak | OContinue | OReturn | OPanic.

Definition descope (o : outcome) : outcome :=
  match o with OPanic => OPanic | _ => ONormal end.

Definition call_outcome (o1 o2 : outcome) : outcome :=
  match o1, o2 with
  | OPanic, _ => OPanic
  | _, OPanic => OPanic
  | _, _ => ONormal
  end.

Definition lookup_flag (x : string) (fl : list (string * bool)) : option bool := assoc x fl.

Section Semantics.
Variable prog : program.

Inductive exec : stmt -> frame -> outcome -> frame -> Prop :=
| E_Skip fr : exec Skip fr ONormal fr
| E_Acq i fr : exec (Acq i) fr ONormal (mkF ((i, 1) :: held fr) (flags fr) (defers fr))
| E_Rel i fr : exec (Rel i) fr ONormal (mkF ((i, -1) :: held fr) (flags fr) (defers fr))
| E_PileUnlockAll p fr :
    exec (PileUnlockAll p) fr ONormal (mkF (clear_pile p (held fr)) (flags fr) (defers fr))
| E_Defer s fr : exec (Defer s) fr ONormal (mkF (held fr) (flags fr) (s :: defers fr))
| E_SetFlag x v fr : exec (SetFlag x v) fr ONormal (mkF (held fr) ((x, v) :: flags fr) (defers fr))
| E_IfFlagT x a b fr o fr' :
    lookup_flag x (flags fr) <> Some false -> exec a fr o fr' -> exec (IfFlag x a b) fr o fr'
| E_IfFlagF x a b fr o fr' :
    lookup_flag x (flags fr) <> Some true -> exec b fr o fr' -> exec (IfFlag x a b) fr o fr'
| E_IfL a b fr o fr' : exec a fr o fr' -> exec (If a b) fr o fr'
| E_IfR a b fr o fr' : exec b fr o fr' -> exec (If a b) fr o fr'
| E_SeqN a b fr fr1 o fr2 : exec a fr ONormal fr1 -> exec b fr1 o fr2 -> exec (Seq a b) fr o fr2
| E_SeqX a b fr o fr1 : exec a fr o fr1 -> o <> ONormal -> exec (Seq a b) fr o fr1
| E_Return fr : exec Return fr OReturn fr
| E_Panic fr : exec Panic fr OPanic fr
| E_Break fr : exec Break fr OBreak fr
| E_Continue fr : exec Continue fr OContinue fr
| E_LoopExit a fr : exec (Loop false a) fr ONormal fr
| E_LoopIter inf a fr o fr1 o' fr2 :
    exec a fr o fr1 -> o = ONormal \/ o = OContinue ->
    exec (Loop inf a) fr1 o' fr2 -> exec (Loop inf a) fr o' fr2
| E_LoopBreak inf a fr fr1 : exec a fr OBreak fr1 -> exec (Loop inf a) fr ONormal fr1
| E_LoopAbrupt inf a fr o fr1 :
    exec a fr o fr1 -> o = OReturn \/ o = OPanic -> exec (Loop inf a) fr o fr1
| E_Scope a fr o fr' : exec a fr o fr' -> exec (Scope a) fr (descope o) fr'
| E_Call f sg body sm fr o1 fr1 o2 fr2 :
    assoc f prog = Some (body, sm) ->
    exec body frame0 o1 fr1 -> o1 <> OBreak -> o1 <> OContinue ->
    exec (unwind (defers fr1)) (mkF (held fr1) (flags fr1) []) o2 fr2 ->
    exec (Call f sg) fr (call_outcome o1 o2)
         (mkF (map_items (rename sg) (held fr2) ++ held fr) (flags fr) (defers fr)).

(* One complete run of function [f] that returns (does not panic): its body,
   then its deferred statements; [h] is the net effect on the locks held. *)
Definition fn_returns (f : string) (h : smset) : Prop :=
  exists body sm o1 fr1 fr2,
    assoc f prog = Some (body, sm) /\
    exec body frame0 o1 fr1 /\ (o1 = ONormal \/ o1 = OReturn) /\
    exec (unwind (defers fr1)) (mkF (held fr1) (flags fr1) []) ONormal fr2 /\
    h = held fr2.

(* ------------------------------------------------------------------------ *)
(* Abstract interpreter                                                     *)

Record astate := mkA {
  a_held : smset;
  a_flags : list (string * bool);
  a_defers : list stmt;
  a_dirty : list string }.   (* piles that may hold additional, unknown locks *)

Definition a0 : astate := mkA [] [] [] [].
Definition outs := list (outcome * astate).

Definition outcome_eqb (a b : outcome) : bool :=
  match a, b with
  | ONormal, ONormal | OBreak, OBreak | OContinue, OContinue
  | OReturn, OReturn | OPanic, OPanic => true
  | _, _ => false
  end.

Lemma outcome_eqb_eq a b : outcome_eqb a b = true -> a = b.
Proof. destruct a, b; cbn; congruence. Qed.

Definition optb_eqb (a b : option bool) : bool :=
  match a, b with
  | None, None => true
  | Some x, Some y => Bool.eqb x y
  | _, _ => false
  end.

Definition flags_eqb (a b : list (string * bool)) : bool :=
  forallb (fun k => optb_eqb (lookup_flag k a) (lookup_flag k b)) (map fst a ++ map fst b).

Definition subset (a b : list string) : bool :=
  forallb (fun x => existsb (String.eqb x) b) a.

Definition defers_eqb (a b : list stmt) : bool :=
  if list_eq_dec stmt_eq_dec a b then true else false.

Definition aeqb (a b : astate) : bool :=
  sm_eqb (a_held a) (a_held b) && flags_eqb (a_flags a) (a_flags b)
  && defers_eqb (a_defers a) (a_defers b)
  && subset (a_dirty a) (a_dirty b) && subset (a_dirty b) (a_dirty a).

Definition oeqb (x y : outcome * astate) : bool :=
  outcome_eqb (fst x) (fst y) && aeqb (snd x) (snd y).

Fixpoint dedup (l : outs) : outs :=
  match l with
  | [] => []
  | x :: t => let t' := dedup t in if existsb (oeqb x) t' then t' else x :: t'
  end.

Fixpoint bind_outs (l : outs) (k : astate -> option outs) : option outs :=
  match l with
  | [] => Some []
  | (o, a) :: t =>
    match (match o with ONormal => k a | _ => Some [(o, a)] end), bind_outs t k with
    | Some x, Some y => Some (x ++ y)
    | _, _ => None
    end
  end.

Definition loop_exit (oa : outcome * astate) : outs :=
  match fst oa with
  | OBreak => [(ONormal, snd oa)]
  | OReturn | OPanic => [oa]
  | _ => []
  end.

Definition back_edge_ok (a : astate) (oa : outcome * astate) : bool :=
  match fst oa with
  | ONormal | OContinue => aeqb (snd oa) a
  | _ => true
  end.

Fixpoint ai (s : stmt) (a : astate) {struct s} : option outs :=
  match s with
  | Skip => Some [(ONormal, a)]
  | Acq i => Some [(ONormal, mkA ((i, 1) :: a_held a) (a_flags a) (a_defers a) (a_dirty a))]
  | Rel i => Some [(ONormal, mkA ((i, -1) :: a_held a) (a_flags a) (a_defers a) (a_dirty a))]
  | PileUnlockAll p =>
    Some [(ONormal, mkA (clear_pile p (a_held a)) (a_flags a) (a_defers a)
                        (filter (fun q => negb (String.eqb p q)) (a_dirty a)))]
  | Defer d =>
    if nodefer d then Some [(ONormal, mkA (a_held a) (a_flags a) (d :: a_defers a) (a_dirty a))]
    else None
  | SetFlag x v => Some [(ONormal, mkA (a_held a) ((x, v) :: a_flags a) (a_defers a) (a_dirty a))]
  | IfFlag x p q =>
    match lookup_flag x (a_flags a) with
    | Some true => ai p a
    | Some false => ai q a
    | None => match ai p a, ai q a with
              | Some o1, Some o2 => Some (dedup (o1 ++ o2))
              | _, _ => None
              end
    end
  | If p q =>
    match ai p a, ai q a with
    | Some o1, Some o2 => Some (dedup (o1 ++ o2))
    | _, _ => None
    end
  | Seq p q =>
    match ai p a with
    | None => None
    | Some o1 => option_map dedup (bind_outs o1 (ai q))
    end
  | Return => Some [(OReturn, a)]
  | Panic => Some [(OPanic, a)]
  | Break => Some [(OBreak, a)]
  | Continue => Some [(OContinue, a)]
  | Loop inf p =>
    match ai p a with
    | None => None
    | Some o1 =>
      if forallb (back_edge_ok a) o1
      then Some (dedup ((if inf then [] else [(ONormal, a)]) ++ flat_map loop_exit o1))
      else None
    end
  | Scope p => option_map (map (fun oa => (descope (fst oa), snd oa))) (ai p a)
  | Call f sg =>
    match assoc f prog with
    | None => None
    | Some (_, sm) =>
      Some [(ONormal, mkA (map_items (rename sg) (s_delta sm) ++ a_held a) (a_flags a) (a_defers a)
                          (map (rename_pile sg) (s_dirty sm) ++ a_dirty a))]
    end
  end.

(* Final states of a function, compared with its summary. *)
Definition final_ok (sm : summary) (a : astate) : bool :=
  sm_eqb (strip_piles (s_dirty sm) (a_held a)) (s_delta sm) && subset (a_dirty a) (s_dirty sm).

Definition after_defers_ok (sm : summary) (oa : outcome * astate) : bool :=
  match fst oa with
  | OPanic => true
  | ONormal => final_ok sm (snd oa)
  | _ => false
  end.

Definition exit_ok (sm : summary) (oa : outcome * astate) : bool :=
  match fst oa with
  | OPanic => true
  | OBreak | OContinue => false
  | _ =>
    let a1 := snd oa in
    match ai (unwind (a_defers a1)) (mkA (a_held a1) (a_flags a1) [] (a_dirty a1)) with
    | None => false
    | Some o2 => forallb (after_defers_ok sm) o2
    end
  end.

Definition fn_ok (body : stmt) (sm : summary) : bool :=
  match ai body a0 with
  | None => false
  | Some o1 => forallb (exit_ok sm) o1
  end.

Definition balanced (f : string) : bool :=
  match assoc f prog with
  | None => false
  | Some (body, sm) => fn_ok body sm
  end.

(* ------------------------------------------------------------------------ *)
(* Soundness                                                                *)

Definition abs_rel (a : astate) (fr : frame) : Prop :=
  (exists extra, supp_in (a_dirty a) extra /\ sm_equiv (held fr) (a_held a ++ extra)) /\
  (forall x, lookup_flag x (flags fr) = lookup_flag x (a_flags a)) /\
  defers fr = a_defers a.

Lemma subset_sound a b : subset a b = true -> forall x, In x a -> In x b.
Proof.
  unfold subset; rewrite forallb_forall; intros H x Hx.
  specialize (H x Hx). apply existsb_exists in H as [y [Hy He]].
  apply String.eqb_eq in He; subst; assumption.
Qed.

Lemma assoc_notin {A} k (l : list (string * A)) : ~ In k (map fst l) -> assoc k l = None.
Proof.
  induction l as [|[k' v] l IH]; cbn; intros Hn; [reflexivity|].
  destruct (String.eqb_spec k k') as [->|_]; [exfalso; apply Hn; auto|].
  apply IH; intro; apply Hn; auto.
Qed.

Lemma optb_eqb_eq a b : optb_eqb a b = true -> a = b.
Proof.
  destruct a as [[]|], b as [[]|]; cbn; congruence.
Qed.

Lemma flags_eqb_sound a b :
  flags_eqb a b = true -> forall x, lookup_flag x a = lookup_flag x b.
Proof.
  unfold flags_eqb; rewrite forallb_forall; intros H x.
  destruct (in_dec string_dec x (map fst a ++ map fst b)) as [Hin|Hn].
  - apply optb_eqb_eq, H, Hin.
  - unfold lookup_flag; rewrite !assoc_notin; [reflexivity | |];
      intro; apply Hn, in_or_app; auto.
Qed.

Lemma abs_rel_aeqb a b fr : aeqb a b = true -> abs_rel a fr -> abs_rel b fr.
Proof.
  unfold aeqb; rewrite !andb_true_iff.
  intros [[[[Hh Hf] Hd] Hs1] Hs2] [[extra [Hsup Heq]] [Hfl Hdf]].
  apply sm_eqb_sound in Hh. pose proof (flags_eqb_sound _ _ Hf) as Hf'.
  unfold defers_eqb in Hd. destruct (list_eq_dec stmt_eq_dec _ _) as [Hd'|]; [|discriminate].
  repeat split.
  - exists extra; split.
    + eapply supp_in_mono; [apply subset_sound, Hs1 | exact Hsup].
    + eapply sm_equiv_trans; [exact Heq | apply sm_equiv_app; [exact Hh | apply sm_equiv_refl]].
  - intro x; rewrite Hfl; apply Hf'.
  - congruence.
Qed.

Lemma dedup_in o a l :
  In (o, a) l -> exists a', In (o, a') (dedup l) /\ (a' = a \/ aeqb a a' = true).
Proof.
  induction l as [|x t IH]; cbn; [contradiction|].
  intros [-> | Hin].
  - destruct (existsb (oeqb (o, a)) (dedup t)) eqn:He.
    + apply existsb_exists in He as [[o' a'] [Hy Hq]].
      unfold oeqb in Hq; cbn in Hq. apply andb_true_iff in Hq as [Ho Ha].
      apply outcome_eqb_eq in Ho; subst o'. exists a'; auto.
    + exists a; split; [left; reflexivity | left; reflexivity].
  - destruct (IH Hin) as [a' [Hin' Hr]].
    destruct (existsb (oeqb x) (dedup t)); exists a'; split; auto. right; assumption.
Qed.

Lemma abs_rel_weak a a' fr : (a' = a \/ aeqb a a' = true) -> abs_rel a fr -> abs_rel a' fr.
Proof. intros [-> | H]; [auto | apply abs_rel_aeqb, H]. Qed.

Lemma bind_outs_normal l k o1s a1 o a' r :
  bind_outs l k = Some r -> In (ONormal, a1) l -> k a1 = Some o1s -> In (o, a') o1s ->
  In (o, a') r.
Proof.
  revert r; induction l as [|[o0 a00] t IH]; cbn; intros r Hb Hin Hk Ho; [contradiction|].
  destruct (match o0 with ONormal => k a00 | _ => Some [(o0, a00)] end) as [x|] eqn:Hx; [|discriminate].
  destruct (bind_outs t k) as [y|] eqn:Hy; [|discriminate].
  inversion Hb; subst r. apply in_or_app.
  destruct Hin as [Heq | Hin].
  - inversion Heq; subst o0 a00. left. rewrite Hk in Hx; inversion Hx; subst; assumption.
  - right. eapply IH; eauto.
Qed.

Lemma bind_outs_abrupt l k o a r :
  bind_outs l k = Some r -> In (o, a) l -> o <> ONormal -> In (o, a) r.
Proof.
  revert r; induction l as [|[o0 a00] t IH]; cbn; intros r Hb Hin Hne; [contradiction|].
  destruct (match o0 with ONormal => k a00 | _ => Some [(o0, a00)] end) as [x|] eqn:Hx; [|discriminate].
  destruct (bind_outs t k) as [y|] eqn:Hy; [|discriminate].
  inversion Hb; subst r. apply in_or_app.
  destruct Hin as [Heq | Hin].
  - inversion Heq; subst o0 a00. left.
    destruct o; try congruence; inversion Hx; left; reflexivity.
  - right. eapply IH; eauto.
Qed.

Lemma bind_outs_some l k r a1 :
  bind_outs l k = Some r -> In (ONormal, a1) l -> exists o1s, k a1 = Some o1s.
Proof.
  revert r; induction l as [|[o0 a00] t IH]; cbn; intros r Hb Hin; [contradiction|].
  destruct (match o0 with ONormal => k a00 | _ => Some [(o0, a00)] end) as [x|] eqn:Hx; [|discriminate].
  destruct (bind_outs t k) as [y|] eqn:Hy; [|discriminate].
  destruct Hin as [Heq | Hin].
  - inversion Heq; subst o0 a00. eauto.
  - eapply IH; eauto.
Qed.

Definition all_ok : Prop :=
  forall f body sm, assoc f prog = Some (body, sm) -> fn_ok body sm = true.

Lemma abs_rel_0 : abs_rel a0 frame0.
Proof.
  repeat split. exists []; split; [intros e [] | apply sm_equiv_refl].
Qed.

(* What a checked function contributes to its caller. *)
Definition meets (sm : summary) (h : smset) : Prop :=
  exists extra, supp_in (s_dirty sm) extra /\ sm_equiv h (s_delta sm ++ extra).

Lemma final_ok_meets sm a fr :
  final_ok sm a = true -> abs_rel a fr -> meets sm (held fr).
Proof.
  unfold final_ok; rewrite andb_true_iff; intros [Hq Hs] [[extra [Hsup Heq]] _].
  apply sm_eqb_sound in Hq.
  exists (only_piles (s_dirty sm) (a_held a) ++ extra); split.
  - apply supp_in_app; [apply supp_in_only|].
    eapply supp_in_mono; [apply subset_sound, Hs | exact Hsup].
  - intro i. rewrite Heq, !cnt_app, (strip_only_split (s_dirty sm) (a_held a) i), cnt_app, Hq. lia.
Qed.

Lemma in_piles_rename sg ps i :
  in_piles ps i = true -> in_piles (map (rename_pile sg) ps) (rename sg i) = true.
Proof.
  unfold in_piles; rewrite !existsb_exists. intros [p [Hp Hi]].
  exists (rename_pile sg p); split; [apply in_map, Hp|].
  unfold in_pile in *; destruct i as [[| |q] l]; cbn in *; try discriminate.
  apply String.eqb_eq in Hi; subst; apply String.eqb_refl.
Qed.

Lemma supp_in_rename sg ps h :
  supp_in ps h -> supp_in (map (rename_pile sg) ps) (map_items (rename sg) h).
Proof.
  intros H e He. apply in_map_iff in He as [e0 [<- He0]]; cbn.
  apply in_piles_rename, H, He0.
Qed.

Section Sound.
Hypothesis Hall : all_ok.

Lemma exec_sound s fr o fr' :
  exec s fr o fr' -> o <> OPanic ->
  forall a r, abs_rel a fr -> ai s a = Some r ->
  exists a', In (o, a') r /\ abs_rel a' fr'.
Proof.
  induction 1; intros Hnp a0' r Hrel Hai; cbn in Hai.
  - (* Skip *) inversion Hai; subst; eexists; split; [left; reflexivity | assumption].
  - (* Acq *)
    inversion Hai; subst; eexists; split; [left; reflexivity|].
    destruct Hrel as [[extra [Hs He]] [Hf Hd]]; repeat split; cbn; auto.
    exists extra; split; [assumption | apply sm_equiv_cons with (e := (i, 1)) in He; exact He].
  - (* Rel *)
    inversion Hai; subst; eexists; split; [left; reflexivity|].
    destruct Hrel as [[extra [Hs He]] [Hf Hd]]; repeat split; cbn; auto.
    exists extra; split; [assumption | apply sm_equiv_cons with (e := (i, -1)) in He; exact He].
  - (* PileUnlockAll *)
    inversion Hai; subst; eexists; split; [left; reflexivity|].
    destruct Hrel as [[extra [Hs He]] [Hf Hd]]; repeat split; cbn; auto.
    exists (clear_pile p extra); split.
    + intros e Hin. apply filter_In in Hin as [Hin Hnp'].
      specialize (Hs e Hin). unfold in_piles in *. rewrite existsb_exists in *.
      destruct Hs as [q [Hq Hiq]]. exists q; split; [|assumption].
      apply filter_In; split; [assumption|].
      destruct (String.eqb_spec p q) as [->|]; [|reflexivity].
      rewrite Hiq in Hnp'; discriminate.
    + intro j. rewrite cnt_app, !cnt_clear_pile. rewrite (He j), cnt_app.
      destruct (in_pile p j); lia.
  - (* Defer *)
    destruct (nodefer s); [|discriminate].
    inversion Hai; subst; eexists; split; [left; reflexivity|].
    destruct Hrel as [Hh [Hf Hd]]; repeat split; cbn; auto. congruence.
  - (* SetFlag *)
    inversion Hai; subst; eexists; split; [left; reflexivity|].
    destruct Hrel as [Hh [Hf Hd]]; repeat split; cbn; auto.
    intro y; unfold lookup_flag in *; cbn. destruct (String.eqb y x); auto.
  - (* IfFlagT *)
    destruct Hrel as [Hh [Hf Hd]]. rewrite (Hf x) in H.
    destruct (lookup_flag x (a_flags a0')) as [[]|] eqn:Hl; try congruence.
    + eapply IHexec; eauto. repeat split; auto.
    + destruct (ai a a0') as [o1|] eqn:Hai1; [|discriminate].
      destruct (ai b a0') as [o2|] eqn:Hai2; [|discriminate].
      inversion Hai; subst.
      destruct (IHexec Hnp a0' o1) as [a' [Hin Hr]]; [repeat split; auto | exact Hai1|].
      destruct (dedup_in o a' (o1 ++ o2)) as [a'' [Hin' Hw]]; [apply in_or_app; auto|].
      exists a''; split; [assumption | eapply abs_rel_weak; eauto].
  - (* IfFlagF *)
    destruct Hrel as [Hh [Hf Hd]]. rewrite (Hf x) in H.
    destruct (lookup_flag x (a_flags a0')) as [[]|] eqn:Hl; try congruence.
    + eapply IHexec; eauto. repeat split; auto.
    + destruct (ai a a0') as [o1|] eqn:Hai1; [|discriminate].
      destruct (ai b a0') as [o2|] eqn:Hai2; [|discriminate].
      inversion Hai; subst.
      destruct (IHexec Hnp a0' o2) as [a' [Hin Hr]]; [repeat split; auto | exact Hai2|].
      destruct (dedup_in o a' (o1 ++ o2)) as [a'' [Hin' Hw]]; [apply in_or_app; auto|].
      exists a''; split; [assumption | eapply abs_rel_weak; eauto].
  - (* IfL *)
    destruct (ai a a0') as [o1|] eqn:Hai1; [|discriminate].
    destruct (ai b a0') as [o2|] eqn:Hai2; [|discriminate].
    inversion Hai; subst.
    destruct (IHexec Hnp a0' o1 Hrel Hai1) as [a' [Hin Hr]].
    destruct (dedup_in o a' (o1 ++ o2)) as [a'' [Hin' Hw]]; [apply in_or_app; auto|].
    exists a''; split; [assumption | eapply abs_rel_weak; eauto].
  - (* IfR *)
    destruct (ai a a0') as [o1|] eqn:Hai1; [|discriminate].
    destruct (ai b a0') as [o2|] eqn:Hai2; [|discriminate].
    inversion Hai; subst.
    destruct (IHexec Hnp a0' o2 Hrel Hai2) as [a' [Hin Hr]].
    destruct (dedup_in o a' (o1 ++ o2)) as [a'' [Hin' Hw]]; [apply in_or_app; auto|].
    exists a''; split; [assumption | eapply abs_rel_weak; eauto].
  - (* SeqN *)
    destruct (ai a a0') as [o1|] eqn:Hai1; [|discriminate].
    destruct (bind_outs o1 (ai b)) as [r0|] eqn:Hb; [|discriminate].
    inversion Hai; subst.
    destruct (IHexec1 ltac:(discriminate) a0' o1 Hrel Hai1) as [a1 [Hin1 Hr1]].
    destruct (bind_outs_some _ _ _ _ Hb Hin1) as [o1s Hk].
    destruct (IHexec2 Hnp a1 o1s Hr1 Hk) as [a2 [Hin2 Hr2]].
    pose proof (bind_outs_normal _ _ _ _ _ _ _ Hb Hin1 Hk Hin2) as Hin3.
    destruct (dedup_in _ _ _ Hin3) as [a'' [Hin' Hw]].
    exists a''; split; [assumption | eapply abs_rel_weak; eauto].
  - (* SeqX *)
    destruct (ai a a0') as [o1|] eqn:Hai1; [|discriminate].
    destruct (bind_outs o1 (ai b)) as [r0|] eqn:Hb; [|discriminate].
    inversion Hai; subst.
    destruct (IHexec Hnp a0' o1 Hrel Hai1) as [a1 [Hin1 Hr1]].
    pose proof (bind_outs_abrupt _ _ _ _ _ Hb Hin1 H0) as Hin3.
    destruct (dedup_in _ _ _ Hin3) as [a'' [Hin' Hw]].
    exists a''; split; [assumption | eapply abs_rel_weak; eauto].
  - (* Return *) inversion Hai; subst; eexists; split; [left; reflexivity | assumption].
  - (* Panic *) congruence.
  - (* Break *) inversion Hai; subst; eexists; split; [left; reflexivity | assumption].
  - (* Continue *) inversion Hai; subst; eexists; split; [left; reflexivity | assumption].
  - (* LoopExit *)
    destruct (ai a a0') as [o1|] eqn:Hai1; [|discriminate].
    destruct (forallb (back_edge_ok a0') o1) eqn:Hbe; [|discriminate].
    inversion Hai; subst.
    destruct (dedup_in ONormal a0' ([(ONormal, a0')] ++ flat_map loop_exit o1)) as [a'' [Hin' Hw]];
      [left; reflexivity|].
    exists a''; split; [assumption | eapply abs_rel_weak; eauto].
  - (* LoopIter *)
    destruct (ai a a0') as [o1|] eqn:Hai1; [|discriminate].
    destruct (forallb (back_edge_ok a0') o1) eqn:Hbe; [|discriminate].
    assert (Ho : o <> OPanic) by (destruct H0; subst; discriminate).
    destruct (IHexec1 Ho a0' o1 Hrel Hai1) as [a1 [Hin1 Hr1]].
    pose proof (proj1 (forallb_forall _ _) Hbe _ Hin1) as Hb1.
    unfold back_edge_ok in Hb1; cbn in Hb1.
    assert (Hq : aeqb a1 a0' = true) by (destruct H0; subst; assumption).
    apply (abs_rel_aeqb _ _ _ Hq) in Hr1.
    apply (IHexec2 Hnp a0' r Hr1). cbn. rewrite Hai1, Hbe. exact Hai.
  - (* LoopBreak *)
    destruct (ai a a0') as [o1|] eqn:Hai1; [|discriminate].
    destruct (forallb (back_edge_ok a0') o1) eqn:Hbe; [|discriminate].
    inversion Hai; subst.
    destruct (IHexec ltac:(discriminate) a0' o1 Hrel Hai1) as [a1 [Hin1 Hr1]].
    assert (Hin : In (ONormal, a1) ((if inf then [] else [(ONormal, a0')]) ++ flat_map loop_exit o1)).
    { apply in_or_app; right. apply in_flat_map. exists (OBreak, a1); split; [assumption | left; reflexivity]. }
    destruct (dedup_in _ _ _ Hin) as [a'' [Hin' Hw]].
    exists a''; split; [assumption | eapply abs_rel_weak; eauto].
  - (* LoopAbrupt *)
    destruct (ai a a0') as [o1|] eqn:Hai1; [|discriminate].
    destruct (forallb (back_edge_ok a0') o1) eqn:Hbe; [|discriminate].
    inversion Hai; subst.
    destruct H0 as [-> | ->]; [|congruence].
    destruct (IHexec ltac:(discriminate) a0' o1 Hrel Hai1) as [a1 [Hin1 Hr1]].
    assert (Hin : In (OReturn, a1) ((if inf then [] else [(ONormal, a0')]) ++ flat_map loop_exit o1)).
    { apply in_or_app; right. apply in_flat_map. exists (OReturn, a1); split; [assumption | left; reflexivity]. }
    destruct (dedup_in _ _ _ Hin) as [a'' [Hin' Hw]].
    exists a''; split; [assumption | eapply abs_rel_weak; eauto].
  - (* Scope *)
    destruct (ai a a0') as [o1|] eqn:Hai1; [|discriminate].
    inversion Hai; subst.
    assert (Ho : o <> OPanic) by (destruct o; cbn in Hnp; congruence).
    destruct (IHexec Ho a0' o1 Hrel Hai1) as [a1 [Hin1 Hr1]].
    exists a1; split; [|assumption].
    apply in_map_iff. exists (o, a1); split; [reflexivity | assumption].
  - (* Call *)
    rewrite H in Hai. inversion Hai; subst r; clear Hai.
    assert (Ho1 : o1 <> OPanic) by (destruct o1; cbn in Hnp; congruence).
    assert (Ho2 : o2 <> OPanic) by (destruct o1, o2; cbn in Hnp; congruence).
    pose proof (Hall _ _ _ H) as Hok. unfold fn_ok in Hok.
    destruct (ai body a0) as [o1s|] eqn:Hb; [|discriminate].
    destruct (IHexec1 Ho1 a0 o1s abs_rel_0 Hb) as [a1 [Hin1 Hr1]].
    pose proof (proj1 (forallb_forall _ _) Hok _ Hin1) as Hx.
    unfold exit_ok in Hx; cbn in Hx.
    destruct Hr1 as [Hh1 [Hf1 Hd1]].
    assert (Hx' : match ai (unwind (a_defers a1)) (mkA (a_held a1) (a_flags a1) [] (a_dirty a1)) with
                  | Some o2s => forallb (after_defers_ok sm) o2s
                  | None => false end = true) by (destruct o1; congruence).
    clear Hx.
    destruct (ai (unwind (a_defers a1)) _) as [o2s|] eqn:Hu; [|discriminate].
    rewrite Hd1 in IHexec2.
    destruct (IHexec2 Ho2 (mkA (a_held a1) (a_flags a1) [] (a_dirty a1)) o2s) as [a2 [Hin2 Hr2]];
      [repeat split; cbn; auto | exact Hu |].
    pose proof (proj1 (forallb_forall _ _) Hx' _ Hin2) as Hy.
    unfold after_defers_ok in Hy; cbn in Hy.
    assert (Hn2 : o2 = ONormal) by (destruct o2; congruence). subst o2.
    destruct (final_ok_meets _ _ _ Hy Hr2) as [ex2 [Hs2 He2]].
    destruct Hrel as [[ex [Hs He]] [Hf Hd]].
    exists (mkA (map_items (rename sg) (s_delta sm) ++ a_held a0') (a_flags a0') (a_defers a0')
                (map (rename_pile sg) (s_dirty sm) ++ a_dirty a0')).
    split.
    { replace (call_outcome o1 ONormal) with ONormal by (destruct o1; cbn; congruence).
      left; reflexivity. }
    repeat split; cbn; auto.
    exists (map_items (rename sg) ex2 ++ ex); split.
    + apply supp_in_app.
      * eapply supp_in_mono; [|apply supp_in_rename, Hs2]. intros; apply in_or_app; auto.
      * eapply supp_in_mono; [|exact Hs]. intros; apply in_or_app; auto.
    + intro j. rewrite !cnt_app.
      rewrite (map_items_equiv (rename sg) _ _ He2 j), map_items_app, cnt_app, (He j), cnt_app. lia.
Qed.

End Sound.

Lemma assoc_in {A} k (l : list (string * A)) v : assoc k l = Some v -> In k (map fst l).
Proof.
  induction l as [|[k' v'] l IH]; cbn; [discriminate|].
  destruct (String.eqb_spec k k') as [->|_]; auto.
Qed.

Lemma all_ok_of_bool : forallb balanced (map fst prog) = true -> all_ok.
Proof.
  intros H f body sm Hf. rewrite forallb_forall in H.
  specialize (H f (assoc_in _ _ _ Hf)). unfold balanced in H. rewrite Hf in H. exact H.
Qed.

(* Every function passes its check  ==>  every returning path of every
   function has exactly the declared net effect. *)
Theorem balanced_sound_all :
  forallb balanced (map fst prog) = true ->
  forall f h, fn_returns f h ->
  exists body sm, assoc f prog = Some (body, sm) /\ meets sm h.
Proof.
  intros Hb f h (body & sm & o1 & fr1 & fr2 & Hf & Hex1 & Ho1 & Hex2 & ->).
  pose proof (all_ok_of_bool Hb) as Hall.
  exists body, sm; split; [assumption|].
  pose proof (Hall _ _ _ Hf) as Hok. unfold fn_ok in Hok.
  destruct (ai body a0) as [o1s|] eqn:Hab; [|discriminate].
  assert (Hn1 : o1 <> OPanic) by (destruct Ho1; subst; discriminate).
  destruct (exec_sound Hall _ _ _ _ Hex1 Hn1 a0 o1s abs_rel_0 Hab) as [a1 [Hin1 [Hh1 [Hf1 Hd1]]]].
  pose proof (proj1 (forallb_forall _ _) Hok _ Hin1) as Hx.
  unfold exit_ok in Hx; cbn in Hx.
  assert (Hx' : match ai (unwind (a_defers a1)) (mkA (a_held a1) (a_flags a1) [] (a_dirty a1)) with
                | Some o2s => forallb (after_defers_ok sm) o2s
                | None => false end = true) by (destruct Ho1; subst; exact Hx).
  destruct (ai (unwind (a_defers a1)) _) as [o2s|] eqn:Hu; [|discriminate].
  rewrite Hd1 in Hex2.
  destruct (exec_sound Hall _ _ _ _ Hex2 ltac:(discriminate)
              (mkA (a_held a1) (a_flags a1) [] (a_dirty a1)) o2s) as [a2 [Hin2 Hr2]];
    [repeat split; cbn; auto | exact Hu |].
  pose proof (proj1 (forallb_forall _ _) Hx' _ Hin2) as Hy.
  unfold after_defers_ok in Hy; cbn in Hy.
  eapply final_ok_meets; eauto.
Qed.

(* The case the property is about: a function without a declared summary
   holds, when it returns, exactly the locks it held when it was called. *)
Corollary balanced_sound :
  forallb balanced (map fst prog) = true ->
  forall f body, assoc f prog = Some (body, neutral) ->
  forall h, fn_returns f h -> forall i, cnt h i = 0.
Proof.
  intros Hb f body Hf h Hr i.
  destruct (balanced_sound_all Hb f h Hr) as (body' & sm & Hf' & ex & Hs & He).
  rewrite Hf in Hf'; inversion Hf'; subst.
  rewrite (He i); cbn.
  destruct ex as [|e ex]; [reflexivity|].
  specialize (Hs e (or_introl eq_refl)); discriminate.
Qed.

End Semantics.
