(* C14, static part: the lock skeleton language the translator
   (/verif/translator) emits for every function of the packages C14 names,
   its path semantics, an executable abstract interpreter [balanced], and the
   soundness theorems [balanced_sound], [balanced_no_fault],
   [balanced_panic_covered].

   Reading guide.
   - A lock is identified syntactically: the normalised Go expression the
     method is called on ("i.lock", "hp.lock", "bq.lock").  An [item] is a
     lock together with how it is held: exclusively ([MW]), shared ([MR]) or
     through a LockPile variable ([MP pile]).
   - The locks a thread of control is responsible for are a *signed multiset*
     of items, relative to what it was responsible for when the function was
     entered: Lock adds one, Unlock removes one.  A function such as
     [leave()] that releases a lock its caller acquired therefore has net
     effect -1 and a function such as [enter()] +1; this is what a
     [summary] declares.  Every function without a declared summary must have
     net effect zero on every path that returns: "every call releases
     everything it acquired, whatever its outcome".
   - A function may only release what it holds.  The declared summary carries
     an *entry assumption* [s_pre] (mutexes the caller must hold when it
     calls; empty unless declared).  Releasing a mutex ([MW]/[MR] item) whose
     count relative to entry, plus the entry assumption, is not positive is
     a *fault* (outcome [OFault]), as is a call whose entry assumption the
     caller does not meet.  Faults propagate to the top from any depth, so
     "no run ends in [OFault]" says that on every path, at every moment, at
     any call depth, the count of every mutex stays at or above what was
     there on entry minus the entry assumption: an Unlock-then-Lock slip is a
     fault even though its net effect is zero.  (LockPile items are not
     subject to the floor: LockPile.Unlock of a lock that is not in the pile
     panics by itself, and locks added by a callee have no stable syntactic
     name.)
   - [exec] is the path semantics: all branch choices, loops any number of
     times, [defer]s run LIFO when the function body is left (by return or by
     panic; a deferred call that panics does not stop the remaining ones:
     [Then]), calls execute the callee's body in a fresh frame and add the
     callee's net effect (renamed into the caller's names) to the caller.
   - Panics.  There is no recover() in the analysed packages (the translator
     fails if one appears), so a panic ends the process and the locks a
     panicking path leaves behind do not matter -- except for what the
     deferred statements do while the stack unwinds.  Panicking paths are
     therefore *not* exempt from the fault check (a deferred Unlock must find
     its mutex held, also when the panic comes out of a callee), and every
     mutex that a pending deferred statement releases must be back at the
     declared net effect after the unwinding when the panic was raised by
     the function itself ([OPanic]; [OPanicC] is a panic that comes out of a
     callee, whose net effect is only known from below).  Only the locks no
     pending defer covers are exempt.  A function whose summary says
     [s_panics = false] is checked never to panic (explicit panic statements
     only: nil dereferences and the like are not modelled).
   - [s_plow] is a declared, justified exemption (summaries.json): the
     mutexes a function may have released, on net, when a panic leaves it
     (a helper that unlocks, waits and re-locks through a call that can
     panic).  The bound is checked on every panicking exit of the function
     ([plow_ok]); a caller in which such a callee panics gives exactly those
     mutexes the benefit of the doubt ([slack]) while its deferred
     statements run, and must itself declare the bound it inherits.  For a
     function with an empty [s_plow] -- all but a handful -- a panic never
     leaves a mutex lower than it was on entry.
   - [ai] computes, for a statement and an abstract state, the set of
     (outcome, state) pairs reachable through [exec]; calls are replaced by the
     callee's declared summary.  [fn_ok] checks a function body against its
     own summary.  If every function of the program passes, every path of
     every function has exactly the declared net effect ([balanced_sound]),
     never faults ([balanced_no_fault]) and releases what its defers cover
     when it panics ([balanced_panic_covered]). *)
From Coq Require Import String List ZArith Bool Lia.
Import ListNotations.
Local Open Scope Z_scope.
(* ------------------------------------------------------------------------ *)
(* Items and signed multisets                                               *)

Inductive mode := MW | MR | MP (pile : string).
Definition item := (mode * string)%type.

Definition mode_eqb (a b : mode) : bool :=
  match a, b with
  | MW, MW => true
  | MR, MR => true
  | MP p, MP q => String.eqb p q
  | _, _ => false
  end.

Lemma mode_eqb_spec a b : reflect (a = b) (mode_eqb a b).
Proof.
  destruct a as [| |p], b as [| |q]; cbn; try (constructor; congruence).
  destruct (String.eqb_spec p q); constructor; congruence.
Qed.

Definition item_eqb (a b : item) : bool :=
  mode_eqb (fst a) (fst b) && String.eqb (snd a) (snd b).

Lemma item_eqb_spec a b : reflect (a = b) (item_eqb a b).
Proof.
  destruct a as [m l], b as [m' l']; unfold item_eqb; cbn.
  destruct (mode_eqb_spec m m'); destruct (String.eqb_spec l l'); cbn;
    constructor; congruence.
Qed.

Lemma item_eqb_refl a : item_eqb a a = true.
Proof. destruct (item_eqb_spec a a); congruence. Qed.

Definition smset := list (item * Z).

Fixpoint cnt (h : smset) (i : item) : Z :=
  match h with
  | [] => 0
  | e :: t => (if item_eqb i (fst e) then snd e else 0) + cnt t i
  end.

Definition sm_equiv (a b : smset) : Prop := forall i, cnt a i = cnt b i.

Lemma cnt_app a b i : cnt (a ++ b) i = cnt a i + cnt b i.
Proof. induction a as [|e a IH]; cbn; [reflexivity | rewrite IH; lia]. Qed.

Lemma sm_equiv_refl a : sm_equiv a a.
Proof. intro; reflexivity. Qed.

Lemma sm_equiv_sym a b : sm_equiv a b -> sm_equiv b a.
Proof. intros H i; symmetry; apply H. Qed.

Lemma sm_equiv_trans a b c : sm_equiv a b -> sm_equiv b c -> sm_equiv a c.
Proof. intros H1 H2 i; rewrite H1; apply H2. Qed.

Lemma sm_equiv_app a a' b b' :
  sm_equiv a a' -> sm_equiv b b' -> sm_equiv (a ++ b) (a' ++ b').
Proof. intros H1 H2 i; rewrite !cnt_app, H1, H2; reflexivity. Qed.

Lemma sm_equiv_cons e a b : sm_equiv a b -> sm_equiv (e :: a) (e :: b).
Proof. intros H i; cbn; rewrite H; reflexivity. Qed.

Lemma cnt_notin h i : ~ In i (map fst h) -> cnt h i = 0.
Proof.
  induction h as [|e h IH]; cbn; intros Hn; [reflexivity|].
  destruct (item_eqb_spec i (fst e)) as [->|_].
  - exfalso; apply Hn; left; reflexivity.
  - rewrite IH; [reflexivity | intro; apply Hn; right; assumption].
Qed.

(* Decidable equivalence. *)
Definition sm_eqb (a b : smset) : bool :=
  forallb (fun e => Z.eqb (cnt a (fst e)) (cnt b (fst e))) (a ++ b).

Lemma in_items_dec (i : item) (l : list item) : {In i l} + {~ In i l}.
Proof.
  apply in_dec. intros x y.
  destruct (item_eqb_spec x y); [left | right]; assumption.
Defined.

Lemma sm_eqb_sound a b : sm_eqb a b = true -> sm_equiv a b.
Proof.
  unfold sm_eqb; intros H i. rewrite forallb_forall in H.
  destruct (in_items_dec i (map fst (a ++ b))) as [Hin | Hn].
  - apply in_map_iff in Hin as [e [<- He]]. apply Z.eqb_eq, H, He.
  - rewrite map_app in Hn.
    rewrite !cnt_notin; [reflexivity | |]; intro; apply Hn, in_or_app; auto.
Qed.

(* Items of one LockPile variable. *)
Definition in_pile (p : string) (i : item) : bool :=
  match fst i with MP q => String.eqb p q | _ => false end.

Definition clear_pile (p : string) (h : smset) : smset :=
  filter (fun e => negb (in_pile p (fst e))) h.

Lemma cnt_clear_pile p h i :
  cnt (clear_pile p h) i = if in_pile p i then 0 else cnt h i.
Proof.
  unfold clear_pile. induction h as [|e h IH]; cbn.
  - destruct (in_pile p i); reflexivity.
  - destruct (in_pile p (fst e)) eqn:He; cbn; rewrite IH;
      destruct (in_pile p i) eqn:Hpi;
      destruct (item_eqb_spec i (fst e)) as [Hi|Hi]; subst; try congruence; lia.
Qed.

Definition in_piles (ps : list string) (i : item) : bool :=
  existsb (fun p => in_pile p i) ps.

Definition strip_piles (ps : list string) (h : smset) : smset :=
  filter (fun e => negb (in_piles ps (fst e))) h.

Definition only_piles (ps : list string) (h : smset) : smset :=
  filter (fun e => in_piles ps (fst e)) h.

Lemma strip_only_split ps h : sm_equiv h (strip_piles ps h ++ only_piles ps h).
Proof.
  intro i. induction h as [|e h IH]; cbn; [reflexivity|].
  unfold strip_piles, only_piles in *; cbn.
  destruct (in_piles ps (fst e)); cbn; rewrite IH, !cnt_app; cbn; lia.
Qed.

(* Support of a multiset lies in the given piles. *)
Definition supp_in (ps : list string) (h : smset) : Prop :=
  forall e, In e h -> in_piles ps (fst e) = true.

Lemma supp_in_only ps h : supp_in ps (only_piles ps h).
Proof. intros e He; apply filter_In in He; tauto. Qed.

Lemma supp_in_app ps a b : supp_in ps a -> supp_in ps b -> supp_in ps (a ++ b).
Proof. intros Ha Hb e He; apply in_app_or in He as [|]; auto. Qed.

Lemma in_piles_mono ps qs i :
  (forall p, In p ps -> In p qs) -> in_piles ps i = true -> in_piles qs i = true.
Proof.
  unfold in_piles; rewrite !existsb_exists.
  intros Hs [p [Hp Hi]]; exists p; auto.
Qed.

Lemma supp_in_mono ps qs h :
  (forall p, In p ps -> In p qs) -> supp_in ps h -> supp_in qs h.
Proof. intros Hs Hh e He; eapply in_piles_mono; eauto. Qed.

(* Renaming along a call. *)
Definition map_items (f : item -> item) (h : smset) : smset :=
  map (fun e => (f (fst e), snd e)) h.

Lemma map_items_app f a b : map_items f (a ++ b) = map_items f a ++ map_items f b.
Proof. apply map_app. Qed.

(* [cnt] of an image = sum over the preimage.  The congruence
   [sm_equiv a b -> sm_equiv (map_items f a) (map_items f b)] goes through
   sums over a duplicate-free list covering both supports. *)
Fixpoint cntP (P : item -> bool) (h : smset) : Z :=
  match h with
  | [] => 0
  | e :: t => (if P (fst e) then snd e else 0) + cntP P t
  end.

Lemma cnt_map_items f h j :
  cnt (map_items f h) j = cntP (fun i => item_eqb j (f i)) h.
Proof.
  unfold map_items. induction h as [|e h IH]; cbn; [reflexivity | rewrite <- IH; reflexivity].
Qed.

Fixpoint sumK (K : list item) (g : item -> Z) : Z :=
  match K with [] => 0 | k :: t => g k + sumK t g end.

Lemma sumK_ext K g g' : (forall k, In k K -> g k = g' k) -> sumK K g = sumK K g'.
Proof.
  induction K as [|k K IH]; cbn; intros H; [reflexivity|].
  rewrite H, IH; auto.
Qed.

Lemma sumK_add K g g' : sumK K (fun k => g k + g' k) = sumK K g + sumK K g'.
Proof. induction K as [|k K IH]; cbn; [reflexivity | rewrite IH; lia]. Qed.

Lemma sumK_zero K : sumK K (fun _ => 0) = 0.
Proof. induction K; cbn; lia. Qed.

Lemma sumK_single K i c :
  NoDup K -> In i K -> sumK K (fun k => if item_eqb k i then c else 0) = c.
Proof.
  induction 1 as [|k K Hk Hnd IH]; cbn; intros Hin; [contradiction|].
  destruct Hin as [-> | Hin].
  - rewrite item_eqb_refl.
    rewrite (sumK_ext K _ (fun _ => 0)), sumK_zero; [lia|].
    intros k' Hk'. destruct (item_eqb_spec k' i) as [->|]; [contradiction | reflexivity].
  - destruct (item_eqb_spec k i) as [->|]; [contradiction|].
    rewrite IH; auto.
Qed.

Lemma cntP_sumK P h K :
  NoDup K -> (forall e, In e h -> In (fst e) K) ->
  cntP P h = sumK K (fun k => if P k then cnt h k else 0).
Proof.
  intros Hnd. induction h as [|e h IH]; cbn; intros Hsub.
  - rewrite (sumK_ext K _ (fun _ => 0)), sumK_zero; [reflexivity|].
    intros k _; destruct (P k); reflexivity.
  - rewrite IH by (intros; apply Hsub; right; assumption).
    rewrite (sumK_ext K
       (fun k => if P k then (if item_eqb k (fst e) then snd e else 0) + cnt h k else 0)
       (fun k => (if item_eqb k (fst e) then (if P (fst e) then snd e else 0) else 0)
                 + (if P k then cnt h k else 0))).
    + rewrite sumK_add, sumK_single; [reflexivity | assumption | apply Hsub; left; reflexivity].
    + intros k _. destruct (item_eqb_spec k (fst e)) as [->|]; destruct (P _); lia.
Qed.

Lemma cntP_equiv P a b : sm_equiv a b -> cntP P a = cntP P b.
Proof.
  intros H.
  set (K := nodup (fun x y => match item_eqb_spec x y with ReflectT _ e => left e | ReflectF _ n => right n end)
                  (map fst (a ++ b))).
  assert (HK : NoDup K) by apply NoDup_nodup.
  assert (Hin : forall e, In e (a ++ b) -> In (fst e) K).
  { intros e He. apply nodup_In, in_map, He. }
  rewrite (cntP_sumK P a K), (cntP_sumK P b K); auto.
  - apply sumK_ext; intros k _; rewrite H; reflexivity.
  - intros e He; apply Hin, in_or_app; auto.
  - intros e He; apply Hin, in_or_app; auto.
Qed.

Lemma map_items_equiv f a b :
  sm_equiv a b -> sm_equiv (map_items f a) (map_items f b).
Proof. intros H j; rewrite !cnt_map_items; apply cntP_equiv, H. Qed.


(* More multiset facts: negation, sums over preimages, supports. *)
Definition neg (h : smset) : smset := map (fun e => (fst e, - snd e)) h.

Lemma cnt_neg h i : cnt (neg h) i = - cnt h i.
Proof.
  unfold neg. induction h as [|e h IH]; cbn; [reflexivity|].
  rewrite IH. destruct (item_eqb i (fst e)); lia.
Qed.

Lemma cntP_app P a b : cntP P (a ++ b) = cntP P a + cntP P b.
Proof. induction a as [|e a IH]; cbn; [reflexivity | rewrite IH; lia]. Qed.

Lemma sumK_nonneg K g : (forall k, In k K -> 0 <= g k) -> 0 <= sumK K g.
Proof.
  induction K as [|k K IH]; cbn; intros H; [lia|].
  pose proof (H k (or_introl eq_refl)). assert (0 <= sumK K g) by (apply IH; intros; apply H; auto). lia.
Qed.

Lemma cntP_nonneg P h : (forall i, P i = true -> 0 <= cnt h i) -> 0 <= cntP P h.
Proof.
  intros H.
  set (K := nodup (fun x y => match item_eqb_spec x y with ReflectT _ e => left e | ReflectF _ n => right n end)
                  (map fst h)).
  rewrite (cntP_sumK P h K).
  - apply sumK_nonneg. intros k _. destruct (P k) eqn:Hk; [apply H, Hk | lia].
  - apply NoDup_nodup.
  - intros e He. apply nodup_In, in_map, He.
Qed.

(* Mutexes proper, as opposed to entries of a LockPile. *)
Definition checked (i : item) : bool := match fst i with MP _ => false | _ => true end.

Lemma in_piles_unchecked ps i : in_piles ps i = true -> checked i = false.
Proof.
  unfold in_piles, in_pile, checked. rewrite existsb_exists. intros [p [_ H]].
  destruct (fst i); [discriminate | discriminate | reflexivity].
Qed.

Lemma cnt_supp_out ps h i : supp_in ps h -> in_piles ps i = false -> cnt h i = 0.
Proof.
  induction h as [|e h IH]; cbn; intros Hs Hi; [reflexivity|].
  rewrite IH; [| intros e' He'; apply Hs; right; exact He' | exact Hi].
  destruct (item_eqb_spec i (fst e)) as [->|_]; [|reflexivity].
  rewrite (Hs e (or_introl eq_refl)) in Hi. discriminate.
Qed.

Lemma cnt_supp_checked ps h i : supp_in ps h -> checked i = true -> cnt h i = 0.
Proof.
  intros Hs Hc. apply (cnt_supp_out ps); [exact Hs|].
  destruct (in_piles ps i) eqn:Hp; [|reflexivity].
  apply in_piles_unchecked in Hp. congruence.
Qed.

Definition nonneg_checked (h : smset) : Prop := forall i, checked i = true -> 0 <= cnt h i.

Lemma nonneg_checked_nil : nonneg_checked [].
Proof. intros i _; cbn; lia. Qed.

Lemma nonneg_checked_app a b : nonneg_checked a -> nonneg_checked b -> nonneg_checked (a ++ b).
Proof. intros Ha Hb i Hi. rewrite cnt_app. specialize (Ha i Hi). specialize (Hb i Hi). lia. Qed.

(* ------------------------------------------------------------------------ *)
(* Syntax                                                                   *)

Fixpoint amap (m : list (string * string)) (x : string) : string :=
  match m with
  | [] => x
  | (k, v) :: t => if String.eqb k x then v else amap t x
  end.

(* How a callee's names (receiver/parameter-rooted lock expressions, LockPile
   parameters) read in the caller. *)
Record subst := mkS { s_piles : list (string * string); s_locks : list (string * string) }.

Definition rename_pile (sg : subst) (p : string) : string := amap (s_piles sg) p.

Definition rename (sg : subst) (i : item) : item :=
  (match fst i with MP p => MP (rename_pile sg p) | m => m end, amap (s_locks sg) (snd i)).

Lemma checked_rename sg i : checked (rename sg i) = checked i.
Proof. destruct i as [[| |p] l]; reflexivity. Qed.

Inductive stmt :=
| Skip
| Acq (i : item)                 (* Lock / RLock / lockPile.Lock(&l) *)
| Rel (i : item)                 (* Unlock / RUnlock / lockPile.Unlock(&l) *)
| PileUnlockAll (p : string)
| Defer (s : stmt)
| Call (f : string) (sg : subst) (* also: go f(), with the locks handed over *)
| Return | Panic | Break | Continue
| If (a b : stmt)                (* either branch *)
| Loop (inf : bool) (a : stmt)   (* [inf]: a `for {}` that is only left by break/return *)
| Seq (a b : stmt)
| Scope (a : stmt)               (* body of an inlined closure: return ends the closure *)
| SetFlag (x : string) (v : bool)       (* local bool assigned constants only *)
| IfFlag (x : string) (a b : stmt)      (* if x {a} else {b} *)
| Then (a b : stmt)              (* a, then b even if a panicked: unwinding of defers.
                                    Never emitted by the translator. *)
| Mark (t : string).             (* an event an atomic section is declared about: a call such as
                                    of.locks.Test(...), a read or write of a field *)

(* The translator's vocabulary. *)
Definition Lock (l : string) := Acq (MW, l).
Definition Unlock (l : string) := Rel (MW, l).
Definition RLock (l : string) := Acq (MR, l).
Definition RUnlock (l : string) := Rel (MR, l).
Definition PileLock (p l : string) := Acq (MP p, l).
Definition PileUnlock (p l : string) := Rel (MP p, l).
Fixpoint Seqs (l : list stmt) : stmt :=
  match l with [] => Skip | [s] => s | s :: t => Seq s (Seqs t) end.
Fixpoint Alts (l : list stmt) : stmt :=
  match l with [] => Skip | [s] => s | s :: t => If s (Alts t) end.

Definition mode_eq_dec (a b : mode) : {a = b} + {a <> b}.
Proof. decide equality; apply string_dec. Defined.
Definition item_eq_dec (a b : item) : {a = b} + {a <> b}.
Proof. decide equality; [apply string_dec | apply mode_eq_dec]. Defined.
Definition subst_eq_dec (a b : subst) : {a = b} + {a <> b}.
Proof.
  decide equality; apply list_eq_dec; decide equality; apply string_dec.
Defined.
Definition stmt_eq_dec (a b : stmt) : {a = b} + {a <> b}.
Proof.
  decide equality; try apply string_dec; try apply bool_dec;
    try apply item_eq_dec; apply subst_eq_dec.
Defined.

Fixpoint nodefer (s : stmt) : bool :=
  match s with
  | Defer _ => false
  | If a b | Seq a b | IfFlag _ a b | Then a b => nodefer a && nodefer b
  | Loop _ a | Scope a => nodefer a
  | _ => true
  end.

(* Deferred statements, most recent first, as one statement.  A deferred
   call that panics does not keep the older ones from running. *)
Fixpoint unwind (ds : list stmt) : stmt :=
  match ds with [] => Skip | d :: t => Then (Scope d) (unwind t) end.

(* An atomic section of a function: from every event [as_a] up to the next
   event [as_b] (or to the end of the function body when [as_b] does not
   occur on the path; just the event itself when [as_b = None]) the mutex
   [as_lock] is held continuously -- exclusively, or at least shared when
   [as_shared] -- by the function itself: it is held at [as_a] and at
   [as_b], and in between the function neither releases it nor calls a
   function whose summary mentions it (by the floor theorem no other callee
   can take it below the level it has at the call). *)
Record asec := mkAsec { as_a : string; as_b : option string; as_lock : string; as_shared : bool }.

Definition as_items (e : asec) : list item :=
  if as_shared e then [(MW, as_lock e); (MR, as_lock e)] else [(MW, as_lock e)].

Record summary := mkSum {
  s_delta : smset;          (* net effect on the caller, in the callee's names *)
  s_dirty : list string;    (* LockPile parameters it may add locks to *)
  s_pre : smset;            (* entry assumption: mutexes the caller holds when it calls *)
  s_plow : smset;           (* when it panics: its net effect on every mutex is at least -s_plow *)
  s_panics : bool;          (* may end in a panic (explicit panic statements) *)
  s_atomic : list asec }.   (* declared atomic sections of the function *)

Definition neutral : summary := mkSum [] [] [] [] false [].

Definition program := list (string * (stmt * summary)).

Fixpoint assoc {A} (k : string) (l : list (string * A)) : option A :=
  match l with
  | [] => None
  | (k', v) :: t => if String.eqb k k' then Some v else assoc k t
  end.

(* ------------------------------------------------------------------------ *)
(* Path semantics                                                           *)

Record frame := mkF {
  held : smset;                     (* signed, relative to function entry *)
  flags : list (string * bool);
  defers : list stmt;
  slack : smset;                    (* declared panic bounds (s_plow) of the callees that have panicked *)
  mon : list nat }.                 (* atomic sections (indices into s_atomic) that are open *)

Definition frame0 : frame := mkF [] [] [] [] [].

Inductive outcome :=
| ONormal | OBreak | OContinue | OReturn
| OPanic       (* raised by a panic statement of this function *)
| OPanicC      (* came out of a callee *)
| OFault.      (* released a mutex that is not held / called with the entry assumption unmet *)

Definition is_panic (o : outcome) : bool :=
  match o with OPanic | OPanicC => true | _ => false end.

Definition descope (o : outcome) : outcome :=
  match o with OPanic | OPanicC | OFault => o | _ => ONormal end.

Definition call_outcome (o1 o2 : outcome) : outcome :=
  match o1, o2 with
  | OFault, _ | _, OFault => OFault
  | _, _ => if is_panic o1 || is_panic o2 then OPanicC else ONormal
  end.

(* [o1] is a panic; the older deferred statements ended with [o2] *)
Definition panic_join (o1 o2 : outcome) : outcome :=
  match o1, o2 with
  | _, OFault => OFault
  | OPanicC, _ | _, OPanicC => OPanicC
  | _, _ => OPanic
  end.

Definition lookup_flag (x : string) (fl : list (string * bool)) : option bool := assoc x fl.

(* May the mutex [i] be released when [h] is held relative to entry and
   [pre] was assumed on entry?  [sl] is the slack: when a callee has
   panicked, the mutexes its summary declares it may have released by then
   ([s_plow], a justified exemption listed in summaries.json) are given the
   benefit of the doubt while the caller's deferred statements run. *)
Definition can_rel (pre sl h : smset) (i : item) : bool :=
  negb (checked i) || (0 <? cnt h i + cnt pre i + cnt sl i).

(* Does a caller holding [h] (entry assumption [pre]) meet a callee's entry
   assumption [rp] (already in the caller's names)? *)
Definition pre_met (pre sl h rp : smset) : bool :=
  forallb (fun e => cnt rp (fst e) <=? cnt h (fst e) + cnt pre (fst e) + cnt sl (fst e)) rp.

Definition call_slack (o : outcome) (rplow sl : smset) : smset :=
  match o with OPanicC => rplow ++ sl | _ => sl end.

(* What the running function contributes to the meaning of its statements. *)
Record ctx := mkCtx { c_pre : smset; c_atomic : list asec }.
Definition ctx_of (sm : summary) : ctx := mkCtx (s_pre sm) (s_atomic sm).

(* one of [its] is held *)
Definition holds (pre sl h : smset) (its : list item) : bool :=
  existsb (fun i => 0 <? cnt h i + cnt pre i + cnt sl i) its.

Definition is_b (e : asec) (t : string) : bool :=
  match as_b e with Some b => String.eqb b t | None => false end.

Fixpoint indexed {A} (n : nat) (l : list A) : list (nat * A) :=
  match l with [] => [] | x :: t => (n, x) :: indexed (S n) t end.

(* at an event that opens or closes a section the mutex must be held *)
Definition mark_ok (c : ctx) (sl h : smset) (t : string) : bool :=
  forallb (fun e => if String.eqb (as_a e) t || is_b e t then holds (c_pre c) sl h (as_items e) else true)
          (c_atomic c).

Definition is_open (m : list nat) (k : nat) : bool := existsb (Nat.eqb k) m.

Definition mark_mon (c : ctx) (m : list nat) (t : string) : list nat :=
  fold_left (fun m ke =>
               let e := snd ke in
               if is_b e t then filter (fun j => negb (Nat.eqb j (fst ke))) m
               else if String.eqb (as_a e) t
                    then match as_b e with
                         | Some _ => if is_open m (fst ke) then m else fst ke :: m
                         | None => m
                         end
                    else m)
            (indexed 0 (c_atomic c)) m.

Definition open_locks (c : ctx) (m : list nat) : list string :=
  map (fun k => match nth_error (c_atomic c) k with Some e => as_lock e | None => EmptyString end) m.

(* releasing the mutex of an open section breaks it *)
Definition rel_breaks (c : ctx) (m : list nat) (i : item) : bool :=
  checked i && existsb (String.eqb (snd i)) (open_locks c m).

Definition rel_ok (c : ctx) (sl : smset) (m : list nat) (h : smset) (i : item) : bool :=
  can_rel (c_pre c) sl h i && negb (rel_breaks c m i).

(* so does a call of a function whose summary mentions it *)
Definition sum_locks (sg : subst) (sm : summary) : list string :=
  map (fun e => snd (rename sg (fst e))) (s_pre sm ++ s_delta sm ++ s_plow sm).

Definition call_breaks (c : ctx) (m : list nat) (sg : subst) (smc : summary) : bool :=
  existsb (fun l => existsb (String.eqb l) (sum_locks sg smc)) (open_locks c m).

Definition call_ok (c : ctx) (sl : smset) (m : list nat) (h : smset) (sg : subst) (smc : summary) : bool :=
  pre_met (c_pre c) sl h (map_items (rename sg) (s_pre smc)) && negb (call_breaks c m sg smc).

Section Semantics.
Variable prog : program.

(* [exec pre s fr o fr']: statement [s] of a function entered under the
   entry assumption [pre]. *)
Inductive exec : ctx -> stmt -> frame -> outcome -> frame -> Prop :=
| E_Skip pre fr : exec pre Skip fr ONormal fr
| E_Acq pre i fr : exec pre (Acq i) fr ONormal (mkF ((i, 1) :: held fr) (flags fr) (defers fr) (slack fr) (mon fr))
| E_Rel pre i fr :
    rel_ok pre (slack fr) (mon fr) (held fr) i = true ->
    exec pre (Rel i) fr ONormal (mkF ((i, -1) :: held fr) (flags fr) (defers fr) (slack fr) (mon fr))
| E_RelFault pre i fr :
    rel_ok pre (slack fr) (mon fr) (held fr) i = false -> exec pre (Rel i) fr OFault fr
| E_Mark pre t fr :
    mark_ok pre (slack fr) (held fr) t = true ->
    exec pre (Mark t) fr ONormal (mkF (held fr) (flags fr) (defers fr) (slack fr) (mark_mon pre (mon fr) t))
| E_MarkFault pre t fr :
    mark_ok pre (slack fr) (held fr) t = false -> exec pre (Mark t) fr OFault fr
| E_PileUnlockAll pre p fr :
    exec pre (PileUnlockAll p) fr ONormal (mkF (clear_pile p (held fr)) (flags fr) (defers fr) (slack fr) (mon fr))
| E_Defer pre s fr : exec pre (Defer s) fr ONormal (mkF (held fr) (flags fr) (s :: defers fr) (slack fr) (mon fr))
| E_SetFlag pre x v fr : exec pre (SetFlag x v) fr ONormal (mkF (held fr) ((x, v) :: flags fr) (defers fr) (slack fr) (mon fr))
| E_IfFlagT pre x a b fr o fr' :
    lookup_flag x (flags fr) <> Some false -> exec pre a fr o fr' -> exec pre (IfFlag x a b) fr o fr'
| E_IfFlagF pre x a b fr o fr' :
    lookup_flag x (flags fr) <> Some true -> exec pre b fr o fr' -> exec pre (IfFlag x a b) fr o fr'
| E_IfL pre a b fr o fr' : exec pre a fr o fr' -> exec pre (If a b) fr o fr'
| E_IfR pre a b fr o fr' : exec pre b fr o fr' -> exec pre (If a b) fr o fr'
| E_SeqN pre a b fr fr1 o fr2 :
    exec pre a fr ONormal fr1 -> exec pre b fr1 o fr2 -> exec pre (Seq a b) fr o fr2
| E_SeqX pre a b fr o fr1 : exec pre a fr o fr1 -> o <> ONormal -> exec pre (Seq a b) fr o fr1
| E_ThenN pre a b fr fr1 o fr2 :
    exec pre a fr ONormal fr1 -> exec pre b fr1 o fr2 -> exec pre (Then a b) fr o fr2
| E_ThenP pre a b fr o1 fr1 o2 fr2 :
    exec pre a fr o1 fr1 -> is_panic o1 = true -> exec pre b fr1 o2 fr2 ->
    exec pre (Then a b) fr (panic_join o1 o2) fr2
| E_ThenX pre a b fr o fr1 :
    exec pre a fr o fr1 -> o <> ONormal -> is_panic o = false -> exec pre (Then a b) fr o fr1
| E_Return pre fr : exec pre Return fr OReturn fr
| E_Panic pre fr : exec pre Panic fr OPanic fr
| E_Break pre fr : exec pre Break fr OBreak fr
| E_Continue pre fr : exec pre Continue fr OContinue fr
| E_LoopExit pre a fr : exec pre (Loop false a) fr ONormal fr
| E_LoopIter pre inf a fr o fr1 o' fr2 :
    exec pre a fr o fr1 -> o = ONormal \/ o = OContinue ->
    exec pre (Loop inf a) fr1 o' fr2 -> exec pre (Loop inf a) fr o' fr2
| E_LoopBreak pre inf a fr fr1 : exec pre a fr OBreak fr1 -> exec pre (Loop inf a) fr ONormal fr1
| E_LoopAbrupt pre inf a fr o fr1 :
    exec pre a fr o fr1 -> o = OReturn \/ o = OPanic \/ o = OPanicC \/ o = OFault ->
    exec pre (Loop inf a) fr o fr1
| E_Scope pre a fr o fr' : exec pre a fr o fr' -> exec pre (Scope a) fr (descope o) fr'
| E_Call pre f sg body sm fr o1 fr1 o2 fr2 :
    assoc f prog = Some (body, sm) ->
    call_ok pre (slack fr) (mon fr) (held fr) sg sm = true ->
    exec (ctx_of sm) body frame0 o1 fr1 -> o1 <> OBreak -> o1 <> OContinue -> o1 <> OFault ->
    exec (ctx_of sm) (unwind (defers fr1)) (mkF (held fr1) (flags fr1) [] (slack fr1) []) o2 fr2 ->
    exec pre (Call f sg) fr (call_outcome o1 o2)
         (mkF (map_items (rename sg) (held fr2) ++ held fr) (flags fr) (defers fr)
              (call_slack (call_outcome o1 o2) (map_items (rename sg) (s_plow sm)) (slack fr)) (mon fr))
| E_CallFault pre f sg body sm fr fr1 :
    assoc f prog = Some (body, sm) ->
    exec (ctx_of sm) body frame0 OFault fr1 ->
    exec pre (Call f sg) fr OFault fr
| E_CallPre pre f sg body sm fr :
    assoc f prog = Some (body, sm) ->
    call_ok pre (slack fr) (mon fr) (held fr) sg sm = false ->
    exec pre (Call f sg) fr OFault fr.

(* One complete run of function [f]: its body, then its deferred statements. *)
Definition fn_run (f : string) (sm : summary) (o1 : outcome) (fr1 : frame) (o2 : outcome) (fr2 : frame) : Prop :=
  exists body,
    assoc f prog = Some (body, sm) /\
    exec (ctx_of sm) body frame0 o1 fr1 /\ o1 <> OBreak /\ o1 <> OContinue /\ o1 <> OFault /\
    exec (ctx_of sm) (unwind (defers fr1)) (mkF (held fr1) (flags fr1) [] (slack fr1) []) o2 fr2.

(* ... that returns (does not panic); [h] is the net effect on the locks held. *)
Definition fn_returns (f : string) (h : smset) : Prop :=
  exists sm o1 fr1 fr2,
    fn_run f sm o1 fr1 ONormal fr2 /\ (o1 = ONormal \/ o1 = OReturn) /\ h = held fr2.

(* ... that releases a mutex it does not hold, or calls a function whose
   entry assumption it does not meet -- itself or anything it calls, at any
   depth, in its body or in its deferred statements, on a returning or on a
   panicking path. *)
Definition fn_faults (f : string) : Prop :=
  exists body sm,
    assoc f prog = Some (body, sm) /\
    ((exists fr1, exec (ctx_of sm) body frame0 OFault fr1) \/
     (exists o1 fr1 fr2, fn_run f sm o1 fr1 OFault fr2)).

(* ... that ends in a panic raised by the function itself (in its body or in
   one of its deferred statements), every callee having returned: [ds] are
   the deferred statements pending when the body was left, [h] the net
   effect after they have run. *)
Definition fn_panics_own (f : string) (sm : summary) (ds : list stmt) (h : smset) : Prop :=
  exists o1 fr1 o2 fr2,
    fn_run f sm o1 fr1 o2 fr2 /\
    ((o1 = OPanic /\ (o2 = ONormal \/ o2 = OPanic)) \/ ((o1 = ONormal \/ o1 = OReturn) /\ o2 = OPanic)) /\
    ds = defers fr1 /\ h = held fr2.

(* A lock is covered by a deferred statement that releases (or touches) it. *)
Fixpoint touches (s : stmt) (i : item) : bool :=
  match s with
  | Acq j | Rel j => item_eqb i j
  | PileUnlockAll p => in_pile p i
  | Call f sg =>
    match assoc f prog with
    | Some (_, sm) => existsb (fun e => item_eqb i (rename sg (fst e))) (s_delta sm)
    | None => false
    end
  | Defer a | Loop _ a | Scope a => touches a i
  | If a b | Seq a b | IfFlag _ a b | Then a b => touches a i || touches b i
  | _ => false
  end.

Definition covered (ds : list stmt) (i : item) : bool := existsb (fun d => touches d i) ds.

(* ------------------------------------------------------------------------ *)
(* Abstract interpreter                                                     *)

Record astate := mkA {
  a_held : smset;
  a_flags : list (string * bool);
  a_defers : list stmt;
  a_dirty : list string;     (* piles that may hold additional, unknown locks *)
  a_up : bool;               (* a callee panicked: every mutex may be held more often than [a_held] says *)
  a_slack : smset;
  a_mon : list nat }.

Definition a0 : astate := mkA [] [] [] [] false [] [].
Definition outs := list (outcome * astate).

Definition outcome_eqb (a b : outcome) : bool :=
  match a, b with
  | ONormal, ONormal | OBreak, OBreak | OContinue, OContinue
  | OReturn, OReturn | OPanic, OPanic | OPanicC, OPanicC | OFault, OFault => true
  | _, _ => false
  end.

Lemma outcome_eqb_eq a b : outcome_eqb a b = true -> a = b.
Proof. destruct a, b; cbn; congruence. Qed.

Definition optb_eqb (a b : option bool) : bool :=
  match a, b with
  | None, None => true
  | Some x, Some y => Bool.eqb x y
  | _, _ => false
  end.

Definition flags_eqb (a b : list (string * bool)) : bool :=
  forallb (fun k => optb_eqb (lookup_flag k a) (lookup_flag k b)) (map fst a ++ map fst b).

Definition subset (a b : list string) : bool :=
  forallb (fun x => existsb (String.eqb x) b) a.

Definition defers_eqb (a b : list stmt) : bool :=
  if list_eq_dec stmt_eq_dec a b then true else false.

Definition aeqb (a b : astate) : bool :=
  sm_eqb (a_held a) (a_held b) && flags_eqb (a_flags a) (a_flags b)
  && defers_eqb (a_defers a) (a_defers b)
  && subset (a_dirty a) (a_dirty b) && subset (a_dirty b) (a_dirty a)
  && Bool.eqb (a_up a) (a_up b) && sm_eqb (a_slack a) (a_slack b)
  && (if list_eq_dec Nat.eq_dec (a_mon a) (a_mon b) then true else false).

Definition oeqb (x y : outcome * astate) : bool :=
  outcome_eqb (fst x) (fst y) && aeqb (snd x) (snd y).

Fixpoint dedup (l : outs) : outs :=
  match l with
  | [] => []
  | x :: t => let t' := dedup t in if existsb (oeqb x) t' then t' else x :: t'
  end.

Fixpoint bind_outs (l : outs) (k : astate -> option outs) : option outs :=
  match l with
  | [] => Some []
  | (o, a) :: t =>
    match (match o with ONormal => k a | _ => Some [(o, a)] end), bind_outs t k with
    | Some x, Some y => Some (x ++ y)
    | _, _ => None
    end
  end.

Definition then_one (o : outcome) (a : astate) (k : astate -> option outs) : option outs :=
  match o with
  | ONormal => k a
  | OPanic | OPanicC => option_map (map (fun oa => (panic_join o (fst oa), snd oa))) (k a)
  | _ => Some [(o, a)]
  end.

Fixpoint bind_then (l : outs) (k : astate -> option outs) : option outs :=
  match l with
  | [] => Some []
  | (o, a) :: t =>
    match then_one o a k, bind_then t k with
    | Some x, Some y => Some (x ++ y)
    | _, _ => None
    end
  end.

Definition loop_exit (oa : outcome * astate) : outs :=
  match fst oa with
  | OBreak => [(ONormal, snd oa)]
  | OReturn | OPanic | OPanicC | OFault => [oa]
  | _ => []
  end.

Definition back_edge_ok (a : astate) (oa : outcome * astate) : bool :=
  match fst oa with
  | ONormal | OContinue => aeqb (snd oa) a
  | _ => true
  end.

Fixpoint ai (pre : ctx) (s : stmt) (a : astate) {struct s} : option outs :=
  match s with
  | Skip => Some [(ONormal, a)]
  | Acq i => Some [(ONormal, mkA ((i, 1) :: a_held a) (a_flags a) (a_defers a) (a_dirty a) (a_up a) (a_slack a) (a_mon a))]
  | Rel i =>
    if rel_ok pre (a_slack a) (a_mon a) (a_held a) i
    then Some [(ONormal, mkA ((i, -1) :: a_held a) (a_flags a) (a_defers a) (a_dirty a) (a_up a) (a_slack a) (a_mon a))]
    else None
  | PileUnlockAll p =>
    Some [(ONormal, mkA (clear_pile p (a_held a)) (a_flags a) (a_defers a)
                        (filter (fun q => negb (String.eqb p q)) (a_dirty a)) (a_up a) (a_slack a) (a_mon a))]
  | Defer d =>
    if nodefer d then Some [(ONormal, mkA (a_held a) (a_flags a) (d :: a_defers a) (a_dirty a) (a_up a) (a_slack a) (a_mon a))]
    else None
  | SetFlag x v => Some [(ONormal, mkA (a_held a) ((x, v) :: a_flags a) (a_defers a) (a_dirty a) (a_up a) (a_slack a) (a_mon a))]
  | IfFlag x p q =>
    match lookup_flag x (a_flags a) with
    | Some true => ai pre p a
    | Some false => ai pre q a
    | None => match ai pre p a, ai pre q a with
              | Some o1, Some o2 => Some (dedup (o1 ++ o2))
              | _, _ => None
              end
    end
  | If p q =>
    match ai pre p a, ai pre q a with
    | Some o1, Some o2 => Some (dedup (o1 ++ o2))
    | _, _ => None
    end
  | Seq p q =>
    match ai pre p a with
    | None => None
    | Some o1 => option_map dedup (bind_outs o1 (ai pre q))
    end
  | Then p q =>
    match ai pre p a with
    | None => None
    | Some o1 => option_map dedup (bind_then o1 (ai pre q))
    end
  | Mark t =>
    if mark_ok pre (a_slack a) (a_held a) t
    then Some [(ONormal, mkA (a_held a) (a_flags a) (a_defers a) (a_dirty a) (a_up a) (a_slack a)
                             (mark_mon pre (a_mon a) t))]
    else None
  | Return => Some [(OReturn, a)]
  | Panic => Some [(OPanic, a)]
  | Break => Some [(OBreak, a)]
  | Continue => Some [(OContinue, a)]
  | Loop inf p =>
    match ai pre p a with
    | None => None
    | Some o1 =>
      if forallb (back_edge_ok a) o1
      then Some (dedup ((if inf then [] else [(ONormal, a)]) ++ flat_map loop_exit o1))
      else None
    end
  | Scope p => option_map (map (fun oa => (descope (fst oa), snd oa))) (ai pre p a)
  | Call f sg =>
    match assoc f prog with
    | None => None
    | Some (_, sm) =>
      if call_ok pre (a_slack a) (a_mon a) (a_held a) sg sm
      then
        let dirty := map (rename_pile sg) (s_dirty sm) ++ a_dirty a in
        Some ((ONormal, mkA (map_items (rename sg) (s_delta sm) ++ a_held a) (a_flags a) (a_defers a)
                            dirty (a_up a) (a_slack a) (a_mon a))
              :: (if s_panics sm
                  then [(OPanicC, mkA (neg (map_items (rename sg) (s_plow sm)) ++ a_held a)
                                      (a_flags a) (a_defers a) dirty true
                                      (map_items (rename sg) (s_plow sm) ++ a_slack a) (a_mon a))]
                  else []))
      else None
    end
  end.

(* Final states of a function, compared with its summary. *)
Definition final_ok (sm : summary) (a : astate) : bool :=
  negb (a_up a) &&
  sm_eqb (strip_piles (s_dirty sm) (a_held a)) (s_delta sm) && subset (a_dirty a) (s_dirty sm).

(* A panicking exit: every mutex is at or above -s_plow ... *)
Definition plow_ok (sm : summary) (a : astate) : bool :=
  forallb (fun e => negb (checked (fst e)) || (- cnt (s_plow sm) (fst e) <=? cnt (a_held a) (fst e)))
          (a_held a ++ s_plow sm).

(* ... and, when the panic is the function's own, what the pending defers
   cover is back at the declared net effect. *)
Definition covered_ok (sm : summary) (ds : list stmt) (a : astate) : bool :=
  subset (a_dirty a) (s_dirty sm) &&
  forallb (fun e => negb (covered ds (fst e)) || in_piles (s_dirty sm) (fst e)
                    || (cnt (a_held a) (fst e) =? cnt (s_delta sm) (fst e)))
          (a_held a ++ s_delta sm).

Definition panic_exit_ok (sm : summary) (ds : list stmt) (a : astate) : bool :=
  s_panics sm && plow_ok sm a && (a_up a || covered_ok sm ds a).

Definition after_defers_ok (sm : summary) (ds : list stmt) (o1 : outcome) (oa : outcome * astate) : bool :=
  match fst oa with
  | ONormal => if is_panic o1 then panic_exit_ok sm ds (snd oa) else final_ok sm (snd oa)
  | OPanic | OPanicC => panic_exit_ok sm ds (snd oa)
  | _ => false
  end.

Definition exit_ok (sm : summary) (oa : outcome * astate) : bool :=
  match fst oa with
  | OBreak | OContinue | OFault => false
  | _ =>
    let a1 := snd oa in
    match ai (ctx_of sm) (unwind (a_defers a1)) (mkA (a_held a1) (a_flags a1) [] (a_dirty a1) (a_up a1) (a_slack a1) []) with
    | None => false
    | Some o2 => forallb (after_defers_ok sm (a_defers a1) (fst oa)) o2
    end
  end.

(* entry assumptions and panic bounds mention mutexes only, non-negatively *)
Definition sm_wf (sm : summary) : bool :=
  forallb (fun e => checked (fst e) && (0 <=? snd e)) (s_pre sm ++ s_plow sm).

Definition fn_ok (body : stmt) (sm : summary) : bool :=
  sm_wf sm &&
  match ai (ctx_of sm) body a0 with
  | None => false
  | Some o1 => forallb (exit_ok sm) o1
  end.

Definition balanced (f : string) : bool :=
  match assoc f prog with
  | None => false
  | Some (body, sm) => fn_ok body sm
  end.

(* ------------------------------------------------------------------------ *)
(* Soundness                                                                *)

Definition abs_rel (a : astate) (fr : frame) : Prop :=
  (exists extra extra2,
      supp_in (a_dirty a) extra /\ (a_up a = false -> extra2 = []) /\ nonneg_checked extra2 /\
      sm_equiv (held fr) (a_held a ++ extra ++ extra2)) /\
  (forall x, lookup_flag x (flags fr) = lookup_flag x (a_flags a)) /\
  defers fr = a_defers a /\ sm_equiv (slack fr) (a_slack a) /\ mon fr = a_mon a.

(* an abstract state only says "may be held more often" after a callee's panic *)
Definition up_ok (a : astate) (o : outcome) (a' : astate) : Prop :=
  a_up a' = true -> a_up a = true \/ o = OPanicC.

Lemma subset_sound a b : subset a b = true -> forall x, In x a -> In x b.
Proof.
  unfold subset; rewrite forallb_forall; intros H x Hx.
  specialize (H x Hx). apply existsb_exists in H as [y [Hy He]].
  apply String.eqb_eq in He; subst; assumption.
Qed.

Lemma assoc_notin {A} k (l : list (string * A)) : ~ In k (map fst l) -> assoc k l = None.
Proof.
  induction l as [|[k' v] l IH]; cbn; intros Hn; [reflexivity|].
  destruct (String.eqb_spec k k') as [->|_]; [exfalso; apply Hn; auto|].
  apply IH; intro; apply Hn; auto.
Qed.

Lemma optb_eqb_eq a b : optb_eqb a b = true -> a = b.
Proof.
  destruct a as [[]|], b as [[]|]; cbn; congruence.
Qed.

Lemma flags_eqb_sound a b :
  flags_eqb a b = true -> forall x, lookup_flag x a = lookup_flag x b.
Proof.
  unfold flags_eqb; rewrite forallb_forall; intros H x.
  destruct (in_dec string_dec x (map fst a ++ map fst b)) as [Hin|Hn].
  - apply optb_eqb_eq, H, Hin.
  - unfold lookup_flag; rewrite !assoc_notin; [reflexivity | |];
      intro; apply Hn, in_or_app; auto.
Qed.

Lemma aeqb_up a b : aeqb a b = true -> a_up a = a_up b.
Proof.
  unfold aeqb; rewrite !andb_true_iff. intros [[[_ H] _] _]. apply eqb_prop, H.
Qed.

Lemma abs_rel_aeqb a b fr : aeqb a b = true -> abs_rel a fr -> abs_rel b fr.
Proof.
  intros Hq. pose proof (aeqb_up _ _ Hq) as Hup. revert Hq.
  unfold aeqb; rewrite !andb_true_iff.
  intros [[[[[[[Hh Hf] Hd] Hs1] Hs2] _] Hsl] Hmn] [[extra [extra2 [Hsup [Hu [Hnn Heq]]]]] [Hfl [Hdf [Hslk Hmon]]]].
  apply sm_eqb_sound in Hh. apply sm_eqb_sound in Hsl. pose proof (flags_eqb_sound _ _ Hf) as Hf'.
  unfold defers_eqb in Hd. destruct (list_eq_dec stmt_eq_dec _ _) as [Hd'|]; [|discriminate].
  destruct (list_eq_dec Nat.eq_dec (a_mon a) (a_mon b)) as [Hm'|]; [|discriminate].
  split; [|split; [|split; [|split]]]; [| | | | congruence].
  - exists extra, extra2. split; [|split; [|split]].
    + eapply supp_in_mono; [apply subset_sound, Hs1 | exact Hsup].
    + rewrite <- Hup; exact Hu.
    + exact Hnn.
    + eapply sm_equiv_trans; [exact Heq | apply sm_equiv_app; [exact Hh | apply sm_equiv_refl]].
  - intro x; rewrite Hfl; apply Hf'.
  - congruence.
  - eapply sm_equiv_trans; eauto.
Qed.

Lemma dedup_in o a l :
  In (o, a) l -> exists a', In (o, a') (dedup l) /\ (a' = a \/ aeqb a a' = true).
Proof.
  induction l as [|x t IH]; cbn; [contradiction|].
  intros [-> | Hin].
  - destruct (existsb (oeqb (o, a)) (dedup t)) eqn:He.
    + apply existsb_exists in He as [[o' a'] [Hy Hq]].
      unfold oeqb in Hq; cbn in Hq. apply andb_true_iff in Hq as [Ho Ha].
      apply outcome_eqb_eq in Ho; subst o'. exists a'; auto.
    + exists a; split; [left; reflexivity | left; reflexivity].
  - destruct (IH Hin) as [a' [Hin' Hr]].
    destruct (existsb (oeqb x) (dedup t)); exists a'; split; auto. right; assumption.
Qed.

Lemma via_dedup l o a' fr' a :
  In (o, a') l -> abs_rel a' fr' -> up_ok a o a' ->
  exists a'', In (o, a'') (dedup l) /\ abs_rel a'' fr' /\ up_ok a o a''.
Proof.
  intros Hin Hr Hu. destruct (dedup_in _ _ _ Hin) as [a'' [Hin' [-> | Hq]]].
  - exists a'; auto.
  - exists a''; split; [assumption|]. split; [eapply abs_rel_aeqb; eauto|].
    unfold up_ok in *. rewrite <- (aeqb_up _ _ Hq). exact Hu.
Qed.

Lemma bind_outs_normal l k o1s a1 o a' r :
  bind_outs l k = Some r -> In (ONormal, a1) l -> k a1 = Some o1s -> In (o, a') o1s ->
  In (o, a') r.
Proof.
  revert r; induction l as [|[o0 a00] t IH]; cbn; intros r Hb Hin Hk Ho; [contradiction|].
  destruct (match o0 with ONormal => k a00 | _ => Some [(o0, a00)] end) as [x|] eqn:Hx; [|discriminate].
  destruct (bind_outs t k) as [y|] eqn:Hy; [|discriminate].
  inversion Hb; subst r. apply in_or_app.
  destruct Hin as [Heq | Hin].
  - inversion Heq; subst o0 a00. left. rewrite Hk in Hx; inversion Hx; subst; assumption.
  - right. eapply IH; eauto.
Qed.

Lemma bind_outs_abrupt l k o a r :
  bind_outs l k = Some r -> In (o, a) l -> o <> ONormal -> In (o, a) r.
Proof.
  revert r; induction l as [|[o0 a00] t IH]; cbn; intros r Hb Hin Hne; [contradiction|].
  destruct (match o0 with ONormal => k a00 | _ => Some [(o0, a00)] end) as [x|] eqn:Hx; [|discriminate].
  destruct (bind_outs t k) as [y|] eqn:Hy; [|discriminate].
  inversion Hb; subst r. apply in_or_app.
  destruct Hin as [Heq | Hin].
  - inversion Heq; subst o0 a00. left.
    destruct o; try congruence; inversion Hx; left; reflexivity.
  - right. eapply IH; eauto.
Qed.

Lemma bind_outs_some l k r a1 :
  bind_outs l k = Some r -> In (ONormal, a1) l -> exists o1s, k a1 = Some o1s.
Proof.
  revert r; induction l as [|[o0 a00] t IH]; cbn; intros r Hb Hin; [contradiction|].
  destruct (match o0 with ONormal => k a00 | _ => Some [(o0, a00)] end) as [x|] eqn:Hx; [|discriminate].
  destruct (bind_outs t k) as [y|] eqn:Hy; [|discriminate].
  destruct Hin as [Heq | Hin].
  - inversion Heq; subst o0 a00. eauto.
  - eapply IH; eauto.
Qed.

Lemma bind_then_in l k r o a :
  bind_then l k = Some r -> In (o, a) l ->
  exists x, then_one o a k = Some x /\ forall y, In y x -> In y r.
Proof.
  revert r; induction l as [|[o0 a00] t IH]; cbn; intros r Hb Hin; [contradiction|].
  destruct (then_one o0 a00 k) as [x|] eqn:Hx; [|discriminate].
  destruct (bind_then t k) as [y|] eqn:Hy; [|discriminate].
  inversion Hb; subst r.
  destruct Hin as [Heq | Hin].
  - inversion Heq; subst o0 a00. exists x; split; [assumption|]. intros; apply in_or_app; auto.
  - destruct (IH _ eq_refl Hin) as [x' [Hx' Hsub]]. exists x'; split; [assumption|].
    intros; apply in_or_app; auto.
Qed.

Definition all_ok : Prop :=
  forall f body sm, assoc f prog = Some (body, sm) -> fn_ok body sm = true.

Lemma abs_rel_0 : abs_rel a0 frame0.
Proof.
  split; [|split; [intro; reflexivity | split; [reflexivity | split; [apply sm_equiv_refl | reflexivity]]]].
  exists [], []. split; [intros e []|]. split; [reflexivity|]. split; [apply nonneg_checked_nil | apply sm_equiv_refl].
Qed.

(* What a checked function contributes to its caller. *)
Definition meets (sm : summary) (h : smset) : Prop :=
  exists extra, supp_in (s_dirty sm) extra /\ sm_equiv h (s_delta sm ++ extra).

Lemma final_ok_meets sm a fr :
  final_ok sm a = true -> abs_rel a fr -> meets sm (held fr) /\ a_up a = false.
Proof.
  unfold final_ok; rewrite !andb_true_iff; intros [[Hup Hq] Hs] [[extra [extra2 [Hsup [Hu [_ Heq]]]]] _].
  apply negb_true_iff in Hup. split; [|exact Hup]. rewrite (Hu Hup) in Heq.
  apply sm_eqb_sound in Hq.
  exists (only_piles (s_dirty sm) (a_held a) ++ extra); split.
  - apply supp_in_app; [apply supp_in_only|].
    eapply supp_in_mono; [apply subset_sound, Hs | exact Hsup].
  - intro i. rewrite Heq, !cnt_app, (strip_only_split (s_dirty sm) (a_held a) i), cnt_app, Hq. cbn. lia.
Qed.

Lemma in_piles_rename sg ps i :
  in_piles ps i = true -> in_piles (map (rename_pile sg) ps) (rename sg i) = true.
Proof.
  unfold in_piles; rewrite !existsb_exists. intros [p [Hp Hi]].
  exists (rename_pile sg p); split; [apply in_map, Hp|].
  unfold in_pile in *; destruct i as [[| |q] l]; cbn in *; try discriminate.
  apply String.eqb_eq in Hi; subst; apply String.eqb_refl.
Qed.

Lemma supp_in_rename sg ps h :
  supp_in ps h -> supp_in (map (rename_pile sg) ps) (map_items (rename sg) h).
Proof.
  intros H e He. apply in_map_iff in He as [e0 [<- He0]]; cbn.
  apply in_piles_rename, H, He0.
Qed.

(* the abstract count of a mutex is a lower bound of the concrete one *)
Lemma abs_lower a fr i :
  abs_rel a fr -> checked i = true -> cnt (a_held a) i <= cnt (held fr) i.
Proof.
  intros [[extra [extra2 [Hsup [_ [Hnn Heq]]]]] _] Hc.
  rewrite (Heq i), !cnt_app, (cnt_supp_checked _ _ _ Hsup Hc).
  specialize (Hnn i Hc). lia.
Qed.

Lemma abs_slack a fr i : abs_rel a fr -> cnt (slack fr) i = cnt (a_slack a) i.
Proof. intros [_ [_ [_ [H _]]]]. apply H. Qed.

Lemma abs_mon a fr : abs_rel a fr -> mon fr = a_mon a.
Proof. intros [_ [_ [_ [_ H]]]]. exact H. Qed.

Lemma holds_mono pre a fr its :
  abs_rel a fr -> (forall i, In i its -> checked i = true) ->
  holds pre (a_slack a) (a_held a) its = true -> holds pre (slack fr) (held fr) its = true.
Proof.
  intros Hr Hc. unfold holds. rewrite !existsb_exists. intros [i [Hi H]].
  exists i; split; [exact Hi|]. pose proof (abs_lower a fr i Hr (Hc i Hi)).
  rewrite (abs_slack a fr i Hr), Z.ltb_lt in *. lia.
Qed.

Lemma as_items_checked e i : In i (as_items e) -> checked i = true.
Proof. unfold as_items. destruct (as_shared e); cbn; intros [<- | [<- | []]] || intros [<- | []]; reflexivity. Qed.

Lemma mark_ok_mono c a fr t :
  abs_rel a fr -> mark_ok c (a_slack a) (a_held a) t = true -> mark_ok c (slack fr) (held fr) t = true.
Proof.
  intros Hr. unfold mark_ok. rewrite !forallb_forall. intros H e He. specialize (H e He).
  destruct (String.eqb (as_a e) t || is_b e t); [|reflexivity].
  exact (holds_mono _ _ _ _ Hr (as_items_checked e) H).
Qed.

Lemma can_rel_mono pre a fr i :
  abs_rel a fr -> can_rel pre (a_slack a) (a_held a) i = true -> can_rel pre (slack fr) (held fr) i = true.
Proof.
  intros Hr. unfold can_rel. destruct (checked i) eqn:Hc; cbn; [|reflexivity].
  pose proof (abs_lower a fr i Hr Hc). rewrite (abs_slack a fr i Hr), !Z.ltb_lt. lia.
Qed.

Lemma pre_met_mono pre a fr rp :
  abs_rel a fr -> (forall e, In e rp -> checked (fst e) = true) ->
  pre_met pre (a_slack a) (a_held a) rp = true -> pre_met pre (slack fr) (held fr) rp = true.
Proof.
  intros Hr Hc. unfold pre_met. rewrite !forallb_forall. intros H e He.
  specialize (H e He). pose proof (abs_lower a fr (fst e) Hr (Hc e He)).
  rewrite (abs_slack a fr _ Hr). rewrite Z.leb_le in *. lia.
Qed.

Lemma rel_ok_mono c a fr i :
  abs_rel a fr -> rel_ok c (a_slack a) (a_mon a) (a_held a) i = true -> rel_ok c (slack fr) (mon fr) (held fr) i = true.
Proof.
  intros Hr. unfold rel_ok. rewrite !andb_true_iff. intros [H1 H2]. rewrite (abs_mon a fr Hr).
  split; [exact (can_rel_mono _ _ _ _ Hr H1) | exact H2].
Qed.

Lemma call_ok_mono c a fr sg smc :
  abs_rel a fr -> (forall e, In e (map_items (rename sg) (s_pre smc)) -> checked (fst e) = true) ->
  call_ok c (a_slack a) (a_mon a) (a_held a) sg smc = true -> call_ok c (slack fr) (mon fr) (held fr) sg smc = true.
Proof.
  intros Hr Hc. unfold call_ok. rewrite !andb_true_iff. intros [H1 H2]. rewrite (abs_mon a fr Hr).
  split; [exact (pre_met_mono _ _ _ _ Hr Hc H1) | exact H2].
Qed.

Lemma sm_wf_pre sm sg e :
  sm_wf sm = true -> In e (map_items (rename sg) (s_pre sm)) -> checked (fst e) = true.
Proof.
  unfold sm_wf. rewrite forallb_forall. intros H He.
  apply in_map_iff in He as [e0 [<- He0]]. cbn. rewrite checked_rename.
  specialize (H e0 (in_or_app _ _ _ (or_introl He0))). apply andb_true_iff in H. tauto.
Qed.

Lemma plow_sound sm a fr :
  plow_ok sm a = true -> abs_rel a fr ->
  forall i, checked i = true -> 0 <= cnt (held fr) i + cnt (s_plow sm) i.
Proof.
  unfold plow_ok. rewrite forallb_forall. intros H Hr i Hc.
  pose proof (abs_lower a fr i Hr Hc) as Hl.
  destruct (in_items_dec i (map fst (a_held a ++ s_plow sm))) as [Hin | Hn].
  - apply in_map_iff in Hin as [e [<- He]]. specialize (H e He).
    rewrite Hc in H. cbn in H. rewrite Z.leb_le in H. lia.
  - rewrite map_app in Hn.
    assert (cnt (a_held a) i = 0) by (apply cnt_notin; intro; apply Hn, in_or_app; auto).
    assert (cnt (s_plow sm) i = 0) by (apply cnt_notin; intro; apply Hn, in_or_app; auto).
    lia.
Qed.

Lemma covered_sound sm ds a fr :
  covered_ok sm ds a = true -> abs_rel a fr -> a_up a = false ->
  forall i, covered ds i = true -> in_piles (s_dirty sm) i = false ->
  cnt (held fr) i = cnt (s_delta sm) i.
Proof.
  unfold covered_ok. rewrite andb_true_iff, forallb_forall.
  intros [Hs H] [[extra [extra2 [Hsup [Hu [_ Heq]]]]] _] Hup i Hcov Hnp.
  rewrite (Hu Hup) in Heq. rewrite (Heq i), !cnt_app. cbn.
  rewrite (cnt_supp_out (s_dirty sm) extra i); [| eapply supp_in_mono; [apply subset_sound, Hs | exact Hsup] | exact Hnp].
  destruct (in_items_dec i (map fst (a_held a ++ s_delta sm))) as [Hin | Hn].
  - apply in_map_iff in Hin as [e [<- He]]. specialize (H e He).
    rewrite Hcov, Hnp in H. cbn in H. rewrite Z.eqb_eq in H. lia.
  - rewrite map_app in Hn.
    assert (cnt (a_held a) i = 0) by (apply cnt_notin; intro; apply Hn, in_or_app; auto).
    assert (cnt (s_delta sm) i = 0) by (apply cnt_notin; intro; apply Hn, in_or_app; auto).
    lia.
Qed.

Lemma call_case sm ds o1 o2 a2 :
  after_defers_ok sm ds o1 (o2, a2) = true -> o1 <> OBreak -> o1 <> OContinue -> o1 <> OFault ->
  (call_outcome o1 o2 = ONormal /\ is_panic o1 = false /\ o2 = ONormal /\ final_ok sm a2 = true) \/
  (call_outcome o1 o2 = OPanicC /\ (is_panic o1 = true \/ is_panic o2 = true) /\ panic_exit_ok sm ds a2 = true).
Proof.
  unfold after_defers_ok; cbn [fst snd].
  destruct o1, o2; cbn; intros H H1 H2 H3; try congruence; auto.
Qed.

Lemma up_ok_trans a o1 a1 o2 a2 o :
  up_ok a o1 a1 -> up_ok a1 o2 a2 -> (o1 = OPanicC -> o = OPanicC) -> (o2 = OPanicC -> o = OPanicC) ->
  up_ok a o a2.
Proof.
  unfold up_ok. intros H1 H2 Ho1 Ho2 Hu. destruct (H2 Hu) as [Hu1 | ->]; [|auto].
  destruct (H1 Hu1) as [? | ->]; auto.
Qed.

Section Sound.
Hypothesis Hall : all_ok.

Lemma exec_sound pre s fr o fr' :
  exec pre s fr o fr' ->
  forall a r, abs_rel a fr -> ai pre s a = Some r ->
  o <> OFault /\ exists a', In (o, a') r /\ abs_rel a' fr' /\ up_ok a o a'.
Proof.
  induction 1; intros a0' r Hrel Hai; cbn in Hai.
  - (* Skip *) inversion Hai; subst. split; [discriminate|].
    eexists; split; [left; reflexivity | split; [assumption | intro; auto]].
  - (* Acq *)
    inversion Hai; subst. split; [discriminate|]. eexists; split; [left; reflexivity|].
    split; [|intro; auto].
    destruct Hrel as [[extra [extra2 [Hs [Hu [Hnn He]]]]] [Hf [Hd [Hsl Hmn]]]].
    split; [|split; [|split; [|split]]]; cbn; auto.
    exists extra, extra2. split; [|split; [|split]]; auto. apply sm_equiv_cons with (e := (i, 1)) in He; exact He.
  - (* Rel *)
    destruct (rel_ok pre (a_slack a0') (a_mon a0') (a_held a0') i) eqn:Hc; [|discriminate].
    inversion Hai; subst. split; [discriminate|]. eexists; split; [left; reflexivity|].
    split; [|intro; auto].
    destruct Hrel as [[extra [extra2 [Hs [Hu [Hnn He]]]]] [Hf [Hd [Hsl Hmn]]]].
    split; [|split; [|split; [|split]]]; cbn; auto.
    exists extra, extra2. split; [|split; [|split]]; auto. apply sm_equiv_cons with (e := (i, -1)) in He; exact He.
  - (* RelFault *)
    destruct (rel_ok pre (a_slack a0') (a_mon a0') (a_held a0') i) eqn:Hc; [|discriminate].
    rewrite (rel_ok_mono _ _ _ _ Hrel Hc) in H. discriminate.
  - (* Mark *)
    destruct (mark_ok pre (a_slack a0') (a_held a0') t) eqn:Hc; [|discriminate].
    inversion Hai; subst. split; [discriminate|]. eexists; split; [left; reflexivity|].
    split; [|intro; auto].
    destruct Hrel as [Hh [Hf [Hd [Hsl Hmn]]]].
    split; [|split; [|split; [|split]]]; cbn; auto. congruence.
  - (* MarkFault *)
    destruct (mark_ok pre (a_slack a0') (a_held a0') t) eqn:Hc; [|discriminate].
    rewrite (mark_ok_mono _ _ _ _ Hrel Hc) in H. discriminate.
  - (* PileUnlockAll *)
    inversion Hai; subst. split; [discriminate|]. eexists; split; [left; reflexivity|].
    split; [|intro; auto].
    destruct Hrel as [[extra [extra2 [Hs [Hu [Hnn He]]]]] [Hf [Hd [Hsl Hmn]]]].
    split; [|split; [|split; [|split]]]; cbn; auto.
    exists (clear_pile p extra), (clear_pile p extra2). split; [|split; [|split]].
    + intros e Hin. apply filter_In in Hin as [Hin Hnp'].
      specialize (Hs e Hin). unfold in_piles in *. rewrite existsb_exists in *.
      destruct Hs as [q [Hq Hiq]]. exists q; split; [|assumption].
      apply filter_In; split; [assumption|].
      destruct (String.eqb_spec p q) as [->|]; [|reflexivity].
      rewrite Hiq in Hnp'; discriminate.
    + intro Hup. rewrite (Hu Hup). reflexivity.
    + intros j Hj. rewrite cnt_clear_pile. destruct (in_pile p j); [lia | apply Hnn, Hj].
    + intro j. rewrite !cnt_app, !cnt_clear_pile. rewrite (He j), !cnt_app.
      destruct (in_pile p j); lia.
  - (* Defer *)
    destruct (nodefer s); [|discriminate].
    inversion Hai; subst. split; [discriminate|]. eexists; split; [left; reflexivity|].
    split; [|intro; auto].
    destruct Hrel as [Hh [Hf [Hd [Hsl Hmn]]]]. split; [|split; [|split; [|split]]]; cbn; auto. congruence.
  - (* SetFlag *)
    inversion Hai; subst. split; [discriminate|]. eexists; split; [left; reflexivity|].
    split; [|intro; auto].
    destruct Hrel as [Hh [Hf [Hd [Hsl Hmn]]]]. split; [|split; [|split; [|split]]]; cbn; auto.
    intro y; unfold lookup_flag in *; cbn. destruct (String.eqb y x); auto.
  - (* IfFlagT *)
    destruct Hrel as [Hh [Hf [Hd [Hsl Hmn]]]]. rewrite (Hf x) in H.
    destruct (lookup_flag x (a_flags a0')) as [[]|] eqn:Hl; try congruence.
    + eapply IHexec; eauto. split; [|split; [|split; [|split]]]; auto.
    + destruct (ai pre a a0') as [o1|] eqn:Hai1; [|discriminate].
      destruct (ai pre b a0') as [o2|] eqn:Hai2; [|discriminate].
      inversion Hai; subst.
      destruct (IHexec a0' o1) as [Hnf [a' [Hin [Hr Hu]]]]; [split; [|split; [|split; [|split]]]; auto | exact Hai1|].
      split; [exact Hnf|]. apply (via_dedup (o1 ++ o2) o a'); auto. apply in_or_app; auto.
  - (* IfFlagF *)
    destruct Hrel as [Hh [Hf [Hd [Hsl Hmn]]]]. rewrite (Hf x) in H.
    destruct (lookup_flag x (a_flags a0')) as [[]|] eqn:Hl; try congruence.
    + eapply IHexec; eauto. split; [|split; [|split; [|split]]]; auto.
    + destruct (ai pre a a0') as [o1|] eqn:Hai1; [|discriminate].
      destruct (ai pre b a0') as [o2|] eqn:Hai2; [|discriminate].
      inversion Hai; subst.
      destruct (IHexec a0' o2) as [Hnf [a' [Hin [Hr Hu]]]]; [split; [|split; [|split; [|split]]]; auto | exact Hai2|].
      split; [exact Hnf|]. apply (via_dedup (o1 ++ o2) o a'); auto. apply in_or_app; auto.
  - (* IfL *)
    destruct (ai pre a a0') as [o1|] eqn:Hai1; [|discriminate].
    destruct (ai pre b a0') as [o2|] eqn:Hai2; [|discriminate].
    inversion Hai; subst.
    destruct (IHexec a0' o1 Hrel Hai1) as [Hnf [a' [Hin [Hr Hu]]]].
    split; [exact Hnf|]. apply (via_dedup (o1 ++ o2) o a'); auto. apply in_or_app; auto.
  - (* IfR *)
    destruct (ai pre a a0') as [o1|] eqn:Hai1; [|discriminate].
    destruct (ai pre b a0') as [o2|] eqn:Hai2; [|discriminate].
    inversion Hai; subst.
    destruct (IHexec a0' o2 Hrel Hai2) as [Hnf [a' [Hin [Hr Hu]]]].
    split; [exact Hnf|]. apply (via_dedup (o1 ++ o2) o a'); auto. apply in_or_app; auto.
  - (* SeqN *)
    destruct (ai pre a a0') as [o1|] eqn:Hai1; [|discriminate].
    destruct (bind_outs o1 (ai pre b)) as [r0|] eqn:Hb; [|discriminate].
    inversion Hai; subst.
    destruct (IHexec1 a0' o1 Hrel Hai1) as [_ [a1 [Hin1 [Hr1 Hu1]]]].
    destruct (bind_outs_some _ _ _ _ Hb Hin1) as [o1s Hk].
    destruct (IHexec2 a1 o1s Hr1 Hk) as [Hnf [a2 [Hin2 [Hr2 Hu2]]]].
    pose proof (bind_outs_normal _ _ _ _ _ _ _ Hb Hin1 Hk Hin2) as Hin3.
    split; [exact Hnf|]. apply (via_dedup r0 o a2); auto.
    eapply up_ok_trans; eauto. discriminate.
  - (* SeqX *)
    destruct (ai pre a a0') as [o1|] eqn:Hai1; [|discriminate].
    destruct (bind_outs o1 (ai pre b)) as [r0|] eqn:Hb; [|discriminate].
    inversion Hai; subst.
    destruct (IHexec a0' o1 Hrel Hai1) as [Hnf [a1 [Hin1 [Hr1 Hu1]]]].
    pose proof (bind_outs_abrupt _ _ _ _ _ Hb Hin1 H0) as Hin3.
    split; [exact Hnf|]. apply (via_dedup r0 o a1); auto.
  - (* ThenN *)
    destruct (ai pre a a0') as [o1|] eqn:Hai1; [|discriminate].
    destruct (bind_then o1 (ai pre b)) as [r0|] eqn:Hb; [|discriminate].
    inversion Hai; subst.
    destruct (IHexec1 a0' o1 Hrel Hai1) as [_ [a1 [Hin1 [Hr1 Hu1]]]].
    destruct (bind_then_in _ _ _ _ _ Hb Hin1) as [x [Hx Hsub]]. cbn in Hx.
    destruct (IHexec2 a1 x Hr1 Hx) as [Hnf [a2 [Hin2 [Hr2 Hu2]]]].
    split; [exact Hnf|]. apply (via_dedup r0 o a2); auto.
    eapply up_ok_trans; eauto. discriminate.
  - (* ThenP *)
    destruct (ai pre a a0') as [o1s|] eqn:Hai1; [|discriminate].
    destruct (bind_then o1s (ai pre b)) as [r0|] eqn:Hb; [|discriminate].
    inversion Hai; subst.
    destruct (IHexec1 a0' o1s Hrel Hai1) as [_ [a1 [Hin1 [Hr1 Hu1]]]].
    destruct (bind_then_in _ _ _ _ _ Hb Hin1) as [x [Hx Hsub]].
    assert (Hk : exists y, ai pre b a1 = Some y /\ x = map (fun oa => (panic_join o1 (fst oa), snd oa)) y).
    { destruct o1; try discriminate; cbn in Hx;
        (destruct (ai pre b a1) as [y|]; [|discriminate]); inversion Hx; eauto. }
    destruct Hk as [y [Hy ->]].
    destruct (IHexec2 a1 y Hr1 Hy) as [Hnf [a2 [Hin2 [Hr2 Hu2]]]].
    split; [destruct o1, o2; cbn; congruence|].
    apply (via_dedup r0 (panic_join o1 o2) a2); auto.
    + apply Hsub. apply in_map_iff. exists (o2, a2); auto.
    + eapply up_ok_trans; eauto.
      * intros ->. destruct o2; cbn; congruence.
      * intros ->. destruct o1; cbn; congruence.
  - (* ThenX *)
    destruct (ai pre a a0') as [o1|] eqn:Hai1; [|discriminate].
    destruct (bind_then o1 (ai pre b)) as [r0|] eqn:Hb; [|discriminate].
    inversion Hai; subst.
    destruct (IHexec a0' o1 Hrel Hai1) as [Hnf [a1 [Hin1 [Hr1 Hu1]]]].
    destruct (bind_then_in _ _ _ _ _ Hb Hin1) as [x [Hx Hsub]].
    assert (x = [(o, a1)]) by (destruct o; cbn in *; congruence). subst x.
    split; [exact Hnf|]. apply (via_dedup r0 o a1); auto. apply Hsub; left; reflexivity.
  - (* Return *) inversion Hai; subst. split; [discriminate|].
    eexists; split; [left; reflexivity | split; [assumption | intro; auto]].
  - (* Panic *) inversion Hai; subst. split; [discriminate|].
    eexists; split; [left; reflexivity | split; [assumption | intro; auto]].
  - (* Break *) inversion Hai; subst. split; [discriminate|].
    eexists; split; [left; reflexivity | split; [assumption | intro; auto]].
  - (* Continue *) inversion Hai; subst. split; [discriminate|].
    eexists; split; [left; reflexivity | split; [assumption | intro; auto]].
  - (* LoopExit *)
    destruct (ai pre a a0') as [o1|] eqn:Hai1; [|discriminate].
    destruct (forallb (back_edge_ok a0') o1) eqn:Hbe; [|discriminate].
    inversion Hai; subst. split; [discriminate|].
    apply (via_dedup ([(ONormal, a0')] ++ flat_map loop_exit o1) ONormal a0'); [left; reflexivity | assumption | intro; auto].
  - (* LoopIter *)
    destruct (ai pre a a0') as [o1|] eqn:Hai1; [|discriminate].
    destruct (forallb (back_edge_ok a0') o1) eqn:Hbe; [|discriminate].
    destruct (IHexec1 a0' o1 Hrel Hai1) as [_ [a1 [Hin1 [Hr1 Hu1]]]].
    pose proof (proj1 (forallb_forall _ _) Hbe _ Hin1) as Hb1.
    unfold back_edge_ok in Hb1; cbn in Hb1.
    assert (Hq : aeqb a1 a0' = true) by (destruct H0; subst; assumption).
    apply (abs_rel_aeqb _ _ _ Hq) in Hr1.
    apply (IHexec2 a0' r Hr1). cbn. rewrite Hai1, Hbe. exact Hai.
  - (* LoopBreak *)
    destruct (ai pre a a0') as [o1|] eqn:Hai1; [|discriminate].
    destruct (forallb (back_edge_ok a0') o1) eqn:Hbe; [|discriminate].
    inversion Hai; subst. split; [discriminate|].
    destruct (IHexec a0' o1 Hrel Hai1) as [_ [a1 [Hin1 [Hr1 Hu1]]]].
    apply (via_dedup _ ONormal a1); auto.
    + apply in_or_app; right. apply in_flat_map. exists (OBreak, a1); split; [assumption | left; reflexivity].
    + intro Hup. destruct (Hu1 Hup) as [|]; [auto | discriminate].
  - (* LoopAbrupt *)
    destruct (ai pre a a0') as [o1|] eqn:Hai1; [|discriminate].
    destruct (forallb (back_edge_ok a0') o1) eqn:Hbe; [|discriminate].
    inversion Hai; subst.
    destruct (IHexec a0' o1 Hrel Hai1) as [Hnf [a1 [Hin1 [Hr1 Hu1]]]].
    split; [exact Hnf|].
    apply (via_dedup _ o a1); auto.
    apply in_or_app; right. apply in_flat_map. exists (o, a1); split; [assumption|].
    destruct H0 as [-> | [-> | [-> | ->]]]; left; reflexivity.
  - (* Scope *)
    destruct (ai pre a a0') as [o1|] eqn:Hai1; [|discriminate].
    inversion Hai; subst.
    destruct (IHexec a0' o1 Hrel Hai1) as [Hnf [a1 [Hin1 [Hr1 Hu1]]]].
    split; [destruct o; cbn; congruence|].
    exists a1; split; [|split; [assumption|]].
    + apply in_map_iff. exists (o, a1); split; [reflexivity | assumption].
    + intro Hup. destruct (Hu1 Hup) as [? | ->]; auto.
  - (* Call *)
    rewrite H in Hai.
    destruct (call_ok pre (a_slack a0') (a_mon a0') (a_held a0') sg sm) eqn:Hpm; [|discriminate].
    inversion Hai; subst r; clear Hai.
    pose proof (Hall _ _ _ H) as Hok. unfold fn_ok in Hok.
    apply andb_true_iff in Hok as [Hwf Hok].
    destruct (ai (ctx_of sm) body a0) as [o1s|] eqn:Hb; [|discriminate].
    destruct (IHexec1 a0 o1s abs_rel_0 Hb) as [_ [a1 [Hin1 [Hr1 Hu1]]]].
    pose proof (proj1 (forallb_forall _ _) Hok _ Hin1) as Hx.
    unfold exit_ok in Hx; cbn [fst snd] in Hx.
    destruct Hr1 as [Hh1 [Hf1 [Hd1 [Hsl1 Hmn1]]]].
    assert (Hx' : match ai (ctx_of sm) (unwind (a_defers a1)) (mkA (a_held a1) (a_flags a1) [] (a_dirty a1) (a_up a1) (a_slack a1) []) with
                  | Some o2s => forallb (after_defers_ok sm (a_defers a1) o1) o2s
                  | None => false end = true) by (destruct o1; congruence).
    clear Hx.
    destruct (ai (ctx_of sm) (unwind (a_defers a1)) _) as [o2s|] eqn:Hu; [|discriminate].
    rewrite Hd1 in IHexec2.
    destruct (IHexec2 (mkA (a_held a1) (a_flags a1) [] (a_dirty a1) (a_up a1) (a_slack a1) []) o2s) as [Hnf2 [a2 [Hin2 [Hr2 Hu2]]]];
      [split; [|split; [|split; [|split]]]; cbn; auto | exact Hu |].
    pose proof (proj1 (forallb_forall _ _) Hx' _ Hin2) as Hy.
    destruct Hrel as [[ex [ex2 [Hs [Hup [Hnn He]]]]] [Hf [Hd [Hsl Hmn]]]].
    destruct (call_case _ _ _ _ _ Hy H2 H3 H4) as [(Hco & _ & -> & Hfin) | (Hco & _ & Hpe)]; rewrite Hco.
    + (* the callee returns *)
      split; [discriminate|].
      destruct (final_ok_meets _ _ _ Hfin Hr2) as [[exc [Hsc Hec]] _].
      eexists; split; [left; reflexivity|]. split; [|intro; auto].
      split; [|split; [|split; [|split]]]; cbn; auto.
      exists (map_items (rename sg) exc ++ ex), ex2. split; [|split; [|split]]; auto.
      * apply supp_in_app.
        -- eapply supp_in_mono; [|apply supp_in_rename, Hsc]. intros; apply in_or_app; auto.
        -- eapply supp_in_mono; [|exact Hs]. intros; apply in_or_app; auto.
      * intro j. rewrite !cnt_app.
        rewrite (map_items_equiv (rename sg) _ _ Hec j), map_items_app, cnt_app, (He j), !cnt_app. lia.
    + (* the callee panics *)
      split; [discriminate|].
      unfold panic_exit_ok in Hpe. apply andb_true_iff in Hpe as [Hpe _].
      apply andb_true_iff in Hpe as [Hpan Hpl]. rewrite Hpan.
      eexists; split; [right; left; reflexivity|]. split; [|intro; right; reflexivity].
      split; [|split; [|split; [|split]]]; cbn; auto;
        [| apply sm_equiv_app; [apply sm_equiv_refl | exact Hsl]].
      exists ex, ((map_items (rename sg) (held fr2) ++ map_items (rename sg) (s_plow sm)) ++ ex2). split; [|split; [|split]].
      * eapply supp_in_mono; [|exact Hs]. intros; apply in_or_app; auto.
      * discriminate.
      * apply nonneg_checked_app; [|exact Hnn].
        intros j Hj. rewrite cnt_app, !cnt_map_items, <- cntP_app.
        apply cntP_nonneg. intros i Hi.
        destruct (item_eqb_spec j (rename sg i)) as [->|]; [|discriminate].
        rewrite checked_rename in Hj. rewrite cnt_app. apply (plow_sound sm a2 fr2 Hpl Hr2 i Hj).
      * intro j. rewrite !cnt_app, cnt_neg, (He j), !cnt_app. lia.
  - (* CallFault *)
    exfalso.
    pose proof (Hall _ _ _ H) as Hok. unfold fn_ok in Hok.
    apply andb_true_iff in Hok as [Hwf Hok].
    destruct (ai (ctx_of sm) body a0) as [o1s|] eqn:Hb; [|discriminate].
    destruct (IHexec a0 o1s abs_rel_0 Hb) as [Hnf _]. congruence.
  - (* CallPre *)
    exfalso. rewrite H in Hai.
    destruct (call_ok pre (a_slack a0') (a_mon a0') (a_held a0') sg sm) eqn:Hpm; [|discriminate].
    pose proof (Hall _ _ _ H) as Hok. unfold fn_ok in Hok.
    apply andb_true_iff in Hok as [Hwf _].
    rewrite (call_ok_mono _ _ _ _ _ Hrel (fun e => sm_wf_pre sm sg e Hwf) Hpm) in H0. discriminate.
Qed.

(* A complete run of a checked function, abstractly. *)
Lemma fn_run_sound f sm o1 fr1 o2 fr2 :
  fn_run f sm o1 fr1 o2 fr2 ->
  o2 <> OFault /\
  exists a1 a2,
    abs_rel a1 fr1 /\ up_ok a0 o1 a1 /\ abs_rel a2 fr2 /\
    up_ok a1 o2 a2 /\
    after_defers_ok sm (defers fr1) o1 (o2, a2) = true.
Proof.
  intros (body & Hf & Hex1 & Hb1 & Hc1 & Hf1 & Hex2).
  pose proof (Hall _ _ _ Hf) as Hok. unfold fn_ok in Hok.
  apply andb_true_iff in Hok as [_ Hok].
  destruct (ai (ctx_of sm) body a0) as [o1s|] eqn:Hab; [|discriminate].
  destruct (exec_sound _ _ _ _ _ Hex1 a0 o1s abs_rel_0 Hab) as [_ [a1 [Hin1 [Hr1 Hu1]]]].
  pose proof (proj1 (forallb_forall _ _) Hok _ Hin1) as Hx.
  unfold exit_ok in Hx; cbn [fst snd] in Hx.
  assert (Hx' : match ai (ctx_of sm) (unwind (a_defers a1)) (mkA (a_held a1) (a_flags a1) [] (a_dirty a1) (a_up a1) (a_slack a1) []) with
                | Some o2s => forallb (after_defers_ok sm (a_defers a1) o1) o2s
                | None => false end = true) by (destruct o1; congruence).
  clear Hx.
  destruct (ai (ctx_of sm) (unwind (a_defers a1)) _) as [o2s|] eqn:Hu; [|discriminate].
  pose proof Hr1 as [Hh1 [Hfl1 [Hd1 [Hsl1 Hmn1]]]].
  rewrite Hd1 in Hex2.
  destruct (exec_sound _ _ _ _ _ Hex2 (mkA (a_held a1) (a_flags a1) [] (a_dirty a1) (a_up a1) (a_slack a1) []) o2s)
    as [Hnf2 [a2 [Hin2 [Hr2 Hu2]]]]; [repeat split; cbn; auto | exact Hu |].
  split; [exact Hnf2|]. exists a1, a2.
  split; [exact Hr1|]. split; [exact Hu1|]. split; [exact Hr2|]. split; [exact Hu2|].
  rewrite Hd1. exact (proj1 (forallb_forall _ _) Hx' _ Hin2).
Qed.

End Sound.

Lemma assoc_in {A} k (l : list (string * A)) v : assoc k l = Some v -> In k (map fst l).
Proof.
  induction l as [|[k' v'] l IH]; cbn; [discriminate|].
  destruct (String.eqb_spec k k') as [->|_]; auto.
Qed.

Lemma all_ok_of_bool : forallb balanced (map fst prog) = true -> all_ok.
Proof.
  intros H f body sm Hf. rewrite forallb_forall in H.
  specialize (H f (assoc_in _ _ _ Hf)). unfold balanced in H. rewrite Hf in H. exact H.
Qed.

(* Every function passes its check  ==>  every returning path of every
   function has exactly the declared net effect. *)
Theorem balanced_sound_all :
  forallb balanced (map fst prog) = true ->
  forall f h, fn_returns f h ->
  exists body sm, assoc f prog = Some (body, sm) /\ meets sm h.
Proof.
  intros Hb f h (sm & o1 & fr1 & fr2 & Hrun & Ho1 & ->).
  pose proof (all_ok_of_bool Hb) as Hall.
  destruct (fn_run_sound Hall _ _ _ _ _ _ Hrun) as [_ (a1 & a2 & _ & _ & Hr2 & _ & Hy)].
  destruct Hrun as (body & Hf & _). exists body, sm; split; [assumption|].
  unfold after_defers_ok in Hy; cbn [fst snd] in Hy.
  assert (Hp : is_panic o1 = false) by (destruct Ho1; subst; reflexivity). rewrite Hp in Hy.
  exact (proj1 (final_ok_meets _ _ _ Hy Hr2)).
Qed.

(* The case the property is about: a function whose summary declares no net
   effect holds, when it returns, exactly the locks it held when it was
   called. *)
Corollary balanced_sound :
  forallb balanced (map fst prog) = true ->
  forall f body sm, assoc f prog = Some (body, sm) -> s_delta sm = [] -> s_dirty sm = [] ->
  forall h, fn_returns f h -> forall i, cnt h i = 0.
Proof.
  intros Hb f body sm Hf Hd Hp h Hr i.
  destruct (balanced_sound_all Hb f h Hr) as (body' & sm' & Hf' & ex & Hs & He).
  rewrite Hf in Hf'; inversion Hf'; subst sm' body'.
  rewrite (He i), Hd; cbn. rewrite Hp in Hs.
  destruct ex as [|e ex]; [reflexivity|].
  specialize (Hs e (or_introl eq_refl)); discriminate.
Qed.

(* No run of any function -- returning or panicking, in its body, in its
   deferred statements or in anything it calls -- releases a mutex that is
   not held (relative to the entry assumption) or calls a function whose
   entry assumption is not met. *)
Theorem balanced_no_fault :
  forallb balanced (map fst prog) = true -> forall f, ~ fn_faults f.
Proof.
  intros Hb f (body & sm & Hf & [[fr1 Hex] | (o1 & fr1 & fr2 & Hrun)]).
  - pose proof (all_ok_of_bool Hb) as Hall.
    pose proof (Hall _ _ _ Hf) as Hok. unfold fn_ok in Hok.
    apply andb_true_iff in Hok as [_ Hok].
    destruct (ai (ctx_of sm) body a0) as [o1s|] eqn:Hab; [|discriminate].
    destruct (exec_sound Hall _ _ _ _ _ Hex a0 o1s abs_rel_0 Hab) as [Hnf _]. congruence.
  - destruct (fn_run_sound (all_ok_of_bool Hb) _ _ _ _ _ _ Hrun) as [Hnf _]. congruence.
Qed.

(* When a function panics by itself, every lock covered by a deferred
   statement pending at that moment is, after the deferred statements have
   run, exactly at the function's declared net effect (zero for a function
   without a summary).  Only locks no pending defer covers are exempt. *)
Theorem balanced_panic_covered :
  forallb balanced (map fst prog) = true ->
  forall f sm ds h, fn_panics_own f sm ds h ->
  forall i, covered ds i = true -> in_piles (s_dirty sm) i = false -> cnt h i = cnt (s_delta sm) i.
Proof.
  intros Hb f sm ds h (o1 & fr1 & o2 & fr2 & Hrun & Hcase & -> & ->) i Hcov Hnp.
  destruct (fn_run_sound (all_ok_of_bool Hb) _ _ _ _ _ _ Hrun)
    as [_ (a1 & a2 & Hr1 & Hu1 & Hr2 & Hu2 & Hy)].
  assert (Hup1 : a_up a1 = false).
  { destruct (a_up a1) eqn:E; [|reflexivity]. destruct (Hu1 E) as [Hc | Hc]; [discriminate|].
    destruct Hcase as [[-> _] | [[-> | ->] _]]; discriminate. }
  assert (Hup2 : a_up a2 = false).
  { destruct (a_up a2) eqn:E; [|reflexivity]. destruct (Hu2 E) as [Hc | Hc]; [cbn in Hc; congruence|].
    destruct Hcase as [[_ [-> | ->]] | [_ ->]]; discriminate. }
  assert (Hpe : panic_exit_ok sm (defers fr1) a2 = true).
  { unfold after_defers_ok in Hy; cbn [fst snd] in Hy.
    destruct Hcase as [[-> [-> | ->]] | [[-> | ->] ->]]; exact Hy. }
  unfold panic_exit_ok in Hpe. rewrite Hup2 in Hpe. cbn in Hpe.
  apply andb_true_iff in Hpe as [_ Hco].
  exact (covered_sound _ _ _ _ Hco Hr2 Hup2 i Hcov Hnp).
Qed.

(* A function whose summary says it does not panic does not (explicit panic
   statements, in itself or in what it calls). *)
Theorem balanced_no_panic :
  forallb balanced (map fst prog) = true ->
  forall f sm o1 fr1 o2 fr2, fn_run f sm o1 fr1 o2 fr2 -> s_panics sm = false ->
  is_panic o1 = false /\ is_panic o2 = false.
Proof.
  intros Hb f sm o1 fr1 o2 fr2 Hrun Hnp.
  destruct (fn_run_sound (all_ok_of_bool Hb) _ _ _ _ _ _ Hrun) as [_ (a1 & a2 & _ & _ & _ & _ & Hy)].
  unfold after_defers_ok, panic_exit_ok in Hy; cbn [fst snd] in Hy. rewrite Hnp in Hy.
  destruct o1, o2; cbn in *; auto; discriminate.
Qed.


(* ------------------------------------------------------------------------ *)
(* Atomic sections                                                          *)

Definition asec_eqb (x y : asec) : bool :=
  String.eqb (as_a x) (as_a y)
  && match as_b x, as_b y with
     | Some p, Some q => String.eqb p q
     | None, None => true
     | _, _ => false
     end
  && String.eqb (as_lock x) (as_lock y) && Bool.eqb (as_shared x) (as_shared y).

Lemma asec_eqb_eq x y : asec_eqb x y = true -> x = y.
Proof.
  destruct x as [a b l sh], y as [a' b' l' sh']; unfold asec_eqb; cbn.
  rewrite !andb_true_iff. intros [[[Ha Hb] Hl] Hs].
  apply String.eqb_eq in Ha, Hl. apply eqb_prop in Hs. subst.
  destruct b as [p|], b' as [q|]; try discriminate; [apply String.eqb_eq in Hb; subst|]; reflexivity.
Qed.

(* The executable judgement: function [f] passes its check (balance, floor,
   panic paths, and every section declared for it), and [e] is one of the
   sections declared for it. *)
Definition atomic_section (f : string) (e : asec) : bool :=
  match assoc f prog with
  | Some (body, sm) => fn_ok body sm && existsb (asec_eqb e) (s_atomic sm)
  | None => false
  end.

(* What the path semantics makes of a declared section (these are the
   rules, read backwards): an event that opens or closes it faults unless
   the mutex is held ... *)
Lemma mark_fault_iff c t fr o fr' :
  exec c (Mark t) fr o fr' -> (o = OFault <-> mark_ok c (slack fr) (held fr) t = false).
Proof.
  intros H; inversion H; subst; split; intros H'; congruence.
Qed.

Lemma mark_ok_holds c sl h t e :
  mark_ok c sl h t = true -> In e (c_atomic c) -> as_a e = t \/ as_b e = Some t ->
  holds (c_pre c) sl h (as_items e) = true.
Proof.
  unfold mark_ok. rewrite forallb_forall. intros H He Ht. specialize (H e He).
  destruct Ht as [<- | Hb].
  - rewrite String.eqb_refl in H. exact H.
  - unfold is_b in H. rewrite Hb, String.eqb_refl, orb_true_r in H. exact H.
Qed.

(* ... the opening event leaves the section open ... *)
Lemma mark_mon_step_other t m k j e :
  j <> k -> is_open m k = true ->
  is_open (if is_b e t then filter (fun x => negb (Nat.eqb x j)) m
           else if String.eqb (as_a e) t
                then match as_b e with Some _ => if is_open m j then m else j :: m | None => m end
                else m) k = true.
Proof.
  intros Hne Ho. unfold is_open in *.
  destruct (is_b e t).
  - rewrite existsb_exists in *. destruct Ho as [x [Hx Hk]]. exists x; split; [|exact Hk].
    apply filter_In; split; [exact Hx|]. apply Nat.eqb_eq in Hk; subst x.
    apply negb_true_iff, Nat.eqb_neq. congruence.
  - destruct (String.eqb (as_a e) t); [|exact Ho].
    destruct (as_b e); [|exact Ho]. destruct (existsb (Nat.eqb j) m); [exact Ho|].
    cbn. rewrite Ho. apply orb_true_r.
Qed.

Lemma fold_mark_keeps t k : forall l n m,
  (forall j e, In (j, e) (indexed n l) -> j <> k) -> is_open m k = true ->
  is_open (fold_left (fun m ke =>
               let e := snd ke in
               if is_b e t then filter (fun j => negb (Nat.eqb j (fst ke))) m
               else if String.eqb (as_a e) t
                    then match as_b e with
                         | Some _ => if is_open m (fst ke) then m else fst ke :: m
                         | None => m
                         end
                    else m) (indexed n l) m) k = true.
Proof.
  induction l as [|e l IH]; cbn; intros n m Hd Ho; [exact Ho|].
  apply IH; [intros j e' Hin; apply (Hd j e'); right; exact Hin|].
  apply mark_mon_step_other; [apply (Hd n e); left; reflexivity | exact Ho].
Qed.

Lemma indexed_ge {A} (l : list A) : forall n j x, In (j, x) (indexed n l) -> (n <= j)%nat.
Proof.
  induction l as [|y l IH]; cbn; intros n j x; [contradiction|].
  intros [H | H]; [inversion H; subst; apply Nat.le_refl | apply IH in H; apply Nat.lt_le_incl, H].
Qed.

Lemma fold_mark_opens t b : forall l n m k e,
  nth_error l k = Some e -> as_a e = t -> as_b e = Some b -> b <> t ->
  is_open (fold_left (fun m ke =>
               let e := snd ke in
               if is_b e t then filter (fun j => negb (Nat.eqb j (fst ke))) m
               else if String.eqb (as_a e) t
                    then match as_b e with
                         | Some _ => if is_open m (fst ke) then m else fst ke :: m
                         | None => m
                         end
                    else m) (indexed n l) m) (n + k) = true.
Proof.
  induction l as [|e0 l IH]; intros n m k e Hn Ha Hb Hbt.
  - destruct k; discriminate.
  - destruct k as [|k]; cbn [indexed fold_left].
    + cbn in Hn. inversion Hn; subst e0. cbn [fst snd].
      rewrite Nat.add_0_r.
      apply fold_mark_keeps.
      * intros j e' Hin. apply indexed_ge in Hin. intro; subst j. exact (Nat.nle_succ_diag_l _ Hin).
      * unfold is_b. rewrite Hb. destruct (String.eqb_spec b t) as [|_]; [contradiction|].
        rewrite Ha, String.eqb_refl. unfold is_open.
        destruct (existsb (Nat.eqb n) m) eqn:E; [exact E | cbn; rewrite Nat.eqb_refl; reflexivity].
    + cbn in Hn. rewrite Nat.add_succ_r. change (S (n + k)) with (S n + k)%nat.
      eapply IH; eassumption.
Qed.

Lemma mark_mon_opens c m t k e b :
  nth_error (c_atomic c) k = Some e -> as_a e = t -> as_b e = Some b -> b <> t ->
  is_open (mark_mon c m t) k = true.
Proof. intros. unfold mark_mon. change k with (0 + k)%nat. eapply fold_mark_opens; eassumption. Qed.

(* ... and while it is open, a release of its mutex and a call of a function
   whose summary mentions its mutex are faults. *)
Lemma rel_breaks_open c m k e i :
  is_open m k = true -> nth_error (c_atomic c) k = Some e -> checked i = true -> snd i = as_lock e ->
  rel_breaks c m i = true.
Proof.
  unfold is_open, rel_breaks, open_locks. intros Ho Hn Hc Hl. rewrite Hc; cbn.
  apply existsb_exists. exists (as_lock e); split; [|rewrite Hl; apply String.eqb_refl].
  apply existsb_exists in Ho as [x [Hx Hk]]. apply Nat.eqb_eq in Hk; subst x.
  apply in_map_iff. exists k; split; [rewrite Hn; reflexivity | exact Hx].
Qed.

Lemma rel_fault_iff c i fr o fr' :
  exec c (Rel i) fr o fr' -> (o = OFault <-> rel_ok c (slack fr) (mon fr) (held fr) i = false).
Proof. intros H; inversion H; subst; split; intros H'; congruence. Qed.

Lemma call_breaks_open c m k e sg smc :
  is_open m k = true -> nth_error (c_atomic c) k = Some e -> In (as_lock e) (sum_locks sg smc) ->
  call_breaks c m sg smc = true.
Proof.
  unfold is_open, call_breaks, open_locks. intros Ho Hn Hl.
  apply existsb_exists. exists (as_lock e); split.
  - apply existsb_exists in Ho as [x [Hx Hk]]. apply Nat.eqb_eq in Hk; subst x.
    apply in_map_iff. exists k; split; [rewrite Hn; reflexivity | exact Hx].
  - apply existsb_exists. exists (as_lock e); split; [exact Hl | apply String.eqb_refl].
Qed.

Lemma call_no_fault c f sg fr o fr' :
  exec c (Call f sg) fr o fr' -> o <> OFault ->
  exists body smc, assoc f prog = Some (body, smc) /\ call_ok c (slack fr) (mon fr) (held fr) sg smc = true.
Proof.
  intros H Hn; inversion H; subst; try congruence. eauto.
Qed.

(* Soundness of the judgement: if every function of the program passes its
   check and [atomic_section f e] holds, then [e] is a declared section of
   [f] and no run of [f] -- its body, any outcome -- faults; by the lemmas
   above this means: at every [as_a e] and [as_b e] event of the run the mutex
   [as_lock e] is held (exclusively, or at least shared), and from an
   [as_a e] event to the next [as_b e] event, or to the end of the body, the
   function neither releases the mutex nor calls a function whose summary
   mentions it. *)
Theorem atomic_section_sound :
  forallb balanced (map fst prog) = true ->
  forall f e, atomic_section f e = true ->
  exists body sm,
    assoc f prog = Some (body, sm) /\ In e (s_atomic sm) /\
    forall o fr, exec (ctx_of sm) body frame0 o fr -> o <> OFault.
Proof.
  intros Hb f e Ha. unfold atomic_section in Ha.
  destruct (assoc f prog) as [[body sm]|] eqn:Hf; [|discriminate].
  apply andb_true_iff in Ha as [_ He].
  exists body, sm. split; [reflexivity|]. split.
  - apply existsb_exists in He as [x [Hx Hq]]. apply asec_eqb_eq in Hq; subst; exact Hx.
  - intros o fr Hex ->. apply (balanced_no_fault Hb f).
    exists body, sm. split; [exact Hf|]. left. eauto.
Qed.

End Semantics.
