(* C14, second half ("concurrent calls never deadlock") outside LockPile:
   a verified acyclicity checker for the lock-class order graph the
   translator extracts from the sources.

   An edge (a, b) says: somewhere a mutex of class b is acquired with a
   blocking Lock while a mutex of class a may be held (class = the struct
   type and field the mutex lives in).  [acyclic] peels the graph: it
   repeatedly drops every edge whose target has no outgoing edge; the graph
   has no cycle iff nothing is left after (number of edges) rounds.

   - [acyclic_sound]: acyclic g = true -> no class reaches itself through
     one or more edges (in particular no self loop).
   - [acyclic_no_knot]: ... -> there is no non-empty set of classes each of
     which has an edge into the set.
   - [order_no_deadlock]: if every (held class, awaited class) pair of every
     thread is an edge of an acyclic graph, no non-empty set of threads can
     each be waiting for a mutex held by a member of the set. *)
From Coq Require Import String List Bool Relations Arith Lia.
Import ListNotations.

Definition graph := list (string * string).

Definition has_out (g : graph) (v : string) : bool :=
  existsb (fun e => String.eqb (fst e) v) g.

Definition peel1 (g : graph) : graph := filter (fun e => has_out g (snd e)) g.

Fixpoint peel (n : nat) (g : graph) : graph :=
  match n with O => g | S n' => peel n' (peel1 g) end.

Definition acyclic (g : graph) : bool :=
  match peel (length g) g with [] => true | _ => false end.

Definition edge (g : graph) (a b : string) : Prop := In (a, b) g.

(* a non-empty set of vertices each of which has an edge into the set *)
Definition knot (g : graph) (S : string -> Prop) : Prop :=
  (exists v, S v) /\ forall v, S v -> exists w, S w /\ edge g v w.

Lemma has_out_true g v : has_out g v = true <-> exists w, edge g v w.
Proof.
  unfold has_out, edge. rewrite existsb_exists. split.
  - intros [[a b] [Hin He]]. cbn in He. apply String.eqb_eq in He; subst. eauto.
  - intros [w Hin]. exists (v, w); split; [assumption | apply String.eqb_refl].
Qed.

Lemma knot_peel1 g S : knot g S -> knot (peel1 g) S.
Proof.
  intros [Hne Hk]. split; [exact Hne|].
  intros v Hv. destruct (Hk v Hv) as [w [Hw He]].
  exists w; split; [exact Hw|].
  unfold edge, peel1. apply filter_In; split; [exact He|]. cbn.
  apply has_out_true. destruct (Hk w Hw) as [x [_ Hx]]; eauto.
Qed.

Lemma knot_peel n : forall g S, knot g S -> knot (peel n g) S.
Proof. induction n as [|n IH]; cbn; intros g S H; [exact H | apply IH, knot_peel1, H]. Qed.

Lemma knot_nonempty g S : knot g S -> g <> [].
Proof.
  intros [[v Hv] Hk] ->. destruct (Hk v Hv) as [w [_ He]]. exact He.
Qed.

Theorem acyclic_no_knot g : acyclic g = true -> forall S, ~ knot g S.
Proof.
  unfold acyclic. intros H S Hk.
  apply (knot_peel (length g)) in Hk. apply knot_nonempty in Hk.
  destruct (peel (length g) g); [congruence | discriminate].
Qed.

(* a cycle is a knot *)
Theorem acyclic_sound g : acyclic g = true -> forall v, ~ clos_trans string (edge g) v v.
Proof.
  intros H v Hc.
  apply (acyclic_no_knot g H (fun x => clos_trans string (edge g) x v)).
  split; [exists v; exact Hc|].
  intros x Hx. apply clos_trans_t1n in Hx.
  destruct Hx as [y Hxy | y z Hxy Hyz].
  - exists y; split; [exact Hc | exact Hxy].
  - exists y; split; [apply clos_t1n_trans; exact Hyz | exact Hxy].
Qed.

Corollary acyclic_irreflexive g : acyclic g = true -> forall v, ~ edge g v v.
Proof. intros H v He. apply (acyclic_sound g H v). apply t_step, He. Qed.

(* Threads, at the level of lock classes: [holds t c] -- thread t holds a
   mutex of class c; [waits t c] -- t is blocked in Lock() on a mutex of
   class c.  If whenever a thread waits while holding, the pair is an edge of
   an acyclic graph, there is no deadlocked set: no non-empty set of threads
   each waiting for a class held by a thread of the set. *)
Section Deadlock.
Variable thread : Type.
Variables holds waits : thread -> string -> Prop.

Theorem order_no_deadlock g :
  acyclic g = true ->
  (forall t c1 c2, holds t c1 -> waits t c2 -> edge g c1 c2) ->
  forall S : thread -> Prop, (exists t, S t) ->
  ~ (forall t, S t -> exists c t', waits t c /\ holds t' c /\ S t').
Proof.
  intros Hac Hedge S [t0 Ht0] Hdl.
  apply (acyclic_no_knot g Hac (fun c => exists t, S t /\ holds t c)).
  split.
  - destruct (Hdl t0 Ht0) as (c & t' & _ & Hh & Ht'). exists c, t'; auto.
  - intros c [t [Ht Hh]].
    destruct (Hdl t Ht) as (c' & t' & Hw & Hh' & Ht').
    exists c'; split; [exists t'; auto | exact (Hedge t c c' Hh Hw)].
Qed.
End Deadlock.

(* completeness on examples / non-vacuity *)
Open Scope string_scope.
Example acyclic_chain : acyclic [("a", "b"); ("b", "c"); ("a", "c")] = true.
Proof. vm_compute. reflexivity. Qed.
Example cyclic_two : acyclic [("a", "b"); ("b", "a")] = false.
Proof. vm_compute. reflexivity. Qed.
Example cyclic_self : acyclic [("x", "y"); ("a", "a")] = false.
Proof. vm_compute. reflexivity. Qed.
Example cyclic_three : acyclic [("a", "b"); ("x", "a"); ("b", "c"); ("c", "a"); ("c", "d")] = false.
Proof. vm_compute. reflexivity. Qed.

(* the edges that survive peeling are exactly what a report needs: they lie
   on or lead into a cycle *)
Definition residue (g : graph) : graph := peel (length g) g.
