(* Byte-level facts about the flat device, the hole source and the
   division of a file into sectors. *)
From Coq Require Import Lia ZifyBool ZifyNat ZifyN Permutation.
From VF Require Import Pool.Model Pool.ProofsAlloc Pool.ProofsInv.

Lemma nth_firstn {A} (l : list A) n k d : k < n -> nth k (firstn n l) d = nth k l d.
Proof.
  revert l k. induction n as [|n IH]; intros l k H; [lia|].
  destruct l as [|x tl]; [reflexivity|]. destruct k; cbn; [reflexivity|]. apply IH. lia.
Qed.

Lemma nth_firstn_ge {A} (l : list A) n k d : n <= k -> nth k (firstn n l) d = d.
Proof. intros H. apply nth_overflow. rewrite firstn_length. lia. Qed.

Lemma dev_get_length dev pos n : pos + n <= length dev -> length (dev_get dev pos n) = n.
Proof. intros H. unfold dev_get. rewrite firstn_length, skipn_length. lia. Qed.

Lemma dev_get_nth dev pos n k : k < n -> nth k (dev_get dev pos n) 0%N = nth (pos + k) dev 0%N.
Proof. intros H. unfold dev_get. rewrite nth_firstn by lia. apply nth_skipn. Qed.

Lemma dev_put_length dev pos data : pos + length data <= length dev -> length (dev_put dev pos data) = length dev.
Proof. intros H. unfold dev_put. rewrite !app_length, firstn_length, skipn_length. lia. Qed.

Lemma dev_put_nth dev pos data q : pos + length data <= length dev ->
  nth q (dev_put dev pos data) 0%N =
  if (pos <=? q) && (q <? pos + length data) then nth (q - pos) data 0%N else nth q dev 0%N.
Proof.
  intros H. unfold dev_put.
  destruct (Nat.lt_ge_cases q pos) as [Hq|Hq].
  - rewrite app_nth1 by (rewrite firstn_length; lia). rewrite nth_firstn by lia.
    replace ((pos <=? q) && (q <? pos + length data)) with false by lia. reflexivity.
  - rewrite app_nth2 by (rewrite firstn_length; lia). rewrite firstn_length.
    replace (Nat.min pos (length dev)) with pos by lia.
    destruct (Nat.lt_ge_cases q (pos + length data)) as [Hq2|Hq2].
    + rewrite app_nth1 by lia. replace ((pos <=? q) && (q <? pos + length data)) with true by lia. reflexivity.
    + rewrite app_nth2 by lia. rewrite nth_skipn.
      replace ((pos <=? q) && (q <? pos + length data)) with false by lia. f_equal. lia.
Qed.

Lemma hole_bytes_length h off n : length (hole_bytes h off n) = n.
Proof. revert off. induction n; intros off; cbn; auto. Qed.

Lemma hole_bytes_nth h off n k : k < n -> nth k (hole_bytes h off n) 0%N = nth (off + k) h 0%N.
Proof.
  revert off k. induction n as [|n IH]; intros off k H; [lia|]. cbn [hole_bytes].
  destruct k; cbn [nth]; [f_equal; lia|]. rewrite IH by lia. f_equal. lia.
Qed.

(* sector arithmetic *)
Lemma div_mod_pos ss si r : 0 < ss -> r < ss -> (si * ss + r) / ss = si /\ (si * ss + r) mod ss = r.
Proof.
  intros Hs Hr. split.
  - rewrite Nat.add_comm, Nat.div_add by lia. rewrite Nat.div_small by lia. lia.
  - rewrite Nat.add_comm, Nat.mod_add by lia. apply Nat.mod_small. lia.
Qed.

Lemma pos_decomp ss j : 0 < ss -> j = (j / ss) * ss + j mod ss /\ j mod ss < ss.
Proof.
  intros Hs. split; [|apply Nat.mod_upper_bound; lia].
  rewrite Nat.mul_comm. apply Nat.div_mod. lia.
Qed.

(* ---- what a file contains -------------------------------------------------- *)

(* byte j of the file: from its device sector if there is one, else from
   the hole source *)
Definition content (ss : nat) (dev : list N) (f : file) (j : nat) : N :=
  let s := nth (j / ss) (f_secs f) 0 in
  if s =? 0 then nth j (f_hole f) 0%N else nth (pred s * ss + j mod ss) dev 0%N.

Lemma content_at ss dev f si r : 0 < ss -> r < ss ->
  content ss dev f (si * ss + r) =
  let s := nth si (f_secs f) 0 in
  if s =? 0 then nth (si * ss + r) (f_hole f) 0%N else nth (pred s * ss + r) dev 0%N.
Proof.
  intros Hs Hr. unfold content. destruct (div_mod_pos ss si r Hs Hr) as [-> ->]. reflexivity.
Qed.

(* primitives, byte by byte *)
Lemma dev_write_spec w ss s o data w' k e :
  dev_write w ss s o data = (w', k, e) ->
  k <= length data /\ (e = ENone -> k = length data) /\
  w_dev w' = dev_put (w_dev w) (s * ss + o) (firstn k data) /\ w_al w' = w_al w /\
  w_fr w' = w_fr w /\ w_fh w' = w_fh w.
Proof.
  unfold dev_write. destruct (tick (w_fw w)) as [[[p m]|] o'] eqn:T; intros [= <- <- <-]; cbn.
  - splits; auto; try lia; try discriminate.
  - splits; auto. now rewrite firstn_all.
Qed.

Lemma dev_read_spec w ss s o n w' got e :
  dev_read w ss s o n = (w', got, e) ->
  exists k, got = dev_get (w_dev w) (s * ss + o) k /\ k <= n /\ (e = ENone -> k = n) /\
  w_dev w' = w_dev w /\ w_al w' = w_al w /\ e <> EEOF.
Proof.
  unfold dev_read. destruct (tick (w_fr w)) as [[[p m]|] o'] eqn:T; intros [= <- <- <-]; cbn.
  - exists (Nat.min p (pred n)). splits; auto; try lia; destruct m; discriminate.
  - exists n. splits; auto. discriminate.
Qed.

Lemma hole_read_spec w h off n w' got e :
  hole_read w h off n = (w', got, e) ->
  exists k, got = hole_bytes h off k /\ k <= n /\ (e = ENone -> k = n) /\
  w_dev w' = w_dev w /\ w_al w' = w_al w /\ e <> EEOF.
Proof.
  unfold hole_read. destruct (tick (w_fh w)) as [[[p m]|] o'] eqn:T; intros [= <- <- <-]; cbn.
  - exists (Nat.min p (pred n)). splits; auto; try lia; destruct m; discriminate.
  - exists n. splits; auto. discriminate.
Qed.

Lemma hole_call_dev w k off w' b : hole_call w k off = (w', b) -> w_dev w' = w_dev w /\ w_al w' = w_al w.
Proof.
  unfold hole_call. destruct (tick (w_fh w)) as [[[p m]|] o'] eqn:T; intros [= <- <-]; auto.
Qed.

Lemma dev_put_app dev pos a b : pos + length a + length b <= length dev ->
  dev_put (dev_put dev pos a) (pos + length a) b = dev_put dev pos (a ++ b).
Proof.
  intros H. apply (nth_ext _ _ 0%N 0%N).
  - rewrite !dev_put_length; rewrite ?dev_put_length, ?app_length; lia.
  - intros q _. rewrite !dev_put_nth; rewrite ?dev_put_length, ?app_length; try lia.
    destruct (Nat.lt_ge_cases q pos); [ifs|].
    destruct (Nat.lt_ge_cases q (pos + length a)).
    + replace ((pos + length a <=? q) && (q <? pos + length a + length b)) with false by lia.
      replace ((pos <=? q) && (q <? pos + length a)) with true by lia.
      replace ((pos <=? q) && (q <? pos + (length a + length b))) with true by lia.
      rewrite app_nth1 by lia. reflexivity.
    + destruct (Nat.lt_ge_cases q (pos + length a + length b)).
      * replace ((pos + length a <=? q) && (q <? pos + length a + length b)) with true by lia.
        replace ((pos <=? q) && (q <? pos + (length a + length b))) with true by lia.
        rewrite app_nth2 by lia. f_equal. lia.
      * replace ((pos + length a <=? q) && (q <? pos + length a + length b)) with false by lia.
        replace ((pos <=? q) && (q <? pos + length a)) with false by lia.
        replace ((pos <=? q) && (q <? pos + (length a + length b))) with false by lia. reflexivity.
Qed.

Lemma firstn_min_length {A} (l : list A) k : firstn (Nat.min (length l) k) l = firstn k l.
Proof.
  destruct (Nat.le_ge_cases k (length l)).
  - now replace (Nat.min (length l) k) with k by lia.
  - replace (Nat.min (length l) k) with (length l) by lia. rewrite firstn_all. symmetry. now apply firstn_all2.
Qed.

Lemma hole_bytes_0 h off : hole_bytes h off 0 = [].
Proof. reflexivity. Qed.

Lemma skipn_min_length {A} (l : list A) k : skipn (Nat.min (length l) k) l = skipn k l.
Proof.
  destruct (Nat.le_ge_cases k (length l)).
  - now replace (Nat.min (length l) k) with k by lia.
  - replace (Nat.min (length l) k) with (length l) by lia. rewrite skipn_all. symmetry. now apply skipn_all2.
Qed.

(* ---- confinement: the device changed only inside [lo, hi) ---------------------- *)

Definition conf (lo hi : nat) (dev dev' : list N) : Prop :=
  length dev' = length dev /\ forall q, q < lo \/ hi <= q -> nth q dev' 0%N = nth q dev 0%N.

Lemma conf_refl lo hi dev : conf lo hi dev dev.
Proof. split; auto. Qed.

Lemma conf_eq lo hi dev dev' : dev' = dev -> conf lo hi dev dev'.
Proof. intros ->. apply conf_refl. Qed.

Lemma conf_trans lo hi a b c : conf lo hi a b -> conf lo hi b c -> conf lo hi a c.
Proof. intros [H1 H2] [H3 H4]. split; [congruence|]. intros q Hq. rewrite H4, H2; auto. Qed.

Lemma conf_weaken lo hi lo' hi' a b : lo' <= lo -> hi <= hi' -> conf lo hi a b -> conf lo' hi' a b.
Proof. intros Hl Hh [H1 H2]. split; auto. intros q Hq. apply H2. lia. Qed.

Lemma conf_put dev pos data : pos + length data <= length dev -> conf pos (pos + length data) dev (dev_put dev pos data).
Proof.
  intros H. split; [now apply dev_put_length|]. intros q Hq. rewrite dev_put_nth by auto.
  replace ((pos <=? q) && (q <? pos + length data)) with false by lia. reflexivity.
Qed.

Lemma dev_write_conf w ss s o data w' k e :
  dev_write w ss s o data = (w', k, e) -> s * ss + o + length data <= length (w_dev w) ->
  conf (s * ss + o) (s * ss + o + length data) (w_dev w) (w_dev w').
Proof.
  intros H Hr. apply dev_write_spec in H as (Hk & _ & -> & _).
  eapply conf_weaken; [| |apply conf_put]; rewrite ?firstn_length; lia.
Qed.
