(* Property C15 as a decidable monitor over observed traces.

   One observed step is (operation, output, calls made on the collaborators
   during the operation, observation after it).  The monitor keeps an
   *independent reference*:
     - per file a plain byte array (one [cell] per byte: a value that was
       written or came from the hole source, a never-written null byte, or
       "unspecified" after a failed shrink), which is all a sparse file
       with a hole source is to its user;
     - the partition of sector numbers into owners (each open file, the
       direct allocator client) and the free rest;
   and checks, per step, [p_sectors] (sectors_partition, all_closed_all_free),
   [p_content] (file_refines_bytes, isolation), [p_seek] and [p_quota]
   (quota_conserved).  [p_step] is what Corr.v evaluates on the
   implementation's trace and what Proofs.v proves of the model's trace. *)
From Coq Require Export String.
From VF Require Export Pool.Model.
Open Scope string_scope.
Open Scope list_scope.
Open Scope nat_scope.

Inductive res (A : Type) := Bad (kind : string) | Good (a : A).
Arguments Bad {A} kind.
Arguments Good {A} a.

Definition bind {A B} (r : res A) (f : A -> res B) : res B :=
  match r with Bad k => Bad k | Good a => f a end.
Notation "'do' x <- r ; k" := (bind r (fun x => k)) (at level 200, x pattern, r at level 100, k at level 200).
Definition check (b : bool) (kind : string) : res unit := if b then Good tt else Bad kind.

(* ---- small list helpers ------------------------------------------------- *)

Definition mem (x : nat) (l : list nat) : bool := existsb (Nat.eqb x) l.

Fixpoint remove1 (x : nat) (l : list nat) : option (list nat) :=
  match l with
  | [] => None
  | y :: tl => if x =? y then Some tl else option_map (cons y) (remove1 x tl)
  end.

Fixpoint remove_all (xs l : list nat) : option (list nat) :=
  match xs with
  | [] => Some l
  | x :: tl => match remove1 x l with Some l' => remove_all tl l' | None => None end
  end.

Definition opname (k : opk) : string :=
  match k with
  | KNew _ _ _ _ => "newfile" | KRead _ _ _ => "read" | KWrite _ _ _ => "write"
  | KTrunc _ _ => "truncate" | KSeek _ _ _ => "seek" | KClose _ => "close"
  | KRawAlloc _ => "rawalloc" | KRawFree _ _ => "rawfree" | KFinal => "final"
  end.

Definition slot_of (k : opk) : option nat :=
  match k with
  | KNew s _ _ _ | KRead s _ _ | KWrite s _ _ | KTrunc s _ | KSeek s _ _ | KClose s => Some s
  | _ => None
  end.

Definition is_alloc_ev (e : event) : bool :=
  match e with EvAlloc _ _ _ | EvAllocFail _ => true | _ => false end.
Definition is_failed_ev (e : event) : bool :=
  match e with
  | EvDevRead _ _ _ _ false | EvDevWrite _ _ _ _ false | EvHole _ _ _ false | EvBaseNew false => true
  | _ => false
  end.
Definition is_allocfail_ev (e : event) : bool :=
  match e with EvAllocFail _ => true | _ => false end.

(* ---- sectors: ownership partition --------------------------------------- *)

(* sectors (1-based numbers) touched by a device call *)
Definition touched (ss s o n : nat) : list nat :=
  if n =? 0 then [] else seq1 (S s) ((o + n + ss - 1) / ss).

(* [others]: sectors held by other owners; [mine]: held by the owner on whose
   behalf the calls are made. *)
Definition sect_event (c : cfg) (others mine : list nat) (e : event) : res (list nat) :=
  match e with
  | EvAlloc max first n =>
    let l := seq1 first n in
    do _ <- check ((1 <=? n) && (n <=? max)) "alloc-count";
    do _ <- check (forallb (fun s => (1 <=? s) && (s <=? c_nsec c)) l) "sector-out-of-range";
    do _ <- check (forallb (fun s => negb (mem s others) && negb (mem s mine)) l) "sector-handed-out-twice";
    Good (l ++ mine)
  | EvAllocFail _ =>
    do _ <- check (length others + length mine =? c_nsec c) "alloc-failed-with-free-space";
    Good mine
  | EvFreeContig first n =>
    match remove_all (seq1 first n) mine with
    | Some m => Good m
    | None => Bad "free-of-unowned-sector"
    end
  | EvFreeList l =>
    match remove_all (filter (fun s => negb (s =? 0)) l) mine with
    | Some m => Good m
    | None => Bad "free-of-unowned-sector"
    end
  | EvDevRead s o n _ _ | EvDevWrite s o n _ _ =>
    do _ <- check (forallb (fun x => mem x mine) (touched (c_ss c) s o n)) "device-io-outside-owned-sectors";
    Good mine
  | _ => Good mine
  end.

Fixpoint sect_events (c : cfg) (others mine : list nat) (evs : list event) : res (list nat) :=
  match evs with
  | [] => Good mine
  | e :: tl => do m <- sect_event c others mine e; sect_events c others m tl
  end.

Record sown := mkOwn { so_files : list (list nat); so_raw : list nat }.

Definition own_init : sown := mkOwn (repeat [] nslots) [].

Definition others_of (o : sown) (slot : option nat) : list nat :=
  match slot with
  | Some i => concat (firstn i (so_files o)) ++ concat (skipn (S i) (so_files o)) ++ so_raw o
  | None => concat (so_files o)
  end.

Fixpoint split_at_alloc (evs : list event) : list event * list event :=
  match evs with
  | [] => ([], [])
  | e :: tl => if is_alloc_ev e then ([], evs)
               else let '(a, b) := split_at_alloc tl in (e :: a, b)
  end.

Definition p_sectors (c : cfg) (o : sown) (k : opk) (x : out) (evs : list event) : res sown :=
  match x with
  | OPanic => Bad "panic"
  | _ =>
    match k with
    | KFinal =>
      let '(closing, rest) := split_at_alloc evs in
      do m <- sect_events c [] (concat (so_files o) ++ so_raw o) closing;
      do _ <- check (length m =? 0) "sectors-leaked-after-close-all";
      do m <- sect_events c [] [] rest;
      do _ <- check (length m =? 0) "final-free";
      do _ <- check (match x with ORes n _ _ => Z.eqb n (Z.of_nat (c_nsec c)) | _ => false end) "capacity-not-restored";
      Good own_init
    | KRawAlloc _ | KRawFree _ _ =>
      do m <- sect_events c (concat (so_files o)) (so_raw o) evs;
      Good (mkOwn (so_files o) m)
    | _ =>
      match slot_of k with
      | Some i =>
        if i <? nslots then
          do m <- sect_events c (others_of o (Some i)) (nth i (so_files o) []) evs;
          do _ <- check (match k, x with KClose _, ORes _ _ _ => length m =? 0 | _, _ => true end) "sectors-leaked-on-close";
          Good (mkOwn (set_nth (so_files o) i m) (so_raw o))
        else do _ <- check (length evs =? 0) "events-on-skip"; Good o
      | None => Good o
      end
    end
  end.

(* ---- contents: each file is its own byte array -------------------------- *)

Inductive cell := CUnk | CFill | CVal (b : N).

Definition cell_ok (c : cell) (b : N) : bool :=
  match c with CUnk => true | CFill => (b =? 0)%N | CVal x => (b =? x)%N end.

Definition is_data (c : cell) : bool := match c with CVal _ => true | _ => false end.

Fixpoint cells_ok (cs : list cell) (bs : list N) : bool :=
  match bs with
  | [] => true
  | b :: bt => match cs with
               | c :: ct => cell_ok c b && cells_ok ct bt
               | [] => false
               end
  end.

Definition ref_new (hole : list N) (size : nat) : list cell :=
  map CVal (firstn size hole) ++ repeat CFill (size - length hole).

Definition ref_write (d : list cell) (off : nat) (data : list N) : list cell :=
  match data with
  | [] => d
  | _ => firstn off d ++ repeat CFill (off - length d) ++ map CVal data ++ skipn (off + length data) d
  end.

Definition ref_resize (d : list cell) (size : nat) : list cell :=
  firstn size d ++ repeat CFill (size - length d).

Definition ref_havoc (d : list cell) (size : nat) : list cell :=
  firstn size d ++ repeat CUnk (length d - size).

Definition refs := list (option (list cell)).

Definition refs_init : refs := repeat None nslots.

Definition ref_get (r : refs) (i : nat) : option (list cell) :=
  match nth_error r i with Some (Some d) => Some d | _ => None end.

Definition lens_ok (r : refs) (lens : list (option N)) : bool :=
  (length r =? length lens) &&
  forallb (fun p => match p with
                    | (Some d, Some n) => (N.of_nat (length d) =? n)%N
                    | (None, None) => true
                    | _ => false
                    end) (combine r lens).

Definition sum_lens (lens : list (option N)) : N :=
  fold_right (fun l a => match l with Some n => (n + a)%N | None => a end) 0%N lens.
Definition count_open (lens : list (option N)) : N :=
  fold_right (fun l a => match l with Some _ => (1 + a)%N | None => a end) 0%N lens.

Definition justified (evs : list event) (e : errk) : bool :=
  match e with
  | EInjected | EInternal => existsb is_failed_ev evs
  | EExhausted => existsb is_allocfail_ev evs
  | _ => false
  end.

(* does the quota (as observed before the step) refuse [extra] more bytes? *)
Definition quota_refuses (pre : obs) (extra : N) : bool :=
  match ob_remb pre with Some b => (b <? extra)%N | None => true end.

Definition p_content (c : cfg) (r : refs) (pre : obs) (k : opk) (x : out) (evs : list event) : res refs :=
  match x with
  | OPanic => Bad "panic"
  | OSkip =>
    match k with
    | KNew i _ _ _ => do _ <- check (match nth_error r i with Some None => false | _ => true end) "skip-mismatch"; Good r
    | KFinal | KRawAlloc _ | KRawFree _ _ => Good r
    | _ => match slot_of k with
           | Some i => do _ <- check (match ref_get r i with None => true | _ => false end) "skip-mismatch"; Good r
           | None => Good r
           end
    end
  | ORes n e data =>
    match k with
    | KNew i hole size fb =>
      do _ <- check (match nth_error r i with Some None => true | _ => false end) "skip-mismatch";
      match e with
      | ENone =>
        Good (set_nth r i (Some (ref_new hole (N.to_nat size))))
      | EInjected => do _ <- check fb "newfile-unjustified-error"; Good r
      | EInvalid =>
        do _ <- check ((ob_remf pre =? 0)%N || ((0 <? size)%N && quota_refuses pre size)) "newfile-unjustified-error";
        Good r
      | _ => Bad "newfile-outcome"
      end
    | KRead i off len =>
      match ref_get r i with
      | None => Bad "skip-mismatch"
      | Some d =>
        let size := length d in
        do _ <- check (length data =? Z.to_nat n) "read-length";
        if (off <? 0)%Z then do _ <- check (errk_eqb e EInvalid && (n =? 0)%Z) "read-outcome"; Good r
        else if len =? 0 then do _ <- check (errk_eqb e ENone && (n =? 0)%Z) "read-outcome"; Good r
        else
          let offn := Z.to_nat off in
          if size <=? offn then do _ <- check (errk_eqb e EEOF && (n =? 0)%Z) "read-outcome"; Good r
          else
            let want := Nat.min len (size - offn) in
            do _ <- check (cells_ok (skipn offn d) data) "read-wrong-bytes";
            match e with
            | ENone => do _ <- check (length data =? want) "read-short";
                       do _ <- check (offn + len <=? size) "read-eof-flag"; Good r
            | EEOF => do _ <- check (length data =? want) "read-short";
                      do _ <- check (size <=? offn + len) "read-eof-flag"; Good r
            | _ => do _ <- check (justified evs e) "read-unjustified-error";
                   do _ <- check (length data <=? want) "read-length"; Good r
            end
      end
    | KWrite i off p =>
      match ref_get r i with
      | None => Bad "skip-mismatch"
      | Some d =>
        if (off <? 0)%Z then do _ <- check (errk_eqb e EInvalid && (n =? 0)%Z) "write-outcome"; Good r
        else
          let offn := Z.to_nat off in
          let nn := Z.to_nat n in
          do _ <- check ((0 <=? n)%Z && (nn <=? length p)) "write-length";
          do _ <- check (match e with
                         | ENone => nn =? length p
                         | EInvalid => (nn =? 0) && quota_refuses pre (N.of_nat (offn + length p - length d))
                         | _ => justified evs e
                         end) "write-unjustified-error";
          Good (set_nth r i (Some (ref_write d offn (firstn nn p))))
      end
    | KTrunc i size =>
      match ref_get r i with
      | None => Bad "skip-mismatch"
      | Some d =>
        if (size <? 0)%Z then do _ <- check (errk_eqb e EInvalid) "truncate-outcome"; Good r
        else
          let sz := Z.to_nat size in
          match e with
          | ENone => Good (set_nth r i (Some (ref_resize d sz)))
          | EInvalid =>
            do _ <- check ((length d <? sz) && quota_refuses pre (N.of_nat (sz - length d))) "truncate-unjustified-error";
            Good r
          | _ =>
            do _ <- check (justified evs e) "truncate-unjustified-error";
            Good (set_nth r i (Some (ref_havoc d sz)))
          end
      end
    | KSeek i off _ =>
      match ref_get r i with None => Bad "skip-mismatch" | Some _ => Good r end
    | KClose i =>
      match ref_get r i with
      | None => Bad "skip-mismatch"
      | Some _ =>
        do _ <- check (match e with ENone => true | _ => justified evs e end) "close-unjustified-error";
        Good (set_nth r i None)
      end
    | KFinal => Good refs_init
    | KRawAlloc _ | KRawFree _ _ => Good r
    end
  end.

(* GetNextRegionOffset never hides data and never reports a hole inside data *)
Definition p_seek (r : refs) (k : opk) (x : out) (evs : list event) : res unit :=
  match k, x with
  | KSeek i off data, ORes n e _ =>
    match ref_get r i with
    | None => Good tt
    | Some d =>
      let size := length d in
      if (off <? 0)%Z then check (errk_eqb e EInvalid) "seek-outcome"
      else
        let offn := Z.to_nat off in
        if size <=? offn then check (errk_eqb e EEOF) "seek-outcome"
        else
          let rn := Z.to_nat n in
          match e with
          | ENone =>
            do _ <- check ((off <=? n)%Z && (if data then rn <? size else rn <=? size)) "seek-range";
            if data then check (negb (existsb is_data (firstn (rn - offn) (skipn offn d)))) "seek-data-skipped-data"
            else check (negb (existsb is_data (firstn 1 (skipn rn d)))) "seek-hole-inside-data"
          | EEOF =>
            do _ <- check data "seek-outcome";
            check (negb (existsb is_data (skipn offn d))) "seek-data-missed-data"
          | _ => check (justified evs e) "seek-unjustified-error"
          end
    end
  | _, _ => Good tt
  end.

(* ---- quota ------------------------------------------------------------------ *)

Definition p_quota (c : cfg) (k : opk) (post : obs) : res unit :=
  do _ <- check (ob_remf post + count_open (ob_lens post) =? c_maxfiles c)%N (String.append "quota-files-" (opname k));
  match ob_remb post with
  | Some b => check (b + sum_lens (ob_lens post) =? c_maxbytes c)%N (String.append "quota-bytes-" (opname k))
  | None => Good tt
  end.

(* ---- the monitor ------------------------------------------------------------ *)

Record mon := mkMon { m_own : sown; m_refs : refs; m_obs : obs }.

Definition mon_init (c : cfg) : mon :=
  mkMon own_init refs_init (mkObs (repeat None nslots) (c_maxfiles c)
                                  (if (c_maxfiles c =? 0)%N then None else Some (c_maxbytes c))).

(* Generated histories satisfy this; the monitor does not judge others. *)
Definition op_wf (o : op) : bool :=
  match op_k o with
  | KNew _ hole size _ => (N.of_nat (length hole) <=? size)%N
  | _ => true
  end.

Definition p_step (c : cfg) (m : mon) (o : op) (x : out) (evs : list event) (post : obs) : res mon :=
  let k := op_k o in
  do own <- p_sectors c (m_own m) k x evs;
  do _ <- p_seek (m_refs m) k x evs;
  do rf <- p_content c (m_refs m) (m_obs m) k x evs;
  do _ <- check (lens_ok rf (ob_lens post)) "size-mismatch";
  do _ <- p_quota c k post;
  Good (mkMon own rf post).

Record tstep := mkT { t_op : op; t_out : out; t_evs : list event; t_obs : obs }.

Fixpoint trace_from (c : cfg) (m : mon) (i : nat) (t : list tstep) : option (nat * string) :=
  match t with
  | [] => None
  | s :: tl =>
    match p_step c m (t_op s) (t_out s) (t_evs s) (t_obs s) with
    | Bad k => Some (i, k)
    | Good m' => trace_from c m' (S i) tl
    end
  end.

Definition trace_ok (c : cfg) (t : list tstep) : bool :=
  match trace_from c (mon_init c) 0 t with None => true | Some _ => false end.

(* the model's own trace *)
Fixpoint trace (c : cfg) (st : state) (ops : list op) : list tstep :=
  match ops with
  | [] => []
  | o :: tl =>
    let '(st', x, evs) := step c st o in
    mkT o x evs (observe st') :: (match x with OPanic => [] | _ => trace c st' tl end)
  end.
