(* bitmap_sector_allocator.go at the level of its 64-bit words.

   [allocate_w] transcribes AllocateContiguous / allocateAt over a list of
   uint64 words (as N): the three scan phases, bits.TrailingZeros64, the
   shift/mask expressions (shifts by >= 64 give 0, as in Go), the loop over
   full words and the final partial word.  [allocate_w_refines]: on a bitmap
   built like NewBitmapSectorAllocator's (words < 2^64, the bits from
   sectorCount on permanently 0) it computes exactly what the flat-bitmap
   model of Model.v computes: the same first sector, the same count, the
   same new bitmap, the same nextSector. *)
From Coq Require Import Lia ZifyBool ZifyNat ZifyN.
From VF Require Import Pool.Model Pool.ProofsAlloc.

(* ---- uint64 operations ------------------------------------------------------------ *)

Definition allBits : N := N.ones 64.
Definition shl64 (x : N) (k : nat) : N := N.land (N.shiftl x (N.of_nat k)) allBits.
Definition shr64 (x : N) (k : nat) : N := N.shiftr x (N.of_nat k).
Definition not64 (x : N) : N := N.lxor x allBits.
Definition andnot64 (x m : N) : N := N.land x (not64 m).      (* x &^ m *)

(* bits.TrailingZeros64 *)
Fixpoint tz_from (x : N) (i fuel : nat) : nat :=
  match fuel with
  | O => i
  | S f => if N.testbit x (N.of_nat i) then i else tz_from x (S i) f
  end.
Definition tz64 (x : N) : nat := tz_from x 0 64.

Definition tb (x : N) (i : nat) : bool := N.testbit x (N.of_nat i).
Definition w64 (x : N) : Prop := forall i, 64 <= i -> tb x i = false.

Lemma tb_allBits i : tb allBits i = (i <? 64).
Proof.
  unfold tb, allBits. destruct (i <? 64) eqn:E.
  - apply N.ones_spec_low. lia.
  - apply N.ones_spec_high. lia.
Qed.

Lemma tb_land a b i : tb (N.land a b) i = tb a i && tb b i.
Proof. apply N.land_spec. Qed.

Lemma tb_shl64 x k i : tb (shl64 x k) i = (i <? 64) && (k <=? i) && tb x (i - k).
Proof.
  unfold shl64. rewrite tb_land, tb_allBits. unfold tb.
  destruct (k <=? i) eqn:E.
  - rewrite N.shiftl_spec_high' by lia. replace (N.of_nat i - N.of_nat k)%N with (N.of_nat (i - k)) by lia.
    destruct (i <? 64); cbn; rewrite ?Bool.andb_true_r, ?Bool.andb_false_r; reflexivity.
  - rewrite N.shiftl_spec_low by lia. destruct (i <? 64); reflexivity.
Qed.

Lemma tb_shr64 x k i : tb (shr64 x k) i = tb x (i + k).
Proof. unfold shr64, tb. rewrite N.shiftr_spec'. f_equal. lia. Qed.

Lemma tb_not64 x i : tb (not64 x) i = xorb (tb x i) (i <? 64).
Proof. unfold not64. unfold tb at 1. rewrite N.lxor_spec. fold (tb x i) (tb allBits i). now rewrite tb_allBits. Qed.

Lemma tb_0 i : tb 0 i = false.
Proof. apply N.bits_0. Qed.

Lemma w64_0 : w64 0.
Proof. intros i _. apply tb_0. Qed.

Lemma w64_allBits : w64 allBits.
Proof. intros i Hi. rewrite tb_allBits. lia. Qed.

Lemma w64_land a b : w64 a -> w64 (N.land a b).
Proof. intros H i Hi. rewrite tb_land, H by auto. reflexivity. Qed.

Lemma eq_bits a b : (forall i, tb a i = tb b i) -> a = b.
Proof. intros H. apply N.bits_inj. intros n. specialize (H (N.to_nat n)). unfold tb in H. now rewrite N2Nat.id in H. Qed.

Lemma eqb0_bits x : (x =? 0)%N = true <-> forall i, tb x i = false.
Proof.
  split.
  - intros E i. apply N.eqb_eq in E. subst. apply tb_0.
  - intros H. apply N.eqb_eq. apply eq_bits. intros i. now rewrite H, tb_0.
Qed.

Lemma nonzero_bit x : w64 x -> (x =? 0)%N = false -> exists i, i < 64 /\ tb x i = true.
Proof.
  intros Hw E.
  assert (Hex : forall n, (forall i, i < n -> tb x i = false) \/ exists i, i < n /\ tb x i = true).
  { induction n as [|n [IH|(i & Hi & Ht)]]; [left; intros i Hi; lia| |right; exists i; split; [lia|auto]].
    destruct (tb x n) eqn:En; [right; exists n; auto|left]. intros i Hi.
    destruct (Nat.eq_dec i n) as [->|]; auto. apply IH. lia. }
  destruct (Hex 64) as [H|H]; auto. exfalso.
  assert ((x =? 0)%N = true); [|congruence]. apply eqb0_bits. intros i.
  destruct (Nat.lt_ge_cases i 64); auto.
Qed.

Lemma tz_from_spec x : forall fuel i,
  let r := tz_from x i fuel in
  i <= r <= i + fuel /\ (forall j, i <= j < r -> tb x j = false) /\ (r < i + fuel -> tb x r = true).
Proof.
  induction fuel as [|f IH]; intros i; cbn [tz_from]; cbv zeta.
  - split; [lia|split]; [intros j Hj; lia|intros H; lia].
  - fold (tb x i). destruct (tb x i) eqn:E.
    + split; [lia|split]; [intros j Hj; lia|auto].
    + destruct (IH (S i)) as (H1 & H2 & H3). cbv zeta in *. split; [lia|split].
      * intros j Hj. destruct (Nat.eq_dec j i) as [->|]; auto. apply H2. lia.
      * intros Hr. apply H3. lia.
Qed.

Lemma tz64_spec x :
  tz64 x <= 64 /\ (forall j, j < tz64 x -> tb x j = false) /\ (tz64 x < 64 -> tb x (tz64 x) = true).
Proof.
  destruct (tz_from_spec x 64 0) as (H1 & H2 & H3). cbv zeta in *. unfold tz64.
  split; [lia|split]; [intros j Hj; apply H2; lia|intros H; apply H3; lia].
Qed.

(* ---- the bitmap as words --------------------------------------------------------------- *)

Definition getw (ws : list N) (i : nat) : N := nth i ws 0%N.
Definition setw (ws : list N) (i : nat) (v : N) : list N := set_nth ws i v.

Definition bit (ws : list N) (p : nat) : bool := tb (getw ws (p / 64)) (p mod 64).
Definition bits (ws : list N) : list bool := map (bit ws) (seq 0 (64 * length ws)).

Lemma set_nth_len {A} (l : list A) i v : length (set_nth l i v) = length l.
Proof. revert i. induction l; intros [|i]; cbn; auto. Qed.

Lemma getw_setw ws i v j : i < length ws -> getw (setw ws i v) j = if j =? i then v else getw ws j.
Proof.
  unfold getw, setw. revert i j. induction ws as [|x tl IH]; intros i j Hi; [cbn in Hi; lia|].
  destruct i, j; cbn [set_nth nth Nat.eqb]; auto. apply IH. cbn in Hi. lia.
Qed.

Lemma bit_at ws idx j : j < 64 -> bit ws (idx * 64 + j) = tb (getw ws idx) j.
Proof.
  intros Hj. unfold bit. assert (H : (idx * 64 + j) / 64 = idx /\ (idx * 64 + j) mod 64 = j).
  { split; [rewrite Nat.add_comm, Nat.div_add by lia; rewrite Nat.div_small by lia; lia|
            rewrite Nat.add_comm, Nat.mod_add by lia; apply Nat.mod_small; lia]. }
  destruct H as [-> ->]. reflexivity.
Qed.

Lemma pos64 p : p = (p / 64) * 64 + p mod 64 /\ p mod 64 < 64.
Proof. split; [rewrite Nat.mul_comm; apply Nat.div_mod; lia|apply Nat.mod_upper_bound; lia]. Qed.

Lemma nth_bits ws p : nth p (bits ws) false = bit ws p.
Proof.
  unfold bits. destruct (Nat.lt_ge_cases p (64 * length ws)).
  - rewrite (nth_indep _ false (bit ws 0)) by (rewrite map_length, seq_length; lia).
    rewrite map_nth, seq_nth by lia. reflexivity.
  - rewrite nth_overflow by (rewrite map_length, seq_length; lia).
    unfold bit, getw. rewrite nth_overflow; [symmetry; apply tb_0|].
    apply Nat.div_le_lower_bound; lia.
Qed.

Lemma bits_length ws : length (bits ws) = 64 * length ws.
Proof. unfold bits. now rewrite map_length, seq_length. Qed.

(* ---- the flat functions of Model.v, characterised --------------------------------------- *)

Lemma find_free_char l from : forall pos i,
  pos <= i -> from <= i -> nth (i - pos) l false = true ->
  (forall j, pos <= j < i -> from <= j -> nth (j - pos) l false = false) ->
  find_free l from pos = Some i.
Proof.
  induction l as [|b tl IH]; intros pos i Hp Hf Hn Hb.
  - destruct (i - pos); discriminate.
  - cbn [find_free]. destruct (Nat.eq_dec i pos) as [->|Hne].
    + rewrite Nat.sub_diag in Hn. cbn in Hn. subst b. replace (from <=? pos) with true by lia. reflexivity.
    + destruct (b && (from <=? pos)) eqn:E.
      * exfalso. specialize (Hb pos ltac:(lia) ltac:(lia)). rewrite Nat.sub_diag in Hb. cbn in Hb. subst b. discriminate.
      * apply IH; try lia.
        -- replace (i - pos) with (S (i - S pos)) in Hn by lia. exact Hn.
        -- intros j Hj Hfj. specialize (Hb j ltac:(lia) Hfj). replace (j - pos) with (S (j - S pos)) in Hb by lia. exact Hb.
Qed.

Lemma find_free_none_char l from : forall pos,
  (forall j, from <= pos + j -> nth j l false = false) -> find_free l from pos = None.
Proof.
  induction l as [|b tl IH]; intros pos H; [reflexivity|]. cbn [find_free].
  destruct (b && (from <=? pos)) eqn:E.
  - specialize (H 0 ltac:(lia)). cbn in H. subst b. discriminate.
  - apply IH. intros j Hj. apply (H (S j)). lia.
Qed.

Lemma first_free_char l next i :
  nth i l false = true ->
  (next <= i /\ (forall j, next <= j < i -> nth j l false = false)) \/
  ((forall j, next <= j -> nth j l false = false) /\ (forall j, j < i -> nth j l false = false)) ->
  first_free l next = Some i.
Proof.
  intros Hi [(Hn & Hb)|(Hnone & Hb)]; unfold first_free.
  - rewrite (find_free_char l next 0 i); auto; try lia; [now rewrite Nat.sub_0_r|].
    intros j Hj Hfj. rewrite Nat.sub_0_r. apply Hb. lia.
  - rewrite find_free_none_char by (intros j Hj; apply Hnone; lia).
    apply find_free_char; try lia; [now rewrite Nat.sub_0_r|]. intros j Hj _. rewrite Nat.sub_0_r. apply Hb. lia.
Qed.

Lemma first_free_none_char l next : (forall j, nth j l false = false) -> first_free l next = None.
Proof.
  intros H. unfold first_free. rewrite !find_free_none_char; auto.
Qed.

Lemma run_len_char : forall l max n,
  n <= max -> (forall j, j < n -> nth j l false = true) -> (n = max \/ nth n l false = false) ->
  run_len l max = n.
Proof.
  induction l as [|b tl IH]; intros max n Hn Ht He.
  - destruct n; [destruct max; reflexivity|]. specialize (Ht 0 ltac:(lia)). discriminate.
  - destruct max as [|m].
    + assert (n = 0) by lia. subst. reflexivity.
    + destruct n as [|n].
      * destruct He as [He|He]; [lia|]. cbn in He. subst b. reflexivity.
      * pose proof (Ht 0 ltac:(lia)) as H0. cbn in H0. subst b. cbn [run_len]. f_equal. apply IH; try lia.
        -- intros j Hj. apply (Ht (S j)). lia.
        -- destruct He as [He|He]; [left; lia|right; exact He].
Qed.

(* ---- AllocateContiguous / allocateAt over words ---------------------------------------------- *)

(* the final, partial word of allocateAt *)
Definition final_word (ws : list N) (idx maxr : nat) : list N * nat :=
  let av := Nat.min (tz64 (not64 (getw ws idx))) maxr in
  (setw ws idx (N.land (getw ws idx) (shl64 allBits av)), av).

(* "for maximum >= 64 && sa.freeBitmap[index] == allBits { ... }" followed by the
   final word; returns the bitmap and the number of sectors taken from index on *)
Fixpoint cont (ws : list N) (idx maxr fuel : nat) : list N * nat :=
  match fuel with
  | O => final_word ws idx maxr
  | S f => if (64 <=? maxr) && (getw ws idx =? allBits)%N
           then let '(ws', e) := cont (setw ws idx 0%N) (S idx) (maxr - 64) f in (ws', 64 + e)
           else final_word ws idx maxr
  end.

(* allocateAt(index, mask, maximum): new bitmap, first sector (0-based), count, nextSector *)
Definition allocate_at (ws : list N) (index : nat) (mask : N) (maxi : nat) : list N * nat * nat * nat :=
  let s := tz64 mask in
  let first := index * 64 + s in
  let a := Nat.min (tz64 (not64 (shr64 mask s))) maxi in
  let ws1 := setw ws index (andnot64 (getw ws index) (shl64 (not64 (shl64 allBits a)) s)) in
  if s + a =? 64 then
    let '(ws2, e) := cont ws1 (S index) (maxi - a) (length ws) in
    (ws2, first, a + e, first + (a + e))
  else (ws1, first, a, first + a).

(* first index in [i, i+cnt) whose word is non-zero *)
Fixpoint scan (ws : list N) (i cnt : nat) : option nat :=
  match cnt with
  | O => None
  | S n => if (getw ws i =? 0)%N then scan ws (S i) n else Some i
  end.

Definition allocate_w (ws : list N) (next maxi : nat) : option (list N * nat * nat * nat) :=
  let split := next / 64 in
  let m := N.land (getw ws split) (shl64 allBits (next mod 64)) in
  if negb (m =? 0)%N then Some (allocate_at ws split m maxi)
  else match scan ws (S split) (length ws - S split) with
       | Some i => Some (allocate_at ws i (getw ws i) maxi)
       | None =>
         match scan ws 0 (S split) with
         | Some i => Some (allocate_at ws i (getw ws i) maxi)
         | None => None
         end
       end.

Definition Wf (ws : list N) : Prop := forall i, w64 (getw ws i).
Definition Sentinel (ws : list N) : Prop := tb (getw ws (length ws - 1)) 63 = false.

(* ws' is ws with the bits [lo, lo+n) cleared *)
Definition Cleared (ws ws' : list N) (lo n : nat) : Prop :=
  length ws' = length ws /\ Wf ws' /\
  forall p, bit ws' p = if (lo <=? p) && (p <? lo + n) then false else bit ws p.

Lemma Cleared_trans ws ws1 ws2 lo a e :
  Cleared ws ws1 lo a -> Cleared ws1 ws2 (lo + a) e -> Cleared ws ws2 lo (a + e).
Proof.
  intros (L1 & W1 & B1) (L2 & W2 & B2). split; [congruence|split; auto].
  intros p. rewrite B2, B1.
  destruct ((lo + a <=? p) && (p <? lo + a + e)) eqn:E1; destruct ((lo <=? p) && (p <? lo + a)) eqn:E2;
    destruct ((lo <=? p) && (p <? lo + (a + e))) eqn:E3; try reflexivity; lia.
Qed.

Lemma Cleared_sentinel ws ws' lo n : Cleared ws ws' lo n -> Sentinel ws -> Sentinel ws'.
Proof.
  intros (L & _ & B) S. unfold Sentinel in *. rewrite L.
  rewrite <- (bit_at ws' (length ws - 1) 63) by lia. rewrite B.
  destruct (_ && _); auto. rewrite bit_at by lia. exact S.
Qed.

Lemma Wf_setw ws i v : Wf ws -> w64 v -> i < length ws -> Wf (setw ws i v).
Proof. intros H Hv Hi j. rewrite getw_setw by auto. destruct (j =? i); auto. Qed.

Lemma setw_length ws i v : length (setw ws i v) = length ws.
Proof. apply set_nth_len. Qed.

(* replacing word idx by one whose bits [lo, lo+n) (within the word) are cleared *)
Lemma Cleared_word ws idx v lo n :
  Wf ws -> idx < length ws -> lo + n <= 64 ->
  (forall j, j < 64 -> tb v j = tb (getw ws idx) j && negb ((lo <=? j) && (j <? lo + n))) ->
  w64 v -> Cleared ws (setw ws idx v) (idx * 64 + lo) n.
Proof.
  intros HW Hi Hn Hv Hv64. split; [apply setw_length|split; [now apply Wf_setw|]].
  intros p. destruct (pos64 p) as (Hp & Hr). set (q := p / 64) in *. set (r := p mod 64) in *.
  rewrite Hp, !bit_at by auto. rewrite getw_setw by auto.
  destruct (q =? idx) eqn:Eq.
  - assert (q = idx) by lia. subst q. rewrite H, Hv by auto.
    replace ((idx * 64 + lo <=? idx * 64 + r) && (idx * 64 + r <? idx * 64 + lo + n)) with ((lo <=? r) && (r <? lo + n)) by lia.
    destruct ((lo <=? r) && (r <? lo + n)); [apply Bool.andb_false_r|apply Bool.andb_true_r].
  - replace ((idx * 64 + lo <=? q * 64 + r) && (q * 64 + r <? idx * 64 + lo + n)) with false by nia. reflexivity.
Qed.

Lemma allBits_bits w : (w =? allBits)%N = true -> forall j, j < 64 -> tb w j = true.
Proof. intros E j Hj. apply N.eqb_eq in E. subst. rewrite tb_allBits. lia. Qed.

Lemma final_word_spec ws idx maxr ws' av :
  Wf ws -> idx < length ws -> final_word ws idx maxr = (ws', av) ->
  av <= maxr /\ av <= 64 /\ (forall j, j < av -> bit ws (idx * 64 + j) = true) /\
  (av = maxr \/ (av = 64 /\ forall j, j < 64 -> tb (getw ws idx) j = true) \/ (av < 64 /\ bit ws (idx * 64 + av) = false)) /\
  Cleared ws ws' (idx * 64) av.
Proof.
  intros HW Hi. unfold final_word. set (w := getw ws idx). intros [= <- <-].
  destruct (tz64_spec (not64 w)) as (T1 & T2 & T3). set (t := tz64 (not64 w)) in *.
  assert (Hones : forall j, j < t -> tb w j = true).
  { intros j Hj. specialize (T2 j Hj). rewrite tb_not64 in T2. replace (j <? 64) with true in T2 by lia.
    destruct (tb w j); auto. }
  splits; try lia.
  - intros j Hj. rewrite bit_at by lia. apply Hones. lia.
  - destruct (Nat.le_gt_cases maxr t); [left; lia|right].
    replace (Nat.min t maxr) with t by lia.
    destruct (Nat.eq_dec t 64) as [E|E]; [left; split; auto; intros j Hj; apply Hones; lia|right].
    split; [lia|]. rewrite bit_at by lia. specialize (T3 ltac:(lia)). rewrite tb_not64 in T3.
    replace (t <? 64) with true in T3 by lia. fold w. destruct (tb w t); [cbn in T3; discriminate|reflexivity].
  - replace (idx * 64) with (idx * 64 + 0) by lia. apply Cleared_word; auto; try lia.
    + intros j Hj. rewrite tb_land, tb_shl64, tb_allBits. fold w.
      replace (j <? 64) with true by lia. cbn [andb].
      destruct (Nat.min t maxr <=? j) eqn:E1.
      * replace (j - Nat.min t maxr <? 64) with true by lia. replace ((0 <=? j) && (j <? 0 + Nat.min t maxr)) with false by lia.
        reflexivity.
      * replace ((0 <=? j) && (j <? 0 + Nat.min t maxr)) with true by lia. reflexivity.
    + apply w64_land. apply HW.
Qed.

Lemma cont_spec : forall fuel ws idx maxr ws' e,
  Wf ws -> Sentinel ws -> idx < length ws -> length ws - 1 <= idx + fuel ->
  cont ws idx maxr fuel = (ws', e) ->
  e <= maxr /\ (forall j, j < e -> bit ws (idx * 64 + j) = true) /\
  (e = maxr \/ bit ws (idx * 64 + e) = false) /\ Cleared ws ws' (idx * 64) e.
Proof.
  induction fuel as [|f IH]; intros ws idx maxr ws' e HW HS Hi Hf; cbn [cont].
  - intros H. destruct (final_word_spec _ _ _ _ _ HW Hi H) as (F1 & F2 & F3 & F4 & F5). splits; auto.
    destruct F4 as [F4|[(F4 & F4')|(_ & F4)]]; auto.
    exfalso. assert (idx = length ws - 1) by lia. subst idx. unfold Sentinel in HS. rewrite F4' in HS by lia. discriminate.
  - destruct ((64 <=? maxr) && (getw ws idx =? allBits)%N) eqn:Ec.
    + apply andb_prop in Ec as (Em & Ea). pose proof (allBits_bits _ Ea) as Hall.
      assert (Hne : idx <> length ws - 1).
      { intros ->. unfold Sentinel in HS. rewrite Hall in HS by lia. discriminate. }
      destruct (cont (setw ws idx 0%N) (S idx) (maxr - 64) f) as [ws2 e2] eqn:EC. intros [= <- <-].
      assert (C1 : Cleared ws (setw ws idx 0%N) (idx * 64 + 0) 64).
      { apply Cleared_word; auto using w64_0; try lia. intros j Hj. rewrite tb_0, Hall by auto.
        replace ((0 <=? j) && (j <? 0 + 64)) with true by lia. reflexivity. }
      rewrite Nat.add_0_r in C1. pose proof C1 as (L1 & W1 & B1).
      apply IH in EC; auto; try (rewrite L1; lia).
      2:{ eapply Cleared_sentinel; eauto. }
      destruct EC as (E1 & E2 & E3 & E4).
      assert (Hsame : forall j, bit (setw ws idx 0%N) (S idx * 64 + j) = bit ws (S idx * 64 + j)).
      { intros j. rewrite B1. replace ((idx * 64 <=? S idx * 64 + j) && (S idx * 64 + j <? idx * 64 + 64)) with false by lia.
        reflexivity. }
      splits; try lia.
      * intros j Hj. destruct (Nat.lt_ge_cases j 64); [rewrite bit_at by auto; auto|].
        match goal with |- bit ws ?q = _ => replace q with (S idx * 64 + (j - 64)) by lia end. rewrite <- (Hsame (j - 64)). apply E2. lia.
      * destruct E3 as [E3|E3]; [left; lia|right].
        match goal with |- bit ws ?q = _ => replace q with (S idx * 64 + e2) by lia end. now rewrite <- (Hsame e2).
      * apply (Cleared_trans ws _ ws2 (idx * 64) 64 e2 C1). replace (idx * 64 + 64) with (S idx * 64) by lia. exact E4.
    + intros H. destruct (final_word_spec _ _ _ _ _ HW Hi H) as (F1 & F2 & F3 & F4 & F5). splits; auto.
      destruct F4 as [F4|[(F4 & F4')|(_ & F4)]]; auto.
      left. destruct (64 <=? maxr) eqn:Em; [|lia]. cbn [andb] in Ec.
      exfalso. assert ((getw ws idx =? allBits)%N = true); [|congruence].
      apply N.eqb_eq, eq_bits. intros i. rewrite tb_allBits. destruct (i <? 64) eqn:Ei; [apply F4'; lia|apply HW; lia].
Qed.

Lemma allocate_at_spec ws index mask maxi k ws' first n nxt :
  Wf ws -> Sentinel ws -> index < length ws ->
  (forall i, tb mask i = tb (getw ws index) i && (k <=? i)) -> (mask =? 0)%N = false -> 1 <= maxi ->
  allocate_at ws index mask maxi = (ws', first, n, nxt) ->
  exists s, first = index * 64 + s /\ k <= s < 64 /\ tb (getw ws index) s = true /\
    (forall j, k <= j < s -> tb (getw ws index) j = false) /\
    nxt = first + n /\ 1 <= n <= maxi /\ (forall j, j < n -> bit ws (first + j) = true) /\
    (n = maxi \/ bit ws (first + n) = false) /\ Cleared ws ws' first n.
Proof.
  intros HW HS Hi Hm Hnz Hmax. set (w := getw ws index) in *.
  assert (Hm64 : w64 mask). { intros i Hi'. rewrite Hm, (HW index) by auto. reflexivity. }
  destruct (nonzero_bit mask Hm64 Hnz) as (i0 & Hi0 & Ht0).
  destruct (tz64_spec mask) as (S1 & S2 & S3). unfold allocate_at. set (s := tz64 mask) in *.
  assert (Hs : s < 64).
  { destruct (Nat.lt_ge_cases s 64); auto. rewrite S2 in Ht0 by lia. discriminate. }
  specialize (S3 Hs). rewrite Hm in S3. apply andb_prop in S3 as (Hws & Hks).
  assert (Hbelow : forall j, k <= j < s -> tb w j = false).
  { intros j Hj. specialize (S2 j ltac:(lia)). rewrite Hm in S2. replace (k <=? j) with true in S2 by lia.
    now rewrite Bool.andb_true_r in S2. }
  (* the run of ones in the first word *)
  set (rest := not64 (shr64 mask s)).
  assert (Hrest : forall i, i < 64 -> tb rest i = negb (tb mask (i + s))).
  { intros i Hi'. unfold rest. rewrite tb_not64, tb_shr64. replace (i <? 64) with true by lia. now destruct (tb mask (i + s)). }
  destruct (tz64_spec rest) as (R1 & R2 & R3). set (a0 := tz64 rest) in *.
  assert (Ha0 : 1 <= a0 <= 64 - s).
  { split.
    - destruct a0; [|lia]. specialize (R3 ltac:(lia)). rewrite Hrest in R3 by lia. cbn [Nat.add] in R3.
      rewrite Hm, Hws, Hks in R3. discriminate.
    - destruct (Nat.le_gt_cases a0 (64 - s)); auto. exfalso.
      specialize (R2 (64 - s) ltac:(lia)). rewrite Hrest in R2 by lia. rewrite Hm64 in R2 by lia. discriminate. }
  assert (Hones : forall i, i < a0 -> tb w (s + i) = true).
  { intros i Hi'. specialize (R2 i Hi'). rewrite Hrest in R2 by lia. rewrite Hm in R2.
    rewrite Nat.add_comm. destruct (tb w (i + s)); auto. }
  assert (Hstop : a0 < 64 - s -> tb w (s + a0) = false).
  { intros Hlt. specialize (R3 ltac:(lia)). rewrite Hrest in R3 by lia. rewrite Hm in R3.
    replace (k <=? a0 + s) with true in R3 by lia. rewrite Bool.andb_true_r in R3. rewrite Nat.add_comm.
    destruct (tb w (a0 + s)); auto. }
  set (a := Nat.min a0 maxi) in *.
  assert (Ha : 1 <= a <= maxi /\ a <= a0 /\ (a = maxi \/ a = a0)) by (unfold a; lia).
  assert (C1 : Cleared ws (setw ws index (andnot64 w (shl64 (not64 (shl64 allBits a)) s))) (index * 64 + s) a).
  { apply Cleared_word; auto; try lia.
    - intros j Hj. unfold andnot64. rewrite tb_land, tb_not64, tb_shl64, tb_not64, tb_shl64, tb_allBits. fold w.
      replace (j <? 64) with true by lia. cbn [andb]. f_equal.
      destruct (s <=? j) eqn:E1; cbn [andb]; [|reflexivity].
      replace (j - s <? 64) with true by lia. cbn [andb].
      destruct (a <=? j - s) eqn:E2.
      + replace (j - s - a <? 64) with true by lia. replace (j <? s + a) with false by lia. reflexivity.
      + replace (j <? s + a) with true by lia. reflexivity.
    - unfold andnot64. apply w64_land. apply HW. }
  assert (Hrun1 : forall j, j < a -> bit ws (index * 64 + s + j) = true).
  { intros j Hj. rewrite <- Nat.add_assoc, bit_at by lia. apply Hones. lia. }
  destruct (s + a =? 64) eqn:E64.
  - assert (Hne : index <> length ws - 1).
    { intros ->. unfold Sentinel in HS. fold w in HS. replace 63 with (s + (63 - s)) in HS by lia.
      rewrite Hones in HS by lia. discriminate. }
    pose proof C1 as (L1 & W1 & B1).
    destruct (cont _ (S index) (maxi - a) (length ws)) as [ws2 e] eqn:EC. intros [= <- <- <- <-].
    apply cont_spec in EC; auto; try (rewrite setw_length; lia).
    2:{ eapply Cleared_sentinel; eauto. }
    destruct EC as (E1 & E2 & E3 & E4).
    assert (Hsame : forall j, bit (setw ws index (andnot64 w (shl64 (not64 (shl64 allBits a)) s))) (S index * 64 + j)
                              = bit ws (S index * 64 + j)).
    { intros j. rewrite B1. replace ((index * 64 + s <=? S index * 64 + j) && (S index * 64 + j <? index * 64 + s + a)) with false by lia.
      reflexivity. }
    exists s. splits; auto; try lia.
    + intros j Hj. destruct (Nat.lt_ge_cases j a); [now apply Hrun1|].
      match goal with |- bit ws ?q = _ => replace q with (S index * 64 + (j - a)) by lia end. rewrite <- (Hsame (j - a)). apply E2. lia.
    + destruct E3 as [E3|E3]; [left; lia|right].
      match goal with |- bit ws ?q = _ => replace q with (S index * 64 + e) by lia end. now rewrite <- (Hsame e).
    + apply (Cleared_trans ws _ ws2 (index * 64 + s) a e C1). replace (index * 64 + s + a) with (S index * 64) by lia. exact E4.
  - intros [= <- <- <- <-]. exists s. splits; auto; try lia.
    destruct (Nat.le_gt_cases maxi a0); [left; lia|right].
    replace a with a0 by lia. rewrite <- Nat.add_assoc, bit_at by lia. apply Hstop. lia.
Qed.

(* ---- AllocateContiguous = the flat-bitmap model ------------------------------------------------------ *)

Lemma scan_spec ws : forall cnt i,
  match scan ws i cnt with
  | Some r => i <= r < i + cnt /\ (getw ws r =? 0)%N = false /\ forall q, i <= q < r -> (getw ws q =? 0)%N = true
  | None => forall q, i <= q < i + cnt -> (getw ws q =? 0)%N = true
  end.
Proof.
  induction cnt as [|n IH]; intros i; cbn [scan]; [intros q Hq; lia|].
  destruct (getw ws i =? 0)%N eqn:E.
  - specialize (IH (S i)). destruct (scan ws (S i) n) as [r|].
    + destruct IH as (H1 & H2 & H3). splits; auto; try lia. intros q Hq.
      destruct (Nat.eq_dec q i) as [->|]; auto. apply H3. lia.
    + intros q Hq. destruct (Nat.eq_dec q i) as [->|]; auto. apply IH. lia.
  - splits; auto; try lia.
Qed.

(* the bitmap NewBitmapSectorAllocator builds and every operation keeps *)
Definition WFW (ws : list N) (nsec : nat) : Prop :=
  length ws = nsec / 64 + 1 /\ Wf ws /\ forall p, nsec <= p -> bit ws p = false.

Lemma WFW_sentinel ws nsec : WFW ws nsec -> Sentinel ws.
Proof.
  intros (L & _ & Z). unfold Sentinel. rewrite <- (bit_at ws (length ws - 1) 63) by lia. apply Z.
  rewrite L. destruct (pos64 nsec). lia.
Qed.

Lemma zero_word_bits ws q : (getw ws q =? 0)%N = true -> forall j, j < 64 -> bit ws (q * 64 + j) = false.
Proof. intros E j Hj. rewrite bit_at by auto. now apply eqb0_bits. Qed.

Definition flat (ws : list N) (nsec : nat) : list bool := firstn nsec (bits ws).

Lemma nth_firstn_lt {A} (l : list A) n k d : k < n -> nth k (firstn n l) d = nth k l d.
Proof.
  revert l k. induction n as [|n IH]; intros l k H; [lia|].
  destruct l as [|x tl]; [reflexivity|]. destruct k; cbn; [reflexivity|]. apply IH. lia.
Qed.

Lemma nth_flat ws nsec p : WFW ws nsec -> nth p (flat ws nsec) false = bit ws p.
Proof.
  intros (L & _ & Z). unfold flat. destruct (Nat.lt_ge_cases p nsec).
  - rewrite nth_firstn_lt by auto. apply nth_bits.
  - rewrite nth_overflow by (rewrite firstn_length; lia). symmetry. now apply Z.
Qed.

Lemma flat_length ws nsec : WFW ws nsec -> length (flat ws nsec) = nsec.
Proof.
  intros (L & _ & _). unfold flat. rewrite firstn_length, bits_length, L. destruct (pos64 nsec). lia.
Qed.

Theorem allocate_w_refines ws nsec next maxi :
  WFW ws nsec -> next <= nsec -> 1 <= maxi ->
  match allocate_w ws next maxi with
  | Some (ws', first, n, next') =>
    first_free (flat ws nsec) next = Some first /\
    n = run_len (skipn first (flat ws nsec)) maxi /\ next' = first + n /\
    WFW ws' nsec /\ flat ws' nsec = set_range (flat ws nsec) first n false /\ next' <= nsec
  | None => first_free (flat ws nsec) next = None
  end.
Proof.
  intros HWF Hnext Hmax. pose proof HWF as (L & HW & Z). pose proof (WFW_sentinel _ _ HWF) as HS.
  destruct (pos64 next) as (Hnx & Hk). set (split := next / 64) in *. set (k := next mod 64) in *.
  assert (Hsplit : split < length ws).
  { rewrite L. assert (split <= nsec / 64) by (apply Nat.div_le_mono; lia). lia. }
  (* what a successful allocateAt gives, once we know nothing free lies before it *)
  assert (Hat : forall index mask k0 ws' first n nxt,
    index < length ws -> (forall i, tb mask i = tb (getw ws index) i && (k0 <=? i)) -> (mask =? 0)%N = false ->
    allocate_at ws index mask maxi = (ws', first, n, nxt) ->
    ((next <= index * 64 + k0 /\ forall p, next <= p < index * 64 + k0 -> bit ws p = false) \/
     ((forall p, next <= p -> bit ws p = false) /\ k0 = 0 /\ forall p, p < index * 64 -> bit ws p = false)) ->
    first_free (flat ws nsec) next = Some first /\
    n = run_len (skipn first (flat ws nsec)) maxi /\ nxt = first + n /\
    WFW ws' nsec /\ flat ws' nsec = set_range (flat ws nsec) first n false /\ nxt <= nsec).
  { intros index mask k0 ws' first n nxt Hi Hm Hnz EA Hbefore.
    destruct (allocate_at_spec _ _ _ _ _ _ _ _ _ HW HS Hi Hm Hnz Hmax EA)
      as (s & -> & Hs & Hbit & Hbelow & -> & Hn & Hrun & Hstop & (L' & W' & B')).
    assert (HWF' : WFW ws' nsec).
    { split; [congruence|split; auto]. intros p Hp. rewrite B'. destruct (_ && _); auto. }
    splits; auto.
    - apply first_free_char.
      + rewrite nth_flat by auto. now rewrite bit_at by lia.
      + destruct Hbefore as [(H1 & H2)|(H1 & -> & H2)]; [left|right].
        * split; [lia|]. intros j Hj. rewrite nth_flat by auto.
          destruct (Nat.lt_ge_cases j (index * 64 + k0)); [apply H2; lia|].
          replace j with (index * 64 + (j - index * 64)) by lia. rewrite bit_at by lia. apply Hbelow. lia.
        * split; intros j Hj; rewrite nth_flat by auto; [now apply H1|].
          destruct (Nat.lt_ge_cases j (index * 64)); [now apply H2|].
          replace j with (index * 64 + (j - index * 64)) by lia. rewrite bit_at by lia. apply Hbelow. lia.
    - symmetry. apply run_len_char; try lia.
      + intros j Hj. rewrite nth_skipn, nth_flat by auto. now apply Hrun.
      + destruct Hstop as [Hstop|Hstop]; [now left|right]. rewrite nth_skipn, nth_flat by auto. exact Hstop.
    - apply (nth_ext _ _ false false).
      + now rewrite set_range_length, !flat_length.
      + intros p _. rewrite set_range_nth, !nth_flat, B' by auto. rewrite flat_length by auto.
        destruct ((index * 64 + s <=? p) && (p <? index * 64 + s + n)) eqn:E1; cbn [andb]; [|reflexivity].
        destruct (p <? nsec) eqn:E2; [reflexivity|]. symmetry. apply Z. lia.
    - (* the run lies below sectorCount: its last bit is set *)
      destruct (Nat.le_gt_cases (index * 64 + s + n) nsec); auto. exfalso.
      specialize (Hrun (n - 1) ltac:(lia)). rewrite Z in Hrun by lia. discriminate. }
  unfold allocate_w. fold split k. set (m := N.land (getw ws split) (shl64 allBits k)).
  assert (Hm : forall i, tb m i = tb (getw ws split) i && (k <=? i)).
  { intros i. unfold m. rewrite tb_land, tb_shl64, tb_allBits.
    destruct (Nat.lt_ge_cases i 64).
    - replace (i <? 64) with true by lia. replace (i - k <? 64) with true by lia. now rewrite Bool.andb_true_r.
    - rewrite (HW split i) by auto. reflexivity. }
  destruct (m =? 0)%N eqn:Em; cbn [negb].
  2:{ destruct (allocate_at ws split m maxi) as [[[ws' first] n] nxt] eqn:EA.
      eapply Hat; eauto. left. split; [lia|]. intros p Hp. lia. }
  (* nothing free in the rest of the current word *)
  assert (Hrest : forall p, next <= p < S split * 64 -> bit ws p = false).
  { intros p Hp. replace p with (split * 64 + (p - split * 64)) by lia. rewrite bit_at by lia.
    pose proof (proj1 (eqb0_bits m) Em (p - split * 64)) as H0. rewrite Hm in H0.
    replace (k <=? p - split * 64) with true in H0 by lia. now rewrite Bool.andb_true_r in H0. }
  pose proof (scan_spec ws (length ws - S split) (S split)) as Hsc2.
  destruct (scan ws (S split) (length ws - S split)) as [i|].
  - destruct Hsc2 as (H1 & H2 & H3).
    destruct (allocate_at ws i (getw ws i) maxi) as [[[ws' first] n] nxt] eqn:EA.
    eapply (Hat i (getw ws i) 0); eauto; try lia.
    left. split; [nia|]. intros p Hp. destruct (Nat.lt_ge_cases p (S split * 64)); [apply Hrest; lia|].
      destruct (pos64 p) as (Hpp & Hpr). rewrite Hpp. apply zero_word_bits; auto. apply H3. nia.
  - assert (Hnone : forall p, next <= p -> bit ws p = false).
    { intros p Hp. destruct (Nat.lt_ge_cases p (S split * 64)); [apply Hrest; lia|].
      destruct (pos64 p) as (Hpp & Hpr). rewrite Hpp.
      destruct (Nat.lt_ge_cases (p / 64) (length ws)).
      - apply zero_word_bits; auto. apply Hsc2. nia.
      - rewrite bit_at by auto. unfold getw. rewrite nth_overflow by lia. apply tb_0. }
    pose proof (scan_spec ws (S split) 0) as Hsc3.
    destruct (scan ws 0 (S split)) as [i|].
    + destruct Hsc3 as (H1 & H2 & H3).
      destruct (allocate_at ws i (getw ws i) maxi) as [[[ws' first] n] nxt] eqn:EA.
      eapply (Hat i (getw ws i) 0); eauto; try lia.
      right. splits; auto. intros p Hp. destruct (pos64 p) as (Hpp & Hpr). rewrite Hpp.
        apply zero_word_bits; auto. apply H3. nia.
    + apply first_free_none_char. intros p. rewrite nth_flat by auto.
      destruct (Nat.lt_ge_cases p next); [|now apply Hnone].
      destruct (pos64 p) as (Hpp & Hpr). rewrite Hpp. apply zero_word_bits; auto. apply Hsc3. nia.
Qed.

(* the same statement against Model.allocate *)
Theorem allocate_words_model ws nsec w maxi :
  WFW ws nsec -> a_free (w_al w) = flat ws nsec -> a_next (w_al w) <= nsec -> 1 <= maxi ->
  match allocate_w ws (a_next (w_al w)) maxi, snd (allocate w maxi) with
  | Some (ws', first, n, next'), Some (f1, n1) =>
    f1 = S first /\ n1 = n /\ WFW ws' nsec /\
    a_free (w_al (fst (allocate w maxi))) = flat ws' nsec /\ a_next (w_al (fst (allocate w maxi))) = next' /\
    next' <= nsec
  | None, None => True
  | _, _ => False
  end.
Proof.
  intros HWF Hfree Hnext Hmax. pose proof (allocate_w_refines ws nsec _ maxi HWF Hnext Hmax) as H.
  unfold allocate. rewrite Hfree.
  destruct (allocate_w ws (a_next (w_al w)) maxi) as [[[[ws' first] n] next']|].
  - destruct H as (-> & -> & -> & HWF' & Hflat & Hle). cbn [fst snd w_al set_al log a_free a_next].
    splits; auto.
  - rewrite H. exact I.
Qed.

Lemma nth_repeat_lt' {A} (a d : A) n i : i < n -> nth i (repeat a n) d = a.
Proof. revert i. induction n; intros i H; [lia|]. destruct i; cbn; auto. apply IHn. lia. Qed.

(* NewBitmapSectorAllocator *)
Definition init_words (nsec : nat) : list N :=
  repeat allBits (nsec / 64) ++ [not64 (shl64 allBits (nsec mod 64))].

Lemma init_words_ok nsec : WFW (init_words nsec) nsec /\ flat (init_words nsec) nsec = repeat true nsec.
Proof.
  destruct (pos64 nsec) as (Hn & Hr). set (q := nsec / 64) in *. set (r := nsec mod 64) in *.
  assert (Hlen : length (init_words nsec) = q + 1).
  { unfold init_words. fold q. rewrite app_length, repeat_length. reflexivity. }
  assert (Hlast : forall j, tb (not64 (shl64 allBits r)) j = (j <? r)).
  { intros j. rewrite tb_not64, tb_shl64, tb_allBits. destruct (j <? 64) eqn:E1; cbn [andb xorb].
    - destruct (r <=? j) eqn:E2; cbn [andb].
      + replace (j - r <? 64) with true by lia. replace (j <? r) with false by lia. reflexivity.
      + replace (j <? r) with true by lia. reflexivity.
    - replace (j <? r) with false by lia. reflexivity. }
  assert (Hget : forall i, getw (init_words nsec) i =
            if i <? q then allBits else if i =? q then not64 (shl64 allBits r) else 0%N).
  { intros i. unfold getw, init_words. fold q r. destruct (i <? q) eqn:E1.
    - rewrite app_nth1 by (rewrite repeat_length; lia). apply nth_repeat_lt'. lia.
    - rewrite app_nth2 by (rewrite repeat_length; lia). rewrite repeat_length.
      destruct (i =? q) eqn:E2; [replace (i - q) with 0 by lia; reflexivity|].
      destruct (i - q) as [|[|d]] eqn:E3; try lia; reflexivity. }
  assert (Hbit : forall p, bit (init_words nsec) p = (p <? nsec)).
  { intros p. destruct (pos64 p) as (Hp & Hpr). unfold bit. rewrite Hget.
    destruct (p / 64 <? q) eqn:E1; [rewrite tb_allBits; lia|].
    destruct (p / 64 =? q) eqn:E2; [rewrite Hlast; lia|]. rewrite tb_0. lia. }
  assert (HWF : WFW (init_words nsec) nsec).
  { split; [exact Hlen|split].
    - intros i j Hj. rewrite Hget. destruct (i <? q); [rewrite tb_allBits; lia|].
      destruct (i =? q); [rewrite Hlast; lia|apply tb_0].
    - intros p Hp. rewrite Hbit. lia. }
  split; auto. apply (nth_ext _ _ false false).
  - now rewrite flat_length, repeat_length.
  - intros p Hp. rewrite flat_length in Hp by auto. rewrite nth_flat, Hbit by auto. rewrite nth_repeat_lt' by lia. lia.
Qed.

(* ---- FreeContiguous / FreeList over words ----------------------------------------------------------- *)

(* freeWithMask; the flag is its panic *)
Definition free_mask (ws : list N) (idx : nat) (mask : N) (pn : bool) : list N * bool :=
  (setw ws idx (N.lor (getw ws idx) mask), pn || negb (N.land (getw ws idx) mask =? 0)%N).

(* "for count >= 64 { ... }" and the final word of FreeContiguous *)
Fixpoint free_cont (ws : list N) (idx cnt fuel : nat) (pn : bool) : list N * bool :=
  match fuel with
  | O => free_mask ws idx (not64 (shl64 allBits cnt)) pn
  | S f => if 64 <=? cnt
           then free_cont (setw ws idx allBits) (S idx) (cnt - 64) f (pn || negb (getw ws idx =? 0)%N)
           else free_mask ws idx (not64 (shl64 allBits cnt)) pn
  end.

Definition free_contig_w (ws : list N) (first count : nat) : list N * bool :=
  let p0 := first - 1 in
  let mask := if count <? 64 then not64 (shl64 allBits count) else allBits in
  let off := p0 mod 64 in
  let index := p0 / 64 in
  let '(ws1, pn) := free_mask ws index (shl64 mask off) false in
  if 64 - off <? count then free_cont ws1 (S index) (count - (64 - off)) count pn else (ws1, pn).

Fixpoint free_list_w (ws : list N) (l : list nat) (pn : bool) : list N * bool :=
  match l with
  | [] => (ws, pn)
  | 0 :: tl => free_list_w ws tl pn
  | S p :: tl => let '(ws1, pn1) := free_mask ws (p / 64) (shl64 1 (p mod 64)) pn in free_list_w ws1 tl pn1
  end.

(* ws' is ws with the bits [lo, lo+n) set; the flag rises iff one of them was set already *)
Definition SetB (ws ws' : list N) (lo n : nat) (pn pn' : bool) : Prop :=
  length ws' = length ws /\ Wf ws' /\
  (forall p, bit ws' p = if (lo <=? p) && (p <? lo + n) then true else bit ws p) /\
  (pn' = false <-> pn = false /\ forall p, lo <= p < lo + n -> bit ws p = false).

Lemma SetB_trans ws ws1 ws2 lo a e pn pn1 pn2 :
  SetB ws ws1 lo a pn pn1 -> SetB ws1 ws2 (lo + a) e pn1 pn2 -> SetB ws ws2 lo (a + e) pn pn2.
Proof.
  intros (L1 & W1 & B1 & P1) (L2 & W2 & B2 & P2). split; [congruence|split; auto]. split.
  - intros p. rewrite B2, B1.
    destruct ((lo + a <=? p) && (p <? lo + a + e)) eqn:E1; destruct ((lo <=? p) && (p <? lo + a)) eqn:E2;
      destruct ((lo <=? p) && (p <? lo + (a + e))) eqn:E3; try reflexivity; lia.
  - rewrite P2, P1. split.
    + intros ((H1 & H2) & H3). split; auto. intros p Hp. destruct (Nat.lt_ge_cases p (lo + a)); [apply H2; lia|].
      specialize (H3 p ltac:(lia)). rewrite B1 in H3. replace ((lo <=? p) && (p <? lo + a)) with false in H3 by lia. exact H3.
    + intros (H1 & H2). split; [split; auto; intros p Hp; apply H2; lia|].
      intros p Hp. rewrite B1. replace ((lo <=? p) && (p <? lo + a)) with false by lia. apply H2. lia.
Qed.

Lemma tb_lor a b i : tb (N.lor a b) i = tb a i || tb b i.
Proof. apply N.lor_spec. Qed.

Lemma free_mask_spec ws idx mask lo n pn ws' pn' :
  Wf ws -> idx < length ws -> lo + n <= 64 ->
  (forall j, tb mask j = (lo <=? j) && (j <? lo + n)) ->
  free_mask ws idx mask pn = (ws', pn') -> SetB ws ws' (idx * 64 + lo) n pn pn'.
Proof.
  intros HW Hi Hn Hm. unfold free_mask. intros [= <- <-]. set (w := getw ws idx).
  assert (Hv : w64 (N.lor w mask)).
  { intros j Hj. unfold w. rewrite tb_lor, (HW idx j Hj), Hm. lia. }
  split; [apply setw_length|split; [now apply Wf_setw|]]. split.
  - intros p. destruct (pos64 p) as (Hp & Hr). set (q := p / 64) in *. set (r := p mod 64) in *.
    rewrite Hp, !bit_at by auto. rewrite getw_setw by auto.
    destruct (q =? idx) eqn:Eq.
    + assert (q = idx) by lia. subst q. rewrite H, tb_lor, Hm. fold w.
      replace ((idx * 64 + lo <=? idx * 64 + r) && (idx * 64 + r <? idx * 64 + lo + n)) with ((lo <=? r) && (r <? lo + n)) by lia.
      destruct ((lo <=? r) && (r <? lo + n)); [apply Bool.orb_true_r|apply Bool.orb_false_r].
    + replace ((idx * 64 + lo <=? q * 64 + r) && (q * 64 + r <? idx * 64 + lo + n)) with false by nia. reflexivity.
  - rewrite Bool.orb_false_iff, Bool.negb_false_iff, eqb0_bits. split; intros (H1 & H2); split; auto.
    + intros p Hp. replace p with (idx * 64 + (p - idx * 64)) by lia. rewrite bit_at by lia. fold w.
      specialize (H2 (p - idx * 64)). rewrite tb_land, Hm in H2.
      replace ((lo <=? p - idx * 64) && (p - idx * 64 <? lo + n)) with true in H2 by lia. now rewrite Bool.andb_true_r in H2.
    + intros j. rewrite tb_land, Hm. destruct ((lo <=? j) && (j <? lo + n)) eqn:E; [|apply Bool.andb_false_r].
      rewrite Bool.andb_true_r. unfold w. rewrite <- (bit_at ws idx j) by lia. apply H2. lia.
Qed.

Lemma low_mask c j : c <= 64 -> tb (not64 (shl64 allBits c)) j = (j <? c).
Proof.
  intros Hc. rewrite tb_not64, tb_shl64, tb_allBits. destruct (j <? 64) eqn:E1; cbn [andb xorb].
  - destruct (c <=? j) eqn:E2; cbn [andb].
    + replace (j - c <? 64) with true by lia. replace (j <? c) with false by lia. reflexivity.
    + replace (j <? c) with true by lia. reflexivity.
  - replace (j <? c) with false by lia. reflexivity.
Qed.

Lemma free_cont_spec nsec : forall fuel ws idx cnt pn ws' pn',
  Wf ws -> length ws = nsec / 64 + 1 -> idx * 64 + cnt <= nsec -> cnt < 64 * S fuel ->
  free_cont ws idx cnt fuel pn = (ws', pn') -> SetB ws ws' (idx * 64) cnt pn pn'.
Proof.
  induction fuel as [|f IH]; intros ws idx cnt pn ws' pn' HW L Hr Hf; cbn [free_cont].
  - intros H. assert (Hi : idx < length ws).
    { rewrite L. assert (idx <= nsec / 64) by (apply Nat.div_le_lower_bound; lia). lia. }
    replace (idx * 64) with (idx * 64 + 0) by lia. eapply free_mask_spec; eauto; try lia.
    intros j. rewrite low_mask by lia. destruct (0 <=? j) eqn:E; [reflexivity|lia].
  - assert (Hi : idx < length ws).
    { rewrite L. assert (idx <= nsec / 64) by (apply Nat.div_le_lower_bound; lia). lia. }
    destruct (64 <=? cnt) eqn:Ec.
    + intros H.
      assert (S1 : SetB ws (setw ws idx allBits) (idx * 64 + 0) 64 pn (pn || negb (getw ws idx =? 0)%N)).
      { assert (Hfm : free_mask ws idx allBits pn = (setw ws idx (N.lor (getw ws idx) allBits), pn || negb (N.land (getw ws idx) allBits =? 0)%N)) by reflexivity.
        assert (Hlor : N.lor (getw ws idx) allBits = allBits).
        { apply eq_bits. intros j. rewrite tb_lor, tb_allBits. destruct (j <? 64) eqn:E; [apply Bool.orb_true_r|].
          rewrite (HW idx j) by lia. reflexivity. }
        assert (Hland : N.land (getw ws idx) allBits = getw ws idx).
        { apply eq_bits. intros j. rewrite tb_land, tb_allBits. destruct (j <? 64) eqn:E; [apply Bool.andb_true_r|].
          rewrite (HW idx j) by lia. reflexivity. }
        rewrite Hlor, Hland in Hfm. eapply free_mask_spec; eauto; try lia.
        intros j. rewrite tb_allBits. destruct (0 <=? j) eqn:E; [reflexivity|lia]. }
      rewrite Nat.add_0_r in S1. pose proof S1 as (L1 & W1 & _).
      apply IH in H; auto; try lia; try congruence.
      replace cnt with (64 + (cnt - 64)) at 1 by lia. eapply SetB_trans; [exact S1|].
      replace (idx * 64 + 64) with (S idx * 64) by lia. exact H.
    + intros H. replace (idx * 64) with (idx * 64 + 0) by lia. eapply free_mask_spec; eauto; try lia.
      intros j. rewrite low_mask by lia. destruct (0 <=? j) eqn:E; [reflexivity|lia].
Qed.

Lemma bool_eq_false (a b : bool) : (a = false <-> b = false) -> a = b.
Proof. destruct a, b; intros [H1 H2]; auto; try (symmetry; auto). Qed.

Lemma SetB_flat ws ws' nsec lo n pn' :
  WFW ws nsec -> lo + n <= nsec -> SetB ws ws' lo n false pn' ->
  WFW ws' nsec /\ flat ws' nsec = set_range (flat ws nsec) lo n true /\ pn' = any_range (flat ws nsec) lo n.
Proof.
  intros HWF Hr (L' & W' & B' & P'). pose proof HWF as (L & HW & Z).
  assert (HWF' : WFW ws' nsec).
  { split; [congruence|split; auto]. intros p Hp. rewrite B'. replace ((lo <=? p) && (p <? lo + n)) with false by lia. auto. }
  splits; auto.
  - apply (nth_ext _ _ false false).
    + now rewrite set_range_length, !flat_length.
    + intros p _. rewrite set_range_nth, !nth_flat, B' by auto. rewrite flat_length by auto.
      destruct ((lo <=? p) && (p <? lo + n)) eqn:E1; cbn [andb]; [|reflexivity].
      replace (p <? nsec) with true by lia. reflexivity.
  - apply bool_eq_false. rewrite P', any_range_false. split.
    + intros (_ & H) j Hj _. rewrite nth_flat by auto. now apply H.
    + intros H. split; auto. intros p Hp. rewrite <- (nth_flat ws nsec p HWF). apply H; auto. rewrite flat_length by auto. lia.
Qed.

(* FreeContiguous = the flat model: the run becomes free, the panic is "some sector of it was free" *)
Theorem free_contig_w_refines ws nsec first count ws' pn' :
  WFW ws nsec -> 1 <= first -> 1 <= count -> first - 1 + count <= nsec ->
  free_contig_w ws first count = (ws', pn') ->
  WFW ws' nsec /\ flat ws' nsec = set_range (flat ws nsec) (first - 1) count true /\
  pn' = any_range (flat ws nsec) (first - 1) count.
Proof.
  intros HWF Hf Hc Hr. pose proof HWF as (L & HW & Z). unfold free_contig_w.
  set (p0 := first - 1) in *. destruct (pos64 p0) as (Hp0 & Hoff). set (index := p0 / 64) in *. set (off := p0 mod 64) in *.
  assert (Hi : index < length ws).
  { rewrite L. assert (index <= nsec / 64) by (apply Nat.div_le_mono; lia). lia. }
  set (n1 := Nat.min count (64 - off)).
  destruct (free_mask ws index _ false) as [ws1 pn1] eqn:E1.
  assert (S1 : SetB ws ws1 (index * 64 + off) n1 false pn1).
  { eapply free_mask_spec; eauto; [unfold n1; lia|]. intros j. rewrite tb_shl64.
    assert (Hmask : forall i, tb (if count <? 64 then not64 (shl64 allBits count) else allBits) i = (i <? Nat.min count 64)).
    { intros i. destruct (count <? 64) eqn:E; [rewrite low_mask by lia|rewrite tb_allBits]; lia. }
    rewrite Hmask. unfold n1. lia. }
  rewrite <- Hp0 in S1. intros H. apply (SetB_flat ws ws' nsec p0 count pn' HWF Hr).
  destruct (64 - off <? count) eqn:E2.
  - pose proof S1 as (L1 & W1 & _).
    apply (free_cont_spec nsec) in H; auto; try lia; try congruence.
    replace count with (n1 + (count - (64 - off))) at 1 by (unfold n1; lia).
    eapply SetB_trans; [exact S1|]. replace (p0 + n1) with (S index * 64) by (unfold n1; lia). exact H.
  - injection H as <- <-. replace count with n1 by (unfold n1; lia). exact S1.
Qed.

Lemma tb_one i : tb 1 i = (i =? 0).
Proof. destruct i; reflexivity. Qed.

(* FreeList = the flat model *)
Theorem free_list_w_refines nsec : forall l ws pn ws' pn',
  WFW ws nsec -> (forall s, In s l -> s <= nsec) ->
  free_list_w ws l pn = (ws', pn') ->
  WFW ws' nsec /\ free_list_bits (flat ws nsec) l pn = (flat ws' nsec, pn').
Proof.
  induction l as [|s tl IH]; intros ws pn ws' pn' HWF Hin; cbn [free_list_w free_list_bits].
  - intros [= <- <-]. auto.
  - destruct s as [|p]; [apply IH; auto; intros s Hs; apply Hin; now right|].
    pose proof HWF as (L & HW & Z). assert (Hp : p < nsec) by (specialize (Hin (S p) (or_introl eq_refl)); lia).
    destruct (pos64 p) as (Hpp & Hpr).
    assert (Hi : p / 64 < length ws).
    { rewrite L. assert (p / 64 <= nsec / 64) by (apply Nat.div_le_mono; lia). lia. }
    destruct (free_mask ws (p / 64) (shl64 1 (p mod 64)) pn) as [ws1 pn1] eqn:E1.
    assert (S1 : SetB ws ws1 (p / 64 * 64 + p mod 64) 1 pn pn1).
    { eapply free_mask_spec; eauto; [lia|]. intros j. rewrite tb_shl64, tb_one. lia. }
    rewrite <- Hpp in S1. destruct S1 as (L1 & W1 & B1 & P1).
    assert (HWF1 : WFW ws1 nsec).
    { split; [congruence|split; auto]. intros q Hq. rewrite B1. replace ((p <=? q) && (q <? p + 1)) with false by lia. auto. }
    assert (Hflat : flat ws1 nsec = set_range (flat ws nsec) p 1 true).
    { apply (nth_ext _ _ false false).
      - now rewrite set_range_length, !flat_length.
      - intros q _. rewrite set_range_nth, !nth_flat, B1 by auto. rewrite flat_length by auto.
        destruct ((p <=? q) && (q <? p + 1)) eqn:E; cbn [andb]; [|reflexivity]. replace (q <? nsec) with true by lia. reflexivity. }
    assert (Hpn : pn1 = pn || any_range (flat ws nsec) p 1 || (length (flat ws nsec) <=? p)).
    { rewrite flat_length by auto. replace (nsec <=? p) with false by lia. rewrite Bool.orb_false_r.
      apply bool_eq_false. rewrite P1, Bool.orb_false_iff, any_range_false. split; intros (H1 & H2); split; auto.
      - intros j Hj _. rewrite nth_flat by auto. apply H2. lia.
      - intros q Hq. rewrite <- (nth_flat ws nsec q HWF). apply H2; [lia|]. rewrite flat_length by auto. lia. }
    intros H. apply IH in H; auto; [|intros s Hs; apply Hin; now right].
    destruct H as (HWF' & H). split; auto. rewrite <- Hflat, <- Hpn. exact H.
Qed.

(* non-vacuity: 130 sectors, three words; a run across two word boundaries *)
Example ex_words :
  let ws0 := init_words 130 in
  match allocate_w ws0 0 3 with
  | Some (ws1, f1, n1, nx1) =>
    match allocate_w ws1 nx1 200 with
    | Some (ws2, f2, n2, nx2) =>
      (f1, n1, nx1, f2, n2, nx2) = (0, 3, 3, 3, 127, 130) /\ allocate_w ws2 nx2 1 = None /\
      fst (free_contig_w ws2 4 127) = fst (free_list_w ws2 (seq 4 127) false)
    | None => False
    end
  | None => False
  end.
Proof. vm_compute. repeat split. Qed.
