(* The state invariant of the pool model: allocator bitmap = complement of
   the sectors held by files and direct clients, no sector held twice, no
   panic, quota equations.  Preserved by every step. *)
From Coq Require Import Lia ZifyBool ZifyNat ZifyN Permutation.
From VF Require Import Pool.Model Pool.ProofsAlloc.

Ltac break_in H :=
  repeat match type of H with
  | context[match ?x with _ => _ end] => destruct x eqn:?
  end.

Ltac break_all :=
  repeat match goal with
  | H : context[match ?x with _ => _ end] |- _ => destruct x eqn:?
  end.

Ltac ifs :=
  repeat match goal with
  | |- context[if ?c then _ else _] => let E := fresh "E" in destruct c eqn:E
  | H : context[if ?c then _ else _] |- _ => let E := fresh "E" in destruct c eqn:E
  end; try lia; try reflexivity.

Ltac inv_pair :=
  repeat match goal with
  | H : (_, _) = (_, _) |- _ => injection H as; subst
  end.

(* ---- primitives leave the allocator alone -------------------------------- *)

Lemma dev_write_al w ss s o d w' n e : dev_write w ss s o d = (w', n, e) ->
  w_al w' = w_al w /\ n <= length d /\ (e = ENone -> n = length d) /\ (e <> ENone -> n < length d \/ d = []).
Proof.
  unfold dev_write. destruct (tick (w_fw w)) as [[[p m]|] o'] eqn:T; intros [= <- <- <-]; cbn.
  - splits; auto; try discriminate; try lia. intros _. destruct d; [now right|left]. cbn. lia.
  - splits; auto; try lia. intros H; now elim H.
Qed.

Lemma dev_read_al w ss s o n w' d e : dev_read w ss s o n = (w', d, e) -> w_al w' = w_al w.
Proof.
  unfold dev_read. destruct (tick (w_fr w)) as [[[p m]|] o'] eqn:T; intros [= <- <- <-]; reflexivity.
Qed.

Lemma hole_read_al w h off n w' d e : hole_read w h off n = (w', d, e) -> w_al w' = w_al w.
Proof.
  unfold hole_read. destruct (tick (w_fh w)) as [[[p m]|] o'] eqn:T; intros [= <- <- <-]; reflexivity.
Qed.

Lemma read_hole_al ss w f n si o w' d e : read_hole ss w f n si o = (w', d, e) -> w_al w' = w_al w.
Proof. apply hole_read_al. Qed.

Lemma hole_call_al w k off w' b : hole_call w k off = (w', b) -> w_al w' = w_al w.
Proof.
  unfold hole_call. destruct (tick (w_fh w)) as [[[p m]|] o'] eqn:T; intros [= <- <-]; reflexivity.
Qed.

Ltac al_facts :=
  repeat match goal with
  | H : dev_write _ _ _ _ _ = (_, _, _) |- _ => apply dev_write_al in H; destruct H as (? & ? & ? & ?)
  | H : dev_read _ _ _ _ _ = (_, _, _) |- _ => apply dev_read_al in H
  | H : read_hole _ _ _ _ _ _ = (_, _, _) |- _ => apply read_hole_al in H
  | H : hole_call _ _ _ = (_, _) |- _ => apply hole_call_al in H
  end.

(* ---- writeToNewSectors ----------------------------------------------------- *)

Definition cdivn (a ss : nat) : nat := (a + ss - 1) / ss.

Lemma div_up_le a ss h : 0 < ss -> a <= h * ss -> cdivn a ss <= h.
Proof.
  unfold cdivn.  intros Hs Ha. assert ((a + ss - 1) / ss < S h); [|lia]. apply Nat.div_lt_upper_bound; [lia|]. nia.
Qed.

Lemma wns_first_al ss w f p first si o w' p' sec idx e :
  wns_first ss w f p first si o = (w', p', sec, idx, e) -> w_al w' = w_al w.
Proof. unfold wns_first. intros H. break_all; inv_pair; al_facts; congruence. Qed.

Lemma wns_full_al ss w p sector idx w' p' sec idx' e :
  wns_full ss w p sector idx = (w', p', sec, idx', e) -> w_al w' = w_al w.
Proof. unfold wns_full. intros H. break_in H; inv_pair; al_facts; congruence. Qed.

Lemma wns_last_al ss w f p sector idx w' e :
  wns_last ss w f p sector idx = (w', e) -> w_al w' = w_al w.
Proof. unfold wns_last. intros H. break_in H; inv_pair; al_facts; congruence. Qed.

Lemma wns_al nsec ss w f p si o w' r e h :
  AInv nsec (w_al w) h -> 0 < ss -> p <> [] ->
  write_to_new_sectors ss w f p si o = (w', r, e) ->
  match r with
  | Some (n, first, cnt) =>
    AInv nsec (w_al w') (seq1 first cnt ++ h) /\ 1 <= cnt <= cdivn (o + length p) ss /\
    n = Nat.min (length p) (cnt * ss - o) /\ e = ENone
  | None => AInv nsec (w_al w') h /\ e <> ENone
  end.
Proof.
  intros Ha Hss Hp. unfold write_to_new_sectors, cdivn.
  destruct (allocate w ((o + length p + ss - 1) / ss)) as [w0 [[first cnt]|]] eqn:EA.
  2:{ intros [= <- <- <-]. apply (allocate_none _ _ _ _ _ Ha) in EA as (-> & _). split; [exact Ha|discriminate]. }
  assert (Hmax : 1 <= (o + length p + ss - 1) / ss).
  { apply Nat.div_le_lower_bound; [lia|]. destruct p; [congruence|cbn [length]; lia]. }
  apply (allocate_some _ _ _ _ _ _ _ Ha Hmax) in EA as (Ha0 & Hcnt & _).
  assert (Hfail : forall w1 e1, w_al w1 = w_al w0 -> e1 <> ENone ->
            AInv nsec (w_al (free_contig w1 first cnt)) h /\ e1 <> ENone).
  { intros w1 e1 Hw He. split; [|exact He]. eapply free_contig_ok; [rewrite Hw; exact Ha0|lia|apply Permutation_refl]. }
  destruct (wns_first _ _ _ _ _ _ _) as [[[[w1 p1] s1] i1] e1] eqn:E1. apply wns_first_al in E1.
  destruct (wns_full _ _ _ _ _) as [[[[w2 p2] s2] i2] e2] eqn:E2. apply wns_full_al in E2.
  destruct (wns_last _ _ _ _ _ _) as [w3 e3] eqn:E3. apply wns_last_al in E3.
  unfold limit.
  destruct e1; try (intros [= <- <- <-]; apply Hfail; [congruence|discriminate]).
  destruct e2; try (intros [= <- <- <-]; apply Hfail; [congruence|discriminate]).
  destruct e3; try (intros [= <- <- <-]; apply Hfail; [congruence|discriminate]).
  intros [= <- <- <-]. splits; auto; try lia.
  - replace (w_al w3) with (w_al w0) by congruence. exact Ha0.
  - rewrite firstn_length. lia.
Qed.

(* ---- sector lists ------------------------------------------------------------ *)

Lemma nz_app a b : nz (a ++ b) = nz a ++ nz b.
Proof. apply filter_app. Qed.

Lemma nz_repeat0 n : nz (repeat 0 n) = [].
Proof. induction n; cbn; auto. Qed.

Lemma nz_seq1 first n : 1 <= first -> nz (seq1 first n) = seq1 first n.
Proof.
  revert first. induction n as [|n IH]; intros first H; cbn; [reflexivity|].
  replace (first =? 0) with false by lia. cbn. now rewrite IH by lia.
Qed.

Lemma contig_hole_spec l : forall b,
  contig_hole l b <= b /\ contig_hole l b <= length l /\
  forall j, j < contig_hole l b -> nth j l 0 = 0.
Proof.
  induction l as [|x tl IH]; intros b; destruct b as [|b]; cbn; try (splits; try lia; intros j H; lia).
  destruct x; cbn; [|splits; try lia; intros j H; lia].
  destruct (IH b) as (H1 & H2 & H3). splits; try lia.
  intros j Hj. destruct j; [reflexivity|]. apply H3. lia.
Qed.

Lemma contig_data_spec l : forall e b,
  contig_data l e b <= b /\ contig_data l e b <= length l /\
  forall j, j < contig_data l e b -> nth j l 0 = e + j.
Proof.
  induction l as [|x tl IH]; intros e b; destruct b as [|b]; cbn; try (splits; try lia; intros j H; lia).
  destruct (x =? e) eqn:E; cbn; [|splits; try lia; intros j H; lia].
  destruct (IH (S e) b) as (H1 & H2 & H3). splits; try lia.
  intros j Hj. destruct j; [lia|]. rewrite H3 by lia. lia.
Qed.

Lemma skipn_cons_nth {A} (l : list A) i d : i < length l -> skipn i l = nth i l d :: skipn (S i) l.
Proof.
  revert i. induction l as [|x tl IH]; intros i H; cbn in H; [lia|].
  destruct i; [reflexivity|]. cbn [skipn nth]. apply IH. lia.
Qed.

Lemma sectors_contiguous_spec secs si ei s c :
  si < length secs -> sectors_contiguous secs si ei = (s, c) ->
  s = nth si secs 0 /\ 1 <= c /\ si + c <= length secs /\ c <= Nat.max 1 (ei - si) /\
  (s = 0 -> forall j, j < c -> nth (si + j) secs 0 = 0) /\
  (s <> 0 -> forall j, j < c -> nth (si + j) secs 0 = s + j).
Proof.
  intros Hsi. unfold sectors_contiguous. rewrite (skipn_cons_nth secs si 0 Hsi).
  remember (skipn (S si) secs) as rest eqn:Hrest.
  assert (Hl : length rest = length secs - S si) by (subst; apply skipn_length).
  assert (Hnth : forall j, nth j rest 0 = nth (S si + j) secs 0) by (intros; subst; apply nth_skipn).
  clear Hrest. intros [= <- <-].
  destruct (nth si secs 0 =? 0) eqn:E.
  - destruct (contig_hole_spec rest (ei - si - 1)) as (H1 & H2 & H3).
    splits; try lia.
    intros _ j Hj. destruct j; [rewrite Nat.add_0_r; lia|].
    specialize (H3 j ltac:(lia)). rewrite Hnth in H3. now replace (si + S j) with (S si + j) by lia.
  - destruct (contig_data_spec rest (S (nth si secs 0)) (ei - si - 1)) as (H1 & H2 & H3).
    splits; try lia.
    intros _ j Hj. destruct j; [rewrite !Nat.add_0_r; lia|].
    specialize (H3 j ltac:(lia)). rewrite Hnth in H3. replace (si + S j) with (S si + j) by lia. lia.
Qed.

Lemma insert_sectors_ok : forall secs si first cnt,
  1 <= first -> si + cnt <= length secs ->
  (forall j, si <= j < si + cnt -> nth j secs 0 = 0) ->
  exists secs', insert_sectors secs si first cnt = (secs', false) /\
    length secs' = length secs /\
    Permutation (nz secs') (seq1 first cnt ++ nz secs) /\
    (forall j, nth j secs' 0 = if (si <=? j) && (j <? si + cnt) then first + (j - si) else nth j secs 0).
Proof.
  induction secs as [|x tl IH]; intros si first cnt Hf Hl Hz.
  - cbn in Hl. assert (cnt = 0) by lia. subst. exists []. split; [reflexivity|]. split; [reflexivity|]. split; [apply perm_nil|].
    intros j. destruct ((si <=? j) && (j <? si + 0)) eqn:E; [lia|reflexivity].
  - destruct cnt as [|c].
    + exists (x :: tl). split; [reflexivity|]. split; [reflexivity|]. split; [apply Permutation_refl|].
      intros j. destruct ((si <=? j) && (j <? si + 0)) eqn:E; [lia|reflexivity].
    + cbn [insert_sectors]. destruct si as [|si].
      * destruct (IH 0 (S first) c) as (r & E & Hlen & P & Hn); [lia|cbn in Hl; lia| |].
        { intros j Hj. apply (Hz (S j)). lia. }
        rewrite E. assert (x = 0) by (apply (Hz 0); lia). subst x.
        exists (first :: r). cbn [Nat.eqb negb orb]. splits; auto.
        -- cbn. now rewrite Hlen.
        -- cbn [nz filter seq1 app]. replace (first =? 0) with false by lia. cbn [negb].
           constructor. exact P.
        -- intros j. destruct j as [|j]; cbn [nth]; [cbn; lia|].
           rewrite Hn. ifs.
      * destruct (IH si first (S c)) as (r & E & Hlen & P & Hn); [lia|cbn in Hl; lia| |].
        { intros j Hj. apply (Hz (S j)). lia. }
        rewrite E. exists (x :: r). splits; auto.
        -- cbn. now rewrite Hlen.
        -- cbn [nz filter]. destruct (negb (x =? 0)).
           ++ eapply Permutation_trans; [apply perm_skip; exact P|]. apply Permutation_middle.
           ++ exact P.
        -- intros j. destruct j as [|j]; cbn [nth]; [reflexivity|].
           rewrite Hn. ifs.
Qed.

(* ---- writeToSectors / WriteAt -------------------------------------------------- *)

Lemma aligned o c ss n len :
  0 < ss -> o < ss -> 1 <= c -> n = Nat.min len (c * ss - o) -> n < len -> (o + n) mod ss = 0.
Proof.
  intros Hs Ho Hc -> Hn. assert (c * ss >= ss) by nia.
  replace (o + Nat.min len (c * ss - o)) with (c * ss) by lia. apply Nat.mod_mul. lia.
Qed.

Lemma min_pos len c ss o : 1 <= len -> 1 <= c -> 0 < ss -> o < ss -> 1 <= Nat.min len (c * ss - o).
Proof. intros. assert (c * ss >= ss) by nia. lia. Qed.

Lemma nth_app_repeat0 (l : list nat) k j : length l <= j -> nth j (l ++ repeat 0 k) 0 = 0.
Proof.
  intros H. rewrite app_nth2 by lia. destruct (Nat.lt_ge_cases (j - length l) k).
  - now apply nth_repeat.
  - apply nth_overflow. rewrite repeat_length. lia.
Qed.

Lemma wts_al nsec ss w f p si ei o w' f' n e oth :
  AInv nsec (w_al w) (nz (f_secs f) ++ oth) -> 0 < ss -> o < ss -> p <> [] ->
  write_to_sectors ss w f p si ei o = (w', f', n, e) ->
  AInv nsec (w_al w') (nz (f_secs f') ++ oth) /\ n <= length p /\
  f_size f' = f_size f /\ f_hole f' = f_hole f /\ f_qsize f' = f_qsize f /\
  (e = ENone -> 1 <= n /\ (n < length p -> (o + n) mod ss = 0)).
Proof.
  intros Ha Hss Ho Hp. unfold write_to_sectors.
  assert (Hlp : 1 <= length p) by (destruct p; [congruence|cbn; lia]).
  destruct (length (f_secs f) <=? si) eqn:Hlen.
  - (* append *)
    destruct (write_to_new_sectors ss w f p si o) as [[w1 r] e1] eqn:EW.
    apply (wns_al _ _ _ _ _ _ _ _ _ _ _ Ha Hss Hp) in EW.
    destruct r as [[[n1 first] cnt]|].
    + destruct EW as (Ha1 & Hcnt & Hn1 & ->).
      assert (Hfirst : 1 <= first).
      { destruct Ha1 as (_ & _ & _ & Hr & _). apply (Hr first). apply in_app_iff. left. apply in_seq1. lia. }
      destruct (insert_sectors_ok (f_secs f ++ repeat 0 (si + cnt - length (f_secs f))) si first cnt Hfirst)
        as (secs' & EI & Hl' & P & _).
      { rewrite app_length, repeat_length. lia. }
      { intros j Hj. apply nth_app_repeat0. lia. }
      rewrite EI. intros [= <- <- <- <-]. cbn [f_secs set_secs f_size f_hole f_qsize].
      splits; auto; try lia.
      * eapply AInv_perm; [|exact Ha1]. rewrite app_assoc. apply Permutation_app_tail.
        eapply Permutation_trans; [|apply Permutation_sym; exact P].
        rewrite nz_app, nz_repeat0, app_nil_r. apply Permutation_refl.
      * intros _. split; [rewrite Hn1; apply min_pos; lia|]. intros Hlt. apply (aligned o cnt ss n1 (length p)); auto; lia.
    + destruct EW as (Ha1 & He). intros [= <- <- <- <-]. splits; auto; try lia. intros ->. congruence.
  - destruct (sectors_contiguous (f_secs f) si ei) as [sector c] eqn:ES.
    apply sectors_contiguous_spec in ES as (Hs & Hc1 & Hc2 & _ & Hz & Hd); [|lia].
    assert (Hcs : c * ss >= ss) by nia.
    assert (Hlim : 1 <= limit ss (length p) c o) by (unfold limit; lia).
    assert (Hp' : firstn (limit ss (length p) c o) p <> []).
    { intros E. apply (f_equal (@length _)) in E. rewrite firstn_length in E. cbn in E. lia. }
    assert (Hlp' : length (firstn (limit ss (length p) c o) p) = limit ss (length p) c o).
    { rewrite firstn_length. unfold limit. lia. }
    destruct (sector =? 0) eqn:E0.
    + (* fill a hole *)
      destruct (write_to_new_sectors ss w f _ si o) as [[w1 r] e1] eqn:EW.
      apply (wns_al _ _ _ _ _ _ _ _ _ _ _ Ha Hss Hp') in EW.
      destruct r as [[[n1 first] cnt]|].
      * destruct EW as (Ha1 & Hcnt & Hn1 & ->).
        assert (Hfirst : 1 <= first).
        { destruct Ha1 as (_ & _ & _ & Hr & _). apply (Hr first). apply in_app_iff. left. apply in_seq1. lia. }
        assert (Hcc : cnt <= c).
        { etransitivity; [apply Hcnt|]. apply div_up_le; [lia|]. rewrite Hlp'. unfold limit. nia. }
        destruct (insert_sectors_ok (f_secs f) si first cnt Hfirst) as (secs' & EI & Hl' & P & _); [lia| |].
        { intros j Hj. replace j with (si + (j - si)) by lia. apply Hz; lia. }
        rewrite EI. intros [= <- <- <- <-]. cbn [f_secs set_secs f_size f_hole f_qsize].
        rewrite Hlp' in Hn1. unfold limit in Hn1.
        splits; auto; try lia.
        -- eapply AInv_perm; [|exact Ha1]. rewrite app_assoc. apply Permutation_app_tail.
           apply Permutation_sym; exact P.
        -- intros _. split; [rewrite Hn1; apply min_pos; try lia; apply min_pos; lia|]. intros Hlt.
           destruct (Nat.lt_ge_cases n1 (Nat.min (length p) (c * ss - o))).
           ++ eapply (aligned o cnt ss n1); eauto; lia.
           ++ eapply (aligned o c ss n1 (length p)); eauto; lia.
      * destruct EW as (Ha1 & He). intros [= <- <- <- <-]. splits; auto; try lia. intros ->. congruence.
    + (* overwrite *)
      destruct (dev_write w ss (pred sector) o _) as [[w1 n1] e1] eqn:ED.
      apply dev_write_al in ED as (Hal & Hn1 & Hok & _). rewrite Hlp' in *.
      intros [= <- <- <- <-]. rewrite Hal. unfold limit in *. splits; auto; try lia.
      intros He. specialize (Hok He). split; [lia|]. intros Hlt.
      eapply (aligned o c ss n1 (length p)); eauto; lia.
Qed.

Lemma skipn_nonempty {A} (l : list A) n x tl : skipn n l = x :: tl -> n < length l /\ length (x :: tl) = length l - n.
Proof.
  intros H. pose proof (skipn_length n l) as Hl. rewrite H in Hl. cbn in *. lia.
Qed.

Lemma wloop_al nsec ss oth : forall fuel w f p si ei o total w' f' t' e,
  AInv nsec (w_al w) (nz (f_secs f) ++ oth) -> 0 < ss -> o < ss -> p <> [] -> length p < fuel ->
  write_loop ss fuel w f p si ei o total = (w', f', t', e) ->
  AInv nsec (w_al w') (nz (f_secs f') ++ oth) /\ total <= t' <= total + length p /\
  f_size f' = f_size f /\ f_hole f' = f_hole f /\ f_qsize f' = f_qsize f.
Proof.
  induction fuel as [|fuel IH]; intros w f p si ei o total w' f' t' e Ha Hss Ho Hp Hf; [lia|].
  cbn [write_loop].
  destruct (write_to_sectors ss w f p si ei o) as [[[w1 f1] n] e1] eqn:EW.
  apply (wts_al _ _ _ _ _ _ _ _ _ _ _ _ _ Ha Hss Ho Hp) in EW as (Ha1 & Hn & Hs & Hh & Hq & Hok).
  destruct (skipn n p) as [|x tl] eqn:ES.
  - intros [= <- <- <- <-]. splits; auto; lia.
  - destruct e1; try (intros [= <- <- <- <-]; splits; auto; lia).
    destruct (Hok eq_refl) as (Hn1 & Hal). apply skipn_nonempty in ES as (Hlt & Hlen).
    rewrite (Hal Hlt). cbn [Nat.eqb].
    intros H. apply IH in H; auto; try lia; try discriminate.
    destruct H as (Ha' & Ht & Hs' & Hh' & Hq'). splits; auto; try lia; congruence.
Qed.

Lemma file_write_al nsec ss w f off p w' f' n e oth :
  AInv nsec (w_al w) (nz (f_secs f) ++ oth) -> 0 < ss ->
  file_write ss w f off p = (w', f', n, e) ->
  AInv nsec (w_al w') (nz (f_secs f') ++ oth) /\ n <= length p /\
  f_hole f' = f_hole f /\ f_qsize f' = f_qsize f /\
  f_size f' = (if (0 <? n) && (f_size f <? Z.to_N off + N.of_nat n)%N then (Z.to_N off + N.of_nat n)%N else f_size f).
Proof.
  intros Ha Hss. unfold file_write.
  destruct (off <? 0)%Z; [intros [= <- <- <- <-]; splits; auto; lia|].
  destruct (length p =? 0) eqn:El; [intros [= <- <- <- <-]; splits; auto; lia|].
  destruct (write_loop _ _ _ _ _ _ _ _ _) as [[[w1 f1] t] e1] eqn:EL.
  assert (Ho : soff ss (Z.to_N off) < ss).
  { unfold soff. pose proof (N.mod_upper_bound (Z.to_N off) (N.of_nat ss)). lia. }
  assert (Hp : p <> []) by (destruct p; [discriminate|congruence]).
  apply (wloop_al nsec ss oth _ _ _ _ _ _ _ _ _ _ _ _ Ha Hss Ho Hp (Nat.lt_succ_diag_r _)) in EL.
  destruct EL as (Ha1 & Ht & Hs & Hh & Hq). intros [= <- <- <- <-].
  destruct ((0 <? t) && (f_size f1 <? Z.to_N off + N.of_nat t)%N) eqn:E; cbn [f_secs f_size f_hole f_qsize set_size];
    splits; auto; try lia; rewrite <- Hs; rewrite E; reflexivity.
Qed.

Ltac solve_ainv :=
  match goal with
  | |- AInv _ (w_al ?a) _ =>
    first [assumption
          |match goal with H : AInv _ (w_al ?b) _ |- _ => replace (w_al a) with (w_al b) by congruence; exact H end]
  end.

(* ---- Truncate / Close ------------------------------------------------------------ *)

Lemma nz_strip r : nz (rev (strip_zeros_rev r)) = nz (rev r).
Proof.
  induction r as [|x tl IH]; [reflexivity|]. destruct x; [|reflexivity].
  cbn [strip_zeros_rev rev]. rewrite nz_app, IH. cbn. now rewrite app_nil_r.
Qed.

Lemma truncate_sectors_al nsec w f cnt w' f' oth :
  AInv nsec (w_al w) (nz (f_secs f) ++ oth) ->
  truncate_sectors w f cnt = (w', f') ->
  AInv nsec (w_al w') (nz (f_secs f') ++ oth) /\
  f_size f' = f_size f /\ f_hole f' = f_hole f /\ f_qsize f' = f_qsize f.
Proof.
  intros Ha. unfold truncate_sectors. destruct (cnt <? length (f_secs f)); [|intros [= <- <-]; auto].
  intros [= <- <-]. cbn [f_secs set_secs f_size f_hole f_qsize]. splits; auto.
  rewrite nz_strip, rev_involutive. eapply free_list_ok; [exact Ha|].
  rewrite <- (firstn_skipn cnt (f_secs f)) at 1. rewrite nz_app.
  rewrite app_assoc. apply Permutation_app_tail. apply Permutation_app_comm.
Qed.

Lemma file_truncate_al nsec ss w f size w' f' e oth :
  AInv nsec (w_al w) (nz (f_secs f) ++ oth) ->
  file_truncate ss w f size = (w', f', e) ->
  AInv nsec (w_al w') (nz (f_secs f') ++ oth) /\ f_qsize f' = f_qsize f /\
  f_size f' = (match e with ENone => Z.to_N size | _ => f_size f end) /\
  (e = ENone -> (0 <= size)%Z).
Proof.
  intros Ha. unfold file_truncate.
  destruct (size <? 0)%Z eqn:Es; [intros [= <- <- <-]; splits; auto; discriminate|].
  intros H. break_all; inv_pair; al_facts;
  repeat match goal with
  | H : truncate_sectors ?w0 ?f0 ?c = (_, _) |- _ =>
    apply (truncate_sectors_al nsec _ _ _ _ _ oth) in H;
      [destruct H as (? & ? & ? & ?)
      |first [exact Ha | replace (w_al w0) with (w_al w) by congruence; exact Ha]]
  end;
  cbn [f_secs f_size f_hole f_qsize set_size set_hole];
  (split; [solve_ainv|]); splits; auto; try lia; try congruence; try discriminate.
Qed.

Lemma file_close_al nsec w f w' e oth :
  AInv nsec (w_al w) (nz (f_secs f) ++ oth) ->
  file_close w f = (w', e) -> AInv nsec (w_al w') oth.
Proof.
  intros Ha. unfold file_close.
  destruct (hole_call _ HClose 0) as [w1 ok] eqn:EH. apply hole_call_al in EH.
  intros [= <- <-]. rewrite EH.
  destruct (0 <? length (f_secs f)) eqn:El.
  - eapply free_list_ok; [exact Ha|apply Permutation_refl].
  - destruct (f_secs f); [exact Ha|cbn in El; lia].
Qed.

(* ---- the state invariant ---------------------------------------------------------- *)

Definition fsecs (fo : option file) : list nat :=
  match fo with Some f => nz (f_secs f) | None => [] end.
Definition raw_secs (r : list (nat * nat)) : list nat := flat_map (fun p => seq1 (fst p) (snd p)) r.
Definition held (st : state) : list nat := flat_map fsecs (st_files st) ++ raw_secs (st_raw st).

Definition fsize (fo : option file) : N := match fo with Some f => f_size f | None => 0%N end.
Definition sizes (l : list (option file)) : N := fold_right (fun f a => (fsize f + a)%N) 0%N l.
Definition nopen (l : list (option file)) : N :=
  fold_right (fun f a => match f with Some _ => (1 + a)%N | None => a end) 0%N l.

Record Inv (c : cfg) (st : state) : Prop := mkInv {
  inv_al : AInv (c_nsec c) (st_al st) (held st);
  inv_slots : length (st_files st) = nslots;
  inv_raw : Forall (fun r => 1 <= snd r) (st_raw st);
  inv_q : forall f, In (Some f) (st_files st) -> f_qsize f = f_size f;
  inv_remf : (st_remf st + nopen (st_files st) = c_maxfiles c)%N;
  inv_remb : (st_remb st + sizes (st_files st) = c_maxbytes c)%N }.

Lemma get_file_split st slot f :
  get_file st slot = Some f ->
  exists l1 l2, st_files st = l1 ++ Some f :: l2 /\ length l1 = slot /\
    forall v, set_nth (st_files st) slot v = l1 ++ v :: l2.
Proof.
  unfold get_file. destruct (nth_error (st_files st) slot) as [[g|]|] eqn:E; try discriminate.
  intros [= ->]. apply nth_error_split in E as (l1 & l2 & Hs & Hl).
  exists l1, l2. splits; auto. intros v. rewrite Hs. clear Hs. subst slot.
  induction l1; cbn; [reflexivity|now rewrite IHl1].
Qed.

Lemma empty_slot_split (l : list (option file)) slot :
  nth_error l slot = Some None ->
  exists l1 l2, l = l1 ++ None :: l2 /\ length l1 = slot /\
    forall v, set_nth l slot v = l1 ++ v :: l2.
Proof.
  intros E. apply nth_error_split in E as (l1 & l2 & Hs & Hl).
  exists l1, l2. splits; auto. intros v. rewrite Hs. clear Hs. subst slot.
  induction l1; cbn; [reflexivity|now rewrite IHl1].
Qed.

Lemma sizes_app a b : sizes (a ++ b) = (sizes a + sizes b)%N.
Proof. induction a as [|x a IH]; [reflexivity|]. unfold sizes in *. cbn [app fold_right]. rewrite IH. lia. Qed.
Lemma nopen_app a b : nopen (a ++ b) = (nopen a + nopen b)%N.
Proof. induction a as [|x a IH]; [reflexivity|]. unfold nopen in *. cbn [app fold_right]. rewrite IH. destruct x; lia. Qed.

Lemma held_split l1 fo l2 raw :
  Permutation (flat_map fsecs (l1 ++ fo :: l2) ++ raw)
              (fsecs fo ++ (flat_map fsecs l1 ++ flat_map fsecs l2 ++ raw)).
Proof.
  rewrite flat_map_app. cbn [flat_map]. rewrite <- !app_assoc.
  rewrite (app_assoc (flat_map fsecs l1)). rewrite (app_assoc (fsecs fo)).
  apply Permutation_app_tail. apply Permutation_app_comm.
Qed.

Lemma Inv_update c st l1 fo l2 fo' dev' al' remf' remb' :
  Inv c st -> st_files st = l1 ++ fo :: l2 ->
  AInv (c_nsec c) al' (fsecs fo' ++ (flat_map fsecs l1 ++ flat_map fsecs l2 ++ raw_secs (st_raw st))) ->
  (forall f', fo' = Some f' -> f_qsize f' = f_size f') ->
  (remf' + nopen (l1 ++ fo' :: l2) = c_maxfiles c)%N ->
  (remb' + sizes (l1 ++ fo' :: l2) = c_maxbytes c)%N ->
  Inv c (mkSt dev' al' (l1 ++ fo' :: l2) (st_raw st) remf' remb').
Proof.
  intros [Ha Hs Hr Hq Hf Hb] Hfiles Ha' Hq' Hf' Hb'. constructor; cbn [st_al st_files st_raw st_remf st_remb]; auto.
  - unfold held. cbn [st_files st_raw]. eapply AInv_perm; [apply Permutation_sym, held_split|exact Ha'].
  - rewrite Hfiles in Hs. rewrite app_length in *. cbn [length] in *. exact Hs.
  - intros f' Hin. apply in_app_iff in Hin as [Hin|[Hin|Hin]].
    + apply Hq. rewrite Hfiles. apply in_app_iff. now left.
    + now apply Hq'.
    + apply Hq. rewrite Hfiles. apply in_app_iff. right. now right.
Qed.

Lemma Inv_slot_ainv c st l1 fo l2 :
  Inv c st -> st_files st = l1 ++ fo :: l2 ->
  AInv (c_nsec c) (st_al st) (fsecs fo ++ (flat_map fsecs l1 ++ flat_map fsecs l2 ++ raw_secs (st_raw st))).
Proof.
  intros [Ha _ _ _ _ _] Hfiles. unfold held in Ha. rewrite Hfiles in Ha.
  eapply AInv_perm; [apply held_split|exact Ha].
Qed.

Lemma sizes_mid l1 fo l2 : sizes (l1 ++ fo :: l2) = (fsize fo + (sizes l1 + sizes l2))%N.
Proof. rewrite sizes_app. unfold sizes at 2. cbn [fold_right]. fold (sizes l2). lia. Qed.

Lemma nopen_mid l1 fo l2 :
  nopen (l1 ++ fo :: l2) = ((match fo with Some _ => 1 | None => 0 end) + (nopen l1 + nopen l2))%N.
Proof. rewrite nopen_app. unfold nopen at 2. cbn [fold_right]. fold (nopen l2). destruct fo; lia. Qed.

Section Step.
Variable c : cfg.
Hypothesis Hss : 0 < c_ss c.

Lemma step_new st o slot hole size fb st' x evs :
  Inv c st -> op_k o = KNew slot hole size fb -> step c st o = (st', x, evs) -> Inv c st'.
Proof.
  intros HI Hk. unfold step. rewrite Hk.
  destruct (nth_error (st_files st) slot) as [[g|]|] eqn:E; try (intros [= <- _ _]; exact HI).
  apply empty_slot_split in E as (l1 & l2 & Hfiles & Hl & Hset).
  pose proof (Inv_slot_ainv _ _ _ _ _ HI Hfiles) as Ha.
  pose proof (inv_remf _ _ HI) as Hf. pose proof (inv_remb _ _ HI) as Hb.
  rewrite Hfiles, nopen_mid in Hf. rewrite Hfiles, sizes_mid in Hb. cbn [fsize] in Hb.
  destruct (st_remf st <? 1)%N eqn:E1; [intros [= <- _ _]; exact HI|].
  destruct ((0 <? size)%N && (st_remb st <? size)%N) eqn:E2; [intros [= <- _ _]; exact HI|].
  destruct fb; [intros [= <- _ _]; exact HI|].
  rewrite Hset. unfold finish, commit. cbn [w_dev w_al log world_of].
  intros [= <- _ _]. eapply Inv_update; eauto.
  - intros f' [= <-]. reflexivity.
  - rewrite nopen_mid. lia.
  - rewrite sizes_mid. cbn [fsize f_size]. destruct (0 <? size)%N eqn:E3; lia.
Qed.

Lemma step_write st o slot off p st' x evs :
  Inv c st -> op_k o = KWrite slot off p -> step c st o = (st', x, evs) -> Inv c st'.
Proof.
  intros HI Hk. unfold step. rewrite Hk.
  destruct (get_file st slot) as [f|] eqn:E; [|intros [= <- _ _]; exact HI].
  apply get_file_split in E as (l1 & l2 & Hfiles & Hl & Hset).
  pose proof (Inv_slot_ainv _ _ _ _ _ HI Hfiles) as Ha. cbn [fsecs] in Ha.
  pose proof (inv_remb _ _ HI) as Hb. pose proof (inv_remf _ _ HI) as Hf.
  assert (Hq : f_qsize f = f_size f). { apply (inv_q _ _ HI). rewrite Hfiles. apply in_app_iff. right. now left. }
  rewrite Hfiles, sizes_mid in Hb. cbn [fsize] in Hb. rewrite Hfiles in Hf.
  destruct (off <? 0)%Z eqn:E0; [intros [= <- _ _]; exact HI|].
  unfold finish, commit.
  destruct ((Z.to_N off + N.of_nat (length p) <=? f_qsize f)%N) eqn:E1.
  - destruct (file_write (c_ss c) (world_of st o) f off p) as [[[w1 f1] n] e] eqn:EW.
    apply (file_write_al (c_nsec c)) with (oth := flat_map fsecs l1 ++ flat_map fsecs l2 ++ raw_secs (st_raw st)) in EW; auto.
    destruct EW as (Ha1 & Hn & Hh & Hq1 & Hs1). rewrite Hset. intros [= <- _ _]. eapply Inv_update; eauto.
    + intros f' [= <-]. rewrite Hq1, Hs1. ifs.
    + rewrite nopen_mid in *. exact Hf.
    + rewrite sizes_mid. cbn [fsize]. rewrite Hs1. ifs.
  - destruct (st_remb st <? _)%N eqn:E2; [intros [= <- _ _]; exact HI|].
    destruct (file_write (c_ss c) (world_of st o) f off p) as [[[w1 f1] n] e] eqn:EW.
    apply (file_write_al (c_nsec c)) with (oth := flat_map fsecs l1 ++ flat_map fsecs l2 ++ raw_secs (st_raw st)) in EW; auto.
    destruct EW as (Ha1 & Hn & Hh & Hq1 & Hs1). rewrite Hset. intros [= <- _ _].
    eapply (Inv_update c st l1 (Some f) l2 (Some _)); eauto.
    + intros f' [= <-]. cbn [f_qsize f_size set_qsize]. rewrite Hs1. ifs.
    + rewrite nopen_mid in *. exact Hf.
    + rewrite sizes_mid. cbn [fsize f_size set_qsize]. rewrite Hs1. ifs.
Qed.

Lemma step_trunc st o slot size st' x evs :
  Inv c st -> op_k o = KTrunc slot size -> step c st o = (st', x, evs) -> Inv c st'.
Proof.
  intros HI Hk. unfold step. rewrite Hk.
  destruct (get_file st slot) as [f|] eqn:E; [|intros [= <- _ _]; exact HI].
  apply get_file_split in E as (l1 & l2 & Hfiles & Hl & Hset).
  pose proof (Inv_slot_ainv _ _ _ _ _ HI Hfiles) as Ha. cbn [fsecs] in Ha.
  pose proof (inv_remb _ _ HI) as Hb. pose proof (inv_remf _ _ HI) as Hf.
  assert (Hq : f_qsize f = f_size f). { apply (inv_q _ _ HI). rewrite Hfiles. apply in_app_iff. right. now left. }
  rewrite Hfiles, sizes_mid in Hb. cbn [fsize] in Hb. rewrite Hfiles in Hf.
  destruct (size <? 0)%Z eqn:E0; [intros [= <- _ _]; exact HI|].
  unfold finish, commit.
  destruct (file_truncate (c_ss c) (world_of st o) f size) as [[w1 f1] e] eqn:ET.
  apply (file_truncate_al (c_nsec c)) with (oth := flat_map fsecs l1 ++ flat_map fsecs l2 ++ raw_secs (st_raw st)) in ET; auto.
  destruct ET as (Ha1 & Hq1 & Hs1 & _).
  assert (Hupd : forall f' remb', f_secs f' = f_secs f1 -> f_qsize f' = f_size f' ->
            (remb' + (f_size f' + (sizes l1 + sizes l2)) = c_maxbytes c)%N ->
            Inv c (mkSt (w_dev w1) (w_al w1) (l1 ++ Some f' :: l2) (st_raw st) (st_remf st) remb')).
  { intros f' remb' Hsec Hqq Hbb. eapply (Inv_update c st l1 (Some f) l2 (Some f')); eauto.
    - cbn [fsecs]. rewrite Hsec. exact Ha1.
    - intros f'' [= <-]. exact Hqq.
    - rewrite nopen_mid in *. exact Hf.
    - rewrite sizes_mid. exact Hbb. }
  destruct (Z.to_N size <? f_qsize f)%N eqn:E1; [|destruct (f_qsize f <? Z.to_N size)%N eqn:E2].
  - destruct e; rewrite Hset; intros [= <- _ _]; apply Hupd; cbn [f_secs f_qsize f_size set_qsize]; auto; try lia.
  - destruct (st_remb st <? Z.to_N size - f_qsize f)%N eqn:E3; [intros [= <- _ _]; exact HI|].
    destruct e; rewrite Hset; intros [= <- _ _]; apply Hupd; cbn [f_secs f_qsize f_size set_qsize]; auto; try lia.
  - intros [= <- _ _]; exact HI.
Qed.

Lemma step_close st o slot st' x evs :
  Inv c st -> op_k o = KClose slot -> step c st o = (st', x, evs) -> Inv c st'.
Proof.
  intros HI Hk. unfold step. rewrite Hk.
  destruct (get_file st slot) as [f|] eqn:E; [|intros [= <- _ _]; exact HI].
  apply get_file_split in E as (l1 & l2 & Hfiles & Hl & Hset).
  pose proof (Inv_slot_ainv _ _ _ _ _ HI Hfiles) as Ha. cbn [fsecs] in Ha.
  pose proof (inv_remb _ _ HI) as Hb. pose proof (inv_remf _ _ HI) as Hf.
  assert (Hq : f_qsize f = f_size f). { apply (inv_q _ _ HI). rewrite Hfiles. apply in_app_iff. right. now left. }
  rewrite Hfiles, sizes_mid in Hb. cbn [fsize] in Hb. rewrite Hfiles, nopen_mid in Hf.
  destruct (file_close (world_of st o) f) as [w1 e] eqn:EC.
  apply (file_close_al (c_nsec c)) with (oth := flat_map fsecs l1 ++ flat_map fsecs l2 ++ raw_secs (st_raw st)) in EC; auto.
  rewrite Hset. unfold finish, commit. intros [= <- _ _].
  eapply (Inv_update c st l1 (Some f) l2 None); eauto.
  - discriminate.
  - rewrite nopen_mid. lia.
  - rewrite sizes_mid. cbn [fsize]. lia.
Qed.
End Step.

(* ---- direct allocator calls, final step ------------------------------------------- *)

Lemma raw_secs_app a b : raw_secs (a ++ b) = raw_secs a ++ raw_secs b.
Proof. apply flat_map_app. Qed.

Lemma close_all_al nsec : forall files w oth,
  AInv nsec (w_al w) (flat_map fsecs files ++ oth) -> AInv nsec (w_al (close_all w files)) oth.
Proof.
  induction files as [|[f|] tl IH]; intros w oth Ha; cbn [close_all flat_map fsecs app] in *; auto.
  destruct (file_close w f) as [w1 e] eqn:EC.
  apply (file_close_al nsec) with (oth := flat_map fsecs tl ++ oth) in EC; [|now rewrite app_assoc].
  now apply IH.
Qed.

Lemma free_runs_al nsec : forall runs w oth,
  AInv nsec (w_al w) (raw_secs runs ++ oth) -> Forall (fun r => 1 <= snd r) runs ->
  AInv nsec (w_al (free_runs w runs)) oth.
Proof.
  induction runs as [|[first n] tl IH]; intros w oth Ha Hf; cbn [free_runs] in *; auto.
  inversion Hf as [|? ? Hn Hf']; subst. cbn [snd] in Hn. apply IH; auto.
  eapply free_contig_ok; [exact Ha|exact Hn|].
  unfold raw_secs. cbn [flat_map fst snd]. rewrite <- app_assoc. apply Permutation_refl.
Qed.

Lemma alloc_all_al nsec max h : 1 <= max -> forall fuel w acc w' runs,
  AInv nsec (w_al w) (raw_secs acc ++ h) -> Forall (fun r => 1 <= snd r) acc ->
  alloc_all fuel w max acc = (w', runs) ->
  AInv nsec (w_al w') (raw_secs runs ++ h) /\ Forall (fun r => 1 <= snd r) runs.
Proof.
  intros Hmax. induction fuel as [|fuel IH]; intros w acc w' runs Ha Hf; cbn [alloc_all].
  - intros [= <- <-]. auto.
  - destruct (allocate w max) as [w1 [[first n]|]] eqn:EA.
    + apply (allocate_some _ _ _ _ _ _ _ Ha Hmax) in EA as (Ha1 & Hn & _).
      intros H. apply IH in H; auto.
      * rewrite raw_secs_app. unfold raw_secs at 2. cbn [flat_map fst snd]. rewrite app_nil_r.
        eapply AInv_perm; [|exact Ha1]. rewrite app_assoc. apply Permutation_app_tail. apply Permutation_app_comm.
      * apply Forall_app. split; auto. constructor; auto. cbn; lia.
    + apply (allocate_none _ _ _ _ _ Ha) in EA as (Hal & _). intros [= <- <-]. rewrite Hal. auto.
Qed.

Lemma nopen_filter files :
  N.of_nat (length (filter (fun f : option file => match f with Some _ => true | None => false end) files)) = nopen files.
Proof.
  induction files as [|[f|] tl IH]; [reflexivity| |]; unfold nopen in *; cbn [filter length fold_right]; lia.
Qed.

Lemma qsizes_sizes files : (forall f, In (Some f) files -> f_qsize f = f_size f) -> qsizes files = sizes files.
Proof.
  induction files as [|[f|] tl IH]; intros H; [reflexivity| |]; unfold qsizes, sizes in *; cbn [fold_right fsize].
  - rewrite (H f) by now left. rewrite IH; auto. intros g Hg. apply H. now right.
  - rewrite IH; auto. intros g Hg. apply H. now right.
Qed.

Lemma perm_pull3 {A} (a b s d : list A) : Permutation (a ++ b ++ s ++ d) (s ++ a ++ b ++ d).
Proof.
  rewrite !app_assoc. apply Permutation_app_tail. rewrite <- (app_assoc s a b). apply Permutation_app_comm.
Qed.

Section Step2.
Variable c : cfg.

Lemma step_rawalloc st o max st' x evs :
  Inv c st -> op_k o = KRawAlloc max -> step c st o = (st', x, evs) -> Inv c st'.
Proof.
  intros HI Hk. unfold step. rewrite Hk.
  destruct (max =? 0) eqn:E0; [intros [= <- _ _]; exact HI|].
  assert (Hmax : 1 <= max) by lia.
  destruct HI as [Ha Hs Hr Hq Hf Hb].
  destruct (allocate (world_of st o) max) as [w1 [[first n]|]] eqn:EA; unfold finish, commit; intros [= <- _ _].
  - apply (allocate_some (c_nsec c) (world_of st o) _ _ _ _ (held st) Ha Hmax) in EA as (Ha1 & Hn & _).
    constructor; cbn [st_al st_files st_raw st_remf st_remb]; auto.
    + unfold held. cbn [st_files st_raw]. rewrite raw_secs_app. unfold raw_secs at 2. cbn [flat_map fst snd].
      rewrite app_nil_r. eapply AInv_perm; [|exact Ha1]. unfold held. apply Permutation_sym. rewrite app_assoc. apply Permutation_app_comm.
    + apply Forall_app. split; auto. constructor; auto. cbn; lia.
  - apply (allocate_none (c_nsec c) (world_of st o) _ _ (held st) Ha) in EA as (Hal & _).
    constructor; cbn [st_al st_files st_raw st_remf st_remb]; auto. rewrite Hal. exact Ha.
Qed.

Lemma step_rawfree st o idx asl st' x evs :
  Inv c st -> op_k o = KRawFree idx asl -> step c st o = (st', x, evs) -> Inv c st'.
Proof.
  intros HI Hk. unfold step. rewrite Hk.
  destruct (st_raw st) as [|r0 rt] eqn:Er; [intros [= <- _ _]; exact HI|]. rewrite <- Er.
  assert (Hlen : idx mod length (st_raw st) < length (st_raw st)).
  { apply Nat.mod_upper_bound. rewrite Er. cbn. lia. }
  set (i := idx mod length (st_raw st)) in *.
  destruct (nth i (st_raw st) (0, 0)) as [first n] eqn:En.
  assert (Hsplit : st_raw st = firstn i (st_raw st) ++ (first, n) :: skipn (S i) (st_raw st)).
  { rewrite <- En. rewrite <- (skipn_cons_nth _ _ _ Hlen). symmetry. apply firstn_skipn. }
  destruct HI as [Ha Hs Hr Hq Hf Hb].
  assert (Hn : 1 <= n).
  { rewrite Forall_forall in Hr. apply (Hr (first, n)). rewrite Hsplit. apply in_app_iff. right. now left. }
  assert (P : Permutation (held st)
                (seq1 first n ++ flat_map fsecs (st_files st) ++ raw_secs (firstn i (st_raw st) ++ skipn (S i) (st_raw st)))).
  { unfold held. rewrite Hsplit at 1. rewrite !raw_secs_app. unfold raw_secs at 2. cbn [flat_map fst snd].
    fold (raw_secs (skipn (S i) (st_raw st))). apply perm_pull3. }
  assert (Hfirst : 1 <= first).
  { destruct Ha as (_ & _ & _ & Hrange & _). apply (Hrange first).
    eapply Permutation_in; [apply Permutation_sym; exact P|]. apply in_app_iff. left. apply in_seq1. lia. }
  unfold finish, commit. intros [= <- _ _].
  constructor; cbn [st_al st_files st_raw st_remf st_remb]; auto.
  - unfold held at 1. cbn [st_files st_raw]. destruct asl.
    + eapply free_list_ok; [exact Ha|]. rewrite nz_seq1 by lia. exact P.
    + eapply free_contig_ok; [exact Ha|exact Hn|exact P].
  - rewrite Hsplit in Hr. apply Forall_app in Hr as [H1 H2]. inversion H2; subst. apply Forall_app. split; auto.
Qed.

Lemma step_final st o st' x evs :
  Inv c st -> op_k o = KFinal -> step c st o = (st', x, evs) -> Inv c st'.
Proof.
  intros HI Hk. unfold step. rewrite Hk.
  destruct HI as [Ha Hs Hr Hq Hf Hb].
  destruct (alloc_all _ _ _ _) as [w1 runs] eqn:EA.
  unfold finish, commit. intros [= <- _ _].
  assert (Hmax : 1 <= Nat.max 1 (c_nsec c)) by lia.
  apply (alloc_all_al (c_nsec c) _ [] Hmax) in EA as (Ha1 & Hruns); auto.
  - constructor; cbn [st_al st_files st_raw st_remf st_remb]; auto.
    + apply free_runs_al; auto.
    + intros f Hin. cbn in Hin. repeat destruct Hin as [Hin|Hin]; try discriminate; contradiction.
    + rewrite nopen_filter. change (nopen [None; None; None; None; None]) with 0%N. lia.
    + rewrite qsizes_sizes by auto. change (sizes [None; None; None; None; None]) with 0%N. lia.
  - cbn [raw_secs flat_map app]. apply free_runs_al; auto. rewrite app_nil_r.
    apply close_all_al. exact Ha.
Qed.
End Step2.

(* ---- all histories ------------------------------------------------------------------ *)

Lemma step_inv c st o st' x evs : 0 < c_ss c -> Inv c st -> step c st o = (st', x, evs) -> Inv c st'.
Proof.
  intros Hss HI H. destruct (op_k o) eqn:Hk.
  - eapply step_new; eauto.
  - unfold step in H. rewrite Hk in H. destruct (get_file st slot); [destruct (file_read _ _ _ _ _)|]; injection H as <- _ _; exact HI.
  - eapply step_write; eauto.
  - eapply step_trunc; eauto.
  - unfold step in H. rewrite Hk in H. destruct (get_file st slot); [destruct (file_seek _ _ _ _ _)|]; injection H as <- _ _; exact HI.
  - eapply step_close; eauto.
  - eapply step_rawalloc; eauto.
  - eapply step_rawfree; eauto.
  - eapply step_final; eauto.
Qed.

Lemma nth_repeat_lt {A} (a d : A) n i : i < n -> nth i (repeat a n) d = a.
Proof. revert i. induction n; intros i H; [lia|]. destruct i; cbn; auto. apply IHn. lia. Qed.

Lemma init_inv c : Inv c (init c).
Proof.
  constructor; cbn [init st_al st_files st_raw st_remf st_remb]; auto.
  - unfold held. cbn [init st_files st_raw raw_secs flat_map]. change (flat_map fsecs (repeat None nslots) ++ []) with (@nil nat).
    unfold AInv. cbn [a_free a_panic]. splits; auto.
    + apply repeat_length.
    + constructor.
    + intros s [].
    + intros i Hi. rewrite nth_repeat_lt by lia. split; auto.
  - intros f Hin. cbn in Hin. repeat destruct Hin as [Hin|Hin]; try discriminate; contradiction.
  - change (nopen (repeat None nslots)) with 0%N. lia.
  - change (sizes (repeat None nslots)) with 0%N. lia.
Qed.

Theorem run_inv c ops : 0 < c_ss c -> forall st, Inv c st -> Inv c (run c st ops).
Proof.
  intros Hss. induction ops as [|o tl IH]; intros st HI; cbn [run]; auto.
  destruct (step c st o) as [[st' x] evs] eqn:E. apply IH. eapply step_inv; eauto.
Qed.
