(* ReadAt returns the file's contents. *)
From Coq Require Import Lia ZifyBool ZifyNat ZifyN Permutation.
From VF Require Import Pool.Model Pool.ProofsAlloc Pool.ProofsInv Pool.ProofsDev Pool.ProofsWrite Pool.ProofsContent.

Section R.
Variable ss : nat.
Hypothesis Hss : 0 < ss.

Definition reads_ok (dev : list N) (f : file) (pos : nat) (got : list N) : Prop :=
  forall k, k < length got -> nth k got 0%N = content ss dev f (pos + k).

(* position si*ss + o + k, decomposed *)
Lemma content_run dev f si o k :
  exists t r, o + k = t * ss + r /\ r < ss /\
    content ss dev f (si * ss + o + k) =
    let s := nth (si + t) (f_secs f) 0 in
    if s =? 0 then nth (si * ss + o + k) (f_hole f) 0%N else nth (pred s * ss + r) dev 0%N.
Proof.
  destruct (pos_decomp ss (o + k) Hss) as (Hd & Hr).
  exists ((o + k) / ss), ((o + k) mod ss). splits; auto.
  replace (si * ss + o + k) with ((si + (o + k) / ss) * ss + (o + k) mod ss) at 1 by nia.
  rewrite content_at by auto. cbn zeta.
  replace ((si + (o + k) / ss) * ss + (o + k) mod ss) with (si * ss + o + k) by nia. reflexivity.
Qed.

Lemma rfs_ok nsec oth w f n si ei o w' got e :
  AInv nsec (w_al w) (nz (f_secs f) ++ oth) -> length (w_dev w) = nsec * ss ->
  o < ss -> 1 <= n ->
  read_from_sectors ss w f n si ei o = (w', got, e) ->
  w_dev w' = w_dev w /\ w_al w' = w_al w /\ reads_ok (w_dev w) f (si * ss + o) got /\ length got <= n /\
  (e = ENone -> 1 <= length got /\ (length got < n -> (o + length got) mod ss = 0)) /\ e <> EEOF.
Proof.
  intros Ha Hlen Ho Hn. unfold read_from_sectors.
  assert (Hhole : forall m w1 got1 e1, 1 <= m <= n ->
    (forall k, k < m -> exists t, si * ss + o + k = (si + t) * ss + (o + k - t * ss) /\ o + k - t * ss < ss /\
                                  nth (si + t) (f_secs f) 0 = 0) ->
    read_hole ss w f m si o = (w1, got1, e1) ->
    w_dev w1 = w_dev w /\ w_al w1 = w_al w /\ reads_ok (w_dev w) f (si * ss + o) got1 /\ length got1 <= m /\
    (e1 = ENone -> length got1 = m) /\ e1 <> EEOF).
  { intros m w1 got1 e1 Hm Hz H. unfold read_hole in H.
    apply hole_read_spec in H as (k & -> & Hk & He & Hd & Hal & Hne). rewrite hole_bytes_length.
    splits; auto. intros k' Hk'. rewrite hole_bytes_length in Hk'. rewrite hole_bytes_nth by auto.
    destruct (Hz k' ltac:(lia)) as (t & Hj & Hr & Hs). rewrite Hj, content_at by auto. cbn zeta. rewrite Hs. cbn [Nat.eqb].
    reflexivity. }
  destruct (length (f_secs f) <=? si) eqn:El.
  - intros H. apply Hhole in H; [|lia|].
    + destruct H as (H1 & H2 & H3 & H4 & H5 & H6). splits; auto. intros He. rewrite (H5 He). split; [lia|lia].
    + intros k Hk. destruct (pos_decomp ss (o + k) Hss) as (Hd & Hr). exists ((o + k) / ss).
      splits; [nia|nia|]. apply nth_overflow. etransitivity; [|apply Nat.le_add_r]. now apply Nat.leb_le.
  - destruct (sectors_contiguous (f_secs f) si ei) as [sector c] eqn:ES.
    apply sectors_contiguous_spec in ES as (Hs & Hc1 & Hc2 & _ & Hz & Hd); [|lia].
    assert (Hcs : c * ss >= ss) by nia.
    assert (Hlim : 1 <= limit ss n c o <= n /\ limit ss n c o = Nat.min n (c * ss - o)) by (unfold limit; lia).
    destruct (sector =? 0) eqn:E0.
    + intros H. apply Hhole in H; [|lia|].
      * destruct H as (H1 & H2 & H3 & H4 & H5 & H6). splits; auto; try lia. intros He. rewrite (H5 He).
        split; [lia|]. intros Hlt. replace (o + limit ss n c o) with (c * ss) by lia. apply Nat.mod_mul. lia.
      * intros k Hk. destruct (pos_decomp ss (o + k) Hss) as (Hdd & Hr). exists ((o + k) / ss).
        assert ((o + k) / ss < c) by (apply Nat.div_lt_upper_bound; nia).
        splits; [nia|nia|]. apply Hz; lia.
    + intros H. apply dev_read_spec in H as (k & -> & Hk & He & Hdv & Hal & Hne).
      assert (Hrange : True) by exact I.
      splits; auto.
      * intros k' Hk'. unfold dev_get in Hk'. rewrite firstn_length in Hk'.
        rewrite dev_get_nth by lia.
        destruct (content_run (w_dev w) f si o k') as (t & r & Hdec & Hr & Hc). rewrite <- Nat.add_assoc in Hc. rewrite Nat.add_assoc in Hc.
        rewrite Hc. cbn zeta.
        assert (Ht : t < c) by nia.
        rewrite (Hd ltac:(lia) t Ht). replace (sector + t =? 0) with false by lia.
        f_equal. destruct sector; [lia|]. cbn [pred Nat.add]. nia.
      * unfold dev_get. rewrite firstn_length. lia.
      * intros Hee. specialize (He Hee). subst k.
        assert (Hsr : pred sector + c <= nsec).
        { destruct Ha as (_ & _ & _ & Hrg & _).
          assert (sector + (c - 1) <= nsec); [|lia]. apply (Hrg (sector + (c - 1))). apply in_app_iff. left.
          rewrite <- (Hd ltac:(lia) (c - 1)) by lia. apply in_nz_nth. rewrite Hd by lia. lia. }
        rewrite dev_get_length by (rewrite Hlen; nia).
        split; [lia|]. intros Hlt. replace (o + limit ss n c o) with (c * ss) by lia. apply Nat.mod_mul. lia.
Qed.

Lemma rloop_ok nsec oth f pos0 : forall fuel w rem si ei o acc w' got e,
  AInv nsec (w_al w) (nz (f_secs f) ++ oth) -> length (w_dev w) = nsec * ss ->
  o < ss -> 1 <= rem -> rem < fuel ->
  reads_ok (w_dev w) f pos0 acc -> pos0 + length acc = si * ss + o ->
  read_loop ss fuel w f rem si ei o acc = (w', got, e) ->
  w_dev w' = w_dev w /\ w_al w' = w_al w /\ reads_ok (w_dev w) f pos0 got /\
  length got <= length acc + rem /\ (e = ENone -> length got = length acc + rem) /\ e <> EEOF.
Proof.
  induction fuel as [|fuel IH]; intros w rem si ei o acc w' got e Ha Hlen Ho Hrem Hf Hacc Hpos; [lia|].
  cbn [read_loop].
  destruct (read_from_sectors ss w f rem si ei o) as [[w1 got1] e1] eqn:ER.
  apply (rfs_ok nsec oth) in ER as (Hd1 & Hal1 & Hr1 & Hl1 & Hok1 & Hne1); auto.
  assert (Hacc' : reads_ok (w_dev w) f pos0 (acc ++ got1)).
  { intros k Hk. rewrite app_length in Hk. destruct (Nat.lt_ge_cases k (length acc)).
    - rewrite app_nth1 by auto. now apply Hacc.
    - rewrite app_nth2 by auto. rewrite Hr1 by lia. f_equal. lia. }
  destruct e1; try (intros [= <- <- <-]; splits; auto; try discriminate; rewrite app_length; lia).
  destruct (Hok1 eq_refl) as (Hg1 & Hal).
  destruct (rem - length got1 =? 0) eqn:Erem.
  - intros [= <- <- <-]. splits; auto; rewrite app_length; lia.
  - assert (Hlt : length got1 < rem) by lia. rewrite (Hal Hlt). cbn [Nat.eqb].
    intros H. apply IH in H; auto; try lia.
    + destruct H as (H1 & H2 & H3 & H4 & H5 & H6). rewrite Hd1 in *. rewrite app_length in *.
      splits; auto; try congruence; try lia.
    + congruence.
    + congruence.
    + rewrite Hd1. exact Hacc'.
    + rewrite app_length. specialize (Hal Hlt). destruct (pos_decomp ss (o + length got1) Hss) as (Hdd & _).
      rewrite Hal in Hdd. nia.
Qed.

(* blockDeviceBackedFile.ReadAt: the bytes returned are the file's contents
   at [off, off + n); without failure n is everything that was asked for and
   exists. *)
Lemma file_read_ok nsec oth w f off len w' x :
  AInv nsec (w_al w) (nz (f_secs f) ++ oth) -> length (w_dev w) = nsec * ss ->
  file_read ss w f off len = (w', x) -> (0 <= off)%Z ->
  w_dev w' = w_dev w /\ w_al w' = w_al w /\
  exists n e got, x = ORes (Z.of_nat n) e got /\ n = length got /\
    reads_ok (w_dev w) f (Z.to_nat off) got /\
    n <= Nat.min len (N.to_nat (f_size f) - Z.to_nat off) /\
    ((e = ENone \/ e = EEOF) -> n = Nat.min len (N.to_nat (f_size f) - Z.to_nat off)).
Proof.
  intros Ha Hlen H Hoff. unfold file_read in H.
  replace (off <? 0)%Z with false in H by lia.
  destruct (len =? 0) eqn:El.
  { injection H as <- <-. splits; auto. exists 0, ENone, []. splits; auto; try lia. intros k Hk. cbn in Hk. lia. }
  destruct (f_size f <=? Z.to_N off)%N eqn:Es.
  { injection H as <- <-. splits; auto. exists 0, EEOF, []. splits; auto; try lia. intros k Hk. cbn in Hk. lia. }
  set (len' := if (f_size f <=? Z.to_N off + N.of_nat len)%N then N.to_nat (f_size f - Z.to_N off) else len) in *.
  set (succ := if (f_size f <=? Z.to_N off + N.of_nat len)%N then EEOF else ENone) in *.
  assert (Hl' : len' = Nat.min len (N.to_nat (f_size f) - Z.to_nat off) /\ 1 <= len').
  { unfold len'. destruct (f_size f <=? Z.to_N off + N.of_nat len)%N eqn:E; lia. }
  assert (Hs : succ = ENone \/ succ = EEOF) by (unfold succ; destruct (f_size f <=? Z.to_N off + N.of_nat len)%N; auto).
  replace (if (f_size f <=? Z.to_N off + N.of_nat len)%N then (EEOF, N.to_nat (f_size f - Z.to_N off)) else (ENone, len))
    with (succ, len') in H by (unfold succ, len'; destruct (f_size f <=? Z.to_N off + N.of_nat len)%N; reflexivity).
  destruct (read_loop _ _ _ _ _ _ _ _ _) as [[w1 got] e1] eqn:EL.
  destruct (sidx_soff ss Hss (Z.to_N off)) as (Hpos & Ho).
  apply (rloop_ok nsec oth f (Z.to_nat off)) in EL; auto; try lia.
  - destruct EL as (H1 & H2 & H3 & H4 & H5 & H6). cbn [length Nat.add] in *.
    injection H as <- <-. splits; auto.
    exists (length got), (match e1 with ENone => succ | _ => e1 end), got. splits; auto; try lia.
    intros He. destruct e1; try (destruct He; discriminate); try congruence. rewrite H5; auto. lia.
  - intros k Hk. cbn in Hk. lia.
  - cbn [length]. rewrite Z_N_nat in Hpos. lia.
Qed.
End R.
