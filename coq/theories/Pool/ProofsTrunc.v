(* Truncate, byte by byte, and the per-file invariant that makes shrinking
   and re-growing read as null bytes: beyond its size a file reads as null
   bytes (the tail of its last sector is zeroed, its hole source is not
   longer than the file), no sector lies wholly beyond the size, and the
   sector list has no trailing hole. *)
From Coq Require Import Lia ZifyBool ZifyNat ZifyN Permutation.
From VF Require Import Pool.Model Pool.ProofsAlloc Pool.ProofsInv Pool.ProofsDev Pool.ProofsWrite
  Pool.ProofsContent.

Definition I4 (secs : list nat) : Prop := forall m, length secs = S m -> nth m secs 0 <> 0.

Definition FWf (ss : nat) (dev : list N) (f : file) : Prop :=
  length (f_hole f) <= N.to_nat (f_size f) /\
  (forall j, N.to_nat (f_size f) <= j -> content ss dev f j = 0%N) /\
  length (f_secs f) * ss < N.to_nat (f_size f) + ss /\
  I4 (f_secs f).

(* ---- truncateSectors ------------------------------------------------------------ *)

Lemma nth_app_single (l : list nat) x i : nth i (l ++ [x]) 0 = if i =? length l then x else nth i l 0.
Proof.
  destruct (Nat.lt_ge_cases i (length l)).
  - rewrite app_nth1 by auto. replace (i =? length l) with false by lia. reflexivity.
  - rewrite app_nth2 by auto. destruct (i =? length l) eqn:E.
    + replace (i - length l) with 0 by lia. reflexivity.
    + rewrite (nth_overflow l) by lia. destruct (i - length l) as [|[|k]] eqn:E2; try lia; reflexivity.
Qed.

Lemma strip_nth r i : nth i (rev (strip_zeros_rev r)) 0 = nth i (rev r) 0.
Proof.
  induction r as [|x tl IH]; [reflexivity|]. destruct x as [|x]; [|reflexivity].
  cbn [strip_zeros_rev rev]. rewrite IH, nth_app_single. destruct (i =? length (rev tl)) eqn:E; [|reflexivity].
  apply nth_overflow. lia.
Qed.

Lemma strip_len r : length (strip_zeros_rev r) <= length r.
Proof. induction r as [|[|x] tl IH]; cbn [strip_zeros_rev length]; lia. Qed.

Lemma strip_I4 r : I4 (rev (strip_zeros_rev r)).
Proof.
  induction r as [|x tl IH]; [intros m H; discriminate|]. destruct x as [|x]; [exact IH|].
  cbn [strip_zeros_rev rev]. intros m Hm. rewrite app_length in Hm. cbn in Hm.
  rewrite nth_app_single. replace (m =? length (rev tl)) with true by lia. lia.
Qed.

Lemma truncate_sectors_spec w f cnt w' f' : truncate_sectors w f cnt = (w', f') ->
  w_dev w' = w_dev w /\ f_hole f' = f_hole f /\ f_size f' = f_size f /\ f_qsize f' = f_qsize f /\
  (forall i, nth i (f_secs f') 0 = if i <? cnt then nth i (f_secs f) 0 else 0) /\
  length (f_secs f') <= cnt /\ length (f_secs f') <= length (f_secs f) /\
  (I4 (f_secs f) -> I4 (f_secs f')).
Proof.
  unfold truncate_sectors. destruct (cnt <? length (f_secs f)) eqn:E; intros [= <- <-].
  - cbn [f_secs set_secs f_hole f_size f_qsize]. splits; auto.
    + unfold free_list. destruct (free_list_bits _ _ _). reflexivity.
    + intros i. rewrite strip_nth, rev_involutive. destruct (i <? cnt) eqn:Ei.
      * apply nth_firstn. lia.
      * apply nth_overflow. rewrite firstn_length. lia.
    + rewrite rev_length. etransitivity; [apply strip_len|]. rewrite rev_length, firstn_length. lia.
    + rewrite rev_length. etransitivity; [apply strip_len|]. rewrite rev_length, firstn_length. lia.
    + intros _. apply strip_I4.
  - splits; auto; try lia. intros i. destruct (i <? cnt) eqn:Ei; [reflexivity|]. apply nth_overflow. lia.
Qed.

(* ---- Truncate -------------------------------------------------------------------------- *)

Section T.
Variable ss nsec : nat.
Hypothesis Hss : 0 < ss.

Lemma trunc_zero w f si o zl w1 k e1 oth :
  AInv nsec (w_al w) (nz (f_secs f) ++ oth) -> length (w_dev w) = nsec * ss ->
  o < ss -> zl <= ss - o -> nth si (f_secs f) 0 <> 0 ->
  dev_write w ss (pred (nth si (f_secs f) 0)) o (repeat 0%N zl) = (w1, k, e1) ->
  k <= zl /\ (e1 = ENone -> k = zl) /\
  forall j, content ss (w_dev w1) f j =
    if (si * ss + o <=? j) && (j <? si * ss + o + k) then 0%N else content ss (w_dev w) f j.
Proof.
  intros Ha Hlen Ho Hzl Hs ED. apply dev_write_spec in ED as (Hk & He & Hd & _). rewrite repeat_length in *.
  splits; auto. pose proof Ha as (_ & _ & Hnd & Hrg & _).
  assert (Hin : In (nth si (f_secs f) 0) (nz (f_secs f))) by now apply in_nz_nth.
  assert (Hr : 1 <= nth si (f_secs f) 0 <= nsec) by (apply Hrg, in_app_iff; auto).
  destruct (overwrite_updated ss Hss (w_dev w) f si o 1 (nth si (f_secs f) 0) (firstn k (repeat 0%N zl)) oth)
    as (_ & _ & U); auto; try lia.
  - intros t Ht. replace t with 0 by lia. now rewrite !Nat.add_0_r.
  - intros s Hs'. apply (Hrg s), in_app_iff. auto.
  - rewrite firstn_length, repeat_length. lia.
  - rewrite Hlen. destruct (nth si (f_secs f) 0); [lia|]. cbn [pred]. nia.
  - rewrite firstn_length, repeat_length in U. replace (Nat.min k zl) with k in U by lia.
    intros j. rewrite Hd, U. destruct ((si * ss + o <=? j) && (j <? si * ss + o + k)) eqn:E; [|reflexivity].
    rewrite nth_firstn by lia. apply nth_repeat_lt. lia.
Qed.

(* everything Truncate does, in one statement *)
Lemma file_truncate_summary w f size w' f' e oth :
  AInv nsec (w_al w) (nz (f_secs f) ++ oth) -> length (w_dev w) = nsec * ss -> (0 <= size)%Z ->
  file_truncate ss w f size = (w', f', e) ->
  let sz := Z.to_nat size in
  let fs := N.to_nat (f_size f) in
  let cnt := (sz + ss - 1) / ss in
  exists k trunc,
    k <= fs - sz /\
    (forall j, content ss (w_dev w') f j = if (sz <=? j) && (j <? sz + k) then 0%N else content ss (w_dev w) f j) /\
    (if trunc : bool then
       (forall i, nth i (f_secs f') 0 = if i <? cnt then nth i (f_secs f) 0 else 0) /\
       length (f_secs f') <= cnt /\ length (f_secs f') <= length (f_secs f) /\ (I4 (f_secs f) -> I4 (f_secs f'))
     else f_secs f' = f_secs f /\ e <> ENone) /\
    (e = ENone -> trunc = true /\ f_size f' = Z.to_N size /\
       f_hole f' = (if sz <? fs then firstn sz (f_hole f) else f_hole f) /\
       (sz < fs -> nth (sz / ss) (f_secs f) 0 <> 0 -> sz + k = Nat.min (cnt * ss) fs)) /\
    (e <> ENone -> sz < fs /\ f_size f' = f_size f /\ f_hole f' = f_hole f).
Proof.
  intros Ha Hlen Hsz H sz fs cnt. unfold file_truncate in H. replace (size <? 0)%Z with false in H by lia.
  set (szn := Z.to_N size) in *. destruct (sidx_soff ss Hss szn) as (Hpos & Ho).
  set (si := sidx ss szn) in *. set (o := soff ss szn) in *.
  assert (Hszn : N.to_nat szn = sz) by (unfold szn, sz; lia).
  assert (Hcnt : cnt = if o =? 0 then si else S si).
  { unfold cnt. change ((sz + ss - 1) / ss) with (cdivn sz ss). rewrite <- Hszn, <- Hpos. apply cdivn_spec; auto. }
  assert (Hsi : sz / ss = si).
  { rewrite <- Hszn, <- Hpos. apply (div_mod_pos ss si o); auto. }
  (* after the sectors were dropped *)
  assert (Htail : forall w1 f1 (w2 : world) (f2 : file) (e2 : errk),
    (if (szn <? f_size f1)%N then
        let '(w, ok) := hole_call w1 HTrunc szn in
        if ok then (w, set_size (set_hole f1 (firstn (N.to_nat szn) (f_hole f1))) szn, ENone)
        else (w, f1, EInjected)
      else (w1, set_size f1 szn, ENone)) = (w2, f2, e2) ->
    w_dev w2 = w_dev w1 /\ f_secs f2 = f_secs f1 /\
    (e2 = ENone -> f_size f2 = szn /\
       f_hole f2 = (if sz <? N.to_nat (f_size f1) then firstn sz (f_hole f1) else f_hole f1)) /\
    (e2 <> ENone -> sz < N.to_nat (f_size f1) /\ f_size f2 = f_size f1 /\ f_hole f2 = f_hole f1)).
  { intros w1 f1 w2 f2 e2 HT. destruct (szn <? f_size f1)%N eqn:E.
    - destruct (hole_call w1 HTrunc szn) as [w3 ok] eqn:EH. apply hole_call_dev in EH as (EH & _).
      destruct ok; injection HT as <- <- <-; cbn [f_secs f_size f_hole set_size set_hole]; splits; auto;
        try congruence; try (intros; exfalso; congruence); intros _.
      + split; auto. replace (sz <? N.to_nat (f_size f1)) with true by lia. now rewrite Hszn.
      + splits; auto. lia.
    - injection HT as <- <- <-. cbn [f_secs f_size f_hole set_size]. splits; auto; try congruence.
      intros _. split; auto. replace (sz <? N.to_nat (f_size f1)) with false by lia. reflexivity. }
  (* truncateSectors followed by the tail, on a device that already has its final contents *)
  assert (Hdrop : forall w1 (w2 : world) (f2 : file) (e2 : errk) k,
    (let '(w, f, e) := let '(w, f) := truncate_sectors w1 f cnt in (w, f, ENone) in
     match e with
     | ENone =>
       if (szn <? f_size f)%N then
         let '(w, ok) := hole_call w HTrunc szn in
         if ok then (w, set_size (set_hole f (firstn (N.to_nat szn) (f_hole f))) szn, ENone)
         else (w, f, EInjected)
       else (w, set_size f szn, ENone)
     | _ => (w, f, e)
     end) = (w2, f2, e2) ->
    k <= fs - sz ->
    (forall j, content ss (w_dev w1) f j = if (sz <=? j) && (j <? sz + k) then 0%N else content ss (w_dev w) f j) ->
    (sz < fs -> nth (sz / ss) (f_secs f) 0 <> 0 -> sz + k = Nat.min (cnt * ss) fs) ->
    exists k trunc,
    k <= fs - sz /\
    (forall j, content ss (w_dev w2) f j = if (sz <=? j) && (j <? sz + k) then 0%N else content ss (w_dev w) f j) /\
    (if trunc : bool then
       (forall i, nth i (f_secs f2) 0 = if i <? cnt then nth i (f_secs f) 0 else 0) /\
       length (f_secs f2) <= cnt /\ length (f_secs f2) <= length (f_secs f) /\ (I4 (f_secs f) -> I4 (f_secs f2))
     else f_secs f2 = f_secs f /\ e2 <> ENone) /\
    (e2 = ENone -> trunc = true /\ f_size f2 = Z.to_N size /\
       f_hole f2 = (if sz <? fs then firstn sz (f_hole f) else f_hole f) /\
       (sz < fs -> nth (sz / ss) (f_secs f) 0 <> 0 -> sz + k = Nat.min (cnt * ss) fs)) /\
    (e2 <> ENone -> sz < fs /\ f_size f2 = f_size f /\ f_hole f2 = f_hole f)).
  { intros w1 w2 f2 e2 k HT Hk Hc Hfull.
    destruct (truncate_sectors w1 f cnt) as [w3 f3] eqn:ET.
    apply truncate_sectors_spec in ET as (Hd3 & Hh3 & Hs3 & _ & Hn3 & Hl3 & Hl3' & HI3).
    cbv beta iota in HT. apply Htail in HT as (Hd2 & Hsec2 & Hok & Hfail).
    exists k, true. rewrite Hd2, Hd3, Hsec2. splits; auto.
    - intros He. destruct (Hok He) as (H1 & H2). splits; auto. rewrite H2, Hs3, Hh3. reflexivity.
    - intros He. destruct (Hfail He) as (H1 & H2 & H3). rewrite Hs3 in *. rewrite Hh3 in H3. auto. }
  destruct (o =? 0) eqn:Eo.
  - rewrite <- Hcnt in H. eapply (Hdrop w w' f' e 0); [exact H|lia| |].
    + intros j. replace ((sz <=? j) && (j <? sz + 0)) with false by lia. reflexivity.
    + intros Hlt _. rewrite Hcnt. assert (si * ss = sz) by lia. lia.
  - destruct ((szn <? f_size f)%N && (si <? length (f_secs f)) && negb (nth si (f_secs f) 0 =? 0)) eqn:Ec.
    + destruct (dev_write w ss (pred (nth si (f_secs f) 0)) o _) as [[w1 k] e1] eqn:ED.
      set (zl := Nat.min (ss - o) (N.to_nat (N.min (f_size f - szn) (N.of_nat ss)))) in *.
      apply (trunc_zero _ _ _ _ _ _ _ _ oth) in ED as (Hk & Hfull & Hc); auto; try lia.
      rewrite Hpos, Hszn in Hc. cbv beta iota in H.
      assert (Hzl : zl <= fs - sz) by (unfold zl, fs; lia).
      destruct e1.
      * rewrite <- Hcnt in H. eapply (Hdrop w1 w' f' e k); [exact H|lia|exact Hc|].
        intros Hlt _. rewrite (Hfull eq_refl), Hcnt. unfold zl, fs. lia.
      * injection H as <- <- <-. exists k, false. splits; auto; try lia; try discriminate. intros _. splits; auto. unfold fs. lia.
      * injection H as <- <- <-. exists k, false. splits; auto; try lia; try discriminate. intros _. splits; auto. unfold fs. lia.
      * injection H as <- <- <-. exists k, false. splits; auto; try lia; try discriminate. intros _. splits; auto. unfold fs. lia.
      * injection H as <- <- <-. exists k, false. splits; auto; try lia; try discriminate. intros _. splits; auto. unfold fs. lia.
      * injection H as <- <- <-. exists k, false. splits; auto; try lia; try discriminate. intros _. splits; auto. unfold fs. lia.
    + cbv beta iota in H. rewrite <- Hcnt in H. eapply (Hdrop w w' f' e 0); [exact H|lia| |].
      * intros j. replace ((sz <=? j) && (j <? sz + 0)) with false by lia. reflexivity.
      * intros Hlt Hn. exfalso. rewrite Hsi in Hn.
        assert (si < length (f_secs f)).
        { destruct (Nat.lt_ge_cases si (length (f_secs f))); auto. rewrite nth_overflow in Hn by lia. congruence. }
        lia.
Qed.


Lemma cdivn_bounds a : a <= cdivn a ss * ss /\ cdivn a ss * ss < a + ss /\ cdivn a ss <= a / ss + 1.
Proof.
  destruct (cdivn_decomp ss Hss a) as (q & r & -> & Hr & Hq & _). rewrite <- Hq.
  rewrite cdivn_spec by auto. destruct (r =? 0) eqn:E0; nia.
Qed.

Lemma div_lt_cdivn j a : j < a -> j / ss < cdivn a ss.
Proof.
  intros H. apply Nat.div_lt_upper_bound; [lia|]. destruct (cdivn_bounds a) as (H1 & _). nia.
Qed.

Lemma content_same_sector dev f f' j :
  nth (j / ss) (f_secs f') 0 = nth (j / ss) (f_secs f) 0 ->
  (nth (j / ss) (f_secs f) 0 = 0 -> nth j (f_hole f') 0%N = nth j (f_hole f) 0%N) ->
  content ss dev f' j = content ss dev f j.
Proof.
  intros Hs Hh. unfold content. rewrite Hs. destruct (nth (j / ss) (f_secs f) 0 =? 0) eqn:E; [|reflexivity].
  apply Hh. lia.
Qed.

Lemma content_hole dev f j : nth (j / ss) (f_secs f) 0 = 0 -> content ss dev f j = nth j (f_hole f) 0%N.
Proof. intros H. unfold content. rewrite H. reflexivity. Qed.

(* what Truncate guarantees about bytes, on top of the per-file invariant *)
Lemma file_truncate_wf w f size w' f' e oth :
  AInv nsec (w_al w) (nz (f_secs f) ++ oth) -> length (w_dev w) = nsec * ss -> (0 <= size)%Z ->
  file_truncate ss w f size = (w', f', e) ->
  FWf ss (w_dev w) f ->
  let sz := Z.to_nat size in
  FWf ss (w_dev w') f' /\
  (forall j, j < sz -> content ss (w_dev w') f' j = content ss (w_dev w) f j) /\
  (forall j, j < sz -> nth (j / ss) (f_secs f') 0 = nth (j / ss) (f_secs f) 0) /\
  (forall j, j < sz -> j < length (f_hole f) -> j < length (f_hole f')) /\
  (e = ENone -> f_size f' = Z.to_N size) /\
  (e <> ENone -> sz < N.to_nat (f_size f) /\ f_size f' = f_size f).
Proof.
  intros Ha Hlen Hsz H (I1 & I2 & I3 & I4f) sz.
  destruct (file_truncate_summary _ _ _ _ _ _ _ Ha Hlen Hsz H) as (k & trunc & Hk & Hc & Htr & Hok & Hfail).
  fold sz in Hk, Hc, Htr, Hok, Hfail.
  set (fs := N.to_nat (f_size f)) in *. set (cnt := (sz + ss - 1) / ss) in *.
  change ((sz + ss - 1) / ss) with (cdivn sz ss) in cnt.
  destruct (cdivn_bounds sz) as (Hb1 & Hb2 & Hb3). fold cnt in Hb1, Hb2, Hb3.
  (* sectors and hole source below the new size *)
  assert (Hsecs : forall j, j < sz -> nth (j / ss) (f_secs f') 0 = nth (j / ss) (f_secs f) 0).
  { intros j Hj. destruct trunc.
    - destruct Htr as (Hn & _). rewrite Hn. pose proof (div_lt_cdivn j sz Hj). fold cnt in H0.
      replace (j / ss <? cnt) with true by lia. reflexivity.
    - destruct Htr as (-> & _). reflexivity. }
  assert (Hhole : f_hole f' = f_hole f \/ f_hole f' = firstn sz (f_hole f)).
  { destruct e; try (left; apply Hfail; discriminate).
    destruct (Hok eq_refl) as (_ & _ & Hh & _). destruct (sz <? fs); auto. }
  assert (Hhb : forall j, j < sz -> nth j (f_hole f') 0%N = nth j (f_hole f) 0%N).
  { intros j Hj. destruct Hhole as [-> | ->]; [reflexivity|]. now apply nth_firstn. }
  assert (Hbelow : forall j, j < sz -> content ss (w_dev w') f' j = content ss (w_dev w) f j).
  { intros j Hj. rewrite (content_same_sector (w_dev w') f f' j); auto.
    rewrite Hc. replace ((sz <=? j) && (j <? sz + k)) with false by lia. reflexivity. }
  assert (Hsize : (e = ENone -> f_size f' = Z.to_N size) /\ (e <> ENone -> sz < fs /\ f_size f' = f_size f)).
  { split; intros He; [apply (Hok He)|]. destruct (Hfail He) as (H1 & H2 & _). auto. }
  split; [|splits; auto; try apply Hsize].
  2:{ intros j Hj Hjh. destruct Hhole as [-> | ->]; auto. rewrite firstn_length. lia. }
  (* the invariant *)
  assert (Hz : forall j, nth (j / ss) (f_secs f') 0 = 0 \/
                         (nth (j / ss) (f_secs f') 0 = nth (j / ss) (f_secs f) 0 /\ (trunc = true -> j / ss < cnt))).
  { intros j. destruct trunc.
    - destruct Htr as (Hn & _). rewrite Hn. destruct (j / ss <? cnt) eqn:E; [right; split; auto; intros; lia|now left].
    - destruct Htr as (-> & _). right. split; auto. discriminate. }
  assert (Hnew : forall j, nth (j / ss) (f_secs f') 0 <> 0 -> content ss (w_dev w') f' j = content ss (w_dev w') f j).
  { intros j Hn. destruct (Hz j) as [H0|(H0 & _)]; [congruence|]. apply content_same_sector; auto.
    intros H1. congruence. }
  destruct e.
  - (* success *)
    destruct (Hok eq_refl) as (-> & Hs' & Hh' & Hfull). unfold FWf. rewrite Hs'.
    replace (N.to_nat (Z.to_N size)) with sz by (unfold sz; lia).
    destruct Htr as (Hn & Hl1 & Hl2 & HI4).
    assert (Hhz : forall j, sz <= j -> nth j (f_hole f') 0%N = 0%N).
    { intros j Hj. apply nth_overflow. rewrite Hh'. destruct (sz <? fs) eqn:E; [rewrite firstn_length|]; lia. }
    splits; auto.
    + rewrite Hh'. destruct (sz <? fs) eqn:E; [rewrite firstn_length|]; lia.
    + intros j Hj. destruct (Nat.eq_dec (nth (j / ss) (f_secs f') 0) 0) as [H0|H0].
      * rewrite content_hole by auto. auto.
      * rewrite (Hnew j H0), Hc. destruct ((sz <=? j) && (j <? sz + k)) eqn:E; [reflexivity|].
        apply I2. fold fs. destruct (Hz j) as [H1|(H1 & H2)]; [congruence|]. specialize (H2 eq_refl).
        destruct (Nat.lt_ge_cases sz fs) as [Hlt|]; [|lia].
        assert (Hjs : j / ss = sz / ss).
        { assert (sz / ss <= j / ss) by (apply Nat.div_le_mono; lia). lia. }
        rewrite Hfull in E; auto; [|rewrite <- Hjs, <- H1; exact H0].
        assert (j < cnt * ss).
        { destruct (pos_decomp ss j Hss) as (Hd & Hr). nia. }
        lia.
    + nia.
  - destruct (Hfail ltac:(discriminate)) as (Hlt & Hs' & Hh'); unfold FWf; rewrite Hs', Hh'; fold fs.
    assert (Hl : length (f_secs f') <= length (f_secs f)) by (destruct trunc; [apply Htr|destruct Htr as (-> & _); lia]).
    assert (HI : I4 (f_secs f')) by (destruct trunc; [apply Htr; auto|destruct Htr as (-> & _); auto]).
    splits; auto; [|nia].
    intros j Hj. destruct (Nat.eq_dec (nth (j / ss) (f_secs f') 0) 0) as [H0|H0].
    + rewrite content_hole, Hh' by auto. apply nth_overflow. lia.
    + rewrite (Hnew j H0), Hc. replace ((sz <=? j) && (j <? sz + k)) with false by lia. now apply I2.
  - destruct (Hfail ltac:(discriminate)) as (Hlt & Hs' & Hh'); unfold FWf; rewrite Hs', Hh'; fold fs.
    assert (Hl : length (f_secs f') <= length (f_secs f)) by (destruct trunc; [apply Htr|destruct Htr as (-> & _); lia]).
    assert (HI : I4 (f_secs f')) by (destruct trunc; [apply Htr; auto|destruct Htr as (-> & _); auto]).
    splits; auto; [|nia].
    intros j Hj. destruct (Nat.eq_dec (nth (j / ss) (f_secs f') 0) 0) as [H0|H0].
    + rewrite content_hole, Hh' by auto. apply nth_overflow. lia.
    + rewrite (Hnew j H0), Hc. replace ((sz <=? j) && (j <? sz + k)) with false by lia. now apply I2.
  - destruct (Hfail ltac:(discriminate)) as (Hlt & Hs' & Hh'); unfold FWf; rewrite Hs', Hh'; fold fs.
    assert (Hl : length (f_secs f') <= length (f_secs f)) by (destruct trunc; [apply Htr|destruct Htr as (-> & _); lia]).
    assert (HI : I4 (f_secs f')) by (destruct trunc; [apply Htr; auto|destruct Htr as (-> & _); auto]).
    splits; auto; [|nia].
    intros j Hj. destruct (Nat.eq_dec (nth (j / ss) (f_secs f') 0) 0) as [H0|H0].
    + rewrite content_hole, Hh' by auto. apply nth_overflow. lia.
    + rewrite (Hnew j H0), Hc. replace ((sz <=? j) && (j <? sz + k)) with false by lia. now apply I2.
  - destruct (Hfail ltac:(discriminate)) as (Hlt & Hs' & Hh'); unfold FWf; rewrite Hs', Hh'; fold fs.
    assert (Hl : length (f_secs f') <= length (f_secs f)) by (destruct trunc; [apply Htr|destruct Htr as (-> & _); lia]).
    assert (HI : I4 (f_secs f')) by (destruct trunc; [apply Htr; auto|destruct Htr as (-> & _); auto]).
    splits; auto; [|nia].
    intros j Hj. destruct (Nat.eq_dec (nth (j / ss) (f_secs f') 0) 0) as [H0|H0].
    + rewrite content_hole, Hh' by auto. apply nth_overflow. lia.
    + rewrite (Hnew j H0), Hc. replace ((sz <=? j) && (j <? sz + k)) with false by lia. now apply I2.
  - destruct (Hfail ltac:(discriminate)) as (Hlt & Hs' & Hh'); unfold FWf; rewrite Hs', Hh'; fold fs.
    assert (Hl : length (f_secs f') <= length (f_secs f)) by (destruct trunc; [apply Htr|destruct Htr as (-> & _); lia]).
    assert (HI : I4 (f_secs f')) by (destruct trunc; [apply Htr; auto|destruct Htr as (-> & _); auto]).
    splits; auto; [|nia].
    intros j Hj. destruct (Nat.eq_dec (nth (j / ss) (f_secs f') 0) 0) as [H0|H0].
    + rewrite content_hole, Hh' by auto. apply nth_overflow. lia.
    + rewrite (Hnew j H0), Hc. replace ((sz <=? j) && (j <? sz + k)) with false by lia. now apply I2.
Qed.

End T.

(* ---- WriteAt and the sector list ---------------------------------------------------------- *)

Section W2.
Variable ss nsec : nat.
Hypothesis Hss : 0 < ss.

Definition SecsW (f f' : file) (pos n : nat) : Prop :=
  (forall i, nth i (f_secs f) 0 <> 0 -> nth i (f_secs f') 0 = nth i (f_secs f) 0) /\
  (forall j, pos <= j < pos + n -> nth (j / ss) (f_secs f') 0 <> 0) /\
  (length (f_secs f') = length (f_secs f) \/ 1 <= n /\ length (f_secs f') * ss < pos + n + ss) /\
  (I4 (f_secs f) -> I4 (f_secs f')).

Lemma SecsW_same f pos n : (forall j, pos <= j < pos + n -> nth (j / ss) (f_secs f) 0 <> 0) -> SecsW f f pos n.
Proof. intros H. unfold SecsW. splits; auto. Qed.

Lemma SecsW_trans f f1 f2 pos n m : SecsW f f1 pos n -> SecsW f1 f2 (pos + n) m -> SecsW f f2 pos (n + m).
Proof.
  intros (A1 & A2 & A3 & A4) (B1 & B2 & B3 & B4). unfold SecsW. splits; auto.
  - intros i Hi. rewrite B1, A1; auto. rewrite A1; auto.
  - intros j Hj. destruct (Nat.lt_ge_cases j (pos + n)).
    + rewrite B1; apply A2; lia.
    + apply B2. lia.
  - destruct B3 as [B3|B3]; [rewrite B3; destruct A3; [auto|right; lia]|right; lia].
Qed.

Lemma div_range j si cnt : si * ss <= j < (si + cnt) * ss -> si <= j / ss < si + cnt.
Proof.
  intros H. split; [apply Nat.div_le_lower_bound; lia|apply Nat.div_lt_upper_bound; lia].
Qed.

Lemma wts_secs w f p si ei o w' f' n e oth :
  AInv nsec (w_al w) (nz (f_secs f) ++ oth) -> o < ss -> p <> [] ->
  write_to_sectors ss w f p si ei o = (w', f', n, e) -> SecsW f f' (si * ss + o) n.
Proof.
  intros Ha Ho Hp. unfold write_to_sectors.
  assert (Hlp : 1 <= length p) by (destruct p; [congruence|cbn; lia]).
  assert (Hnone : SecsW f f (si * ss + o) 0) by (apply SecsW_same; intros j Hj; lia).
  (* a freshly inserted run *)
  assert (Hins : forall secs0 secs' first cnt n1 lenp,
    1 <= first -> 1 <= cnt <= cdivn (o + lenp) ss -> n1 = Nat.min lenp (cnt * ss - o) -> 1 <= lenp ->
    length secs' = length secs0 ->
    (forall j, nth j secs' 0 = if (si <=? j) && (j <? si + cnt) then first + (j - si) else nth j secs0 0) ->
    (forall j, nth j secs0 0 = nth j (f_secs f) 0) ->
    (forall j, si <= j < si + cnt -> nth j (f_secs f) 0 = 0) ->
    (length secs0 = length (f_secs f) /\ si + cnt <= length secs0 \/ length secs0 = si + cnt) ->
    SecsW f (set_secs f secs') (si * ss + o) n1).
  { intros secs0 secs' first cnt n1 lenp Hf Hcnt Hn1 Hlen Hl' Hnth H0 Hz Hlen0.
    assert (Hcs : cnt * ss >= ss) by nia.
    pose proof (wns_T ss Hss o lenp cnt n1 Ho Hcnt Hn1) as HT.
    destruct (cdivn_bounds ss Hss (o + n1)) as (_ & Hb & _). rewrite HT in Hb.
    unfold SecsW. cbn [f_secs set_secs]. splits.
    - intros i Hi. rewrite Hnth. destruct ((si <=? i) && (i <? si + cnt)) eqn:E; [|apply H0].
      exfalso. apply Hi. apply Hz. lia.
    - intros j Hj. rewrite Hnth. pose proof (div_range j si cnt ltac:(nia)) as Hd.
      replace ((si <=? j / ss) && (j / ss <? si + cnt)) with true by lia. lia.
    - rewrite Hl'. destruct Hlen0 as [(H1 & _)|H1]; [now left|right]. rewrite H1. split; nia.
    - intros HI m Hm. rewrite Hnth. destruct ((si <=? m) && (m <? si + cnt)) eqn:E; [lia|].
      rewrite H0. rewrite Hl' in Hm. destruct Hlen0 as [(H1 & _)|H1]; [apply HI; lia|lia]. }
  destruct (length (f_secs f) <=? si) eqn:Hlen.
  - destruct (write_to_new_sectors ss w f p si o) as [[w1 r] e1] eqn:EW.
    apply (wns_al _ _ _ _ _ _ _ _ _ _ _ Ha Hss Hp) in EW.
    destruct r as [[[n1 first] cnt]|]; [|intros [= <- <- <- <-]; exact Hnone].
    destruct EW as (Ha1 & Hcnt & Hn1 & ->).
    assert (Hfirst : 1 <= first).
    { destruct Ha1 as (_ & _ & _ & Hr & _). apply (Hr first). apply in_app_iff. left. apply in_seq1. lia. }
    destruct (insert_sectors_ok (f_secs f ++ repeat 0 (si + cnt - length (f_secs f))) si first cnt Hfirst)
      as (secs' & EI & Hl' & _ & Hnth).
    { rewrite app_length, repeat_length. lia. }
    { intros j Hj. apply nth_app_repeat0. lia. }
    rewrite EI. intros [= <- <- <- <-].
    eapply (Hins _ secs' first cnt n1 (length p)); eauto.
    + intros j. destruct (Nat.lt_ge_cases j (length (f_secs f))).
      * now rewrite app_nth1.
      * rewrite nth_app_repeat0 by lia. symmetry. apply nth_overflow. lia.
    + intros j Hj. apply nth_overflow. lia.
    + right. rewrite app_length, repeat_length. lia.
  - destruct (sectors_contiguous (f_secs f) si ei) as [sector c] eqn:ES.
    apply sectors_contiguous_spec in ES as (Hs & Hc1 & Hc2 & _ & Hz & Hd); [|lia].
    assert (Hcs : c * ss >= ss) by nia.
    assert (Hlim : 1 <= limit ss (length p) c o) by (unfold limit; lia).
    assert (Hp' : firstn (limit ss (length p) c o) p <> []).
    { intros E. apply (f_equal (@length _)) in E. rewrite firstn_length in E. cbn in E. lia. }
    assert (Hlp' : length (firstn (limit ss (length p) c o) p) = limit ss (length p) c o).
    { rewrite firstn_length. unfold limit. lia. }
    destruct (sector =? 0) eqn:E0.
    + destruct (write_to_new_sectors ss w f _ si o) as [[w1 r] e1] eqn:EW.
      apply (wns_al _ _ _ _ _ _ _ _ _ _ _ Ha Hss Hp') in EW.
      destruct r as [[[n1 first] cnt]|]; [|intros [= <- <- <- <-]; exact Hnone].
      destruct EW as (Ha1 & Hcnt & Hn1 & ->).
      assert (Hfirst : 1 <= first).
      { destruct Ha1 as (_ & _ & _ & Hr & _). apply (Hr first). apply in_app_iff. left. apply in_seq1. lia. }
      assert (Hcc : cnt <= c).
      { etransitivity; [apply Hcnt|]. apply div_up_le; [lia|]. rewrite Hlp'. unfold limit. nia. }
      assert (Hzz : forall j, si <= j < si + cnt -> nth j (f_secs f) 0 = 0).
      { intros j Hj. replace j with (si + (j - si)) by lia. apply Hz; lia. }
      destruct (insert_sectors_ok (f_secs f) si first cnt Hfirst) as (secs' & EI & Hl' & _ & Hnth); [lia|exact Hzz|].
      rewrite EI. intros [= <- <- <- <-].
      eapply (Hins (f_secs f) secs' first cnt n1 _ Hfirst Hcnt Hn1); eauto; try lia.
    + destruct (dev_write w ss (pred sector) o _) as [[w1 n1] e1] eqn:ED.
      apply dev_write_al in ED as (_ & Hn1 & _ & _). rewrite Hlp' in Hn1.
      intros [= <- <- <- <-]. apply SecsW_same. intros j Hj. unfold limit in Hn1.
      pose proof (div_range j si c ltac:(nia)) as Hdr.
      replace (j / ss) with (si + (j / ss - si)) by lia. rewrite Hd by lia. lia.
Qed.

Lemma wloop_secs oth : forall fuel w f p si ei o total w' f' t' e,
  AInv nsec (w_al w) (nz (f_secs f) ++ oth) -> o < ss -> p <> [] -> length p < fuel ->
  write_loop ss fuel w f p si ei o total = (w', f', t', e) ->
  total <= t' /\ SecsW f f' (si * ss + o) (t' - total).
Proof.
  induction fuel as [|fuel IH]; intros w f p si ei o total w' f' t' e Ha Ho Hp Hf; [lia|].
  cbn [write_loop].
  destruct (write_to_sectors ss w f p si ei o) as [[[w1 f1] n] e1] eqn:EW.
  pose proof (wts_secs _ _ _ _ _ _ _ _ _ _ _ Ha Ho Hp EW) as S1.
  apply (wts_al _ _ _ _ _ _ _ _ _ _ _ _ _ Ha Hss Ho Hp) in EW as (Ha1 & Hn & Hs & Hh & Hq & Hok).
  destruct (skipn n p) as [|x tl] eqn:ES.
  - intros [= <- <- <- <-]. split; [lia|]. now replace (total + n - total) with n by lia.
  - destruct e1; try (intros [= <- <- <- <-]; split; [lia|]; now replace (total + n - total) with n by lia).
    destruct (Hok eq_refl) as (Hn1 & Hal). pose proof (skipn_nonempty _ _ _ _ ES) as (Hlt & Hlen').
    rewrite (Hal Hlt). cbn [Nat.eqb].
    intros H. rewrite <- ES in H.
    assert (Hpos : (si + (o + n) / ss) * ss + 0 = si * ss + o + n).
    { specialize (Hal Hlt). destruct (pos_decomp ss (o + n) Hss) as (Hd & _). rewrite Hal in Hd. nia. }
    apply IH in H; auto; try lia.
    + destruct H as (Ht & S2). split; [lia|]. rewrite Hpos in S2.
      replace (t' - total) with (n + (t' - (total + n))) by lia. eapply SecsW_trans; eauto.
    + rewrite ES. discriminate.
    + rewrite ES, Hlen'. clear - Hf Hn1 Hlt. lia.
Qed.

Lemma file_write_secs w f off p w' f' n e oth :
  AInv nsec (w_al w) (nz (f_secs f) ++ oth) -> (0 <= off)%Z ->
  file_write ss w f off p = (w', f', n, e) -> SecsW f f' (Z.to_nat off) n.
Proof.
  intros Ha Hoff H. unfold file_write in H. replace (off <? 0)%Z with false in H by lia.
  destruct (length p =? 0) eqn:El.
  { injection H as <- <- <- <-. apply SecsW_same. intros j Hj. lia. }
  destruct (write_loop _ _ _ _ _ _ _ _ _) as [[[w1 f1] t] e1] eqn:EL.
  destruct (sidx_soff ss Hss (Z.to_N off)) as (Hpos & Ho).
  assert (Hp : p <> []) by (destruct p; [discriminate|congruence]).
  apply (wloop_secs oth) in EL as (_ & S1); auto.
  injection H as <- <- <- <-. rewrite Hpos, Nat.sub_0_r, Z_N_nat in S1.
  destruct ((0 <? t) && (f_size f1 <? Z.to_N off + N.of_nat t)%N); exact S1.
Qed.

(* WriteAt keeps the per-file invariant *)
Lemma file_write_wf w f off p w' f' n e oth :
  AInv nsec (w_al w) (nz (f_secs f) ++ oth) -> length (w_dev w) = nsec * ss -> (0 <= off)%Z ->
  file_write ss w f off p = (w', f', n, e) ->
  FWf ss (w_dev w) f -> FWf ss (w_dev w') f'.
Proof.
  intros Ha Hlen Hoff H (I1 & I2 & I3 & I4f).
  pose proof (file_write_secs _ _ _ _ _ _ _ _ _ Ha Hoff H) as (_ & _ & S3 & S4).
  pose proof (file_write_al _ _ _ _ _ _ _ _ _ _ _ Ha Hss H) as (_ & Hn & Hh & _ & Hs).
  apply (file_write_content ss nsec Hss) with (oth := oth) in H as (_ & _ & U); auto.
  assert (Hsz : N.to_nat (f_size f') = if 0 <? n then Nat.max (N.to_nat (f_size f)) (Z.to_nat off + n) else N.to_nat (f_size f)).
  { rewrite Hs. destruct (0 <? n) eqn:E0; cbn [andb]; [|reflexivity].
    destruct (f_size f <? Z.to_N off + N.of_nat n)%N eqn:E1; lia. }
  unfold FWf. rewrite Hh, Hsz. splits; auto.
  - destruct (0 <? n); lia.
  - intros j Hj. rewrite U. replace ((Z.to_nat off <=? j) && (j <? Z.to_nat off + n)) with false.
    + apply I2. destruct (0 <? n); lia.
    + destruct (0 <? n) eqn:E; lia.
  - destruct S3 as [->|S3]; destruct (0 <? n) eqn:E; lia.
Qed.

End W2.
