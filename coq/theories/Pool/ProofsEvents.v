(* Event level: every call an operation makes on the allocator, the device
   and the hole source is accepted by the sector monitor [sect_events] of
   Spec.v, and every error an operation returns is justified by a failed
   call in its log. *)
From Coq Require Import Lia ZifyBool ZifyNat ZifyN Permutation.
From VF Require Import Pool.Model Pool.Spec Pool.ProofsAlloc Pool.ProofsInv Pool.ProofsDev Pool.ProofsWrite
  Pool.ProofsContent Pool.ProofsRead.

(* ---- the monitor's list helpers ------------------------------------------------ *)

Lemma mem_In x l : mem x l = true <-> In x l.
Proof.
  unfold mem. rewrite existsb_exists. split.
  - intros (y & Hy & E). apply Nat.eqb_eq in E. now subst.
  - intros H. exists x. split; auto. apply Nat.eqb_refl.
Qed.

Lemma mem_false x l : mem x l = false <-> ~ In x l.
Proof. rewrite <- mem_In. destruct (mem x l); split; congruence. Qed.

Lemma mem_perm x a b : Permutation a b -> mem x a = mem x b.
Proof.
  intros P. destruct (mem x b) eqn:E.
  - apply mem_In. apply mem_In in E. eapply Permutation_in; [apply Permutation_sym|]; eauto.
  - apply mem_false. apply mem_false in E. intros H. apply E. eapply Permutation_in; eauto.
Qed.

Lemma remove1_perm x l : In x l -> exists m, remove1 x l = Some m /\ Permutation l (x :: m).
Proof.
  induction l as [|y tl IH]; intros H; [destruct H|]. cbn [remove1].
  destruct (x =? y) eqn:E.
  - apply Nat.eqb_eq in E. subst. exists tl. split; auto.
  - destruct H as [->|H]; [rewrite Nat.eqb_refl in E; discriminate|].
    destruct (IH H) as (m & -> & P). exists (y :: m). split; [reflexivity|].
    eapply Permutation_trans; [apply perm_skip; exact P|]. apply perm_swap.
Qed.

Lemma remove_all_perm xs : forall l rest, Permutation l (xs ++ rest) ->
  exists m, remove_all xs l = Some m /\ Permutation m rest.
Proof.
  induction xs as [|x tl IH]; intros l rest P; cbn [remove_all app] in *.
  - exists l. auto.
  - assert (Hin : In x l). { eapply Permutation_in; [apply Permutation_sym; exact P|]. now left. }
    destruct (remove1_perm x l Hin) as (m1 & -> & P1). apply IH.
    eapply Permutation_cons_inv. eapply Permutation_trans; [apply Permutation_sym; exact P1|exact P].
Qed.

Lemma sect_events_app c oth m a b :
  sect_events c oth m (a ++ b) = bind (sect_events c oth m a) (fun m' => sect_events c oth m' b).
Proof.
  revert m. induction a as [|e a IH]; intros m; cbn [app sect_events]; [reflexivity|].
  destruct (sect_event c oth m e); cbn [bind]; auto.
Qed.

Lemma forallb_ext' {A} (f g : A -> bool) l : (forall x, f x = g x) -> forallb f l = forallb g l.
Proof. intros H. induction l; cbn; [reflexivity|]. now rewrite H, IHl. Qed.

Lemma sect_event_perm_others c o1 o2 m e : Permutation o1 o2 -> sect_event c o1 m e = sect_event c o2 m e.
Proof.
  intros P. destruct e; cbn [sect_event]; auto.
  - rewrite (forallb_ext' (fun s => negb (mem s o1) && negb (mem s m)) (fun s => negb (mem s o2) && negb (mem s m))); auto.
    intros x. now rewrite (mem_perm x _ _ P).
  - now rewrite (Permutation_length P).
Qed.

Lemma sect_events_perm_others c o1 o2 evs : Permutation o1 o2 -> forall m, sect_events c o1 m evs = sect_events c o2 m evs.
Proof.
  intros P. induction evs as [|e tl IH]; intros m; cbn [sect_events]; [reflexivity|].
  rewrite (sect_event_perm_others c o1 o2 m e P). destruct (sect_event c o2 m e); cbn [bind]; auto.
Qed.

(* a duplicate-free list of sector numbers covering 1..n has n elements *)
Lemma full_length (l : list nat) n :
  NoDup l -> (forall s, In s l -> 1 <= s <= n) -> (forall s, 1 <= s <= n -> In s l) -> length l = n.
Proof.
  intros Hnd Hr Hall. rewrite <- (seq_length n 1). apply Permutation_length.
  apply NoDup_Permutation; auto using seq_NoDup.
  intros s. rewrite in_seq. split; intros H; [apply Hr in H; lia|apply Hall; lia].
Qed.

Lemma range_length (l : list nat) n : NoDup l -> (forall s, In s l -> 1 <= s <= n) -> length l <= n.
Proof.
  intros Hnd Hr. rewrite <- (seq_length n 1). apply NoDup_incl_length; auto.
  intros s Hs. apply in_seq. apply Hr in Hs. lia.
Qed.

(* ---- errors are justified by the log ---------------------------------------------- *)

Definition ejust (w : world) (e : errk) : Prop :=
  match e with
  | ENone => True
  | EInjected | EInternal => existsb is_failed_ev (w_ev w) = true
  | EExhausted => existsb is_allocfail_ev (w_ev w) = true
  | _ => False
  end.

Definition mono (w w' : world) : Prop := forall e, ejust w e -> ejust w' e.

Lemma mono_refl w : mono w w.
Proof. intros e H; exact H. Qed.

Lemma mono_trans a b c : mono a b -> mono b c -> mono a c.
Proof. intros H1 H2 e H. auto. Qed.

Lemma mono_cons w w' ev : w_ev w' = ev :: w_ev w -> mono w w'.
Proof.
  intros E e. unfold ejust. rewrite E. cbn [existsb]. destruct e; auto; intros ->; apply Bool.orb_true_r.
Qed.

Lemma mono_same w w' : w_ev w' = w_ev w -> mono w w'.
Proof. intros E e. unfold ejust. now rewrite E. Qed.

(* ---- primitives: what they append to the log ------------------------------------------ *)

Lemma dev_write_ev w ss s o data w' k e :
  dev_write w ss s o data = (w', k, e) ->
  exists ok, w_ev w' = EvDevWrite s o (length data) k ok :: w_ev w /\
    (e = ENone \/ e = EInjected /\ ok = false).
Proof.
  unfold dev_write. destruct (tick (w_fw w)) as [[[p m]|] o'] eqn:T; intros [= <- <- <-]; cbn; eauto.
Qed.

Lemma dev_read_ev w ss s o n w' got e :
  dev_read w ss s o n = (w', got, e) ->
  exists g ok, w_ev w' = EvDevRead s o n g ok :: w_ev w /\
    (e = ENone \/ (e = EInjected \/ e = EInternal) /\ ok = false).
Proof.
  unfold dev_read. destruct (tick (w_fr w)) as [[[p m]|] o'] eqn:T; intros [= <- <- <-]; cbn; eauto.
  destruct m; eauto 7.
Qed.

Lemma hole_read_ev w h off n w' got e :
  hole_read w h off n = (w', got, e) ->
  exists ok, w_ev w' = EvHole HRead (N.of_nat off) n ok :: w_ev w /\
    (e = ENone \/ (e = EInjected \/ e = EInternal) /\ ok = false).
Proof.
  unfold hole_read. destruct (tick (w_fh w)) as [[[p m]|] o'] eqn:T; intros [= <- <- <-]; cbn; eauto.
  destruct m; eauto 7.
Qed.

Lemma hole_call_ev w k off w' b :
  hole_call w k off = (w', b) -> w_ev w' = EvHole k off 0 b :: w_ev w.
Proof.
  unfold hole_call. destruct (tick (w_fh w)) as [[[p m]|] o'] eqn:T; intros [= <- <-]; reflexivity.
Qed.

Lemma free_list_dev0 w l : w_dev (free_list w l) = w_dev w.
Proof. unfold free_list. destruct (free_list_bits _ _ _). reflexivity. Qed.

Lemma free_list_ev w l : w_ev (free_list w l) = EvFreeList l :: w_ev w.
Proof. unfold free_list. destruct (free_list_bits _ _ _). reflexivity. Qed.

Lemma touched_range ss s o n nsec : 0 < ss -> n <> 0 ->
  (forall x, In x (touched ss s o n) -> 1 <= x <= nsec) -> s * ss + o + n <= nsec * ss.
Proof.
  intros Hss Hn H. unfold touched in H. replace (n =? 0) with false in H by lia.
  fold (cdivn (o + n) ss) in H.
  assert (Hc : 1 <= cdivn (o + n) ss). { unfold cdivn. apply Nat.div_le_lower_bound; lia. }
  specialize (H (S s + cdivn (o + n) ss - 1)). rewrite in_seq1 in H. specialize (H ltac:(lia)).
  assert (o + n <= cdivn (o + n) ss * ss).
  { destruct (cdivn_decomp ss Hss (o + n)) as (q & r & E & Hr & _). rewrite E, cdivn_spec by auto.
    destruct (r =? 0) eqn:E0; nia. }
  nia.
Qed.

(* ---- the log invariant -------------------------------------------------------------------- *)

Section Ev.
Variable c : cfg.
Variable others mine0 : list nat.
Variable base : list event.
Hypothesis Hss : 0 < c_ss c.

(* the events logged since [base] are accepted by the monitor, and the sectors
   it then attributes to the caller are [h] *)
Definition Tr (w : world) (h : list nat) : Prop :=
  exists evs mine, w_ev w = evs ++ base /\ sect_events c others mine0 (rev evs) = Good mine /\ Permutation mine h.

Definition LW (w : world) (h : list nat) : Prop :=
  AInv (c_nsec c) (w_al w) (h ++ others) /\ length (w_dev w) = c_nsec c * c_ss c /\ Tr w h.

Lemma Tr_same w w' h : w_ev w' = w_ev w -> Tr w h -> Tr w' h.
Proof. intros E (evs & mine & H1 & H2 & H3). exists evs, mine. rewrite E. auto. Qed.

Lemma Tr_perm w h h' : Permutation h h' -> Tr w h -> Tr w h'.
Proof. intros P (evs & mine & H1 & H2 & H3). exists evs, mine. splits; auto. eapply Permutation_trans; eauto. Qed.

Lemma LW_perm w h h' : Permutation h h' -> LW w h -> LW w h'.
Proof.
  intros P (Ha & Hl & Ht). split; [|split]; auto.
  - eapply AInv_perm; [|exact Ha]. now apply Permutation_app_tail.
  - eapply Tr_perm; eauto.
Qed.

Lemma Tr_log w w' e h h' : w_ev w' = e :: w_ev w -> Tr w h ->
  (forall mine, Permutation mine h -> exists mine', sect_event c others mine e = Good mine' /\ Permutation mine' h') ->
  Tr w' h'.
Proof.
  intros E (evs & mine & H1 & H2 & H3) H. destruct (H mine H3) as (mine' & He & P).
  exists (e :: evs), mine'. splits; auto.
  - rewrite E, H1. reflexivity.
  - cbn [rev]. rewrite sect_events_app, H2. cbn [bind sect_events]. rewrite He. reflexivity.
Qed.

Lemma Tr_log_same w w' e h : w_ev w' = e :: w_ev w -> Tr w h ->
  (forall mine, sect_event c others mine e = Good mine) -> Tr w' h.
Proof. intros E T H. eapply Tr_log; [exact E|exact T|]. intros mine P. exists mine. auto. Qed.

Lemma LW_alloc_some w max w' first n h :
  LW w h -> 1 <= max -> allocate w max = (w', Some (first, n)) ->
  LW w' (seq1 first n ++ h) /\ mono w w' /\ 1 <= n <= max.
Proof.
  intros (Ha & Hl & Ht) Hmax EA.
  apply (allocate_some _ _ _ _ _ _ _ Ha Hmax) in EA as (Ha1 & Hn & Hd & _ & _ & _ & Hev).
  split; [split; [|split]|split]; try lia.
  - now rewrite <- app_assoc.
  - now rewrite Hd.
  - eapply Tr_log; eauto. intros mine P. exists (seq1 first n ++ mine). split; [|now apply Permutation_app_head].
    destruct Ha1 as (_ & _ & Hnd & Hr & _). cbn [sect_event].
    replace ((1 <=? n) && (n <=? max)) with true by lia. cbn [check bind].
    rewrite (proj2 (forallb_forall _ _)); cbn [check bind].
    2:{ intros s Hs. assert (1 <= s <= c_nsec c) by (apply Hr, in_app_iff; auto). lia. }
    rewrite (proj2 (forallb_forall _ _)); cbn [check bind]; [reflexivity|].
    intros s Hs. apply NoDup_app_iff in Hnd as (_ & _ & Hd'). specialize (Hd' s Hs).
    rewrite in_app_iff in Hd'.
    replace (mem s others) with false by (symmetry; apply mem_false; tauto).
    replace (mem s mine) with false; [reflexivity|]. symmetry. apply mem_false. intros Hm. apply Hd'. left.
    eapply Permutation_in; eauto.
  - eapply mono_cons; eauto.
Qed.

Lemma LW_alloc_none w max w' h :
  LW w h -> allocate w max = (w', None) -> LW w' h /\ mono w w' /\ ejust w' EExhausted.
Proof.
  intros (Ha & Hl & Ht) EA.
  apply (allocate_none _ _ _ _ _ Ha) in EA as (Hal & Hd & _ & _ & _ & Hev & Hall).
  split; [split; [|split]|split].
  - now rewrite Hal.
  - now rewrite Hd.
  - eapply Tr_log; eauto. intros mine P. exists mine. split; auto. cbn [sect_event].
    destruct Ha as (_ & _ & Hnd & Hr & _).
    pose proof (full_length _ _ Hnd Hr Hall) as Hlen. rewrite app_length in Hlen.
    rewrite (Permutation_length P). replace (length others + length h =? c_nsec c) with true by lia. reflexivity.
  - eapply mono_cons; eauto.
  - unfold ejust. rewrite Hev. reflexivity.
Qed.

Lemma LW_free_contig w first n h rest :
  LW w h -> 1 <= n -> Permutation h (seq1 first n ++ rest) ->
  LW (free_contig w first n) rest /\ mono w (free_contig w first n).
Proof.
  intros (Ha & Hl & Ht) Hn P. split; [split; [|split]|].
  - eapply free_contig_ok; [exact Ha|exact Hn|]. rewrite app_assoc. now apply Permutation_app_tail.
  - exact Hl.
  - eapply (Tr_log w _ (EvFreeContig first n) h rest); [reflexivity|exact Ht|]. intros mine Pm. cbn [sect_event].
    destruct (remove_all_perm (seq1 first n) mine rest) as (m & -> & Pr); [eapply Permutation_trans; eauto|].
    exists m. auto.
  - eapply mono_cons. reflexivity.
Qed.

Lemma LW_free_list w l h rest :
  LW w h -> Permutation h (nz l ++ rest) ->
  LW (free_list w l) rest /\ mono w (free_list w l).
Proof.
  intros (Ha & Hl & Ht) P. split; [split; [|split]|].
  - eapply free_list_ok; [exact Ha|]. rewrite app_assoc. now apply Permutation_app_tail.
  - now rewrite free_list_dev0.
  - eapply (Tr_log w _ (EvFreeList l) h rest); [apply free_list_ev|exact Ht|]. intros mine Pm. cbn [sect_event].
    fold (nz l).
    destruct (remove_all_perm (nz l) mine rest) as (m & -> & Pr); [eapply Permutation_trans; eauto|].
    exists m. auto.
  - eapply mono_cons. apply free_list_ev.
Qed.


Definition Post (w w' : world) (h' : list nat) (e : errk) : Prop := LW w' h' /\ mono w w' /\ ejust w' e.

Lemma Post_trans w w1 w2 h2 e : mono w w1 -> Post w1 w2 h2 e -> Post w w2 h2 e.
Proof. intros M (H1 & H2 & H3). split; [|split]; auto. eapply mono_trans; eauto. Qed.

Lemma Post_perm w w' h h' e : Permutation h h' -> Post w w' h e -> Post w w' h' e.
Proof. intros P (H1 & H2 & H3). split; [|split]; auto. eapply LW_perm; eauto. Qed.

Lemma Post_refl w h : LW w h -> Post w w h ENone.
Proof. intros H. split; [|split]; auto using mono_refl. exact I. Qed.

Lemma LW_dev_write w s o data w' k e h :
  LW w h -> dev_write w (c_ss c) s o data = (w', k, e) ->
  (forall x, In x (touched (c_ss c) s o (length data)) -> In x h) ->
  Post w w' h e.
Proof.
  intros (Ha & Hl & Ht) ED Hin.
  pose proof (dev_write_ev _ _ _ _ _ _ _ _ ED) as (ok & Hev & He).
  pose proof (dev_write_spec _ _ _ _ _ _ _ _ ED) as (Hk & _ & Hd & Hal & _).
  split; [split; [|split]|split].
  - now rewrite Hal.
  - rewrite Hd. destruct (Nat.eq_dec (length data) 0) as [E0|E0].
    + assert (k = 0) by lia. subst k. cbn [firstn]. now rewrite dev_put_nil.
    + rewrite dev_put_length; auto. rewrite firstn_length.
      assert (s * c_ss c + o + length data <= c_nsec c * c_ss c); [|lia].
      apply touched_range; auto. intros x Hx. destruct Ha as (_ & _ & _ & Hr & _). apply Hr, in_app_iff. auto.
  - eapply Tr_log; [exact Hev|exact Ht|]. intros mine P. exists mine. split; auto. cbn [sect_event].
    rewrite (proj2 (forallb_forall _ _)); [reflexivity|]. intros x Hx. apply mem_In.
    eapply Permutation_in; [apply Permutation_sym; exact P|]. auto.
  - eapply mono_cons; eauto.
  - unfold ejust. rewrite Hev. destruct He as [->|[-> ->]]; cbn; auto.
Qed.

Lemma LW_dev_read w s o n w' got e h :
  LW w h -> dev_read w (c_ss c) s o n = (w', got, e) ->
  (forall x, In x (touched (c_ss c) s o n) -> In x h) ->
  Post w w' h e.
Proof.
  intros (Ha & Hl & Ht) ED Hin.
  pose proof (dev_read_ev _ _ _ _ _ _ _ _ ED) as (g & ok & Hev & He).
  pose proof (dev_read_spec _ _ _ _ _ _ _ _ ED) as (k & _ & _ & _ & Hd & Hal & _).
  split; [split; [|split]|split].
  - now rewrite Hal.
  - now rewrite Hd.
  - eapply Tr_log; [exact Hev|exact Ht|]. intros mine P. exists mine. split; auto. cbn [sect_event].
    rewrite (proj2 (forallb_forall _ _)); [reflexivity|]. intros x Hx. apply mem_In.
    eapply Permutation_in; [apply Permutation_sym; exact P|]. auto.
  - eapply mono_cons; eauto.
  - unfold ejust. rewrite Hev. destruct He as [->|[[->| ->] ->]]; cbn; auto.
Qed.

Lemma LW_read_hole w f n si o w' got e h :
  LW w h -> read_hole (c_ss c) w f n si o = (w', got, e) -> Post w w' h e.
Proof.
  intros (Ha & Hl & Ht) H. unfold read_hole in H.
  pose proof (hole_read_ev _ _ _ _ _ _ _ H) as (ok & Hev & He).
  apply hole_read_spec in H as (k & _ & _ & _ & Hd & Hal & _).
  split; [split; [|split]|split].
  - now rewrite Hal.
  - now rewrite Hd.
  - eapply Tr_log_same; eauto.
  - eapply mono_cons; eauto.
  - unfold ejust. rewrite Hev. destruct He as [->|[[->| ->] ->]]; cbn; auto.
Qed.

Lemma LW_hole_call w k off w' b h :
  LW w h -> hole_call w k off = (w', b) -> Post w w' h (if b then ENone else EInjected).
Proof.
  intros (Ha & Hl & Ht) H.
  pose proof (hole_call_ev _ _ _ _ _ H) as Hev.
  apply hole_call_dev in H as (Hd & Hal).
  split; [split; [|split]|split].
  - now rewrite Hal.
  - now rewrite Hd.
  - eapply Tr_log_same; eauto.
  - eapply mono_cons; eauto.
  - unfold ejust. rewrite Hev. destruct b; cbn; auto.
Qed.

Lemma touched_one s : 1 <= s -> touched (c_ss c) (pred s) 0 (c_ss c) = [s].
Proof.
  intros H. unfold touched. replace (c_ss c =? 0) with false by lia.
  replace ((0 + c_ss c + c_ss c - 1) / c_ss c) with 1.
  - cbn. f_equal. lia.
  - symmetry. change ((0 + c_ss c + c_ss c - 1) / c_ss c) with (cdivn (c_ss c) (c_ss c)). apply cdivn_small; lia.
Qed.

Lemma touched_in s o n x : 1 <= s -> In x (touched (c_ss c) (pred s) o n) -> s <= x < s + cdivn (o + n) (c_ss c).
Proof.
  intros Hs. unfold touched. destruct (n =? 0); [intros []|]. rewrite in_seq1. unfold cdivn. lia.
Qed.

(* ---- writeToNewSectors ----------------------------------------------------------------------- *)

Lemma wns_first_lw w f p first si o w' p1 s1 i1 e h :
  LW w h -> o < c_ss c -> 1 <= first -> In first h ->
  wns_first (c_ss c) w f p first si o = (w', p1, s1, i1, e) -> Post w w' h e.
Proof.
  intros HL Ho Hf Hin. unfold wns_first. destruct (0 <? o) eqn:E0.
  2:{ intros [= <- <- <- <- <-]. now apply Post_refl. }
  destruct (read_hole (c_ss c) w f o si 0) as [[w1 lead] e1] eqn:E1.
  pose proof (LW_read_hole _ _ _ _ _ _ _ _ _ HL E1) as (HL1 & M1 & J1).
  destruct e1; try (intros [= <- <- <- <- <-]; split; [|split]; assumption).
  apply read_hole_ok in E1 as (-> & _).
  assert (Hend : forall w2 trail, LW w2 h -> mono w w2 ->
    length trail = (if o + length p <? c_ss c then c_ss c - (o + length p) else 0) ->
    forall w3 k e3, dev_write w2 (c_ss c) (pred first) 0
      (hole_bytes (f_hole f) (si * c_ss c + 0) o ++ firstn (Nat.min (length p) (c_ss c - o)) p ++ trail) = (w3, k, e3) ->
    Post w w3 h e3).
  { intros w2 trail HL2 M2 Htr w3 k e3 ED. eapply Post_trans; [exact M2|].
    eapply LW_dev_write; [exact HL2|exact ED|].
    rewrite !app_length, hole_bytes_length, firstn_length, Htr.
    replace (o + (Nat.min (Nat.min (length p) (c_ss c - o)) (length p) +
              (if o + length p <? c_ss c then c_ss c - (o + length p) else 0))) with (c_ss c)
      by (destruct (o + length p <? c_ss c) eqn:E; lia).
    rewrite touched_one by auto. intros x [<-|[]]. exact Hin. }
  destruct (o + length p <? c_ss c) eqn:E2.
  - destruct (read_hole (c_ss c) w1 f (c_ss c - (o + length p)) si (o + length p)) as [[w2 trail] e2] eqn:E3.
    pose proof (LW_read_hole _ _ _ _ _ _ _ _ _ HL1 E3) as P2.
    apply (Post_trans w) in P2; auto. destruct P2 as (HL2 & M2 & J2).
    destruct e2; try (intros [= <- <- <- <- <-]; split; [|split]; assumption).
    apply read_hole_ok in E3 as (-> & _).
    destruct (dev_write w2 _ _ _ _) as [[w3 k] e3] eqn:ED. intros [= <- <- <- <- <-].
    eapply (Hend w2 _ HL2 M2); [|exact ED]. now rewrite hole_bytes_length.
  - destruct (dev_write w1 _ _ _ _) as [[w3 k] e3] eqn:ED. intros [= <- <- <- <- <-].
    eapply (Hend w1 [] HL1 M1); [reflexivity|exact ED].
Qed.

Lemma cdivn_mul q : cdivn (q * c_ss c) (c_ss c) = q.
Proof. replace (q * c_ss c) with (q * c_ss c + 0) by lia. rewrite cdivn_spec by lia. reflexivity. Qed.

Lemma wns_full_lw w p sector idx w' p2 s2 i2 e h :
  LW w h -> 1 <= sector -> (forall x, sector <= x < sector + length p / c_ss c -> In x h) ->
  wns_full (c_ss c) w p sector idx = (w', p2, s2, i2, e) -> Post w w' h e.
Proof.
  intros HL Hs Hin. unfold wns_full. destruct (0 <? length p / c_ss c) eqn:E0.
  2:{ intros [= <- <- <- <- <-]. now apply Post_refl. }
  destruct (dev_write w _ _ _ _) as [[w3 k] e3] eqn:ED. intros [= <- <- <- <- <-].
  eapply LW_dev_write; [exact HL|exact ED|].
  assert (Hl : length (firstn (length p / c_ss c * c_ss c) p) = length p / c_ss c * c_ss c).
  { rewrite firstn_length. destruct (pos_decomp (c_ss c) (length p) Hss) as [Hd _]. lia. }
  rewrite Hl. intros x Hx. apply touched_in in Hx; auto. cbn [Nat.add] in Hx. rewrite cdivn_mul in Hx. auto.
Qed.

Lemma wns_last_lw w f p sector idx w' e h :
  LW w h -> 1 <= sector -> length p < c_ss c -> (0 < length p -> In sector h) ->
  wns_last (c_ss c) w f p sector idx = (w', e) -> Post w w' h e.
Proof.
  intros HL Hs Hp Hin. unfold wns_last. destruct (0 <? length p) eqn:E0.
  2:{ intros [= <- <-]. now apply Post_refl. }
  destruct (read_hole (c_ss c) w f (c_ss c - length p) idx (length p)) as [[w1 trail] e1] eqn:E1.
  pose proof (LW_read_hole _ _ _ _ _ _ _ _ _ HL E1) as (HL1 & M1 & J1).
  destruct e1; try (intros [= <- <-]; split; [|split]; assumption).
  apply read_hole_ok in E1 as (-> & _).
  destruct (dev_write w1 _ _ _ _) as [[w3 k] e3] eqn:ED. intros [= <- <-].
  eapply Post_trans; [exact M1|]. eapply LW_dev_write; [exact HL1|exact ED|].
  rewrite app_length, hole_bytes_length. replace (length p + (c_ss c - length p)) with (c_ss c) by lia.
  rewrite touched_one by auto. intros x [<-|[]]. apply Hin. lia.
Qed.

Lemma wns_lw w f p si o w' r e h :
  LW w h -> o < c_ss c -> p <> [] ->
  write_to_new_sectors (c_ss c) w f p si o = (w', r, e) ->
  match r with
  | Some (n, first, cnt) => Post w w' (seq1 first cnt ++ h) e
  | None => Post w w' h e
  end.
Proof.
  intros HL Ho Hp. unfold write_to_new_sectors.
  assert (Hlp : 1 <= length p) by (destruct p; [congruence|cbn; lia]).
  change ((o + length p + c_ss c - 1) / c_ss c) with (cdivn (o + length p) (c_ss c)).
  destruct (allocate w (cdivn (o + length p) (c_ss c))) as [w0 [[first cnt]|]] eqn:EA.
  2:{ intros [= <- <- <-]. eapply LW_alloc_none; eauto. }
  assert (Hmax : 1 <= cdivn (o + length p) (c_ss c)).
  { unfold cdivn. apply Nat.div_le_lower_bound; lia. }
  destruct (LW_alloc_some _ _ _ _ _ _ HL Hmax EA) as (HL0 & M0 & Hcnt).
  set (h1 := seq1 first cnt ++ h) in *.
  assert (Hfirst : 1 <= first).
  { destruct HL0 as ((_ & _ & _ & Hr & _) & _). apply (Hr first). apply in_app_iff. left. apply in_app_iff. left. apply in_seq1. lia. }
  assert (Hrun : forall x, first <= x < first + cnt -> In x h1).
  { intros x Hx. apply in_app_iff. left. now apply in_seq1. }
  assert (Hfail : forall w1 e1, LW w1 h1 -> mono w w1 -> ejust w1 e1 -> Post w (free_contig w1 first cnt) h e1).
  { intros w1 e1 HL1 M1 J1. destruct (LW_free_contig w1 first cnt h1 h HL1) as (HLf & Mf); [lia|apply Permutation_refl|].
    split; [exact HLf|split]; [eapply mono_trans; eauto|apply Mf; exact J1]. }
  unfold limit.
  set (P := firstn (Nat.min (length p) (cnt * c_ss c - o)) p) in *.
  assert (Hcs : cnt * c_ss c >= c_ss c) by nia.
  assert (HlP : length P = Nat.min (length p) (cnt * c_ss c - o)) by (unfold P; rewrite firstn_length; lia).
  assert (HT : cdivn (o + length P) (c_ss c) <= cnt) by (apply div_up_le; auto; lia).
  destruct (wns_first _ _ _ _ _ _ _) as [[[[w1 p1] s1] i1] e1] eqn:E1.
  pose proof (wns_first_lw _ _ _ _ _ _ _ _ _ _ _ _ HL0 Ho Hfirst (Hrun first ltac:(lia)) E1) as P1.
  apply (Post_trans w) in P1; auto. destruct P1 as (HL1 & M1 & J1).
  destruct e1; try (intros [= <- <- <-]; now apply Hfail).
  apply wns_first_ok in E1; auto.
  assert (Hp1 : (if 0 <? o then S first else first) = s1 /\
                cdivn (o + length P) (c_ss c) = (if 0 <? o then 1 else 0) + cdivn (length p1) (c_ss c)).
  { destruct (0 <? o) eqn:E0; destruct E1 as (_ & -> & -> & _); split; auto.
    - rewrite skipn_length. destruct (Nat.le_gt_cases (c_ss c) (o + length P)).
      + replace (o + length P) with (c_ss c + (length P - (c_ss c - o))) by lia. now apply cdivn_add_ss.
      + replace (length P - (c_ss c - o)) with 0 by lia. rewrite cdivn_small by lia.
        now rewrite cdivn_0.
    - replace o with 0 by lia. reflexivity. }
  destruct Hp1 as (Hs1 & HTT). clear E1.
  destruct (cdivn_decomp (c_ss c) Hss (length p1)) as (q & r0 & Hlen1 & Hr0 & Hq & Hrm).
  assert (HT1 : cdivn (length p1) (c_ss c) = if r0 =? 0 then q else S q) by (rewrite Hlen1; now apply cdivn_spec).
  assert (Hs1' : 1 <= s1 /\ first <= s1) by (rewrite <- Hs1; destruct (0 <? o); lia).
  assert (Hs1end : s1 + cdivn (length p1) (c_ss c) <= first + cnt) by (rewrite <- Hs1; destruct (0 <? o); lia).
  destruct (wns_full _ _ _ _ _) as [[[[w2 p2] s2] i2] e2] eqn:E2.
  assert (P2 : Post w1 w2 h1 e2).
  { eapply wns_full_lw; [exact HL1| | |exact E2]; [lia|]. intros x Hx. apply Hrun. rewrite <- Hq in Hx.
    destruct (r0 =? 0); lia. }
  apply (Post_trans w) in P2; auto. destruct P2 as (HL2 & M2 & J2).
  destruct e2; try (intros [= <- <- <-]; now apply Hfail).
  assert (Hd2 : p2 = skipn (q * c_ss c) p1 /\ s2 = s1 + q).
  { apply wns_full_ok in E2; auto. rewrite <- Hq in E2. destruct E2 as [(_ & -> & -> & _)|(Hq0 & _ & -> & -> & _)]; auto.
    rewrite Hq0. cbn. split; auto. }
  destruct Hd2 as (-> & ->).
  destruct (wns_last _ _ _ _ _ _) as [w3 e3] eqn:E3.
  assert (P3 : Post w2 w3 h1 e3).
  { eapply wns_last_lw; [exact HL2| | | |exact E3]; rewrite ?skipn_length; try lia.
    intros Hpos. apply Hrun. destruct (r0 =? 0) eqn:Er; lia. }
  apply (Post_trans w) in P3; auto. destruct P3 as (HL3 & M3 & J3).
  destruct e3; try (intros [= <- <- <-]; now apply Hfail).
  intros [= <- <- <-]. split; [|split]; auto.
Qed.


(* ---- writeToSectors / WriteAt -------------------------------------------------------------------- *)

Lemma LW_ainv w h : LW w h -> AInv (c_nsec c) (w_al w) (h ++ others).
Proof. intros (H & _). exact H. Qed.

Lemma wts_lw w f p si ei o w' f' n e :
  LW w (nz (f_secs f)) -> o < c_ss c -> p <> [] ->
  write_to_sectors (c_ss c) w f p si ei o = (w', f', n, e) -> Post w w' (nz (f_secs f')) e.
Proof.
  intros HL Ho Hp. pose proof (LW_ainv _ _ HL) as Ha. unfold write_to_sectors.
  assert (Hlp : 1 <= length p) by (destruct p; [congruence|cbn; lia]).
  destruct (length (f_secs f) <=? si) eqn:Hlen.
  - destruct (write_to_new_sectors (c_ss c) w f p si o) as [[w1 r] e1] eqn:EW.
    pose proof (wns_lw _ _ _ _ _ _ _ _ _ HL Ho Hp EW) as PW.
    apply (wns_al _ _ _ _ _ _ _ _ _ _ _ Ha Hss Hp) in EW.
    destruct r as [[[n1 first] cnt]|].
    + destruct EW as (Ha1 & Hcnt & Hn1 & ->).
      assert (Hfirst : 1 <= first).
      { destruct Ha1 as (_ & _ & _ & Hr & _). apply (Hr first). apply in_app_iff. left. apply in_seq1. lia. }
      destruct (insert_sectors_ok (f_secs f ++ repeat 0 (si + cnt - length (f_secs f))) si first cnt Hfirst)
        as (secs' & EI & Hl' & P & _).
      { rewrite app_length, repeat_length. lia. }
      { intros j Hj. apply nth_app_repeat0. lia. }
      rewrite EI. intros [= <- <- <- <-]. cbn [f_secs set_secs].
      eapply Post_perm; [|exact PW]. apply Permutation_sym.
      eapply Permutation_trans; [exact P|]. rewrite nz_app, nz_repeat0, app_nil_r. apply Permutation_refl.
    + intros [= <- <- <- <-]. exact PW.
  - destruct (sectors_contiguous (f_secs f) si ei) as [sector c0] eqn:ES.
    apply sectors_contiguous_spec in ES as (Hs & Hc1 & Hc2 & _ & Hz & Hd); [|lia].
    assert (Hcs : c0 * c_ss c >= c_ss c) by nia.
    assert (Hlim : 1 <= limit (c_ss c) (length p) c0 o) by (unfold limit; lia).
    assert (Hp' : firstn (limit (c_ss c) (length p) c0 o) p <> []).
    { intros E. apply (f_equal (@length _)) in E. rewrite firstn_length in E. cbn in E. lia. }
    assert (Hlp' : length (firstn (limit (c_ss c) (length p) c0 o) p) = limit (c_ss c) (length p) c0 o).
    { rewrite firstn_length. unfold limit. lia. }
    destruct (sector =? 0) eqn:E0.
    + destruct (write_to_new_sectors (c_ss c) w f _ si o) as [[w1 r] e1] eqn:EW.
      pose proof (wns_lw _ _ _ _ _ _ _ _ _ HL Ho Hp' EW) as PW.
      apply (wns_al _ _ _ _ _ _ _ _ _ _ _ Ha Hss Hp') in EW.
      destruct r as [[[n1 first] cnt]|].
      * destruct EW as (Ha1 & Hcnt & Hn1 & ->).
        assert (Hfirst : 1 <= first).
        { destruct Ha1 as (_ & _ & _ & Hr & _). apply (Hr first). apply in_app_iff. left. apply in_seq1. lia. }
        assert (Hcc : cnt <= c0).
        { etransitivity; [apply Hcnt|]. apply div_up_le; [lia|]. rewrite Hlp'. unfold limit. nia. }
        destruct (insert_sectors_ok (f_secs f) si first cnt Hfirst) as (secs' & EI & Hl' & P & _); [lia| |].
        { intros j Hj. replace j with (si + (j - si)) by lia. apply Hz; lia. }
        rewrite EI. intros [= <- <- <- <-]. cbn [f_secs set_secs].
        eapply Post_perm; [|exact PW]. apply Permutation_sym. exact P.
      * intros [= <- <- <- <-]. exact PW.
    + destruct (dev_write w (c_ss c) (pred sector) o _) as [[w1 n1] e1] eqn:ED.
      intros [= <- <- <- <-].
      eapply LW_dev_write; [exact HL|exact ED|].
      rewrite Hlp'. intros x Hx. apply touched_in in Hx; [|lia].
      assert (Hle : cdivn (o + limit (c_ss c) (length p) c0 o) (c_ss c) <= c0).
      { apply div_up_le; auto. unfold limit. nia. }
      replace x with (sector + (x - sector)) by lia. rewrite <- (Hd ltac:(lia) (x - sector)) by lia.
      apply in_nz_nth. rewrite Hd by lia. lia.
Qed.

Lemma wloop_lw : forall fuel w f p si ei o total w' f' t' e,
  LW w (nz (f_secs f)) -> o < c_ss c -> p <> [] -> length p < fuel ->
  write_loop (c_ss c) fuel w f p si ei o total = (w', f', t', e) ->
  Post w w' (nz (f_secs f')) e /\ (e = ENone -> t' = total + length p).
Proof.
  induction fuel as [|fuel IH]; intros w f p si ei o total w' f' t' e HL Ho Hp Hf; [lia|].
  cbn [write_loop]. pose proof (LW_ainv _ _ HL) as Ha.
  destruct (write_to_sectors (c_ss c) w f p si ei o) as [[[w1 f1] n] e1] eqn:EW.
  pose proof (wts_lw _ _ _ _ _ _ _ _ _ _ HL Ho Hp EW) as (HL1 & M1 & J1).
  apply (wts_al _ _ _ _ _ _ _ _ _ _ _ _ _ Ha Hss Ho Hp) in EW as (Ha1 & Hn & Hs & Hh & Hq & Hok).
  destruct (skipn n p) as [|x tl] eqn:ES.
  - intros [= <- <- <- <-]. split; [split; [|split]; auto|].
    intros _. apply (f_equal (@length _)) in ES. rewrite skipn_length in ES. cbn in ES. lia.
  - destruct e1; try (intros [= <- <- <- <-]; split; [split; [|split]; auto|discriminate]).
    destruct (Hok eq_refl) as (Hn1 & Hal). apply skipn_nonempty in ES as (Hlt & Hlen).
    rewrite (Hal Hlt). cbn [Nat.eqb].
    intros H. apply IH in H; auto; try lia; try discriminate.
    destruct H as (PW & Ht). split; [eapply Post_trans; eauto|]. intros He. rewrite (Ht He). cbn [length] in *. lia.
Qed.

Lemma file_write_lw w f off p w' f' n e :
  LW w (nz (f_secs f)) -> (0 <= off)%Z ->
  file_write (c_ss c) w f off p = (w', f', n, e) ->
  Post w w' (nz (f_secs f')) e /\ (e = ENone -> n = length p).
Proof.
  intros HL Hoff. unfold file_write. replace (off <? 0)%Z with false by lia.
  destruct (length p =? 0) eqn:El.
  { intros [= <- <- <- <-]. split; [now apply Post_refl|]. lia. }
  destruct (write_loop _ _ _ _ _ _ _ _ _) as [[[w1 f1] t] e1] eqn:EL.
  assert (Ho : soff (c_ss c) (Z.to_N off) < c_ss c) by (apply sidx_soff; auto).
  assert (Hp : p <> []) by (destruct p; [discriminate|congruence]).
  apply wloop_lw in EL; auto. destruct EL as (PW & Ht). intros [= <- <- <- <-].
  split; [|exact Ht].
  destruct ((0 <? t) && (f_size f1 <? Z.to_N off + N.of_nat t)%N); exact PW.
Qed.

(* ---- Truncate / Close ------------------------------------------------------------------------------ *)

Lemma truncate_sectors_lw w f cnt w' f' :
  LW w (nz (f_secs f)) -> truncate_sectors w f cnt = (w', f') -> Post w w' (nz (f_secs f')) ENone.
Proof.
  intros HL. unfold truncate_sectors. destruct (cnt <? length (f_secs f)); [|intros [= <- <-]; now apply Post_refl].
  intros [= <- <-]. cbn [f_secs set_secs]. rewrite nz_strip, rev_involutive.
  destruct (LW_free_list w (skipn cnt (f_secs f)) _ (nz (firstn cnt (f_secs f))) HL) as (H1 & H2).
  - rewrite <- (firstn_skipn cnt (f_secs f)) at 1. rewrite nz_app. apply Permutation_app_comm.
  - split; [|split]; auto. exact I.
Qed.

Lemma file_truncate_lw w f size w' f' e :
  LW w (nz (f_secs f)) -> file_truncate (c_ss c) w f size = (w', f', e) -> (0 <= size)%Z ->
  Post w w' (nz (f_secs f')) e.
Proof.
  intros HL H Hsz. unfold file_truncate in H. replace (size <? 0)%Z with false in H by lia.
  set (sz := Z.to_N size) in *. destruct (sidx_soff (c_ss c) Hss sz) as (_ & Ho).
  set (si := sidx (c_ss c) sz) in *. set (o := soff (c_ss c) sz) in *.
  assert (Htail : forall w1 f1 (w2 : world) (f2 : file) (e2 : errk),
    LW w1 (nz (f_secs f1)) -> mono w w1 ->
    (if (sz <? f_size f1)%N then
        let '(w, ok) := hole_call w1 HTrunc sz in
        if ok then (w, set_size (set_hole f1 (firstn (N.to_nat sz) (f_hole f1))) sz, ENone)
        else (w, f1, EInjected)
      else (w1, set_size f1 sz, ENone)) = (w2, f2, e2) -> Post w w2 (nz (f_secs f2)) e2).
  { intros w1 f1 w2 f2 e2 HL1 M1 HT.
    destruct (sz <? f_size f1)%N; [|injection HT as <- <- <-; split; [|split]; auto; exact I].
    destruct (hole_call w1 HTrunc sz) as [w3 ok] eqn:EH.
    pose proof (LW_hole_call _ _ _ _ _ _ HL1 EH) as PH. apply (Post_trans w) in PH; auto.
    destruct ok; injection HT as <- <- <-; exact PH. }
  destruct (o =? 0) eqn:Eo.
  - destruct (truncate_sectors w f si) as [w1 f1] eqn:ET.
    pose proof (truncate_sectors_lw _ _ _ _ _ HL ET) as (HL1 & M1 & _).
    eapply Htail; eauto.
  - destruct ((sz <? f_size f)%N && (si <? length (f_secs f)) && negb (nth si (f_secs f) 0 =? 0)) eqn:Ec.
    + destruct (dev_write w (c_ss c) (pred (nth si (f_secs f) 0)) o _) as [[w1 k] e1] eqn:ED.
      assert (PD : Post w w1 (nz (f_secs f)) e1).
      { eapply LW_dev_write; [exact HL|exact ED|]. rewrite repeat_length. intros x Hx.
        apply touched_in in Hx; [|lia].
        assert (cdivn (o + Nat.min (c_ss c - o) (N.to_nat (N.min (f_size f - sz) (N.of_nat (c_ss c))))) (c_ss c) <= 1)
          by (apply div_up_le; auto; lia).
        replace x with (nth si (f_secs f) 0) by lia. apply in_nz_nth. lia. }
      cbv beta iota in H. destruct PD as (HL1 & M1 & J1).
      destruct e1; try (injection H as <- <- <-; split; [|split]; assumption).
      destruct (truncate_sectors w1 f (S si)) as [w2 f2] eqn:ET.
      pose proof (truncate_sectors_lw _ _ _ _ _ HL1 ET) as (HL2 & M2 & _).
      eapply Htail; [exact HL2|eapply mono_trans; eauto|exact H].
    + cbv beta iota in H.
      destruct (truncate_sectors w f (S si)) as [w2 f2] eqn:ET.
      pose proof (truncate_sectors_lw _ _ _ _ _ HL ET) as (HL2 & M2 & _).
      eapply Htail; eauto.
Qed.

Lemma file_close_lw w f w' e :
  LW w (nz (f_secs f)) -> file_close w f = (w', e) -> Post w w' [] e.
Proof.
  intros HL. unfold file_close.
  assert (H1 : Post w (if 0 <? length (f_secs f) then free_list w (f_secs f) else w) [] ENone).
  { destruct (0 <? length (f_secs f)) eqn:El.
    - destruct (LW_free_list w (f_secs f) _ [] HL) as (H1 & H2); [now rewrite app_nil_r|].
      split; [|split]; auto. exact I.
    - destruct (f_secs f); [now apply Post_refl|cbn in El; lia]. }
  destruct H1 as (HL1 & M1 & _).
  destruct (hole_call _ HClose 0) as [w1 ok] eqn:EH.
  pose proof (LW_hole_call _ _ _ _ _ _ HL1 EH) as PH. apply (Post_trans w) in PH; auto.
  intros [= <- <-]. exact PH.
Qed.

(* ---- ReadAt ---------------------------------------------------------------------------------------- *)

Lemma rfs_lw w f n si ei o w' got e :
  LW w (nz (f_secs f)) -> o < c_ss c -> 1 <= n ->
  read_from_sectors (c_ss c) w f n si ei o = (w', got, e) -> Post w w' (nz (f_secs f)) e.
Proof.
  intros HL Ho Hn. unfold read_from_sectors.
  destruct (length (f_secs f) <=? si) eqn:El; [apply LW_read_hole; auto|].
  destruct (sectors_contiguous (f_secs f) si ei) as [sector c0] eqn:ES.
  apply sectors_contiguous_spec in ES as (Hs & Hc1 & Hc2 & _ & Hz & Hd); [|lia].
  assert (Hcs : c0 * c_ss c >= c_ss c) by nia.
  destruct (sector =? 0) eqn:E0; [apply LW_read_hole; auto|].
  intros ED. eapply LW_dev_read; [exact HL|exact ED|].
  intros x Hx. apply touched_in in Hx; [|lia].
  assert (Hle : cdivn (o + limit (c_ss c) n c0 o) (c_ss c) <= c0).
  { apply div_up_le; auto. unfold limit. nia. }
  replace x with (sector + (x - sector)) by lia. rewrite <- (Hd ltac:(lia) (x - sector)) by lia.
  apply in_nz_nth. rewrite Hd by lia. lia.
Qed.


Lemma rloop_lw f : forall fuel w rem si ei o acc w' got e,
  LW w (nz (f_secs f)) -> o < c_ss c -> 1 <= rem -> rem < fuel ->
  read_loop (c_ss c) fuel w f rem si ei o acc = (w', got, e) -> Post w w' (nz (f_secs f)) e.
Proof.
  induction fuel as [|fuel IH]; intros w rem si ei o acc w' got e HL Ho Hrem Hf; [lia|].
  cbn [read_loop]. pose proof HL as (Ha & Hlen & _).
  destruct (read_from_sectors (c_ss c) w f rem si ei o) as [[w1 got1] e1] eqn:ER.
  pose proof (rfs_lw _ _ _ _ _ _ _ _ _ HL Ho Hrem ER) as (HL1 & M1 & J1).
  apply (rfs_ok (c_ss c) Hss (c_nsec c) others) in ER as (Hd1 & Hal1 & Hr1 & Hl1 & Hok1 & Hne1); auto.
  destruct e1; try (intros [= <- <- <-]; split; [|split]; assumption).
  destruct (Hok1 eq_refl) as (Hg1 & Hal).
  destruct (rem - length got1 =? 0) eqn:Erem.
  - intros [= <- <- <-]. split; [|split]; assumption.
  - assert (Hlt : length got1 < rem) by lia. rewrite (Hal Hlt). cbn [Nat.eqb].
    intros H. apply IH in H; auto; try lia. eapply Post_trans; eauto.
Qed.

Lemma file_read_lw w f off len w' x :
  LW w (nz (f_secs f)) -> (0 <= off)%Z -> file_read (c_ss c) w f off len = (w', x) ->
  exists n e got, x = ORes n e got /\ LW w' (nz (f_secs f)) /\ mono w w' /\
    (e = ENone \/ e = EEOF \/ (e <> ENone /\ ejust w' e)).
Proof.
  intros HL Hoff H. unfold file_read in H. replace (off <? 0)%Z with false in H by lia.
  destruct (len =? 0) eqn:El.
  { injection H as <- <-. exists 0%Z, ENone, []. split; [|split; [|split]]; auto using mono_refl. }
  destruct (f_size f <=? Z.to_N off)%N eqn:Es.
  { injection H as <- <-. exists 0%Z, EEOF, []. split; [|split; [|split]]; auto using mono_refl. }
  set (len' := if (f_size f <=? Z.to_N off + N.of_nat len)%N then N.to_nat (f_size f - Z.to_N off) else len) in *.
  set (succ := if (f_size f <=? Z.to_N off + N.of_nat len)%N then EEOF else ENone) in *.
  assert (Hl' : 1 <= len').
  { unfold len'. destruct (f_size f <=? Z.to_N off + N.of_nat len)%N eqn:E; lia. }
  assert (Hs : succ = ENone \/ succ = EEOF) by (unfold succ; destruct (f_size f <=? Z.to_N off + N.of_nat len)%N; auto).
  replace (if (f_size f <=? Z.to_N off + N.of_nat len)%N then (EEOF, N.to_nat (f_size f - Z.to_N off)) else (ENone, len))
    with (succ, len') in H by (unfold succ, len'; destruct (f_size f <=? Z.to_N off + N.of_nat len)%N; reflexivity).
  destruct (read_loop _ _ _ _ _ _ _ _ _) as [[w1 got] e1] eqn:EL.
  destruct (sidx_soff (c_ss c) Hss (Z.to_N off)) as (Hpos & Ho).
  apply rloop_lw in EL; auto. destruct EL as (HL1 & M1 & J1).
  injection H as <- <-. eexists _, _, _. split; [reflexivity|]. split; [|split]; auto.
  destruct e1; try (destruct Hs as [-> | ->]; now auto); right; right; (split; [discriminate|exact J1]).
Qed.

End Ev.
