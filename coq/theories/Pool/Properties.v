(* C15 — the property theorems, and nothing else.  [run c (init c) ops] is the
   state of the pool model after an arbitrary history [ops] (every operation
   carries its own failure oracles, so histories range over all fault
   sequences as well); [trace] is the observable trace of that history. *)
From VF Require Import Pool.Model Pool.Spec Pool.Proofs.

(* Storage sectors are partitioned: the sectors held by open files and by
   direct allocator clients are pairwise distinct and within the device, the
   allocator's bitmap marks exactly the others as free, and no allocator or
   file panic (double free, replacing an existing sector) is reachable. *)
Theorem sectors_partition : forall c ops, 0 < c_ss c ->
  partition_ok c (run c (init c) ops).
Proof. exact sectors_partition_lemma. Qed.
Print Assumptions sectors_partition.

(* After all files are closed (and direct allocations returned) every sector
   is free again, whatever happened before, including failed operations. *)
Theorem all_closed_all_free : forall c ops, 0 < c_ss c ->
  let st := run c (init c) ops in
  st_files st = repeat None nslots -> st_raw st = [] ->
  a_free (st_al st) = repeat true (c_nsec c).
Proof. exact all_closed_all_free_lemma. Qed.
Print Assumptions all_closed_all_free.

(* Quota is conserved after every history, including failed operations:
   files remaining + open files = maximum, bytes remaining + sum of sizes = maximum. *)
Theorem quota_conserved : forall c ops, 0 < c_ss c ->
  let st := run c (init c) ops in
  (st_remf st + nopen (st_files st) = c_maxfiles c)%N /\
  (st_remb st + sizes (st_files st) = c_maxbytes c)%N.
Proof. exact quota_conserved_lemma. Qed.
Print Assumptions quota_conserved.

(* The quota predicate that Corr.v evaluates on the implementation's trace
   holds at every step of every trace of the model. *)
Theorem quota_monitor_accepts_model : forall c ops, 0 < c_ss c ->
  forall s, In s (trace c (init c) ops) -> p_quota c (op_k (t_op s)) (t_obs s) = Good tt.
Proof. exact quota_monitor_lemma. Qed.
Print Assumptions quota_monitor_accepts_model.

(* Isolation.  Whatever one operation does (including every failure), every
   file that is not its target is still there unchanged and every byte of it
   reads the same afterwards: [content] is the byte the file holds at an
   index (device sector if it has one, hole source otherwise).  The device
   never changes size.  For all histories leading to the state. *)
Theorem isolation : forall c ops o st' x evs, 0 < c_ss c ->
  step c (run c (init c) ops) o = (st', x, evs) ->
  length (st_dev st') = length (st_dev (run c (init c) ops)) /\
  (op_k o <> KFinal -> forall g fg, slot_of (op_k o) <> Some g ->
     get_file (run c (init c) ops) g = Some fg ->
     get_file st' g = Some fg /\
     forall j, content (c_ss c) (st_dev st') fg j = content (c_ss c) (st_dev (run c (init c) ops)) fg j).
Proof. exact isolation_lemma. Qed.
Print Assumptions isolation.

(* file_refines_bytes, part 1 (WriteAt): in every reachable state, after
   WriteAt(p, off) returned n (with or without an error, for every failure
   oracle carried by the world w) the file holds p[0..n) at [off, off+n) and
   every other byte of it is unchanged. *)
Theorem write_refines_bytes : forall c ops slot f w off p w' f' n e, 0 < c_ss c ->
  let st := run c (init c) ops in
  get_file st slot = Some f -> w_dev w = st_dev st -> w_al w = st_al st -> (0 <= off)%Z ->
  file_write (c_ss c) w f off p = (w', f', n, e) ->
  updated (c_ss c) (w_dev w) (w_dev w') f f' (Z.to_nat off) n p /\ n <= length p /\
  length (w_dev w') = length (w_dev w).
Proof. exact write_refines_lemma. Qed.
Print Assumptions write_refines_bytes.

(* file_refines_bytes, part 2 (ReadAt): in every reachable state the bytes
   ReadAt returns are the file's contents at [off, off+n); without an
   injected failure n = min(len, size - off). *)
Theorem read_refines_bytes : forall c ops slot f w off len w' x, 0 < c_ss c ->
  let st := run c (init c) ops in
  get_file st slot = Some f -> w_dev w = st_dev st -> w_al w = st_al st -> (0 <= off)%Z ->
  file_read (c_ss c) w f off len = (w', x) ->
  exists n e got, x = ORes (Z.of_nat n) e got /\ n = length got /\
    reads_ok (c_ss c) (w_dev w) f (Z.to_nat off) got /\
    n <= Nat.min len (N.to_nat (f_size f) - Z.to_nat off) /\
    ((e = ENone \/ e = EEOF) -> n = Nat.min len (N.to_nat (f_size f) - Z.to_nat off)).
Proof. exact read_refines_lemma. Qed.
Print Assumptions read_refines_bytes.

(* file_refines_bytes, complete: the monitor of Spec.v -- the very [p_step] that
   Corr.v evaluates on the implementation's trace -- accepts the trace of the
   model for every history (all operations: NewFile, WriteAt, ReadAt,
   Truncate shrinking and growing, GetNextRegionOffset, Close, direct allocator
   calls, the final close-all/re-allocate-all step; every failure oracle).
   Its parts: [p_content] (ReadAt returns exactly the reference sparse byte
   array of the file: written bytes, hole source contents, null bytes in
   regions never written, also after shrinking and re-growing; right count
   and EOF flag; errors only with a failed collaborator call), sizes of all
   files after every operation, [p_seek], [p_sectors] at the level of single
   allocator / device calls (every sector handed out is free, every free and
   every device access is to a sector of the file operated on, allocation
   fails only when everything is held, close releases everything, full
   capacity is handed out again at the end), [p_quota].  [ops_wf]: hole
   sources are not longer than the file at NewFile (the HoleSource contract
   of the harness). *)
Theorem file_refines_bytes : forall c ops, 0 < c_ss c -> ops_wf ops ->
  trace_ok c (trace c (init c) ops) = true.
Proof. exact file_refines_bytes_lemma. Qed.
Print Assumptions file_refines_bytes.

(* Truncate, in every reachable state and for every failure oracle: bytes
   below the new size keep their value; a file reads as null bytes beyond its
   size both before and after (the tail of the last sector was zeroed, freed
   sectors read through the truncated hole source), so the bytes exposed by
   growing -- by this Truncate or, with write_refines_bytes, by a later
   WriteAt past the end -- are null; a failed Truncate leaves the size
   unchanged. *)
Theorem truncate_refines_bytes : forall c ops slot f w size w' f' e, 0 < c_ss c -> ops_wf ops ->
  let st := run c (init c) ops in
  get_file st slot = Some f -> w_dev w = st_dev st -> w_al w = st_al st -> (0 <= size)%Z ->
  file_truncate (c_ss c) w f size = (w', f', e) ->
  let sz := Z.to_nat size in
  (forall j, j < sz -> j < N.to_nat (f_size f) -> content (c_ss c) (w_dev w') f' j = content (c_ss c) (w_dev w) f j) /\
  (forall j, N.to_nat (f_size f) <= j -> content (c_ss c) (w_dev w) f j = 0%N) /\
  (forall j, N.to_nat (f_size f') <= j -> content (c_ss c) (w_dev w') f' j = 0%N) /\
  (e = ENone -> f_size f' = Z.to_N size /\
     forall j, N.to_nat (f_size f) <= j -> j < sz -> content (c_ss c) (w_dev w') f' j = 0%N) /\
  (e <> ENone -> f_size f' = f_size f /\ sz < N.to_nat (f_size f)).
Proof. exact truncate_refines_lemma. Qed.
Print Assumptions truncate_refines_bytes.

(* GetNextRegionOffset, in every reachable state: at sector granularity a byte
   is data iff its sector is allocated or the hole source reports data there
   ([data_at]).  SEEK_DATA returns the first data byte at or after the offset
   (below the size), or EOF exactly when there is none; SEEK_HOLE returns the
   first non-data byte at or after the offset, or the size; any other error is
   a failed hole source call; the call never panics (no hole at the end of the
   sector list). *)
Theorem seek_refines_regions : forall c ops slot f w off (data : bool) w' x, 0 < c_ss c -> ops_wf ops ->
  let st := run c (init c) ops in
  get_file st slot = Some f -> w_dev w = st_dev st -> w_al w = st_al st -> w_ev w = [] ->
  (0 <= off)%Z -> (Z.to_N off < f_size f)%N ->
  file_seek (c_ss c) w f off data = (w', x) ->
  exists r e, x = ORes r e [] /\ a_panic (w_al w') = false /\
    match e with
    | ENone => (0 <= r)%Z /\
               if data then DataRes c f (Z.to_nat off) (Z.to_nat r) else HoleRes c f (Z.to_nat off) (Z.to_nat r)
    | EEOF => data = true /\ forall j, Z.to_nat off <= j -> ~ data_at c f j
    | _ => e = EInjected /\ existsb is_failed_ev (w_ev w') = true
    end.
Proof. exact seek_refines_lemma. Qed.
Print Assumptions seek_refines_regions.

(* The allocator's 64-bit word arithmetic.  [allocate_w], [free_contig_w],
   [free_list_w] (ProofsWords.v) transcribe bitmap_sector_allocator.go over a
   list of uint64 words: the three scan phases of AllocateContiguous,
   bits.TrailingZeros64, the shift/mask expressions of allocateAt and
   freeWithMask, the loops over full words.  On a bitmap of the shape
   NewBitmapSectorAllocator builds ([WFW]: sectorCount/64+1 words < 2^64,
   bits from sectorCount on permanently 0 -- [allocator_words_init]) they
   compute exactly what the flat-bitmap allocator of Model.v computes:
   the same first sector, count, nextSector and new bitmap ([flat] = the
   first sectorCount bits), and the same panic condition when freeing. *)
Theorem allocator_words_init : forall nsec,
  WFW (init_words nsec) nsec /\ flat (init_words nsec) nsec = repeat true nsec.
Proof. exact init_words_ok. Qed.
Print Assumptions allocator_words_init.

Theorem allocator_words_refine_flat : forall ws nsec w maxi,
  WFW ws nsec -> a_free (w_al w) = flat ws nsec -> a_next (w_al w) <= nsec -> 1 <= maxi ->
  match allocate_w ws (a_next (w_al w)) maxi, snd (allocate w maxi) with
  | Some (ws', first, n, next'), Some (f1, n1) =>
    f1 = S first /\ n1 = n /\ WFW ws' nsec /\
    a_free (w_al (fst (allocate w maxi))) = flat ws' nsec /\ a_next (w_al (fst (allocate w maxi))) = next' /\
    next' <= nsec
  | None, None => True
  | _, _ => False
  end.
Proof. exact allocate_words_model. Qed.
Print Assumptions allocator_words_refine_flat.

Theorem allocator_words_free_contig : forall ws nsec first count ws' pn',
  WFW ws nsec -> 1 <= first -> 1 <= count -> first - 1 + count <= nsec ->
  free_contig_w ws first count = (ws', pn') ->
  WFW ws' nsec /\ flat ws' nsec = set_range (flat ws nsec) (first - 1) count true /\
  pn' = any_range (flat ws nsec) (first - 1) count.
Proof. exact free_contig_w_refines. Qed.
Print Assumptions allocator_words_free_contig.

Theorem allocator_words_free_list : forall nsec l ws pn ws' pn',
  WFW ws nsec -> (forall s, In s l -> s <= nsec) ->
  free_list_w ws l pn = (ws', pn') ->
  WFW ws' nsec /\ free_list_bits (flat ws nsec) l pn = (flat ws' nsec, pn').
Proof. exact free_list_w_refines. Qed.
Print Assumptions allocator_words_free_list.

(* Non-vacuity: a history that creates two files, fragments the device,
   fails a write half-way, and ends with everything closed. *)
Definition ex_cfg := mkCfg 4 6 3 40.
Definition ex_ops : list op :=
  [ mkOp (KNew 0 [7; 8]%N 2 false) None None None;
    mkOp (KNew 1 [] 0 false) None None None;
    mkOp (KWrite 0 3 [1; 2; 3; 4; 5; 6]%N) None None None;
    mkOp (KWrite 1 0 [9; 9; 9; 9; 9]%N) None None None;
    mkOp (KWrite 0 14 [5; 5; 5; 5; 5; 5; 5; 5; 5; 5; 5; 5]%N) (Some (1, 2, false)) None None;
    mkOp (KTrunc 0 5) None None None;
    mkOp (KNew 2 [] 30 true) None None None;
    mkOp (KClose 1) None None None ].

Example ex_reaches_fragmented_state :
  let st := run ex_cfg (init ex_cfg) ex_ops in
  a_free (st_al st) = [false; false; true; true; true; true] /\
  st_remb st = 35%N /\ st_remf st = 2%N /\
  option_map f_secs (get_file st 0) = Some [1; 2].
Proof. vm_compute. repeat split. Qed.

Example ex_ops_wf : ops_wf ex_ops.
Proof. intros o Ho. cbn in Ho. repeat destruct Ho as [<-|Ho]; try reflexivity. destruct Ho. Qed.

Example ex_trace_accepted : trace_ok ex_cfg (trace ex_cfg (init ex_cfg) ex_ops) = true.
Proof. vm_compute. reflexivity. Qed.
