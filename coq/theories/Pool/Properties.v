(* C15 — the property theorems, and nothing else. *)
From VF Require Import Pool.Model Pool.Spec Pool.Proofs.
