(* The bitmap sector allocator: what allocate / free_contig / free_list do
   to the invariant "a position is free iff its sector number is not held". *)
From Coq Require Import Lia ZifyBool ZifyNat Permutation.
From VF Require Import Pool.Model.

Ltac splits := repeat match goal with |- _ /\ _ => split end.

(* ---- generic list facts ------------------------------------------------- *)

Lemma seq1_seq first n : seq1 first n = seq first n.
Proof. revert first. induction n as [|n IH]; intros first; cbn; [reflexivity|now rewrite IH]. Qed.

Lemma in_seq1 s first n : In s (seq1 first n) <-> first <= s < first + n.
Proof. rewrite seq1_seq, in_seq. lia. Qed.

Lemma seq1_NoDup first n : NoDup (seq1 first n).
Proof. rewrite seq1_seq. apply seq_NoDup. Qed.

Lemma seq1_length first n : length (seq1 first n) = n.
Proof. rewrite seq1_seq. apply seq_length. Qed.

Lemma NoDup_app_iff {A} (a b : list A) :
  NoDup (a ++ b) <-> NoDup a /\ NoDup b /\ (forall x, In x a -> ~ In x b).
Proof.
  induction a as [|x a IH]; cbn.
  - split; [intros H; splits; [constructor|exact H|tauto]|tauto].
  - split.
    + intros H. inversion H as [|? ? Hn Hd]; subst. apply IH in Hd as (Ha & Hb & Hab).
      rewrite in_app_iff in Hn. splits; auto.
      * constructor; tauto.
      * intros y [<-|Hy]; [tauto|auto].
    + intros (Ha & Hb & Hab). inversion Ha as [|? ? Hn Hd]; subst. constructor.
      * rewrite in_app_iff. intros [?|?]; [tauto|]. apply (Hab x); auto.
      * apply IH. splits; auto.
Qed.

(* ---- set_range / any_range ---------------------------------------------- *)

Lemma set_range_length l i n v : length (set_range l i n v) = length l.
Proof.
  revert i n. induction l as [|b tl IH]; intros i n; cbn; [reflexivity|].
  destruct i; [destruct n|]; cbn; auto.
Qed.

Lemma set_range_nth l i n v j d :
  nth j (set_range l i n v) d =
  if (i <=? j) && (j <? i + n) && (j <? length l) then v else nth j l d.
Proof.
  revert i n j. induction l as [|b tl IH]; intros i n j; cbn [set_range length].
  - destruct j; cbn; destruct ((i <=? _) && _); cbn; try reflexivity;
      rewrite Bool.andb_false_r; reflexivity.
  - destruct i as [|i].
    + destruct n as [|n].
      * replace ((0 <=? j) && (j <? 0 + 0) && (j <? S (length tl))) with false by lia. reflexivity.
      * destruct j as [|j]; cbn [nth]; [reflexivity|].
        rewrite IH.
        match goal with |- (if ?a then _ else _) = (if ?b then _ else _) => replace b with a by lia; reflexivity end.
    + destruct j as [|j]; cbn [nth]; [reflexivity|].
      rewrite IH.
        match goal with |- (if ?a then _ else _) = (if ?b then _ else _) => replace b with a by lia; reflexivity end.
Qed.

Lemma any_range_false l i n :
  any_range l i n = false <-> (forall j, i <= j < i + n -> j < length l -> nth j l false = false).
Proof.
  revert i n. induction l as [|b tl IH]; intros i n; cbn [any_range length].
  - split; [intros _ j _ H; lia|reflexivity].
  - destruct i as [|i].
    + destruct n as [|n].
      * split; [intros _ j H; lia|reflexivity].
      * rewrite Bool.orb_false_iff, IH. split.
        -- intros [Hb H] j Hj Hl. destruct j as [|j]; cbn; [exact Hb|]. apply H; lia.
        -- intros H. split; [apply (H 0); lia|]. intros j Hj Hl. apply (H (S j)); lia.
    + rewrite IH. split.
      * intros H j Hj Hl. destruct j as [|j]; [lia|]. cbn. apply H; lia.
      * intros H j Hj Hl. apply (H (S j)); lia.
Qed.

(* ---- find_free / first_free / run_len ----------------------------------- *)

Lemma find_free_some l from pos i :
  find_free l from pos = Some i ->
  pos <= i /\ from <= i /\ i - pos < length l /\ nth (i - pos) l false = true.
Proof.
  revert pos. induction l as [|b tl IH]; intros pos; cbn; [discriminate|].
  destruct (b && (from <=? pos)) eqn:E.
  - intros [= <-]. replace (pos - pos) with 0 by lia. cbn. lia.
  - intros H. apply IH in H as (H1 & H2 & H3 & H4).
    replace (i - pos) with (S (i - S pos)) by lia. cbn. splits; try lia; exact H4.
Qed.

Lemma find_free_none l from pos :
  find_free l from pos = None ->
  forall j, j < length l -> from <= pos + j -> nth j l false = false.
Proof.
  revert pos. induction l as [|b tl IH]; intros pos; cbn; [intros _ j H; lia|].
  destruct (b && (from <=? pos)) eqn:E; [discriminate|].
  intros H j Hj Hf. destruct j as [|j]; cbn.
  - destruct b; [|reflexivity]. lia.
  - apply (IH (S pos)); auto; lia.
Qed.

Lemma first_free_some free next i :
  first_free free next = Some i -> i < length free /\ nth i free false = true.
Proof.
  unfold first_free. destruct (find_free free next 0) eqn:E.
  - intros [= <-]. apply find_free_some in E. replace (n - 0) with n in E by lia. tauto.
  - intros H. apply find_free_some in H. replace (i - 0) with i in H by lia. tauto.
Qed.

Lemma first_free_none free next :
  first_free free next = None -> forall j, j < length free -> nth j free false = false.
Proof.
  unfold first_free. destruct (find_free free next 0) eqn:E; [discriminate|].
  intros H j Hj. apply (find_free_none _ _ _ H j Hj). lia.
Qed.

Lemma run_len_spec l max :
  run_len l max <= max /\ run_len l max <= length l /\
  (forall j, j < run_len l max -> nth j l false = true) /\
  (1 <= max -> nth 0 l false = true -> 1 <= run_len l max).
Proof.
  revert max. induction l as [|b tl IH]; intros max.
  - destruct max; cbn; splits; try lia; intros j H; lia.
  - destruct max as [|m]; cbn.
    + splits; try lia; intros j H; lia.
    + destruct b; cbn.
      * destruct (IH m) as (H1 & H2 & H3 & _). splits; try lia.
        intros j Hj. destruct j; [reflexivity|]. apply H3. lia.
      * splits; try lia; intros j H; lia.
Qed.

Lemma nth_skipn {A} (l : list A) i j d : nth j (skipn i l) d = nth (i + j) l d.
Proof.
  revert l. induction i as [|i IH]; intros l; cbn; [reflexivity|].
  destruct l; cbn; [destruct j; reflexivity|apply IH].
Qed.

(* ---- the allocator invariant --------------------------------------------- *)

Definition AInv (nsec : nat) (a : alloc) (h : list nat) : Prop :=
  length (a_free a) = nsec /\ a_panic a = false /\ NoDup h /\
  (forall s, In s h -> 1 <= s <= nsec) /\
  (forall i, i < nsec -> (nth i (a_free a) false = true <-> ~ In (S i) h)).

Lemma AInv_perm nsec a h h' : Permutation h h' -> AInv nsec a h -> AInv nsec a h'.
Proof.
  intros P (H1 & H2 & H3 & H4 & H5).
  assert (Hin : forall s, In s h' <-> In s h).
  { intros s; split; intros; [eapply Permutation_in; [apply Permutation_sym|]|eapply Permutation_in]; eauto. }
  unfold AInv. splits; auto.
  - eapply Permutation_NoDup; eauto.
  - intros s Hs. apply H4, Hin, Hs.
  - intros i Hi. rewrite Hin. apply H5, Hi.
Qed.

Lemma AInv_next nsec f n n' p h : AInv nsec (mkA f n p) h -> AInv nsec (mkA f n' p) h.
Proof. unfold AInv; cbn; tauto. Qed.

Lemma allocate_some nsec w max w' first n h :
  AInv nsec (w_al w) h -> 1 <= max ->
  allocate w max = (w', Some (first, n)) ->
  AInv nsec (w_al w') (seq1 first n ++ h) /\ 1 <= n <= max /\
  w_dev w' = w_dev w /\ w_fw w' = w_fw w /\ w_fr w' = w_fr w /\ w_fh w' = w_fh w /\
  w_ev w' = EvAlloc max first n :: w_ev w.
Proof.
  intros (Hl & Hp & Hnd & Hr & Hf) Hmax. unfold allocate.
  destruct (first_free (a_free (w_al w)) (a_next (w_al w))) as [i|] eqn:E; [|discriminate].
  intros [= <- <- <-]. cbn [w_al w_dev w_fw w_fr w_fh w_ev log set_al a_free a_panic].
  apply first_free_some in E as [Hi Hti].
  destruct (run_len_spec (skipn i (a_free (w_al w))) max) as (R1 & R2 & R3 & R4).
  set (n := run_len (skipn i (a_free (w_al w))) max) in *.
  rewrite skipn_length in R2.
  assert (Hn1 : 1 <= n). { apply R4; auto. rewrite nth_skipn. now rewrite Nat.add_0_r. }
  assert (Hfree : forall j, i <= j < i + n -> nth j (a_free (w_al w)) false = true).
  { intros j Hj. specialize (R3 (j - i)). rewrite nth_skipn in R3.
    replace (i + (j - i)) with j in R3 by lia. apply R3. lia. }
  split; [|splits; auto; lia].
  unfold AInv. cbn [a_free a_panic]. splits.
  - now rewrite set_range_length.
  - exact Hp.
  - apply NoDup_app_iff. splits; auto using seq1_NoDup.
    intros s Hs Hh. apply in_seq1 in Hs.
    assert (Hs' : pred s < nsec) by lia.
    apply (proj1 (Hf (pred s) Hs')).
    + apply Hfree. lia.
    + now replace (S (pred s)) with s by lia.
  - intros s Hs. apply in_app_iff in Hs as [Hs|Hs]; [apply in_seq1 in Hs; lia|now apply Hr].
  - intros j Hj. rewrite set_range_nth, in_app_iff, in_seq1.
    destruct ((i <=? j) && (j <? i + n) && (j <? length (a_free (w_al w)))) eqn:E.
    + split; [discriminate|]. intros Hn. exfalso. apply Hn. left. lia.
    + rewrite (Hf j Hj). split; [intros Hn [Hc|Hc]; [lia|tauto]|tauto].
Qed.

Lemma allocate_none nsec w max w' h :
  AInv nsec (w_al w) h -> allocate w max = (w', None) ->
  w_al w' = w_al w /\ w_dev w' = w_dev w /\ w_fw w' = w_fw w /\ w_fr w' = w_fr w /\ w_fh w' = w_fh w /\
  w_ev w' = EvAllocFail max :: w_ev w /\
  (forall s, 1 <= s <= nsec -> In s h).
Proof.
  intros (Hl & Hp & Hnd & Hr & Hf). unfold allocate.
  destruct (first_free (a_free (w_al w)) (a_next (w_al w))) as [i|] eqn:E; [discriminate|].
  intros [= <-]. cbn. splits; auto.
  intros s Hs. pose proof (first_free_none _ _ E (pred s)) as Hn.
  destruct (in_dec Nat.eq_dec s h) as [Hin|Hin]; [exact Hin|exfalso].
  assert (Hs' : pred s < nsec) by lia.
  apply (Hf (pred s)) in Hs'. replace (S (pred s)) with s in Hs' by lia.
  apply Hs' in Hin. rewrite Hn in Hin; [discriminate|lia].
Qed.

(* freeing a set of held sectors *)
Lemma AInv_free nsec a h l rest fr :
  AInv nsec a h -> Permutation h (l ++ rest) ->
  length fr = nsec ->
  (forall i, i < nsec -> nth i fr false = if in_dec Nat.eq_dec (S i) l then true else nth i (a_free a) false) ->
  AInv nsec (mkA fr (a_next a) false) rest.
Proof.
  intros Ha P Hlen Hnth. apply (AInv_perm _ _ _ _ P) in Ha.
  destruct Ha as (Hl & Hp & Hnd & Hr & Hf). apply NoDup_app_iff in Hnd as (Hnl & Hnr & Hd).
  unfold AInv. cbn [a_free a_panic]. splits; auto.
  - intros s Hs. apply Hr, in_app_iff; auto.
  - intros i Hi. rewrite Hnth by auto. destruct (in_dec Nat.eq_dec (S i) l) as [Hs|Hs].
    + split; [|reflexivity]. intros _ Hin. apply (Hd _ Hs Hin).
    + rewrite (Hf i Hi), in_app_iff. tauto.
Qed.

Lemma free_contig_ok nsec w first n h rest :
  AInv nsec (w_al w) h -> 1 <= n -> Permutation h (seq1 first n ++ rest) ->
  AInv nsec (w_al (free_contig w first n)) rest.
Proof.
  intros Ha Hn P. pose proof Ha as (Hl & Hp & Hnd & Hr & Hf).
  assert (Hin : forall s, In s (seq1 first n) -> In s h).
  { intros s Hs. eapply Permutation_in; [apply Permutation_sym; exact P|]. apply in_app_iff; auto. }
  assert (H1 : 1 <= first) by (apply (Hr first), Hin, in_seq1; lia).
  assert (H2 : first + n - 1 <= nsec).
  { assert (In (first + n - 1) h) by (apply Hin, in_seq1; lia). apply Hr in H. lia. }
  unfold free_contig. cbn [w_al set_al log].
  assert (Hany : any_range (a_free (w_al w)) (pred first) n = false).
  { apply any_range_false. intros j Hj Hjl.
    destruct (nth j (a_free (w_al w)) false) eqn:E; [|reflexivity]. exfalso.
    apply (proj1 (Hf j ltac:(lia)) E). apply Hin, in_seq1. lia. }
  rewrite Hany, Hp. replace (length (a_free (w_al w)) <? pred first + n) with false by lia.
  replace (first =? 0) with false by lia. cbn [orb].
  eapply AInv_free; eauto.
  - now rewrite set_range_length.
  - intros i Hi. rewrite set_range_nth.
    destruct (in_dec Nat.eq_dec (S i) (seq1 first n)) as [Hs|Hs].
    + apply in_seq1 in Hs. replace ((pred first <=? i) && (i <? pred first + n) && (i <? length (a_free (w_al w)))) with true by lia. reflexivity.
    + rewrite in_seq1 in Hs. replace ((pred first <=? i) && (i <? pred first + n) && (i <? length (a_free (w_al w)))) with false by lia. reflexivity.
Qed.

Definition nz (l : list nat) : list nat := filter (fun s => negb (s =? 0)) l.

Lemma free_list_bits_ok nsec l : forall free pn h rest fr pn',
  AInv nsec (mkA free 0 pn) h -> Permutation h (nz l ++ rest) ->
  free_list_bits free l pn = (fr, pn') ->
  AInv nsec (mkA fr 0 pn') rest.
Proof.
  induction l as [|s l IH]; intros free pn h rest fr pn' Ha P; cbn [free_list_bits nz filter].
  - intros [= <- <-]. cbn in P. eapply AInv_perm; eauto.
  - destruct s as [|i]; cbn [Nat.eqb negb].
    + apply (IH free pn h rest fr pn' Ha P).
    + intros E. cbn [nz filter Nat.eqb negb app] in P.
      pose proof Ha as (Hl & Hp & Hnd & Hr & Hf). cbn [a_free a_panic] in Hl, Hp, Hf.
      assert (Hin : In (S i) h).
      { eapply Permutation_in; [apply Permutation_sym; exact P|]. now left. }
      pose proof (Hr _ Hin) as Hri.
      assert (Hany : any_range free i 1 = false).
      { apply any_range_false. intros j Hj Hjl. assert (j = i) by lia. subst j.
        destruct (nth i free false) eqn:E'; [|reflexivity]. exfalso.
        apply (proj1 (Hf i ltac:(lia)) E'). exact Hin. }
      rewrite Hany, Hp in E. replace (length free <=? i) with false in E by lia.
      cbn [orb] in E. eapply IH; [|apply Permutation_refl|exact E].
      change (mkA (set_range free i 1 true) 0 false) with (mkA (set_range free i 1 true) (a_next (mkA free 0 pn)) false).
      eapply (AInv_free nsec (mkA free 0 pn) h [S i]); eauto.
      * now rewrite set_range_length.
      * intros j Hj. rewrite set_range_nth. cbn [a_free].
        destruct (in_dec Nat.eq_dec (S j) [S i]) as [Hs|Hs].
        -- destruct Hs as [Hs|[]]. replace ((i <=? j) && (j <? i + 1) && (j <? length free)) with true by lia. reflexivity.
        -- assert (j <> i) by (intros ->; apply Hs; now left).
           replace ((i <=? j) && (j <? i + 1) && (j <? length free)) with false by lia. reflexivity.
Qed.

Lemma free_list_ok nsec w l h rest :
  AInv nsec (w_al w) h -> Permutation h (nz l ++ rest) ->
  AInv nsec (w_al (free_list w l)) rest.
Proof.
  intros Ha P. unfold free_list.
  destruct (free_list_bits (a_free (w_al w)) l (a_panic (w_al w))) as [fr pn] eqn:E.
  cbn [w_al set_al log].
  apply (AInv_next nsec fr 0). eapply free_list_bits_ok; eauto.
Qed.
