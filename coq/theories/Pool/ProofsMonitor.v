(* The monitor of Spec.v accepts every trace of the model: simulation between
   the monitor's ghost state (sector owners, reference byte arrays) and the
   model state, step by step. Part 1: the sector monitor [p_sectors]. *)
From Coq Require Import Lia ZifyBool ZifyNat ZifyN Permutation.
From VF Require Import Pool.Model Pool.Spec Pool.ProofsAlloc Pool.ProofsInv Pool.ProofsDev Pool.ProofsWrite
  Pool.ProofsContent Pool.ProofsRead Pool.ProofsRefine Pool.ProofsEvents Pool.ProofsTrunc Pool.ProofsSeek.

(* ---- the state invariant, with the per-file invariant ----------------------------------- *)

Definition Inv3 (c : cfg) (st : state) : Prop :=
  Inv2 c st /\ forall i f, get_file st i = Some f -> FWf (c_ss c) (st_dev st) f.

Definition ops_wf (ops : list op) : Prop := forall o, In o ops -> op_wf o = true.

Lemma get_file_mid l1 (fo : option file) l2 dev al raw rf rb i f :
  get_file (mkSt dev al (l1 ++ fo :: l2) raw rf rb) i = Some f ->
  (i = length l1 /\ fo = Some f) \/
  (i <> length l1 /\ forall fo' dev' al' raw' rf' rb', get_file (mkSt dev' al' (l1 ++ fo' :: l2) raw' rf' rb') i = Some f).
Proof.
  unfold get_file. cbn [st_files]. intros H.
  destruct (Nat.eq_dec i (length l1)) as [->|Hn].
  - left. split; auto. rewrite nth_error_app2, Nat.sub_diag in H by lia. cbn in H. destruct fo; congruence.
  - right. split; auto. intros fo' _ _ _ _ _.
    destruct (Nat.lt_ge_cases i (length l1)).
    + rewrite nth_error_app1 in * by auto. exact H.
    + rewrite nth_error_app2 in * by lia. destruct (i - length l1) as [|k] eqn:E; [lia|]. exact H.
Qed.

Lemma FWf_frame ss dev dev' f :
  (forall j, content ss dev' f j = content ss dev f j) -> FWf ss dev f -> FWf ss dev' f.
Proof. intros H (I1 & I2 & I3 & I4f). unfold FWf. splits; auto. intros j Hj. rewrite H. auto. Qed.

Lemma step_files c st o st' x evs :
  step c st o = (st', x, evs) -> op_k o <> KFinal ->
  forall g, slot_of (op_k o) <> Some g -> nth_error (st_files st') g = nth_error (st_files st) g.
Proof.
  intros E Hk g Hg. unfold step, finish, commit in E.
  destruct (op_k o); cbn [slot_of] in Hg; try congruence;
  repeat match type of E with
         | context[match ?d with _ => _ end] => destruct d eqn:?
         end; injection E as <- _ _; cbn [st_files]; auto; apply get_file_set_other; congruence.
Qed.

(* an operation on slot [i] that leaves a well-formed file there keeps Inv3 *)
Lemma Inv3_step c st o st' x evs :
  0 < c_ss c -> Inv3 c st -> step c st o = (st', x, evs) ->
  (forall i f', slot_of (op_k o) = Some i -> get_file st' i = Some f' -> FWf (c_ss c) (st_dev st') f') ->
  Inv3 c st'.
Proof.
  intros Hss ((HI & Hl) & HF) E Hslot.
  pose proof (step_inv _ _ _ _ _ _ Hss HI E) as HI'.
  pose proof (step_frame _ _ _ _ _ _ Hss HI Hl E) as (Hlen & Hfr).
  split; [split; [exact HI'|congruence]|].
  intros i f' Hg.
  assert (Hdec : slot_of (op_k o) = Some i \/ slot_of (op_k o) <> Some i).
  { destruct (slot_of (op_k o)) as [s|]; [destruct (Nat.eq_dec s i); [left; congruence|right; congruence]|right; discriminate]. }
  destruct Hdec as [Hs|Hs]; [exact (Hslot i f' Hs Hg)|].
  assert (Hfin : op_k o = KFinal \/ op_k o <> KFinal) by (destruct (op_k o); (now left) || (right; discriminate)).
  destruct Hfin as [Hk|Hk].
  - (* final: no file is left *)
    exfalso. unfold step in E. rewrite Hk in E. destruct (alloc_all _ _ _ _) as [w1 runs]. unfold finish, commit in E.
    injection E as <- _ _. unfold get_file in Hg. cbn [st_files] in Hg.
    destruct i as [|[|[|[|[|i]]]]]; cbn in Hg; try discriminate. destruct i; discriminate.
  - assert (Hb : get_file st i = Some f').
    { unfold get_file in *. now rewrite <- (step_files _ _ _ _ _ _ E Hk i Hs). }
    destruct (Hfr Hk i f' Hs Hb) as (_ & Hc). eapply FWf_frame; [exact Hc|apply (HF i f' Hb)].
Qed.

(* ---- one step, operation by operation (inversion of [step]) ------------------------------- *)

Definition fin (w : world) (x : out) : out := if a_panic (w_al w) then OPanic else x.

Definition same_file (f1 f2 : file) : Prop :=
  f_secs f1 = f_secs f2 /\ f_hole f1 = f_hole f2 /\ f_size f1 = f_size f2.

Lemma same_file_refl f : same_file f f.
Proof. unfold same_file. auto. Qed.

Lemma same_file_qsize f q : same_file (set_qsize f q) f.
Proof. unfold same_file. auto. Qed.

Lemma content_same_file ss dev f1 f2 j : same_file f1 f2 -> content ss dev f1 j = content ss dev f2 j.
Proof. intros (H1 & H2 & _). unfold content. now rewrite H1, H2. Qed.

Lemma FWf_same_file ss dev f1 f2 : same_file f1 f2 -> FWf ss dev f2 -> FWf ss dev f1.
Proof.
  intros S (I1 & I2 & I3 & I4f). pose proof S as (H1 & H2 & H3). unfold FWf. rewrite H1, H2, H3. splits; auto.
  intros j Hj. rewrite (content_same_file ss dev f1 f2 j S). auto.
Qed.

(* nothing happened: state unchanged, no calls *)
Definition noop (st : state) (o : op) (st' : state) (x : out) (evs : list event) (x0 : out) : Prop :=
  st' = st /\ evs = [] /\ x = fin (world_of st o) x0.

Lemma step_new_inv c st o slot hole size fb st' x evs :
  op_k o = KNew slot hole size fb -> step c st o = (st', x, evs) ->
  match nth_error (st_files st) slot with
  | Some None =>
    noop st o st' x evs (ORes 0 EInvalid []) /\
      ((st_remf st =? 0)%N = true \/ ((0 <? size)%N = true /\ (st_remb st <? size)%N = true)) \/
    (st' = st /\ evs = [EvBaseNew false] /\ x = fin (world_of st o) (ORes 0 EInjected []) /\ fb = true) \/
    (evs = [EvBaseNew true] /\ x = fin (world_of st o) (ORes 0 ENone []) /\
     st_files st' = set_nth (st_files st) slot (Some (mkFile hole size [] size)) /\
     st_dev st' = st_dev st /\ st_al st' = st_al st /\ st_raw st' = st_raw st)
  | _ => noop st o st' x evs OSkip
  end.
Proof.
  intros Hk. unfold step. rewrite Hk. unfold finish, commit, noop, fin.
  destruct (nth_error (st_files st) slot) as [[g|]|]; try (intros [= <- <- <-]; auto).
  destruct (st_remf st <? 1)%N eqn:E1; [intros [= <- <- <-]; left; splits; auto; left; lia|].
  destruct ((0 <? size)%N && (st_remb st <? size)%N) eqn:E2; [intros [= <- <- <-]; left; splits; auto; right; lia|].
  destruct fb; intros [= <- <- <-]; right; [left|right]; splits; auto.
Qed.

Lemma step_read_inv c st o slot off len st' x evs :
  op_k o = KRead slot off len -> step c st o = (st', x, evs) ->
  match get_file st slot with
  | None => noop st o st' x evs OSkip
  | Some f => exists w1 x1, file_read (c_ss c) (world_of st o) f off len = (w1, x1) /\
                st' = st /\ x = fin w1 x1 /\ evs = rev (w_ev w1)
  end.
Proof.
  intros Hk. unfold step. rewrite Hk. unfold finish, noop, fin.
  destruct (get_file st slot) as [f|]; [|intros [= <- <- <-]; auto].
  destruct (file_read _ _ _ _ _) as [w1 x1]. intros [= <- <- <-]. exists w1, x1. splits; auto.
Qed.

Lemma step_seek_inv c st o slot off data st' x evs :
  op_k o = KSeek slot off data -> step c st o = (st', x, evs) ->
  match get_file st slot with
  | None => noop st o st' x evs OSkip
  | Some f => exists w1 x1, file_seek (c_ss c) (world_of st o) f off data = (w1, x1) /\
                st' = st /\ x = fin w1 x1 /\ evs = rev (w_ev w1)
  end.
Proof.
  intros Hk. unfold step. rewrite Hk. unfold finish, noop, fin.
  destruct (get_file st slot) as [f|]; [|intros [= <- <- <-]; auto].
  destruct (file_seek _ _ _ _ _) as [w1 x1]. intros [= <- <- <-]. exists w1, x1. splits; auto.
Qed.

Lemma step_write_inv c st o slot off p st' x evs :
  op_k o = KWrite slot off p -> step c st o = (st', x, evs) ->
  match get_file st slot with
  | None => noop st o st' x evs OSkip
  | Some f =>
    noop st o st' x evs (ORes 0 EInvalid []) /\
      ((off < 0)%Z \/ (0 <= off)%Z /\ (st_remb st < Z.to_N off + N.of_nat (length p) - f_qsize f)%N) \/
    (0 <= off)%Z /\ exists w1 f1 n e f1',
      file_write (c_ss c) (world_of st o) f off p = (w1, f1, n, e) /\
      st_files st' = set_nth (st_files st) slot (Some f1') /\ same_file f1' f1 /\
      st_dev st' = w_dev w1 /\ st_al st' = w_al w1 /\ st_raw st' = st_raw st /\
      x = fin w1 (ORes (Z.of_nat n) e []) /\ evs = rev (w_ev w1)
  end.
Proof.
  intros Hk. unfold step. rewrite Hk. unfold finish, commit, noop, fin.
  destruct (get_file st slot) as [f|]; [|intros [= <- <- <-]; auto].
  destruct (off <? 0)%Z eqn:E0; [intros [= <- <- <-]; left; splits; auto; left; lia|].
  destruct (Z.to_N off + N.of_nat (length p) <=? f_qsize f)%N.
  - destruct (file_write _ _ _ _ _) as [[[w1 f1] n] e] eqn:EW. intros [= <- <- <-]. right. split; [lia|].
    exists w1, f1, n, e, f1. splits; auto using same_file_refl.
  - destruct (st_remb st <? _)%N eqn:E2; [intros [= <- <- <-]; left; splits; auto; right; lia|].
    destruct (file_write _ _ _ _ _) as [[[w1 f1] n] e] eqn:EW. intros [= <- <- <-]. right. split; [lia|].
    eexists w1, f1, n, e, _. split; [reflexivity|]. split; [reflexivity|]. splits; auto using same_file_qsize.
Qed.

Lemma step_trunc_inv c st o slot size st' x evs :
  op_k o = KTrunc slot size -> step c st o = (st', x, evs) ->
  match get_file st slot with
  | None => noop st o st' x evs OSkip
  | Some f =>
    noop st o st' x evs (ORes 0 EInvalid []) /\
      ((size < 0)%Z \/ (0 <= size)%Z /\ (f_qsize f < Z.to_N size)%N /\ (st_remb st < Z.to_N size - f_qsize f)%N) \/
    noop st o st' x evs (ORes 0 ENone []) /\ (0 <= size)%Z /\ Z.to_N size = f_qsize f \/
    (0 <= size)%Z /\ Z.to_N size <> f_qsize f /\ exists w1 f1 e f1',
      file_truncate (c_ss c) (world_of st o) f size = (w1, f1, e) /\
      st_files st' = set_nth (st_files st) slot (Some f1') /\ same_file f1' f1 /\
      st_dev st' = w_dev w1 /\ st_al st' = w_al w1 /\ st_raw st' = st_raw st /\
      x = fin w1 (ORes 0 e []) /\ evs = rev (w_ev w1)
  end.
Proof.
  intros Hk. unfold step. rewrite Hk. unfold finish, commit, noop, fin.
  destruct (get_file st slot) as [f|]; [|intros [= <- <- <-]; auto].
  destruct (size <? 0)%Z eqn:E0; [intros [= <- <- <-]; left; splits; auto; left; lia|].
  destruct (Z.to_N size <? f_qsize f)%N eqn:E1; [|destruct (f_qsize f <? Z.to_N size)%N eqn:E2].
  - destruct (file_truncate _ _ _ _) as [[w1 f1] e] eqn:ET. intros H. right. right. split; [lia|]. split; [lia|].
    destruct e; injection H as <- <- <-; eexists w1, f1, _, _; (split; [reflexivity|]); (split; [reflexivity|]);
      splits; auto using same_file_qsize, same_file_refl.
  - destruct (st_remb st <? _)%N eqn:E3; [intros [= <- <- <-]; left; splits; auto; right; lia|].
    destruct (file_truncate _ _ _ _) as [[w1 f1] e] eqn:ET. intros H. right. right. split; [lia|]. split; [lia|].
    destruct e; injection H as <- <- <-; eexists w1, f1, _, _; (split; [reflexivity|]); (split; [reflexivity|]);
      splits; auto using same_file_qsize, same_file_refl.
  - intros [= <- <- <-]. right. left. splits; auto; lia.
Qed.

Lemma step_close_inv c st o slot st' x evs :
  op_k o = KClose slot -> step c st o = (st', x, evs) ->
  match get_file st slot with
  | None => noop st o st' x evs OSkip
  | Some f => exists w1 e, file_close (world_of st o) f = (w1, e) /\
      st_files st' = set_nth (st_files st) slot None /\
      st_dev st' = w_dev w1 /\ st_al st' = w_al w1 /\ st_raw st' = st_raw st /\
      x = fin w1 (ORes 0 e []) /\ evs = rev (w_ev w1)
  end.
Proof.
  intros Hk. unfold step. rewrite Hk. unfold finish, commit, noop, fin.
  destruct (get_file st slot) as [f|]; [|intros [= <- <- <-]; auto].
  destruct (file_close _ _) as [w1 e]. intros [= <- <- <-]. eexists w1, e. splits; auto.
Qed.

Lemma nth_error_set_nth_same {A} (l : list A) i v : nth_error (set_nth l i v) i = if i <? length l then Some v else None.
Proof.
  revert i. induction l as [|x tl IH]; intros i; [destruct i; reflexivity|].
  destruct i; [reflexivity|]. cbn [set_nth nth_error length]. rewrite IH.
  destruct (i <? length tl) eqn:E; [replace (S i <? S (length tl)) with true by lia|replace (S i <? S (length tl)) with false by lia]; reflexivity.
Qed.

Lemma get_set_nth st st' slot v f' :
  st_files st' = set_nth (st_files st) slot v -> get_file st' slot = Some f' -> v = Some f'.
Proof.
  unfold get_file. intros ->. rewrite nth_error_set_nth_same. destruct (slot <? _); [|discriminate].
  destruct v; congruence.
Qed.

Lemma world_of_fields st o : w_dev (world_of st o) = st_dev st /\ w_al (world_of st o) = st_al st /\ w_ev (world_of st o) = [].
Proof. unfold world_of. cbn. auto. Qed.

Lemma step_inv3 c st o st' x evs :
  0 < c_ss c -> Inv3 c st -> op_wf o = true -> step c st o = (st', x, evs) -> Inv3 c st'.
Proof.
  intros Hss H3 Hwf E. pose proof H3 as ((HI & Hl) & HF). eapply Inv3_step; eauto.
  intros i f' Hs Hg. destruct (op_k o) eqn:Hk; cbn in Hs; try discriminate; injection Hs as ->.
  - (* new *)
    pose proof (step_new_inv _ _ _ _ _ _ _ _ _ _ Hk E) as HN.
    destruct (nth_error (st_files st) i) as [[g|]|] eqn:En; try (destruct HN as (-> & _); now apply (HF i)).
    destruct HN as [((-> & _) & _)|[(-> & _)|(_ & _ & Hf & Hd & _)]]; try (now apply (HF i)).
    apply (get_set_nth _ _ _ _ _ Hf) in Hg. injection Hg as <-. rewrite Hd.
    unfold op_wf in Hwf. rewrite Hk in Hwf. unfold FWf. cbn [f_hole f_size f_secs length Nat.mul].
    splits; try lia.
    + intros j Hj. unfold content. cbn [f_secs f_hole]. destruct (j / c_ss c); cbn; apply nth_overflow; lia.
    + unfold I4. intros m Hm. discriminate.
  - pose proof (step_read_inv _ _ _ _ _ _ _ _ _ Hk E) as HN.
    destruct (get_file st i); [destruct HN as (w1 & x1 & _ & -> & _)|destruct HN as (-> & _)]; now apply (HF i).
  - (* write *)
    pose proof (step_write_inv _ _ _ _ _ _ _ _ _ Hk E) as HN.
    destruct (get_file st i) as [f|] eqn:Ef; [|destruct HN as (-> & _); now apply (HF i)].
    destruct HN as [((-> & _) & _)|(Hoff & w1 & f1 & n & e & f1' & EW & Hf & Hsame & Hd & _)]; [now apply (HF i)|].
    apply (get_set_nth _ _ _ _ _ Hf) in Hg. injection Hg as <-. rewrite Hd.
    destruct (slot_ainv _ _ _ _ HI Ef) as (oth & Ha). eapply FWf_same_file; [exact Hsame|].
    eapply (file_write_wf (c_ss c) (c_nsec c) Hss (world_of st o) f off data w1 f1 n e oth);
      [exact Ha|exact Hl|exact Hoff|exact EW|apply (HF i f Ef)].
  - (* truncate *)
    pose proof (step_trunc_inv _ _ _ _ _ _ _ _ Hk E) as HN.
    destruct (get_file st i) as [f|] eqn:Ef; [|destruct HN as (-> & _); now apply (HF i)].
    destruct HN as [((-> & _) & _)|[((-> & _) & _)|(Hsz & _ & w1 & f1 & e & f1' & ET & Hf & Hsame & Hd & _)]]; try (now apply (HF i)).
    apply (get_set_nth _ _ _ _ _ Hf) in Hg. injection Hg as <-. rewrite Hd.
    destruct (slot_ainv _ _ _ _ HI Ef) as (oth & Ha). eapply FWf_same_file; [exact Hsame|].
    eapply (file_truncate_wf (c_ss c) (c_nsec c) Hss (world_of st o) f size w1 f1 e oth);
      [exact Ha|exact Hl|exact Hsz|exact ET|apply (HF i f Ef)].
  - pose proof (step_seek_inv _ _ _ _ _ _ _ _ _ Hk E) as HN.
    destruct (get_file st i); [destruct HN as (w1 & x1 & _ & -> & _)|destruct HN as (-> & _)]; now apply (HF i).
  - (* close *)
    pose proof (step_close_inv _ _ _ _ _ _ _ Hk E) as HN.
    destruct (get_file st i) as [f|] eqn:Ef; [|destruct HN as (-> & _); now apply (HF i)].
    destruct HN as (w1 & e & _ & Hf & _). apply (get_set_nth _ _ _ _ _ Hf) in Hg. discriminate.
Qed.

Lemma init_inv3 c : Inv3 c (init c).
Proof.
  split; [apply init_inv2|]. intros i f. unfold get_file, init. cbn [st_files].
  destruct i as [|[|[|[|[|i]]]]]; cbn; try discriminate. destruct i; discriminate.
Qed.

Lemma run_inv3 c ops : 0 < c_ss c -> ops_wf ops -> forall st, Inv3 c st -> Inv3 c (run c st ops).
Proof.
  intros Hss. induction ops as [|o tl IH]; intros Hwf st HI; cbn [run]; auto.
  destruct (step c st o) as [[st' x] evs] eqn:E. apply IH.
  - intros o' Ho. apply Hwf. now right.
  - eapply step_inv3; eauto. apply Hwf. now left.
Qed.

(* ---- Part 1: the sector monitor ----------------------------------------------------------------- *)

Definition RO (m : list nat) (fo : option file) : Prop := Permutation m (fsecs fo).

Definition own_rel (o : sown) (st : state) : Prop :=
  Forall2 RO (so_files o) (st_files st) /\ Permutation (so_raw o) (raw_secs (st_raw st)).

Lemma concat_perm o1 l1 : Forall2 RO o1 l1 -> Permutation (concat o1) (flat_map fsecs l1).
Proof. induction 1; cbn [concat flat_map]; [constructor|]. now apply Permutation_app. Qed.

Lemma Forall2_len {A B} (R : A -> B -> Prop) a b : Forall2 R a b -> length a = length b.
Proof. induction 1; cbn; congruence. Qed.

Lemma skipn_mid {A} (l1 : list A) x l2 : skipn (S (length l1)) (l1 ++ x :: l2) = l2.
Proof. induction l1; cbn; [reflexivity|exact IHl1]. Qed.

Lemma set_nth_mid {A} (l1 : list A) x l2 v : set_nth (l1 ++ x :: l2) (length l1) v = l1 ++ v :: l2.
Proof. induction l1; cbn; [reflexivity|now rewrite IHl1]. Qed.

Lemma own_split own st l1 fo l2 :
  own_rel own st -> st_files st = l1 ++ fo :: l2 ->
  exists o1 m o2, so_files own = o1 ++ m :: o2 /\ length o1 = length l1 /\
    Forall2 RO o1 l1 /\ RO m fo /\ Forall2 RO o2 l2 /\
    nth (length l1) (so_files own) [] = m /\
    Permutation (others_of own (Some (length l1)))
                (flat_map fsecs l1 ++ flat_map fsecs l2 ++ raw_secs (st_raw st)) /\
    forall m', set_nth (so_files own) (length l1) m' = o1 ++ m' :: o2.
Proof.
  intros (HF & HR) Hfiles. rewrite Hfiles in HF.
  apply Forall2_app_inv_r in HF as (o1 & o2' & H1 & H2 & Hsf). inversion H2 as [|m fo' o2 l2' Hm H2' E1 E2]; subst.
  pose proof (Forall2_len _ _ _ H1) as Hlen.
  exists o1, m, o2. rewrite Hsf. splits; auto.
  - rewrite <- Hlen. rewrite app_nth2, Nat.sub_diag by lia. reflexivity.
  - unfold others_of. rewrite Hsf, <- Hlen.
    rewrite firstn_app, Nat.sub_diag, firstn_all, firstn_O, app_nil_r.
    rewrite skipn_mid.
    apply Permutation_app; [now apply concat_perm|]. apply Permutation_app; [now apply concat_perm|exact HR].
  - intros m'. rewrite <- Hlen. apply set_nth_mid.
Qed.

Lemma slot_lw c own st l1 fo l2 o :
  Inv2 c st -> own_rel own st -> st_files st = l1 ++ fo :: l2 ->
  LW c (flat_map fsecs l1 ++ flat_map fsecs l2 ++ raw_secs (st_raw st)) (nth (length l1) (so_files own) []) []
     (world_of st o) (fsecs fo).
Proof.
  intros (HI & Hl) HO Hfiles. destruct (own_split _ _ _ _ _ HO Hfiles) as (o1 & m & o2 & _ & _ & _ & Hm & _ & Hn & _).
  split; [|split].
  - apply (Inv_slot_ainv _ _ _ _ _ HI Hfiles).
  - exact Hl.
  - exists [], (nth (length l1) (so_files own) []). splits; auto. rewrite Hn. exact Hm.
Qed.

Lemma LW_result c oth m w1 h :
  LW c oth m [] w1 h ->
  exists mine, sect_events c oth m (rev (w_ev w1)) = Good mine /\ Permutation mine h /\ a_panic (w_al w1) = false.
Proof.
  intros ((_ & Hp & _) & _ & (evs & mine & Hev & Hs & P)). exists mine. rewrite Hev, app_nil_r. auto.
Qed.

Lemma slot_finish c own st l1 fo l2 k x0 w1 fo' st' :
  own_rel own st -> st_files st = l1 ++ fo :: l2 -> length l1 < nslots -> slot_of k = Some (length l1) ->
  LW c (flat_map fsecs l1 ++ flat_map fsecs l2 ++ raw_secs (st_raw st)) (nth (length l1) (so_files own) []) [] w1 (fsecs fo') ->
  st_files st' = l1 ++ fo' :: l2 -> st_raw st' = st_raw st ->
  (match k, x0 with KClose _, ORes _ _ _ => fo' = None | _, _ => True end) -> x0 <> OPanic ->
  exists own', p_sectors c own k (fin w1 x0) (rev (w_ev w1)) = Good own' /\ own_rel own' st' /\ fin w1 x0 = x0.
Proof.
  intros HO Hfiles Hi Hslot HL Hf' Hr' Hclose Hx.
  destruct (own_split _ _ _ _ _ HO Hfiles) as (o1 & m & o2 & Hsf & Hlen & H1 & Hm & H2 & Hn & Hoth & Hset).
  destruct (LW_result _ _ _ _ _ HL) as (mine & Hs & P & Hp).
  unfold fin. rewrite Hp.
  exists (mkOwn (set_nth (so_files own) (length l1) mine) (so_raw own)).
  rewrite <- (sect_events_perm_others c _ _ _ Hoth) in Hs.
  assert (Hown : own_rel (mkOwn (set_nth (so_files own) (length l1) mine) (so_raw own)) st').
  { destruct HO as (_ & HR). split; cbn [so_files so_raw]; [|now rewrite Hr'].
    rewrite Hset, Hf'. apply Forall2_app; auto. }
  assert (Hlt : (length l1 <? nslots) = true) by lia.
  split; [|split; auto].
  destruct k; cbn [slot_of] in Hslot; try discriminate; injection Hslot as ->;
    destruct x0; try congruence; unfold p_sectors; cbn [slot_of]; rewrite Hlt, Hs; cbn [bind check]; try reflexivity.
  subst fo'. cbn [fsecs] in P. apply Permutation_sym, Permutation_nil in P. subst mine. reflexivity.
Qed.

Lemma files_split st i : i < length (st_files st) ->
  exists l1 fo l2, st_files st = l1 ++ fo :: l2 /\ length l1 = i.
Proof.
  intros Hi. destruct (nth_error (st_files st) i) as [fo|] eqn:E; [|apply nth_error_None in E; lia].
  apply nth_error_split in E as (l1 & l2 & H1 & H2). eauto.
Qed.

Lemma noop_sectors c own st o st' x evs x0 k i :
  Inv2 c st -> own_rel own st -> noop st o st' x evs x0 -> slot_of k = Some i ->
  x0 <> OPanic -> (match k, x0 with KClose _, ORes _ _ _ => False | _, _ => True end) ->
  exists own', p_sectors c own k x evs = Good own' /\ own_rel own' st' /\ x = x0.
Proof.
  intros H2 HO (-> & -> & ->) Hslot Hx Hclose. pose proof H2 as (HI & Hl).
  destruct (Nat.lt_ge_cases i nslots) as [Hi|Hi].
  - destruct (files_split st i) as (l1 & fo & l2 & Hfiles & Hlen); [rewrite (inv_slots _ _ HI); exact Hi|]. subst i.
    pose proof (slot_lw c own st l1 fo l2 o H2 HO Hfiles) as HL.
    apply (slot_finish c own st l1 fo l2 k x0 (world_of st o) fo st HO Hfiles Hi Hslot HL Hfiles eq_refl); auto.
    destruct k; auto. destruct x0; auto. contradiction.
  - destruct HI as [(_ & Hp & _) _ _ _ _ _]. unfold fin. cbn [world_of w_al]. rewrite Hp.
    exists own. split; [|auto]. assert (Hlt : (i <? nslots) = false) by lia.
    destruct k; cbn [slot_of] in Hslot; try discriminate; injection Hslot as ->;
      destruct x0; try congruence; unfold p_sectors; cbn [slot_of]; rewrite Hlt; reflexivity.
Qed.

Lemma LW_log_neutral c oth m base w h e :
  LW c oth m base w h -> (forall mine, sect_event c oth mine e = Good mine) -> LW c oth m base (log w e) h.
Proof.
  intros (Ha & Hl & Ht) He. split; [|split]; auto. eapply Tr_log_same; eauto. reflexivity.
Qed.

(* ReadAt / GetNextRegionOffset, including their argument checks *)
Lemma file_read_lw' c oth m w f off len w' x :
  0 < c_ss c -> LW c oth m [] w (nz (f_secs f)) -> file_read (c_ss c) w f off len = (w', x) ->
  exists n e got, x = ORes n e got /\ LW c oth m [] w' (nz (f_secs f)).
Proof.
  intros Hss HL H. destruct (off <? 0)%Z eqn:E.
  - unfold file_read in H. rewrite E in H. injection H as <- <-. eauto.
  - assert (Hoff : (0 <= off)%Z) by lia.
    destruct (file_read_lw c oth m [] Hss _ _ _ _ _ _ HL Hoff H) as (n & e & got & -> & HL' & _). eauto.
Qed.

Lemma file_seek_lw' c oth m w f off data w' x :
  0 < c_ss c -> FWf (c_ss c) (w_dev w) f -> LW c oth m [] w (nz (f_secs f)) ->
  file_seek (c_ss c) w f off data = (w', x) ->
  exists n e, x = ORes n e [] /\ LW c oth m [] w' (nz (f_secs f)).
Proof.
  intros Hss (I1 & _ & I3 & I4f) HL H. destruct (off <? 0)%Z eqn:E.
  { unfold file_seek in H. rewrite E in H. injection H as <- <-. eauto. }
  destruct (f_size f <=? Z.to_N off)%N eqn:E2.
  { unfold file_seek in H. rewrite E, E2 in H. injection H as <- <-. eauto. }
  assert (Hoff : (0 <= off)%Z) by lia. assert (Hlt : (Z.to_N off < f_size f)%N) by lia.
  destruct (file_seek_spec c oth m [] Hss _ _ _ _ _ _ _ I1 I3 I4f HL Hoff Hlt H) as (r & e & -> & HL' & _).
  eauto.
Qed.

Lemma step_sectors_slot c st o st' x evs own i :
  0 < c_ss c -> Inv3 c st -> own_rel own st -> step c st o = (st', x, evs) -> slot_of (op_k o) = Some i ->
  exists own', p_sectors c own (op_k o) x evs = Good own' /\ own_rel own' st'.
Proof.
  intros Hss (H2 & HF) HO E Hslot. pose proof H2 as (HI & Hl).
  assert (Hnoop : forall x0, noop st o st' x evs x0 -> x0 <> OPanic ->
            (match op_k o, x0 with KClose _, ORes _ _ _ => False | _, _ => True end) ->
            exists own', p_sectors c own (op_k o) x evs = Good own' /\ own_rel own' st').
  { intros x0 Hn Hx Hc. destruct (noop_sectors c own st o st' x evs x0 (op_k o) i H2 HO Hn Hslot Hx Hc) as (own' & H1 & H3 & _).
    eauto. }
  (* an operation that ran on the open file f of slot i *)
  assert (Hrun : forall f l1 l2 w1 x0 fo',
    st_files st = l1 ++ Some f :: l2 -> length l1 = i ->
    LW c (flat_map fsecs l1 ++ flat_map fsecs l2 ++ raw_secs (st_raw st)) (nth (length l1) (so_files own) []) [] w1 (fsecs fo') ->
    st_files st' = l1 ++ fo' :: l2 -> st_raw st' = st_raw st ->
    (match op_k o, x0 with KClose _, ORes _ _ _ => fo' = None | _, _ => True end) -> x0 <> OPanic ->
    x = fin w1 x0 -> evs = rev (w_ev w1) ->
    exists own', p_sectors c own (op_k o) x evs = Good own' /\ own_rel own' st').
  { intros f l1 l2 w1 x0 fo' Hfiles Hlen HL Hf' Hr' Hc Hx -> ->. subst i.
    assert (Hi : length l1 < nslots).
    { rewrite <- (inv_slots _ _ HI), Hfiles, app_length. cbn. lia. }
    destruct (slot_finish c own st l1 (Some f) l2 (op_k o) x0 w1 fo' st' HO Hfiles Hi Hslot HL Hf' Hr' Hc Hx) as (own' & H1 & H3 & _).
    eauto. }
  destruct (op_k o) eqn:Hk; cbn [slot_of] in Hslot; try discriminate; injection Hslot as ->.
  - (* new *)
    pose proof (step_new_inv _ _ _ _ _ _ _ _ _ _ Hk E) as HN.
    destruct (nth_error (st_files st) i) as [[g|]|] eqn:En; try (apply (Hnoop OSkip); auto; discriminate).
    destruct (empty_slot_split _ _ En) as (l1 & l2 & Hfiles & Hlen & Hset).
    pose proof (slot_lw c own st l1 None l2 o H2 HO Hfiles) as HL.
    assert (Hi : length l1 < nslots).
    { rewrite <- (inv_slots _ _ HI), Hfiles, app_length. cbn. lia. }
    destruct HN as [(Hn & _)|[(-> & -> & -> & _)|(-> & -> & Hf & Hd & Ha & Hr)]].
    + apply (Hnoop (ORes 0 EInvalid [])); auto; discriminate.
    + subst i.
      destruct (slot_finish c own st l1 None l2 (KNew (length l1) hole size fail_base) (ORes 0 EInjected [])
                  (log (world_of st o) (EvBaseNew false)) None st HO Hfiles Hi eq_refl) as (own' & H1 & H3 & _); auto; try discriminate.
      { apply LW_log_neutral; auto. }
      exists own'. split; auto.
    + subst i.
      destruct (slot_finish c own st l1 None l2 (KNew (length l1) hole size fail_base) (ORes 0 ENone [])
                  (log (world_of st o) (EvBaseNew true)) (Some (mkFile hole size [] size)) st' HO Hfiles Hi eq_refl) as (own' & H1 & H3 & _); auto; try discriminate.
      { apply LW_log_neutral; auto. }
      { rewrite Hf. apply Hset. }
      exists own'. split; auto.
  - (* read *)
    pose proof (step_read_inv _ _ _ _ _ _ _ _ _ Hk E) as HN.
    destruct (get_file st i) as [f|] eqn:Ef; [|apply (Hnoop OSkip); auto; discriminate].
    destruct HN as (w1 & x1 & ER & -> & -> & ->).
    apply get_file_split in Ef as (l1 & l2 & Hfiles & Hlen & Hset).
    pose proof (slot_lw c own st l1 (Some f) l2 o H2 HO Hfiles) as HL.
    destruct (file_read_lw' _ _ _ _ _ _ _ _ _ Hss HL ER) as (n & e & got & -> & HL').
    eapply (Hrun f l1 l2 w1 _ (Some f)); eauto. discriminate.
  - (* write *)
    pose proof (step_write_inv _ _ _ _ _ _ _ _ _ Hk E) as HN.
    destruct (get_file st i) as [f|] eqn:Ef; [|apply (Hnoop OSkip); auto; discriminate].
    destruct HN as [(Hn & _)|(Hoff & w1 & f1 & n & e & f1' & EW & Hf & (Hsame & _) & Hd & Ha & Hr & -> & ->)].
    { apply (Hnoop (ORes 0 EInvalid [])); auto; discriminate. }
    apply get_file_split in Ef as (l1 & l2 & Hfiles & Hlen & Hset).
    pose proof (slot_lw c own st l1 (Some f) l2 o H2 HO Hfiles) as HL.
    destruct (file_write_lw c _ _ [] Hss _ _ _ _ _ _ _ _ HL Hoff EW) as ((HL' & _) & _).
    eapply (Hrun f l1 l2 w1 _ (Some f1')); eauto; [|rewrite Hf; apply Hset|discriminate].
    cbn [fsecs]. now rewrite Hsame.
  - (* truncate *)
    pose proof (step_trunc_inv _ _ _ _ _ _ _ _ Hk E) as HN.
    destruct (get_file st i) as [f|] eqn:Ef; [|apply (Hnoop OSkip); auto; discriminate].
    destruct HN as [(Hn & _)|[(Hn & _)|(Hsz & _ & w1 & f1 & e & f1' & ET & Hf & (Hsame & _) & Hd & Ha & Hr & -> & ->)]].
    { apply (Hnoop (ORes 0 EInvalid [])); auto; discriminate. }
    { apply (Hnoop (ORes 0 ENone [])); auto; discriminate. }
    apply get_file_split in Ef as (l1 & l2 & Hfiles & Hlen & Hset).
    pose proof (slot_lw c own st l1 (Some f) l2 o H2 HO Hfiles) as HL.
    destruct (file_truncate_lw c _ _ [] Hss _ _ _ _ _ _ HL ET Hsz) as (HL' & _).
    eapply (Hrun f l1 l2 w1 _ (Some f1')); eauto; [|rewrite Hf; apply Hset|discriminate].
    cbn [fsecs]. now rewrite Hsame.
  - (* seek *)
    pose proof (step_seek_inv _ _ _ _ _ _ _ _ _ Hk E) as HN.
    destruct (get_file st i) as [f|] eqn:Ef; [|apply (Hnoop OSkip); auto; discriminate].
    destruct HN as (w1 & x1 & ER & -> & -> & ->). pose proof (HF i f Ef) as Hwf.
    apply get_file_split in Ef as (l1 & l2 & Hfiles & Hlen & Hset).
    pose proof (slot_lw c own st l1 (Some f) l2 o H2 HO Hfiles) as HL.
    destruct (file_seek_lw' c _ _ (world_of st o) f off data w1 x1 Hss Hwf HL ER) as (n & e & -> & HL').
    eapply (Hrun f l1 l2 w1 _ (Some f)); eauto. discriminate.
  - (* close *)
    pose proof (step_close_inv _ _ _ _ _ _ _ Hk E) as HN.
    destruct (get_file st i) as [f|] eqn:Ef; [|apply (Hnoop OSkip); auto; discriminate].
    destruct HN as (w1 & e & EC & Hf & Hd & Ha & Hr & -> & ->).
    apply get_file_split in Ef as (l1 & l2 & Hfiles & Hlen & Hset).
    pose proof (slot_lw c own st l1 (Some f) l2 o H2 HO Hfiles) as HL.
    destruct (file_close_lw c _ _ [] Hss _ _ _ _ HL EC) as (HL' & _).
    eapply (Hrun f l1 l2 w1 (ORes 0 e []) None);
      [exact Hfiles|exact Hlen|exact HL'|rewrite Hf; apply Hset|exact Hr|reflexivity|discriminate|reflexivity|reflexivity].
Qed.

(* ---- direct allocator calls ------------------------------------------------------------------------ *)

Lemma raw_lw c own st o :
  Inv2 c st -> own_rel own st ->
  LW c (flat_map fsecs (st_files st)) (so_raw own) [] (world_of st o) (raw_secs (st_raw st)).
Proof.
  intros (HI & Hl) (_ & HR). split; [|split].
  - eapply AInv_perm; [|apply (inv_al _ _ HI)]. apply Permutation_app_comm.
  - exact Hl.
  - exists [], (so_raw own). splits; auto.
Qed.

Lemma raw_finish c own st k x0 w1 st' h' :
  own_rel own st -> (exists a, k = KRawAlloc a) \/ (exists a b, k = KRawFree a b) ->
  LW c (flat_map fsecs (st_files st)) (so_raw own) [] w1 h' -> Permutation h' (raw_secs (st_raw st')) ->
  st_files st' = st_files st -> x0 <> OPanic ->
  exists own', p_sectors c own k (fin w1 x0) (rev (w_ev w1)) = Good own' /\ own_rel own' st'.
Proof.
  intros (HF & HR) Hk HL P Hf Hx. destruct (LW_result _ _ _ _ _ HL) as (mine & Hs & Pm & Hp).
  unfold fin. rewrite Hp. exists (mkOwn (so_files own) mine).
  rewrite <- (sect_events_perm_others c _ _ _ (concat_perm _ _ HF)) in Hs.
  split.
  - destruct Hk as [(a & ->)|(a & b & ->)]; destruct x0; try congruence; unfold p_sectors; rewrite Hs; reflexivity.
  - split; cbn [so_files so_raw]; [now rewrite Hf|]. eapply Permutation_trans; eauto.
Qed.

Lemma step_sectors_raw c st o st' x evs own :
  0 < c_ss c -> Inv2 c st -> own_rel own st -> step c st o = (st', x, evs) ->
  (exists a, op_k o = KRawAlloc a) \/ (exists a b, op_k o = KRawFree a b) ->
  exists own', p_sectors c own (op_k o) x evs = Good own' /\ own_rel own' st'.
Proof.
  intros Hss H2 HO E Hk. pose proof H2 as (HI & Hl). pose proof (raw_lw c own st o H2 HO) as HL.
  assert (Hskip : step c st o = finish st (world_of st o) OSkip ->
    exists own', p_sectors c own (op_k o) x evs = Good own' /\ own_rel own' st').
  { intros E'. rewrite E in E'. unfold finish in E'. injection E' as -> -> ->.
    apply (raw_finish c own st (op_k o) OSkip (world_of st o) st (raw_secs (st_raw st))); auto. discriminate. }
  destruct Hk as [(max & Hk)|(idx & asl & Hk)].
  - unfold step in *. rewrite Hk in *. destruct (max =? 0) eqn:E0; [auto|].
    destruct (allocate (world_of st o) max) as [w1 [[first n]|]] eqn:EA; unfold finish, commit in E; injection E as <- <- <-.
    + assert (Hmax : 1 <= max) by lia.
      destruct (LW_alloc_some c _ _ [] Hss _ _ _ _ _ _ HL Hmax EA) as (HL' & _).
      eapply (raw_finish c own st _ _ w1 _ _); eauto; try discriminate.
      cbn [st_raw]. rewrite raw_secs_app. change (raw_secs [(first, n)]) with (seq1 first n ++ []). rewrite app_nil_r.
      apply Permutation_app_comm.
    + destruct (LW_alloc_none c _ _ [] Hss _ _ _ _ HL EA) as (HL' & _).
      eapply (raw_finish c own st _ _ w1 _ _); eauto; try discriminate; try (cbn [st_raw]; apply Permutation_refl).
  - unfold step in *. rewrite Hk in *.
    destruct (st_raw st) as [|r0 rt] eqn:Er; [auto|]. rewrite <- Er in *.
    assert (Hlen : idx mod length (st_raw st) < length (st_raw st)).
    { apply Nat.mod_upper_bound. rewrite Er. cbn. lia. }
    set (i := idx mod length (st_raw st)) in *.
    destruct (nth i (st_raw st) (0, 0)) as [first n] eqn:En.
    assert (Hsplit : st_raw st = firstn i (st_raw st) ++ (first, n) :: skipn (S i) (st_raw st)).
    { rewrite <- En. rewrite <- (skipn_cons_nth _ _ _ Hlen). symmetry. apply firstn_skipn. }
    assert (Hn : 1 <= n).
    { pose proof (inv_raw _ _ HI) as Hr. rewrite Forall_forall in Hr. apply (Hr (first, n)). rewrite Hsplit.
      apply in_app_iff. right. now left. }
    assert (P : Permutation (raw_secs (st_raw st))
                  (seq1 first n ++ raw_secs (firstn i (st_raw st) ++ skipn (S i) (st_raw st)))).
    { rewrite Hsplit at 1. rewrite !raw_secs_app. unfold raw_secs at 2. cbn [flat_map fst snd].
      fold (raw_secs (skipn (S i) (st_raw st))). rewrite app_assoc, app_assoc.
      apply Permutation_app_tail. apply Permutation_app_comm. }
    assert (Hfirst : 1 <= first).
    { destruct HL as ((_ & _ & _ & Hrange & _) & _). apply (Hrange first). apply in_app_iff. left.
      eapply Permutation_in; [apply Permutation_sym; exact P|]. apply in_app_iff. left. apply in_seq1. lia. }
    unfold finish, commit in E. injection E as <- <- <-.
    destruct asl.
    + destruct (LW_free_list c _ _ [] _ (seq1 first n) _ (raw_secs (firstn i (st_raw st) ++ skipn (S i) (st_raw st))) HL)
        as (HL' & _); [rewrite nz_seq1 by lia; exact P|].
      eapply (raw_finish c own st _ _ _ _ _); eauto; try discriminate; try (cbn [st_raw]; apply Permutation_refl).
    + destruct (LW_free_contig c _ _ [] _ first n _ _ HL Hn P) as (HL' & _).
      eapply (raw_finish c own st _ _ _ _ _); eauto; try discriminate; try (cbn [st_raw]; apply Permutation_refl).
Qed.

(* ---- the final step: close everything, re-allocate everything ------------------------------------- *)

Definition quiet (e : event) : Prop := is_alloc_ev e = false.

Definition ext (P : event -> Prop) (w w' : world) : Prop := exists new, w_ev w' = new ++ w_ev w /\ Forall P new.

Lemma ext_refl P w : ext P w w.
Proof. exists []. auto. Qed.

Lemma ext_trans P a b d : ext P a b -> ext P b d -> ext P a d.
Proof.
  intros (n1 & E1 & F1) (n2 & E2 & F2). exists (n2 ++ n1). rewrite E2, E1, app_assoc. split; auto.
  apply Forall_app. auto.
Qed.

Lemma ext_cons (P : event -> Prop) w w' e : w_ev w' = e :: w_ev w -> P e -> ext P w w'.
Proof. intros E H. exists [e]. split; auto. Qed.

Section Fin.
Variable c : cfg.
Variable oth m : list nat.
Variable base : list event.
Hypothesis Hss : 0 < c_ss c.
Local Notation LW := (LW c oth m base).

Lemma file_close_gen w f w' e h rest :
  LW w h -> Permutation h (nz (f_secs f) ++ rest) -> file_close w f = (w', e) ->
  LW w' rest /\ ext quiet w w'.
Proof.
  intros HL P. unfold file_close.
  assert (H1 : LW (if 0 <? length (f_secs f) then free_list w (f_secs f) else w) rest /\
               ext quiet w (if 0 <? length (f_secs f) then free_list w (f_secs f) else w)).
  { destruct (0 <? length (f_secs f)) eqn:El.
    - destruct (LW_free_list c oth m base w (f_secs f) h rest HL P) as (H1 & _). split; auto.
      eapply ext_cons; [apply free_list_ev|reflexivity].
    - split; [|apply ext_refl]. destruct (f_secs f); [|cbn in El; lia]. eapply LW_perm; [exact P|exact HL]. }
  destruct H1 as (HL1 & X1).
  destruct (hole_call _ HClose 0) as [w1 ok] eqn:EH.
  pose proof (LW_hole_call c oth m base _ _ _ _ _ _ HL1 EH) as (HL2 & _).
  intros [= <- <-]. split; auto. eapply ext_trans; [exact X1|].
  eapply ext_cons; [apply (hole_call_ev _ _ _ _ _ EH)|reflexivity].
Qed.

Lemma close_all_lw : forall files w rest,
  LW w (flat_map fsecs files ++ rest) -> LW (close_all w files) rest /\ ext quiet w (close_all w files).
Proof.
  induction files as [|[f|] tl IH]; intros w rest HL; cbn [close_all flat_map fsecs app] in *; auto using ext_refl.
  destruct (file_close w f) as [w1 e] eqn:EC.
  destruct (file_close_gen w f w1 e _ (flat_map fsecs tl ++ rest) HL) as (HL1 & X1); auto.
  { rewrite app_assoc. apply Permutation_refl. }
  destruct (IH w1 rest HL1) as (HL2 & X2). split; auto. eapply ext_trans; eauto.
Qed.

Lemma free_runs_lw : forall runs w rest,
  LW w (raw_secs runs ++ rest) -> Forall (fun r => 1 <= snd r) runs ->
  LW (free_runs w runs) rest /\ ext quiet w (free_runs w runs).
Proof.
  induction runs as [|[first n] tl IH]; intros w rest HL Hf; cbn [free_runs] in *; auto using ext_refl.
  inversion Hf as [|? ? Hn Hf']; subst. cbn [snd] in Hn.
  destruct (LW_free_contig c oth m base w first n _ (raw_secs tl ++ rest) HL Hn) as (HL1 & _).
  { unfold raw_secs. cbn [flat_map fst snd]. rewrite <- app_assoc. apply Permutation_refl. }
  destruct (IH _ rest HL1 Hf') as (HL2 & X2). split; auto.
  eapply ext_trans; [|exact X2]. eapply ext_cons; reflexivity.
Qed.
End Fin.

Lemma allocate_ev w max w' r : allocate w max = (w', r) -> exists ea, w_ev w' = ea :: w_ev w /\ is_alloc_ev ea = true.
Proof. unfold allocate. destruct (first_free _ _); intros [= <- <-]; eexists; split; reflexivity. Qed.

Lemma alloc_all_ext max : forall fuel w acc w' runs, alloc_all fuel w max acc = (w', runs) -> ext (fun _ => True) w w'.
Proof.
  induction fuel as [|fuel IH]; intros w acc w' runs; cbn [alloc_all]; [intros [= <- _]; apply ext_refl|].
  destruct (allocate w max) as [w1 [run|]] eqn:EA; apply allocate_ev in EA as (ea & EA & _).
  - intros H. apply IH in H. eapply ext_trans; [|exact H]. eapply ext_cons; eauto.
  - intros [= <- _]. eapply ext_cons; eauto.
Qed.

Lemma ext_weaken P w w' : ext P w w' -> ext (fun _ => True) w w'.
Proof. intros (n & E & _). exists n. split; auto. apply Forall_forall. auto. Qed.

Lemma sum_runs_length runs : sum_runs runs = length (raw_secs runs).
Proof.
  induction runs as [|[a b] tl IH]; [reflexivity|]. unfold sum_runs, raw_secs in *. cbn [fold_right flat_map fst snd].
  rewrite app_length, seq1_length, IH. reflexivity.
Qed.

Lemma alloc_all_lw c m base max : 0 < c_ss c -> 1 <= max -> forall fuel w acc w' runs,
  LW c [] m base w (raw_secs acc) -> Forall (fun r => 1 <= snd r) acc ->
  alloc_all fuel w max acc = (w', runs) ->
  LW c [] m base w' (raw_secs runs) /\ Forall (fun r => 1 <= snd r) runs /\
  (c_nsec c < fuel + length (raw_secs acc) -> length (raw_secs runs) = c_nsec c).
Proof.
  intros Hss Hmax. induction fuel as [|fuel IH]; intros w acc w' runs HL Hf; cbn [alloc_all].
  - intros [= <- <-]. splits; auto. intros Hlt. exfalso.
    destruct HL as ((_ & _ & Hnd & Hr & _) & _). rewrite app_nil_r in *.
    pose proof (range_length _ _ Hnd Hr). lia.
  - destruct (allocate w max) as [w1 [[first n]|]] eqn:EA.
    + destruct (LW_alloc_some c _ _ _ Hss _ _ _ _ _ _ HL Hmax EA) as (HL1 & _ & Hn).
      intros H. apply IH in H.
      * destruct H as (H1 & H2 & H3). splits; auto. intros Hlt. apply H3.
        rewrite raw_secs_app, app_length. change (raw_secs [(first, n)]) with (seq1 first n ++ []).
        rewrite app_nil_r, seq1_length. lia.
      * eapply LW_perm; [|exact HL1]. rewrite raw_secs_app. change (raw_secs [(first, n)]) with (seq1 first n ++ []).
        rewrite app_nil_r. apply Permutation_app_comm.
      * apply Forall_app. split; auto. constructor; auto. cbn; lia.
    + pose proof HL as (Ha & _).
      destruct (LW_alloc_none c _ _ _ Hss _ _ _ _ HL EA) as (HL1 & _).
      apply (allocate_none _ _ _ _ _ Ha) in EA as (_ & _ & _ & _ & _ & _ & Hall).
      intros [= <- <-]. splits; auto. intros _.
      destruct Ha as (_ & _ & Hnd & Hr & _). rewrite app_nil_r in *. apply full_length; auto.
Qed.

Lemma split_at_alloc_app a e b :
  Forall quiet a -> is_alloc_ev e = true -> split_at_alloc (a ++ e :: b) = (a, e :: b).
Proof.
  intros Hq He. induction a as [|x a IH]; cbn [app split_at_alloc]; [now rewrite He|].
  inversion Hq as [|? ? Hx Hq']; subst. unfold quiet in Hx. rewrite Hx, (IH Hq'). reflexivity.
Qed.

Lemma own_rel_init st : st_files st = repeat None nslots -> st_raw st = [] -> own_rel own_init st.
Proof.
  intros Hf Hr. split; cbn [own_init so_files so_raw]; rewrite ?Hf, ?Hr; [|constructor].
  repeat constructor.
Qed.

Lemma step_sectors_final c st o st' x evs own :
  0 < c_ss c -> Inv2 c st -> own_rel own st -> step c st o = (st', x, evs) -> op_k o = KFinal ->
  exists own', p_sectors c own (op_k o) x evs = Good own' /\ own_rel own' st'.
Proof.
  intros Hss (HI & Hl) HO E Hk. unfold step in E. rewrite Hk in *.
  set (w0 := world_of st o) in *.
  set (m1 := concat (so_files own) ++ so_raw own).
  assert (HL0 : LW c [] m1 [] w0 (held st)).
  { split; [|split]; [rewrite app_nil_r; apply (inv_al _ _ HI)|exact Hl|].
    exists [], m1. splits; auto. unfold m1, held. destruct HO as (HF & HR).
    apply Permutation_app; auto. now apply concat_perm. }
  (* phase 1: everything is given back *)
  destruct (close_all_lw c [] m1 [] Hss (st_files st) w0 (raw_secs (st_raw st)) HL0) as (HLc & Xc).
  set (wc := close_all w0 (st_files st)) in *.
  destruct (free_runs_lw c [] m1 [] (st_raw st) wc [] ltac:(now rewrite app_nil_r) (inv_raw _ _ HI)) as (HLf & Xf).
  set (wf := free_runs wc (st_raw st)) in *.
  pose proof (ext_trans _ _ _ _ Xc Xf) as (new1 & Hev1 & Hq1). change (w_ev w0) with (@nil event) in Hev1. rewrite app_nil_r in Hev1.
  destruct (LW_result _ _ _ _ _ HLf) as (mine1 & Hs1 & P1 & _).
  apply Permutation_sym, Permutation_nil in P1. subst mine1. rewrite Hev1 in Hs1.
  (* phase 2: everything can be allocated again *)
  assert (HL2 : LW c [] [] (w_ev wf) wf (raw_secs [])).
  { destruct HLf as (Ha & Hd & _). split; [|split]; auto. exists [], []. splits; auto. }
  destruct (alloc_all (S (c_nsec c)) wf (Nat.max 1 (c_nsec c)) []) as [wa runs] eqn:EA.
  assert (Hmax : 1 <= Nat.max 1 (c_nsec c)) by lia.
  destruct (alloc_all_lw c [] (w_ev wf) _ Hss Hmax _ _ _ _ _ HL2 (Forall_nil _) EA) as (HLa & Hruns & Hfull).
  specialize (Hfull ltac:(cbn [raw_secs flat_map length]; lia)).
  destruct (free_runs_lw c [] [] (w_ev wf) runs wa [] ltac:(now rewrite app_nil_r) Hruns) as (HL4 & X4).
  set (w4 := free_runs wa runs) in *.
  (* the first new event is the allocation *)
  assert (Hfirst : exists new ea, w_ev w4 = new ++ ea :: w_ev wf /\ is_alloc_ev ea = true).
  { cbn [alloc_all] in EA. destruct (allocate wf (Nat.max 1 (c_nsec c))) as [w1 [run|]] eqn:EA1;
      apply allocate_ev in EA1 as (ea & EA1 & Hea).
    - apply alloc_all_ext in EA as (n2 & E2 & _). destruct X4 as (n3 & E3 & _).
      exists (n3 ++ n2), ea. rewrite E3, E2, EA1, app_assoc. auto.
    - injection EA as <- <-. destruct X4 as (n3 & E3 & _). exists n3, ea. rewrite E3, EA1. auto. }
  destruct Hfirst as (new2 & ea & Hev4 & Hea).
  destruct HL4 as ((_ & Hp4 & _) & _ & (evs2 & mine2 & Hev4' & Hs2 & P2)).
  apply Permutation_sym, Permutation_nil in P2. subst mine2.
  assert (Hevs2 : evs2 = new2 ++ [ea]).
  { apply (app_inv_tail (w_ev wf)). rewrite <- Hev4', Hev4, <- app_assoc. reflexivity. }
  unfold finish, commit in E. injection E as <- <- <-.
  exists own_init. split; [|apply own_rel_init; reflexivity].
  rewrite Hp4, Hev4, Hev1. unfold p_sectors.
  replace (rev (new2 ++ ea :: new1)) with (rev new1 ++ ea :: rev new2).
  2:{ rewrite rev_app_distr. cbn [rev]. rewrite <- app_assoc. reflexivity. }
  rewrite split_at_alloc_app; [|apply Forall_rev; exact Hq1|exact Hea].
  fold m1. rewrite Hs1. cbn [bind check length Nat.eqb].
  rewrite Hevs2, rev_app_distr in Hs2. cbn [rev app] in Hs2. rewrite Hs2. cbn [bind check length Nat.eqb].
  rewrite sum_runs_length, Hfull, Z.eqb_refl. reflexivity.
Qed.

Lemma step_sectors c st o st' x evs own :
  0 < c_ss c -> Inv3 c st -> own_rel own st -> step c st o = (st', x, evs) ->
  exists own', p_sectors c own (op_k o) x evs = Good own' /\ own_rel own' st'.
Proof.
  intros Hss H3 HO E. destruct (op_k o) eqn:Hk.
  1-6: rewrite <- Hk; apply (step_sectors_slot c st o st' x evs own slot Hss H3 HO E); rewrite Hk; reflexivity.
  - rewrite <- Hk. apply (step_sectors_raw c st o st' x evs own Hss (proj1 H3) HO E). left. eauto.
  - rewrite <- Hk. apply (step_sectors_raw c st o st' x evs own Hss (proj1 H3) HO E). right. eauto.
  - rewrite <- Hk. apply (step_sectors_final c st o st' x evs own Hss (proj1 H3) HO E Hk).
Qed.
