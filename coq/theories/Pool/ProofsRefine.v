(* Assembly over all histories: the device keeps its size, an operation on
   one file never changes what another file contains (isolation), WriteAt
   and ReadAt agree with the byte-array view in every reachable state. *)
From Coq Require Import Lia ZifyBool ZifyNat ZifyN Permutation.
From VF Require Import Pool.Model Pool.Spec Pool.ProofsAlloc Pool.ProofsInv Pool.ProofsDev Pool.ProofsWrite
  Pool.ProofsContent Pool.ProofsRead.

Lemma free_list_dev w l : w_dev (free_list w l) = w_dev w.
Proof. unfold free_list. destruct (free_list_bits _ _ _). reflexivity. Qed.

Lemma truncate_sectors_dev w f cnt w' f' : truncate_sectors w f cnt = (w', f') -> w_dev w' = w_dev w.
Proof. unfold truncate_sectors. destruct (cnt <? length (f_secs f)); intros [= <- <-]; [apply free_list_dev|reflexivity]. Qed.

Lemma conf_untouched ss oth s dev dev' : 0 < ss -> 1 <= s -> ~ In s oth -> (forall t, In t oth -> 1 <= t) ->
  conf (pred s * ss) (pred s * ss + ss) dev dev' -> untouched ss oth dev dev'.
Proof.
  intros Hss Hs Hn Hpos [_ C] t x Ht Hx. apply C.
  assert (t <> s) by congruence. specialize (Hpos t Ht).
  destruct t; [lia|]. destruct s; [lia|]. cbn [pred]. destruct (Nat.lt_ge_cases t s); [left|right]; nia.
Qed.

Lemma file_truncate_dev nsec ss w f size w' f' e oth :
  0 < ss -> AInv nsec (w_al w) (nz (f_secs f) ++ oth) -> length (w_dev w) = nsec * ss ->
  file_truncate ss w f size = (w', f', e) ->
  length (w_dev w') = length (w_dev w) /\ untouched ss oth (w_dev w) (w_dev w').
Proof.
  intros Hss Ha Hlen. unfold file_truncate.
  destruct (size <? 0)%Z; [intros [= <- <- <-]; split; auto using untouched_refl|].
  set (sz := Z.to_N size). destruct (sidx_soff ss Hss sz) as (_ & Ho).
  set (si := sidx ss sz) in *. set (o := soff ss sz) in *.
  (* the only device call *)
  assert (Hzero : forall zl w1 k e1, zl <= ss - o -> nth si (f_secs f) 0 <> 0 ->
    dev_write w ss (pred (nth si (f_secs f) 0)) o (repeat 0%N zl) = (w1, k, e1) ->
    length (w_dev w1) = length (w_dev w) /\ untouched ss oth (w_dev w) (w_dev w1)).
  { intros zl w1 k e1 Hzl Hs ED.
    pose proof Ha as (_ & _ & Hnd & Hrg & _).
    assert (Hin : In (nth si (f_secs f) 0) (nz (f_secs f))) by now apply in_nz_nth.
    assert (Hr : 1 <= nth si (f_secs f) 0 <= nsec) by (apply Hrg, in_app_iff; auto).
    apply dev_write_conf in ED; rewrite repeat_length in *.
    - split; [apply ED|]. eapply (conf_untouched ss oth (nth si (f_secs f) 0)); auto; try lia.
      + apply NoDup_app_iff in Hnd as (_ & _ & Hd). intros Hc. apply (Hd _ Hin Hc).
      + intros t Ht. apply (Hrg t), in_app_iff. auto.
      + eapply conf_weaken; [| |exact ED]; lia.
    - rewrite Hlen. destruct (nth si (f_secs f) 0); [lia|]. cbn [pred]. nia. }
  intros H.
  (* what happens after the sectors were dropped *)
  assert (Htail : forall w1 f1 e1 (w2 : world) (f2 : file) (e2 : errk),
    match e1 with
    | ENone =>
      if (sz <? f_size f1)%N then
        let '(w, ok) := hole_call w1 HTrunc sz in
        if ok then (w, set_size (set_hole f1 (firstn (N.to_nat sz) (f_hole f1))) sz, ENone)
        else (w, f1, EInjected)
      else (w1, set_size f1 sz, ENone)
    | _ => (w1, f1, e1)
    end = (w2, f2, e2) -> w_dev w2 = w_dev w1).
  { intros w1 f1 e1 w2 f2 e2 HT. destruct e1; try (injection HT as <- _ _; reflexivity).
    destruct (sz <? f_size f1)%N; [|injection HT as <- _ _; reflexivity].
    destruct (hole_call w1 HTrunc sz) as [w3 ok] eqn:EH. apply hole_call_dev in EH as (EH & _).
    destruct ok; injection HT as <- _ _; exact EH. }
  destruct (o =? 0) eqn:Eo.
  - destruct (truncate_sectors w f si) as [w1 f1] eqn:ET. apply truncate_sectors_dev in ET.
    apply (Htail w1 f1 ENone) in H. rewrite H, ET. split; auto using untouched_refl.
  - destruct ((sz <? f_size f)%N && (si <? length (f_secs f)) && negb (nth si (f_secs f) 0 =? 0)) eqn:Ec.
    + destruct (dev_write w ss (pred (nth si (f_secs f) 0)) o _) as [[w1 k] e1] eqn:ED.
      apply Hzero in ED; [|lia|lia]. cbv beta iota in H.
      destruct e1; try (injection H as <- _ _; exact ED).
      destruct (truncate_sectors w1 f (S si)) as [w2 f2] eqn:ET. apply truncate_sectors_dev in ET.
      apply (Htail w2 f2 ENone) in H. rewrite H, ET. exact ED.
    + cbv beta iota in H.
      destruct (truncate_sectors w f (S si)) as [w2 f2] eqn:ET. apply truncate_sectors_dev in ET.
      apply (Htail w2 f2 ENone) in H. rewrite H, ET. split; auto using untouched_refl.
Qed.

(* ---- frame of one step ---------------------------------------------------------- *)

Lemma get_file_set_other {A} (files : list A) slot v g :
  g <> slot ->
  nth_error (set_nth files slot v) g = nth_error files g.
Proof.
  intros Hg. revert slot g Hg. induction files as [|x tl IH]; intros slot g Hg; [reflexivity|].
  destruct slot, g; cbn; auto; try congruence.
Qed.

Lemma other_file_held l1 (f : file) l2 g fg :
  nth_error (l1 ++ Some f :: l2) g = Some (Some fg) -> g <> length l1 ->
  incl (nz (f_secs fg)) (flat_map fsecs l1 ++ flat_map fsecs l2).
Proof.
  intros Hn Hg s Hs. apply in_app_iff.
  destruct (Nat.lt_ge_cases g (length l1)).
  - left. rewrite nth_error_app1 in Hn by auto. apply nth_error_In in Hn.
    apply in_flat_map. exists (Some fg). auto.
  - right. rewrite nth_error_app2 in Hn by lia.
    destruct (g - length l1) as [|k] eqn:E; [lia|]. cbn in Hn. apply nth_error_In in Hn.
    apply in_flat_map. exists (Some fg). auto.
Qed.

Definition frame_ok (c : cfg) (st st' : state) (o : op) : Prop :=
  length (st_dev st') = length (st_dev st) /\
  (op_k o <> KFinal -> forall g fg, slot_of (op_k o) <> Some g -> get_file st g = Some fg ->
     get_file st' g = Some fg /\
     forall j, content (c_ss c) (st_dev st') fg j = content (c_ss c) (st_dev st) fg j).

Lemma frame_same_dev c st st' o slot v :
  st_dev st' = st_dev st -> st_files st' = set_nth (st_files st) slot v ->
  slot_of (op_k o) = Some slot -> frame_ok c st st' o.
Proof.
  intros Hd Hf Hs. split; [now rewrite Hd|]. intros _ g fg Hg Hgf. rewrite Hs in Hg.
  split; [|intros j; now rewrite Hd].
  unfold get_file in *. rewrite Hf, get_file_set_other by congruence. exact Hgf.
Qed.

Lemma frame_refl c st o : frame_ok c st st o.
Proof. split; auto. Qed.

Lemma frame_untouched c st st' o slot l1 f l2 v :
  0 < c_ss c -> st_files st = l1 ++ Some f :: l2 -> length l1 = slot ->
  st_files st' = l1 ++ v :: l2 ->
  length (st_dev st') = length (st_dev st) ->
  untouched (c_ss c) (flat_map fsecs l1 ++ flat_map fsecs l2 ++ raw_secs (st_raw st)) (st_dev st) (st_dev st') ->
  slot_of (op_k o) = Some slot -> frame_ok c st st' o.
Proof.
  intros Hss Hfiles Hl Hf' Hlen Hu Hs. split; [exact Hlen|]. intros _ g fg Hg Hgf. rewrite Hs in Hg.
  assert (Hgs : g <> length l1) by congruence.
  unfold get_file in *. rewrite Hfiles in Hgf. rewrite Hf'.
  destruct (nth_error (l1 ++ Some f :: l2) g) as [[fg'|]|] eqn:En; try discriminate. injection Hgf as ->.
  split.
  - destruct (Nat.lt_ge_cases g (length l1)).
    + rewrite nth_error_app1 in * by auto. now rewrite En.
    + rewrite nth_error_app2 in * by lia. destruct (g - length l1) as [|k] eqn:E; [lia|]. cbn in *. now rewrite En.
  - apply (content_frame (c_ss c) Hss); auto. intros s x Hs' Hx. apply Hu; auto.
    pose proof (other_file_held _ _ _ _ _ En Hgs s Hs') as Hin. rewrite app_assoc. apply in_app_iff. now left.
Qed.

Lemma file_close_dev w f w' e : file_close w f = (w', e) -> w_dev w' = w_dev w.
Proof.
  unfold file_close. destruct (hole_call _ HClose 0) as [w1 ok] eqn:EH. apply hole_call_dev in EH as (EH & _).
  intros [= <- <-]. rewrite EH. destruct (0 <? length (f_secs f)); [apply free_list_dev|reflexivity].
Qed.

Lemma close_all_dev files : forall w, w_dev (close_all w files) = w_dev w.
Proof.
  induction files as [|[f|] tl IH]; intros w; cbn [close_all]; auto.
  destruct (file_close w f) as [w1 e] eqn:EC. apply file_close_dev in EC. now rewrite IH.
Qed.

Lemma free_runs_dev runs : forall w, w_dev (free_runs w runs) = w_dev w.
Proof. induction runs as [|[a b] tl IH]; intros w; cbn [free_runs]; auto. now rewrite IH. Qed.

Lemma allocate_dev w max w' r : allocate w max = (w', r) -> w_dev w' = w_dev w.
Proof.
  unfold allocate. destruct (first_free _ _); intros [= <- <-]; reflexivity.
Qed.

Lemma alloc_all_dev max : forall fuel w acc w' runs, alloc_all fuel w max acc = (w', runs) -> w_dev w' = w_dev w.
Proof.
  induction fuel as [|fuel IH]; intros w acc w' runs; cbn [alloc_all]; [intros [= <- _]; reflexivity|].
  destruct (allocate w max) as [w1 [run|]] eqn:EA; apply allocate_dev in EA.
  - intros H. apply IH in H. congruence.
  - intros [= <- _]. exact EA.
Qed.

Lemma step_frame c st o st' x evs :
  0 < c_ss c -> Inv c st -> length (st_dev st) = c_nsec c * c_ss c ->
  step c st o = (st', x, evs) -> frame_ok c st st' o.
Proof.
  intros Hss HI Hlen. unfold step, finish, commit. destruct (op_k o) eqn:Hk.
  - (* new *)
    destruct (nth_error (st_files st) slot) as [[g|]|]; try (intros [= <- _ _]; apply frame_refl).
    destruct (st_remf st <? 1)%N; [intros [= <- _ _]; apply frame_refl|].
    destruct ((0 <? size)%N && (st_remb st <? size)%N); [intros [= <- _ _]; apply frame_refl|].
    destruct fail_base; [intros [= <- _ _]; apply frame_refl|].
    intros [= <- _ _]. apply (frame_same_dev c st _ o slot (Some (mkFile hole size [] size))); [reflexivity|reflexivity|now rewrite Hk].
  - destruct (get_file st slot); [destruct (file_read _ _ _ _ _)|]; intros [= <- _ _]; apply frame_refl.
  - (* write *)
    destruct (get_file st slot) as [f|] eqn:E; [|intros [= <- _ _]; apply frame_refl].
    apply get_file_split in E as (l1 & l2 & Hfiles & Hl & Hset).
    pose proof (Inv_slot_ainv _ _ _ _ _ HI Hfiles) as Ha. cbn [fsecs] in Ha.
    destruct (off <? 0)%Z eqn:E0; [intros [= <- _ _]; apply frame_refl|].
    assert (Hw : forall w1 f1 n e, file_write (c_ss c) (world_of st o) f off data = (w1, f1, n, e) ->
      forall st1, st_dev st1 = w_dev w1 -> st_files st1 = l1 ++ Some f1 :: l2 \/ (exists q, st_files st1 = l1 ++ Some (set_qsize f1 q) :: l2) ->
      frame_ok c st st1 o).
    { intros w1 f1 n e EW st1 Hd1 Hf1.
      apply (file_write_content (c_ss c) (c_nsec c) Hss) with (oth := flat_map fsecs l1 ++ flat_map fsecs l2 ++ raw_secs (st_raw st)) in EW; auto; [|lia].
      destruct EW as (Hl1 & Hu1 & _).
      destruct Hf1 as [Hf1|(q & Hf1)]; eapply frame_untouched; eauto; try (now rewrite Hk); rewrite Hd1; auto. }
    destruct (Z.to_N off + N.of_nat (length data) <=? f_qsize f)%N.
    + destruct (file_write _ _ _ _ _) as [[[w1 f1] n] e] eqn:EW. rewrite Hset. intros [= <- _ _].
      eapply Hw; eauto.
    + destruct (st_remb st <? _)%N; [intros [= <- _ _]; apply frame_refl|].
      destruct (file_write _ _ _ _ _) as [[[w1 f1] n] e] eqn:EW. rewrite Hset. intros [= <- _ _].
      eapply Hw; eauto. cbn [st_files]. right. eexists. reflexivity.
  - (* truncate *)
    destruct (get_file st slot) as [f|] eqn:E; [|intros [= <- _ _]; apply frame_refl].
    apply get_file_split in E as (l1 & l2 & Hfiles & Hl & Hset).
    pose proof (Inv_slot_ainv _ _ _ _ _ HI Hfiles) as Ha. cbn [fsecs] in Ha.
    destruct (size <? 0)%Z eqn:E0; [intros [= <- _ _]; apply frame_refl|].
    destruct (file_truncate (c_ss c) (world_of st o) f size) as [[w1 f1] e] eqn:ET.
    apply (file_truncate_dev (c_nsec c) (c_ss c)) with (oth := flat_map fsecs l1 ++ flat_map fsecs l2 ++ raw_secs (st_raw st)) in ET; auto.
    destruct ET as (Hl1 & Hu1).
    destruct (Z.to_N size <? f_qsize f)%N; [|destruct (f_qsize f <? Z.to_N size)%N].
    + destruct e; rewrite Hset; intros [= <- _ _]; (eapply (frame_untouched c st _ o slot l1 f l2 _ Hss Hfiles Hl); [reflexivity|exact Hl1|exact Hu1|now rewrite Hk]).
    + destruct (st_remb st <? _)%N; [intros [= <- _ _]; apply frame_refl|].
      destruct e; rewrite Hset; intros [= <- _ _]; (eapply (frame_untouched c st _ o slot l1 f l2 _ Hss Hfiles Hl); [reflexivity|exact Hl1|exact Hu1|now rewrite Hk]).
    + intros [= <- _ _]; apply frame_refl.
  - destruct (get_file st slot); [destruct (file_seek _ _ _ _ _)|]; intros [= <- _ _]; apply frame_refl.
  - (* close *)
    destruct (get_file st slot) as [f|] eqn:E; [|intros [= <- _ _]; apply frame_refl].
    destruct (file_close (world_of st o) f) as [w1 e] eqn:EC. apply file_close_dev in EC.
    intros [= <- _ _]. apply (frame_same_dev c st _ o slot None); [exact EC|reflexivity|now rewrite Hk].
  - (* rawalloc *)
    destruct (max =? 0); [intros [= <- _ _]; apply frame_refl|].
    destruct (allocate (world_of st o) max) as [w1 [[first n]|]] eqn:EA; apply allocate_dev in EA;
      intros [= <- _ _]; (split; [cbn [st_dev]; now rewrite EA|]); intros _ g fg _ Hg;
      (split; [exact Hg|intros j; cbn [st_dev]; now rewrite EA]).
  - (* rawfree *)
    destruct (st_raw st) eqn:Er; [intros [= <- _ _]; apply frame_refl|]. rewrite <- Er.
    destruct (nth _ (st_raw st) (0, 0)) as [first n].
    intros [= <- _ _]. assert (Hd : forall b, w_dev (if b : bool then free_list (world_of st o) (seq1 first n) else free_contig (world_of st o) first n) = st_dev st).
    { intros [|]; [apply free_list_dev|reflexivity]. }
    split; [cbn [st_dev]; now rewrite Hd|]. intros _ g fg _ Hg.
    split; [exact Hg|intros j; cbn [st_dev]; now rewrite Hd].
  - (* final *)
    destruct (alloc_all _ _ _ _) as [w1 runs] eqn:EA. apply alloc_all_dev in EA.
    intros [= <- _ _]. split; [|congruence]. cbn [st_dev]. rewrite free_runs_dev, EA, free_runs_dev, close_all_dev. reflexivity.
Qed.

(* ---- all histories ------------------------------------------------------------------ *)

Definition Inv2 (c : cfg) (st : state) : Prop := Inv c st /\ length (st_dev st) = c_nsec c * c_ss c.

Lemma run_inv2 c ops : 0 < c_ss c -> forall st, Inv2 c st -> Inv2 c (run c st ops).
Proof.
  intros Hss. induction ops as [|o tl IH]; intros st [HI Hl]; cbn [run]; [split; auto|].
  destruct (step c st o) as [[st' x] evs] eqn:E. apply IH. split.
  - eapply step_inv; eauto.
  - destruct (step_frame _ _ _ _ _ _ Hss HI Hl E) as (Hlen & _). congruence.
Qed.

Lemma init_inv2 c : Inv2 c (init c).
Proof. split; [apply init_inv|]. cbn. apply repeat_length. Qed.

Lemma isolation_lemma c ops o st' x evs : 0 < c_ss c ->
  step c (run c (init c) ops) o = (st', x, evs) ->
  frame_ok c (run c (init c) ops) st' o.
Proof.
  intros Hss E. destruct (run_inv2 c ops Hss _ (init_inv2 c)) as (HI & Hl).
  eapply step_frame; eauto.
Qed.

Lemma slot_ainv c st slot f : Inv c st -> get_file st slot = Some f ->
  exists oth, AInv (c_nsec c) (st_al st) (nz (f_secs f) ++ oth).
Proof.
  intros HI E. apply get_file_split in E as (l1 & l2 & Hfiles & _ & _).
  eexists. apply (Inv_slot_ainv _ _ _ _ _ HI Hfiles).
Qed.

Lemma write_refines_lemma c ops slot f w off p w' f' n e : 0 < c_ss c ->
  let st := run c (init c) ops in
  get_file st slot = Some f -> w_dev w = st_dev st -> w_al w = st_al st -> (0 <= off)%Z ->
  file_write (c_ss c) w f off p = (w', f', n, e) ->
  updated (c_ss c) (w_dev w) (w_dev w') f f' (Z.to_nat off) n p /\ n <= length p /\
  length (w_dev w') = length (w_dev w).
Proof.
  intros Hss st Hg Hd Hal Hoff EW. destruct (run_inv2 c ops Hss _ (init_inv2 c)) as (HI & Hl). fold st in HI, Hl.
  destruct (slot_ainv _ _ _ _ HI Hg) as (oth & Ha). rewrite <- Hal in Ha. rewrite <- Hd in Hl.
  pose proof (file_write_al _ _ _ _ _ _ _ _ _ _ _ Ha Hss EW) as (_ & Hn & _).
  apply (file_write_content (c_ss c) (c_nsec c) Hss) with (oth := oth) in EW; auto. tauto.
Qed.

Lemma read_refines_lemma c ops slot f w off len w' x : 0 < c_ss c ->
  let st := run c (init c) ops in
  get_file st slot = Some f -> w_dev w = st_dev st -> w_al w = st_al st -> (0 <= off)%Z ->
  file_read (c_ss c) w f off len = (w', x) ->
  exists n e got, x = ORes (Z.of_nat n) e got /\ n = length got /\
    reads_ok (c_ss c) (w_dev w) f (Z.to_nat off) got /\
    n <= Nat.min len (N.to_nat (f_size f) - Z.to_nat off) /\
    ((e = ENone \/ e = EEOF) -> n = Nat.min len (N.to_nat (f_size f) - Z.to_nat off)).
Proof.
  intros Hss st Hg Hd Hal Hoff ER. destruct (run_inv2 c ops Hss _ (init_inv2 c)) as (HI & Hl). fold st in HI, Hl.
  destruct (slot_ainv _ _ _ _ HI Hg) as (oth & Ha). rewrite <- Hal in Ha. rewrite <- Hd in Hl.
  apply (file_read_ok (c_ss c) Hss (c_nsec c) oth) in ER; auto. tauto.
Qed.
