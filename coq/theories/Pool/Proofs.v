(* Proofs about the file pool model: the statements restated in Properties.v. *)
From Coq Require Import Lia ZifyBool ZifyNat ZifyN Permutation.
From VF Require Import Pool.Model Pool.Spec.
From VF Require Export Pool.ProofsAlloc Pool.ProofsInv Pool.ProofsDev Pool.ProofsWrite Pool.ProofsContent Pool.ProofsRead Pool.ProofsRefine.

(* ---- sectors_partition ----------------------------------------------------------- *)

Definition partition_ok (c : cfg) (st : state) : Prop :=
  NoDup (held st) /\
  (forall s, In s (held st) -> 1 <= s <= c_nsec c) /\
  (forall i, i < c_nsec c -> (nth i (a_free (st_al st)) false = true <-> ~ In (S i) (held st))) /\
  length (a_free (st_al st)) = c_nsec c /\
  a_panic (st_al st) = false.

Lemma sectors_partition_lemma c ops : 0 < c_ss c -> partition_ok c (run c (init c) ops).
Proof.
  intros Hss. destruct (run_inv c ops Hss (init c) (init_inv c)) as [(H1 & H2 & H3 & H4 & H5) _ _ _ _ _].
  unfold partition_ok. tauto.
Qed.

(* ---- all_closed_all_free ----------------------------------------------------------- *)

Lemma all_true_repeat (l : list bool) n : length l = n -> (forall i, i < n -> nth i l false = true) -> l = repeat true n.
Proof.
  revert n. induction l as [|b tl IH]; intros n Hl H; cbn in Hl; subst n; [reflexivity|].
  cbn [repeat]. f_equal.
  - apply (H 0). lia.
  - apply IH; auto. intros i Hi. apply (H (S i)). lia.
Qed.

Lemma all_closed_all_free_lemma c ops : 0 < c_ss c ->
  let st := run c (init c) ops in
  st_files st = repeat None nslots -> st_raw st = [] ->
  a_free (st_al st) = repeat true (c_nsec c).
Proof.
  intros Hss st Hf Hr. destruct (sectors_partition_lemma c ops Hss) as (_ & _ & H3 & H4 & _).
  fold st in H3, H4. apply all_true_repeat; auto.
  intros i Hi. apply H3; auto. unfold held. rewrite Hf, Hr. cbn. tauto.
Qed.

(* ---- quota_conserved --------------------------------------------------------------- *)

Lemma quota_conserved_lemma c ops : 0 < c_ss c ->
  let st := run c (init c) ops in
  (st_remf st + nopen (st_files st) = c_maxfiles c)%N /\
  (st_remb st + sizes (st_files st) = c_maxbytes c)%N.
Proof.
  intros Hss st. destruct (run_inv c ops Hss (init c) (init_inv c)) as [_ _ _ _ H1 H2]. auto.
Qed.

Definition lens_of (files : list (option file)) : list (option N) :=
  map (fun f => match f with Some f0 => Some (f_size f0) | None => None end) files.

Lemma count_open_lens files : count_open (lens_of files) = nopen files.
Proof.
  induction files as [|[f|] tl IH]; [reflexivity| |]; unfold count_open, nopen, lens_of in *;
    cbn [map fold_right]; rewrite IH; reflexivity.
Qed.

Lemma sum_lens_sizes files : sum_lens (lens_of files) = sizes files.
Proof.
  induction files as [|[f|] tl IH]; [reflexivity| |]; unfold sum_lens, sizes, lens_of in *;
    cbn [map fold_right fsize]; rewrite IH; reflexivity.
Qed.

(* the monitor's quota predicate accepts every step of every model trace *)
Lemma observe_quota c st : Inv c st -> forall k, p_quota c k (observe st) = Good tt.
Proof.
  intros [_ _ _ _ Hf Hb] k. unfold p_quota, observe. cbn [ob_remf ob_lens ob_remb].
  fold (lens_of (st_files st)). rewrite count_open_lens, sum_lens_sizes.
  replace (st_remf st + nopen (st_files st) =? c_maxfiles c)%N with true by lia. cbn [check bind].
  destruct (st_remf st =? 0)%N; [reflexivity|]. replace (st_remb st + sizes (st_files st) =? c_maxbytes c)%N with true by lia.
  reflexivity.
Qed.

Lemma trace_inv c : 0 < c_ss c -> forall ops st s, Inv c st -> In s (trace c st ops) ->
  exists st', Inv c st' /\ t_obs s = observe st'.
Proof.
  intros Hss. induction ops as [|o tl IH]; intros st s HI; cbn [trace]; [intros []|].
  destruct (step c st o) as [[st' x] evs] eqn:E. pose proof (step_inv _ _ _ _ _ _ Hss HI E) as HI'.
  intros [<-|Hin].
  - exists st'. auto.
  - destruct x; try (eapply IH; eauto). destruct Hin.
Qed.

Lemma quota_monitor_lemma c ops : 0 < c_ss c ->
  forall s, In s (trace c (init c) ops) -> p_quota c (op_k (t_op s)) (t_obs s) = Good tt.
Proof.
  intros Hss s Hin. destruct (trace_inv c Hss ops (init c) s (init_inv c) Hin) as (st' & HI & ->).
  now apply observe_quota.
Qed.
