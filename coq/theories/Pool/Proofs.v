(* Proofs about the file pool model: the statements restated in Properties.v. *)
From Coq Require Import Lia ZifyBool ZifyNat ZifyN Permutation.
From VF Require Import Pool.Model Pool.Spec.
From VF Require Export Pool.ProofsAlloc Pool.ProofsInv Pool.ProofsDev Pool.ProofsWrite Pool.ProofsContent Pool.ProofsRead Pool.ProofsRefine
  Pool.ProofsEvents Pool.ProofsTrunc Pool.ProofsSeek Pool.ProofsMonitor Pool.ProofsMonitor2 Pool.ProofsWords.

(* ---- sectors_partition ----------------------------------------------------------- *)

Definition partition_ok (c : cfg) (st : state) : Prop :=
  NoDup (held st) /\
  (forall s, In s (held st) -> 1 <= s <= c_nsec c) /\
  (forall i, i < c_nsec c -> (nth i (a_free (st_al st)) false = true <-> ~ In (S i) (held st))) /\
  length (a_free (st_al st)) = c_nsec c /\
  a_panic (st_al st) = false.

Lemma sectors_partition_lemma c ops : 0 < c_ss c -> partition_ok c (run c (init c) ops).
Proof.
  intros Hss. destruct (run_inv c ops Hss (init c) (init_inv c)) as [(H1 & H2 & H3 & H4 & H5) _ _ _ _ _].
  unfold partition_ok. tauto.
Qed.

(* ---- all_closed_all_free ----------------------------------------------------------- *)

Lemma all_true_repeat (l : list bool) n : length l = n -> (forall i, i < n -> nth i l false = true) -> l = repeat true n.
Proof.
  revert n. induction l as [|b tl IH]; intros n Hl H; cbn in Hl; subst n; [reflexivity|].
  cbn [repeat]. f_equal.
  - apply (H 0). lia.
  - apply IH; auto. intros i Hi. apply (H (S i)). lia.
Qed.

Lemma all_closed_all_free_lemma c ops : 0 < c_ss c ->
  let st := run c (init c) ops in
  st_files st = repeat None nslots -> st_raw st = [] ->
  a_free (st_al st) = repeat true (c_nsec c).
Proof.
  intros Hss st Hf Hr. destruct (sectors_partition_lemma c ops Hss) as (_ & _ & H3 & H4 & _).
  fold st in H3, H4. apply all_true_repeat; auto.
  intros i Hi. apply H3; auto. unfold held. rewrite Hf, Hr. cbn. tauto.
Qed.

(* ---- quota_conserved --------------------------------------------------------------- *)

Lemma quota_conserved_lemma c ops : 0 < c_ss c ->
  let st := run c (init c) ops in
  (st_remf st + nopen (st_files st) = c_maxfiles c)%N /\
  (st_remb st + sizes (st_files st) = c_maxbytes c)%N.
Proof.
  intros Hss st. destruct (run_inv c ops Hss (init c) (init_inv c)) as [_ _ _ _ H1 H2]. auto.
Qed.

Definition lens_of (files : list (option file)) : list (option N) :=
  map (fun f => match f with Some f0 => Some (f_size f0) | None => None end) files.

Lemma count_open_lens files : count_open (lens_of files) = nopen files.
Proof.
  induction files as [|[f|] tl IH]; [reflexivity| |]; unfold count_open, nopen, lens_of in *;
    cbn [map fold_right]; rewrite IH; reflexivity.
Qed.

Lemma sum_lens_sizes files : sum_lens (lens_of files) = sizes files.
Proof.
  induction files as [|[f|] tl IH]; [reflexivity| |]; unfold sum_lens, sizes, lens_of in *;
    cbn [map fold_right fsize]; rewrite IH; reflexivity.
Qed.

(* the monitor's quota predicate accepts every step of every model trace *)
Lemma observe_quota c st : Inv c st -> forall k, p_quota c k (observe st) = Good tt.
Proof.
  intros [_ _ _ _ Hf Hb] k. unfold p_quota, observe. cbn [ob_remf ob_lens ob_remb].
  fold (lens_of (st_files st)). rewrite count_open_lens, sum_lens_sizes.
  replace (st_remf st + nopen (st_files st) =? c_maxfiles c)%N with true by lia. cbn [check bind].
  destruct (st_remf st =? 0)%N; [reflexivity|]. replace (st_remb st + sizes (st_files st) =? c_maxbytes c)%N with true by lia.
  reflexivity.
Qed.

Lemma trace_inv c : 0 < c_ss c -> forall ops st s, Inv c st -> In s (trace c st ops) ->
  exists st', Inv c st' /\ t_obs s = observe st'.
Proof.
  intros Hss. induction ops as [|o tl IH]; intros st s HI; cbn [trace]; [intros []|].
  destruct (step c st o) as [[st' x] evs] eqn:E. pose proof (step_inv _ _ _ _ _ _ Hss HI E) as HI'.
  intros [<-|Hin].
  - exists st'. auto.
  - destruct x; try (eapply IH; eauto). destruct Hin.
Qed.

Lemma quota_monitor_lemma c ops : 0 < c_ss c ->
  forall s, In s (trace c (init c) ops) -> p_quota c (op_k (t_op s)) (t_obs s) = Good tt.
Proof.
  intros Hss s Hin. destruct (trace_inv c Hss ops (init c) s (init_inv c) Hin) as (st' & HI & ->).
  now apply observe_quota.
Qed.

(* ---- file_refines_bytes: the whole monitor accepts every model trace ------------------- *)

Definition Sim (c : cfg) (m : mon) (st : state) : Prop :=
  Inv3 c st /\ own_rel (m_own m) st /\ refs_rel c (m_refs m) st /\ m_obs m = observe st.

Lemma p_sectors_not_panic c own k x evs own' : p_sectors c own k x evs = Good own' -> x <> OPanic.
Proof. intros H ->. discriminate. Qed.

Lemma step_sim c m st o st' x evs :
  0 < c_ss c -> Sim c m st -> op_wf o = true -> step c st o = (st', x, evs) ->
  exists m', p_step c m o x evs (observe st') = Good m' /\ Sim c m' st' /\ x <> OPanic.
Proof.
  intros Hss (H3 & HO & HR & Hobs) Hwf E.
  destruct (step_sectors c st o st' x evs (m_own m) Hss H3 HO E) as (own' & Hsec & HO').
  pose proof (p_sectors_not_panic _ _ _ _ _ _ Hsec) as Hx.
  destruct (step_content c Hss st o st' x evs (m_refs m) H3 HR Hwf E Hx) as (Hseek & r' & Hcont & HR').
  pose proof (step_inv3 c st o st' x evs Hss H3 Hwf E) as H3'.
  exists (mkMon own' r' (observe st')). split; [|split; [split; [|split; [|split]]|]]; auto.
  unfold p_step. rewrite Hsec. cbn [bind]. rewrite Hseek. cbn [bind]. rewrite Hobs, Hcont. cbn [bind].
  rewrite (refs_rel_lens c r' st' HR'). cbn [check bind].
  destruct H3' as ((HI' & _) & _). rewrite (observe_quota c st' HI'). reflexivity.
Qed.

Lemma trace_sim c : 0 < c_ss c -> forall ops st m i, Sim c m st -> ops_wf ops ->
  trace_from c m i (trace c st ops) = None.
Proof.
  intros Hss. induction ops as [|o tl IH]; intros st m i HS Hwf; [reflexivity|].
  cbn [trace]. destruct (step c st o) as [[st' x] evs] eqn:E.
  destruct (step_sim c m st o st' x evs Hss HS (Hwf o (or_introl eq_refl)) E) as (m' & Hp & HS' & Hx).
  cbn [trace_from t_op t_out t_evs t_obs]. rewrite Hp.
  assert (Hwf' : ops_wf tl) by (intros o' Ho'; apply Hwf; now right).
  destruct x; try congruence; apply IH; auto.
Qed.

Lemma sim_init c : Sim c (mon_init c) (init c).
Proof.
  split; [apply init_inv3|]. split; [apply own_rel_init; reflexivity|]. split; [|reflexivity].
  unfold refs_rel, refs_init, init. cbn. repeat constructor.
Qed.

Lemma file_refines_bytes_lemma c ops : 0 < c_ss c -> ops_wf ops -> trace_ok c (trace c (init c) ops) = true.
Proof.
  intros Hss Hwf. unfold trace_ok. now rewrite (trace_sim c Hss ops (init c) (mon_init c) 0 (sim_init c) Hwf).
Qed.

(* the simulation holds in every reachable state: the monitor state after the trace exists *)
Lemma run_sim c ops : 0 < c_ss c -> ops_wf ops -> forall st m, Sim c m st -> exists m', Sim c m' (run c st ops).
Proof.
  intros Hss. induction ops as [|o tl IH]; intros Hwf st m HS; cbn [run]; [eauto|].
  destruct (step c st o) as [[st' x] evs] eqn:E.
  destruct (step_sim c m st o st' x evs Hss HS (Hwf o (or_introl eq_refl)) E) as (m' & _ & HS' & _).
  apply (IH ltac:(intros o' Ho'; apply Hwf; now right) st' m' HS').
Qed.

(* ---- Truncate, byte by byte, in every reachable state ------------------------------------ *)

Lemma truncate_refines_lemma c ops slot f w size w' f' e : 0 < c_ss c -> ops_wf ops ->
  let st := run c (init c) ops in
  get_file st slot = Some f -> w_dev w = st_dev st -> w_al w = st_al st -> (0 <= size)%Z ->
  file_truncate (c_ss c) w f size = (w', f', e) ->
  let sz := Z.to_nat size in
  (forall j, j < sz -> j < N.to_nat (f_size f) -> content (c_ss c) (w_dev w') f' j = content (c_ss c) (w_dev w) f j) /\
  (forall j, N.to_nat (f_size f) <= j -> content (c_ss c) (w_dev w) f j = 0%N) /\
  (forall j, N.to_nat (f_size f') <= j -> content (c_ss c) (w_dev w') f' j = 0%N) /\
  (e = ENone -> f_size f' = Z.to_N size /\
     forall j, N.to_nat (f_size f) <= j -> j < sz -> content (c_ss c) (w_dev w') f' j = 0%N) /\
  (e <> ENone -> f_size f' = f_size f /\ sz < N.to_nat (f_size f)).
Proof.
  intros Hss Hwf st Hg Hd Hal Hsz ET sz.
  destruct (run_inv3 c ops Hss Hwf (init c) (init_inv3 c)) as ((HI & Hl) & HF). fold st in HI, Hl, HF.
  destruct (slot_ainv _ _ _ _ HI Hg) as (oth & Ha). rewrite <- Hal in Ha. rewrite <- Hd in Hl.
  pose proof (HF slot f Hg) as Hwff. rewrite <- Hd in Hwff.
  destruct (file_truncate_wf (c_ss c) (c_nsec c) Hss w f size w' f' e oth Ha Hl Hsz ET Hwff)
    as ((_ & I2' & _) & Hcont & _ & _ & Hok & Hfail).
  destruct Hwff as (_ & I2 & _). fold sz in Hcont.
  splits; auto.
  - intros He. split; auto. intros j Hj Hjs. rewrite Hcont by auto. apply I2. exact Hj.
  - intros He. destruct (Hfail He). auto.
Qed.

(* ---- GetNextRegionOffset in every reachable state --------------------------------------------- *)

Lemma seek_refines_lemma c ops slot f w off (data : bool) w' x : 0 < c_ss c -> ops_wf ops ->
  let st := run c (init c) ops in
  get_file st slot = Some f -> w_dev w = st_dev st -> w_al w = st_al st -> w_ev w = [] ->
  (0 <= off)%Z -> (Z.to_N off < f_size f)%N ->
  file_seek (c_ss c) w f off data = (w', x) ->
  exists r e, x = ORes r e [] /\ a_panic (w_al w') = false /\
    match e with
    | ENone => (0 <= r)%Z /\
               if data then DataRes c f (Z.to_nat off) (Z.to_nat r) else HoleRes c f (Z.to_nat off) (Z.to_nat r)
    | EEOF => data = true /\ forall j, Z.to_nat off <= j -> ~ data_at c f j
    | _ => e = EInjected /\ existsb is_failed_ev (w_ev w') = true
    end.
Proof.
  intros Hss Hwf st Hg Hd Hal Hev Hoff Hlt ES.
  destruct (run_inv3 c ops Hss Hwf (init c) (init_inv3 c)) as ((HI & Hl) & HF). fold st in HI, Hl, HF.
  destruct (slot_ainv _ _ _ _ HI Hg) as (oth & Ha). rewrite <- Hal in Ha. rewrite <- Hd in Hl.
  destruct (HF slot f Hg) as (I1 & _ & I3 & I4f).
  assert (HL : LW c oth (nz (f_secs f)) [] w (nz (f_secs f))).
  { split; [|split]; auto. exists [], (nz (f_secs f)). rewrite Hev. splits; auto. }
  destruct (file_seek_spec c oth (nz (f_secs f)) [] Hss w f off data w' x (nz (f_secs f)) I1 I3 I4f HL Hoff Hlt ES)
    as (r & e & -> & ((_ & Hp & _) & _) & _ & Hres).
  exists r, e. splits; auto. destruct e; auto; destruct Hres as (He & Hres); try discriminate; auto.
Qed.
