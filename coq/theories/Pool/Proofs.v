(* Proofs about the file pool model. *)
From Coq Require Import Lia ZifyBool ZifyN ZifyNat.
From VF Require Import Pool.Model Pool.Spec.
