(* writeToNewSectors / writeToSectors / WriteAt, byte by byte. *)
From Coq Require Import Lia ZifyBool ZifyNat ZifyN Permutation.
From VF Require Import Pool.Model Pool.ProofsAlloc Pool.ProofsInv Pool.ProofsDev.

Section W.
Variable ss : nat.
Hypothesis Hss : 0 < ss.

Lemma read_hole_ok w f n si o w' got :
  read_hole ss w f n si o = (w', got, ENone) ->
  got = hole_bytes (f_hole f) (si * ss + o) n /\ w_dev w' = w_dev w.
Proof.
  unfold read_hole. intros H. apply hole_read_spec in H as (k & -> & Hk & He & Hd & _ & _).
  rewrite (He eq_refl). auto.
Qed.

Lemma dev_write_ok w s o data w' k :
  dev_write w ss s o data = (w', k, ENone) ->
  w_dev w' = dev_put (w_dev w) (s * ss + o) data /\ k = length data.
Proof.
  intros H. apply dev_write_spec in H as (_ & He & Hd & _). rewrite (He eq_refl), firstn_all in Hd. auto.
Qed.

Lemma wns_first_ok w f p first si o w' p1 sec idx :
  wns_first ss w f p first si o = (w', p1, sec, idx, ENone) -> o < ss ->
  if 0 <? o then
    w_dev w' = dev_put (w_dev w) (pred first * ss)
      (hole_bytes (f_hole f) (si * ss) o ++ firstn (ss - o) p ++
       hole_bytes (f_hole f) (si * ss + (o + length p)) (ss - (o + length p)))
    /\ p1 = skipn (ss - o) p /\ sec = S first /\ idx = S si
  else w_dev w' = w_dev w /\ p1 = p /\ sec = first /\ idx = si.
Proof.
  unfold wns_first. intros H Ho. destruct (0 <? o) eqn:E0; [|injection H as <- <- <- <-; auto].
  destruct (read_hole ss w f o si 0) as [[w1 lead] e1] eqn:E1.
  destruct e1; try (injection H as _ _ _ _ H; discriminate).
  apply read_hole_ok in E1 as (-> & Hd1). rewrite Nat.add_0_r in H.
  destruct (o + length p <? ss) eqn:E2.
  - destruct (read_hole ss w1 f (ss - (o + length p)) si (o + length p)) as [[w2 trail] e2] eqn:E3.
    destruct e2; try (injection H as _ _ _ _ H; discriminate).
    apply read_hole_ok in E3 as (-> & Hd2).
    destruct (dev_write w2 ss (pred first) 0 _) as [[w3 k] e3] eqn:E4.
    injection H as <- <- <- <- ->. apply dev_write_ok in E4 as (Hd3 & _).
    rewrite firstn_min_length, Nat.add_0_r in Hd3. rewrite skipn_min_length. splits; auto. rewrite Hd3, Hd2, Hd1. reflexivity.
  - destruct (dev_write w1 ss (pred first) 0 _) as [[w3 k] e3] eqn:E4.
    injection H as <- <- <- <- ->. apply dev_write_ok in E4 as (Hd3 & _).
    rewrite firstn_min_length, Nat.add_0_r in Hd3. rewrite skipn_min_length. splits; auto. rewrite Hd3, Hd1.
    replace (ss - (o + length p)) with 0 by lia. reflexivity.
Qed.

Lemma wns_full_ok w p sector idx w' p2 sec idx' :
  wns_full ss w p sector idx = (w', p2, sec, idx', ENone) ->
  w_dev w' = dev_put (w_dev w) (pred sector * ss) (firstn (length p / ss * ss) p) /\
  p2 = skipn (length p / ss * ss) p /\ sec = sector + length p / ss /\ idx' = idx + length p / ss \/
  length p / ss = 0 /\ w_dev w' = w_dev w /\ p2 = p /\ sec = sector /\ idx' = idx.
Proof.
  unfold wns_full. intros H. destruct (0 <? length p / ss) eqn:E0.
  - destruct (dev_write w ss (pred sector) 0 _) as [[w3 k] e3] eqn:E4.
    injection H as <- <- <- <- ->. apply dev_write_ok in E4 as (Hd3 & _). rewrite Nat.add_0_r in Hd3. left. auto.
  - injection H as <- <- <- <-. right. splits; auto. apply Nat.ltb_ge in E0. now apply Nat.le_0_r.
Qed.

Lemma wns_last_ok w f p sector idx w' :
  wns_last ss w f p sector idx = (w', ENone) ->
  if 0 <? length p then
    w_dev w' = dev_put (w_dev w) (pred sector * ss)
                 (p ++ hole_bytes (f_hole f) (idx * ss + length p) (ss - length p))
  else w_dev w' = w_dev w.
Proof.
  unfold wns_last. intros H. destruct (0 <? length p) eqn:E0; [|injection H as <-; auto].
  destruct (read_hole ss w f (ss - length p) idx (length p)) as [[w1 trail] e1] eqn:E1.
  destruct e1; try (injection H as _ H; discriminate).
  apply read_hole_ok in E1 as (-> & Hd1).
  destruct (dev_write w1 ss (pred sector) 0 _) as [[w3 k] e3] eqn:E4.
  injection H as <- ->. apply dev_write_ok in E4 as (Hd3 & _). rewrite Nat.add_0_r in Hd3. now rewrite Hd3, Hd1.
Qed.

Lemma cdivn_spec q r : r < ss -> cdivn (q * ss + r) ss = if r =? 0 then q else S q.
Proof.
  intros Hr. unfold cdivn. destruct (r =? 0) eqn:E.
  - assert (r = 0) by lia. subst r. replace (q * ss + 0 + ss - 1) with (q * ss + (ss - 1)) by lia.
    apply (div_mod_pos ss q (ss - 1)); lia.
  - replace (q * ss + r + ss - 1) with (S q * ss + (r - 1)) by lia.
    apply (div_mod_pos ss (S q) (r - 1)); lia.
Qed.

Lemma cdivn_decomp a : exists q r, a = q * ss + r /\ r < ss /\ q = a / ss /\ r = a mod ss.
Proof.
  exists (a / ss), (a mod ss). destruct (pos_decomp ss a Hss). auto.
Qed.

Lemma dev_put_nil dev pos : dev_put dev pos [] = dev.
Proof. unfold dev_put. cbn. rewrite Nat.add_0_r. apply firstn_skipn. Qed.

(* stages two and three together: data starting at a sector boundary *)
Lemma wns_aligned w f p1 sector idx w2 p2 sec2 idx2 w3 :
  wns_full ss w p1 sector idx = (w2, p2, sec2, idx2, ENone) ->
  wns_last ss w2 f p2 sec2 idx2 = (w3, ENone) ->
  1 <= sector -> pred sector * ss + cdivn (length p1) ss * ss <= length (w_dev w) ->
  w_dev w3 = dev_put (w_dev w) (pred sector * ss)
               (p1 ++ hole_bytes (f_hole f) (idx * ss + length p1) (cdivn (length p1) ss * ss - length p1)).
Proof.
  intros H2 H3 Hsec Hrange.
  destruct (cdivn_decomp (length p1)) as (q & r & Hlen & Hr & Hq & Hrm).
  rewrite Hlen, cdivn_spec in * by auto. rewrite <- Hlen in *.
  assert (Hd2 : w_dev w2 = dev_put (w_dev w) (pred sector * ss) (firstn (q * ss) p1) /\
                p2 = skipn (q * ss) p1 /\ sec2 = sector + q /\ idx2 = idx + q).
  { apply wns_full_ok in H2; auto. rewrite <- Hq in H2. destruct H2 as [H2|(Hq0 & Hd & -> & -> & ->)]; [exact H2|].
    rewrite Hq0. cbn [Nat.mul firstn skipn]. rewrite dev_put_nil, !Nat.add_0_r. auto. }
  destruct Hd2 as (Hd2 & -> & -> & ->).
  apply wns_last_ok in H3; auto. rewrite skipn_length in H3.
  assert (Hp1 : p1 = firstn (q * ss) p1 ++ skipn (q * ss) p1) by (symmetry; apply firstn_skipn).
  destruct (r =? 0) eqn:Er.
  - assert (r = 0) by lia. subst r. replace (0 <? length p1 - q * ss) with false in H3 by lia.
    rewrite H3, Hd2. replace (q * ss - length p1) with 0 by lia. cbn [hole_bytes]. rewrite app_nil_r.
    f_equal. apply firstn_all2. lia.
  - replace (0 <? length p1 - q * ss) with true in H3 by lia.
    rewrite H3, Hd2.
    replace (pred (sector + q) * ss) with (pred sector * ss + length (firstn (q * ss) p1)).
    2:{ rewrite firstn_length. replace (Nat.min (q * ss) (length p1)) with (q * ss) by lia.
        destruct sector; [lia|]. cbn [pred]. replace (S sector + q) with (S (sector + q)) by lia. cbn [pred]. lia. }
    rewrite dev_put_app.
    + f_equal. rewrite app_assoc, <- Hp1. f_equal. f_equal; lia.
    + rewrite firstn_length, app_length, skipn_length, hole_bytes_length. lia.
Qed.

Lemma cdivn_0 : cdivn 0 ss = 0.
Proof. unfold cdivn. apply Nat.div_small. lia. Qed.

Lemma cdivn_add_ss a : cdivn (ss + a) ss = S (cdivn a ss).
Proof.
  destruct (cdivn_decomp a) as (q & r & -> & Hr & _).
  replace (ss + (q * ss + r)) with (S q * ss + r) by lia. rewrite !cdivn_spec by auto. destruct (r =? 0); reflexivity.
Qed.

Lemma cdivn_small a : 1 <= a <= ss -> cdivn a ss = 1.
Proof.
  intros H. destruct (Nat.eq_dec a ss) as [->|Hn].
  - replace ss with (1 * ss + 0) at 1 by lia. rewrite cdivn_spec by lia. reflexivity.
  - replace a with (0 * ss + a) by lia. rewrite cdivn_spec by lia. replace (a =? 0) with false by lia. reflexivity.
Qed.

Lemma wns_ok nsec w f p si o w' n first cnt e h :
  write_to_new_sectors ss w f p si o = (w', Some (n, first, cnt), e) ->
  o < ss -> p <> [] -> AInv nsec (w_al w) h -> length (w_dev w) = nsec * ss ->
  w_dev w' = dev_put (w_dev w) (pred first * ss)
    (hole_bytes (f_hole f) (si * ss) o ++ firstn n p ++
     hole_bytes (f_hole f) (si * ss + (o + n)) (cdivn (o + n) ss * ss - (o + n))) /\
  cdivn (o + n) ss <= cnt /\ 1 <= first /\ pred first + cnt <= nsec /\ 1 <= n <= length p.
Proof.
  intros H Ho Hp Ha Hlen.
  pose proof (wns_al _ _ _ _ _ _ _ _ _ _ _ Ha Hss Hp H) as (Ha1 & Hcnt & Hn & ->).
  assert (Hlp : 1 <= length p) by (destruct p; [congruence|cbn; lia]).
  assert (Hfirst : 1 <= first /\ pred first + cnt <= nsec).
  { destruct Ha1 as (_ & _ & _ & Hr & _).
    assert (H1f : 1 <= first) by (apply (Hr first); apply in_app_iff; left; apply in_seq1; lia).
    split; [exact H1f|].
    assert (first + cnt - 1 <= nsec); [|lia]. apply (Hr (first + cnt - 1)). apply in_app_iff. left. apply in_seq1. lia. }
  assert (Hcs : cnt * ss >= ss) by nia.
  assert (Hon : o + n <= cnt * ss) by lia.
  assert (HT : cdivn (o + n) ss <= cnt) by (apply div_up_le; auto).
  assert (Hn1 : 1 <= n <= length p) by lia.
  split; [|tauto].
  unfold write_to_new_sectors in H.
  change ((o + length p + ss - 1) / ss) with (cdivn (o + length p) ss) in H.
  destruct (allocate w (cdivn (o + length p) ss)) as [w0 [[first' cnt']|]] eqn:EA; [|discriminate].
  assert (Hmax : 1 <= cdivn (o + length p) ss) by lia.
  apply (allocate_some _ _ _ _ _ _ _ Ha Hmax) in EA as (_ & _ & Hd0 & _).
  unfold limit in H.
  destruct (wns_first _ _ _ _ _ _ _) as [[[[w1 p1] s1] i1] e1] eqn:E1.
  destruct e1; try discriminate.
  destruct (wns_full _ _ _ _ _) as [[[[w2 p2] s2] i2] e2] eqn:E2.
  destruct e2; try discriminate.
  destruct (wns_last _ _ _ _ _ _) as [w3 e3] eqn:E3.
  destruct e3; try discriminate.
  injection H as <- Hn' <- <-.
  set (P := firstn (Nat.min (length p) (cnt' * ss - o)) p) in *.
  assert (HP : P = firstn n p) by (unfold P; now rewrite Hn).
  assert (HlP : length P = n) by (rewrite HP, firstn_length; lia).
  clearbody P. subst P. rewrite HlP in *. clear Hn'.
  apply wns_first_ok in E1; auto. rewrite HlP in E1.
  assert (Hrange : pred first' * ss + cdivn (o + n) ss * ss <= length (w_dev w)) by nia.
  destruct (0 <? o) eqn:E0.
  - destruct E1 as (Hd1 & -> & -> & ->).
    set (buf1 := hole_bytes (f_hole f) (si * ss) o ++ firstn (ss - o) (firstn n p) ++
                 hole_bytes (f_hole f) (si * ss + (o + n)) (ss - (o + n))) in *.
    assert (Hb1 : length buf1 = ss).
    { unfold buf1. rewrite !app_length, !hole_bytes_length, !firstn_length. lia. }
    assert (Hl1 : length (skipn (ss - o) (firstn n p)) = n - (ss - o)).
    { rewrite skipn_length, HlP. reflexivity. }
    assert (HTT : cdivn (o + n) ss = S (cdivn (n - (ss - o)) ss)).
    { destruct (Nat.le_gt_cases ss (o + n)).
      - replace (o + n) with (ss + (n - (ss - o))) by lia. apply cdivn_add_ss.
      - replace (n - (ss - o)) with 0 by lia. rewrite cdivn_small by lia.
        replace 0 with (0 * ss + 0) by lia. rewrite cdivn_spec by lia. reflexivity. }
    erewrite (wns_aligned _ f _ _ _ _ _ _ _ _ E2 E3); [|lia|].
    2:{ rewrite Hl1, Hd1, dev_put_length by (rewrite Hd0; lia). cbn [pred]. rewrite Hd0. nia. }
    rewrite Hd1, Hl1, Hd0. cbn [pred].
    replace (first' * ss) with (pred first' * ss + length buf1) by (rewrite Hb1; destruct first'; cbn; lia).
    rewrite dev_put_app.
    2:{ rewrite Hb1, app_length, Hl1, hole_bytes_length. nia. }
    f_equal. unfold buf1. rewrite <- !app_assoc. f_equal.
    destruct (Nat.le_gt_cases ss (o + n)).
    + replace (ss - (o + n)) with 0 by lia. cbn [hole_bytes app].
      rewrite (app_assoc (firstn _ _)), firstn_skipn. f_equal.
      f_equal; [lia|]. rewrite HTT. lia.
    + rewrite (firstn_all2 (n := ss - o)) by lia. rewrite (skipn_all2 (n := ss - o)) by lia. cbn [app].
      assert (H1 : cdivn (o + n) ss = 1) by (apply cdivn_small; lia).
      assert (Hz : cdivn (n - (ss - o)) ss = 0) by lia.
      rewrite Hz, H1. cbn [Nat.mul Nat.sub hole_bytes]. rewrite app_nil_r. f_equal. f_equal. lia.
  - destruct E1 as (Hd1 & -> & -> & ->). assert (o = 0) by lia. subst o.
    erewrite (wns_aligned _ f _ _ _ _ _ _ _ _ E2 E3); [|lia|].
    2:{ rewrite HlP, Hd1, Hd0. cbn [Nat.add] in Hrange. exact Hrange. }
    rewrite Hd1, Hd0, HlP. cbn [hole_bytes app Nat.add]. reflexivity.
Qed.

(* ---- confinement of writeToNewSectors, whatever its outcome -------------------- *)

Lemma read_hole_dev w f n si o w' got e : read_hole ss w f n si o = (w', got, e) -> w_dev w' = w_dev w.
Proof. unfold read_hole. intros H. apply hole_read_spec in H as (k & _ & _ & _ & Hd & _ & _). exact Hd. Qed.

Lemma wns_first_conf w f p first si o w' p1 sec idx e :
  wns_first ss w f p first si o = (w', p1, sec, idx, e) -> o < ss ->
  pred first * ss + ss <= length (w_dev w) ->
  conf (pred first * ss) (pred first * ss + ss) (w_dev w) (w_dev w').
Proof.
  unfold wns_first. intros H Ho Hr. destruct (0 <? o) eqn:E0; [|injection H as <- _ _ _ _; apply conf_refl].
  destruct (read_hole ss w f o si 0) as [[w1 lead] e1] eqn:E1.
  pose proof (read_hole_dev _ _ _ _ _ _ _ _ E1) as Hd1.
  destruct e1; try (injection H as <- _ _ _ _; now apply conf_eq).
  apply read_hole_ok in E1 as (-> & _).
  destruct (o + length p <? ss) eqn:E2.
  - destruct (read_hole ss w1 f (ss - (o + length p)) si (o + length p)) as [[w2 trail] e2] eqn:E3.
    pose proof (read_hole_dev _ _ _ _ _ _ _ _ E3) as Hd2.
    destruct e2; try (injection H as <- _ _ _ _; apply conf_eq; congruence).
    apply read_hole_ok in E3 as (-> & _).
    destruct (dev_write w2 ss (pred first) 0 _) as [[w3 k] e3] eqn:E4.
    injection H as <- _ _ _ _. apply dev_write_conf in E4.
    + rewrite Hd2, Hd1 in E4. eapply conf_weaken; [| |exact E4]; [lia|].
      rewrite !app_length, !hole_bytes_length, firstn_length. lia.
    + rewrite Hd2, Hd1, !app_length, !hole_bytes_length, firstn_length. lia.
  - destruct (dev_write w1 ss (pred first) 0 _) as [[w3 k] e3] eqn:E4.
    injection H as <- _ _ _ _. apply dev_write_conf in E4.
    + rewrite Hd1 in E4. eapply conf_weaken; [| |exact E4]; [lia|].
      rewrite !app_length, !hole_bytes_length, firstn_length. cbn [length]. lia.
    + rewrite Hd1, !app_length, !hole_bytes_length, firstn_length. cbn [length]. lia.
Qed.

Lemma wns_full_conf w p sector idx w' p2 sec idx' e :
  wns_full ss w p sector idx = (w', p2, sec, idx', e) ->
  pred sector * ss + length p / ss * ss <= length (w_dev w) ->
  conf (pred sector * ss) (pred sector * ss + length p / ss * ss) (w_dev w) (w_dev w').
Proof.
  unfold wns_full. intros H Hr. destruct (0 <? length p / ss) eqn:E0; [|injection H as <- _ _ _ _; apply conf_refl].
  destruct (dev_write w ss (pred sector) 0 _) as [[w3 k] e3] eqn:E4.
  injection H as <- _ _ _ _.
  assert (Hl : length (firstn (length p / ss * ss) p) = length p / ss * ss).
  { rewrite firstn_length. destruct (pos_decomp ss (length p) Hss) as [Hd _]. lia. }
  apply dev_write_conf in E4; rewrite Hl in *; [|lia].
  eapply conf_weaken; [| |exact E4]; lia.
Qed.

Lemma wns_last_conf w f p sector idx w' e :
  wns_last ss w f p sector idx = (w', e) -> length p < ss ->
  pred sector * ss + ss <= length (w_dev w) ->
  conf (pred sector * ss) (pred sector * ss + ss) (w_dev w) (w_dev w').
Proof.
  unfold wns_last. intros H Hp Hr. destruct (0 <? length p) eqn:E0; [|injection H as <- _; apply conf_refl].
  destruct (read_hole ss w f (ss - length p) idx (length p)) as [[w1 trail] e1] eqn:E1.
  pose proof (read_hole_dev _ _ _ _ _ _ _ _ E1) as Hd1.
  destruct e1; try (injection H as <- _; now apply conf_eq).
  apply read_hole_ok in E1 as (-> & _).
  destruct (dev_write w1 ss (pred sector) 0 _) as [[w3 k] e3] eqn:E4.
  injection H as <- _. apply dev_write_conf in E4.
  - rewrite Hd1 in E4. eapply conf_weaken; [| |exact E4]; [lia|]. rewrite app_length, hole_bytes_length. lia.
  - rewrite Hd1, app_length, hole_bytes_length. lia.
Qed.

Lemma wns_tail_conf w f p1 sector idx w2 p2 sec2 idx2 e2 :
  wns_full ss w p1 sector idx = (w2, p2, sec2, idx2, e2) -> 1 <= sector ->
  pred sector * ss + cdivn (length p1) ss * ss <= length (w_dev w) ->
  conf (pred sector * ss) (pred sector * ss + cdivn (length p1) ss * ss) (w_dev w) (w_dev w2) /\
  forall w3 e3, e2 = ENone -> wns_last ss w2 f p2 sec2 idx2 = (w3, e3) ->
    conf (pred sector * ss) (pred sector * ss + cdivn (length p1) ss * ss) (w_dev w) (w_dev w3).
Proof.
  intros H2 Hsec Hr.
  destruct (cdivn_decomp (length p1)) as (q & r & Hlen & Hrr & Hq & Hrm).
  assert (HT : cdivn (length p1) ss = if r =? 0 then q else S q) by (rewrite Hlen; now apply cdivn_spec).
  assert (Hqle : q <= cdivn (length p1) ss) by (rewrite HT; destruct (r =? 0); lia).
  assert (C2 : conf (pred sector * ss) (pred sector * ss + cdivn (length p1) ss * ss) (w_dev w) (w_dev w2)).
  { pose proof (wns_full_conf _ _ _ _ _ _ _ _ _ H2) as C. rewrite <- Hq in C.
    eapply conf_weaken; [| |apply C]; nia. }
  split; [exact C2|]. intros w3 e3 -> H3.
  assert (Hd2 : p2 = skipn (q * ss) p1 /\ sec2 = sector + q).
  { apply wns_full_ok in H2; auto. rewrite <- Hq in H2. destruct H2 as [(_ & -> & -> & _)|(Hq0 & _ & -> & -> & _)]; auto.
    rewrite Hq0. cbn. split; auto. }
  destruct Hd2 as (-> & ->).
  pose proof C2 as [Hl2 _].
  destruct (r =? 0) eqn:Er.
  - unfold wns_last in H3. rewrite skipn_length in H3. replace (0 <? length p1 - q * ss) with false in H3 by lia.
    injection H3 as <- _. exact C2.
  - eapply conf_trans; [exact C2|].
    + apply wns_last_conf in H3.
      * eapply conf_weaken; [| |exact H3].
        -- destruct sector; [lia|]. cbn [pred]. replace (S sector + q) with (S (sector + q)) by lia. cbn [pred]. nia.
        -- destruct sector; [lia|]. cbn [pred]. replace (S sector + q) with (S (sector + q)) by lia. cbn [pred]. nia.
      * rewrite skipn_length. lia.
      * rewrite Hl2. destruct sector; [lia|]. cbn [pred] in *. replace (S sector + q) with (S (sector + q)) by lia. cbn [pred]. nia.
Qed.

Lemma free_contig_dev w first n : w_dev (free_contig w first n) = w_dev w.
Proof. reflexivity. Qed.

(* sectors held by anyone (before the call) keep their contents, whatever the outcome *)
Lemma wns_frame nsec w f p si o w' r e h :
  write_to_new_sectors ss w f p si o = (w', r, e) ->
  o < ss -> p <> [] -> AInv nsec (w_al w) h -> length (w_dev w) = nsec * ss ->
  length (w_dev w') = length (w_dev w) /\
  forall s x, In s h -> x < ss -> nth (pred s * ss + x) (w_dev w') 0%N = nth (pred s * ss + x) (w_dev w) 0%N.
Proof.
  intros H Ho Hp Ha Hlen.
  assert (Hlp : 1 <= length p) by (destruct p; [congruence|cbn; lia]).
  unfold write_to_new_sectors in H.
  change ((o + length p + ss - 1) / ss) with (cdivn (o + length p) ss) in H.
  destruct (allocate w (cdivn (o + length p) ss)) as [w0 [[first cnt]|]] eqn:EA.
  2:{ apply (allocate_none _ _ _ _ _ Ha) in EA as (_ & Hd & _). injection H as <- _ _. rewrite Hd. auto. }
  assert (Hmax : 1 <= cdivn (o + length p) ss).
  { unfold cdivn. apply Nat.div_le_lower_bound; lia. }
  apply (allocate_some _ _ _ _ _ _ _ Ha Hmax) in EA as (Ha1 & Hcnt & Hd0 & _).
  assert (Hfirst : 1 <= first /\ pred first + cnt <= nsec).
  { destruct Ha1 as (_ & _ & _ & Hr & _).
    assert (H1f : 1 <= first) by (apply (Hr first); apply in_app_iff; left; apply in_seq1; lia).
    split; [exact H1f|].
    assert (first + cnt - 1 <= nsec); [|lia]. apply (Hr (first + cnt - 1)). apply in_app_iff. left. apply in_seq1. lia. }
  (* everything happens inside the allocated run *)
  assert (C : conf (pred first * ss) ((pred first + cnt) * ss) (w_dev w) (w_dev w')).
  { unfold limit in H.
    set (P := firstn (Nat.min (length p) (cnt * ss - o)) p) in *.
    assert (Hcs : cnt * ss >= ss) by nia.
    assert (HlP : length P = Nat.min (length p) (cnt * ss - o)) by (unfold P; rewrite firstn_length; lia).
    assert (HT : cdivn (o + length P) ss <= cnt) by (apply div_up_le; auto; lia).
    destruct (wns_first _ _ _ _ _ _ _) as [[[[w1 p1] s1] i1] e1] eqn:E1.
    assert (C1 : conf (pred first * ss) ((pred first + cnt) * ss) (w_dev w) (w_dev w1)).
    { rewrite <- Hd0. eapply conf_weaken; [| |eapply wns_first_conf; eauto]; rewrite ?Hd0; nia. }
    destruct e1; try (injection H as <- _ _; rewrite free_contig_dev; exact C1).
    apply wns_first_ok in E1; auto.
    assert (Hp1 : (if 0 <? o then S first else first) = s1 /\
                  cdivn (o + length P) ss = (if 0 <? o then 1 else 0) + cdivn (length p1) ss).
    { destruct (0 <? o) eqn:E0; destruct E1 as (_ & -> & -> & _); split; auto.
      - rewrite skipn_length. destruct (Nat.le_gt_cases ss (o + length P)).
        + replace (o + length P) with (ss + (length P - (ss - o))) by lia. apply cdivn_add_ss.
        + replace (length P - (ss - o)) with 0 by lia. rewrite cdivn_small by lia.
          now rewrite cdivn_0.
      - replace o with 0 by lia. reflexivity. }
    destruct Hp1 as (Hs1 & HTT).
    destruct (wns_full _ _ _ _ _) as [[[[w2 p2] s2] i2] e2] eqn:E2.
    pose proof C1 as [Hl1 _].
    assert (Hr2 : pred s1 * ss + cdivn (length p1) ss * ss <= length (w_dev w1)).
    { rewrite Hl1, Hlen. rewrite <- Hs1. destruct (0 <? o); destruct first; cbn [pred] in *; nia. }
    assert (Hs1' : 1 <= s1) by (rewrite <- Hs1; destruct (0 <? o); lia).
    destruct (wns_tail_conf _ f _ _ _ _ _ _ _ _ E2 Hs1' Hr2) as (C2 & C3).
    assert (Hin : pred first * ss <= pred s1 * ss /\
                  pred s1 * ss + cdivn (length p1) ss * ss <= (pred first + cnt) * ss).
    { rewrite <- Hs1. destruct (0 <? o); destruct first; cbn [pred] in *; nia. }
    assert (C2' : conf (pred first * ss) ((pred first + cnt) * ss) (w_dev w) (w_dev w2)).
    { eapply conf_trans; [exact C1|]. eapply conf_weaken; [| |exact C2]; lia. }
    destruct e2; try (injection H as <- _ _; rewrite free_contig_dev; exact C2').
    destruct (wns_last _ _ _ _ _ _) as [w3 e3] eqn:E3.
    assert (C3' : conf (pred first * ss) ((pred first + cnt) * ss) (w_dev w) (w_dev w3)).
    { eapply conf_trans; [exact C1|]. eapply conf_weaken; [| |exact (C3 _ _ eq_refl eq_refl)]; lia. }
    destruct e3; injection H as <- _ _; rewrite ?free_contig_dev; exact C3'. }
  destruct C as [Cl Cq]. split; [exact Cl|].
  intros s x Hs Hx. apply Cq.
  assert (Hns : ~ In s (seq1 first cnt)).
  { destruct Ha1 as (_ & _ & Hnd & _). apply NoDup_app_iff in Hnd as (_ & _ & Hd). intros Hi. apply (Hd _ Hi Hs). }
  rewrite in_seq1 in Hns.
  assert (Hs1 : 1 <= s) by (destruct Ha as (_ & _ & _ & Hr & _); apply Hr; auto).
  destruct (Nat.lt_ge_cases s first); [left|right]; destruct s; destruct first; cbn [pred] in *; nia.
Qed.
End W.
