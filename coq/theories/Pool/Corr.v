(* Correspondence evaluator for the file pool: the model against the
   implementation (outputs, every collaborator call, sizes and quota after
   every step), and the property monitor [p_step] on the implementation's
   own trace. *)
From Coq Require Import Ascii.
From VF Require Import Common.Verdict Pool.Model Pool.Spec.

(* Bytes travel as strings: "." is the null byte, any other character its code. *)
Definition bs (s : string) : list N :=
  map (fun a => let n := N_of_ascii a in if (n =? 46)%N then 0%N else n) (list_ascii_of_string s).

Record case := mkCase { c_cfg : cfg; c_steps : list tstep }.

Fixpoint list_eqb {A} (eqb : A -> A -> bool) (a b : list A) : bool :=
  match a, b with
  | [], [] => true
  | x :: a', y :: b' => eqb x y && list_eqb eqb a' b'
  | _, _ => false
  end.

Definition out_eqb (a b : out) : bool :=
  match a, b with
  | OSkip, OSkip | OPanic, OPanic => true
  | ORes n e d, ORes n' e' d' => Z.eqb n n' && errk_eqb e e' && list_eqb N.eqb d d'
  | _, _ => false
  end.

Definition hcall_eqb (a b : hcall) : bool :=
  match a, b with
  | HRead, HRead | HTrunc, HTrunc | HSeek, HSeek | HClose, HClose => true
  | _, _ => false
  end.

Definition event_eqb (a b : event) : bool :=
  match a, b with
  | EvAlloc m f n, EvAlloc m' f' n' => (m =? m') && (f =? f') && (n =? n')
  | EvAllocFail m, EvAllocFail m' => m =? m'
  | EvFreeContig f n, EvFreeContig f' n' => (f =? f') && (n =? n')
  | EvFreeList l, EvFreeList l' => list_eqb Nat.eqb l l'
  | EvDevRead s o n g k, EvDevRead s' o' n' g' k' =>
    (s =? s') && (o =? o') && (n =? n') && (g =? g') && Bool.eqb k k'
  | EvDevWrite s o n g k, EvDevWrite s' o' n' g' k' =>
    (s =? s') && (o =? o') && (n =? n') && (g =? g') && Bool.eqb k k'
  | EvHole c o n k, EvHole c' o' n' k' => hcall_eqb c c' && (o =? o')%N && (n =? n') && Bool.eqb k k'
  | EvBaseNew k, EvBaseNew k' => Bool.eqb k k'
  | _, _ => false
  end.

Definition optN_eqb (a b : option N) : bool :=
  match a, b with
  | Some x, Some y => (x =? y)%N
  | None, None => true
  | _, _ => false
  end.

Definition obs_eqb (a b : obs) : bool :=
  list_eqb optN_eqb (ob_lens a) (ob_lens b) && (ob_remf a =? ob_remf b)%N && optN_eqb (ob_remb a) (ob_remb b).

Definition viol (c : case) : verdict :=
  match trace_from (c_cfg c) (mon_init (c_cfg c)) 0 (c_steps c) with
  | None => VOk
  | Some (i, k) => VViolation i k
  end.

Fixpoint mism_from (c : cfg) (i : nat) (st : state) (t : list tstep) : verdict :=
  match t with
  | [] => VOk
  | s :: tl =>
    let '(st', x, evs) := step c st (t_op s) in
    if negb (out_eqb x (t_out s)) then VMismatch i "output"
    else if negb (list_eqb event_eqb evs (t_evs s)) then VMismatch i "calls"
    else if negb (obs_eqb (observe st') (t_obs s)) then VMismatch i "sizes-or-quota"
    else mism_from c (S i) st' tl
  end.

Definition check_case (c : case) : verdict :=
  vcombine (viol c) (mism_from (c_cfg c) 0 (init (c_cfg c)) (c_steps c)).
