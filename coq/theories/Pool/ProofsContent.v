(* What one call of writeToSectors does to the contents of the file and to
   everybody else's sectors. *)
From Coq Require Import Lia ZifyBool ZifyNat ZifyN Permutation.
From VF Require Import Pool.Model Pool.ProofsAlloc Pool.ProofsInv Pool.ProofsDev Pool.ProofsWrite.

Lemma in_nz_nth l a : nth a l 0 <> 0 -> In (nth a l 0) (nz l).
Proof.
  intros H. unfold nz. apply filter_In. split.
  - apply nth_In. destruct (Nat.lt_ge_cases a (length l)); auto. rewrite nth_overflow in H by lia. congruence.
  - destruct (nth a l 0); [congruence|reflexivity].
Qed.

Lemma nz_inj l : NoDup (nz l) -> forall a b, nth a l 0 = nth b l 0 -> nth a l 0 <> 0 -> a = b.
Proof.
  induction l as [|x tl IH]; intros Hnd a b He Hn.
  - destruct a; cbn in Hn; congruence.
  - cbn [nz filter] in Hnd. destruct a as [|a], b as [|b]; cbn [nth] in *; auto.
    + exfalso. assert (Hx : x <> 0) by exact Hn. replace (negb (x =? 0)) with true in Hnd by lia.
      apply NoDup_cons_iff in Hnd as [Hni _]. apply Hni. rewrite He. apply in_nz_nth. congruence.
    + exfalso. assert (Hx : x <> 0) by congruence. replace (negb (x =? 0)) with true in Hnd by lia.
      apply NoDup_cons_iff in Hnd as [Hni _]. apply Hni. rewrite <- He. apply in_nz_nth. exact Hn.
    + f_equal. apply IH; auto. destruct (negb (x =? 0)); [now apply NoDup_cons_iff in Hnd|exact Hnd].
Qed.

Lemma add_sub_l a b : a + b - a = b.
Proof. lia. Qed.

Section C.
Variable ss nsec : nat.
Hypothesis Hss : 0 < ss.

Definition untouched (oth : list nat) (dev dev' : list N) : Prop :=
  forall s x, In s oth -> x < ss -> nth (pred s * ss + x) dev' 0%N = nth (pred s * ss + x) dev 0%N.

Definition updated (dev dev' : list N) (f f' : file) (pos n : nat) (p : list N) : Prop :=
  forall j, content ss dev' f' j =
    if (pos <=? j) && (j <? pos + n) then nth (j - pos) p 0%N else content ss dev f j.

(* a file whose sector list and device sectors did not change reads the same *)
Lemma content_frame dev dev' f f' :
  f_hole f' = f_hole f ->
  (forall i, nth i (f_secs f') 0 = nth i (f_secs f) 0) ->
  untouched (nz (f_secs f)) dev dev' ->
  forall j, content ss dev' f' j = content ss dev f j.
Proof.
  intros Hh Hs Hu j. unfold content. rewrite Hh, Hs.
  destruct (nth (j / ss) (f_secs f) 0 =? 0) eqn:E; [reflexivity|].
  apply Hu; [apply in_nz_nth; lia|]. apply Nat.mod_upper_bound. lia.
Qed.

Lemma pad_nth h si o n p T q : q < T -> o + n <= T -> n <= length p ->
  nth q (hole_bytes h (si * ss) o ++ firstn n p ++ hole_bytes h (si * ss + (o + n)) (T - (o + n))) 0%N =
  if (o <=? q) && (q <? o + n) then nth (q - o) p 0%N else nth (si * ss + q) h 0%N.
Proof.
  intros Hq Hon Hn.
  destruct (Nat.lt_ge_cases q o).
  - rewrite app_nth1 by (rewrite hole_bytes_length; lia). rewrite hole_bytes_nth by lia.
    replace ((o <=? q) && (q <? o + n)) with false by lia. reflexivity.
  - rewrite app_nth2 by (rewrite hole_bytes_length; lia). rewrite hole_bytes_length.
    assert (Hfl : length (firstn n p) = n) by (rewrite firstn_length; lia).
    destruct (Nat.lt_ge_cases q (o + n)).
    + rewrite app_nth1 by lia. rewrite nth_firstn by lia.
      replace ((o <=? q) && (q <? o + n)) with true by lia. reflexivity.
    + rewrite app_nth2 by lia. rewrite Hfl, hole_bytes_nth by lia.
      replace ((o <=? q) && (q <? o + n)) with false by lia. f_equal. lia.
Qed.

Lemma new_sectors_updated dev dev' f f' si o n p first cnt :
  o < ss -> 1 <= n <= length p -> o + n <= cnt * ss -> 1 <= first ->
  (pred first + cnt) * ss <= length dev ->
  dev' = dev_put dev (pred first * ss)
           (hole_bytes (f_hole f) (si * ss) o ++ firstn n p ++
            hole_bytes (f_hole f) (si * ss + (o + n)) (cnt * ss - (o + n))) ->
  f_hole f' = f_hole f ->
  (forall i, nth i (f_secs f') 0 = if (si <=? i) && (i <? si + cnt) then first + (i - si) else nth i (f_secs f) 0) ->
  (forall i, si <= i < si + cnt -> nth i (f_secs f) 0 = 0) ->
  untouched (nz (f_secs f)) dev dev' ->
  updated dev dev' f f' (si * ss + o) n p.
Proof.
  intros Ho Hn Hon Hf Hr Hd Hh Hs Hz Hu j.
  destruct first as [|f0]; [lia|]. cbn [pred] in *.
  destruct (pos_decomp ss j Hss) as (Hj & Hjr). set (sj := j / ss) in *. set (r := j mod ss) in *.
  unfold content. fold sj r. rewrite Hh, Hs. clearbody sj r.
  set (pad := hole_bytes (f_hole f) (si * ss) o ++ firstn n p ++
              hole_bytes (f_hole f) (si * ss + (o + n)) (cnt * ss - (o + n))) in *.
  assert (Hpl : length pad = cnt * ss).
  { unfold pad. rewrite !app_length, !hole_bytes_length, firstn_length. lia. }
  destruct ((si <=? sj) && (sj <? si + cnt)) eqn:Ein.
  - cbn [Nat.add Nat.eqb pred].
    rewrite (Hz sj) by lia. cbn [Nat.eqb].
    rewrite Hd, dev_put_nth by (rewrite Hpl; nia). rewrite Hpl.
    replace ((f0 + (sj - si)) * ss + r) with (f0 * ss + ((sj - si) * ss + r)) by nia.
    replace ((f0 * ss <=? f0 * ss + ((sj - si) * ss + r)) &&
             (f0 * ss + ((sj - si) * ss + r) <? f0 * ss + cnt * ss)) with true by nia.
    rewrite add_sub_l.
    unfold pad. rewrite pad_nth by nia.
    replace (si * ss + ((sj - si) * ss + r)) with j by nia.
    replace ((o <=? (sj - si) * ss + r) && ((sj - si) * ss + r <? o + n))
      with ((si * ss + o <=? j) && (j <? si * ss + o + n)) by nia.
    destruct ((si * ss + o <=? j) && (j <? si * ss + o + n)); [f_equal; nia|reflexivity].
  - replace ((si * ss + o <=? j) && (j <? si * ss + o + n)) with false by nia.
    destruct (nth sj (f_secs f) 0 =? 0) eqn:E0; [reflexivity|].
    apply Hu; [apply in_nz_nth; lia|exact Hjr].
Qed.

Lemma wns_T o lenp cnt n : o < ss -> 1 <= cnt <= cdivn (o + lenp) ss ->
  n = Nat.min lenp (cnt * ss - o) -> cdivn (o + n) ss = cnt.
Proof.
  intros Ho Hc Hn. assert (Hcs : cnt * ss >= ss) by nia.
  destruct (Nat.le_gt_cases lenp (cnt * ss - o)).
  - assert (n = lenp) by lia. subst n. rewrite H0. apply Nat.le_antisymm; [|apply Hc].
    apply div_up_le; auto. lia.
  - assert (o + n = cnt * ss + 0) as -> by lia. rewrite cdivn_spec by lia. reflexivity.
Qed.

Lemma untouched_app a b dev dev' : untouched (a ++ b) dev dev' -> untouched a dev dev' /\ untouched b dev dev'.
Proof. intros H. split; intros s x Hs Hx; apply H; auto; apply in_app_iff; auto. Qed.

(* overwriting a run of consecutive device sectors *)
Lemma overwrite_updated dev f si o c sector data oth :
  o < ss -> 1 <= c -> sector <> 0 ->
  (forall t, t < c -> nth (si + t) (f_secs f) 0 = sector + t) ->
  NoDup (nz (f_secs f) ++ oth) -> (forall s, In s oth -> 1 <= s) ->
  o + length data <= c * ss -> (pred sector + c) * ss <= length dev ->
  let dev' := dev_put dev (pred sector * ss + o) data in
  length dev' = length dev /\ untouched oth dev dev' /\
  updated dev dev' f f (si * ss + o) (length data) data.
Proof.
  intros Ho Hc Hsec Hrun Hnd Hpos Hlen Hrange dev'.
  destruct sector as [|s0]; [congruence|]. cbn [pred] in *.
  apply NoDup_app_iff in Hnd as (Hnd & _ & Hdis).
  assert (Hl : length dev' = length dev) by (apply dev_put_length; nia).
  assert (Hrun_in : forall t, t < c -> In (S s0 + t) (nz (f_secs f))).
  { intros t Ht. rewrite <- Hrun by auto. apply in_nz_nth. rewrite Hrun by auto. lia. }
  splits; auto.
  - intros s x Hs Hx. unfold dev'. rewrite dev_put_nth by nia.
    destruct ((s0 * ss + o <=? pred s * ss + x) && (pred s * ss + x <? s0 * ss + o + length data)) eqn:E; [|reflexivity].
    exfalso. destruct s as [|s1]; cbn [pred] in *.
    + apply Hpos in Hs. lia.
    + assert (Ht : s0 <= s1 < s0 + c) by nia.
      apply (Hdis (S s1)); auto. replace (S s1) with (S s0 + (s1 - s0)) by lia. apply Hrun_in. lia.
  - intros j. destruct (pos_decomp ss j Hss) as (Hj & Hjr). set (sj := j / ss) in *. set (r := j mod ss) in *.
    unfold content. fold sj r. clearbody sj r.
    destruct (nth sj (f_secs f) 0 =? 0) eqn:E0.
    + destruct ((si <=? sj) && (sj <? si + c)) eqn:Ein.
      * specialize (Hrun (sj - si) ltac:(lia)). replace (si + (sj - si)) with sj in Hrun by lia. lia.
      * replace ((si * ss + o <=? j) && (j <? si * ss + o + length data)) with false by nia. reflexivity.
    + unfold dev'. rewrite dev_put_nth by nia.
      destruct ((si <=? sj) && (sj <? si + c)) eqn:Ein.
      * specialize (Hrun (sj - si) ltac:(lia)). replace (si + (sj - si)) with sj in Hrun by lia.
        rewrite Hrun. cbn [pred Nat.add].
        replace ((s0 * ss + o <=? (s0 + (sj - si)) * ss + r) && ((s0 + (sj - si)) * ss + r <? s0 * ss + o + length data))
          with ((si * ss + o <=? j) && (j <? si * ss + o + length data)) by nia.
        destruct ((si * ss + o <=? j) && (j <? si * ss + o + length data)); [f_equal; nia|reflexivity].
      * replace ((si * ss + o <=? j) && (j <? si * ss + o + length data)) with false by nia.
        destruct ((s0 * ss + o <=? pred (nth sj (f_secs f) 0) * ss + r) &&
                  (pred (nth sj (f_secs f) 0) * ss + r <? s0 * ss + o + length data)) eqn:E; [|reflexivity].
        exfalso. remember (nth sj (f_secs f) 0) as s eqn:Hs. destruct s as [|s1]; [lia|]. cbn [pred] in E.
        assert (Ht : s0 <= s1 < s0 + c) by nia.
        specialize (Hrun (s1 - s0) ltac:(lia)).
        assert (sj = si + (s1 - s0)).
        { apply (nz_inj _ Hnd); [rewrite Hrun, <- Hs; lia|rewrite <- Hs; lia]. }
        lia.
Qed.

Lemma wts_content w f p si ei o w' f' n e oth :
  AInv nsec (w_al w) (nz (f_secs f) ++ oth) -> length (w_dev w) = nsec * ss ->
  o < ss -> p <> [] ->
  write_to_sectors ss w f p si ei o = (w', f', n, e) ->
  length (w_dev w') = length (w_dev w) /\
  untouched oth (w_dev w) (w_dev w') /\
  updated (w_dev w) (w_dev w') f f' (si * ss + o) n p.
Proof.
  intros Ha Hlen Ho Hp. unfold write_to_sectors.
  assert (Hlp : 1 <= length p) by (destruct p; [congruence|cbn; lia]).
  (* the part shared by the two cases that allocate new sectors *)
  assert (Hnew : forall p' w1 r e1,
    p' <> [] -> (forall k, k < length p' -> nth k p' 0%N = nth k p 0%N) -> length p' <= length p ->
    write_to_new_sectors ss w f p' si o = (w1, r, e1) ->
    length (w_dev w1) = length (w_dev w) /\ untouched oth (w_dev w) (w_dev w1) /\
    match r with
    | Some (n1, first, cnt) =>
      cnt <= cdivn (o + length p') ss /\
      forall secs0, (forall i, nth i secs0 0 = nth i (f_secs f) 0) ->
        (forall i, si <= i < si + cnt -> nth i secs0 0 = 0) -> si + cnt <= length secs0 ->
        exists secs, insert_sectors secs0 si first cnt = (secs, false) /\
          updated (w_dev w) (w_dev w1) f (set_secs f secs) (si * ss + o) n1 p
    | None => updated (w_dev w) (w_dev w1) f f (si * ss + o) 0 p
    end).
  { intros p' w1 r e1 Hp' Hpp Hlpp EW.
    pose proof (wns_frame ss Hss nsec _ _ _ _ _ _ _ _ _ EW Ho Hp' Ha Hlen) as (Hl1 & Hu1).
    apply untouched_app in Hu1 as (Hu_f & Hu_o). splits; auto.
    destruct r as [[[n1 first] cnt]|].
    - pose proof (wns_al _ _ _ _ _ _ _ _ _ _ _ Ha Hss Hp' EW) as (Ha1 & Hcnt & Hn1 & ->).
      pose proof (wns_ok ss Hss nsec _ _ _ _ _ _ _ _ _ _ _ EW Ho Hp' Ha Hlen) as (Hd & _ & Hfirst & Hrange & Hn1').
      pose proof (wns_T _ _ _ _ Ho Hcnt Hn1) as HT. rewrite HT in Hd.
      assert (Hcs : cnt * ss >= ss) by nia.
      split; [apply Hcnt|]. intros secs0 Hs0 Hz0 Hl0.
      destruct (insert_sectors_ok secs0 si first cnt Hfirst Hl0 Hz0) as (secs' & EI & Hl' & _ & Hnth).
      exists secs'. split; [exact EI|].
      intros j. pose proof (new_sectors_updated (w_dev w) (w_dev w1) f (set_secs f secs') si o n1 p' first cnt) as U.
      rewrite U; auto; try lia; try nia.
      + destruct ((si * ss + o <=? j) && (j <? si * ss + o + n1)) eqn:E; [|reflexivity]. apply Hpp. lia.
      + cbn [f_secs set_secs]. intros i. rewrite Hnth. destruct ((si <=? i) && (i <? si + cnt)); auto.
      + intros i Hi. rewrite <- Hs0. apply Hz0. lia.
    - intros j. replace ((si * ss + o <=? j) && (j <? si * ss + o + 0)) with false by lia.
      apply content_frame; auto. }
  destruct (length (f_secs f) <=? si) eqn:Hlsi.
  - (* append *)
    destruct (write_to_new_sectors ss w f p si o) as [[w1 r] e1] eqn:EW.
    destruct (Hnew p w1 r e1 Hp (fun k _ => eq_refl) (Nat.le_refl _) EW) as (Hl1 & Hu1 & Hr).
    destruct r as [[[n1 first] cnt]|].
    + destruct Hr as (_ & Hr).
      destruct (Hr (f_secs f ++ repeat 0 (si + cnt - length (f_secs f)))) as (secs & EI & U).
      * intros i. destruct (Nat.lt_ge_cases i (length (f_secs f))).
        -- now rewrite app_nth1.
        -- rewrite nth_app_repeat0 by lia. symmetry. apply nth_overflow. lia.
      * intros i Hi. apply nth_app_repeat0. lia.
      * rewrite app_length, repeat_length. lia.
      * rewrite EI. intros [= <- <- <- <-]. auto.
    + intros [= <- <- <- <-]. auto.
  - destruct (sectors_contiguous (f_secs f) si ei) as [sector c] eqn:ES.
    apply sectors_contiguous_spec in ES as (Hs & Hc1 & Hc2 & _ & Hz & Hd); [|lia].
    assert (Hcs : c * ss >= ss) by nia.
    set (p' := firstn (limit ss (length p) c o) p).
    assert (Hlp' : length p' = Nat.min (length p) (c * ss - o)).
    { unfold p', limit. rewrite firstn_length. lia. }
    assert (Hp' : p' <> []).
    { intros E. apply (f_equal (@length _)) in E. rewrite Hlp' in E. cbn in E. lia. }
    assert (Hpp : forall k, k < length p' -> nth k p' 0%N = nth k p 0%N).
    { intros k Hk. unfold p'. apply nth_firstn. unfold p' in Hk. rewrite firstn_length in Hk. lia. }
    destruct (sector =? 0) eqn:E0.
    + destruct (write_to_new_sectors ss w f p' si o) as [[w1 r] e1] eqn:EW.
      destruct (Hnew p' w1 r e1 Hp' Hpp ltac:(lia) EW) as (Hl1 & Hu1 & Hr).
      destruct r as [[[n1 first] cnt]|].
      * destruct Hr as (Hcnt & Hr).
        assert (Hcc : cnt <= c).
        { etransitivity; [exact Hcnt|]. apply div_up_le; auto. lia. }
        destruct (Hr (f_secs f)) as (secs & EI & U); auto; try lia.
        { intros i Hi. replace i with (si + (i - si)) by lia. apply Hz; lia. }
        rewrite EI. intros [= <- <- <- <-]. auto.
      * intros [= <- <- <- <-]. auto.
    + destruct (dev_write w ss (pred sector) o p') as [[w1 k] e1] eqn:ED.
      apply dev_write_spec in ED as (Hk & _ & Hdev & _).
      intros [= <- <- <- <-].
      pose proof Ha as (_ & _ & Hnd & Hrg & _).
      assert (Hsr : pred sector + c <= nsec).
      { assert (sector + (c - 1) <= nsec); [|lia]. apply (Hrg (sector + (c - 1))). apply in_app_iff. left.
        rewrite <- (Hd ltac:(lia) (c - 1)) by lia. apply in_nz_nth. rewrite Hd by lia. lia. }
      destruct (overwrite_updated (w_dev w) f si o c sector (firstn k p') oth) as (H1 & H2 & H3); auto; try lia.
      * intros t Ht. apply Hd; lia.
      * intros s Hs'. apply (Hrg s). apply in_app_iff. now right.
      * rewrite firstn_length. lia.
      * rewrite Hlen. nia.
      * rewrite Hdev. splits; auto. intros j. rewrite H3. rewrite firstn_length.
        replace (Nat.min k (length p')) with k by lia.
        destruct ((si * ss + o <=? j) && (j <? si * ss + o + k)) eqn:E; [|reflexivity].
        rewrite nth_firstn by lia. apply Hpp. lia.
Qed.

Lemma untouched_trans oth a b c : untouched oth a b -> untouched oth b c -> untouched oth a c.
Proof. intros H1 H2 s x Hs Hx. rewrite H2, H1; auto. Qed.

Lemma untouched_refl oth a : untouched oth a a.
Proof. intros s x _ _. reflexivity. Qed.

Lemma updated_zero dev f pos p : updated dev dev f f pos 0 p.
Proof. intros j. replace ((pos <=? j) && (j <? pos + 0)) with false by lia. reflexivity. Qed.

Lemma updated_compose d0 d1 d2 f0 f1 f2 pos n m p :
  updated d0 d1 f0 f1 pos n p -> updated d1 d2 f1 f2 (pos + n) m (skipn n p) ->
  updated d0 d2 f0 f2 pos (n + m) p.
Proof.
  intros U1 U2 j. rewrite U2, U1.
  destruct ((pos + n <=? j) && (j <? pos + n + m)) eqn:E1.
  - replace ((pos <=? j) && (j <? pos + (n + m))) with true by lia.
    rewrite nth_skipn. f_equal. lia.
  - destruct ((pos <=? j) && (j <? pos + n)) eqn:E2.
    + replace ((pos <=? j) && (j <? pos + (n + m))) with true by lia. reflexivity.
    + replace ((pos <=? j) && (j <? pos + (n + m))) with false by lia. reflexivity.
Qed.

Lemma wloop_content oth : forall fuel w f p si ei o total w' f' t' e,
  AInv nsec (w_al w) (nz (f_secs f) ++ oth) -> length (w_dev w) = nsec * ss ->
  o < ss -> p <> [] -> length p < fuel ->
  write_loop ss fuel w f p si ei o total = (w', f', t', e) ->
  length (w_dev w') = length (w_dev w) /\ untouched oth (w_dev w) (w_dev w') /\
  total <= t' /\ updated (w_dev w) (w_dev w') f f' (si * ss + o) (t' - total) p.
Proof.
  induction fuel as [|fuel IH]; intros w f p si ei o total w' f' t' e Ha Hlen Ho Hp Hf; [lia|].
  cbn [write_loop].
  destruct (write_to_sectors ss w f p si ei o) as [[[w1 f1] n] e1] eqn:EW.
  pose proof (wts_content _ _ _ _ _ _ _ _ _ _ _ Ha Hlen Ho Hp EW) as (Hl1 & Hu1 & U1).
  apply (wts_al _ _ _ _ _ _ _ _ _ _ _ _ _ Ha Hss Ho Hp) in EW as (Ha1 & Hn & Hs & Hh & Hq & Hok).
  destruct (skipn n p) as [|x tl] eqn:ES.
  - intros [= <- <- <- <-]. splits; auto; try lia. now replace (total + n - total) with n by lia.
  - destruct e1; try (intros [= <- <- <- <-]; splits; auto; try lia; now replace (total + n - total) with n by lia).
    destruct (Hok eq_refl) as (Hn1 & Hal). pose proof (skipn_nonempty _ _ _ _ ES) as (Hlt & Hlen').
    rewrite (Hal Hlt). cbn [Nat.eqb].
    intros H. rewrite <- ES in H.
    assert (Hpos : (si + (o + n) / ss) * ss + 0 = si * ss + o + n).
    { specialize (Hal Hlt). destruct (pos_decomp ss (o + n) Hss) as (Hd & _). rewrite Hal in Hd. nia. }
    apply IH in H; auto; try lia.
    + destruct H as (Hl2 & Hu2 & Ht & U2). splits; auto; try lia.
      * eapply untouched_trans; eauto.
      * rewrite Hpos in U2. replace (t' - total) with (n + (t' - (total + n))) by lia.
        eapply updated_compose; eauto.
    + rewrite ES. discriminate.
    + rewrite ES, Hlen'. clear - Hf Hn1 Hlt. lia.
Qed.

Lemma sidx_soff a : sidx ss a * ss + soff ss a = N.to_nat a /\ soff ss a < ss.
Proof.
  unfold sidx, soff. assert (Hn : N.of_nat ss <> 0%N) by lia.
  pose proof (N.div_mod a (N.of_nat ss) Hn) as Hd. pose proof (N.mod_upper_bound a (N.of_nat ss) Hn) as Hm.
  split; [|lia]. rewrite Hd at 3. rewrite N2Nat.inj_add, N2Nat.inj_mul, Nat2N.id. lia.
Qed.

(* blockDeviceBackedFile.WriteAt: the bytes [off, off+n) become the first n
   bytes of p, every other byte of the file keeps its value, and nobody
   else's sector changes -- whatever failures occur. *)
Lemma file_write_content w f off p w' f' n e oth :
  AInv nsec (w_al w) (nz (f_secs f) ++ oth) -> length (w_dev w) = nsec * ss ->
  file_write ss w f off p = (w', f', n, e) -> (0 <= off)%Z ->
  length (w_dev w') = length (w_dev w) /\ untouched oth (w_dev w) (w_dev w') /\
  updated (w_dev w) (w_dev w') f f' (Z.to_nat off) n p.
Proof.
  intros Ha Hlen H Hoff. unfold file_write in H.
  replace (off <? 0)%Z with false in H by lia.
  destruct (length p =? 0) eqn:El.
  { injection H as <- <- <- <-. splits; auto using untouched_refl, updated_zero. }
  destruct (write_loop _ _ _ _ _ _ _ _ _) as [[[w1 f1] t] e1] eqn:EL.
  destruct (sidx_soff (Z.to_N off)) as (Hpos & Ho).
  assert (Hp : p <> []) by (destruct p; [discriminate|congruence]).
  apply (wloop_content oth _ _ _ _ _ _ _ _ _ _ _ _ Ha Hlen Ho Hp (Nat.lt_succ_diag_r _)) in EL as (Hl & Hu & _ & U).
  injection H as <- <- <- <-. rewrite Hpos, Nat.sub_0_r in U. rewrite Z_N_nat in U.
  splits; auto. intros j. rewrite <- U. unfold content.
  destruct ((0 <? t) && (f_size f1 <? Z.to_N off + N.of_nat t)%N); reflexivity.
Qed.
End C.
