(* Model of pkg/filesystem/pool:
     block_device_backed_file_pool.go  (blockDeviceBackedFile)
     bitmap_sector_allocator.go        (bitmapSectorAllocator)
     quota_enforcing_file_pool.go      (quotaEnforcingFilePool / File)
     hole_source.go                    (HoleSource contract; the harness's
                                        hole source is a truncatable byte
                                        prefix followed by null bytes)

   The block device is one flat list of bytes; a device I/O call is
   addressed by (0-based sector, offset within sector, length) and may span
   sectors, exactly like the single ReadAt/WriteAt call the Go code issues
   for a contiguous run.  The allocator is the *concrete*
   one: a flat free bitmap (true = free; position i is sector number
   i+1) and [a_next] (nextSector).  The three scan phases of
   AllocateContiguous pick "the first free position >= nextSector,
   otherwise the first free position"; allocateAt takes the run of
   consecutive free positions starting there, capped by the request.  The
   64-bit word structure does not influence either choice (the sentinel
   tail of the Go bitmap is "no position beyond the list"), so it is not
   represented here; the word algorithm (shifts, TrailingZeros64, the
   full-word loops) is transcribed in ProofsWords.v and proved equal to
   this flat model, and the correspondence run compares every sector
   number the real allocator hands out with this model.

   Failures are oracles carried by each operation: the index of the
   device write / device read / hole source call (within the operation)
   that fails, and how many bytes it transfers before failing.  The
   three panics of the allocator and the two of the file (incrementSectorIndex,
   insertSectorsContiguous) are the [a_panic] flag.

   Every call the file makes on its collaborators (allocator, device, hole
   source, base pool) is logged as an [event]; the harness records the
   same calls through wrappers around the real collaborators. *)
From Coq Require Export List NArith ZArith Bool Arith.
Export ListNotations.

(* ---- Configuration ------------------------------------------------------ *)

Record cfg := mkCfg {
  c_ss : nat;          (* sector size in bytes, > 0 *)
  c_nsec : nat;        (* number of sectors of the device / allocator *)
  c_maxfiles : N;      (* quota: maximum file count *)
  c_maxbytes : N }.    (* quota: maximum total size *)

Definition nslots : nat := 5.
Definition poison : N := 35%N.   (* initial content of every device byte *)

(* ---- Outputs, events ---------------------------------------------------- *)

Inductive errk := ENone | EEOF | EInvalid | EExhausted | EInternal | EInjected.

Definition errk_eqb (a b : errk) : bool :=
  match a, b with
  | ENone, ENone | EEOF, EEOF | EInvalid, EInvalid | EExhausted, EExhausted
  | EInternal, EInternal | EInjected, EInjected => true
  | _, _ => false
  end.

Inductive out :=
| OSkip                                      (* operation not applicable: no-op *)
| ORes (n : Z) (e : errk) (data : list N)    (* count / offset, error kind, bytes read *)
| OPanic.

Inductive hcall := HRead | HTrunc | HSeek | HClose.

Inductive event :=
| EvAlloc (max first n : nat)            (* AllocateContiguous(max) = (first, n, nil) *)
| EvAllocFail (max : nat)                (* ... = ResourceExhausted *)
| EvFreeContig (first n : nat)
| EvFreeList (l : list nat)
| EvDevRead (s o n got : nat) (ok : bool)   (* ReadAt(n bytes at sector s (0-based) + o) *)
| EvDevWrite (s o n got : nat) (ok : bool)
| EvHole (k : hcall) (off : N) (n : nat) (ok : bool)
| EvBaseNew (ok : bool).

(* ---- World: device, allocator, failure oracles, event log -------------- *)

Record alloc := mkA { a_free : list bool; a_next : nat; a_panic : bool }.

(* countdown, bytes transferred by the failing call, short-without-error *)
Definition orc := option (nat * nat * bool).

Record world := mkW {
  w_dev : list N;
  w_al : alloc;
  w_fw : orc;      (* device writes *)
  w_fr : orc;      (* device reads *)
  w_fh : orc;      (* hole source calls *)
  w_ev : list event }.   (* most recent first *)

Definition set_dev w d := mkW d (w_al w) (w_fw w) (w_fr w) (w_fh w) (w_ev w).
Definition set_al w a := mkW (w_dev w) a (w_fw w) (w_fr w) (w_fh w) (w_ev w).
Definition set_fw w o := mkW (w_dev w) (w_al w) o (w_fr w) (w_fh w) (w_ev w).
Definition set_fr w o := mkW (w_dev w) (w_al w) (w_fw w) o (w_fh w) (w_ev w).
Definition set_fh w o := mkW (w_dev w) (w_al w) (w_fw w) (w_fr w) o (w_ev w).
Definition log w e := mkW (w_dev w) (w_al w) (w_fw w) (w_fr w) (w_fh w) (e :: w_ev w).
Definition set_panic w := set_al w (mkA (a_free (w_al w)) (a_next (w_al w)) true).

(* One call against an oracle: Some (bytes, short) = this call fails. *)
Definition tick (o : orc) : option (nat * bool) * orc :=
  match o with
  | None => (None, None)
  | Some (0, p, m) => (Some (p, m), None)
  | Some (S c, p, m) => (None, Some (c, p, m))
  end.

(* ---- Bitmap sector allocator ------------------------------------------- *)

Fixpoint find_free (l : list bool) (from : nat) (pos : nat) : option nat :=
  match l with
  | [] => None
  | b :: tl => if b && (from <=? pos) then Some pos else find_free tl from (S pos)
  end.

Definition first_free (free : list bool) (next : nat) : option nat :=
  match find_free free next 0 with
  | Some i => Some i
  | None => find_free free 0 0
  end.

Fixpoint run_len (l : list bool) (max : nat) : nat :=
  match max, l with
  | S m, true :: tl => S (run_len tl m)
  | _, _ => 0
  end.

(* set positions [i, i+n) of l to v *)
Fixpoint set_range (l : list bool) (i n : nat) (v : bool) : list bool :=
  match l with
  | [] => []
  | b :: tl =>
    match i with
    | S i' => b :: set_range tl i' n v
    | O => match n with
           | O => l
           | S n' => v :: set_range tl 0 n' v
           end
    end
  end.

(* is any position of [i, i+n) equal to v (positions beyond the list count as v = false) *)
Fixpoint any_range (l : list bool) (i n : nat) : bool :=
  match l with
  | [] => false
  | b :: tl =>
    match i with
    | S i' => any_range tl i' n
    | O => match n with
           | O => false
           | S n' => b || any_range tl 0 n'
           end
    end
  end.

(* AllocateContiguous(max): Some (first (1-based), n) *)
Definition allocate (w : world) (max : nat) : world * option (nat * nat) :=
  let a := w_al w in
  match first_free (a_free a) (a_next a) with
  | None => (log w (EvAllocFail max), None)
  | Some i =>
    let n := run_len (skipn i (a_free a)) max in
    let a' := mkA (set_range (a_free a) i n false) (i + n) (a_panic a) in
    (log (set_al w a') (EvAlloc max (S i) n), Some (S i, n))
  end.

(* FreeContiguous(first, n) *)
Definition free_contig (w : world) (first n : nat) : world :=
  let a := w_al w in
  let i := pred first in
  let pn := a_panic a || any_range (a_free a) i n || (length (a_free a) <? i + n) || (first =? 0) in
  log (set_al w (mkA (set_range (a_free a) i n true) (a_next a) pn)) (EvFreeContig first n).

Fixpoint free_list_bits (free : list bool) (l : list nat) (pn : bool) : list bool * bool :=
  match l with
  | [] => (free, pn)
  | 0 :: tl => free_list_bits free tl pn
  | S i :: tl =>
    free_list_bits (set_range free i 1 true) tl
      (pn || any_range free i 1 || (length free <=? i))
  end.

(* FreeList(l) *)
Definition free_list (w : world) (l : list nat) : world :=
  let a := w_al w in
  let '(fr, pn) := free_list_bits (a_free a) l (a_panic a) in
  log (set_al w (mkA fr (a_next a) pn)) (EvFreeList l).

(* ---- Block device -------------------------------------------------------- *)

(* The device is one flat list of bytes; sector s (0-based) of size ss
   occupies positions [s*ss, (s+1)*ss). *)
Definition dev_get (dev : list N) (pos n : nat) : list N := firstn n (skipn pos dev).

Definition dev_put (dev : list N) (pos : nat) (data : list N) : list N :=
  firstn pos dev ++ data ++ skipn (pos + length data) dev.

(* blockDevice.ReadAt of n bytes at sector s (0-based), offset o: the bytes
   obtained and the error *)
Definition dev_read (w : world) (ss s o n : nat) : world * list N * errk :=
  let '(f, o') := tick (w_fr w) in
  let w := set_fr w o' in
  match f with
  | Some (p, short) =>
    let k := Nat.min p (pred n) in
    (log w (EvDevRead s o n k false), dev_get (w_dev w) (s * ss + o) k, if short then EInternal else EInjected)
  | None => (log w (EvDevRead s o n n true), dev_get (w_dev w) (s * ss + o) n, ENone)
  end.

(* blockDevice.WriteAt: the number of bytes written and the error *)
Definition dev_write (w : world) (ss s o : nat) (data : list N) : world * nat * errk :=
  let '(f, o') := tick (w_fw w) in
  let w := set_fw w o' in
  let n := length data in
  match f with
  | Some (p, _) =>
    let k := Nat.min p (pred n) in
    (log (set_dev w (dev_put (w_dev w) (s * ss + o) (firstn k data))) (EvDevWrite s o n k false), k, EInjected)
  | None => (log (set_dev w (dev_put (w_dev w) (s * ss + o) data)) (EvDevWrite s o n n true), n, ENone)
  end.

(* ---- Hole source: a byte prefix followed by null bytes ----------------- *)

Fixpoint hole_bytes (h : list N) (off n : nat) : list N :=
  match n with
  | O => []
  | S n' => nth off h 0%N :: hole_bytes h (S off) n'
  end.

(* HoleSource.ReadAt as used by readFromHoleSource: bytes, error *)
Definition hole_read (w : world) (h : list N) (off n : nat) : world * list N * errk :=
  let '(f, o') := tick (w_fh w) in
  let w := set_fh w o' in
  match f with
  | Some (p, short) =>
    let k := Nat.min p (pred n) in
    (log w (EvHole HRead (N.of_nat off) n false), hole_bytes h off k, if short then EInternal else EInjected)
  | None => (log w (EvHole HRead (N.of_nat off) n true), hole_bytes h off n, ENone)
  end.

(* Any other hole source call: true = it succeeded *)
Definition hole_call (w : world) (k : hcall) (off : N) : world * bool :=
  let '(f, o') := tick (w_fh w) in
  let w := set_fh w o' in
  match f with
  | Some _ => (log w (EvHole k off 0 false), false)
  | None => (log w (EvHole k off 0 true), true)
  end.

(* ---- Files ---------------------------------------------------------------- *)

Record file := mkFile {
  f_hole : list N;     (* hole source contents *)
  f_size : N;          (* blockDeviceBackedFile.sizeBytes *)
  f_secs : list nat;   (* blockDeviceBackedFile.sectors, 0 = hole *)
  f_qsize : N }.       (* quotaEnforcingFile.size *)

Definition set_size f s := mkFile (f_hole f) s (f_secs f) (f_qsize f).
Definition set_secs f l := mkFile (f_hole f) (f_size f) l (f_qsize f).
Definition set_hole f h := mkFile h (f_size f) (f_secs f) (f_qsize f).
Definition set_qsize f q := mkFile (f_hole f) (f_size f) (f_secs f) q.

Section WithSectorSize.
Variable ss : nat.

Definition sidx (off : N) : nat := N.to_nat (off / N.of_nat ss).
Definition soff (off : N) : nat := N.to_nat (off mod N.of_nat ss).
(* exclusive end index of getInitialSectorIndex, capped by len(sectors) *)
Definition eidx (off : N) (n : nat) (nsecs : nat) : nat :=
  Nat.min (N.to_nat ((off + N.of_nat n + N.of_nat ss - 1) / N.of_nat ss)) nsecs.

(* getSectorsContiguous: l = the sectors from firstSectorIndex on,
   budget = lastSectorIndex - firstSectorIndex *)
Fixpoint contig_hole (l : list nat) (budget : nat) : nat :=
  match budget, l with
  | S b, 0 :: tl => S (contig_hole tl b)
  | _, _ => 0
  end.
Fixpoint contig_data (l : list nat) (expect budget : nat) : nat :=
  match budget, l with
  | S b, x :: tl => if x =? expect then S (contig_data tl (S expect) b) else 0
  | _, _ => 0
  end.
Definition sectors_contiguous (secs : list nat) (si ei : nat) : nat * nat :=
  match skipn si secs with
  | [] => (0, 1)
  | first :: tl =>
    (first, S (if first =? 0 then contig_hole tl (ei - si - 1) else contig_data tl (S first) (ei - si - 1)))
  end.

(* limitBufferToSectorBoundary, on lengths *)
Definition limit (len cnt o : nat) : nat := Nat.min len (cnt * ss - o).

(* readFromHoleSource *)
Definition read_hole (w : world) (f : file) (n si o : nat) : world * list N * errk :=
  hole_read w (f_hole f) (si * ss + o) n.

(* readFromSectors: bytes obtained, error *)
Definition read_from_sectors (w : world) (f : file) (n si ei o : nat) : world * list N * errk :=
  if length (f_secs f) <=? si then read_hole w f n si o
  else
    let '(sector, cnt) := sectors_contiguous (f_secs f) si ei in
    let n' := limit n cnt o in
    if sector =? 0 then read_hole w f n' si o
    else dev_read w ss (pred sector) o n'.

(* the loop of ReadAt; rem = bytes still wanted *)
Fixpoint read_loop (fuel : nat) (w : world) (f : file) (rem si ei o : nat) (acc : list N)
    : world * list N * errk :=
  match fuel with
  | O => (set_panic w, acc, EInternal)
  | S fuel' =>
    let '(w, got, e) := read_from_sectors w f rem si ei o in
    let n := length got in
    let acc := acc ++ got in
    match e with
    | ENone =>
      if rem - n =? 0 then (w, acc, ENone)
      else
        let w := if (o + n) mod ss =? 0 then w else set_panic w in
        read_loop fuel' w f (rem - n) (si + (o + n) / ss) ei 0 acc
    | _ => (w, acc, e)
    end
  end.

(* blockDeviceBackedFile.ReadAt *)
Definition file_read (w : world) (f : file) (off : Z) (len : nat) : world * out :=
  if (off <? 0)%Z then (w, ORes 0 EInvalid [])
  else if len =? 0 then (w, ORes 0 ENone [])
  else
    let off := Z.to_N off in
    if (f_size f <=? off)%N then (w, ORes 0 EEOF [])
    else
      let '(success, len) :=
        if (f_size f <=? off + N.of_nat len)%N then (EEOF, N.to_nat (f_size f - off)) else (ENone, len) in
      let '(w, got, e) := read_loop (S len) w f len (sidx off) (eidx off len (length (f_secs f))) (soff off) [] in
      (w, ORes (Z.of_nat (length got)) (match e with ENone => success | _ => e end) got).

(* writeToNewSectors, in its three stages.  Each stage returns the world, the
   data not yet written, the next device sector (1-based), the next sector
   index of the file and the error. *)

(* first sector, when the write starts inside it: leading/trailing padding
   comes from the hole source *)
Definition wns_first (w : world) (f : file) (p : list N) (first si o : nat)
    : world * list N * nat * nat * errk :=
  if 0 <? o then
    let '(w, lead, e) := read_hole w f o si 0 in
    match e with
    | ENone =>
      let endw := o + length p in
      let '(w, trail, e) :=
        if endw <? ss then read_hole w f (ss - endw) si endw else (w, [], ENone) in
      match e with
      | ENone =>
        let nw := Nat.min (length p) (ss - o) in
        let '(w, _, e) := dev_write w ss (pred first) 0 (lead ++ firstn nw p ++ trail) in
        (w, skipn nw p, S first, S si, e)
      | _ => (w, p, first, si, e)
      end
    | _ => (w, p, first, si, e)
    end
  else (w, p, first, si, ENone).

(* as many full sectors as possible, in one device write *)
Definition wns_full (w : world) (p : list N) (sector idx : nat) : world * list N * nat * nat * errk :=
  let full := length p / ss in
  if 0 <? full then
    let '(w, _, e) := dev_write w ss (pred sector) 0 (firstn (full * ss) p) in
    (w, skipn (full * ss) p, sector + full, idx + full, e)
  else (w, p, sector, idx, ENone).

(* last sector, with trailing padding from the hole source *)
Definition wns_last (w : world) (f : file) (p : list N) (sector idx : nat) : world * errk :=
  if 0 <? length p then
    let '(w, trail, e) := read_hole w f (ss - length p) idx (length p) in
    match e with
    | ENone => let '(w, _, e) := dev_write w ss (pred sector) 0 (p ++ trail) in (w, e)
    | _ => (w, e)
    end
  else (w, ENone).

(* writeToNewSectors: Some (bytesWritten, firstSector, sectorsAllocated) or the error *)
Definition write_to_new_sectors (w : world) (f : file) (p : list N) (si o : nat)
    : world * (option (nat * nat * nat)) * errk :=
  let need := (o + length p + ss - 1) / ss in
  let '(w, r) := allocate w need in
  match r with
  | None => (w, None, EExhausted)
  | Some (first, cnt) =>
    let p := firstn (limit (length p) cnt o) p in
    let nwritten := length p in
    let fail w e := (free_contig w first cnt, None, e) in
    let '(w, p1, sector, idx, e1) := wns_first w f p first si o in
    match e1 with
    | ENone =>
      let '(w, p2, sector, idx, e2) := wns_full w p1 sector idx in
      match e2 with
      | ENone =>
        let '(w, e3) := wns_last w f p2 sector idx in
        match e3 with
        | ENone => (w, Some (nwritten, first, cnt), ENone)
        | _ => fail w e3
        end
      | _ => fail w e2
      end
    | _ => fail w e1
    end
  end.

(* insertSectorsContiguous; the flag reports "Attempted to replace existing sector" *)
Fixpoint insert_sectors (secs : list nat) (si first cnt : nat) : list nat * bool :=
  match cnt with
  | O => (secs, false)
  | S c =>
    match si, secs with
    | S si', x :: tl => let '(r, b) := insert_sectors tl si' first cnt in (x :: r, b)
    | O, x :: tl => let '(r, b) := insert_sectors tl 0 (S first) c in (first :: r, b || negb (x =? 0))
    | _, [] => ([], true)
    end
  end.

(* writeToSectors: bytes written, error *)
Definition write_to_sectors (w : world) (f : file) (p : list N) (si ei o : nat)
    : world * file * nat * errk :=
  if length (f_secs f) <=? si then
    let '(w, r, e) := write_to_new_sectors w f p si o in
    match r with
    | None => (w, f, 0, e)
    | Some (n, first, cnt) =>
      let secs := f_secs f ++ repeat 0 (si + cnt - length (f_secs f)) in
      let '(secs, bad) := insert_sectors secs si first cnt in
      (if bad then set_panic w else w, set_secs f secs, n, ENone)
    end
  else
    let '(sector, cnt) := sectors_contiguous (f_secs f) si ei in
    let p := firstn (limit (length p) cnt o) p in
    if sector =? 0 then
      let '(w, r, e) := write_to_new_sectors w f p si o in
      match r with
      | None => (w, f, 0, e)
      | Some (n, first, cnt) =>
        let '(secs, bad) := insert_sectors (f_secs f) si first cnt in
        (if bad then set_panic w else w, set_secs f secs, n, ENone)
      end
    else
      let '(w, n, e) := dev_write w ss (pred sector) o p in
      (w, f, n, e).

(* the loop of WriteAt *)
Fixpoint write_loop (fuel : nat) (w : world) (f : file) (p : list N) (si ei o : nat) (total : nat)
    : world * file * nat * errk :=
  match fuel with
  | O => (set_panic w, f, total, EInternal)
  | S fuel' =>
    let '(w, f, n, e) := write_to_sectors w f p si ei o in
    let total := total + n in
    let p := skipn n p in
    match p, e with
    | _ :: _, ENone =>
      let w := if (o + n) mod ss =? 0 then w else set_panic w in
      write_loop fuel' w f p (si + (o + n) / ss) ei 0 total
    | _, _ => (w, f, total, e)
    end
  end.

(* blockDeviceBackedFile.WriteAt *)
Definition file_write (w : world) (f : file) (off : Z) (p : list N) : world * file * nat * errk :=
  if (off <? 0)%Z then (w, f, 0, EInvalid)
  else if length p =? 0 then (w, f, 0, ENone)
  else
    let off := Z.to_N off in
    let '(w, f, total, e) :=
      write_loop (S (length p)) w f p (sidx off) (eidx off (length p) (length (f_secs f))) (soff off) 0 in
    let newsize := (off + N.of_nat total)%N in
    let f := if (0 <? total) && (f_size f <? newsize)%N then set_size f newsize else f in
    (w, f, total, e).

Fixpoint strip_zeros_rev (r : list nat) : list nat :=
  match r with
  | 0 :: tl => strip_zeros_rev tl
  | _ => r
  end.

(* truncateSectors *)
Definition truncate_sectors (w : world) (f : file) (cnt : nat) : world * file :=
  if cnt <? length (f_secs f) then
    let w := free_list w (skipn cnt (f_secs f)) in
    (w, set_secs f (rev (strip_zeros_rev (rev (firstn cnt (f_secs f))))))
  else (w, f).

(* blockDeviceBackedFile.Truncate *)
Definition file_truncate (w : world) (f : file) (size : Z) : world * file * errk :=
  if (size <? 0)%Z then (w, f, EInvalid)
  else
    let size := Z.to_N size in
    let si := sidx size in
    let o := soff size in
    let '(w, f, e) :=
      if o =? 0 then let '(w, f) := truncate_sectors w f si in (w, f, ENone)
      else
        let '(w, e) :=
          if (size <? f_size f)%N && (si <? length (f_secs f)) && negb (nth si (f_secs f) 0 =? 0) then
            let zl := Nat.min (ss - o) (N.to_nat (N.min (f_size f - size) (N.of_nat ss))) in
            let '(w, _, e) := dev_write w ss (pred (nth si (f_secs f) 0)) o (repeat 0%N zl) in
            (w, e)
          else (w, ENone) in
        match e with
        | ENone => let '(w, f) := truncate_sectors w f (S si) in (w, f, ENone)
        | _ => (w, f, e)
        end in
    match e with
    | ENone =>
      if (size <? f_size f)%N then
        let '(w, ok) := hole_call w HTrunc size in
        if ok then (w, set_size (set_hole f (firstn (N.to_nat size) (f_hole f))) size, ENone)
        else (w, f, EInjected)
      else (w, set_size f size, ENone)
    | _ => (w, f, e)
    end.

(* blockDeviceBackedFile.Close: error of holeSource.Close *)
Definition file_close (w : world) (f : file) : world * errk :=
  let w := if 0 <? length (f_secs f) then free_list w (f_secs f) else w in
  let '(w, ok) := hole_call w HClose 0 in
  (w, if ok then ENone else EInjected).

(* the fake hole source's GetNextRegionOffset: [0, len) is data *)
Definition hole_seek (w : world) (f : file) (off : N) (data : bool) : world * N * errk :=
  let '(w, ok) := hole_call w HSeek off in
  if negb ok then (w, 0%N, EInjected)
  else
    let l := N.of_nat (length (f_hole f)) in
    if (l <=? off)%N then (w, 0%N, EEOF)
    else if data then (w, off, ENone) else (w, l, ENone).

(* index of the first position >= from holding a (non-)zero sector *)
Fixpoint next_sector (l : list nat) (zero : bool) (pos : nat) : nat :=
  match l with
  | [] => pos
  | x :: tl => if Bool.eqb (x =? 0) zero then pos else next_sector tl zero (S pos)
  end.

Fixpoint seek_hole_loop (fuel : nat) (w : world) (f : file) (off : N) : world * N * errk :=
  match fuel with
  | O => (set_panic w, 0%N, EInternal)
  | S fuel' =>
    let si := sidx off in
    let '(si, off) :=
      if (si <? length (f_secs f)) && negb (nth si (f_secs f) 0 =? 0) then
        let si' := next_sector (skipn (S si) (f_secs f)) true (S si) in
        (si', N.of_nat si' * N.of_nat ss)%N
      else (si, off) in
    if (f_size f <=? off)%N then (w, f_size f, ENone)
    else
      let '(w, hs, e) := hole_seek w f off false in
      match e with
      | EEOF => (w, off, ENone)
      | ENone =>
        if (hs <? N.of_nat (S si) * N.of_nat ss)%N then (w, hs, ENone)
        else seek_hole_loop fuel' w f hs
      | _ => (w, 0%N, e)
      end
  end.

(* blockDeviceBackedFile.GetNextRegionOffset *)
Definition file_seek (w : world) (f : file) (off : Z) (data : bool) : world * out :=
  if (off <? 0)%Z then (w, ORes 0 EInvalid [])
  else
    let off := Z.to_N off in
    if (f_size f <=? off)%N then (w, ORes 0 EEOF [])
    else if data then
      let si := sidx off in
      if length (f_secs f) <=? si then
        let '(w, r, e) := hole_seek w f off true in
        (w, ORes (match e with ENone => Z.of_N r | _ => 0 end) e [])
      else if negb (nth si (f_secs f) 0 =? 0) then (w, ORes (Z.of_N off) ENone [])
      else
        let si' := next_sector (skipn (S si) (f_secs f)) false (S si) in
        let w := if length (f_secs f) <=? si' then set_panic w else w in
        let so := (N.of_nat si' * N.of_nat ss)%N in
        let '(w, r, e) := hole_seek w f off true in
        match e with
        | EEOF => (w, ORes (Z.of_N so) ENone [])
        | ENone => (w, ORes (Z.of_N (N.min so r)) ENone [])
        | _ => (w, ORes 0 e [])
        end
    else
      let '(w, r, e) := seek_hole_loop (length (f_secs f) + 3) w f off in
      (w, ORes (match e with ENone => Z.of_N r | _ => 0 end) e []).

End WithSectorSize.

(* ---- Pool state and operations ------------------------------------------- *)

Record state := mkSt {
  st_dev : list N;
  st_al : alloc;
  st_files : list (option file);     (* nslots entries *)
  st_raw : list (nat * nat);         (* runs obtained by direct allocator calls *)
  st_remf : N;                       (* filesRemaining *)
  st_remb : N }.                     (* bytesRemaining *)

Definition init (c : cfg) : state :=
  mkSt (repeat poison (c_nsec c * c_ss c))
       (mkA (repeat true (c_nsec c)) 0 false)
       (repeat None nslots) [] (c_maxfiles c) (c_maxbytes c).

Inductive opk :=
| KNew (slot : nat) (hole : list N) (size : N) (fail_base : bool)
| KRead (slot : nat) (off : Z) (len : nat)
| KWrite (slot : nat) (off : Z) (data : list N)
| KTrunc (slot : nat) (size : Z)
| KSeek (slot : nat) (off : Z) (data : bool)
| KClose (slot : nat)
| KRawAlloc (max : nat)
| KRawFree (idx : nat) (as_list : bool)
| KFinal.

Record op := mkOp { op_k : opk; op_fw : orc; op_fr : orc; op_fh : orc }.

Definition get_file (st : state) (slot : nat) : option file :=
  match nth_error (st_files st) slot with Some (Some f) => Some f | _ => None end.

Fixpoint set_nth {A} (l : list A) (i : nat) (v : A) : list A :=
  match l, i with
  | [], _ => []
  | _ :: tl, O => v :: tl
  | x :: tl, S i' => x :: set_nth tl i' v
  end.

Definition world_of (st : state) (o : op) : world :=
  mkW (st_dev st) (st_al st) (op_fw o) (op_fr o) (op_fh o) [].

Definition commit (st : state) (w : world) (files : list (option file)) (raw : list (nat * nat))
    (remf remb : N) : state :=
  mkSt (w_dev w) (w_al w) files raw remf remb.

Definition finish (st : state) (w : world) (x : out) : state * out * list event :=
  (st, (if a_panic (w_al w) then OPanic else x), rev (w_ev w)).

Fixpoint seq1 (first n : nat) : list nat :=
  match n with O => [] | S n' => first :: seq1 (S first) n' end.

(* close every open file (no failures), free every raw run *)
Fixpoint close_all (w : world) (files : list (option file)) : world :=
  match files with
  | [] => w
  | None :: tl => close_all w tl
  | Some f :: tl => let '(w, _) := file_close w f in close_all w tl
  end.

Fixpoint free_runs (w : world) (runs : list (nat * nat)) : world :=
  match runs with
  | [] => w
  | (first, n) :: tl => free_runs (free_contig w first n) tl
  end.

Fixpoint alloc_all (fuel : nat) (w : world) (max : nat) (acc : list (nat * nat)) : world * list (nat * nat) :=
  match fuel with
  | O => (w, acc)
  | S fuel' =>
    let '(w, r) := allocate w max in
    match r with
    | None => (w, acc)
    | Some run => alloc_all fuel' w max (acc ++ [run])
    end
  end.

Definition sum_runs (l : list (nat * nat)) : nat := fold_right (fun r a => snd r + a) 0 l.

Definition qsizes (files : list (option file)) : N :=
  fold_right (fun f a => match f with Some f => (f_qsize f + a)%N | None => a end) 0%N files.

Definition step (c : cfg) (st : state) (o : op) : state * out * list event :=
  let ss := c_ss c in
  let w := world_of st o in
  match op_k o with
  | KNew slot hole size fail_base =>
    match nth_error (st_files st) slot with
    | Some None =>
      (* quotaEnforcingFilePool.NewFile *)
      if (st_remf st <? 1)%N then finish st w (ORes 0 EInvalid [])
      else if (0 <? size)%N && (st_remb st <? size)%N then finish st w (ORes 0 EInvalid [])
      else
        let remb := if (0 <? size)%N then (st_remb st - size)%N else st_remb st in
        if fail_base then
          (* base.NewFile failed: file count and bytes are released again *)
          finish st (log w (EvBaseNew false)) (ORes 0 EInjected [])
        else
          let f := mkFile hole size [] size in
          finish (commit st w (set_nth (st_files st) slot (Some f)) (st_raw st) (st_remf st - 1)%N remb)
                 (log w (EvBaseNew true)) (ORes 0 ENone [])
    | _ => finish st w OSkip
    end
  | KRead slot off len =>
    match get_file st slot with
    | None => finish st w OSkip
    | Some f => let '(w, x) := file_read ss w f off len in finish st w x
    end
  | KSeek slot off data =>
    match get_file st slot with
    | None => finish st w OSkip
    | Some f => let '(w, x) := file_seek ss w f off data in finish st w x
    end
  | KWrite slot off p =>
    match get_file st slot with
    | None => finish st w OSkip
    | Some f =>
      (* quotaEnforcingFile.WriteAt *)
      if (off <? 0)%Z then finish st w (ORes 0 EInvalid [])
      else
        let desired := (Z.to_N off + N.of_nat (length p))%N in
        if (desired <=? f_qsize f)%N then
          let '(w, f, n, e) := file_write ss w f off p in
          finish (commit st w (set_nth (st_files st) slot (Some f)) (st_raw st) (st_remf st) (st_remb st)) w
                 (ORes (Z.of_nat n) e [])
        else if (st_remb st <? desired - f_qsize f)%N then finish st w (ORes 0 EInvalid [])
        else
          let remb := (st_remb st - (desired - f_qsize f))%N in
          let '(w, f, n, e) := file_write ss w f off p in
          let actual := if 0 <? n then (Z.to_N off + N.of_nat n)%N else 0%N in
          let actual := if (actual <? f_qsize f)%N then f_qsize f else actual in
          let remb := if (actual <? desired)%N then (remb + (desired - actual))%N else remb in
          let f := set_qsize f actual in
          finish (commit st w (set_nth (st_files st) slot (Some f)) (st_raw st) (st_remf st) remb) w
                 (ORes (Z.of_nat n) e [])
    end
  | KTrunc slot size =>
    match get_file st slot with
    | None => finish st w OSkip
    | Some f =>
      (* quotaEnforcingFile.Truncate *)
      if (size <? 0)%Z then finish st w (ORes 0 EInvalid [])
      else
        let sz := Z.to_N size in
        if (sz <? f_qsize f)%N then
          let '(w, f', e) := file_truncate ss w f size in
          match e with
          | ENone =>
            finish (commit st w (set_nth (st_files st) slot (Some (set_qsize f' sz))) (st_raw st) (st_remf st)
                           (st_remb st + (f_qsize f - sz))%N) w (ORes 0 ENone [])
          | _ =>
            finish (commit st w (set_nth (st_files st) slot (Some f')) (st_raw st) (st_remf st) (st_remb st)) w
                   (ORes 0 e [])
          end
        else if (f_qsize f <? sz)%N then
          let add := (sz - f_qsize f)%N in
          if (st_remb st <? add)%N then finish st w (ORes 0 EInvalid [])
          else
            let '(w, f', e) := file_truncate ss w f size in
            match e with
            | ENone =>
              finish (commit st w (set_nth (st_files st) slot (Some (set_qsize f' sz))) (st_raw st) (st_remf st)
                             (st_remb st - add)%N) w (ORes 0 ENone [])
            | _ =>
              finish (commit st w (set_nth (st_files st) slot (Some f')) (st_raw st) (st_remf st) (st_remb st)) w
                     (ORes 0 e [])
            end
        else finish st w (ORes 0 ENone [])
    end
  | KClose slot =>
    match get_file st slot with
    | None => finish st w OSkip
    | Some f =>
      let '(w, e) := file_close w f in
      finish (commit st w (set_nth (st_files st) slot None) (st_raw st) (st_remf st + 1)%N (st_remb st + f_qsize f)%N)
             w (ORes 0 e [])
    end
  | KRawAlloc max =>
    if max =? 0 then finish st w OSkip
    else
      let '(w, r) := allocate w max in
      match r with
      | None => finish (commit st w (st_files st) (st_raw st) (st_remf st) (st_remb st)) w (ORes 0 EExhausted [])
      | Some (first, n) =>
        finish (commit st w (st_files st) (st_raw st ++ [(first, n)]) (st_remf st) (st_remb st)) w
               (ORes (Z.of_nat n) ENone [])
      end
  | KRawFree idx as_list =>
    match st_raw st with
    | [] => finish st w OSkip
    | _ =>
      let i := idx mod length (st_raw st) in
      let '(first, n) := nth i (st_raw st) (0, 0) in
      let w := if as_list then free_list w (seq1 first n) else free_contig w first n in
      finish (commit st w (st_files st) (firstn i (st_raw st) ++ skipn (S i) (st_raw st)) (st_remf st) (st_remb st))
             w (ORes 0 ENone [])
    end
  | KFinal =>
    let nopen := N.of_nat (length (filter (fun f => match f with Some _ => true | None => false end) (st_files st))) in
    let w := close_all w (st_files st) in
    let w := free_runs w (st_raw st) in
    let '(w, runs) := alloc_all (S (c_nsec c)) w (Nat.max 1 (c_nsec c)) [] in
    let w := free_runs w runs in
    finish (commit st w (repeat None nslots) [] (st_remf st + nopen)%N (st_remb st + qsizes (st_files st))%N) w
           (ORes (Z.of_nat (sum_runs runs)) ENone [])
  end.

(* Observation after a step: Len() of every slot and the quota still available. *)
Record obs := mkObs { ob_lens : list (option N); ob_remf : N; ob_remb : option N }.

Definition observe (st : state) : obs :=
  mkObs (map (fun f => match f with Some f => Some (f_size f) | None => None end) (st_files st))
        (st_remf st)
        (if (st_remf st =? 0)%N then None else Some (st_remb st)).

Fixpoint run (c : cfg) (st : state) (ops : list op) : state :=
  match ops with
  | [] => st
  | o :: tl => let '(st', _, _) := step c st o in run c st' tl
  end.
