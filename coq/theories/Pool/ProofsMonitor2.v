(* Part 2 of the simulation: the reference byte arrays of the monitor
   ([p_content], [p_seek], sizes) against the model's files. *)
From Coq Require Import Lia ZifyBool ZifyNat ZifyN Permutation.
From VF Require Import Pool.Model Pool.Spec Pool.ProofsAlloc Pool.ProofsInv Pool.ProofsDev Pool.ProofsWrite
  Pool.ProofsContent Pool.ProofsRead Pool.ProofsRefine Pool.ProofsEvents Pool.ProofsTrunc Pool.ProofsSeek
  Pool.ProofsMonitor.

(* the cells of the reference array against the bytes of the model file *)
Definition FR (c : cfg) (dev : list N) (d : list cell) (f : file) : Prop :=
  length d = N.to_nat (f_size f) /\
  (forall j, j < length d -> cell_ok (nth j d CUnk) (content (c_ss c) dev f j) = true) /\
  (forall j, j < length d -> is_data (nth j d CUnk) = true -> data_at c f j).

Definition RR (c : cfg) (dev : list N) (d : option (list cell)) (fo : option file) : Prop :=
  match d, fo with
  | None, None => True
  | Some d, Some f => FR c dev d f
  | _, _ => False
  end.

Definition refs_rel (c : cfg) (r : refs) (st : state) : Prop := Forall2 (RR c (st_dev st)) r (st_files st).

Lemma Forall2_nth {A B} (R : A -> B -> Prop) a b :
  Forall2 R a b <-> length a = length b /\ forall i x y, nth_error a i = Some x -> nth_error b i = Some y -> R x y.
Proof.
  split.
  - induction 1 as [|x y a b Hxy HF (IH1 & IH2)]; [split; auto; intros [|i]; discriminate|].
    split; [cbn; congruence|]. intros [|i] x' y'; cbn; [intros [= <-] [= <-]; auto|apply IH2].
  - revert b. induction a as [|x a IH]; intros [|y b] (Hl & H); try discriminate; constructor.
    + apply (H 0); reflexivity.
    + apply IH. split; [cbn in Hl; congruence|]. intros i. apply (H (S i)).
Qed.

Lemma set_nth_length {A} (l : list A) i v : length (set_nth l i v) = length l.
Proof. revert i. induction l; intros [|i]; cbn; auto. Qed.

Lemma FR_frame c dev dev' d f :
  (forall j, content (c_ss c) dev' f j = content (c_ss c) dev f j) -> FR c dev d f -> FR c dev' d f.
Proof. intros H (H1 & H2 & H3). split; [|split]; auto. intros j Hj. rewrite H. auto. Qed.

Lemma FR_same_file c dev d f1 f2 : same_file f1 f2 -> FR c dev d f2 -> FR c dev d f1.
Proof.
  intros S (H1 & H2 & H3). pose proof S as (S1 & S2 & S3). split; [|split].
  - now rewrite S3.
  - intros j Hj. rewrite (content_same_file _ _ _ _ _ S). auto.
  - intros j Hj Hd. specialize (H3 j Hj Hd). unfold data_at in *. now rewrite S1, S2.
Qed.

(* how the relation moves along one step *)
Lemma refs_rel_step c st o st' x evs r r' :
  0 < c_ss c -> Inv2 c st -> step c st o = (st', x, evs) -> op_k o <> KFinal -> refs_rel c r st ->
  length r' = length r ->
  (forall g, slot_of (op_k o) <> Some g -> nth_error r' g = nth_error r g) ->
  (forall i d fo, slot_of (op_k o) = Some i -> nth_error r' i = Some d -> nth_error (st_files st') i = Some fo ->
     RR c (st_dev st') d fo) ->
  refs_rel c r' st'.
Proof.
  intros Hss (HI & Hl) E Hk HR Hlen Hoth Hslot.
  pose proof (step_inv _ _ _ _ _ _ Hss HI E) as HI'.
  pose proof (step_frame _ _ _ _ _ _ Hss HI Hl E) as (_ & Hfr).
  apply Forall2_nth in HR as (Hlr & HRn). apply Forall2_nth. split.
  - rewrite Hlen, Hlr, (inv_slots _ _ HI), (inv_slots _ _ HI'). reflexivity.
  - intros g d fo Hd Hf.
    assert (Hdec : slot_of (op_k o) = Some g \/ slot_of (op_k o) <> Some g).
    { destruct (slot_of (op_k o)) as [s|]; [destruct (Nat.eq_dec s g); [left; congruence|right; congruence]|right; discriminate]. }
    destruct Hdec as [Hs|Hs]; [now apply (Hslot g)|].
    rewrite (Hoth g Hs) in Hd. rewrite (step_files _ _ _ _ _ _ E Hk g Hs) in Hf.
    specialize (HRn g d fo Hd Hf). destruct d as [d|], fo as [fg|]; cbn [RR] in *; auto.
    assert (Hg : get_file st g = Some fg) by (unfold get_file; now rewrite Hf).
    destruct (Hfr Hk g fg Hs Hg) as (_ & Hc). eapply FR_frame; eauto.
Qed.

Lemma refs_rel_lens c r st : refs_rel c r st -> lens_ok r (ob_lens (observe st)) = true.
Proof.
  unfold refs_rel, lens_ok, observe. cbn [ob_lens]. generalize (st_files st). generalize (st_dev st). intros dev files HR.
  induction HR as [|d fo r files Hd HR IH]; [reflexivity|].
  cbn [map combine forallb length]. apply andb_prop in IH as (Hl & Hf). apply andb_true_intro. split.
  - rewrite map_length in *. cbn. lia.
  - apply andb_true_intro. split; [|exact Hf].
    destruct d as [d|], fo as [f|]; cbn [RR] in Hd; try contradiction; auto. destruct Hd as (Hlen & _). lia.
Qed.

Lemma ref_get_rel c r st i :
  refs_rel c r st ->
  match get_file st i with
  | Some f => exists d, ref_get r i = Some d /\ nth_error r i = Some (Some d) /\ FR c (st_dev st) d f
  | None => ref_get r i = None /\ (nth_error (st_files st) i = Some None -> nth_error r i = Some None) /\
            (nth_error (st_files st) i <> Some None -> nth_error r i <> Some None)
  end.
Proof.
  intros HR. apply Forall2_nth in HR as (Hl & HR). unfold get_file, ref_get.
  destruct (nth_error (st_files st) i) as [fo|] eqn:Ef.
  - destruct (nth_error r i) as [d|] eqn:Ed.
    + specialize (HR i d fo Ed Ef). destruct d as [d|], fo as [f|]; cbn [RR] in HR; try contradiction.
      * exists d. auto.
      * splits; auto.
    + apply nth_error_None in Ed. assert (i < length (st_files st)) by (apply nth_error_Some; congruence). lia.
  - apply nth_error_None in Ef. assert (Hn : nth_error r i = None) by (apply nth_error_None; lia). rewrite Hn.
    splits; auto; congruence.
Qed.

Lemma fin_ok w x0 : fin w x0 <> OPanic -> fin w x0 = x0.
Proof. unfold fin. destruct (a_panic (w_al w)); congruence. Qed.

Lemma existsb_rev {A} (p : A -> bool) l : existsb p (rev l) = existsb p l.
Proof.
  induction l as [|x l IH]; [reflexivity|]. cbn [rev existsb]. rewrite existsb_app, IH. cbn. rewrite Bool.orb_false_r.
  apply Bool.orb_comm.
Qed.

Lemma ejust_justified w e : e <> ENone -> ejust w e -> justified (rev (w_ev w)) e = true.
Proof. intros Hn. destruct e; cbn [ejust justified]; try congruence; try contradiction; now rewrite existsb_rev. Qed.

(* ---- the reference operations, cell by cell -------------------------------------------------------- *)

Lemma ref_write_spec d off data : data <> [] ->
  length (ref_write d off data) = Nat.max (length d) (off + length data) /\
  forall j, nth j (ref_write d off data) CUnk =
    if j <? off then (if j <? length d then nth j d CUnk else CFill)
    else if j <? off + length data then CVal (nth (j - off) data 0%N) else nth j d CUnk.
Proof.
  intros Hd. unfold ref_write. destruct data as [|b data']; [congruence|]. set (data := b :: data') in *.
  assert (Hl1 : length (firstn off d) = Nat.min off (length d)) by apply firstn_length.
  split.
  - rewrite !app_length, Hl1, repeat_length, map_length, skipn_length. lia.
  - intros j. destruct (j <? off) eqn:E1.
    + destruct (j <? length d) eqn:E2.
      * rewrite app_nth1 by lia. apply nth_firstn. lia.
      * rewrite app_nth2 by lia. rewrite app_nth1 by (rewrite repeat_length; lia). apply nth_repeat_lt. lia.
    + rewrite app_nth2 by lia. rewrite app_nth2 by (rewrite repeat_length; lia). rewrite Hl1, repeat_length.
      replace (j - Nat.min off (length d) - (off - length d)) with (j - off) by lia.
      destruct (j <? off + length data) eqn:E2.
      * rewrite app_nth1 by (rewrite map_length; lia).
        rewrite (nth_indep _ CUnk (CVal 0%N)) by (rewrite map_length; lia). apply map_nth.
      * rewrite app_nth2 by (rewrite map_length; lia). rewrite map_length, nth_skipn. f_equal. lia.
Qed.

Lemma ref_resize_spec d sz :
  length (ref_resize d sz) = sz /\
  forall j, j < sz -> nth j (ref_resize d sz) CUnk = if j <? length d then nth j d CUnk else CFill.
Proof.
  unfold ref_resize. split.
  - rewrite app_length, firstn_length, repeat_length. lia.
  - intros j Hj. destruct (j <? length d) eqn:E.
    + rewrite app_nth1 by (rewrite firstn_length; lia). apply nth_firstn. lia.
    + rewrite app_nth2 by (rewrite firstn_length; lia). apply nth_repeat_lt. rewrite firstn_length. lia.
Qed.

Lemma ref_havoc_spec d sz : sz <= length d ->
  length (ref_havoc d sz) = length d /\
  forall j, j < length d -> nth j (ref_havoc d sz) CUnk = if j <? sz then nth j d CUnk else CUnk.
Proof.
  intros Hsz. unfold ref_havoc. split.
  - rewrite app_length, firstn_length, repeat_length. lia.
  - intros j Hj. destruct (j <? sz) eqn:E.
    + rewrite app_nth1 by (rewrite firstn_length; lia). apply nth_firstn. lia.
    + rewrite app_nth2 by (rewrite firstn_length; lia). apply nth_repeat_lt. rewrite firstn_length. lia.
Qed.

Lemma ref_new_spec hole sz : length hole <= sz ->
  length (ref_new hole sz) = sz /\
  forall j, j < sz -> nth j (ref_new hole sz) CUnk = if j <? length hole then CVal (nth j hole 0%N) else CFill.
Proof.
  intros Hl. unfold ref_new. rewrite firstn_all2 by lia. split.
  - rewrite app_length, map_length, repeat_length. lia.
  - intros j Hj. destruct (j <? length hole) eqn:E.
    + rewrite app_nth1 by (rewrite map_length; lia). rewrite (nth_indep _ CUnk (CVal 0%N)) by (rewrite map_length; lia).
      apply map_nth.
    + rewrite app_nth2 by (rewrite map_length; lia). apply nth_repeat_lt. rewrite map_length. lia.
Qed.

Lemma cells_ok_spec cs bs :
  length bs <= length cs -> (forall k, k < length bs -> cell_ok (nth k cs CUnk) (nth k bs 0%N) = true) ->
  cells_ok cs bs = true.
Proof.
  revert cs. induction bs as [|b bt IH]; intros cs Hl H; [destruct cs; reflexivity|].
  destruct cs as [|c0 ct]; [cbn in Hl; lia|]. cbn [cells_ok]. apply andb_true_intro. split.
  - apply (H 0). cbn. lia.
  - apply IH; [cbn in Hl; lia|]. intros k Hk. apply (H (S k)). cbn. lia.
Qed.

Lemma no_data_spec (cs : list cell) : (forall k, k < length cs -> is_data (nth k cs CUnk) = false) ->
  existsb is_data cs = false.
Proof.
  induction cs as [|c0 ct IH]; intros H; [reflexivity|]. cbn [existsb]. pose proof (H 0 ltac:(cbn; lia)) as H0. cbn [nth] in H0. rewrite H0. cbn [orb].
  apply IH. intros k Hk. apply (H (S k)). cbn. lia.
Qed.

(* ---- the relation through each operation ----------------------------------------------------------- *)

Lemma cell_ok_val x : cell_ok (CVal x) x = true.
Proof. cbn. apply N.eqb_refl. Qed.

Lemma FR_new c dev hole size :
  length hole <= N.to_nat size -> FR c dev (ref_new hole (N.to_nat size)) (mkFile hole size [] size).
Proof.
  intros Hl. destruct (ref_new_spec hole (N.to_nat size) Hl) as (Hlen & Hn). split; [|split]; cbn [f_size]; auto.
  - intros j Hj. rewrite Hlen in Hj. rewrite Hn by auto. unfold content. cbn [f_secs f_hole].
    replace (nth (j / c_ss c) [] 0) with 0 by (destruct (j / c_ss c); reflexivity). cbn [Nat.eqb].
    destruct (j <? length hole) eqn:E; [apply cell_ok_val|]. cbn. rewrite nth_overflow by lia. reflexivity.
  - intros j Hj. rewrite Hlen in Hj. rewrite Hn by auto. destruct (j <? length hole) eqn:E; [|discriminate].
    intros _. right. cbn [f_hole]. lia.
Qed.

Lemma FR_write c dev dev' d f f' pos n p :
  0 < c_ss c -> FR c dev d f -> FWf (c_ss c) dev f ->
  updated (c_ss c) dev dev' f f' pos n p -> n <= length p -> SecsW (c_ss c) f f' pos n ->
  f_hole f' = f_hole f ->
  N.to_nat (f_size f') = (if 0 <? n then Nat.max (N.to_nat (f_size f)) (pos + n) else N.to_nat (f_size f)) ->
  FR c dev' (ref_write d pos (firstn n p)) f'.
Proof.
  intros Hss (Hlen & Hc & Hd) (_ & I2 & _) U Hn (S1 & S2 & _) Hh Hsz.
  assert (Hmono : forall j, data_at c f j -> data_at c f' j).
  { intros j [H|H]; [left; rewrite S1; auto|right; now rewrite Hh]. }
  destruct n as [|n'].
  - cbn [firstn ref_write]. cbn in Hsz. split; [|split]; auto; try congruence.
    intros j Hj. rewrite U. replace ((pos <=? j) && (j <? pos + 0)) with false by lia. auto.
  - set (n := S n') in *. assert (Hdl : length (firstn n p) = n) by (rewrite firstn_length; lia).
    assert (Hne : firstn n p <> []) by (intros E; rewrite E in Hdl; discriminate).
    destruct (ref_write_spec d pos (firstn n p) Hne) as (Hl' & Hnth). rewrite Hdl in *.
    replace (0 <? n) with true in Hsz by lia.
    split; [|split].
    + lia.
    + intros j Hj. rewrite Hnth, U. destruct (j <? pos) eqn:E1.
      * replace ((pos <=? j) && (j <? pos + n)) with false by lia.
        destruct (j <? length d) eqn:E2; [apply Hc; lia|]. rewrite I2 by lia. reflexivity.
      * replace (pos <=? j) with true by lia. cbn [andb]. destruct (j <? pos + n) eqn:E2.
        -- rewrite nth_firstn by lia. apply cell_ok_val.
        -- apply Hc. lia.
    + intros j Hj. rewrite Hnth. destruct (j <? pos) eqn:E1.
      * destruct (j <? length d) eqn:E2; [|discriminate]. intros Hdt. apply Hmono, Hd; auto. lia.
      * destruct (j <? pos + n) eqn:E2.
        -- intros _. left. apply S2. lia.
        -- intros Hdt. apply Hmono, Hd; auto. lia.
Qed.

Lemma FR_trunc c dev dev' d f f' sz (ok : bool) :
  FR c dev d f -> FWf (c_ss c) dev f ->
  (forall j, j < sz -> content (c_ss c) dev' f' j = content (c_ss c) dev f j) ->
  (forall j, j < sz -> nth (j / c_ss c) (f_secs f') 0 = nth (j / c_ss c) (f_secs f) 0) ->
  (forall j, j < sz -> j < length (f_hole f) -> j < length (f_hole f')) ->
  (if ok then N.to_nat (f_size f') = sz else sz < N.to_nat (f_size f) /\ f_size f' = f_size f) ->
  FR c dev' (if ok then ref_resize d sz else ref_havoc d sz) f'.
Proof.
  intros (Hlen & Hc & Hd) (_ & I2 & _) Hcont Hsecs Hhole Hsz.
  assert (Hmono : forall j, j < sz -> data_at c f j -> data_at c f' j).
  { intros j Hj [H|H]; [left; rewrite Hsecs; auto|right; auto]. }
  destruct ok.
  - destruct (ref_resize_spec d sz) as (Hl' & Hnth). split; [|split].
    + lia.
    + intros j Hj. rewrite Hl' in Hj. rewrite Hnth, Hcont by auto. destruct (j <? length d) eqn:E; [apply Hc; lia|].
      rewrite I2 by lia. reflexivity.
    + intros j Hj. rewrite Hl' in Hj. rewrite Hnth by auto. destruct (j <? length d) eqn:E; [|discriminate].
      intros Hdt. apply Hmono; auto. apply Hd; auto. lia.
  - destruct Hsz as (Hlt & Hs). destruct (ref_havoc_spec d sz ltac:(lia)) as (Hl' & Hnth). split; [|split].
    + lia.
    + intros j Hj. rewrite Hl' in Hj. rewrite Hnth by auto. destruct (j <? sz) eqn:E; [|reflexivity].
      rewrite Hcont by lia. apply Hc. lia.
    + intros j Hj. rewrite Hl' in Hj. rewrite Hnth by auto. destruct (j <? sz) eqn:E; [|discriminate].
      intros Hdt. apply Hmono; [lia|]. apply Hd; auto.
Qed.

(* ReadAt against the cells *)
Lemma read_cells c dev d f pos got :
  FR c dev d f -> reads_ok (c_ss c) dev f pos got -> length got <= length d - pos ->
  cells_ok (skipn pos d) got = true.
Proof.
  intros (Hlen & Hc & _) Hr Hl. apply cells_ok_spec.
  - rewrite skipn_length. lia.
  - intros k Hk. rewrite nth_skipn, Hr by auto. apply Hc. lia.
Qed.

(* the success flag of ReadAt *)
Lemma file_read_flag ss nsec oth w f off len w' n e got :
  0 < ss -> AInv nsec (w_al w) (nz (f_secs f) ++ oth) -> length (w_dev w) = nsec * ss ->
  file_read ss w f off len = (w', ORes n e got) -> (0 <= off)%Z -> len <> 0 -> (Z.to_N off < f_size f)%N ->
  (e = ENone -> Z.to_nat off + len < N.to_nat (f_size f)) /\ (e = EEOF -> N.to_nat (f_size f) <= Z.to_nat off + len).
Proof.
  intros Hss Ha Hlen H Hoff Hl Hlt. unfold file_read in H.
  replace (off <? 0)%Z with false in H by lia. replace (len =? 0) with false in H by lia.
  replace (f_size f <=? Z.to_N off)%N with false in H by lia.
  destruct (f_size f <=? Z.to_N off + N.of_nat len)%N eqn:E.
  - destruct (read_loop _ _ _ _ _ _ _ _ _) as [[w1 got1] e1] eqn:EL.
    destruct (sidx_soff ss Hss (Z.to_N off)) as (Hpos & Ho).
    apply (rloop_ok ss Hss nsec oth f (Z.to_nat off)) in EL; auto; try lia.
    + destruct EL as (_ & _ & _ & _ & _ & Hne). injection H as _ _ <- _. split; [|lia].
      intros He. destruct e1; congruence.
    + intros k Hk. cbn in Hk. lia.
    + cbn [length]. rewrite Z_N_nat in Hpos. lia.
  - destruct (read_loop _ _ _ _ _ _ _ _ _) as [[w1 got1] e1] eqn:EL.
    destruct (sidx_soff ss Hss (Z.to_N off)) as (Hpos & Ho).
    apply (rloop_ok ss Hss nsec oth f (Z.to_nat off)) in EL; auto; try lia.
    + destruct EL as (_ & _ & _ & _ & _ & Hne). injection H as _ _ <- _. split; [lia|].
      intros He. destruct e1; congruence.
    + intros k Hk. cbn in Hk. lia.
    + cbn [length]. rewrite Z_N_nat in Hpos. lia.
Qed.

(* GetNextRegionOffset against the cells *)
Lemma seek_check c dev d f r i off (data : bool) (n : Z) (e : errk) w' :
  FR c dev d f -> ref_get r i = Some d -> (0 <= off)%Z -> Z.to_nat off < length d ->
  match e with
  | ENone => (0 <= n)%Z /\ if data then DataRes c f (Z.to_nat off) (Z.to_nat n) else HoleRes c f (Z.to_nat off) (Z.to_nat n)
  | EEOF => data = true /\ forall j, Z.to_nat off <= j -> ~ data_at c f j
  | _ => ejust w' e
  end ->
  p_seek r (KSeek i off data) (ORes n e []) (rev (w_ev w')) = Good tt.
Proof.
  intros (Hlen & _ & Hd) Hg Hoff Hlt Hres. unfold p_seek. rewrite Hg.
  replace (off <? 0)%Z with false by lia. replace (length d <=? Z.to_nat off) with false by lia.
  set (offn := Z.to_nat off) in *. set (rn := Z.to_nat n) in *.
  assert (Hnd : forall j, j < length d -> ~ data_at c f j -> is_data (nth j d CUnk) = false).
  { intros j Hj Hn. destruct (is_data (nth j d CUnk)) eqn:E; auto. exfalso. apply Hn. now apply Hd. }
  destruct e; try (rewrite ejust_justified; [reflexivity|discriminate|exact Hres]).
  - destruct Hres as (Hn0 & Hres). unfold DataRes, HoleRes in Hres. rewrite <- Hlen in Hres. destruct data.
    + destruct Hres as (Hr1 & _ & Hr3).
      replace ((off <=? n)%Z && (rn <? length d)) with true by lia. cbn [check bind].
      rewrite no_data_spec; [reflexivity|]. intros k Hk. rewrite firstn_length, skipn_length in Hk.
      rewrite nth_firstn, nth_skipn by lia. apply Hnd; [lia|]. apply Hr3. lia.
    + destruct Hres as (Hr1 & _ & Hr3).
      replace ((off <=? n)%Z && (rn <=? length d)) with true by lia. cbn [check bind].
      rewrite no_data_spec; [reflexivity|]. intros k Hk. rewrite firstn_length, skipn_length in Hk.
      rewrite nth_firstn, nth_skipn by lia. replace (rn + k) with rn by lia. apply Hnd; [lia|]. apply Hr3. lia.
  - destruct Hres as (-> & Hres). cbn [check bind].
    rewrite no_data_spec; [reflexivity|]. intros k Hk. rewrite skipn_length in Hk. rewrite nth_skipn.
    apply Hnd; [lia|]. apply Hres. lia.
Qed.

Lemma lw0 c st o f oth :
  Inv2 c st -> AInv (c_nsec c) (st_al st) (nz (f_secs f) ++ oth) ->
  LW c oth (nz (f_secs f)) [] (world_of st o) (nz (f_secs f)).
Proof. intros (_ & Hl) Ha. split; [|split]; auto. exists [], (nz (f_secs f)). splits; auto. Qed.

Lemma quota_refuses_obs st extra :
  (st_remf st =? 0)%N = true \/ (st_remb st <? extra)%N = true -> quota_refuses (observe st) extra = true.
Proof.
  unfold quota_refuses, observe. cbn [ob_remb]. destruct (st_remf st =? 0)%N; [reflexivity|]. intros [H|H]; [discriminate|exact H].
Qed.

Lemma refs_rel_set c st o st' x evs r i v :
  0 < c_ss c -> Inv2 c st -> step c st o = (st', x, evs) -> slot_of (op_k o) = Some i -> refs_rel c r st ->
  (forall fo, nth_error (st_files st') i = Some fo -> RR c (st_dev st') v fo) ->
  refs_rel c (set_nth r i v) st'.
Proof.
  intros Hss H2 E Hs HR Hv. eapply refs_rel_step; eauto.
  - intros Hk. rewrite Hk in Hs. discriminate.
  - apply set_nth_length.
  - intros g Hg. apply get_file_set_other. congruence.
  - intros j d fo Hj Hd Hf. rewrite Hs in Hj. injection Hj as <-.
    rewrite nth_error_set_nth_same in Hd. destruct (i <? length r); [|discriminate]. injection Hd as <-. auto.
Qed.

Lemma slot_file_after st st' i v fo :
  st_files st' = set_nth (st_files st) i v -> nth_error (st_files st') i = Some fo -> fo = v.
Proof.
  intros -> H. rewrite nth_error_set_nth_same in H. destruct (i <? _); congruence.
Qed.

Lemma file_write_size ss nsec w f off p w' f' n e oth :
  0 < ss -> AInv nsec (w_al w) (nz (f_secs f) ++ oth) -> (0 <= off)%Z ->
  file_write ss w f off p = (w', f', n, e) ->
  n <= length p /\ f_hole f' = f_hole f /\
  N.to_nat (f_size f') = (if 0 <? n then Nat.max (N.to_nat (f_size f)) (Z.to_nat off + n) else N.to_nat (f_size f)).
Proof.
  intros Hss Ha Hoff H. pose proof (file_write_al _ _ _ _ _ _ _ _ _ _ _ Ha Hss H) as (_ & Hn & Hh & _ & Hs).
  splits; auto. rewrite Hs. destruct (0 <? n) eqn:E0; cbn [andb]; [|reflexivity].
  destruct (f_size f <? Z.to_N off + N.of_nat n)%N eqn:E1; lia.
Qed.

(* ---- Part 2: one step against the content monitor ------------------------------------------------------ *)

Definition content_ok (c : cfg) (r : refs) (st : state) (o : op) (st' : state) (x : out) (evs : list event) : Prop :=
  p_seek r (op_k o) x evs = Good tt /\
  exists r', p_content c r (observe st) (op_k o) x evs = Good r' /\ refs_rel c r' st'.

Section Content.
Variable c : cfg.
Hypothesis Hss : 0 < c_ss c.
Variables (st : state) (o : op) (st' : state) (x : out) (evs : list event) (r : refs).
Hypothesis H3 : Inv3 c st.
Hypothesis HR : refs_rel c r st.
Hypothesis Hwf : op_wf o = true.
Hypothesis E : step c st o = (st', x, evs).
Hypothesis Hx : x <> OPanic.

Lemma content_skip i :
  noop st o st' x evs OSkip -> slot_of (op_k o) = Some i ->
  (match op_k o with KNew _ _ _ _ => nth_error (st_files st) i <> Some None | _ => get_file st i = None end) ->
  content_ok c r st o st' x evs.
Proof.
  intros (-> & -> & Hxx) Hs Hc. rewrite Hxx in Hx. apply fin_ok in Hx. rewrite Hx in Hxx. subst x.
  pose proof (ref_get_rel c r st i HR) as Hg.
  split; [destruct (op_k o); reflexivity|]. exists r. split; [|exact HR].
  destruct (op_k o) eqn:Hk; cbn [slot_of] in Hs; try discriminate; injection Hs as ->; cbn [p_content slot_of];
    try (rewrite Hc in Hg; destruct Hg as (-> & _); reflexivity).
  destruct (get_file st i) as [f|] eqn:Ef.
  - destruct Hg as (d & _ & -> & _). reflexivity.
  - destruct Hg as (_ & _ & Hg). specialize (Hg Hc). destruct (nth_error r i) as [[d|]|]; try reflexivity. congruence.
Qed.

Lemma content_new slot hole size fb : op_k o = KNew slot hole size fb -> content_ok c r st o st' x evs.
Proof.
  intros Hk. pose proof H3 as (H2 & HF). pose proof H2 as (HI & Hl).
  pose proof (step_new_inv _ _ _ _ _ _ _ _ _ _ Hk E) as HN.
  destruct (nth_error (st_files st) slot) as [[g|]|] eqn:En;
    try (apply (content_skip slot); [exact HN|now rewrite Hk|rewrite Hk, En; congruence]).
  pose proof (ref_get_rel c r st slot HR) as Hg. unfold get_file in Hg. rewrite En in Hg.
  destruct Hg as (_ & Hg & _). specialize (Hg eq_refl).
  unfold content_ok. rewrite Hk. split; [reflexivity|].
  destruct HN as [((-> & -> & Hxx) & Hq)|[(-> & -> & Hxx & ->)|(-> & Hxx & Hf & Hd & _)]];
    rewrite Hxx in Hx; apply fin_ok in Hx; rewrite Hx in Hxx; subst x; cbn [p_content]; rewrite Hg; cbn [check bind].
  - exists r. split; auto.
    replace ((ob_remf (observe st) =? 0)%N || (0 <? size)%N && quota_refuses (observe st) size) with true; [reflexivity|].
    symmetry. destruct Hq as [Hq|(Hq1 & Hq2)].
    + cbn [observe ob_remf]. rewrite Hq. reflexivity.
    + rewrite Hq1, quota_refuses_obs by auto. apply Bool.orb_true_r.
  - exists r. split; auto.
  - eexists. split; [reflexivity|].
    eapply refs_rel_set; eauto; [now rewrite Hk|]. intros fo Hfo. apply (slot_file_after _ _ _ _ _ Hf) in Hfo. subst fo.
    cbn [RR]. apply FR_new. unfold op_wf in Hwf. rewrite Hk in Hwf. lia.
Qed.

Lemma content_read slot off len : op_k o = KRead slot off len -> content_ok c r st o st' x evs.
Proof.
  intros Hk. pose proof H3 as (H2 & HF). pose proof H2 as (HI & Hl).
  pose proof (step_read_inv _ _ _ _ _ _ _ _ _ Hk E) as HN.
  destruct (get_file st slot) as [f|] eqn:Ef; [|apply (content_skip slot); [exact HN|now rewrite Hk|now rewrite Hk]].
  destruct HN as (w1 & x1 & ER & -> & Hxx & ->). rewrite Hxx in Hx. apply fin_ok in Hx. rewrite Hx in Hxx. subst x.
  pose proof (ref_get_rel c r st slot HR) as Hg. rewrite Ef in Hg. destruct Hg as (d & Hg & _ & HFR).
  destruct (slot_ainv _ _ _ _ HI Ef) as (oth & Ha).
  unfold content_ok. rewrite Hk. split; [reflexivity|]. exists r. split; [|exact HR].
  pose proof HFR as (Hlen & _).
  destruct (off <? 0)%Z eqn:E0.
  { unfold file_read in ER. rewrite E0 in ER. injection ER as _ <-. cbn [p_content]. rewrite Hg, E0. reflexivity. }
  assert (Hoff : (0 <= off)%Z) by lia.
  pose proof (file_read_ok (c_ss c) Hss (c_nsec c) oth (world_of st o) f off len w1 x1 Ha Hl ER Hoff) as (_ & _ & n & e & got & -> & Hn & Hreads & Hle & Hfull).
  destruct (file_read_lw c oth (nz (f_secs f)) [] Hss _ _ _ _ _ _ (lw0 c st o f oth H2 Ha) Hoff ER) as (n2 & e2 & got2 & Heq & _ & _ & He).
  injection Heq as <- <- <-. cbn [p_content]. rewrite Hg, E0.
  replace (length got =? Z.to_nat (Z.of_nat n)) with true by lia. cbn [check bind].
  destruct (len =? 0) eqn:E1.
  { unfold file_read in ER. rewrite E0, E1 in ER. injection ER as _ Hn0 <- <-. rewrite <- Hn0. reflexivity. }
  destruct (length d <=? Z.to_nat off) eqn:E2.
  { unfold file_read in ER. rewrite E0, E1 in ER. replace (f_size f <=? Z.to_N off)%N with true in ER by lia.
    injection ER as _ Hn0 <- <-. rewrite <- Hn0. reflexivity. }
  rewrite (read_cells c _ d f (Z.to_nat off) got HFR Hreads) by lia. cbn [check bind].
  assert (Hlen0 : len <> 0) by lia. assert (Hlt0 : (Z.to_N off < f_size f)%N) by lia.
  assert (Hflag := file_read_flag (c_ss c) (c_nsec c) oth (world_of st o) f off len w1 _ _ _ Hss Ha Hl ER Hoff Hlen0 Hlt0).
  destruct He as [->|[->|(Hne & Hj)]].
  - rewrite <- Hn, Hfull by auto. replace (Nat.min len (N.to_nat (f_size f) - Z.to_nat off) =? Nat.min len (length d - Z.to_nat off)) with true by lia.
    cbn [check bind]. destruct Hflag as (Hf1 & _). specialize (Hf1 eq_refl). replace (Z.to_nat off + len <=? length d) with true by lia. reflexivity.
  - rewrite <- Hn, Hfull by auto. replace (Nat.min len (N.to_nat (f_size f) - Z.to_nat off) =? Nat.min len (length d - Z.to_nat off)) with true by lia.
    cbn [check bind]. destruct Hflag as (_ & Hf1). specialize (Hf1 eq_refl). replace (length d <=? Z.to_nat off + len) with true by lia. reflexivity.
  - assert (He' : e <> EEOF) by (intros ->; exact Hj).
    rewrite (ejust_justified _ _ Hne Hj). replace (length got <=? Nat.min len (length d - Z.to_nat off)) with true by lia.
    destruct e; try congruence; reflexivity.
Qed.


Lemma qsize_size slot f : get_file st slot = Some f -> f_qsize f = f_size f.
Proof.
  intros Ef. destruct H3 as ((HI & _) & _). apply (inv_q _ _ HI). unfold get_file in Ef.
  destruct (nth_error (st_files st) slot) as [[g|]|] eqn:En; try discriminate. injection Ef as ->.
  eapply nth_error_In; eauto.
Qed.

Lemma content_write slot off p : op_k o = KWrite slot off p -> content_ok c r st o st' x evs.
Proof.
  intros Hk. pose proof H3 as (H2 & HF). pose proof H2 as (HI & Hl).
  pose proof (step_write_inv _ _ _ _ _ _ _ _ _ Hk E) as HN.
  destruct (get_file st slot) as [f|] eqn:Ef; [|apply (content_skip slot); [exact HN|now rewrite Hk|now rewrite Hk]].
  pose proof (ref_get_rel c r st slot HR) as Hg. rewrite Ef in Hg. destruct Hg as (d & Hg & Hnr & HFR).
  pose proof HFR as (Hlen & _). pose proof (qsize_size slot f Ef) as Hq.
  unfold content_ok. rewrite Hk. split; [reflexivity|].
  destruct HN as [((-> & -> & Hxx) & Hc)|(Hoff & w1 & f1 & n & e & f1' & EW & Hf & Hsame & Hd & _ & _ & Hxx & ->)];
    rewrite Hxx in Hx; apply fin_ok in Hx; rewrite Hx in Hxx; subst x; cbn [p_content]; rewrite Hg.
  - (* refused *)
    destruct Hc as [Hc|(Hoff & Hc)].
    + replace (off <? 0)%Z with true by lia. cbn [check bind errk_eqb andb Z.eqb]. exists r. auto.
    + replace (off <? 0)%Z with false by lia. cbn [Z.to_nat firstn Z.leb length Nat.leb Z.compare andb check bind Nat.eqb].
      rewrite quota_refuses_obs by (right; lia). cbn [check bind].
      eexists. split; [reflexivity|]. cbn [ref_write].
      eapply refs_rel_set; eauto; [now rewrite Hk|]. intros fo Hfo.
      unfold get_file in Ef. destruct (nth_error (st_files st) slot) as [[g|]|]; try discriminate.
      injection Ef as ->. injection Hfo as <-. exact HFR.
  - (* ran *)
    replace (off <? 0)%Z with false by lia. rewrite Nat2Z.id.
    destruct (slot_ainv _ _ _ _ HI Ef) as (oth & Ha).
    destruct (file_write_lw c oth (nz (f_secs f)) [] Hss _ _ _ _ _ _ _ _ (lw0 c st o f oth H2 Ha) Hoff EW) as ((_ & _ & Hj) & Hfull).
    destruct (file_write_size (c_ss c) (c_nsec c) (world_of st o) f off p w1 f1 n e oth Hss Ha Hoff EW) as (Hn & Hh & Hsz).
    pose proof (file_write_secs (c_ss c) (c_nsec c) Hss (world_of st o) f off p w1 f1 n e oth Ha Hoff EW) as HS.
    apply (file_write_content (c_ss c) (c_nsec c) Hss) with (oth := oth) in EW as (_ & _ & U); auto.
    replace ((0 <=? Z.of_nat n)%Z && (n <=? length p)) with true by lia. cbn [check bind].
    assert (Hcheck : (match e with
                      | ENone => n =? length p
                      | EInvalid => (n =? 0) && quota_refuses (observe st) (N.of_nat (Z.to_nat off + length p - length d))
                      | _ => justified (rev (w_ev w1)) e
                      end) = true).
    { destruct e; try (apply ejust_justified; [discriminate|exact Hj]); try contradiction.
      rewrite (Hfull eq_refl). apply Nat.eqb_refl. }
    rewrite Hcheck. cbn [check bind]. eexists. split; [reflexivity|].
    eapply refs_rel_set; eauto; [now rewrite Hk|]. intros fo Hfo. apply (slot_file_after _ _ _ _ _ Hf) in Hfo. subst fo.
    cbn [RR]. rewrite Hd. eapply FR_same_file; [exact Hsame|].
    eapply (FR_write c (st_dev st) (w_dev w1) d f f1); eauto; try apply (HF slot f Ef).
Qed.

Lemma content_trunc slot size : op_k o = KTrunc slot size -> content_ok c r st o st' x evs.
Proof.
  intros Hk. pose proof H3 as (H2 & HF). pose proof H2 as (HI & Hl).
  pose proof (step_trunc_inv _ _ _ _ _ _ _ _ Hk E) as HN.
  destruct (get_file st slot) as [f|] eqn:Ef; [|apply (content_skip slot); [exact HN|now rewrite Hk|now rewrite Hk]].
  pose proof (ref_get_rel c r st slot HR) as Hg. rewrite Ef in Hg. destruct Hg as (d & Hg & Hnr & HFR).
  pose proof HFR as (Hlen & _). pose proof (qsize_size slot f Ef) as Hq.
  assert (Hsame_state : st' = st -> forall d', FR c (st_dev st) d' f -> refs_rel c (set_nth r slot (Some d')) st').
  { intros -> d' Hd'. eapply refs_rel_set; eauto; [now rewrite Hk|]. intros fo Hfo.
    unfold get_file in Ef. destruct (nth_error (st_files st) slot) as [[g|]|]; try discriminate.
    injection Ef as ->. injection Hfo as <-. exact Hd'. }
  unfold content_ok. rewrite Hk. split; [reflexivity|].
  destruct HN as [((Hst & -> & Hxx) & Hc)|[((Hst & -> & Hxx) & Hsz & Hc)|(Hsz & _ & w1 & f1 & e & f1' & ET & Hf & Hsame & Hd & _ & _ & Hxx & ->)]];
    rewrite Hxx in Hx; apply fin_ok in Hx; rewrite Hx in Hxx; subst x; cbn [p_content]; rewrite Hg.
  - (* refused *)
    destruct Hc as [Hc|(Hsz & Hc1 & Hc2)].
    + replace (size <? 0)%Z with true by lia. cbn [check bind errk_eqb]. exists r. subst st'. auto.
    + replace (size <? 0)%Z with false by lia.
      replace (length d <? Z.to_nat size) with true by lia. rewrite quota_refuses_obs by (right; lia). cbn [andb check bind].
      exists r. subst st'. auto.
  - (* same size *)
    replace (size <? 0)%Z with false by lia. eexists. split; [reflexivity|]. apply Hsame_state; auto.
    replace (Z.to_nat size) with (length d) by lia. unfold ref_resize. rewrite firstn_all, Nat.sub_diag, app_nil_r. exact HFR.
  - (* ran *)
    replace (size <? 0)%Z with false by lia.
    destruct (slot_ainv _ _ _ _ HI Ef) as (oth & Ha).
    destruct (file_truncate_lw c oth (nz (f_secs f)) [] Hss _ _ _ _ _ _ (lw0 c st o f oth H2 Ha) ET Hsz) as (_ & _ & Hj).
    destruct (file_truncate_wf (c_ss c) (c_nsec c) Hss (world_of st o) f size w1 f1 e oth Ha Hl Hsz ET (HF slot f Ef))
      as (_ & Hcont & Hsecs & Hhole & Hok & Hfail).
    assert (Hrel : forall ok : bool, (if ok then e = ENone else e <> ENone) ->
              refs_rel c (set_nth r slot (Some (if ok then ref_resize d (Z.to_nat size) else ref_havoc d (Z.to_nat size)))) st').
    { intros ok Hok'. eapply refs_rel_set; eauto; [now rewrite Hk|]. intros fo Hfo.
      apply (slot_file_after _ _ _ _ _ Hf) in Hfo. subst fo. cbn [RR]. rewrite Hd. eapply FR_same_file; [exact Hsame|].
      eapply (FR_trunc c (st_dev st) (w_dev w1) d f f1 (Z.to_nat size) ok); eauto; try apply (HF slot f Ef).
      destruct ok; [rewrite (Hok Hok'); lia|apply (Hfail Hok')]. }
    destruct e; try contradiction.
    + eexists. split; [reflexivity|]. apply (Hrel true). reflexivity.
    + rewrite ejust_justified; [|discriminate|exact Hj]. cbn [check bind]. eexists. split; [reflexivity|].
      apply (Hrel false). discriminate.
    + rewrite ejust_justified; [|discriminate|exact Hj]. cbn [check bind]. eexists. split; [reflexivity|].
      apply (Hrel false). discriminate.
    + rewrite ejust_justified; [|discriminate|exact Hj]. cbn [check bind]. eexists. split; [reflexivity|].
      apply (Hrel false). discriminate.
Qed.

Lemma content_seek slot off data : op_k o = KSeek slot off data -> content_ok c r st o st' x evs.
Proof.
  intros Hk. pose proof H3 as (H2 & HF). pose proof H2 as (HI & Hl).
  pose proof (step_seek_inv _ _ _ _ _ _ _ _ _ Hk E) as HN.
  destruct (get_file st slot) as [f|] eqn:Ef; [|apply (content_skip slot); [exact HN|now rewrite Hk|now rewrite Hk]].
  destruct HN as (w1 & x1 & ER & -> & Hxx & ->). rewrite Hxx in Hx. apply fin_ok in Hx. rewrite Hx in Hxx. subst x.
  pose proof (ref_get_rel c r st slot HR) as Hg. rewrite Ef in Hg. destruct Hg as (d & Hg & _ & HFR).
  pose proof HFR as (Hlen & _). pose proof (HF slot f Ef) as (I1 & _ & I3 & I4f).
  destruct (slot_ainv _ _ _ _ HI Ef) as (oth & Ha).
  unfold content_ok. rewrite Hk.
  assert (Hcont : forall n e, x1 = ORes n e [] -> exists r', p_content c r (observe st) (KSeek slot off data) x1 (rev (w_ev w1)) = Good r' /\ refs_rel c r' st).
  { intros n e ->. exists r. cbn [p_content]. rewrite Hg. auto. }
  destruct (off <? 0)%Z eqn:E0.
  { unfold file_seek in ER. rewrite E0 in ER. injection ER as <- <-. split; [|eapply Hcont; eauto].
    unfold p_seek. rewrite Hg, E0. reflexivity. }
  destruct (f_size f <=? Z.to_N off)%N eqn:E1.
  { unfold file_seek in ER. rewrite E0, E1 in ER. injection ER as <- <-. split; [|eapply Hcont; eauto].
    unfold p_seek. rewrite Hg, E0. replace (length d <=? Z.to_nat off) with true by lia. reflexivity. }
  assert (Hoff : (0 <= off)%Z) by lia. assert (Hlt : (Z.to_N off < f_size f)%N) by lia.
  destruct (file_seek_spec c oth (nz (f_secs f)) [] Hss _ _ _ _ _ _ _ I1 I3 I4f (lw0 c st o f oth H2 Ha) Hoff Hlt ER)
    as (n & e & -> & _ & _ & Hres).
  split; [|eapply Hcont; eauto]. eapply seek_check; eauto; [lia|].
  destruct e; auto; apply Hres.
Qed.

Lemma content_close slot : op_k o = KClose slot -> content_ok c r st o st' x evs.
Proof.
  intros Hk. pose proof H3 as (H2 & HF). pose proof H2 as (HI & Hl).
  pose proof (step_close_inv _ _ _ _ _ _ _ Hk E) as HN.
  destruct (get_file st slot) as [f|] eqn:Ef; [|apply (content_skip slot); [exact HN|now rewrite Hk|now rewrite Hk]].
  destruct HN as (w1 & e & EC & Hf & Hd & _ & _ & Hxx & ->). rewrite Hxx in Hx. apply fin_ok in Hx. rewrite Hx in Hxx. subst x.
  pose proof (ref_get_rel c r st slot HR) as Hg. rewrite Ef in Hg. destruct Hg as (d & Hg & _ & HFR).
  destruct (slot_ainv _ _ _ _ HI Ef) as (oth & Ha).
  destruct (file_close_lw c oth (nz (f_secs f)) [] Hss _ _ _ _ (lw0 c st o f oth H2 Ha) EC) as (_ & _ & Hj).
  unfold content_ok. rewrite Hk. split; [reflexivity|]. cbn [p_content]. rewrite Hg.
  assert (Hcheck : (match e with ENone => true | _ => justified (rev (w_ev w1)) e end) = true).
  { destruct e; try (apply ejust_justified; [discriminate|exact Hj]); try contradiction. reflexivity. }
  rewrite Hcheck. cbn [check bind]. eexists. split; [reflexivity|].
  eapply refs_rel_set; eauto; [now rewrite Hk|]. intros fo Hfo. apply (slot_file_after _ _ _ _ _ Hf) in Hfo. subst fo.
  exact I.
Qed.

Lemma content_raw : (exists a, op_k o = KRawAlloc a) \/ (exists a b, op_k o = KRawFree a b) -> content_ok c r st o st' x evs.
Proof.
  intros Hk. pose proof H3 as (H2 & HF).
  assert (Hrel : refs_rel c r st').
  { eapply refs_rel_step; eauto.
    - destruct Hk as [(a & ->)|(a & b & ->)]; discriminate.
    - intros i d fo Hs. exfalso. destruct Hk as [(a & Hk)|(a & b & Hk)]; rewrite Hk in Hs; discriminate. }
  unfold content_ok. destruct Hk as [(a & Hk)|(a & b & Hk)]; rewrite Hk; (split; [reflexivity|]); exists r;
    (split; [|exact Hrel]); destruct x; try congruence; reflexivity.
Qed.

Lemma content_final : op_k o = KFinal -> content_ok c r st o st' x evs.
Proof.
  intros Hk. unfold content_ok. rewrite Hk. split; [reflexivity|]. exists refs_init.
  assert (Hf : st_files st' = repeat None nslots /\ exists n, x = ORes n ENone []).
  { unfold step in E. rewrite Hk in E. destruct (alloc_all _ _ _ _) as [w1 runs]. unfold finish, commit in E.
    injection E as <- Hxx _. split; auto. destruct (a_panic _); [congruence|eauto]. }
  destruct Hf as (Hf & n & ->). split; [reflexivity|].
  unfold refs_rel. rewrite Hf. unfold refs_init. cbn. repeat constructor.
Qed.

Lemma step_content : content_ok c r st o st' x evs.
Proof.
  destruct (op_k o) eqn:Hk.
  - eapply content_new; eauto.
  - eapply content_read; eauto.
  - eapply content_write; eauto.
  - eapply content_trunc; eauto.
  - eapply content_seek; eauto.
  - eapply content_close; eauto.
  - apply content_raw. left. eauto.
  - apply content_raw. right. eauto.
  - apply content_final; auto.
Qed.

End Content.
