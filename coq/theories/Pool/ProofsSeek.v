(* GetNextRegionOffset: the next data / hole boundary at sector
   granularity.  A byte of the file is data iff its sector is allocated or
   the hole source reports data there ([0, len) for the harness's hole
   source). *)
From Coq Require Import Lia ZifyBool ZifyNat ZifyN Permutation.
From VF Require Import Pool.Model Pool.Spec Pool.ProofsAlloc Pool.ProofsInv Pool.ProofsDev Pool.ProofsWrite
  Pool.ProofsContent Pool.ProofsRead Pool.ProofsEvents Pool.ProofsTrunc.

Lemma next_sector_spec l zero : forall pos,
  let r := next_sector l zero pos in
  pos <= r <= pos + length l /\
  (forall i, i < r - pos -> Bool.eqb (nth i l 0 =? 0) zero = false) /\
  (r < pos + length l -> Bool.eqb (nth (r - pos) l 0 =? 0) zero = true).
Proof.
  induction l as [|x tl IH]; intros pos; cbn [next_sector length].
  - splits; try lia.
  - destruct (Bool.eqb (x =? 0) zero) eqn:E.
    + splits; try lia. intros _. now rewrite Nat.sub_diag.
    + destruct (IH (S pos)) as (H1 & H2 & H3). cbv zeta in *. splits; try lia.
      * intros i Hi. destruct i as [|i]; [exact E|]. cbn [nth]. apply H2. lia.
      * intros Hr. specialize (H3 ltac:(lia)).
        replace (next_sector tl zero (S pos) - pos) with (S (next_sector tl zero (S pos) - S pos)) by lia. exact H3.
Qed.

(* next (non-)hole sector index after si *)
Lemma next_sector_after secs si zero : si < length secs ->
  let r := next_sector (skipn (S si) secs) zero (S si) in
  S si <= r <= length secs /\
  (forall i, S si <= i < r -> Bool.eqb (nth i secs 0 =? 0) zero = false) /\
  (r < length secs -> Bool.eqb (nth r secs 0 =? 0) zero = true).
Proof.
  intros Hsi. destruct (next_sector_spec (skipn (S si) secs) zero (S si)) as (H1 & H2 & H3).
  cbv zeta in *. rewrite skipn_length in *. splits; try lia.
  - intros i Hi. specialize (H2 (i - S si) ltac:(lia)). rewrite nth_skipn in H2.
    now replace (S si + (i - S si)) with i in H2 by lia.
  - intros Hr. specialize (H3 ltac:(lia)). rewrite nth_skipn in H3.
    now replace (S si + (next_sector (skipn (S si) secs) zero (S si) - S si))
      with (next_sector (skipn (S si) secs) zero (S si)) in H3 by lia.
Qed.

Section S.
Variable c : cfg.
Variable others mine0 : list nat.
Variable base : list event.
Hypothesis Hss : 0 < c_ss c.
Let ss := c_ss c.

Local Notation LW := (LW c others mine0 base).
Local Notation Post := (Post c others mine0 base).

Definition data_at (f : file) (j : nat) : Prop :=
  nth (j / ss) (f_secs f) 0 <> 0 \/ j < length (f_hole f).

(* SEEK_DATA from off: r is the first data byte at or after off *)
Definition DataRes (f : file) (off r : nat) : Prop :=
  off <= r < N.to_nat (f_size f) /\ data_at f r /\ forall j, off <= j < r -> ~ data_at f j.

(* SEEK_HOLE from off: r is the first non-data byte at or after off, or the size *)
Definition HoleRes (f : file) (off r : nat) : Prop :=
  off <= r <= N.to_nat (f_size f) /\ (forall j, off <= j < r -> data_at f j) /\
  (r < N.to_nat (f_size f) -> ~ data_at f r).

Lemma hole_seek_spec w f off data w' r e h :
  LW w h -> hole_seek w f off data = (w', r, e) ->
  Post w w' h (match e with EEOF => ENone | _ => e end) /\
  (e = EInjected \/
   e = EEOF /\ length (f_hole f) <= N.to_nat off \/
   e = ENone /\ N.to_nat off < length (f_hole f) /\ r = (if data then off else N.of_nat (length (f_hole f)))).
Proof.
  intros HL. unfold hole_seek. destruct (hole_call w HSeek off) as [w1 ok] eqn:EH.
  pose proof (LW_hole_call c others mine0 base _ _ _ _ _ _ HL EH) as PH.
  destruct ok; cbn [negb].
  - destruct (N.of_nat (length (f_hole f)) <=? off)%N eqn:E.
    + intros [= <- <- <-]. split; [exact PH|]. right. left. split; auto. lia.
    + destruct data; intros [= <- <- <-]; (split; [exact PH|]); right; right; splits; auto; lia.
  - intros [= <- <- <-]. split; [exact PH|]. now left.
Qed.

Lemma sidx_div a : sidx ss a = N.to_nat a / ss /\ sidx ss a * ss <= N.to_nat a < S (sidx ss a) * ss.
Proof.
  destruct (sidx_soff ss Hss a) as (H1 & H2). split; [|lia].
  rewrite <- H1. symmetry. apply (div_mod_pos ss _ _ Hss H2).
Qed.

Lemma div_eq j si : si * ss <= j < S si * ss -> j / ss = si.
Proof.
  intros H. apply Nat.le_antisymm.
  - assert (j / ss < S si); [|lia]. apply Nat.div_lt_upper_bound; lia.
  - apply Nat.div_le_lower_bound; lia.
Qed.

Lemma shl_spec f h : length (f_hole f) <= N.to_nat (f_size f) ->
  forall fuel w off w' r e,
  LW w h -> (2 <= fuel \/ 1 <= fuel /\ length (f_hole f) <= N.to_nat off) ->
  N.to_nat off <= N.to_nat (f_size f) ->
  seek_hole_loop ss fuel w f off = (w', r, e) ->
  Post w w' h e /\ (e = ENone -> HoleRes f (N.to_nat off) (N.to_nat r)) /\ (e = ENone \/ e = EInjected).
Proof.
  intros I1. induction fuel as [|fuel IH]; intros w off w' r e HL Hf Hofs; [lia|].
  cbn [seek_hole_loop]. cbv zeta.
  destruct (sidx_div off) as (Hsi & Hsib). set (si := sidx ss off) in *. set (offn := N.to_nat off) in *.
  set (fs := N.to_nat (f_size f)) in *.
  (* the position after skipping allocated sectors *)
  assert (Hskip : exists si' off',
    (if (si <? length (f_secs f)) && negb (nth si (f_secs f) 0 =? 0)
     then (next_sector (skipn (S si) (f_secs f)) true (S si),
           N.of_nat (next_sector (skipn (S si) (f_secs f)) true (S si)) * N.of_nat ss)%N
     else (si, off)) = (si', off') /\
    offn <= N.to_nat off' /\ si' * ss <= N.to_nat off' < S si' * ss /\
    (forall j, offn <= j < N.to_nat off' -> data_at f j) /\
    nth si' (f_secs f) 0 = 0).
  { destruct ((si <? length (f_secs f)) && negb (nth si (f_secs f) 0 =? 0)) eqn:E.
    - destruct (next_sector_after (f_secs f) si true ltac:(lia)) as (H1 & H2 & H3). cbv zeta in *.
      set (si' := next_sector (skipn (S si) (f_secs f)) true (S si)) in *.
      exists si', (N.of_nat si' * N.of_nat ss)%N. splits; auto; try nia.
      + intros j Hj. left. assert (Hr : si <= j / ss < si').
        { split; [apply Nat.div_le_lower_bound; lia|apply Nat.div_lt_upper_bound; nia]. }
        destruct (Nat.eq_dec (j / ss) si) as [->|Hn]; [lia|].
        specialize (H2 (j / ss) ltac:(lia)). destruct (nth (j / ss) (f_secs f) 0 =? 0) eqn:E0; [discriminate|lia].
      + destruct (Nat.lt_ge_cases si' (length (f_secs f))); [|apply nth_overflow; lia].
        specialize (H3 H). destruct (nth si' (f_secs f) 0 =? 0) eqn:E0; [lia|discriminate].
    - exists si, off. splits; auto; try lia.
      destruct (Nat.lt_ge_cases si (length (f_secs f))); [lia|apply nth_overflow; lia]. }
  destruct Hskip as (si' & off' & -> & Hge & Hb & Hdata & Hzero).
  assert (Hdiv : N.to_nat off' / ss = si') by now apply div_eq.
  destruct (f_size f <=? off')%N eqn:Esz.
  { intros [= <- <- <-]. split; [now apply Post_refl|]. split; auto. intros _. fold fs. unfold HoleRes. fold fs.
    splits; try lia. intros j Hj. apply Hdata. lia. }
  destruct (hole_seek w f off' false) as [[w1 hs] e1] eqn:EH.
  destruct (hole_seek_spec _ _ _ _ _ _ _ _ HL EH) as (PH & Hcase).
  destruct Hcase as [->|[(-> & Hl)|(-> & Hl & ->)]].
  - intros [= <- <- <-]. split; [exact PH|]. split; [discriminate|now right].
  - intros [= <- <- <-]. split; [exact PH|]. split; auto. intros _. unfold HoleRes. fold fs offn.
    splits; try lia; auto. intros _ [Hd|Hd]; [rewrite Hdiv in Hd; congruence|lia].
  - destruct (N.of_nat (length (f_hole f)) <? N.of_nat (S si') * N.of_nat ss)%N eqn:El.
    + intros [= <- <- <-]. split; [exact PH|]. split; auto. intros _. unfold HoleRes. fold fs offn.
      rewrite Nat2N.id. splits; try lia.
      * intros j Hj. destruct (Nat.lt_ge_cases j (N.to_nat off')); [now apply Hdata|right; lia].
      * intros _ [Hd|Hd]; [|lia]. rewrite (div_eq (length (f_hole f)) si') in Hd by nia. congruence.
    + intros H. apply IH in H; [|apply PH|right; split; [lia|rewrite Nat2N.id; lia]|rewrite Nat2N.id; lia].
      destruct H as (P2 & Hres & He). split; [eapply Post_trans; [apply PH|exact P2]|]. split; auto.
      intros Hn. specialize (Hres Hn). rewrite Nat2N.id in Hres. destruct Hres as (R1 & R2 & R3).
      unfold HoleRes. fold offn fs. splits; auto; try lia.
      intros j Hj. destruct (Nat.lt_ge_cases j (N.to_nat off')); [now apply Hdata|].
      destruct (Nat.lt_ge_cases j (length (f_hole f))); [now right|apply R2; lia].
Qed.

(* blockDeviceBackedFile.GetNextRegionOffset *)
Lemma file_seek_spec w f off data w' x h :
  length (f_hole f) <= N.to_nat (f_size f) ->
  length (f_secs f) * ss < N.to_nat (f_size f) + ss ->
  I4 (f_secs f) ->
  LW w h -> (0 <= off)%Z -> (Z.to_N off < f_size f)%N ->
  file_seek ss w f off data = (w', x) ->
  exists r e, x = ORes r e [] /\ LW w' h /\ mono w w' /\
    match e with
    | ENone => (0 <= r)%Z /\ if data then DataRes f (Z.to_nat off) (Z.to_nat r) else HoleRes f (Z.to_nat off) (Z.to_nat r)
    | EEOF => data = true /\ forall j, Z.to_nat off <= j -> ~ data_at f j
    | _ => e = EInjected /\ ejust w' e
    end.
Proof.
  intros I1 I3 HI4 HL Hoff Hlt H. unfold file_seek in H.
  replace (off <? 0)%Z with false in H by lia. replace (f_size f <=? Z.to_N off)%N with false in H by lia.
  set (offN := Z.to_N off) in *. set (offn := Z.to_nat off).
  assert (Hoffn : N.to_nat offN = offn) by (unfold offN, offn; lia).
  destruct (sidx_div offN) as (Hsi & Hsib). rewrite Hoffn in Hsi, Hsib. set (si := sidx ss offN) in *.
  set (fs := N.to_nat (f_size f)) in *.
  destruct data.
  - (* SEEK_DATA *)
    assert (Hhole : forall so w1 r1 e1, hole_seek w f offN true = (w1, r1, e1) ->
      (forall j, offn <= j < so -> nth (j / ss) (f_secs f) 0 = 0) ->
      Post w w1 h (match e1 with EEOF => ENone | _ => e1 end) /\
      (e1 = EInjected \/
       e1 = EEOF /\ (forall j, offn <= j < so -> ~ data_at f j) /\ (forall j, offn <= j -> so <= j -> length (f_hole f) <= j) \/
       e1 = ENone /\ r1 = offN /\ DataRes f offn offn)).
    { intros so w1 r1 e1 EH Hz. destruct (hole_seek_spec _ _ _ _ _ _ _ _ HL EH) as (PH & Hcase). split; [exact PH|].
      destruct Hcase as [->|[(-> & Hl)|(-> & Hl & ->)]]; [now left|right; left|right; right].
      - splits; auto; [|intros; lia]. intros j Hj [Hd|Hd]; [apply Hd, Hz; lia|lia].
      - splits; auto. unfold DataRes. fold fs. splits; try lia. right. lia. }
    destruct (length (f_secs f) <=? si) eqn:Elen.
    + destruct (hole_seek w f offN true) as [[w1 r1] e1] eqn:EH.
      destruct (Hhole offn w1 r1 e1 eq_refl) as (PH & Hcase); [intros j Hj; lia|].
      injection H as <- <-. eexists; exists e1. split; [reflexivity|]. split; [apply PH|]. split; [apply PH|].
      destruct Hcase as [->|[(-> & Hn & Hl)|(-> & -> & HR)]].
      * split; [reflexivity|apply PH].
      * split; auto. intros j Hj [Hd|Hd]; [|specialize (Hl j Hj Hj); lia].
        apply Hd. apply nth_overflow. assert (si <= j / ss) by (rewrite Hsi; apply Nat.div_le_mono; lia). lia.
      * split; [lia|]. replace (Z.to_nat (Z.of_N offN)) with offn by lia. exact HR.
    + destruct (negb (nth si (f_secs f) 0 =? 0)) eqn:Enz.
      * injection H as <- <-. eexists; exists ENone. split; [reflexivity|]. split; [exact HL|]. split; [apply mono_refl|].
        split; [lia|]. replace (Z.to_nat (Z.of_N offN)) with offn by lia. unfold DataRes. fold fs.
        splits; try lia. left. rewrite <- Hsi. lia.
      * destruct (next_sector_after (f_secs f) si false ltac:(lia)) as (H1 & H2 & H3). cbv zeta in *.
        set (si' := next_sector (skipn (S si) (f_secs f)) false (S si)) in *.
        (* the sector list does not end with a hole *)
        assert (Hsi' : si' < length (f_secs f)).
        { destruct (Nat.lt_ge_cases si' (length (f_secs f))); auto. exfalso.
          destruct (length (f_secs f)) as [|m] eqn:El; [lia|]. apply (HI4 m); auto.
          destruct (Nat.eq_dec m si) as [->|Hn]; [lia|].
          specialize (H2 m ltac:(lia)). destruct (nth m (f_secs f) 0 =? 0) eqn:E0; [lia|discriminate]. }
        replace (length (f_secs f) <=? si') with false in H by lia.
        specialize (H3 Hsi'). assert (Hnz : nth si' (f_secs f) 0 <> 0) by (destruct (nth si' (f_secs f) 0 =? 0) eqn:E0; [discriminate|lia]).
        destruct (hole_seek w f offN true) as [[w1 r1] e1] eqn:EH.
        destruct (Hhole (si' * ss) w1 r1 e1 eq_refl) as (PH & Hcase).
        { intros j Hj. assert (Hr : si <= j / ss < si').
          { split; [rewrite Hsi; apply Nat.div_le_mono; lia|apply Nat.div_lt_upper_bound; nia]. }
          destruct (Nat.eq_dec (j / ss) si) as [->|Hn]; [lia|].
          specialize (H2 (j / ss) ltac:(lia)). destruct (nth (j / ss) (f_secs f) 0 =? 0) eqn:E0; [lia|discriminate]. }
        assert (Hso : si' * ss < fs) by nia.
        destruct Hcase as [->|[(-> & Hn & Hl)|(-> & -> & HR)]].
        -- injection H as <- <-. eexists; exists EInjected. split; [reflexivity|]. split; [apply PH|]. split; [apply PH|]. split; [reflexivity|apply PH].
        -- injection H as <- <-. eexists; exists ENone. split; [reflexivity|]. split; [apply PH|]. split; [apply PH|].
           split; [lia|]. replace (Z.to_nat (Z.of_N (N.of_nat si' * N.of_nat ss))) with (si' * ss) by lia.
           unfold DataRes. fold fs. splits; auto; try nia.
           left. rewrite (div_eq (si' * ss) si') by lia. exact Hnz.
        -- injection H as <- <-. eexists; exists ENone. split; [reflexivity|]. split; [apply PH|]. split; [apply PH|].
           split; [lia|]. replace (Z.to_nat (Z.of_N (N.min (N.of_nat si' * N.of_nat ss) offN))) with offn by nia.
           exact HR.
  - (* SEEK_HOLE *)
    destruct (seek_hole_loop ss (length (f_secs f) + 3) w f offN) as [[w1 r1] e1] eqn:EL.
    apply (shl_spec f h I1) in EL; auto; [|left; lia|lia].
    destruct EL as (PL & Hres & He). injection H as <- <-. eexists; exists e1. split; [reflexivity|].
    split; [apply PL|]. split; [apply PL|].
    destruct He as [-> | ->]; [|split; [reflexivity|apply PL]]. split; [lia|].
    replace (Z.to_nat (Z.of_N r1)) with (N.to_nat r1) by lia. rewrite Hoffn in Hres. auto.
Qed.

End S.
