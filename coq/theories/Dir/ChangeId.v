(* changeid_strict: along every operation the change counter of every
   directory strictly increases if the directory was modified and is
   unchanged otherwise; and the ChangeInfo returned is (before, after). *)
From Coq Require Import Lia ZifyBool ZifyN ZifyNat.
From VF Require Import Dir.Model Dir.Spec Dir.Abs Dir.Refine Dir.WF Dir.Rec Dir.Step Dir.Evolve.
Open Scope string_scope.

Section CI.
Variable norm : string -> string.
Variable hidden : string -> bool.

Lemma step_EVA st o :
  WF norm (st_clock st) st -> EVA (st_clock st) st (fst (step_core norm hidden st o)).
Proof.
  intros W. assert (WF norm (S (st_clock st)) st) as W' by (eapply WF_mono; [|exact W]; lia).
  destruct o; cbn [step_core].
  - unfold v_lookup. destruct (get_dir (init st d) d) as [dd|]; [destruct (find_entry _ _)|]; cbn [fst]; ev.
  - apply EV_v_open.
  - apply EV_v_mkdir.
  - apply EV_v_mknod.
  - apply EV_v_link.
  - cbn [v_link_foreign fst]. ev.
  - apply EV_v_remove.
  - apply EV_v_rename.
  - unfold v_readdir. destruct (get_dir (init st d) d); cbn [fst]; ev.
  - unfold lookup_child. destruct (get_dir (init st d) d) as [dd|]; [destruct (find_entry _ _)|]; cbn [fst]; ev.
  - unfold lookup_all. destruct (get_dir (init st d) d); cbn [fst]; ev.
  - unfold read_dir. destruct (get_dir (init st d) d); cbn [fst]; ev.
  - apply EVD_EVA, EV_remove.
  - eapply EVD_EVA, EV_remove_all; eauto.
  - eapply EVD_EVA, EV_remove_all_children_op; eauto.
  - now apply EV_create_children.
  - apply EV_create_and_enter.
  - eapply EVD_EVA, EV_filter_children; eauto.
  - apply EVD_EVA, EV_install_hooks.
Qed.

(* ---- from the evolution relation to the predicate of P ------------------------------------- *)

Lemma sbind_eqb_eq a b : sbind_eqb a b = true <-> a = b.
Proof.
  destruct a as [k1 [n1 c1 b1]], b as [k2 [n2 c2 b2]]. unfold sbind_eqb; cbn.
  rewrite !andb_true_iff, !String.eqb_eq, Nat.eqb_eq. split.
  - intros [[[-> ->] Hc] ->]. apply child_eqb_eq in Hc. now subst.
  - intros [= -> -> -> ->]. repeat split; auto. apply child_eqb_refl.
Qed.

Lemma list_eqb_eq {A} (eqb : A -> A -> bool) :
  (forall a b, eqb a b = true <-> a = b) -> forall l l', list_eqb eqb l l' = true <-> l = l'.
Proof.
  intros H. induction l as [|a t IH]; intros [|b t']; cbn; split; try congruence; auto.
  - rewrite andb_true_iff, H, IH. intros [-> ->]; auto.
  - intros [= -> ->]. rewrite andb_true_iff, H, IH. auto.
Qed.

Lemma key_unique es a b :
  NoDup (map e_norm es) -> In a es -> In b es -> e_norm a = e_norm b -> a = b.
Proof.
  induction es as [|e t IH]; cbn; [tauto|]. intros Hnd Ha Hb Hk. inversion Hnd as [|? ? Hn Hd]; subst.
  destruct Ha as [->|Ha], Hb as [->|Hb]; auto.
  - exfalso. apply Hn. rewrite Hk. now apply in_map.
  - exfalso. apply Hn. rewrite <- Hk. now apply in_map.
Qed.

Definition dir_step_ok (d d' : dir) : bool :=
  if modified (abs_dir d) (abs_dir d') then (d_change d <? d_change d')%N else (d_change d =? d_change d')%N.

Lemma evA_final c nd nl d d' :
  dir_ok norm c nd nl d -> evA c d d' -> dir_step_ok d d' = true.
Proof.
  intros [K1 _ _ K4 _ _] [H1 H2 H3]. unfold dir_step_ok, modified. cbn [abs_dir sd_map].
  destruct (list_eqb sbind_eqb (map abs_entry (d_entries d)) (map abs_entry (d_entries d'))) eqn:E; cbn [negb].
  - apply (list_eqb_eq _ sbind_eqb_eq) in E.
    destruct H3 as [[S1 S2]|[Hlt [[e [L1 L2]]|[e [G1 G2]]]]].
    + rewrite S2. apply N.eqb_refl.
    + exfalso. assert (In (abs_entry e) (map abs_entry (d_entries d'))) as Hin by (rewrite <- E; now apply in_map).
      apply in_map_iff in Hin as [e' [E1 E2]].
      assert (e_birth e' < c) as Hb by (injection E1 as _ _ _ ->; auto).
      pose proof (H2 e' E2 Hb) as Hin'.
      assert (e' = e) by (eapply key_unique; eauto; now injection E1). subst. auto.
    + exfalso. assert (In (abs_entry e) (map abs_entry (d_entries d))) as Hin by (rewrite E; now apply in_map).
      apply in_map_iff in Hin as [e' [E1 E2]]. pose proof (K4 e' E2). injection E1 as _ _ _ Hb. lia.
  - destruct H3 as [[S1 S2]|[Hlt _]].
    + rewrite S1 in E. rewrite list_eqb_refl in E; [discriminate|]. intros a. now apply sbind_eqb_eq.
    + apply N.ltb_lt. exact Hlt.
Qed.

Lemma changes_ok_lists : forall ds ds',
  (forall i d, nth_error ds i = Some d -> exists d', nth_error ds' i = Some d' /\ dir_step_ok d d' = true) ->
  changes_ok (map abs_dir ds) (map abs_dir ds')
             (map (fun d => (d_change d, d_deleted d)) ds) (map (fun d => (d_change d, d_deleted d)) ds') = "".
Proof.
  induction ds as [|d t IH]; intros ds' H; cbn [map changes_ok]; auto.
  destruct (H 0 d eq_refl) as [d' [E1 E2]]. destruct ds' as [|d0 t']; [discriminate|]. injection E1 as ->.
  cbn [map]. unfold dir_step_ok in E2.
  destruct (modified (abs_dir d) (abs_dir d')); rewrite E2; apply IH; intros i di Hi; apply (H (S i) di Hi).
Qed.

Lemma changes_ok_step st o :
  WF norm (st_clock st) st ->
  changes_ok (ss_dirs (abs st)) (ss_dirs (abs (fst (step norm hidden st o))))
             (dm_dirs (dump_of st)) (dm_dirs (dump_of (fst (step norm hidden st o)))) = "".
Proof.
  intros W. unfold step. destruct (step_core norm hidden st o) as [st1 r] eqn:Es. cbn [fst].
  unfold abs, dump_of, tick. cbn [ss_dirs dm_dirs st_dirs]. apply changes_ok_lists.
  intros i d Hi. pose proof (step_EVA st o W) as Hev. rewrite Es in Hev. cbn [fst] in Hev.
  destruct (Hev i d Hi) as [d' [A B]]. exists d'. split; auto.
  eapply evA_final; eauto; apply (W i d Hi).
Qed.

(* ---- ChangeInfo ---------------------------------------------------------------------------------- *)

Lemma change_at_dump st x : change_at (dump_of st) x = change_of st x.
Proof.
  unfold change_at, change_of, dump_of, get_dir. cbn [dm_dirs]. rewrite nth_error_map'.
  destruct (nth_error (st_dirs st) x); reflexivity.
Qed.

Lemma ci_refl a b : list_eqb ci_eqb [(a, b)] [(a, b)] = true.
Proof. cbn. unfold ci_eqb. cbn. now rewrite !N.eqb_refl. Qed.

Lemma change_of_init st y x : change_of (init st y) x = change_of st x.
Proof.
  unfold change_of. rewrite get_dir_init. destruct (Nat.eqb x y); auto. destruct (get_dir st x); reflexivity.
Qed.

Lemma change_of_get st x d : get_dir st x = Some d -> change_of st x = d_change d.
Proof. unfold change_of. now intros ->. Qed.

Lemma change_of_tick k st x : change_of (tick k st) x = change_of st x.
Proof. reflexivity. Qed.

Lemma changeinfo_step st o :
  changeinfo_ok o (snd (step norm hidden st o)) (dump_of st) (dump_of (fst (step norm hidden st o))) = true.
Proof.
  unfold step. destruct (step_core norm hidden st o) as [st1 r] eqn:Es. cbn [fst snd].
  unfold changeinfo_ok. destruct (status_eqb (o_status r) SOK) eqn:Eok; cbn [negb]; auto.
  apply status_eqb_eq in Eok.
  destruct o; auto; rewrite !change_at_dump, ?change_of_tick; cbn [step_core] in Es.
  - (* VirtualOpenChild *)
    unfold v_open in Es. rewrite <- (change_of_init st d d).
    destruct (get_dir (init st d) d) as [dd|] eqn:Ed; [|injection Es as <- <-; discriminate].
    rewrite (change_of_get _ _ _ Ed).
    destruct (find_entry (norm n) (d_entries dd)).
    + destruct (negb existing); [injection Es as <- <-; discriminate|].
      destruct (e_child e); [injection Es as <- <-; discriminate|].
      destruct (get_leaf (init st d) l) as [lf|]; [|injection Es as <- <-; discriminate].
      destruct (open_status (l_kind lf)); injection Es as <- <-; try discriminate.
      cbn [o_ci out_child]. rewrite (change_of_get _ _ _ Ed). apply ci_refl.
    + destruct (d_deleted dd || negb create); [injection Es as <- <-; discriminate|].
      destruct fail; [injection Es as <- <-; discriminate|].
      destruct (add_leaf (init st d) _) as [st2 l]. injection Es as <- <-. cbn [o_ci out_child]. apply ci_refl.
  - (* VirtualMkdir *)
    unfold v_mkdir in Es. rewrite <- (change_of_init st d d).
    destruct (get_dir (init st d) d) as [dd|] eqn:Ed; [|injection Es as <- <-; discriminate].
    rewrite (change_of_get _ _ _ Ed).
    destruct (may_attach dd (norm n)); try (injection Es as <- <-; discriminate).
    destruct (add_dir (init st d) _) as [st2 y]. injection Es as <- <-. cbn [o_ci out_child]. apply ci_refl.
  - (* VirtualMknod *)
    unfold v_mknod in Es. rewrite <- (change_of_init st d d).
    destruct (get_dir (init st d) d) as [dd|] eqn:Ed; [|injection Es as <- <-; discriminate].
    rewrite (change_of_get _ _ _ Ed).
    destruct (may_attach dd (norm n)); try (injection Es as <- <-; discriminate).
    destruct k; try (injection Es as <- <-; discriminate).
    + destruct fail; [injection Es as <- <-; discriminate|].
      destruct (add_leaf (init st d) _) as [st2 l]. injection Es as <- <-. cbn [o_ci out_child]. apply ci_refl.
    + destruct (add_leaf (init st d) _) as [st2 l]. injection Es as <- <-. cbn [o_ci out_child]. apply ci_refl.
    + destruct (add_leaf (init st d) _) as [st2 l]. injection Es as <- <-. cbn [o_ci out_child]. apply ci_refl.
  - (* VirtualLink *)
    unfold v_link in Es. destruct (get_leaf st l) as [lf|]; [|injection Es as <- <-; discriminate].
    rewrite <- (change_of_init st d d).
    destruct (get_dir (init st d) d) as [dd|] eqn:Ed; [|injection Es as <- <-; discriminate].
    rewrite (change_of_get _ _ _ Ed).
    destruct (may_attach dd (norm n)); try (injection Es as <- <-; discriminate).
    destruct (link_status lf); injection Es as <- <-; try discriminate. cbn [o_ci]. apply ci_refl.
  - (* VirtualRemove *)
    unfold v_remove in Es. rewrite <- (change_of_init st d d).
    destruct (get_dir (init st d) d) as [dd|] eqn:Ed; [|injection Es as <- <-; discriminate].
    destruct (find_entry (norm n) (d_entries dd)) as [e|] eqn:F; [|injection Es as <- <-; discriminate].
    destruct (e_child e) as [y|l] eqn:Ec.
    + destruct (negb rmdir); [injection Es as <- <-; discriminate|].
      destruct (get_dir (init (init st d) y) y) as [dy|] eqn:Ey; [|injection Es as <- <-; discriminate].
      destruct (deletable hidden dy) eqn:Hdel; cbn [negb] in Es; [|injection Es as <- <-; discriminate].
      injection Es as <- <-. cbn [o_ci out_ci].
      assert (d <> y) as Hn.
      { intros ->. apply init_entries in Ey as [d0 [E0 [E1 _]]]. rewrite Ed in E0. injection E0 as <-.
        apply find_entry_some in F as [F _]. eapply deletable_no_dir; eauto. now rewrite E1. }
      replace (change_of (mark_deleted (init (init st d) y) y) d) with (change_of (init st d) d); [apply ci_refl|].
      unfold change_of. rewrite get_dir_mark_deleted_other by auto. rewrite (get_dir_init (init st d) y d).
      apply Nat.eqb_neq in Hn. now rewrite Hn.
    + destruct (negb rmleaf); injection Es as <- <-; try discriminate. cbn [o_ci out_ci].
      replace (change_of (unlink (init st d) l) d) with (change_of (init st d) d); [apply ci_refl|].
      unfold change_of, unlink. now rewrite get_dir_mod_leaf.
  - (* VirtualRename *)
    unfold v_rename in Es.
    set (st0 := init (init st d1) d2) in *.
    assert (forall z, change_of st0 z = change_of st z) as Hc0 by (intros z; unfold st0; now rewrite !change_of_init).
    rewrite <- !Hc0.
    destruct (get_dir st0 d1) as [dd1|] eqn:E1; [|injection Es as <- <-; discriminate].
    destruct (get_dir st0 d2) as [dd2|] eqn:E2; [|injection Es as <- <-; discriminate].
    rewrite (change_of_get _ _ _ E1), (change_of_get _ _ _ E2).
    assert (forall s, list_eqb ci_eqb [(d_change dd1, change_of s d1); (d_change dd2, change_of s d2)]
                               [(d_change dd1, change_of s d1); (d_change dd2, change_of s d2)] = true) as Hr
      by (intros s; cbn; unfold ci_eqb; cbn; now rewrite !N.eqb_refl).
    destruct (find_entry (norm n2) (d_entries dd2)) as [ne|].
    + destruct (find_entry (norm n1) (d_entries dd1)) as [oe|]; [|injection Es as <- <-; discriminate].
      destruct (e_child ne) as [nd|nl]; destruct (e_child oe) as [od|ol]; try (injection Es as <- <-; discriminate).
      * destruct (Nat.eqb nd od); [injection Es as <- <-; apply Hr|].
        destruct (get_dir (init st0 nd) nd) as [dn|]; [|injection Es as <- <-; discriminate].
        destruct (negb (deletable hidden dn)); injection Es as <- <-; [discriminate|apply Hr].
      * destruct (Nat.eqb nl ol); injection Es as <- <-; apply Hr.
    + destruct (d_deleted dd2); [injection Es as <- <-; discriminate|].
      destruct (find_entry (norm n1) (d_entries dd1)) as [oe|]; injection Es as <- <-; [apply Hr|discriminate].
Qed.

End CI.
