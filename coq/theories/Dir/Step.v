(* One operation of the model against one operation of the reference
   hierarchy: commutation with the abstraction, preservation of
   well-formedness, and acceptance by the oracle part of P. *)
From Coq Require Import Lia ZifyBool ZifyN ZifyNat.
From VF Require Import Dir.Model Dir.Spec Dir.Abs Dir.Refine Dir.WF Dir.Rec.
Open Scope string_scope.

Section StepS.
Variable norm : string -> string.
Variable hidden : string -> bool.
Notation WF := (WF norm).

Lemma NoDup_names c nd nl d : dir_ok norm c nd nl d -> nodup_keys (map e_name (d_entries d)) = true.
Proof.
  intros [K1 K2 _ _ _ _]. apply (nodup_keys_NoDup norm hidden).
  revert K1 K2. generalize (d_entries d) as es.
  induction es as [|e t IH]; cbn [map]; intros K1 K2; [constructor|].
  inversion K1 as [|? ? Hn Hd]; subst. constructor.
  - intros Hin. apply Hn. apply in_map_iff in Hin as [e' [E1 E2]]. apply in_map_iff. exists e'. split; auto.
    rewrite (K2 e'), (K2 e); cbn; auto. now rewrite E1.
  - apply IH; auto. intros e' He'. apply K2. now right.
Qed.

(* The state/result part, for every operation. *)
Lemma step_core_ref c st o :
  WF c st -> st_clock st < c -> x_riod (snd (sstep_core norm hidden (abs st) o)) = false ->
  fst (sstep_core norm hidden (abs st) o) = abs (fst (step_core norm hidden st o)) /\
  matches (snd (sstep_core norm hidden (abs st) o)) (snd (step_core norm hidden st o)) /\
  WF c (fst (step_core norm hidden st o)).
Proof.
  intros H Hc Hr. destruct o; cbn [sstep_core step_core] in *.
  - destruct (ref_v_lookup norm st d n) as [R1 R2]. split; auto. split; auto.
    unfold v_lookup. destruct (get_dir (init st d) d) as [dd|]; [destruct (find_entry _ _)|]; cbn [fst]; now apply WF_init.
  - destruct (ref_v_open norm st d n create existing fail) as [R1 R2]. split; auto. split; auto. now apply WF_v_open.
  - destruct (ref_v_mkdir norm st d n) as [R1 R2]. split; auto. split; auto. now apply WF_v_mkdir.
  - destruct (ref_v_mknod norm st d n k fail) as [R1 R2]. split; auto. split; auto. now apply WF_v_mknod.
  - destruct (ref_v_link norm st d n l) as [R1 R2]. split; auto. split; auto. now apply WF_v_link.
  - cbn [fst snd v_link_foreign]. split; auto. split; auto. err.
  - destruct (ref_v_remove norm hidden st d n rmdir rmleaf) as [R1 R2]. split; auto. split; auto. now apply WF_v_remove.
  - destruct (ref_v_rename norm hidden st d1 n1 d2 n2 Hr) as [R1 R2]. split; auto. split; auto. now apply WF_v_rename.
  - destruct (ref_v_readdir hidden st d cookie page) as [R1 R2]. split; auto. split.
    + apply R2. intros dd Hd. eapply NoDup_names. eapply H; eauto.
    + unfold v_readdir. destruct (get_dir (init st d) d); cbn [fst]; now apply WF_init.
  - destruct (ref_lookup_child norm st d n) as [R1 R2].
    destruct (s_lookup norm (abs st) d n) as [s1 x1] eqn:E. cbn [fst snd] in *. split; auto. split; auto.
    unfold lookup_child. destruct (get_dir (init st d) d) as [dd|]; [destruct (find_entry _ _)|]; cbn [fst]; now apply WF_init.
  - destruct (ref_lookup_all hidden st d) as [R1 R2]. split; auto. split; auto.
    unfold lookup_all. destruct (get_dir (init st d) d); cbn [fst]; now apply WF_init.
  - destruct (ref_read_dir hidden st d) as [R1 R2]. split; auto. split; auto.
    unfold read_dir. destruct (get_dir (init st d) d); cbn [fst]; now apply WF_init.
  - destruct (ref_remove norm hidden st d n) as [R1 R2]. split; auto. split; auto. now apply WF_remove.
  - now apply ref_remove_all.
  - now apply ref_remove_all_children_op.
  - now apply ref_create_children.
  - destruct (ref_create_and_enter norm st d n) as [R1 R2]. split; auto. split; auto. now apply WF_create_and_enter.
  - now apply ref_filter_children.
  - destruct (ref_install_hooks st d tag) as [R1 R2]. cbn [fst snd]. split; auto. split; auto. now apply WF_install_hooks.
Qed.

(* ---- the oracle accepts ------------------------------------------------------------- *)

Lemma status_eqb_refl s : status_eqb s s = true.
Proof. destruct s; reflexivity. Qed.

Lemma status_eqb_eq a b : status_eqb a b = true -> a = b.
Proof. destruct a, b; cbn; congruence. Qed.

Lemma oracle_ok x s' o r dm :
  matches x r -> (o_status r = SOK -> attrs_part o r s' dm = true) -> oracle x s' o r dm = "".
Proof.
  intros [M1 [M2 M3]] Ha. unfold oracle. rewrite M1, M2, status_eqb_refl. cbn [andb negb].
  destruct (status_eqb (o_status r) SOK) eqn:Es; cbn [negb]; auto.
  apply status_eqb_eq in Es. destruct (M3 Es) as [C1 [C2 C3]]. specialize (Ha Es).
  destruct (x_child x) as [ch|].
  - rewrite (C1 ch eq_refl). cbn [ochild_eqb]. rewrite child_eqb_refl. cbn [negb].
    destruct (x_nlink x) as [nl|]; [rewrite (C2 nl eq_refl), Z.eqb_refl|]; cbn [negb]; rewrite C3; cbn [negb];
      rewrite Ha; reflexivity.
  - cbn [negb].
    destruct (x_nlink x) as [nl|]; [rewrite (C2 nl eq_refl), Z.eqb_refl|]; cbn [negb]; rewrite C3; cbn [negb];
      rewrite Ha; reflexivity.
Qed.

Lemma attr_ok_child_attr k st c :
  child_ok (length (st_dirs st)) (length (st_leaves st)) c ->
  attr_ok (abs (tick k st)) (dump_of st) c (child_attr st c) = true.
Proof.
  destruct c as [y|l]; cbn [child_ok attr_ok]; intros Hlt.
  - unfold dump_of. cbn [dm_dirs]. rewrite nth_error_map'. unfold child_attr, get_dir.
    destruct (nth_error (st_dirs st) y) eqn:E; cbn [option_map]; [apply Z.eqb_refl|].
    apply nth_error_None in E. lia.
  - unfold nlink_of, child_attr. rewrite sget_leaf_abs. unfold get_leaf. cbn [tick st_leaves].
    destruct (nth_error (st_leaves st) l) eqn:E; cbn [option_map abs_leaf sl_nlink]; [apply Z.eqb_refl|].
    apply nth_error_None in E. lia.
Qed.

Lemma ndirs_init st x : length (st_dirs (init st x)) = length (st_dirs st).
Proof. apply ndirs_mod_dir. Qed.
Lemma nleaves_init st x : length (st_leaves (init st x)) = length (st_leaves st).
Proof. apply nleaves_mod_dir. Qed.

Lemma attrs_ok_step c k st o :
  WF c st ->
  o_status (snd (step_core norm hidden st o)) = SOK ->
  attrs_part o (snd (step_core norm hidden st o))
             (abs (tick k (fst (step_core norm hidden st o)))) (dump_of (fst (step_core norm hidden st o))) = true.
Proof.
  intros H Hs. destruct o; cbn [attrs_part]; auto.
  - (* VirtualLookup *)
    cbn [step_core] in *. unfold v_lookup in *.
    destruct (get_dir (init st d) d) as [dd|] eqn:Ed; cbn [fst snd] in *; [|discriminate].
    destruct (find_entry (norm n) (d_entries dd)) as [e|] eqn:F; cbn [fst snd o_child out_child o_attr] in *; [|discriminate].
    destruct (e_child e) as [y|l] eqn:Ec; auto. rewrite <- Ec.
    apply attr_ok_child_attr. eapply child_ok_found; [apply WF_init; exact H|exact Ed|exact F].
  - (* VirtualMkdir *)
    cbn [step_core] in *. unfold v_mkdir in *.
    destruct (get_dir (init st d) d) as [dd|] eqn:Ed; cbn [fst snd] in *; [|discriminate].
    destruct (may_attach dd (norm n)); cbn [fst snd] in *; try discriminate.
    destruct (add_dir (init st d) _) as [st1 y] eqn:E. cbn [fst snd o_child out_child o_attr].
    cbn [attr_ok]. unfold dump_of. cbn [dm_dirs]. rewrite nth_error_map'.
    fold (get_dir (mod_dir st1 d (attach (st_clock (init st d)) n (norm n) (CDir y))) y).
    rewrite get_dir_mod_dir.
    pose proof (get_dir_lt _ _ _ Ed) as Hlt.
    pose proof E as E'. unfold add_dir in E'. injection E' as <- <-.
    destruct (Nat.eqb (length (st_dirs (init st d))) d) eqn:Eq; [apply Nat.eqb_eq in Eq; lia|].
    unfold get_dir. cbn [st_dirs]. rewrite nth_error_app2, Nat.sub_diag by lia. reflexivity.
  - (* VirtualReadDir *)
    cbn [step_core] in *. unfold v_readdir in *.
    destruct (get_dir (init st d) d) as [dd|] eqn:Ed; cbn [fst snd o_entries out_list] in *; [|discriminate].
    apply forallb_forall. intros re Hin. apply in_map_iff in Hin as [e [<- Hin]]. cbn [report r_child r_attr].
    apply attr_ok_child_attr. eapply ok_refs; [eapply (WF_init norm c st d H); eauto|].
    eapply sub_in; [|exact Hin]. eapply sub_trans; [apply sub_firstn|]. eapply sub_trans; [apply sub_filter|apply sub_seek].
Qed.

Lemma nlinks_ok_abs k st : nlinks_ok (abs (tick k st)) (dump_of st) = true.
Proof.
  unfold nlinks_ok, abs, dump_of. cbn. rewrite map_map. cbn. apply list_eqb_refl. apply Z.eqb_refl.
Qed.

End StepS.
