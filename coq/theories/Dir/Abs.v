(* The abstraction function from model states to the reference hierarchy,
   and the fact that it is a homomorphism for every store primitive. *)
From Coq Require Import Lia ZifyBool ZifyN ZifyNat.
From VF Require Import Dir.Model Dir.Spec.
Open Scope string_scope.

Definition abs_entry (e : entry) : string * sbind := (e_norm e, mkSB (e_name e) (e_child e) (e_birth e)).
Definition abs_dir (d : dir) : sdir := mkSDir (map abs_entry (d_entries d)) (d_deleted d).
Definition abs_leaf (l : leaf) : sleaf := mkSLeaf (l_kind l) (l_nlink l).
Definition abs (st : state) : sstate :=
  mkSS (map abs_dir (st_dirs st)) (map abs_leaf (st_leaves st)) (st_clock st).

(* ---- lists ---------------------------------------------------------------- *)

Lemma upd_length {A} (l : list A) i x : length (upd l i x) = length l.
Proof. revert i; induction l; intros [|i]; cbn; auto. Qed.

Lemma nth_error_upd {A} (l : list A) i j x :
  nth_error (upd l i x) j =
  if Nat.eqb j i then (match nth_error l i with Some _ => Some x | None => None end) else nth_error l j.
Proof.
  revert i j; induction l as [|h t IH]; intros i j.
  - destruct i, j; cbn; auto.
    destruct (Nat.eqb j i); reflexivity.
  - destruct i, j; cbn; auto.
Qed.

Lemma map_upd {A B} (f : A -> B) (l : list A) i x : map f (upd l i x) = upd (map f l) i (f x).
Proof. revert i; induction l; intros [|i]; cbn; auto. now rewrite IHl. Qed.

Lemma nth_error_map' {A B} (f : A -> B) l i : nth_error (map f l) i = option_map f (nth_error l i).
Proof. revert i; induction l; intros [|i]; cbn; auto. Qed.

Lemma upd_same {A} (l : list A) i x : nth_error l i = Some x -> upd l i x = l.
Proof. revert i; induction l; intros [|i]; cbn; try discriminate; intros H; [now inversion H|now rewrite IHl]. Qed.

(* ---- store ---------------------------------------------------------------- *)

Lemma sget_abs st x : sget (abs st) x = option_map abs_dir (get_dir st x).
Proof. unfold sget, get_dir, abs; cbn. apply nth_error_map'. Qed.

Lemma sget_leaf_abs st l : sget_leaf (abs st) l = option_map abs_leaf (get_leaf st l).
Proof. unfold sget_leaf, get_leaf, abs; cbn. apply nth_error_map'. Qed.

Lemma abs_mod_dir st x f g :
  (forall d, abs_dir (f d) = g (abs_dir d)) ->
  abs (mod_dir st x f) = smod (abs st) x g.
Proof.
  intros H. unfold mod_dir, smod. rewrite sget_abs.
  destruct (get_dir st x) as [d|]; cbn; auto.
  unfold abs, set_dir; cbn. now rewrite map_upd, H.
Qed.

Lemma abs_mod_dir_id st x f :
  (forall d, abs_dir (f d) = abs_dir d) -> abs (mod_dir st x f) = abs st.
Proof.
  intros H. unfold mod_dir. destruct (get_dir st x) as [d|] eqn:E; auto.
  unfold abs, set_dir; cbn. rewrite map_upd, H, upd_same; auto.
  unfold get_dir in E. now rewrite nth_error_map', E.
Qed.

Lemma abs_mod_leaf st l f g :
  (forall lf, abs_leaf (f lf) = g (abs_leaf lf)) ->
  abs (mod_leaf st l f) = smod_leaf (abs st) l g.
Proof.
  intros H. unfold mod_leaf, smod_leaf. rewrite sget_leaf_abs.
  destruct (get_leaf st l) as [lf|]; cbn; auto.
  unfold abs, set_leaf; cbn. now rewrite map_upd, H.
Qed.

Lemma abs_init st x : abs (init st x) = abs st.
Proof. apply abs_mod_dir_id. reflexivity. Qed.

Lemma abs_unlink st l : abs (unlink st l) = sunlink (abs st) l.
Proof. apply abs_mod_leaf. reflexivity. Qed.

Lemma abs_link st l : abs (link st l) = slink (abs st) l.
Proof. apply abs_mod_leaf. reflexivity. Qed.

Lemma abs_attach st x c n k ch :
  abs (mod_dir st x (attach c n k ch)) = smod (abs st) x (bind c n k ch).
Proof.
  apply abs_mod_dir. intros d. unfold abs_dir, attach, bind; cbn. now rewrite map_app.
Qed.

Lemma filter_map_abs (p : string -> bool) es :
  map abs_entry (filter (fun e => p (e_norm e)) es) = filter (fun q => p (fst q)) (map abs_entry es).
Proof. induction es as [|e t IH]; cbn; auto. destruct (p (e_norm e)); cbn; now rewrite IH. Qed.

Lemma abs_dir_detach k d : abs_dir (detach k d) = unbind k (abs_dir d).
Proof.
  unfold abs_dir, detach, unbind; cbn. f_equal.
  apply (filter_map_abs (fun s => negb (String.eqb s k))).
Qed.

Lemma abs_detach st x k : abs (mod_dir st x (detach k)) = smod (abs st) x (unbind k).
Proof. apply abs_mod_dir. intros; apply abs_dir_detach. Qed.

Lemma abs_add_dir st h :
  abs (fst (add_dir st (new_dir h))) = fst (snew_dir (abs st)) /\
  snd (add_dir st (new_dir h)) = snd (snew_dir (abs st)).
Proof. unfold add_dir, snew_dir, abs; cbn. rewrite map_app, map_length. auto. Qed.

Lemma abs_add_leaf st k tag :
  abs (fst (add_leaf st (mkLeaf k 1 tag))) = fst (snew_leaf (abs st) k) /\
  snd (add_leaf st (mkLeaf k 1 tag)) = snd (snew_leaf (abs st) k).
Proof. unfold add_leaf, snew_leaf, abs; cbn. rewrite map_app, map_length. auto. Qed.

Lemma add_leaf_abs st k tag st1 l :
  add_leaf st (mkLeaf k 1 tag) = (st1, l) -> snew_leaf (abs st) k = (abs st1, l).
Proof. intros [= <- <-]. unfold snew_leaf, abs; cbn. now rewrite map_app, map_length. Qed.

Lemma add_dir_abs st h st1 y :
  add_dir st (new_dir h) = (st1, y) -> snew_dir (abs st) = (abs st1, y).
Proof. intros [= <- <-]. unfold snew_dir, abs; cbn. now rewrite map_app, map_length. Qed.

Lemma abs_tick k st : abs (tick k st) = mkSS (ss_dirs (abs st)) (ss_leaves (abs st)) k.
Proof. reflexivity. Qed.

Lemma abs_clock st : ss_clock (abs st) = st_clock st.
Proof. reflexivity. Qed.

Lemma abs_ndirs st : length (ss_dirs (abs st)) = length (st_dirs st).
Proof. unfold abs; cbn. apply map_length. Qed.

(* ---- directory contents ------------------------------------------------------ *)

Lemma lookup_abs k d :
  lookup k (abs_dir d) = option_map (fun e => snd (abs_entry e)) (find_entry k (d_entries d)).
Proof.
  unfold lookup, find_entry, abs_dir; cbn.
  induction (d_entries d) as [|e t IH]; cbn; auto.
  destruct (String.eqb (e_norm e) k); cbn; auto.
Qed.

Lemma find_abs k d :
  find (fun p => String.eqb (fst p) k) (sd_map (abs_dir d)) = option_map abs_entry (find_entry k (d_entries d)).
Proof.
  unfold find_entry, abs_dir; cbn.
  induction (d_entries d) as [|e t IH]; cbn; auto.
  destruct (String.eqb (e_norm e) k); cbn; auto.
Qed.

Section Names.
Variable norm : string -> string.
Variable hidden : string -> bool.

Lemma sempty_abs d : sempty hidden (abs_dir d) = deletable hidden d.
Proof.
  unfold sempty, deletable, abs_dir; cbn.
  induction (d_entries d) as [|e t IH]; cbn; auto. now rewrite IH.
Qed.

Lemma creatable_abs d k : creatable (abs_dir d) k = may_attach d k.
Proof.
  unfold creatable, may_attach. cbn [sd_deleted abs_dir]. rewrite lookup_abs.
  destruct (d_deleted d); auto. destruct (find_entry k (d_entries d)); auto.
Qed.

Lemma fold_unlink_abs es st :
  abs (fold_left (fun s e => match e_child e with CLeaf l => unlink s l | CDir _ => s end) es st) =
  fold_left (fun s' p => match sb_child (snd p) with CLeaf l => sunlink s' l | CDir _ => s' end)
            (map abs_entry es) (abs st).
Proof.
  revert st; induction es as [|e t IH]; intros st; cbn; auto.
  rewrite IH. destruct (e_child e); cbn; auto. now rewrite abs_unlink.
Qed.

Lemma abs_mark_deleted st x : abs (mark_deleted st x) = sdelete (abs st) x.
Proof.
  unfold mark_deleted, sdelete. rewrite sget_abs.
  destruct (get_dir st x) as [d|]; cbn; auto.
  destruct (d_deleted d); auto.
  rewrite (abs_mod_dir _ _ _ (fun _ => mkSDir [] true)); [|intros d'; reflexivity].
  now rewrite fold_unlink_abs.
Qed.

End Names.
