(* C13 through the kernel-facing front ends.

   The same histories that harness/cmd/dir runs against the
   virtual.Directory API are also delivered through
   fuse.NewSimpleRawFileSystem (node ids, fuse.Status, directory offsets)
   and through NewNFS41Program COMPOUNDs over NewNFSHandleAllocator (file
   handles, nfsstat4, READDIR cookies).  What comes back is put into the
   same [case] record and judged by the same [check_case] (Corr.v): the
   same [p_step], the same model comparison.

   This file is the Coq side of the adapter: everything the adapter does
   to a front-end answer before [check_case] sees it is a function defined
   here, and the case files written by the harness contain the raw
   front-end values with these functions applied to them
   ([fuse_status 39], [cookie_of_off 7]), so the decoding is evaluated by
   the kernel's VM and not by Go code.  FrontProofs.v proves what the
   adapter assumes of these functions (decoding inverts the encoding of
   the Go front ends, so it is injective on everything they can send;
   offsets are a strictly monotone image of cookies) and that
   [readdir_complete] transfers to listings addressed by offsets.

   No proofs here: this file is loaded by every case file. *)
From Coq Require Import DecimalString.
From VF Require Import Common.Verdict Dir.Model Dir.Spec Dir.Corr.
Open Scope string_scope.

(* ---- statuses ---------------------------------------------------------------- *)

(* toFUSEStatus (simple_raw_file_system.go), Linux errno values, for the
   statuses the directory code can return. *)
Definition fuse_errno (s : status) : option N :=
  match s with
  | SOK => Some 0 | SPerm => Some 1 | SNoEnt => Some 2 | SIO => Some 5 | SWrongType => Some 9
  | SExist => Some 17 | SXDev => Some 18 | SNotDir => Some 20 | SIsDir => Some 21 | SInval => Some 22
  | SNotEmpty => Some 39 | SSymlink => Some 95 | SStale => Some 116
  | _ => None
  end%N.

(* What the adapter makes of a fuse.Status. *)
Definition fuse_status (e : N) : status :=
  match e with
  | 0 => SOK | 1 => SPerm | 2 => SNoEnt | 5 => SIO | 9 => SWrongType
  | 17 => SExist | 18 => SXDev | 20 => SNotDir | 21 => SIsDir | 22 => SInval
  | 39 => SNotEmpty | 95 => SSymlink | 116 => SStale
  | _ => SOther
  end%N.

(* toNFSv4Status (nfs40_program.go), nfsstat4 values. *)
Definition nfs_stat (s : status) : option N :=
  match s with
  | SOK => Some 0 | SPerm => Some 1 | SNoEnt => Some 2 | SIO => Some 5
  | SExist => Some 17 | SXDev => Some 18 | SNotDir => Some 20 | SIsDir => Some 21 | SInval => Some 22
  | SNotEmpty => Some 66 | SStale => Some 70 | SSymlink => Some 10029 | SWrongType => Some 10083
  | _ => None
  end%N.

Definition nfs_status (e : N) : status :=
  match e with
  | 0 => SOK | 1 => SPerm | 2 => SNoEnt | 5 => SIO
  | 17 => SExist | 18 => SXDev | 20 => SNotDir | 21 => SIsDir | 22 => SInval
  | 66 => SNotEmpty | 70 => SStale | 10029 => SSymlink | 10083 => SWrongType
  | _ => SOther
  end%N.

(* ---- directory offsets --------------------------------------------------------- *)

(* Both front ends reserve the first two positions of every directory
   stream ("." and ".." for FUSE: dotDotEntriesCount; lastReservedCookie
   for NFSv4) and shift the cookies of VirtualReadDir by that amount.  An
   offset inside the reserved range resumes at cookie 0. *)
Definition reserved : N := 2.
Definition off_of_cookie (c : N) : N := (c + reserved)%N.
Definition cookie_of_off (o : N) : N := (o - reserved)%N.

(* ---- the case record of a front-end history ------------------------------------- *)

(* [fc_front]: "" (direct API), "fuse", "nfs41" or "nfs40".  [fc_proto]: what the
   adapter could not canonicalise because the front end broke its own
   protocol (step, what): a Forget that does not balance the lookups
   handed out, reserved entries other than "." "..", an inode / file
   handle that was never allocated, a directory entry type that is not the
   object's type, attribute bitmaps other than the requested ones.  Entries
   that start with "C14:" are reported under that name: a call that did
   not return within the harness' watchdog ("C14:call-blocked-forever:
   <method>"; every call of the model returns), for histories of any front
   end, the direct API included. *)
Record fcase := mkFCase {
  fc_front : string;
  fc_case : case;
  fc_proto : list (nat * string) }.

Definition known_signature : string := "C13:rename-into-own-descendant".

Definition nat_str (n : nat) : string := NilEmpty.string_of_uint (Nat.to_uint n).

(* Violation kinds of a front-end history carry the front end as a suffix
   ("C13:status:VirtualRename@fuse"); the driver splits kinds at the last
   '@' into kind and step, so the step follows once more.  The known
   finding keeps its signature whatever the front end. *)
Definition suffix (front : string) (i : nat) : string := "@" ++ front ++ "@" ++ nat_str i.

Definition relabel (front : string) (v : verdict) : verdict :=
  if String.eqb front "" then v else
  match v with
  | VOk => VOk
  | VMismatch i w => VMismatch i (w ++ " @" ++ front)
  | VViolation i k => if String.eqb k known_signature then v else VViolation i (k ++ suffix front i)
  end.

Definition step_suffix (front : string) (i : nat) : string :=
  if String.eqb front "" then "@" ++ nat_str i else suffix front i.

Definition proto_kind (front : string) (i : nat) (k : string) : string :=
  (if String.prefix "C14:" k then k else "C13:front:" ++ k) ++ step_suffix front i.

(* The first entry of [fc_proto] against the verdict of [check_case]: the
   earlier one is reported; at the same step both are (the driver reads
   "kind@step;kind@step" as several kinds, each filtered by property). *)
Definition check_fcase (fc : fcase) : verdict :=
  let v := relabel (fc_front fc) (check_case (fc_case fc)) in
  match fc_proto fc with
  | [] => v
  | (i, k) :: _ =>
    let pk := proto_kind (fc_front fc) i k in
    match v with
    | VViolation j vk =>
      if Nat.ltb j i then v else
      if Nat.eqb j i then VViolation i (vk ++ ";" ++ pk) else VViolation i pk
    | _ => VViolation i pk
    end
  end.
