(* C13 through the FUSE and NFSv4 front ends: the assumptions of the
   adapter (Front.v) as theorems, and nothing else.  The property theorems
   themselves are in Properties.v; the predicate evaluated on front-end
   traces is the same p_step (Front.check_fcase = relabelled
   Corr.check_case). *)
From Coq Require Import FinFun.
From VF Require Import Dir.Model Dir.Spec Dir.Listing Dir.Front Dir.FrontProofs.
Open Scope string_scope.

(* Decoding a fuse.Status / nfsstat4 inverts toFUSEStatus / toNFSv4Status
   on every status the directory code can return ... *)
Theorem front_status_decoding : forall s e,
  (fuse_errno s = Some e -> fuse_status e = s) /\ (nfs_stat s = Some e -> nfs_status e = s).
Proof. exact (fun s e => conj (fuse_status_errno_l s e) (nfs_status_stat_l s e)). Qed.
Print Assumptions front_status_decoding.

(* ... hence the status mapping of either front end is injective: two
   different model statuses never arrive as the same number. *)
Theorem front_status_injective : forall a b e,
  (fuse_errno a = Some e -> fuse_errno b = Some e -> a = b) /\
  (nfs_stat a = Some e -> nfs_stat b = Some e -> a = b).
Proof. exact (fun a b e => conj (fuse_errno_inj_l a b e) (nfs_stat_inj_l a b e)). Qed.
Print Assumptions front_status_injective.

(* Offsets are a strictly monotone (so injective) image of cookies, the
   adapter's decoding inverts it, offsets of real entries lie beyond the
   reserved positions and the reserved positions resume at cookie 0. *)
Theorem front_offsets : forall a b,
  ((a < b)%N -> (off_of_cookie a < off_of_cookie b)%N) /\
  (off_of_cookie a = off_of_cookie b -> a = b) /\
  cookie_of_off (off_of_cookie a) = a /\
  ((0 < a)%N -> (reserved < off_of_cookie a)%N) /\
  ((a <= reserved)%N -> cookie_of_off a = 0%N).
Proof.
  exact (fun a b => conj (off_mono_l a b) (conj (off_inj_l a b) (conj (cookie_off_l a)
         (conj (off_beyond_reserved_l a) (cookie_reserved_l a))))).
Qed.
Print Assumptions front_offsets.

(* A listing addressed by offsets is the offset image of the model's
   listing addressed by cookies: same final state, same pages entry by
   entry, same end-of-directory flag. *)
Theorem front_listing_transfers : forall norm hidden segs st x off,
  flisting norm hidden st x off segs =
  (let '(st', pages, fin) := listing norm hidden st x (cookie_of_off off) segs in
   (st', map (map to_front) pages, fin)).
Proof. exact flisting_listing_l. Qed.
Print Assumptions front_listing_transfers.

(* readdir_complete, for listings as the kernel or an NFS client performs
   them: after any history, listing directory x page by page from an
   offset in the reserved range, every page resumed at the offset of the
   last entry received, arbitrary operations in between: no offset is
   handed out twice, none collides with "." / "..", and if the last page
   is short every visible entry attached before the first page and still
   attached at the last was delivered (at the offset of its cookie). *)
Theorem front_readdir_complete : forall norm hidden ops0 x off0 segs d0,
  let st0 := run norm hidden init_state ops0 in
  get_dir st0 x = Some d0 -> segs <> [] -> (off0 <= reserved)%N ->
  let stf := fst (fst (flisting norm hidden st0 x off0 segs)) in
  let all := concat (snd (fst (flisting norm hidden st0 x off0 segs))) in
  NoDup (map f_off all) /\
  (forall f, In f all -> (reserved < f_off f)%N) /\
  (snd (flisting norm hidden st0 x off0 segs) = true ->
   forall df e, get_dir stf x = Some df -> In e (d_entries d0) -> In e (d_entries df) ->
     visible hidden e = true ->
     exists f, In f all /\ f_off f = off_of_cookie (e_cookie e + 1) /\ f_name f = e_name e /\ f_child f = e_child e).
Proof. exact front_readdir_complete_l. Qed.
Print Assumptions front_readdir_complete.
