(* readdir_complete: the listing-session part of P holds along every model
   trace.  The invariant of a session on directory x started at operation
   t0: every entry of x that is older than t0 and visible, and whose
   resume cookie does not exceed some cookie already reported, has been
   reported.  It survives arbitrary operations because entries older than
   the current operation are never (re)attached, and a page extends it
   because cookies increase strictly along the entry list. *)
From Coq Require Import Lia ZifyBool ZifyN ZifyNat.
From VF Require Import Dir.Model Dir.Spec Dir.Abs Dir.Refine Dir.WF Dir.Rec Dir.Step Dir.Evolve Dir.ChangeId.
Open Scope string_scope.

Section RD.
Variable norm : string -> string.
Variable hidden : string -> bool.

Definition tup (e : entry) : N * string * child := ((e_cookie e + 1)%N, norm (e_name e), e_child e).
Definition covered (rep : list (N * string * child)) (e : entry) : Prop := In (tup e) rep.

Definition sess_ok (st : state) (x : nat) (se : session) : Prop :=
  se_start se <= st_clock st /\
  exists d, get_dir st x = Some d /\
    forall e, In e (d_entries d) -> e_birth e < se_start se -> visible hidden e = true ->
      forall t, In t (se_rep se) -> (e_cookie e + 1 <= fst (fst t))%N -> covered (se_rep se) e.

Definition SessInv (st : state) (ss : list (nat * session)) : Prop :=
  forall x se, get_sess ss x = Some se -> sess_ok st x se.

(* ---- session table ---------------------------------------------------------------------- *)

Lemma get_drop ss x y : get_sess (drop_sess ss x) y = if Nat.eqb y x then None else get_sess ss y.
Proof.
  unfold drop_sess. induction ss as [|[z se] t IH]; cbn.
  - now destruct (Nat.eqb y x).
  - destruct (Nat.eqb z x) eqn:Ezx; cbn.
    + rewrite IH. destruct (Nat.eqb y x) eqn:Eyx; auto.
      destruct (Nat.eqb y z) eqn:Eyz; auto.
      apply Nat.eqb_eq in Ezx, Eyz. subst. now rewrite Nat.eqb_refl in Eyx.
    + rewrite IH. destruct (Nat.eqb y z) eqn:Eyz; auto.
      destruct (Nat.eqb y x) eqn:Eyx; auto.
      apply Nat.eqb_eq in Eyz, Eyx. subst. now rewrite Nat.eqb_refl in Ezx.
Qed.

Lemma get_put ss x se y : get_sess (put_sess ss x se) y = if Nat.eqb y x then Some se else get_sess ss y.
Proof. unfold put_sess. cbn. rewrite get_drop. destruct (Nat.eqb y x); auto. Qed.

(* ---- sessions survive operations ------------------------------------------------------------ *)

Lemma SessInv_step st st' ss :
  WF norm (st_clock st) st -> EVA (st_clock st) st st' -> st_clock st <= st_clock st' ->
  SessInv st ss -> SessInv st' ss.
Proof.
  intros W Hev Hc H x se Hg. destruct (H x se Hg) as [J1 [d [Hd J3]]].
  destruct (Hev x d Hd) as [d' [Hd' [_ Hsub _]]].
  split; [lia|]. exists d'. split; auto.
  intros e He Hb Hv t Ht Hle. apply (J3 e) with (t := t); auto. apply Hsub; auto. lia.
Qed.

(* ---- cookies along the entry list -------------------------------------------------------------- *)

Lemma seek_in first es hi e :
  csorted es hi -> In e es -> (first <= e_cookie e)%N -> In e (seek first es).
Proof.
  induction es as [|a t IH]; cbn; [tauto|]. intros [H1 [H2 H3]] Hin Hle.
  destruct (first <=? e_cookie a)%N eqn:E; [exact Hin|].
  destruct Hin as [->|Hin]; [lia|]. now apply IH.
Qed.

Lemma seek_ge first es e : In e (seek first es) -> forall hi, csorted es hi -> (first <= e_cookie e)%N.
Proof.
  induction es as [|a t IH]; cbn; [tauto|]. intros Hin hi [H1 [H2 H3]].
  destruct (first <=? e_cookie a)%N eqn:E.
  - destruct Hin as [->|Hin]; [lia|]. specialize (H1 e Hin). lia.
  - eapply IH; eauto.
Qed.

Lemma csorted_sub es' es hi : sub es' es -> csorted es hi -> csorted es' hi.
Proof.
  induction 1; cbn; auto.
  - intros [H1 [H2 H3]]. auto.
  - intros [H1 [H2 H3]]. repeat split; auto. intros e' He'. apply H1. eapply sub_in; eauto.
Qed.

Lemma firstn_in_sorted n : forall l hi e et,
  csorted l hi -> In et (firstn n l) -> In e l -> (e_cookie e <= e_cookie et)%N -> In e (firstn n l).
Proof.
  induction n as [|n IH]; intros l hi e et Hs Het He Hle; [destruct Het|].
  destruct l as [|a t]; [destruct He|]. cbn [firstn] in *. destruct Hs as [H1 [H2 H3]].
  destruct He as [->|He]; [now left|].
  destruct Het as [->|Het].
  - specialize (H1 e He). lia.
  - right. eapply IH; eauto.
Qed.

Lemma firstn_all {A} n (l : list A) : length (firstn n l) < n -> firstn n l = l.
Proof.
  revert l; induction n as [|n IH]; intros l H; [cbn in H; lia|].
  destruct l as [|a t]; auto. cbn in *. f_equal. apply IH. lia.
Qed.

Lemma increasing_sorted first es hi :
  csorted es hi -> (forall e, In e es -> (first <= e_cookie e)%N) ->
  increasing_from first (map (fun e => (e_cookie e + 1)%N) es) = true.
Proof.
  revert first. induction es as [|a t IH]; intros first Hs Hge; cbn; auto.
  destruct Hs as [H1 [H2 H3]]. apply andb_true_intro. split.
  - apply N.ltb_lt. specialize (Hge a (or_introl eq_refl)). lia.
  - apply IH; auto. intros e He. specialize (H1 e He). lia.
Qed.

(* ---- one page ------------------------------------------------------------------------------------- *)

Definition selected (d : dir) (first : N) (page : nat) : list entry :=
  firstn page (filter (visible hidden) (seek first (d_entries d))).

Lemma page_entries_model st d first page :
  page_entries norm (out_list (map (report st) (selected d first page))) = map tup (selected d first page).
Proof. unfold page_entries, out_list. cbn [o_entries]. rewrite map_map. reflexivity. Qed.

Lemma selected_sub d first page : sub (selected d first page) (d_entries d).
Proof.
  unfold selected. eapply sub_trans; [apply sub_firstn|]. eapply sub_trans; [apply sub_filter|apply sub_seek].
Qed.

Lemma selected_covers d first page e et :
  csorted (d_entries d) (d_change d) ->
  In e (d_entries d) -> visible hidden e = true -> (first <= e_cookie e)%N ->
  In et (selected d first page) -> (e_cookie e <= e_cookie et)%N ->
  In e (selected d first page).
Proof.
  intros Hs He Hv Hge Het Hle. unfold selected in *.
  eapply firstn_in_sorted; eauto.
  - eapply csorted_sub; [|exact Hs]. eapply sub_trans; [apply sub_filter|apply sub_seek].
  - apply filter_In. split; auto. eapply seek_in; eauto.
Qed.

Lemma selected_complete d first page e :
  csorted (d_entries d) (d_change d) ->
  length (selected d first page) < page ->
  In e (d_entries d) -> visible hidden e = true -> (first <= e_cookie e)%N ->
  In e (selected d first page).
Proof.
  intros Hs Hlen He Hv Hge. unfold selected in *. rewrite firstn_all by auto.
  apply filter_In. split; auto. eapply seek_in; eauto.
Qed.

Lemma readdir_check_model c st ss x first page :
  WF norm c st -> SessInv st ss ->
  let r := snd (v_readdir hidden st x first page) in
  snd (readdir_check norm hidden ss (abs st) x first page r) = "" /\
  SessInv (tick (S (st_clock st)) (init st x)) (fst (readdir_check norm hidden ss (abs st) x first page r)).
Proof.
  intros W HS r.
  assert (SessInv (tick (S (st_clock st)) (init st x)) ss) as HS0.
  { intros y se Hg. destruct (HS y se Hg) as [J1 [d [Hd J3]]]. split; [cbn; lia|].
    cbn [tick]. change (get_dir (tick (S (st_clock st)) (init st x)) y) with (get_dir (init st x) y).
    rewrite get_dir_init. destruct (Nat.eqb y x); rewrite Hd; cbn; eauto. }
  unfold readdir_check, r, v_readdir.
  destruct (get_dir (init st x) x) as [d|] eqn:Ed; cbn [snd o_status out_s out_list status_eqb negb]; [|split; auto].
  fold (selected d first page). rewrite page_entries_model.
  pose proof (WF_init norm c st x W x d Ed) as Hok.
  pose proof (ok_cookies _ _ _ _ _ Hok) as Hcs.
  assert (forall e, In e (selected d first page) -> In e (d_entries d)) as Hsel
    by (intros e; apply sub_in, selected_sub).
  (* cookies of the page increase from [first] *)
  rewrite map_map. cbn [tup fst].
  rewrite (increasing_sorted first (selected d first page) (d_change d)); cbn [negb].
  2:{ eapply csorted_sub; [apply selected_sub|exact Hcs]. }
  2:{ intros e He. unfold selected in He. apply (sub_in _ _ _ (sub_firstn _ _)) in He.
      apply filter_In in He as [He _]. eapply seek_ge; eauto. }
  (* which listing is being continued *)
  set (base := if (first =? 0)%N then Some (mkSess (ss_clock (abs st)) []) else _).
  assert (match base with
          | None => True
          | Some se =>
            se_start se <= st_clock st /\
            (forall e, In e (d_entries d) -> e_birth e < se_start se -> visible hidden e = true ->
               forall t, In t (se_rep se) -> (e_cookie e + 1 <= fst (fst t))%N -> covered (se_rep se) e) /\
            (forall e, In e (d_entries d) -> e_birth e < se_start se -> visible hidden e = true ->
               (e_cookie e < first)%N -> covered (se_rep se) e)
          end) as Hbase.
  { unfold base. destruct (first =? 0)%N eqn:E0.
    - apply N.eqb_eq in E0. subst first. cbn [se_start se_rep]. rewrite abs_clock. split; [lia|]. split.
      + intros ? _ _ _ ? [].
      + intros; lia.
    - destruct (get_sess ss x) as [se|] eqn:Eg; auto.
      destruct (existsb (fun t => N.eqb (fst (fst t)) first) (se_rep se)) eqn:Ex; auto.
      destruct (HS x se Eg) as [J1 [d0 [Hd0 J3]]]. cbn [se_start se_rep].
      assert (d_entries d = d_entries d0) as Een.
      { apply init_entries in Ed as [d1 [A1 [A2 _]]]. rewrite Hd0 in A1. injection A1 as <-. auto. }
      rewrite Een. split; auto.
      assert (forall e t, In e (d_entries d0) -> e_birth e < se_start se -> visible hidden e = true ->
                In t (se_rep se) -> (fst (fst t) <= first)%N -> (e_cookie e + 1 <= fst (fst t))%N ->
                In (tup e) (filter (fun t => (fst (fst t) <=? first)%N) (se_rep se))) as Hf.
      { intros e t He Hb Hv Ht Htf Hle. apply filter_In. split.
        - eapply J3; eauto.
        - cbn [tup fst]. apply N.leb_le. lia. }
      split.
      + intros e He Hb Hv t Ht Hle. apply filter_In in Ht as [Ht Htf]. apply N.leb_le in Htf.
        eapply Hf; eauto.
      + intros e He Hb Hv Hlt. apply existsb_exists in Ex as [t [Ht Hteq]]. apply N.eqb_eq in Hteq.
        eapply (Hf e t); eauto; lia. }
  destruct base as [se|]; cbn [fst snd].
  2:{ split; auto. intros y se Hg. rewrite get_drop in Hg. destruct (Nat.eqb y x); [discriminate|]. now apply HS0. }
  destruct Hbase as [B1 [B2 B3]].
  set (rep1 := (se_rep se ++ map tup (selected d first page))%list).
  assert (forall e, In e (d_entries d) -> e_birth e < se_start se -> visible hidden e = true ->
            forall t, In t rep1 -> (e_cookie e + 1 <= fst (fst t))%N -> In (tup e) rep1) as Hcov.
  { intros e He Hb Hv t Ht Hle. unfold rep1 in *. apply in_or_app. apply in_app_or in Ht as [Ht|Ht].
    - left. eapply B2; eauto.
    - apply in_map_iff in Ht as [et [<- Het]]. cbn [tup fst] in Hle.
      destruct (N.lt_ge_cases (e_cookie e) first) as [Hlt|Hge].
      + left. now apply B3.
      + right. apply in_map. eapply selected_covers; eauto. lia. }
  assert (SessInv (tick (S (st_clock st)) (init st x)) (put_sess ss x (mkSess (se_start se) rep1))) as HS1.
  { intros y se' Hg. rewrite get_put in Hg. destruct (Nat.eqb y x) eqn:Eyx; [|now apply HS0].
    apply Nat.eqb_eq in Eyx. subst y. injection Hg as <-. cbn [se_start se_rep].
    split; [cbn; lia|]. exists d. split; [exact Ed|]. exact Hcov. }
  rewrite map_length.
  destruct (Nat.ltb (length (selected d first page)) page) eqn:Elt; cbn [andb fst snd]; [|split; auto].
  apply Nat.ltb_lt in Elt.
  rewrite sget_abs. rewrite get_dir_init_same in Ed.
  destruct (get_dir st x) as [d0|] eqn:Ed0; [|discriminate]. injection Ed as <-. cbn [option_map].
  match goal with |- context [forallb ?f ?l] => assert (forallb f l = true) as -> end; [|cbn; split; auto].
  apply forallb_forall. intros p Hp. unfold old_shown in Hp. apply filter_In in Hp as [Hp Hp2].
  cbn [abs_dir sd_map] in Hp. apply in_map_iff in Hp as [e [<- He]].
  cbn [abs_entry snd sb_birth] in Hp2. apply andb_prop in Hp2 as [Hb Hv]. apply Nat.ltb_lt in Hb.
  change (shown hidden (snd (abs_entry e))) with (visible hidden e) in Hv.
  cbn [initialise d_entries d_change] in *.
  assert (In (tup e) rep1) as Hin.
  { destruct (N.lt_ge_cases (e_cookie e) first) as [Hlt|Hge].
    - unfold rep1. apply in_or_app. left. now apply B3.
    - unfold rep1. apply in_or_app. right. apply in_map. eapply selected_complete; eauto. }
  unfold was_reported. apply existsb_exists. exists (tup e). split; auto.
  cbn [tup snd fst abs_entry sb_child]. rewrite child_eqb_refl, andb_true_r.
  apply String.eqb_eq. symmetry. eapply ok_norm; eauto.
Qed.

End RD.
