(* How one operation changes a directory: either nothing (same entries,
   same change counter), or the counter grows and an old entry is gone or
   an entry born in this very operation is present.  This is what
   changeid_strict and readdir_complete rest on. *)
From Coq Require Import Lia ZifyBool ZifyN ZifyNat.
From VF Require Import Dir.Model Dir.Spec Dir.Abs Dir.Refine Dir.WF Dir.Rec.
Open Scope string_scope.

Section Ev.
Variable c : nat.   (* index of the current operation = birth stamp of new entries *)

Definition lost (d d' : dir) : Prop := exists e, In e (d_entries d) /\ ~ In e (d_entries d').
Definition gained (d' : dir) : Prop := exists e, In e (d_entries d') /\ e_birth e = c.
Definition same (d d' : dir) : Prop := d_entries d' = d_entries d /\ d_change d' = d_change d.

(* Only detaching so far. *)
Record evD (d d' : dir) : Prop := mkEvD {
  evD_le : (d_change d <= d_change d')%N;
  evD_sub : forall e, In e (d_entries d') -> In e (d_entries d);
  evD_ph : same d d' \/ ((d_change d < d_change d')%N /\ lost d d') }.

(* Detaching, then attaching. *)
Record evA (d d' : dir) : Prop := mkEvA {
  evA_le : (d_change d <= d_change d')%N;
  evA_sub : forall e, In e (d_entries d') -> e_birth e < c -> In e (d_entries d);
  evA_ph : same d d' \/ ((d_change d < d_change d')%N /\ (lost d d' \/ gained d')) }.

Lemma evD_refl d : evD d d.
Proof. constructor; auto; [lia|left; split; auto]. Qed.

Lemma evD_evA d d' : evD d d' -> evA d d'.
Proof. intros [H1 H2 H3]. constructor; auto. destruct H3 as [H3|[H3 H4]]; auto. Qed.

Lemma evD_keep d d1 d2 :
  d_entries d2 = d_entries d1 -> d_change d2 = d_change d1 -> evD d d1 -> evD d d2.
Proof.
  intros E1 E2 [H1 H2 H3]. constructor; rewrite ?E1, ?E2; auto.
  destruct H3 as [[S1 S2]|[H3 [e [L1 L2]]]]; [left; split; congruence|right; split; auto].
  exists e. now rewrite E1.
Qed.

Lemma evA_keep d d1 d2 :
  d_entries d2 = d_entries d1 -> d_change d2 = d_change d1 -> evA d d1 -> evA d d2.
Proof.
  intros E1 E2 [H1 H2 H3]. constructor; rewrite ?E1, ?E2; auto.
  destruct H3 as [[S1 S2]|[H3 H4]]; [left; split; congruence|right; split; auto].
  destruct H4 as [[e [L1 L2]]|[e [G1 G2]]]; [left|right]; exists e; now rewrite E1.
Qed.

Lemma evD_detach d d1 k :
  evD d d1 -> find_entry k (d_entries d1) <> None -> evD d (detach k d1).
Proof.
  intros [H1 H2 H3] Hp. destruct (find_entry k (d_entries d1)) as [e0|] eqn:F; [|congruence].
  apply find_entry_some in F as [F1 F2].
  constructor; unfold detach; cbn.
  - lia.
  - intros e He. apply filter_In in He as [He _]. auto.
  - right. split; [lia|]. exists e0. split; auto. intros Hin. apply filter_In in Hin as [_ Hin].
    rewrite F2, String.eqb_refl in Hin. discriminate.
Qed.

(* Emptying a directory: counter grows by the number of entries. *)
Lemma evD_clear d d1 d2 :
  d_entries d2 = [] -> d_change d2 = (d_change d1 + N.of_nat (length (d_entries d1)))%N ->
  evD d d1 -> evD d d2.
Proof.
  intros E1 E2 [H1 H2 H3]. constructor.
  - lia.
  - rewrite E1. intros e [].
  - destruct (d_entries d1) as [|e0 t] eqn:Es; cbn [length] in E2.
    + destruct H3 as [[S1 S2]|[H3 [e [L1 L2]]]].
      * left. split; [congruence|]. lia.
      * right. split; [lia|]. exists e. split; auto. now rewrite E1.
    + right. split; [lia|]. exists e0. split; [apply H2; now left|now rewrite E1].
Qed.

Lemma evA_attach d d1 n k ch : evA d d1 -> evA d (attach c n k ch d1).
Proof.
  intros [H1 H2 H3]. constructor; unfold attach; cbn.
  - lia.
  - intros e He Hb. apply in_app_or in He as [He|[<-|[]]]; auto. cbn in Hb. lia.
  - right. split; [lia|]. right. eexists. split; [apply in_or_app; right; now left|]. reflexivity.
Qed.

Lemma evA_clear_lost d d1 d2 :
  d_entries d2 = [] -> d_change d2 = (d_change d1 + N.of_nat (length (d_entries d1)))%N ->
  evA d d1 -> (d_change d < d_change d1)%N -> lost d d1 -> evA d d2.
Proof.
  intros E1 E2 [H1 H2 H3] Hlt [e [L1 L2]]. constructor; rewrite ?E1, ?E2.
  - lia.
  - intros ? [].
  - right. split; [lia|]. left. exists e. split; auto. now rewrite E1.
Qed.

End Ev.

(* ---- states ------------------------------------------------------------------------- *)

Definition rel_states (R : dir -> dir -> Prop) (st st' : state) : Prop :=
  forall x d, get_dir st x = Some d -> exists d', get_dir st' x = Some d' /\ R d d'.

Definition EVD := rel_states evD.
Definition EVA c := rel_states (evA c).

Lemma rel_refl (R : dir -> dir -> Prop) st : (forall d, R d d) -> rel_states R st st.
Proof. intros H x d Hd. eauto. Qed.

Lemma rel_weaken (R R' : dir -> dir -> Prop) st st' :
  (forall d d', R d d' -> R' d d') -> rel_states R st st' -> rel_states R' st st'.
Proof. intros H H1 x d Hd. destruct (H1 x d Hd) as [d' [A B]]. eauto. Qed.

Lemma rel_mod_dir (R : dir -> dir -> Prop) st st1 x f :
  rel_states R st st1 ->
  (forall d d1, get_dir st x = Some d -> get_dir st1 x = Some d1 -> R d d1 -> R d (f d1)) ->
  rel_states R st (mod_dir st1 x f).
Proof.
  intros H Hf y d Hd. destruct (H y d Hd) as [d1 [A B]]. rewrite get_dir_mod_dir.
  destruct (Nat.eqb y x) eqn:E; [|eauto]. apply Nat.eqb_eq in E; subst y.
  rewrite A. cbn. eauto.
Qed.

Lemma rel_mod_leaf (R : dir -> dir -> Prop) st st1 l f : rel_states R st st1 -> rel_states R st (mod_leaf st1 l f).
Proof. intros H y d Hd. rewrite get_dir_mod_leaf. auto. Qed.

Lemma rel_add_leaf (R : dir -> dir -> Prop) st st1 lf : rel_states R st st1 -> rel_states R st (fst (add_leaf st1 lf)).
Proof. intros H y d Hd. destruct (H y d Hd) as [d1 [A B]]. exists d1. split; auto. Qed.

Lemma rel_add_dir (R : dir -> dir -> Prop) st st1 d0 : rel_states R st st1 -> rel_states R st (fst (add_dir st1 d0)).
Proof. intros H y d Hd. destruct (H y d Hd) as [d1 [A B]]. erewrite get_dir_add_dir_old; eauto. Qed.

Lemma rel_keep (R : dir -> dir -> Prop) st st1 x f :
  (forall d d1 d2, d_entries d2 = d_entries d1 -> d_change d2 = d_change d1 -> R d d1 -> R d d2) ->
  (forall d, d_entries (f d) = d_entries d /\ d_change (f d) = d_change d) ->
  rel_states R st st1 -> rel_states R st (mod_dir st1 x f).
Proof.
  intros Hk Hf H. apply rel_mod_dir; auto. intros d d1 _ _ HR. destruct (Hf d1). eapply Hk; eauto.
Qed.

Lemma EVD_init st st1 x : EVD st st1 -> EVD st (init st1 x).
Proof. apply rel_keep; [apply evD_keep|]. intros d; split; reflexivity. Qed.

Lemma EVA_init c st st1 x : EVA c st st1 -> EVA c st (init st1 x).
Proof. apply rel_keep; [apply evA_keep|]. intros d; split; reflexivity. Qed.

Lemma EVD_EVA c st st1 : EVD st st1 -> EVA c st st1.
Proof. apply rel_weaken. apply evD_evA. Qed.

Lemma EVD_refl st : EVD st st.
Proof. apply rel_refl. apply evD_refl. Qed.

(* The key is bound in directory [x] right now (or [x] does not exist). *)
Definition present (st : state) (x : nat) (k : string) : Prop :=
  forall d, get_dir st x = Some d -> find_entry k (d_entries d) <> None.

Lemma EVD_detach st st1 x k : EVD st st1 -> present st1 x k -> EVD st (mod_dir st1 x (detach k)).
Proof. intros H Hp. apply rel_mod_dir; auto. intros d d1 _ Hd1 HR. apply evD_detach; auto. Qed.

Lemma EVA_attach c st st1 x n k ch : EVA c st st1 -> EVA c st (mod_dir st1 x (attach c n k ch)).
Proof. intros H. apply rel_mod_dir; auto. intros d d1 _ _ HR. now apply evA_attach. Qed.

(* A function that empties a directory, counting every entry. *)
Definition clears (f : dir -> dir) (d : dir) : Prop :=
  d_entries (f d) = [] /\ d_change (f d) = (d_change d + N.of_nat (length (d_entries d)))%N.

Lemma EVD_clear st st1 x f :
  EVD st st1 -> (forall d1, get_dir st1 x = Some d1 -> clears f d1) -> EVD st (mod_dir st1 x f).
Proof.
  intros H Hf. apply rel_mod_dir; auto. intros d d1 _ Hd1 HR. destruct (Hf d1 Hd1). eapply evD_clear; eauto.
Qed.

Lemma EVD_unlink st st1 l : EVD st st1 -> EVD st (unlink st1 l).
Proof. apply rel_mod_leaf. Qed.

Lemma EVD_fold_unlink st es : forall st1, EVD st st1 ->
  EVD st (fold_left (fun s e => match e_child e with CLeaf l => unlink s l | CDir _ => s end) es st1).
Proof. induction es as [|e t IH]; intros st1 H; cbn; auto. apply IH. destruct (e_child e); auto using EVD_unlink. Qed.

Lemma get_dir_fold_unlink es x : forall st,
  get_dir (fold_left (fun s e => match e_child e with CLeaf l => unlink s l | CDir _ => s end) es st) x = get_dir st x.
Proof.
  induction es as [|e t IH]; intros st; cbn; auto. rewrite IH. destruct (e_child e); auto.
  unfold unlink. apply get_dir_mod_leaf.
Qed.

Lemma EVD_mark_deleted st st1 x : EVD st st1 -> EVD st (mark_deleted st1 x).
Proof.
  intros H. unfold mark_deleted. destruct (get_dir st1 x) as [d1|] eqn:E; auto. destruct (d_deleted d1); auto.
  apply EVD_clear; [now apply EVD_fold_unlink|]. intros d2 Hd2. split; reflexivity.
Qed.

(* ---- presence of a key ------------------------------------------------------------------- *)

Lemma present_found st x d k e :
  get_dir st x = Some d -> find_entry k (d_entries d) = Some e -> present st x k.
Proof. intros H1 H2 d' Hd'. rewrite H1 in Hd'. injection Hd' as <-. congruence. Qed.

Lemma present_mod_leaf st l f x k : present st x k -> present (mod_leaf st l f) x k.
Proof. intros H d Hd. rewrite get_dir_mod_leaf in Hd. auto. Qed.

Lemma present_mod_dir st y f x k :
  (forall d, find_entry k (d_entries d) <> None -> find_entry k (d_entries (f d)) <> None) ->
  present st x k -> present (mod_dir st y f) x k.
Proof.
  intros Hf H d Hd. rewrite get_dir_mod_dir in Hd. destruct (Nat.eqb x y); [|auto].
  destruct (get_dir st x) as [d0|] eqn:E; [|discriminate]. cbn in Hd. injection Hd as <-. apply Hf. now apply H.
Qed.

Lemma present_mod_dir_other st y f x k : x <> y -> present st x k -> present (mod_dir st y f) x k.
Proof.
  intros Hn H d Hd. rewrite get_dir_mod_dir in Hd. apply Nat.eqb_neq in Hn. rewrite Hn in Hd. auto.
Qed.

Lemma present_init st y x k : present st x k -> present (init st y) x k.
Proof. apply present_mod_dir. auto. Qed.

Lemma find_entry_filter_other k k' es :
  k' <> k -> find_entry k (filter (fun e => negb (String.eqb (e_norm e) k')) es) = find_entry k es.
Proof.
  intros Hn. unfold find_entry. induction es as [|e t IH]; cbn; auto.
  destruct (String.eqb (e_norm e) k') eqn:E1; cbn.
  - apply String.eqb_eq in E1. destruct (String.eqb (e_norm e) k) eqn:E2; auto.
    apply String.eqb_eq in E2. congruence.
  - destruct (String.eqb (e_norm e) k); auto.
Qed.

Lemma present_detach_other st x k k' : k' <> k -> present st x k -> present (mod_dir st x (detach k')) x k.
Proof.
  intros Hn. apply present_mod_dir. intros d Hd. unfold detach; cbn. now rewrite find_entry_filter_other.
Qed.

Lemma get_dir_mark_deleted_other st y x : x <> y -> get_dir (mark_deleted st y) x = get_dir st x.
Proof.
  intros Hn. unfold mark_deleted. destruct (get_dir st y) as [d|]; auto. destruct (d_deleted d); auto.
  rewrite get_dir_mod_dir. apply Nat.eqb_neq in Hn. rewrite Hn. apply get_dir_fold_unlink.
Qed.

Lemma present_mark_deleted_other st y x k : x <> y -> present st x k -> present (mark_deleted st y) x k.
Proof. intros Hn H d Hd. rewrite get_dir_mark_deleted_other in Hd; auto. Qed.

Lemma deletable_no_dir hidden d e y :
  deletable hidden d = true -> In e (d_entries d) -> e_child e = CDir y -> False.
Proof.
  unfold deletable. intros H Hin Hc. rewrite forallb_forall in H. specialize (H e Hin). rewrite Hc in H. discriminate.
Qed.

Ltac ev0 :=
  unfold EVA, EVD;
  match goal with
  | |- rel_states (evA _) ?st ?st => apply EVD_EVA, EVD_refl
  | |- rel_states evD ?st ?st => apply EVD_refl
  | |- rel_states (evA _) _ (mod_dir _ _ (attach _ _ _ _)) => apply EVA_attach; ev0
  | |- rel_states (evA _) _ (init _ _) => apply EVA_init; ev0
  | |- rel_states evD _ (init _ _) => apply EVD_init; ev0
  | |- rel_states (evA _) _ (fst (add_leaf _ _)) => apply rel_add_leaf; ev0
  | |- rel_states (evA _) _ (fst (add_dir _ _)) => apply rel_add_dir; ev0
  | |- rel_states (evA _) _ (unlink _ _) => apply rel_mod_leaf; ev0
  | |- rel_states (evA _) _ (link _ _) => apply rel_mod_leaf; ev0
  | |- rel_states (evA _) _ (mod_dir _ _ (detach _)) => apply EVD_EVA; ev0
  | |- rel_states (evA _) _ (mark_deleted _ _) => apply EVD_EVA; ev0
  | |- rel_states evD _ (mod_dir _ _ (detach _)) => apply EVD_detach; [ev0|]
  | |- rel_states evD _ (mark_deleted _ _) => apply EVD_mark_deleted; ev0
  | |- rel_states evD _ (unlink _ _) => apply EVD_unlink; ev0
  | |- rel_states evD _ (link _ _) => apply rel_mod_leaf; ev0
  end.
Ltac ev := unfold EVA, EVD; ev0.

Section EvOps.
Variable norm : string -> string.
Variable hidden : string -> bool.

Lemma init_entries st x d : get_dir (init st x) x = Some d ->
  exists d0, get_dir st x = Some d0 /\ d_entries d = d_entries d0 /\ d_change d = d_change d0.
Proof.
  rewrite get_dir_init_same. destruct (get_dir st x) as [d0|]; [|discriminate]. intros [= <-]. eauto.
Qed.

Lemma EV_v_open st x n cr ex f : EVA (st_clock st) st (fst (v_open norm st x n cr ex f)).
Proof.
  unfold v_open.
  destruct (get_dir (init st x) x) as [d|] eqn:Ed; cbn [fst]; [|ev].
  destruct (find_entry (norm n) (d_entries d)) as [e|] eqn:F.
  - destruct (negb ex); cbn [fst]; [ev|]. destruct (e_child e); cbn [fst]; [ev|].
    destruct (get_leaf (init st x) l) as [lf|]; cbn [fst]; [|ev].
    destruct (open_status (l_kind lf)); cbn [fst]; ev.
  - destruct (d_deleted d || negb cr); cbn [fst]; [ev|]. destruct f; cbn [fst]; [ev|].
    destruct (add_leaf (init st x) _) as [st1 l] eqn:E. apply add_leaf_fresh in E as [_ [_ ->]].
    cbn [fst]. rewrite clock_init. ev.
Qed.

Lemma EV_v_mkdir st x n : EVA (st_clock st) st (fst (v_mkdir norm st x n)).
Proof.
  unfold v_mkdir.
  destruct (get_dir (init st x) x) as [d|] eqn:Ed; cbn [fst]; [|ev].
  destruct (may_attach d (norm n)); cbn [fst]; try ev.
  destruct (add_dir (init st x) _) as [st1 y] eqn:E. apply add_dir_fresh in E as [_ [_ ->]].
  cbn [fst]. rewrite clock_init. ev.
Qed.

Lemma EV_v_mknod st x n k f : EVA (st_clock st) st (fst (v_mknod norm st x n k f)).
Proof.
  unfold v_mknod.
  destruct (get_dir (init st x) x) as [d|] eqn:Ed; cbn [fst]; [|ev].
  destruct (may_attach d (norm n)); cbn [fst]; try ev.
  assert (forall lk tag, EVA (st_clock st) st (fst (let '(st1, l) := add_leaf (init st x) (mkLeaf lk 1 tag) in
              let st2 := mod_dir st1 x (attach (st_clock (init st x)) n (norm n) (CLeaf l)) in
              (st2, out_child (CLeaf l) 1 tag [(d_change d, change_of st2 x)])))) as Hmk.
  { intros lk tag. destruct (add_leaf (init st x) _) as [st1 l] eqn:E. apply add_leaf_fresh in E as [_ [_ ->]].
    cbn [fst]. rewrite clock_init. ev. }
  destruct k; try apply Hmk; cbn [fst]; try ev. destruct f; [cbn [fst]; ev|apply Hmk].
Qed.

Lemma EV_v_link st x n l : EVA (st_clock st) st (fst (v_link norm st x n l)).
Proof.
  unfold v_link.
  destruct (get_leaf st l) as [lf|] eqn:El; cbn [fst]; [|ev].
  destruct (get_dir (init st x) x) as [d|] eqn:Ed; cbn [fst]; [|ev].
  destruct (may_attach d (norm n)); cbn [fst]; try ev.
  destruct (link_status lf); cbn [fst]; try ev.
  rewrite clock_init. ev.
Qed.

(* rmdir()/unlink(): the entry found is still there when it gets detached. *)
Lemma remove_present st x d k e y dy :
  get_dir (init st x) x = Some d -> find_entry k (d_entries d) = Some e -> e_child e = CDir y ->
  get_dir (init (init st x) y) y = Some dy -> deletable hidden dy = true ->
  present (mark_deleted (init (init st x) y) y) x k.
Proof.
  intros Ed F Ec Ey Hdel.
  assert (x <> y) as Hn.
  { intros ->. apply init_entries in Ey as [d0 [E0 [E1 _]]]. rewrite Ed in E0. injection E0 as <-.
    apply find_entry_some in F as [F _]. eapply deletable_no_dir; eauto. now rewrite E1. }
  apply present_mark_deleted_other; auto. apply present_init. eapply present_found; eauto.
Qed.

Lemma EV_v_remove st x n rd rl : EVA (st_clock st) st (fst (v_remove norm hidden st x n rd rl)).
Proof.
  unfold v_remove.
  destruct (get_dir (init st x) x) as [d|] eqn:Ed; cbn [fst]; [|ev].
  destruct (find_entry (norm n) (d_entries d)) as [e|] eqn:F; cbn [fst]; [|ev].
  destruct (e_child e) as [y|l] eqn:Ec.
  - destruct (negb rd); cbn [fst]; [ev|].
    destruct (get_dir (init (init st x) y) y) as [dy|] eqn:Ey; cbn [fst]; [|ev].
    destruct (deletable hidden dy) eqn:Hdel; cbn [negb fst]; [|ev].
    ev. eapply remove_present; eauto.
  - destruct (negb rl); cbn [fst]; [ev|]. ev.
    apply present_mod_leaf. eapply present_found; eauto.
Qed.

Lemma EV_remove st x n : EVD st (fst (remove norm hidden st x n)).
Proof.
  unfold remove.
  destruct (get_dir (init st x) x) as [d|] eqn:Ed; cbn [fst]; [|ev].
  destruct (find_entry (norm n) (d_entries d)) as [e|] eqn:F; cbn [fst]; [|ev].
  destruct (e_child e) as [y|l] eqn:Ec; cbn [fst].
  - destruct (get_dir (init (init st x) y) y) as [dy|] eqn:Ey; cbn [fst]; [|ev].
    destruct (deletable hidden dy) eqn:Hdel; cbn [negb fst]; [|ev].
    ev. eapply remove_present; eauto.
  - ev. apply present_mod_leaf. eapply present_found; eauto.
Qed.

Lemma find_entry_det k es e1 e2 : find_entry k es = Some e1 -> find_entry k es = Some e2 -> e1 = e2.
Proof. congruence. Qed.

Lemma EV_v_rename st x1 n1 x2 n2 : EVA (st_clock st) st (fst (v_rename norm hidden st x1 n1 x2 n2)).
Proof.
  unfold v_rename.
  set (st0 := init (init st x1) x2).
  assert (EVD st st0) as H0 by (unfold st0; ev).
  assert (st_clock st0 = st_clock st) as Hc by (unfold st0; now rewrite !clock_init).
  rewrite Hc.
  destruct (get_dir st0 x1) as [d1|] eqn:E1; cbn [fst]; [|now apply EVD_EVA].
  destruct (get_dir st0 x2) as [d2|] eqn:E2; cbn [fst]; [|now apply EVD_EVA].
  assert (forall y, present (init st0 y) x1 (norm n1) -> present st0 x1 (norm n1) -> True) as _ by auto.
  destruct (find_entry (norm n2) (d_entries d2)) as [ne|] eqn:F2.
  - destruct (find_entry (norm n1) (d_entries d1)) as [oe|] eqn:F1; cbn [fst]; [|now apply EVD_EVA].
    (* the target entry is still there after the source entry has been detached *)
    assert (e_child ne <> e_child oe -> forall s, (forall z, get_dir s z = get_dir st0 z \/
               exists dz, get_dir st0 z = Some dz /\ get_dir s z = Some (initialise dz)) ->
             present (mod_dir s x1 (detach (norm n1))) x2 (norm n2)) as Hp2.
    { intros Hne s Hs. destruct (Nat.eq_dec x2 x1) as [->|Hx].
      - apply present_detach_other.
        + intros Hk. rewrite E1 in E2. injection E2 as <-. rewrite Hk in F1. rewrite F1 in F2. congruence.
        + intros d Hd. destruct (Hs x1) as [Hz|[dz [Hz1 Hz2]]].
          * rewrite Hz, E1 in Hd. injection Hd as <-. congruence.
          * rewrite Hz2 in Hd. injection Hd as <-. rewrite E1 in Hz1. injection Hz1 as <-. cbn. congruence.
      - apply present_mod_dir_other; auto.
        intros d Hd. destruct (Hs x2) as [Hz|[dz [Hz1 Hz2]]].
        + rewrite Hz, E2 in Hd. injection Hd as <-. congruence.
        + rewrite Hz2 in Hd. injection Hd as <-. rewrite E2 in Hz1. injection Hz1 as <-. cbn. congruence. }
    destruct (e_child ne) as [nd|nl] eqn:Cn; destruct (e_child oe) as [od|ol] eqn:Co; cbn [fst]; try (now apply EVD_EVA).
    + destruct (Nat.eqb nd od) eqn:Eq; cbn [fst]; [now apply EVD_EVA|].
      destruct (get_dir (init st0 nd) nd) as [dn|]; cbn [fst]; [|apply EVD_EVA, EVD_init; exact H0].
      destruct (negb (deletable hidden dn)); cbn [fst]; [apply EVD_EVA, EVD_init; exact H0|].
      apply EVA_attach. apply EVD_EVA. apply EVD_mark_deleted. apply EVD_detach; [apply EVD_detach; [apply EVD_init; exact H0|]|].
      * apply present_init. eapply present_found; eauto.
      * apply Hp2.
        -- intros [= Hq]. subst. now rewrite Nat.eqb_refl in Eq.
        -- intros z. rewrite get_dir_init. destruct (Nat.eqb z nd) eqn:Ez; auto.
           destruct (get_dir st0 z) as [dz|] eqn:Edz; cbn; eauto.
    + destruct (Nat.eqb nl ol) eqn:Eq; cbn [fst]; [now apply EVD_EVA|].
      apply EVA_attach. apply EVD_EVA. apply EVD_unlink. apply EVD_detach; [apply EVD_detach; [exact H0|]|].
      * eapply present_found; eauto.
      * apply Hp2; auto. intros [= Hq]. subst. now rewrite Nat.eqb_refl in Eq.
  - destruct (d_deleted d2); cbn [fst]; [now apply EVD_EVA|].
    destruct (find_entry (norm n1) (d_entries d1)) as [oe|] eqn:F1; cbn [fst]; [|now apply EVD_EVA].
    apply EVA_attach. apply EVD_EVA. apply EVD_detach; auto. eapply present_found; eauto.
Qed.

Lemma EV_create_and_enter st x n : EVA (st_clock st) st (fst (create_and_enter norm st x n)).
Proof.
  unfold create_and_enter.
  destruct (get_dir (init st x) x) as [d|] eqn:Ed; cbn [fst]; [|ev].
  assert (forall st0, EVA (st_clock st) st st0 ->
    EVA (st_clock st) st (fst (let '(st1, y) := add_dir st0 (new_dir (d_hooks d)) in
              (mod_dir st1 x (attach (st_clock (init st x)) n (norm n) (CDir y)), out_child (CDir y) (-1) 0 [])))) as Hmk.
  { intros st0 A. destruct (add_dir st0 _) as [st1 y] eqn:E. apply add_dir_fresh in E as [_ [_ ->]].
    cbn [fst]. rewrite clock_init. apply EVA_attach. now apply rel_add_dir. }
  destruct (find_entry (norm n) (d_entries d)) as [e|] eqn:F.
  - destruct (e_child e) as [y|l]; cbn [fst]; [ev|].
    apply Hmk. ev. eapply present_found; eauto.
  - destruct (d_deleted d); cbn [fst]; [ev|]. apply Hmk. ev.
Qed.

Lemma EV_install_hooks st x t : EVD st (fst (install_hooks st x t)).
Proof.
  unfold install_hooks. destruct (get_dir st x); cbn [fst]; [|ev].
  apply rel_keep; [apply evD_keep| |ev]. intros d0; split; reflexivity.
Qed.

End EvOps.

(* ---- recursive removal -------------------------------------------------------------------- *)

Lemma evD_trans d d1 d2 : evD d d1 -> evD d1 d2 -> evD d d2.
Proof.
  intros [A1 A2 A3] [B1 B2 B3]. constructor; [lia|auto|].
  destruct A3 as [[S1 S2]|[A3 [e [L1 L2]]]].
  - destruct B3 as [[T1 T2]|[B3 [e [L1 L2]]]].
    + left. split; congruence.
    + right. split; [lia|]. exists e. split; auto; try (now rewrite <- S1).
  - right. split; [lia|]. exists e. split; auto.
Qed.

Lemma EVD_trans st st1 st2 : EVD st st1 -> EVD st1 st2 -> EVD st st2.
Proof.
  intros H1 H2 x d Hd. destruct (H1 x d Hd) as [d1 [A B]]. destruct (H2 x d1 A) as [d2 [A' B']].
  exists d2. split; auto. eapply evD_trans; eauto.
Qed.

Section RacPres.
Variable norm : string -> string.
Variable c : nat.
Variable Rst : state -> Prop.
Hypothesis C1 : forall s z f, Rst s -> (forall d1, get_dir s z = Some d1 -> clears f d1) -> Rst (mod_dir s z f).
Hypothesis C2 : forall s l, Rst s -> Rst (unlink s l).

Lemma Rst_fold_unlink es : forall s, Rst s ->
  Rst (fold_left (fun s e => match e_child e with CLeaf l => unlink s l | CDir _ => s end) es s).
Proof. induction es as [|e t IH]; intros s H; cbn; auto. apply IH. destruct (e_child e); auto. Qed.

Lemma Rst_mark_deleted s x : Rst s -> Rst (mark_deleted s x).
Proof.
  intros H. unfold mark_deleted. destruct (get_dir s x) as [d1|] eqn:E; auto. destruct (d_deleted d1); auto.
  apply C1; [now apply Rst_fold_unlink|]. intros d2 _. split; reflexivity.
Qed.

Lemma post_remove_pres rec :
  (forall s y, WF norm c s -> Rst s -> Rst (fst (rec s y)) /\ WF norm c (fst (rec s y))) ->
  forall es s, WF norm c s -> Rst s ->
    Rst (fst (post_remove rec es s)) /\ WF norm c (fst (post_remove rec es s)).
Proof.
  intros Hrec es. induction es as [|e t IH]; intros s W H; cbn [post_remove fst]; auto.
  destruct (e_child e) as [y|l].
  - destruct (Hrec s y W H) as [R1 R2]. destruct (rec s y) as [s1 ok]. cbn [fst] in *.
    destruct (IH s1 R2 R1) as [I1 I2]. destruct (post_remove rec t s1) as [s2 ok2]. cbn [fst] in *. auto.
  - apply IH; auto. now apply WF_unlink.
Qed.

Lemma rac_pres : forall f s x ds, WF norm c s -> Rst s ->
  Rst (fst (remove_all_children f s x ds)) /\ WF norm c (fst (remove_all_children f s x ds)).
Proof.
  induction f as [|f IH]; intros s x ds W H.
  - cbn. auto.
  - split; [|apply (rac_sim norm c (S f) s x ds W)].
    unfold remove_all_children; fold remove_all_children.
    destruct (get_dir s x) as [d|] eqn:Ed; cbn [fst]; auto.
    pose proof (W x d Ed) as Hok.
    destruct (d_uninit d) eqn:Eu.
    + assert (Rst (mod_dir s x (fun d' => mkDir [] (d_deleted d') (d_change d') false (d_hooks d')))) as H1.
      { apply C1; auto. intros d1 Hd1. rewrite Ed in Hd1. injection Hd1 as <-. split; cbn; auto.
        rewrite (ok_uninit _ _ _ _ _ Hok Eu). cbn. lia. }
      destruct ds; cbn [fst]; auto using Rst_mark_deleted.
    + set (s1 := mod_dir s x _).
      assert (Rst s1) as H1 by (apply C1; auto; intros d1 _; split; reflexivity).
      assert (WF norm c s1) as W1 by (apply WF_mod_dir; auto; intros; apply dir_ok_clear).
      assert (Rst (if ds then mark_deleted s1 x else s1)) as H2 by (destruct ds; auto using Rst_mark_deleted).
      assert (WF norm c (if ds then mark_deleted s1 x else s1)) as W2 by (destruct ds; auto using WF_mark_deleted).
      apply (post_remove_pres (fun s y => remove_all_children f s y true)); auto.
Qed.

End RacPres.

Lemma rac_EVD norm c f s x ds : WF norm c s -> EVD s (fst (remove_all_children f s x ds)).
Proof.
  intros W. apply (rac_pres norm c (EVD s)); auto using EVD_refl.
  - intros s1 z g H Hg. now apply EVD_clear.
  - intros s1 l H. now apply EVD_unlink.
Qed.

Section EvRec.
Variable norm : string -> string.
Variable hidden : string -> bool.

Lemma EV_remove_all c st x n : WF norm c st -> EVD st (fst (remove_all norm st x n)).
Proof.
  intros W. unfold remove_all.
  destruct (get_dir (init st x) x) as [d|] eqn:Ed; cbn [fst]; [|ev].
  destruct (find_entry (norm n) (d_entries d)) as [e|] eqn:F; cbn [fst]; [|ev].
  assert (EVD st (mod_dir (init st x) x (detach (norm n)))) as H1.
  { ev. eapply present_found; eauto. }
  destruct (e_child e) as [y|l].
  - destruct (remove_all_children _ _ y true) as [st2 ok] eqn:Er. cbn [fst].
    eapply EVD_trans; [exact H1|]. replace st2 with (fst (remove_all_children (depth_fuel (init st x)) (mod_dir (init st x) x (detach (norm n))) y true)) by now rewrite Er.
    apply (rac_EVD norm c). auto using WF_detach, WF_init.
  - cbn [fst]. now apply EVD_unlink.
Qed.

Lemma EV_remove_all_children_op c st x fb : WF norm c st -> EVD st (fst (remove_all_children_op st x fb)).
Proof.
  intros W. unfold remove_all_children_op. destruct (get_dir st x); cbn [fst]; [|ev].
  destruct (remove_all_children _ st x fb) as [st2 ok] eqn:Er. cbn [fst].
  replace st2 with (fst (remove_all_children (depth_fuel st) st x fb)) by now rewrite Er.
  now apply (rac_EVD norm c).
Qed.

Lemma EV_filter_leaves c x rm stop : forall ls st acc, WF norm c st ->
  EVD st (fst (fst (filter_leaves norm hidden x rm stop ls st acc))).
Proof.
  induction ls as [|[n l] t IH]; intros st acc W; cbn [filter_leaves fst]; [ev|].
  destruct (match stop with Some s => Nat.eqb s l | None => false end); cbn [fst]; [ev|].
  destruct (existsb (Nat.eqb l) rm).
  - eapply EVD_trans; [apply EV_remove|]. apply IH. now apply WF_remove.
  - now apply IH.
Qed.

Lemma EV_filter_rec c rm stop rmu : forall f st x acc, WF norm c st ->
  EVD st (fst (fst (filter_rec norm hidden f rm stop rmu st x acc))).
Proof.
  induction f as [|f IH]; intros st x acc W; cbn [filter_rec fst]; [ev|].
  destruct (get_dir st x) as [d|] eqn:Ed; cbn [fst]; [|ev].
  destruct (d_uninit d).
  - cbn [fst]. destruct rmu; [|ev]. now apply (rac_EVD norm c).
  - destruct (filter_leaves_sim norm hidden c x rm stop (leaf_entries (d_entries d)) st acc W) as [_ W1].
    pose proof (EV_filter_leaves c x rm stop (leaf_entries (d_entries d)) st acc W) as E1.
    destruct (filter_leaves norm hidden x rm stop (leaf_entries (d_entries d)) st acc) as [[st1 acc1] cnt].
    cbn [fst snd] in *. destruct cnt; cbn [fst]; auto.
    eapply EVD_trans; [exact E1|]. clear E1.
    generalize (dir_entries (d_entries d)) as ds. intros ds. revert st1 acc1 W1.
    induction ds as [|y t IHd]; intros st1 acc1 W1; cbn [filter_dirs fst]; [ev|].
    destruct (filter_rec_sim norm hidden c rm stop rmu f st1 y acc1 W1) as [_ W2].
    pose proof (IH st1 y acc1 W1) as E2.
    destruct (filter_rec norm hidden f rm stop rmu st1 y acc1) as [[st2 acc2] cnt2]. cbn [fst snd] in *.
    destruct cnt2; cbn [fst]; auto. eapply EVD_trans; [exact E2|]. now apply IHd.
Qed.

Lemma EV_filter_children c st x rm stop rmu : WF norm c st ->
  EVD st (fst (filter_children norm hidden st x rm stop rmu)).
Proof.
  intros W. unfold filter_children. destruct (get_dir st x); cbn [fst]; [|ev].
  pose proof (EV_filter_rec c rm stop rmu (depth_fuel st) st x (mkFacc [] 0) W) as E.
  destruct (filter_rec norm hidden (depth_fuel st) rm stop rmu st x (mkFacc [] 0)) as [[st1 acc1] cnt]. auto.
Qed.

End EvRec.

(* ---- CreateChildren -------------------------------------------------------------------------- *)

Section EvCreate.
Variable norm : string -> string.
Variable x : nat.
Variable c : nat.

(* Everything but [x] has only been detached from. *)
Definition EVX (st s : state) : Prop :=
  forall z d, get_dir st z = Some d ->
    exists d', get_dir s z = Some d' /\ evA c d d' /\ (z <> x -> evD d d').

Lemma EVX_of_EVD st s : EVD st s -> EVX st s.
Proof. intros H z d Hd. destruct (H z d Hd) as [d' [A B]]. exists d'. auto using evD_evA. Qed.

Lemma EVX_attach st s n k ch : EVX st s -> EVX st (mod_dir s x (attach c n k ch)).
Proof.
  intros H z d Hd. destruct (H z d Hd) as [d' [A [B C]]]. rewrite get_dir_mod_dir.
  destruct (Nat.eqb z x) eqn:E.
  - apply Nat.eqb_eq in E. subst z. rewrite A. cbn. eexists. split; eauto. split; [now apply evA_attach|tauto].
  - eauto.
Qed.

Lemma EVX_add_dir st s d0 : EVX st s -> EVX st (fst (add_dir s d0)).
Proof.
  intros H z d Hd. destruct (H z d Hd) as [d' [A B]]. exists d'. split; auto. now apply get_dir_add_dir_old.
Qed.

Lemma attach_fold_EVX st rs : forall s, EVX st s -> EVX st (fold_left (attach_child norm c x) rs s).
Proof.
  induction rs as [|[n [|l]] t IH]; intros s H; cbn [fold_left attach_child]; auto.
  - destruct (add_dir s _) as [s1 y] eqn:E. apply add_dir_fresh in E as [_ [_ ->]].
    apply IH. apply EVX_attach. now apply EVX_add_dir.
  - apply IH. now apply EVX_attach.
Qed.

(* An old entry that has been detached from [x] stays away. *)
Definition gone (e0 : entry) (lo : N) (s : state) : Prop :=
  exists ds, get_dir s x = Some ds /\ ~ In e0 (d_entries ds) /\ (lo < d_change ds)%N.

Lemma gone_detach e0 lo s k : gone e0 lo s -> gone e0 lo (mod_dir s x (detach k)).
Proof.
  intros [ds [A [B C]]]. exists (detach k ds). rewrite get_dir_mod_dir_same, A. split; auto.
  unfold detach; cbn. split; [|lia]. intros Hin. apply filter_In in Hin as [Hin _]. auto.
Qed.

Lemma gone_attach e0 lo s n k ch : e_birth e0 <> c -> gone e0 lo s -> gone e0 lo (mod_dir s x (attach c n k ch)).
Proof.
  intros Hb [ds [A [B C]]]. exists (attach c n k ch ds). rewrite get_dir_mod_dir_same, A. split; auto.
  unfold attach; cbn. split; [|lia]. intros Hin. apply in_app_or in Hin as [Hin|[<-|[]]]; auto.
Qed.

Lemma gone_add_dir e0 lo s d0 : gone e0 lo s -> gone e0 lo (fst (add_dir s d0)).
Proof. intros [ds [A B]]. exists ds. split; auto. now apply get_dir_add_dir_old. Qed.

Lemma attach_fold_gone e0 lo rs : e_birth e0 <> c -> forall s, gone e0 lo s ->
  gone e0 lo (fold_left (attach_child norm c x) rs s).
Proof.
  intros Hb. induction rs as [|[n [|l]] t IH]; intros s H; cbn [fold_left attach_child]; auto.
  - destruct (add_dir s _) as [s1 y] eqn:E. apply add_dir_fresh in E as [_ [_ ->]].
    apply IH. apply gone_attach; auto. now apply gone_add_dir.
  - apply IH. now apply gone_attach.
Qed.

Variable bound : string -> bool.

Lemma detach_fold_gone_keep e0 lo ks : forall s, gone e0 lo s -> gone e0 lo (detach_fold x bound ks s).
Proof.
  unfold detach_fold. induction ks as [|k t IH]; intros s H; cbn [fold_left]; auto.
  apply IH. destruct (bound k); auto. now apply gone_detach.
Qed.

Lemma detach_fold_gone e0 lo k ks : In k ks -> bound k = true -> e_norm e0 = k ->
  forall s ds, get_dir s x = Some ds -> (lo <= d_change ds)%N -> gone e0 lo (detach_fold x bound ks s).
Proof.
  intros Hin Hb Hk. induction ks as [|k' t IH]; intros s ds Hd Hlo; [destruct Hin|].
  unfold detach_fold. cbn [fold_left]. fold (detach_fold x bound t).
  destruct Hin as [->|Hin].
  - rewrite Hb. apply detach_fold_gone_keep. exists (detach k ds). rewrite get_dir_mod_dir_same, Hd.
    split; auto. unfold detach; cbn. split; [|lia]. intros Hi. apply filter_In in Hi as [_ Hi].
    rewrite Hk, String.eqb_refl in Hi. discriminate.
  - destruct (bound k').
    + eapply (IH Hin _ (detach k' ds)); [now rewrite get_dir_mod_dir_same, Hd|]. unfold detach; cbn. lia.
    + eapply IH; eauto.
Qed.

Lemma detach_fold_EVD st ks : NoDup ks -> forall s,
  (forall k, In k ks -> bound k = true -> present s x k) -> EVD st s -> EVD st (detach_fold x bound ks s).
Proof.
  unfold detach_fold. induction 1 as [|k t Hn Hnd IH]; intros s Hp H; cbn [fold_left]; auto.
  destruct (bound k) eqn:Eb.
  - apply IH.
    + intros k' Hin Hb'. apply present_detach_other; [intros ->; tauto|]. apply Hp; auto. now right.
    + apply EVD_detach; auto. apply Hp; auto. now left.
  - apply IH; auto. intros k' Hin Hb'. apply Hp; auto. now right.
Qed.

End EvCreate.

Lemma EVD_drop st rs : forall s, EVD st s -> EVD st (drop_children s rs).
Proof.
  unfold drop_children. induction rs as [|[n [|l]] t IH]; intros s H; cbn [fold_left snd]; auto.
  apply IH. now apply EVD_unlink.
Qed.

Lemma EV_create_children norm st x cs ow :
  WF norm (st_clock st) st -> EVA (st_clock st) st (fst (create_children norm st x cs ow)).
Proof.
  intros W0. set (c := st_clock st).
  assert (WF norm (S c) st) as W by (eapply WF_mono; [|exact W0]; lia).
  unfold create_children.
  destruct (alloc_sim norm (fun _ => true) (S c) cs st W) as [_ [A2 [A3 [A4 [A5 A6]]]]].
  destruct (alloc_children st cs) as [sta rs]. cbn [fst snd] in *.
  assert (EVD st sta) as Ea.
  { intros z d Hd. exists d. split; [|apply evD_refl]. unfold get_dir in *. now rewrite A3. }
  assert (EVD st (init sta x)) as Ei by now apply EVD_init.
  assert (WF norm (S c) (init sta x)) as Wi by now apply WF_init.
  destruct (get_dir (init sta x) x) as [d|] eqn:Ed; cbn [fst]; [|now apply EVD_EVA].
  set (keys := map (fun nr : string * rchild => norm (fst nr)) rs).
  destruct (nodup_keys keys) eqn:Enk; cbn [negb fst]; [|now apply EVD_EVA].
  destruct (d_deleted d); cbn [fst]; [apply EVD_EVA; now apply EVD_drop|].
  set (bound := fun k => match find_entry k (d_entries d) with Some _ => true | None => false end).
  destruct (negb ow && existsb bound keys); cbn [fst]; [apply EVD_EVA; now apply EVD_drop|].
  fold (detach_fold x bound keys (init sta x)).
  set (st1 := detach_fold x bound keys (init sta x)).
  assert (NoDup keys) as Hnd by now apply (nodup_keys_NoDup norm (fun _ => true)).
  assert (EVD st st1) as E1.
  { apply detach_fold_EVD; auto. intros k Hin Hb. unfold bound in Hb.
    destruct (find_entry k (d_entries d)) eqn:F; [|discriminate]. eapply present_found; eauto. }
  rewrite clock_init, A4. fold c.
  set (st2 := fold_left (attach_child norm c x) (sort_by fst rs) st1).
  assert (EVX x c st st2) as E2 by (apply attach_fold_EVX; now apply EVX_of_EVD).
  set (ovw := fold_left _ keys []).
  destruct ovw as [|o1 ot] eqn:Eo.
  { cbn [post_remove fst]. intros z dz Hz. destruct (E2 z dz Hz) as [d' [B1 [B2 _]]]. eauto. }
  rewrite <- Eo.
  (* some key was bound: its entry is gone from [x] for good *)
  assert (exists k e0, In k keys /\ find_entry k (d_entries d) = Some e0) as [k [e0 [Hk F0]]].
  { assert (forall acc, fold_left (fun acc k => match find_entry k (d_entries d) with Some e => e :: acc | None => acc end) keys acc = acc \/
                       exists k e0, In k keys /\ find_entry k (d_entries d) = Some e0) as Hx.
    { clear. induction keys as [|k t IH]; intros acc; cbn [fold_left]; auto.
      destruct (find_entry k (d_entries d)) as [e|] eqn:F.
      - right. exists k, e. split; auto. now left.
      - destruct (IH acc) as [H|[k' [e' [H1 H2]]]]; auto. right. exists k', e'. split; auto. now right. }
    destruct (Hx []) as [H|H]; auto. unfold ovw in Eo. rewrite H in Eo. discriminate. }
  destruct (init_entries _ _ _ Ed) as [d0 [Ed0 [En0 Ec0]]].
  assert (get_dir st x = Some d0) as Hst by (unfold get_dir in *; now rewrite <- A3).
  pose proof (find_entry_some _ _ _ F0) as [Hin0 Hk0]. rewrite En0 in Hin0.
  assert (e_birth e0 <> c) as Hb0.
  { pose proof (ok_births _ _ _ _ _ (W0 x d0 Hst) e0 Hin0). unfold c. lia. }
  assert (gone x e0 (d_change d0) st2) as G2.
  { apply attach_fold_gone; auto. eapply detach_fold_gone with (k := k); eauto.
    - unfold bound. now rewrite F0.
    - lia. }
  (* the recursive removal of the overwritten directories *)
  set (Rst := fun s => forall z dz, get_dir st z = Some dz ->
      exists d', get_dir s z = Some d' /\ evA c dz d' /\ (z <> x -> evD dz d') /\
                 (z = x -> (d_change dz < d_change d')%N /\ lost dz d')).
  assert (Rst st2) as R2.
  { intros z dz Hz. destruct (E2 z dz Hz) as [d' [B1 [B2 B3]]]. exists d'.
    split; [exact B1|split; [exact B2|split; [exact B3|]]].
    intros ->. destruct G2 as [ds [G1 [G3 G4]]]. rewrite Hst in Hz. injection Hz as <-.
    rewrite G1 in B1. injection B1 as <-. split; auto. exists e0. auto. }
  assert (WF norm (S c) st2) as W2.
  { destruct (detach_fold_sim norm x bound (S c) keys (init sta x) Wi) as [_ [F2 [F3 [F4 F5]]]].
    destruct (detach_fold_get x bound keys (init sta x) d Ed) as [d1 Hd1].
    unfold st2. eapply attach_fold_WF; eauto.
    - eapply Permutation.Permutation_NoDup; [|exact Hnd]. apply Permutation.Permutation_map. symmetry. apply sort_by_perm.
    - intros n r Hin. eapply Permutation.Permutation_in in Hin; [|apply sort_by_perm].
      assert (In (norm n) keys) as Hkk by (unfold keys; apply (in_map (fun nr => norm (fst nr)) _ (n, r)); exact Hin).
      destruct (bound (norm n)) eqn:Ebn.
      + apply detach_fold_frees; auto. apply inited_init_self.
      + apply detach_fold_keeps. eapply attachable_found; eauto.
        * unfold bound in Ebn. destruct (find_entry (norm n) (d_entries d)); [discriminate|auto].
        * eapply init_d_uninit; eauto.
    - intros n l Hin. eapply Permutation.Permutation_in in Hin; [|apply sort_by_perm].
      fold st1 in F4. rewrite F4. unfold init. rewrite nleaves_mod_dir. eauto. }
  assert (C1 : forall s z g, Rst s -> (forall d1, get_dir s z = Some d1 -> clears g d1) -> Rst (mod_dir s z g)).
  { intros s z g Hs Hg z' dz Hz'. destruct (Hs z' dz Hz') as [d' [B1 [B2 [B3 B4]]]]. rewrite get_dir_mod_dir.
    destruct (Nat.eqb z' z) eqn:Ez; [|eauto]. apply Nat.eqb_eq in Ez. subst z'.
    rewrite B1. cbn. eexists. split; eauto. destruct (Hg d' B1) as [K1 K2].
    destruct (Nat.eq_dec z x) as [->|Hn].
    + destruct (B4 eq_refl) as [B5 B6]. split; [eapply evA_clear_lost; eauto|]. split; [tauto|].
      intros _. split; [lia|]. destruct B6 as [e [L1 L2]]. exists e. split; auto. now rewrite K1.
    + pose proof (evD_clear _ _ _ K1 K2 (B3 Hn)) as B3'. split; [now apply evD_evA|]. split; auto. tauto. }
  assert (C2 : forall s l, Rst s -> Rst (unlink s l)).
  { intros s l Hs z' dz Hz'. destruct (Hs z' dz Hz') as [d' [B1 B2]]. exists d'. split; auto.
    unfold unlink. now rewrite get_dir_mod_leaf. }
  pose proof (post_remove_pres norm (S c) Rst C2
                (fun s y => remove_all_children (depth_fuel (init sta x)) s y true)
                (fun s y Ws Hs => rac_pres norm (S c) Rst C1 C2 _ s y true Ws Hs) ovw st2 W2 R2) as [P1 _].
  change (EVA c st (fst (let '(st0, ok0) :=
            post_remove (fun s y => remove_all_children (depth_fuel (init sta x)) s y true) ovw st2 in
            (st0, out_s (if ok0 then SOK else SDiverged))))).
  destruct (post_remove _ ovw st2) as [st3 ok]. cbn [fst] in *.
  intros z dz Hz. destruct (P1 z dz Hz) as [d' [B1 [B2 _]]]. eauto.
Qed.
