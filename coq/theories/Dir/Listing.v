(* readdir_complete, stated directly on the model: a listing of directory
   x is a sequence of VirtualReadDir pages, each resumed from the cookie of
   the last entry reported so far, with arbitrary operations in between. *)
From Coq Require Import Lia ZifyBool ZifyN ZifyNat.
From VF Require Import Dir.Model Dir.Spec Dir.Abs Dir.Refine Dir.WF Dir.Rec Dir.Step Dir.Evolve Dir.ChangeId Dir.ReadDir Dir.Proofs.
Open Scope string_scope.

Section L.
Variable norm : string -> string.
Variable hidden : string -> bool.

(* Every segment: operations to run first, then the size of the page to read.
   Result: final state, the pages, and whether the last page came back
   short (= the listing reached the end of the directory). *)
Fixpoint listing (st : state) (x : nat) (cookie : N) (segs : list (list op * nat))
  : state * list (list rentry) * bool :=
  match segs with
  | [] => (st, [], false)
  | (ops, p) :: t =>
    let st1 := run norm hidden st ops in
    let '(st2, r) := step norm hidden st1 (OVReadDir x cookie p) in
    let short := Nat.ltb (length (o_entries r)) p in
    match t with
    | [] => (st2, [o_entries r], short)
    | _ => let '(st3, pages, fin) := listing st2 x (last (map r_cookie (o_entries r)) cookie) t in
           (st3, o_entries r :: pages, fin)
    end
  end.

Definition reports (e : entry) (r : rentry) : Prop :=
  r_cookie r = (e_cookie e + 1)%N /\ r_name r = e_name e /\ r_child r = e_child e.

(* Old visible entries with a cookie below the resume point have been reported. *)
Definition Cov (t0 : nat) (x : nat) (st : state) (cookie : N) (rep : list rentry) : Prop :=
  exists d, get_dir st x = Some d /\
    forall e, In e (d_entries d) -> e_birth e < t0 -> visible hidden e = true ->
      (e_cookie e < cookie)%N -> exists r, In r rep /\ reports e r.

(* Reported cookies increase and stay at or below the resume point. *)
Fixpoint incr_upto (lo hi : N) (cs : list N) : Prop :=
  match cs with
  | [] => (lo <= hi)%N
  | c :: t => (lo < c)%N /\ incr_upto c hi t
  end.

Lemma incr_upto_app lo mid hi a b : incr_upto lo mid a -> incr_upto mid hi b -> incr_upto lo hi (a ++ b).
Proof.
  revert lo. induction a as [|c t IH]; intros lo; cbn.
  - intros H1 H2. destruct b as [|c' t']; cbn in *; [lia|]. destruct H2. split; auto. lia.
  - intros [H1 H2] H3. split; auto.
Qed.

Lemma last_default {A} (l : list A) a b : l <> [] -> last l a = last l b.
Proof.
  induction l as [|z t IH]; [congruence|]. intros _. destruct t as [|y t']; [reflexivity|].
  change (last (y :: t') a = last (y :: t') b). apply IH. discriminate.
Qed.

Lemma Cov_step t0 x st o cookie rep :
  WF norm (st_clock st) st -> t0 <= st_clock st ->
  Cov t0 x st cookie rep -> Cov t0 x (fst (step norm hidden st o)) cookie rep.
Proof.
  intros W Ht [d [Ed H]].
  pose proof (step_EVA norm hidden st o W) as Hev. unfold step.
  destruct (step_core norm hidden st o) as [st1 r]. cbn [fst] in *.
  destruct (Hev x d Ed) as [d1 [E1 [_ Hsub _]]]. exists d1. split; [exact E1|].
  intros e He Hb Hv Hc. apply (H e); auto. apply Hsub; auto. lia.
Qed.

Lemma Cov_run t0 x cookie rep ops : forall st,
  WF norm (st_clock st) st -> t0 <= st_clock st ->
  Cov t0 x st cookie rep -> Cov t0 x (run norm hidden st ops) cookie rep.
Proof.
  induction ops as [|o t IH]; intros st W Ht H; cbn [run]; auto.
  apply IH; [now apply WF_step| |now apply Cov_step]. rewrite clock_step. lia.
Qed.

Lemma clock_run ops : forall st, st_clock st <= st_clock (run norm hidden st ops).
Proof.
  induction ops as [|o t IH]; intros st; cbn [run]; auto.
  eapply Nat.le_trans; [|apply IH]. rewrite clock_step. lia.
Qed.

(* One page. *)
Lemma page_step t0 x st cookie p rep :
  WF norm (st_clock st) st -> t0 <= st_clock st ->
  Cov t0 x st cookie rep ->
  let st2 := fst (step norm hidden st (OVReadDir x cookie p)) in
  let es := o_entries (snd (step norm hidden st (OVReadDir x cookie p))) in
  let cookie' := last (map r_cookie es) cookie in
  Cov t0 x st2 cookie' (rep ++ es) /\
  incr_upto cookie cookie' (map r_cookie es) /\
  (length es < p -> exists d, get_dir st2 x = Some d /\
     forall e, In e (d_entries d) -> e_birth e < t0 -> visible hidden e = true ->
       exists r, In r (rep ++ es) /\ reports e r).
Proof.
  intros W Ht [d0 [Ed0 H]]. 
  assert (step norm hidden st (OVReadDir x cookie p) =
          (tick (S (st_clock st)) (init st x), snd (v_readdir hidden st x cookie p))) as Est.
  { unfold step. cbn [step_core]. unfold v_readdir. destruct (get_dir (init st x) x); reflexivity. }
  rewrite Est. cbn [fst snd]. unfold v_readdir.
  assert (get_dir (init st x) x = Some (initialise d0)) as Ed by (rewrite get_dir_init_same, Ed0; reflexivity).
  rewrite Ed. cbn [snd o_entries out_list].
  fold (selected hidden (initialise d0) cookie p).
  set (sel := selected hidden (initialise d0) cookie p).
  assert (WF norm (S (st_clock st)) st) as W1 by (eapply WF_mono; [|exact W]; lia).
  pose proof (WF_init norm _ st x W1 x _ Ed) as Hok.
  pose proof (ok_cookies _ _ _ _ _ Hok) as Hcs.
  assert (csorted sel (d_change (initialise d0))) as Hss
    by (eapply csorted_sub; [apply selected_sub|exact Hcs]).
  assert (forall e, In e sel -> (cookie <= e_cookie e)%N) as Hge.
  { intros e He. unfold sel, selected in He. apply (sub_in _ _ _ (sub_firstn _ _)) in He.
    apply filter_In in He as [He _]. eapply seek_ge; eauto. }
  assert (forall e, In e sel -> In (report (init st x) e) (map (report (init st x)) sel)) as Hrep
    by (intros; now apply in_map).
  rewrite map_map. cbn [report r_cookie].
  (* the last cookie reported bounds all cookies of the page *)
  assert (forall et, In et sel -> (e_cookie et + 1 <= last (map (fun e => (e_cookie e + 1)%N) sel) cookie)%N) as Hlast.
  { clear - Hss. generalize (d_change (initialise d0)) as hi. intros hi. revert Hss.
    generalize cookie as c0. induction sel as [|a t IH]; intros c0 Hs et Het; [destruct Het|].
    cbn [csorted] in Hs. destruct Hs as [H1 [H2 H3]]. cbn [map].
    destruct t as [|b t'].
    - destruct Het as [->|[]]. cbn. lia.
    - change (last ((e_cookie a + 1)%N :: map (fun e => (e_cookie e + 1)%N) (b :: t')) c0)
        with (last (map (fun e => (e_cookie e + 1)%N) (b :: t')) c0).
      destruct Het as [->|Het].
      + specialize (IH c0 H3 b (or_introl eq_refl)). specialize (H1 b (or_introl eq_refl)). lia.
      + apply IH; auto. }
  split; [|split].
  - exists (initialise d0). split; [exact Ed|]. cbn [initialise d_entries].
    intros e He Hb Hv Hc.
    destruct (N.lt_ge_cases (e_cookie e) cookie) as [Hlt|Hgec].
    + destruct (H e He Hb Hv Hlt) as [r [R1 R2]]. exists r. split; auto. apply in_or_app. now left.
    + (* e lies within the page *)
      assert (exists et, In et sel /\ (e_cookie e <= e_cookie et)%N) as [et [Het Hle]].
      { destruct sel as [|a t] eqn:Es; [cbn in Hc; lia|].
        assert (exists et, In et (a :: t) /\ last (map (fun e => (e_cookie e + 1)%N) (a :: t)) cookie = (e_cookie et + 1)%N) as [et [Het Hl]].
        { clear. generalize cookie as c0. induction t as [|b t' IH] using rev_ind; intros c0.
          - exists a. split; [now left|reflexivity].
          - exists b. split; [right; apply in_or_app; right; now left|].
            rewrite app_comm_cons, map_app. cbn [map]. apply last_last. }
        exists et. split; auto. rewrite Hl in Hc. lia. }
      exists (report (init st x) e). split.
      * apply in_or_app. right. apply in_map. unfold sel. eapply selected_covers; eauto.
      * repeat split.
  - clear - Hss Hge. generalize (d_change (initialise d0)) as hi. intros hi. revert Hss Hge.
    generalize cookie as c0. induction sel as [|a t IH]; intros c0 Hs Hge; cbn; [lia|].
    cbn [csorted] in Hs. destruct Hs as [H1 [H2 H3]]. split; [specialize (Hge a (or_introl eq_refl)); lia|].
    destruct t as [|b t'].
    + cbn. lia.
    + change (last ((e_cookie a + 1)%N :: map (fun e => (e_cookie e + 1)%N) (b :: t')) c0)
        with (last (map (fun e => (e_cookie e + 1)%N) (b :: t')) c0).
      assert (incr_upto (e_cookie a + 1)%N (last (map (fun e => (e_cookie e + 1)%N) (b :: t')) (e_cookie a + 1)%N)
                        (map (fun e => (e_cookie e + 1)%N) (b :: t'))) as IH'.
      { apply IH; auto. intros e He. specialize (H1 e He). lia. }
      replace (last (map (fun e => (e_cookie e + 1)%N) (b :: t')) c0)
        with (last (map (fun e => (e_cookie e + 1)%N) (b :: t')) (e_cookie a + 1)%N); auto.
      apply last_default. discriminate.
  - rewrite map_length. intros Hlen. exists (initialise d0). split; [exact Ed|]. cbn [initialise d_entries].
    intros e He Hb Hv.
    destruct (N.lt_ge_cases (e_cookie e) cookie) as [Hlt|Hgec].
    + destruct (H e He Hb Hv Hlt) as [r [R1 R2]]. exists r. split; auto. apply in_or_app. now left.
    + exists (report (init st x) e). split; [|repeat split].
      apply in_or_app. right. apply in_map. unfold sel. eapply selected_complete; eauto.
Qed.

Lemma incr_upto_lt lo hi cs c : incr_upto lo hi cs -> In c cs -> (lo < c <= hi)%N.
Proof.
  revert lo. induction cs as [|a t IH]; intros lo; cbn; [tauto|]. intros [H1 H2] [->|Hin].
  - split; auto. clear - H2. revert H2. generalize c as lo'. induction t as [|b t' IH']; intros lo'; cbn; [lia|].
    intros [H3 H4]. specialize (IH' _ H4). lia.
  - specialize (IH _ H2 Hin). lia.
Qed.

Lemma incr_upto_NoDup lo hi cs : incr_upto lo hi cs -> NoDup cs.
Proof.
  revert lo. induction cs as [|a t IH]; intros lo; cbn; [constructor|]. intros [H1 H2].
  constructor; [|eauto]. intros Hin. pose proof (incr_upto_lt _ _ _ _ H2 Hin). lia.
Qed.

Lemma listing_inv t0 x : forall segs st cookie rep,
  segs <> [] ->
  WF norm (st_clock st) st -> t0 <= st_clock st -> Cov t0 x st cookie rep ->
  incr_upto 0 cookie (map r_cookie rep) ->
  (exists hi, incr_upto 0 hi (map r_cookie (rep ++ concat (snd (fst (listing st x cookie segs)))))) /\
  (snd (listing st x cookie segs) = true ->
   exists d, get_dir (fst (fst (listing st x cookie segs))) x = Some d /\
     forall e, In e (d_entries d) -> e_birth e < t0 -> visible hidden e = true ->
       exists r, In r (rep ++ concat (snd (fst (listing st x cookie segs)))) /\ reports e r).
Proof.
  induction segs as [|[ops p] t IH]; intros st cookie rep Hne W Ht HC HI; [congruence|].
  cbn [listing].
  set (st1 := run norm hidden st ops).
  assert (WF norm (st_clock st1) st1) as W1 by (apply WF_run_from; auto).
  assert (t0 <= st_clock st1) as Ht1 by (eapply Nat.le_trans; [exact Ht|apply clock_run]).
  assert (Cov t0 x st1 cookie rep) as HC1 by (apply Cov_run; auto).
  destruct (page_step t0 x st1 cookie p rep W1 Ht1 HC1) as [P1 [P2 P3]].
  pose proof (WF_step norm hidden st1 (OVReadDir x cookie p) W1) as W2.
  pose proof (clock_step norm hidden st1 (OVReadDir x cookie p)) as Hc2.
  destruct (step norm hidden st1 (OVReadDir x cookie p)) as [st2 r]. cbn [fst snd] in *.
  assert (incr_upto 0 (last (map r_cookie (o_entries r)) cookie) (map r_cookie (rep ++ o_entries r))) as HI2.
  { rewrite map_app. eapply incr_upto_app; eauto. }
  destruct t as [|seg t'].
  - cbn [fst snd concat]. rewrite app_nil_r. split; [eauto|].
    intros Hs. apply Nat.ltb_lt in Hs. exact (P3 Hs).
  - assert (t0 <= st_clock st2) as Ht2 by lia.
    destruct (IH st2 _ (rep ++ o_entries r)%list ltac:(discriminate) W2 Ht2 P1 HI2) as [Q1 Q2].
    destruct (listing st2 x (last (map r_cookie (o_entries r)) cookie) (seg :: t')) as [[st3 pages] fin].
    cbn [fst snd concat] in *. rewrite app_assoc. split; auto.
Qed.

(* readdir_complete. *)
Lemma readdir_complete_l ops0 x segs d0 :
  let st0 := run norm hidden init_state ops0 in
  get_dir st0 x = Some d0 -> segs <> [] ->
  let stf := fst (fst (listing st0 x 0 segs)) in
  let all := concat (snd (fst (listing st0 x 0 segs))) in
  (* nothing is reported twice: resume cookies strictly increase over the whole listing *)
  NoDup (map r_cookie all) /\
  (* if the last page came back short, every visible entry that was attached before the
     first page and is still attached at the last page has been reported *)
  (snd (listing st0 x 0 segs) = true ->
   forall df e, get_dir stf x = Some df -> In e (d_entries d0) -> In e (d_entries df) ->
     visible hidden e = true -> exists r, In r all /\ reports e r).
Proof.
  intros st0 Hd0 Hne stf all.
  pose proof (WF_run norm hidden ops0) as W0. fold st0 in W0.
  destruct (listing_inv (st_clock st0) x segs st0 0%N [] Hne W0 (Nat.le_refl _)) as [[hi Q1] Q2].
  - exists d0. split; auto. intros; lia.
  - cbn. lia.
  - cbn [app] in *. split; [eapply incr_upto_NoDup; eauto|].
    intros Hfin df e Hdf He0 Hef Hv. destruct (Q2 Hfin) as [d [Ed Hall]].
    fold stf in Ed. rewrite Hdf in Ed. injection Ed as <-.
    apply Hall; auto. eapply ok_births; [apply (W0 x d0 Hd0)|exact He0].
Qed.

End L.
