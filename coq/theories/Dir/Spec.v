(* C13 — the reference POSIX-style hierarchy and the property predicate P.

   Part 1 is a small, independent description of what a file hierarchy
   does: every directory is a finite map from (normalised) names to
   bindings plus a "removed" flag, every non-directory has a link count.
   There are no cookies, no change counters, no lazily initialised
   directories, no hooks.  Each operation yields the expected status and
   result ([expect]).  Bindings carry a ghost birth stamp (index of the
   operation that made them) so that "this entry existed throughout the
   listing" and "this directory was modified" can be said.

   Part 2 is P: the reference hierarchy run as an oracle along an
   observed trace (operation, output, dump), plus the predicates about
   change counters and paginated listings.  [p_step] is the function
   Corr.v folds over traces of the Go implementation, and the function
   the theorems of Proofs.v are about (model traces). *)
From VF Require Export Dir.Model.
Open Scope string_scope.

(* ====================================================================== *)
(* Part 1: the reference hierarchy                                        *)
(* ====================================================================== *)

Record sbind := mkSB { sb_name : string; sb_child : child; sb_birth : nat }.
Record sdir := mkSDir { sd_map : list (string * sbind); sd_deleted : bool }.
Record sleaf := mkSLeaf { sl_kind : lkind; sl_nlink : Z }.
Record sstate := mkSS { ss_dirs : list sdir; ss_leaves : list sleaf; ss_clock : nat }.

Definition sinit : sstate := mkSS [mkSDir [] false] [] 0.

Inductive listing :=
| LNone
| LExact (l : list (string * child))    (* exactly these, in this order *)
| LTyped (l : list (string * Z))        (* names and file types, in this order *)
| LPage (cands : list (string * child)) (* a duplicate free selection of these *)
| LVisited (l : list nat).

Record expect := mkX {
  x_status : status;
  x_child : option child;
  x_nlink : option Z;        (* link count of the leaf returned / linked *)
  x_listing : listing;
  x_riod : bool }.           (* refused: rename of a directory into itself or a descendant *)

Definition xs (s : status) : expect := mkX s None None LNone false.
Definition xchild (c : child) (n : option Z) : expect := mkX SOK (Some c) n LNone false.
Definition xlist (l : listing) : expect := mkX SOK None None l false.

Definition sget (s : sstate) (x : nat) : option sdir := nth_error (ss_dirs s) x.
Definition sget_leaf (s : sstate) (l : nat) : option sleaf := nth_error (ss_leaves s) l.
Definition smod (s : sstate) (x : nat) (f : sdir -> sdir) : sstate :=
  match sget s x with
  | Some d => mkSS (upd (ss_dirs s) x (f d)) (ss_leaves s) (ss_clock s)
  | None => s
  end.
Definition smod_leaf (s : sstate) (l : nat) (f : sleaf -> sleaf) : sstate :=
  match sget_leaf s l with
  | Some lf => mkSS (ss_dirs s) (upd (ss_leaves s) l (f lf)) (ss_clock s)
  | None => s
  end.
Definition snew_dir (s : sstate) : sstate * nat :=
  (mkSS (ss_dirs s ++ [mkSDir [] false]) (ss_leaves s) (ss_clock s), length (ss_dirs s)).
Definition snew_leaf (s : sstate) (k : lkind) : sstate * nat :=
  (mkSS (ss_dirs s) (ss_leaves s ++ [mkSLeaf k 1]) (ss_clock s), length (ss_leaves s)).
Definition sunlink (s : sstate) (l : nat) : sstate :=
  smod_leaf s l (fun lf => mkSLeaf (sl_kind lf) (sl_nlink lf - 1)).
Definition slink (s : sstate) (l : nat) : sstate :=
  smod_leaf s l (fun lf => mkSLeaf (sl_kind lf) (sl_nlink lf + 1)).

Definition lookup (key : string) (d : sdir) : option sbind :=
  option_map snd (find (fun p => String.eqb (fst p) key) (sd_map d)).
Definition bind (clock : nat) (name key : string) (c : child) (d : sdir) : sdir :=
  mkSDir (sd_map d ++ [(key, mkSB name c clock)]) (sd_deleted d).
Definition unbind (key : string) (d : sdir) : sdir :=
  mkSDir (filter (fun p => negb (String.eqb (fst p) key)) (sd_map d)) (sd_deleted d).

Definition nlink_of (s : sstate) (l : nat) : option Z := option_map sl_nlink (sget_leaf s l).

Section SpecWithNames.
Variable norm : string -> string.
Variable hidden : string -> bool.

Definition shown (b : sbind) : bool :=
  match sb_child b with CDir _ => true | CLeaf _ => negb (hidden (sb_name b)) end.

(* Empty as far as rmdir()/rename() are concerned: hidden files do not count. *)
Definition sempty (d : sdir) : bool :=
  forallb (fun p => match sb_child (snd p) with CDir _ => false | CLeaf _ => hidden (sb_name (snd p)) end)
          (sd_map d).

(* Remove an (empty) directory object: leftover hidden files lose a link,
   and it accepts no new entries from now on. *)
Definition sdelete (s : sstate) (x : nat) : sstate :=
  match sget s x with
  | Some d =>
    if sd_deleted d then s else
    let s1 := fold_left (fun s' p => match sb_child (snd p) with CLeaf l => sunlink s' l | CDir _ => s' end)
                        (sd_map d) s in
    smod s1 x (fun _ => mkSDir [] true)
  | None => s
  end.

Definition creatable (d : sdir) (key : string) : status :=
  if sd_deleted d then SNoEnt
  else match lookup key d with Some _ => SExist | None => SOK end.

Definition s_lookup (s : sstate) (x : nat) (name : string) : sstate * expect :=
  match sget s x with
  | None => (s, xs SBadOp)
  | Some d =>
    match lookup (norm name) d with
    | Some b => (s, xchild (sb_child b)
                         (match sb_child b with CLeaf l => nlink_of s l | CDir _ => None end))
    | None => (s, xs SNoEnt)
    end
  end.

Definition s_open (s : sstate) (x : nat) (name : string) (create existing fail : bool) : sstate * expect :=
  match sget s x with
  | None => (s, xs SBadOp)
  | Some d =>
    match lookup (norm name) d with
    | Some b =>
      if negb existing then (s, xs SExist) else
      match sb_child b with
      | CDir _ => (s, xs SIsDir)
      | CLeaf l =>
        match sget_leaf s l with
        | None => (s, xs SBadOp)
        | Some lf =>
          match open_status (sl_kind lf) with
          | SOK => (s, xchild (CLeaf l) (Some (sl_nlink lf)))
          | e => (s, xs e)
          end
        end
      end
    | None =>
      if sd_deleted d || negb create then (s, xs SNoEnt) else
      if fail then (s, xs SIO) else
      let '(s1, l) := snew_leaf s KFile in
      (smod s1 x (bind (ss_clock s) name (norm name) (CLeaf l)), xchild (CLeaf l) (Some 1%Z))
    end
  end.

Definition s_mkdir (s : sstate) (x : nat) (name : string) : sstate * expect :=
  match sget s x with
  | None => (s, xs SBadOp)
  | Some d =>
    match creatable d (norm name) with
    | SOK => let '(s1, y) := snew_dir s in
             (smod s1 x (bind (ss_clock s) name (norm name) (CDir y)), xchild (CDir y) None)
    | e => (s, xs e)
    end
  end.

Definition s_mknod (s : sstate) (x : nat) (name : string) (k : mkkind) (fail : bool) : sstate * expect :=
  match sget s x with
  | None => (s, xs SBadOp)
  | Some d =>
    match creatable d (norm name) with
    | SOK =>
      let mk (lk : lkind) :=
        let '(s1, l) := snew_leaf s lk in
        (smod s1 x (bind (ss_clock s) name (norm name) (CLeaf l)), xchild (CLeaf l) (Some 1%Z)) in
      match k with
      | MFifo => mk KFifo
      | MSocket => mk KSocket
      | MSymlink => if fail then (s, xs SIO) else mk KSymlink
      | MBlock => (s, xs SPerm)     (* device nodes are refused *)
      end
    | e => (s, xs e)
    end
  end.

(* A regular file without links is gone and cannot be linked again. *)
Definition linkable (lf : sleaf) : status :=
  match sl_kind lf with
  | KFile => if (sl_nlink lf <=? 0)%Z then SStale else SOK
  | _ => SOK
  end.

Definition s_link (s : sstate) (x : nat) (name : string) (l : nat) : sstate * expect :=
  match sget_leaf s l, sget s x with
  | Some lf, Some d =>
    match creatable d (norm name) with
    | SOK =>
      match linkable lf with
      | SOK => (smod (slink s l) x (bind (ss_clock s) name (norm name) (CLeaf l)),
                mkX SOK None (Some (sl_nlink lf + 1)%Z) LNone false)
      | e => (s, xs e)
      end
    | e => (s, xs e)
    end
  | _, _ => (s, xs SBadOp)
  end.

(* unlink()/rmdir(); [rmdir]/[rmleaf] say which kinds the caller accepts
   ([e_dir]/[e_leaf] are the errors for the other kind). *)
Definition s_remove (s : sstate) (x : nat) (name : string) (rmdir rmleaf : bool) : sstate * expect :=
  match sget s x with
  | None => (s, xs SBadOp)
  | Some d =>
    let key := norm name in
    match lookup key d with
    | None => (s, xs SNoEnt)
    | Some b =>
      match sb_child b with
      | CDir y =>
        if negb rmdir then (s, xs SPerm) else
        match sget s y with
        | None => (s, xs SBadOp)
        | Some dy => if negb (sempty dy) then (s, xs SNotEmpty)
                     else (smod (sdelete s y) x (unbind key), xs SOK)
        end
      | CLeaf l =>
        if negb rmleaf then (s, xs SNotDir) else (smod (sunlink s l) x (unbind key), xs SOK)
      end
    end
  end.

(* Is directory [target] the directory [from] or below it? *)
Fixpoint reaches (fuel : nat) (s : sstate) (from target : nat) : bool :=
  Nat.eqb from target ||
  match fuel with
  | O => false
  | S f =>
    match sget s from with
    | Some d => existsb (fun p => match sb_child (snd p) with
                                  | CDir y => reaches f s y target
                                  | CLeaf _ => false end) (sd_map d)
    | None => false
    end
  end.

Definition s_rename (s : sstate) (x1 : nat) (n1 : string) (x2 : nat) (n2 : string) : sstate * expect :=
  match sget s x1, sget s x2 with
  | Some d1, Some d2 =>
    let k1 := norm n1 in
    let k2 := norm n2 in
    match lookup k1 d1 with
    | None => (s, xs SNoEnt)
    | Some src =>
      let into_self := match sb_child src with
                       | CDir od => reaches (length (ss_dirs s)) s od x2
                       | CLeaf _ => false end in
      let refuse := (s, mkX SInval None None LNone true) in
      match lookup k2 d2 with
      | None =>
        if sd_deleted d2 then (s, xs SNoEnt) else
        if into_self then refuse else
        (smod (smod s x1 (unbind k1)) x2 (bind (ss_clock s) n2 k2 (sb_child src)), xs SOK)
      | Some tgt =>
        if child_eqb (sb_child src) (sb_child tgt) then (s, xs SOK) else
        match sb_child src, sb_child tgt with
        | CDir _, CLeaf _ => (s, xs SNotDir)
        | CLeaf _, CDir _ => (s, xs SIsDir)
        | CLeaf ol, CLeaf nl =>
          (smod (sunlink (smod (smod s x1 (unbind k1)) x2 (unbind k2)) nl) x2
                (bind (ss_clock s) n2 k2 (CLeaf ol)), xs SOK)
        | CDir od, CDir nd =>
          match sget s nd with
          | None => (s, xs SBadOp)
          | Some dn =>
            if negb (sempty dn) then (s, xs SNotEmpty) else
            if into_self then refuse else
            (smod (sdelete (smod (smod s x1 (unbind k1)) x2 (unbind k2)) nd) x2
                  (bind (ss_clock s) n2 k2 (CDir od)), xs SOK)
          end
        end
      end
    end
  | _, _ => (s, xs SBadOp)
  end.

Definition names_of (m : list (string * sbind)) : list (string * child) :=
  map (fun p => (sb_name (snd p), sb_child (snd p))) m.

Definition s_readdir (s : sstate) (x : nat) : sstate * expect :=
  match sget s x with
  | None => (s, xs SBadOp)
  | Some d => (s, xlist (LPage (names_of (filter (fun p => shown (snd p)) (sd_map d)))))
  end.

Definition is_dir_bind (p : string * sbind) : bool :=
  match sb_child (snd p) with CDir _ => true | CLeaf _ => false end.

Definition s_lookup_all (s : sstate) (x : nat) : sstate * expect :=
  match sget s x with
  | None => (s, xs SBadOp)
  | Some d =>
    let ds := filter is_dir_bind (sd_map d) in
    let ls := filter (fun p => negb (is_dir_bind p) && shown (snd p)) (sd_map d) in
    (s, xlist (LExact (sort_by fst (names_of ds) ++ sort_by fst (names_of ls))))
  end.

Definition s_read_dir (s : sstate) (x : nat) : sstate * expect :=
  match sget s x with
  | None => (s, xs SBadOp)
  | Some d =>
    let ty (p : string * sbind) :=
      (sb_name (snd p),
       match sb_child (snd p) with
       | CDir _ => 0%Z
       | CLeaf l => match sget_leaf s l with Some lf => kind_code (sl_kind lf) | None => (-1)%Z end
       end) in
    (s, xlist (LTyped (sort_by fst (map ty (filter (fun p => shown (snd p)) (sd_map d))))))
  end.

(* Recursive removal of everything below directory [x]; [x] itself is
   marked as removed if [del_self].  [fuel] bounds the nesting depth. *)
Fixpoint s_post (rec : sstate -> nat -> sstate * bool) (bs : list (string * sbind)) (s : sstate) : sstate * bool :=
  match bs with
  | [] => (s, true)
  | p :: t =>
    match sb_child (snd p) with
    | CDir y => let '(s1, ok) := rec s y in
                let '(s2, ok2) := s_post rec t s1 in (s2, ok && ok2)
    | CLeaf l => s_post rec t (sunlink s l)
    end
  end.

Fixpoint s_destroy (fuel : nat) (s : sstate) (x : nat) (del_self : bool) : sstate * bool :=
  match fuel with
  | O => (s, false)
  | S f =>
    match sget s x with
    | None => (s, true)
    | Some d =>
      let s1 := smod s x (fun d' => mkSDir [] (sd_deleted d')) in
      let s2 := if del_self then sdelete s1 x else s1 in
      s_post (fun s' y => s_destroy f s' y true) (rev (sd_map d)) s2
    end
  end.

Definition sfuel (s : sstate) : nat := S (S (length (ss_dirs s))).

Definition s_remove_all (s : sstate) (x : nat) (name : string) : sstate * expect :=
  match sget s x with
  | None => (s, xs SBadOp)
  | Some d =>
    let key := norm name in
    match lookup key d with
    | None => (s, xs SNoEnt)
    | Some b =>
      let s1 := smod s x (unbind key) in
      match sb_child b with
      | CDir y => let '(s2, ok) := s_destroy (sfuel s) s1 y true in
                  (s2, xs (if ok then SOK else SDiverged))
      | CLeaf l => (sunlink s1 l, xs SOK)
      end
    end
  end.

Definition s_remove_all_children (s : sstate) (x : nat) (forbid : bool) : sstate * expect :=
  match sget s x with
  | None => (s, xs SBadOp)
  | Some _ => let '(s1, ok) := s_destroy (sfuel s) s x forbid in
              (s1, xs (if ok then SOK else SDiverged))
  end.

Fixpoint s_alloc (s : sstate) (cs : list (string * cchild)) : sstate * list (string * rchild) :=
  match cs with
  | [] => (s, [])
  | (n, NewDirC) :: t => let '(s1, r) := s_alloc s t in (s1, (n, RNewDir) :: r)
  | (n, NewLeafC k) :: t =>
    let '(s0, l) := snew_leaf s k in
    let '(s1, r) := s_alloc s0 t in (s1, (n, RLeaf l) :: r)
  end.

Definition s_drop (s : sstate) (rs : list (string * rchild)) : sstate :=
  fold_left (fun s' nr => match snd nr with RLeaf l => sunlink s' l | RNewDir => s' end) rs s.

Definition s_attach_child (clock : nat) (x : nat) (s : sstate) (nr : string * rchild) : sstate :=
  let '(n, r) := nr in
  match r with
  | RNewDir => let '(s1, y) := snew_dir s in smod s1 x (bind clock n (norm n) (CDir y))
  | RLeaf l => smod s x (bind clock n (norm n) (CLeaf l))
  end.

(* Bulk creation; the new entries appear in alphabetical order.  Names
   that collide under normalisation are a caller error (SPanic). *)
Definition s_create_children (s : sstate) (x : nat) (cs : list (string * cchild)) (overwrite : bool) : sstate * expect :=
  let '(s, rs) := s_alloc s cs in
  match sget s x with
  | None => (s, xs SBadOp)
  | Some d =>
    let keys := map (fun nr => norm (fst nr)) rs in
    if negb (nodup_keys keys) then (s, xs SPanic) else
    if sd_deleted d then (s_drop s rs, xs SNoEnt) else
    let bound k := match lookup k d with Some _ => true | None => false end in
    if negb overwrite && existsb bound keys then (s_drop s rs, xs SExist) else
    let overwritten :=
      fold_left (fun acc k => match find (fun p => String.eqb (fst p) k) (sd_map d) with
                              | Some p => p :: acc | None => acc end) keys [] in
    let s1 := fold_left (fun s' k => if bound k then smod s' x (unbind k) else s') keys s in
    let s2 := fold_left (s_attach_child (ss_clock s) x) (sort_by fst rs) s1 in
    let '(s3, ok) := s_post (fun s' y => s_destroy (sfuel s) s' y true) overwritten s2 in
    (s3, xs (if ok then SOK else SDiverged))
  end.

Definition s_create_and_enter (s : sstate) (x : nat) (name : string) : sstate * expect :=
  match sget s x with
  | None => (s, xs SBadOp)
  | Some d =>
    let key := norm name in
    let mk (s0 : sstate) :=
      let '(s1, y) := snew_dir s0 in
      (smod s1 x (bind (ss_clock s) name key (CDir y)), xchild (CDir y) None) in
    match lookup key d with
    | Some b =>
      match sb_child b with
      | CDir y => (s, xchild (CDir y) None)
      | CLeaf l => mk (sunlink (smod s x (unbind key)) l)
      end
    | None => if sd_deleted d then (s, xs SNoEnt) else mk s
    end
  end.

(* Walk over all files below [x]: the files of a directory first, then
   its sub-directories; files in [rm] are removed (by name, from the
   directory being walked), the walk ends at file [stop]. *)
Fixpoint s_filter_leaves (x : nat) (rm : list nat) (stop : option nat)
    (ls : list (string * nat)) (s : sstate) (acc : list nat) : sstate * list nat * fstat :=
  match ls with
  | [] => (s, acc, FCont)
  | (n, l) :: t =>
    let acc1 := (acc ++ [l])%list in
    if match stop with Some z => Nat.eqb z l | None => false end then (s, acc1, FStop) else
    let s1 := if existsb (Nat.eqb l) rm then fst (s_remove s x n true true) else s in
    s_filter_leaves x rm stop t s1 acc1
  end.

Fixpoint s_filter_dirs (rec : sstate -> nat -> list nat -> sstate * list nat * fstat) (ds : list nat)
    (s : sstate) (acc : list nat) : sstate * list nat * fstat :=
  match ds with
  | [] => (s, acc, FCont)
  | y :: t =>
    let '(s1, acc1, c) := rec s y acc in
    match c with FCont => s_filter_dirs rec t s1 acc1 | _ => (s1, acc1, c) end
  end.

Fixpoint s_filter_rec (fuel : nat) (rm : list nat) (stop : option nat)
    (s : sstate) (x : nat) (acc : list nat) : sstate * list nat * fstat :=
  match fuel with
  | O => (s, acc, FDiv)
  | S f =>
    match sget s x with
    | None => (s, acc, FCont)
    | Some d =>
      let ls := flat_map (fun p => match sb_child (snd p) with CLeaf l => [(sb_name (snd p), l)] | CDir _ => [] end) (sd_map d) in
      let ds := flat_map (fun p => match sb_child (snd p) with CDir y => [y] | CLeaf _ => [] end) (sd_map d) in
      let '(s1, acc1, c) := s_filter_leaves x rm stop ls s acc in
      match c with
      | FCont => s_filter_dirs (s_filter_rec f rm stop) ds s1 acc1
      | _ => (s1, acc1, c)
      end
    end
  end.

Definition s_filter (s : sstate) (x : nat) (rm : list nat) (stop : option nat) : sstate * expect :=
  match sget s x with
  | None => (s, xs SBadOp)
  | Some _ =>
    let '(s1, acc, c) := s_filter_rec (sfuel s) rm stop s x [] in
    (s1, mkX (match c with FDiv => SDiverged | _ => SOK end) None None (LVisited acc) false)
  end.

Definition sstep_core (s : sstate) (o : op) : sstate * expect :=
  match o with
  | OVLookup d n => s_lookup s d n
  | OVOpen d n c e f => s_open s d n c e f
  | OVMkdir d n => s_mkdir s d n
  | OVMknod d n k f => s_mknod s d n k f
  | OVLink d n l => s_link s d n l
  | OVLinkForeign d n => (s, xs SXDev)
  | OVRemove d n rd rl => s_remove s d n rd rl
  | OVRename d1 n1 d2 n2 => s_rename s d1 n1 d2 n2
  | OVReadDir d c p => s_readdir s d
  | OLookupChild d n => let '(s1, x) := s_lookup s d n in (s1, mkX (x_status x) (x_child x) None LNone false)
  | OLookupAll d => s_lookup_all s d
  | OReadDir d => s_read_dir s d
  | ORemove d n => s_remove s d n true true
  | ORemoveAll d n => s_remove_all s d n
  | ORemoveAllChildren d f => s_remove_all_children s d f
  | OCreateChildren d cs ow => s_create_children s d cs ow
  | OCreateAndEnter d n => s_create_and_enter s d n
  | OFilter d rm stop _ => s_filter s d rm stop
  | OInstallHooks d _ => (s, match sget s d with Some _ => xs SOK | None => xs SBadOp end)
  end.

Definition sstep (s : sstate) (o : op) : sstate * expect :=
  let '(s1, x) := sstep_core s o in
  (mkSS (ss_dirs s1) (ss_leaves s1) (S (ss_clock s)), x).

Fixpoint srun (s : sstate) (ops : list op) : sstate :=
  match ops with [] => s | o :: t => srun (fst (sstep s o)) t end.

(* The trigger of the known finding F8: operation [o] asks to move a
   directory into itself or one of its descendants. *)
Definition is_riod (s : sstate) (o : op) : bool := x_riod (snd (sstep s o)).

Fixpoint no_riod_from (s : sstate) (ops : list op) : bool :=
  match ops with
  | [] => true
  | o :: t => negb (is_riod s o) && no_riod_from (fst (sstep s o)) t
  end.
Definition no_rename_into_own_descendant (ops : list op) : Prop := no_riod_from sinit ops = true.

(* ====================================================================== *)
(* Part 2: the predicate P on observed traces                             *)
(* ====================================================================== *)

Definition op_name (o : op) : string :=
  match o with
  | OVLookup _ _ => "VirtualLookup" | OVOpen _ _ _ _ _ => "VirtualOpenChild"
  | OVMkdir _ _ => "VirtualMkdir" | OVMknod _ _ _ _ => "VirtualMknod"
  | OVLink _ _ _ => "VirtualLink" | OVLinkForeign _ _ => "VirtualLink"
  | OVRemove _ _ _ _ => "VirtualRemove" | OVRename _ _ _ _ => "VirtualRename"
  | OVReadDir _ _ _ => "VirtualReadDir" | OLookupChild _ _ => "LookupChild"
  | OLookupAll _ => "LookupAllChildren" | OReadDir _ => "ReadDir"
  | ORemove _ _ => "Remove" | ORemoveAll _ _ => "RemoveAll"
  | ORemoveAllChildren _ _ => "RemoveAllChildren" | OCreateChildren _ _ _ => "CreateChildren"
  | OCreateAndEnter _ _ => "CreateAndEnterPrepopulatedDirectory"
  | OFilter _ _ _ _ => "FilterChildren" | OInstallHooks _ _ => "InstallHooks"
  end.

Definition status_eqb (a b : status) : bool :=
  match a, b with
  | SOK, SOK | SExist, SExist | SIO, SIO | SIsDir, SIsDir | SNoEnt, SNoEnt | SNotDir, SNotDir
  | SNotEmpty, SNotEmpty | SPerm, SPerm | SStale, SStale | SSymlink, SSymlink
  | SWrongType, SWrongType | SXDev, SXDev | SInval, SInval | SPanic, SPanic | SHang, SHang
  | SDiverged, SDiverged | SBadOp, SBadOp | SOther, SOther => true
  | _, _ => false
  end.

Definition ochild_eqb (a b : option child) : bool :=
  match a, b with
  | None, None => true
  | Some x, Some y => child_eqb x y
  | _, _ => false
  end.

Fixpoint list_eqb {A} (eqb : A -> A -> bool) (a b : list A) : bool :=
  match a, b with
  | [], [] => true
  | x :: a', y :: b' => eqb x y && list_eqb eqb a' b'
  | _, _ => false
  end.

Definition nc_eqb (a b : string * child) : bool := String.eqb (fst a) (fst b) && child_eqb (snd a) (snd b).

Definition reported (r : out) : list (string * child) := map (fun e => (r_name e, r_child e)) (o_entries r).

Definition listing_ok (l : listing) (r : out) : bool :=
  match l with
  | LNone => match o_entries r, o_visited r with [], [] => true | _, _ => false end
  | LExact want => list_eqb nc_eqb want (reported r)
  | LTyped want => list_eqb (fun a b => String.eqb (fst a) (fst b) && Z.eqb (snd a) (snd b)) want
                            (map (fun e => (r_name e, r_attr e)) (o_entries r))
  | LPage cands =>
    forallb (fun nc => existsb (nc_eqb nc) cands) (reported r)
    && nodup_keys (map fst (reported r))
  | LVisited want => list_eqb Nat.eqb want (o_visited r)
  end.

(* Attributes delivered with a result: link count of a leaf as the
   reference hierarchy has it, change counter of a directory as the dump
   taken after the operation has it. *)
Definition attr_ok (s : sstate) (dm : dump) (c : child) (a : Z) : bool :=
  match c with
  | CLeaf l => match nlink_of s l with Some n => Z.eqb a n | None => false end
  | CDir y => match nth_error (dm_dirs dm) y with Some (ch, _) => Z.eqb a (Z.of_N ch) | None => false end
  end.

Definition attrs_part (o : op) (r : out) (s' : sstate) (dm : dump) : bool :=
  match o with
  | OVReadDir _ _ _ => forallb (fun e => attr_ok s' dm (r_child e) (r_attr e)) (o_entries r)
  | OVLookup _ _ | OVMkdir _ _ =>
    match o_child r with Some (CDir y) => attr_ok s' dm (CDir y) (o_attr r) | _ => true end
  | _ => true
  end.

(* The oracle check of one step; "" = accepted. *)
Definition oracle (x : expect) (s' : sstate) (o : op) (r : out) (dm : dump) : string :=
  if x_riod x && status_eqb (o_status r) SOK then "C13:rename-into-own-descendant" else
  if negb (status_eqb (x_status x) (o_status r)) then "C13:status:" ++ op_name o else
  if negb (status_eqb (o_status r) SOK) then "" else
  if negb (match x_child x with Some _ => ochild_eqb (x_child x) (o_child r) | None => true end)
  then "C13:result:" ++ op_name o else
  if negb (match x_nlink x with Some n => Z.eqb n (o_attr r) | None => true end)
  then "C13:linkcount:" ++ op_name o else
  if negb (listing_ok (x_listing x) r) then "C13:listing:" ++ op_name o else
  if negb (attrs_part o r s' dm)
  then "C13:attributes:" ++ op_name o else "".

(* The oracle along a whole trace (operation, output, dump after it). *)
Fixpoint oracle_all (s : sstate) (tr : list (op * out * dump)) : bool :=
  match tr with
  | [] => true
  | (o, r, dm) :: t =>
    let '(s', x) := sstep s o in
    String.eqb (oracle x s' o r dm) "" && oracle_all s' t
  end.

(* ---- change counters ----------------------------------------------------- *)

Definition sbind_eqb (a b : string * sbind) : bool :=
  String.eqb (fst a) (fst b) && String.eqb (sb_name (snd a)) (sb_name (snd b))
  && child_eqb (sb_child (snd a)) (sb_child (snd b)) && Nat.eqb (sb_birth (snd a)) (sb_birth (snd b)).

(* A directory is modified by a step iff its set of bindings changed. *)
Definition modified (a b : sdir) : bool := negb (list_eqb sbind_eqb (sd_map a) (sd_map b)).

(* For every directory that existed before the step: the counter grew iff
   the directory was modified, and is unchanged otherwise. *)
Fixpoint changes_ok (before after : list sdir) (c0 c1 : list (N * bool)) : string :=
  match before, after, c0, c1 with
  | b :: before', a :: after', (x0, _) :: c0', (x1, _) :: c1' =>
    if modified b a then
      if (x0 <? x1)%N then changes_ok before' after' c0' c1' else "C13:changeid-not-increased"
    else
      if (x0 =? x1)%N then changes_ok before' after' c0' c1' else "C13:changeid-changed-without-modification"
  | [], _, [], _ => ""
  | _, _, _, _ => "C13:dump-shape"
  end.

Definition change_at (dm : dump) (x : nat) : N :=
  match nth_error (dm_dirs dm) x with Some (c, _) => c | None => 0%N end.

Definition ci_eqb (a b : N * N) : bool := N.eqb (fst a) (fst b) && N.eqb (snd a) (snd b).

(* ChangeInfo returned by the kernel-facing calls = counter before/after. *)
Definition changeinfo_ok (o : op) (r : out) (dm0 dm1 : dump) : bool :=
  if negb (status_eqb (o_status r) SOK) then true else
  let want (x : nat) := (change_at dm0 x, change_at dm1 x) in
  match o with
  | OVOpen d _ _ _ _ | OVMkdir d _ | OVMknod d _ _ _ | OVLink d _ _ | OVRemove d _ _ _ =>
    list_eqb ci_eqb [want d] (o_ci r)
  | OVRename d1 _ d2 _ => list_eqb ci_eqb [want d1; want d2] (o_ci r)
  | _ => true
  end.

Definition nlinks_ok (s : sstate) (dm : dump) : bool :=
  list_eqb Z.eqb (map sl_nlink (ss_leaves s)) (dm_leaves dm).

(* ---- paginated listings --------------------------------------------------- *)

(* A listing in progress on one directory: the value of the operation
   counter when it was started from cookie 0, and what has been reported
   so far: (cookie to resume after this entry, normalised name, child). *)
Record session := mkSess { se_start : nat; se_rep : list (N * string * child) }.

Fixpoint get_sess (ss : list (nat * session)) (x : nat) : option session :=
  match ss with
  | [] => None
  | (y, se) :: t => if Nat.eqb x y then Some se else get_sess t x
  end.
Definition drop_sess (ss : list (nat * session)) (x : nat) : list (nat * session) :=
  filter (fun p => negb (Nat.eqb (fst p) x)) ss.
Definition put_sess (ss : list (nat * session)) (x : nat) (se : session) : list (nat * session) :=
  (x, se) :: drop_sess ss x.

Fixpoint increasing_from (c : N) (l : list N) : bool :=
  match l with
  | [] => true
  | x :: t => (c <? x)%N && increasing_from x t
  end.

Definition page_entries (r : out) : list (N * string * child) :=
  map (fun e => (r_cookie e, norm (r_name e), r_child e)) (o_entries r).

(* Bindings of [d] that were made before operation [start]. *)
Definition old_shown (start : nat) (d : sdir) : list (string * sbind) :=
  filter (fun p => Nat.ltb (sb_birth (snd p)) start && shown (snd p)) (sd_map d).

Definition was_reported (rep : list (N * string * child)) (p : string * sbind) : bool :=
  existsb (fun t => String.eqb (snd (fst t)) (fst p) && child_eqb (snd t) (sb_child (snd p))) rep.

(* One VirtualReadDir page.  Returns the new session table and "" or a kind. *)
Definition readdir_check (ss : list (nat * session)) (s : sstate) (x : nat) (first : N) (page : nat) (r : out)
    : list (nat * session) * string :=
  if negb (status_eqb (o_status r) SOK) then (ss, "") else
  let es := page_entries r in
  if negb (increasing_from first (map (fun t => fst (fst t)) es))
  then (ss, "C13:readdir-cookies-not-increasing") else
  let base :=
    if (first =? 0)%N then Some (mkSess (ss_clock s) [])
    else match get_sess ss x with
         | Some se =>
           if existsb (fun t => N.eqb (fst (fst t)) first) (se_rep se)
           then Some (mkSess (se_start se) (filter (fun t => (fst (fst t) <=? first)%N) (se_rep se)))
           else None
         | None => None
         end in
  match base with
  | None => (drop_sess ss x, "")     (* not a continuation of a known listing *)
  | Some se =>
    let se1 := mkSess (se_start se) (se_rep se ++ es) in
    let complete := Nat.ltb (length es) page in
    if complete &&
       negb (match sget s x with
             | Some d => forallb (was_reported (se_rep se1)) (old_shown (se_start se) d)
             | None => true end)
    then (put_sess ss x se1, "C13:readdir-missed-entry")
    else (put_sess ss x se1, "")
  end.

(* ---- P on one step ---------------------------------------------------------- *)

Record pstate := mkP { p_s : sstate; p_dm : dump; p_sess : list (nat * session) }.
Definition pinit : pstate := mkP sinit (mkDump [(0%N, false)] []) [].

Definition first_nonempty (l : list string) : string :=
  fold_right (fun k acc => if String.eqb k "" then acc else k) "" l.

Definition p_step (ps : pstate) (o : op) (r : out) (dm : dump) (leak : string) : pstate * string :=
  let '(s', x) := sstep (p_s ps) o in
  let '(ss', rk) := match o with
                    | OVReadDir d c p => readdir_check (p_sess ps) (p_s ps) d c p r
                    | _ => (p_sess ps, "")
                    end in
  let ck := changes_ok (ss_dirs (p_s ps)) (ss_dirs s') (dm_dirs (p_dm ps)) (dm_dirs dm) in
  (mkP s' dm ss',
   first_nonempty
     [ (if String.eqb leak "" then "" else "C14:lock-leak:" ++ leak);
       oracle x s' o r dm;
       (if nlinks_ok s' dm then "" else "C13:nlink:" ++ op_name o);
       (if String.eqb ck "" then "" else ck ++ ":" ++ op_name o);
       (if changeinfo_ok o r (p_dm ps) dm then "" else "C13:changeinfo:" ++ op_name o);
       rk ]).

(* First violation of P along an observed trace: (step index, kind). *)
Fixpoint first_viol (i : nat) (ps : pstate) (tr : list (op * out * dump * string)) : option (nat * string) :=
  match tr with
  | [] => None
  | (o, r, dm, leak) :: t =>
    let '(ps', k) := p_step ps o r dm leak in
    if String.eqb k "" then first_viol (S i) ps' t else Some (i, k)
  end.

Definition trace_ok (tr : list (op * out * dump * string)) : bool :=
  match first_viol 0 pinit tr with None => true | Some _ => false end.

End SpecWithNames.
