(* C13 — the property theorems, and nothing else.

   norm / hidden are the name normaliser and the hidden-file matcher of the
   file system; every theorem holds for arbitrary ones.  The model
   (Model.v) transcribes in_memory_prepopulated_directory.go; P (Spec.v:
   p_step / trace_ok) is the predicate that Corr.v evaluates on traces of
   the Go implementation. *)
From VF Require Import Dir.Model Dir.Spec Dir.Abs Dir.Proofs Dir.Listing.
Open Scope string_scope.

(* P — the reference hierarchy as oracle for status/result/link counts/
   listings, the change-counter predicate, the ChangeInfo predicate and the
   listing-session predicate — holds along the model trace of every
   history that does not rename a directory into itself or one of its own
   descendants. *)
Theorem trace_ok_model : forall norm hidden ops,
  no_rename_into_own_descendant norm hidden ops ->
  trace_ok norm hidden (mtrace norm hidden ops) = true.
Proof. exact trace_ok_model_l. Qed.
Print Assumptions trace_ok_model.

(* The unrestricted statement is false: the Go code (and so the faithful
   model) lets a directory be renamed into its own descendant, where POSIX
   demands EINVAL (DESIGN §6 F8; known finding C13:rename-into-own-descendant).
   The witness is replayed on the implementation by corpus/C13. *)
Theorem trace_ok_refuted :
  exists ops, trace_ok (fun s => s) hidden_dot_h (mtrace (fun s => s) hidden_dot_h ops) = false.
Proof. exact trace_ok_refuted_l. Qed.
Print Assumptions trace_ok_refuted.

(* dir_refines: run side by side from the initial states, the reference
   hierarchy stays the abstraction of the model state after every history
   (every operation commutes with the abstraction function), and the
   oracle accepts every output of the model: status, returned object, link
   count, listing contents, attributes. *)
Theorem dir_refines : forall norm hidden ops,
  no_rename_into_own_descendant norm hidden ops ->
  srun norm hidden sinit ops = abs (run norm hidden init_state ops) /\
  oracle_all norm hidden sinit (trace norm hidden init_state ops) = true.
Proof. exact dir_refines_l. Qed.
Print Assumptions dir_refines.

(* changeid_strict: after any history whatsoever, for any further
   operation and any directory: the change counter does not decrease; it
   strictly increases if the directory's set of bindings changed; it is
   unchanged otherwise. *)
Theorem changeid_strict : forall norm hidden ops o x d d',
  let st := run norm hidden init_state ops in
  get_dir st x = Some d -> get_dir (fst (step norm hidden st o)) x = Some d' ->
  (d_change d <= d_change d')%N /\
  (modified (abs_dir d) (abs_dir d') = true -> (d_change d < d_change d')%N) /\
  (modified (abs_dir d) (abs_dir d') = false -> d_change d = d_change d').
Proof. exact changeid_strict_l. Qed.
Print Assumptions changeid_strict.

(* readdir_complete: after any history, list directory x page by page
   ([segs]: before every page an arbitrary sequence of operations, then a
   page of arbitrary size resumed from the cookie of the last entry
   reported so far).  No entry is reported twice (the resume cookies of all
   reported entries are pairwise different), and if the last page came back
   short, every visible entry that was attached before the first page and
   is still attached at the last page has been reported (so: exactly once). *)
Theorem readdir_complete : forall norm hidden ops0 x segs d0,
  let st0 := run norm hidden init_state ops0 in
  get_dir st0 x = Some d0 -> segs <> [] ->
  let stf := fst (fst (listing norm hidden st0 x 0 segs)) in
  let all := concat (snd (fst (listing norm hidden st0 x 0 segs))) in
  NoDup (map r_cookie all) /\
  (snd (listing norm hidden st0 x 0 segs) = true ->
   forall df e, get_dir stf x = Some df -> In e (d_entries d0) -> In e (d_entries df) ->
     visible hidden e = true -> exists r, In r all /\ reports e r).
Proof. exact readdir_complete_l. Qed.
Print Assumptions readdir_complete.

(* Every reachable state is well formed: per directory the normalised names
   are pairwise different (entriesMap and entriesList agree), cookies
   strictly increase along the entry list and stay below the change
   counter, directories that were never initialised are empty, and all
   references point to existing objects. *)
Theorem reachable_well_formed : forall norm hidden ops,
  let st := run norm hidden init_state ops in
  VF.Dir.WF.WF norm (st_clock st) st.
Proof. exact WF_run. Qed.
Print Assumptions reachable_well_formed.

(* ---- non-vacuity ------------------------------------------------------------ *)

Definition demo : list op :=
  [OVMkdir 0 "a"; OVOpen 1 "f" true false false; OVLink 0 "g" 0; OVMknod 0 ".h" MSymlink false;
   OVReadDir 0 0 1; OVMkdir 0 "b"; OVRename 0 "a" 2 "A"; OVReadDir 0 2 1; OVReadDir 0 4 5;
   OCreateChildren 0 [("z", NewLeafC KFile); ("c", NewDirC)] true; ORemoveAll 0 "b"; OVRemove 0 "g" false true].

(* The hypothesis is satisfiable by a history that renames directories,
   lists with interleaved mutations and removes recursively ... *)
Example demo_allowed : no_rename_into_own_descendant lower hidden_dot_h demo.
Proof. vm_compute. reflexivity. Qed.

(* ... and reaches a non-trivial state. *)
Example demo_state :
  map (fun d => (length (d_entries d), d_deleted d, d_change d)) (st_dirs (run lower hidden_dot_h init_state demo))
  = [(3, false, 9%N); (0, true, 2%N); (0, true, 2%N); (0, false, 0%N)].
Proof. vm_compute. reflexivity. Qed.

(* A listing in three pages with a removal and a creation in between reaches its end. *)
Example demo_listing :
  let '(_, pages, fin) := listing lower hidden_dot_h (run lower hidden_dot_h init_state [OVMkdir 0 "a"; OVMkdir 0 "b"; OVMkdir 0 "c"]) 0 0
        [([], 1); ([OVRemove 0 "b" true true; OVMkdir 0 "d"], 1); ([], 5)] in
  (map (map r_name) pages, fin) = ([["a"]; ["c"]; ["d"]], true).
Proof. vm_compute. reflexivity. Qed.
