(* C13 — the property theorems, and nothing else. *)
From VF Require Import Dir.Model Dir.Spec Dir.Proofs.
Open Scope string_scope.

(* The unrestricted statement "P holds on every trace of the model" is
   false: the Go code (and so the model) lets a directory be renamed into
   its own descendant (DESIGN §6 F8, known finding). *)
Theorem trace_ok_refuted :
  exists ops, trace_ok (fun s => s) hidden_dot_h (mtrace (fun s => s) hidden_dot_h ops) = false.
Proof. exact trace_ok_refuted_l. Qed.
Print Assumptions trace_ok_refuted.
