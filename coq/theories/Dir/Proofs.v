(* The main results about the directory model: P holds along every model
   trace (under the hypothesis that names the known finding F8), and its
   three named views dir_refines, changeid_strict, readdir_complete. *)
From Coq Require Import Lia ZifyBool ZifyN ZifyNat.
From VF Require Import Dir.Model Dir.Spec Dir.Abs Dir.Refine Dir.WF Dir.Rec Dir.Step Dir.Evolve Dir.ChangeId Dir.ReadDir.
Open Scope string_scope.

(* The model trace of a history, in the shape P reads (no lock can leak in the model). *)
Definition mtrace (norm : string -> string) (hidden : string -> bool) (ops : list op)
  : list (op * out * dump * string) :=
  map (fun t => (t, "")) (trace norm hidden init_state ops).

(* F8: without the hypothesis the statement is false of the (faithful) model. *)
Definition riod_witness : list op := [OVMkdir 0 "a"; OVRename 0 "a" 1 "b"].

Lemma trace_ok_refuted_l :
  exists ops, trace_ok (fun s => s) hidden_dot_h (mtrace (fun s => s) hidden_dot_h ops) = false.
Proof. exists riod_witness. vm_compute. reflexivity. Qed.

Section Main.
Variable norm : string -> string.
Variable hidden : string -> bool.

(* ---- well-formedness of every reachable state (no hypothesis needed) ----------------------------- *)

Lemma WF_step_core c st o :
  WF norm c st -> st_clock st < c -> WF norm c (fst (step_core norm hidden st o)).
Proof.
  intros H Hc. destruct o; cbn [step_core].
  - unfold v_lookup. destruct (get_dir (init st d) d) as [dd|]; [destruct (find_entry _ _)|]; cbn [fst]; now apply WF_init.
  - now apply WF_v_open.
  - now apply WF_v_mkdir.
  - now apply WF_v_mknod.
  - now apply WF_v_link.
  - exact H.
  - now apply WF_v_remove.
  - now apply WF_v_rename.
  - unfold v_readdir. destruct (get_dir (init st d) d); cbn [fst]; now apply WF_init.
  - unfold lookup_child. destruct (get_dir (init st d) d) as [dd|]; [destruct (find_entry _ _)|]; cbn [fst]; now apply WF_init.
  - unfold lookup_all. destruct (get_dir (init st d) d); cbn [fst]; now apply WF_init.
  - unfold read_dir. destruct (get_dir (init st d) d); cbn [fst]; now apply WF_init.
  - now apply WF_remove.
  - now apply ref_remove_all.
  - now apply ref_remove_all_children_op.
  - now apply ref_create_children.
  - now apply WF_create_and_enter.
  - now apply ref_filter_children.
  - now apply WF_install_hooks.
Qed.

Lemma clock_step st o : st_clock (fst (step norm hidden st o)) = S (st_clock st).
Proof. unfold step. destruct (step_core norm hidden st o). reflexivity. Qed.

Lemma WF_step st o :
  WF norm (st_clock st) st -> WF norm (st_clock (fst (step norm hidden st o))) (fst (step norm hidden st o)).
Proof.
  intros W. rewrite clock_step. unfold step.
  pose proof (WF_step_core (S (st_clock st)) st o) as H.
  destruct (step_core norm hidden st o) as [st1 r]. cbn [fst] in *.
  apply WF_tick. apply H; [|lia]. eapply WF_mono; [|exact W]. lia.
Qed.

Lemma WF_init_state : WF norm 0 init_state.
Proof.
  intros x d Hd. unfold init_state, get_dir in Hd. cbn in Hd.
  destruct x; [|destruct x; discriminate]. injection Hd as <-. apply dir_ok_clear.
Qed.

Lemma WF_run_from ops : forall st, WF norm (st_clock st) st ->
  WF norm (st_clock (run norm hidden st ops)) (run norm hidden st ops).
Proof. induction ops as [|o t IH]; intros st W; cbn [run]; auto. apply IH. now apply WF_step. Qed.

Lemma WF_run ops : WF norm (st_clock (run norm hidden init_state ops)) (run norm hidden init_state ops).
Proof. apply WF_run_from. apply WF_init_state. Qed.

(* ---- P along model traces ------------------------------------------------------------------------- *)

Record PInv (st : state) (ps : pstate) : Prop := mkPInv {
  pi_s : p_s ps = abs st;
  pi_dm : p_dm ps = dump_of st;
  pi_wf : WF norm (st_clock st) st;
  pi_sess : SessInv norm hidden st (p_sess ps) }.

Lemma PInv_init : PInv init_state pinit.
Proof.
  constructor; try reflexivity.
  - apply WF_init_state.
  - intros x se Hg. discriminate.
Qed.

Lemma sstep_abs st o :
  WF norm (st_clock st) st -> is_riod norm hidden (abs st) o = false ->
  fst (sstep norm hidden (abs st) o) = abs (fst (step norm hidden st o)) /\
  matches (snd (sstep norm hidden (abs st) o)) (snd (step norm hidden st o)).
Proof.
  intros W Hr. unfold is_riod, sstep, step in *.
  assert (WF norm (S (st_clock st)) st) as W' by (eapply WF_mono; [|exact W]; lia).
  pose proof (step_core_ref norm hidden (S (st_clock st)) st o W' (Nat.lt_succ_diag_r _)) as H.
  destruct (sstep_core norm hidden (abs st) o) as [s1 x] eqn:Es.
  destruct (step_core norm hidden st o) as [st1 r] eqn:Em. cbn [fst snd] in *.
  destruct (H Hr) as [H1 [H2 _]]. split; auto. rewrite abs_tick, <- H1. now rewrite abs_clock.
Qed.

Lemma nlinks_abs_step st o :
  nlinks_ok (abs (fst (step norm hidden st o))) (dump_of (fst (step norm hidden st o))) = true.
Proof. unfold step. destruct (step_core norm hidden st o) as [st1 r]. cbn [fst]. apply (nlinks_ok_abs (S (st_clock st)) st1). Qed.

Lemma rd_case st ss d c p :
  WF norm (st_clock st) st -> SessInv norm hidden st ss ->
  exists ss' rk,
    readdir_check norm hidden ss (abs st) d c p (snd (step norm hidden st (OVReadDir d c p))) = (ss', rk) /\
    rk = "" /\ SessInv norm hidden (fst (step norm hidden st (OVReadDir d c p))) ss'.
Proof.
  intros I3 I4.
  assert (WF norm (S (st_clock st)) st) as W1 by (eapply WF_mono; [|exact I3]; lia).
  destruct (readdir_check_model norm hidden (S (st_clock st)) st ss d c p W1 I4) as [R1 R2].
  assert (step norm hidden st (OVReadDir d c p) =
          (tick (S (st_clock st)) (init st d), snd (v_readdir hidden st d c p))) as Est.
  { unfold step. cbn [step_core]. unfold v_readdir. destruct (get_dir (init st d) d); reflexivity. }
  rewrite Est. cbn [fst snd].
  destruct (readdir_check norm hidden ss (abs st) d c p (snd (v_readdir hidden st d c p))) as [ss' rk].
  exists ss', rk. cbn [fst snd] in *. auto.
Qed.

Lemma p_step_model st ps o :
  PInv st ps -> is_riod norm hidden (abs st) o = false ->
  snd (p_step norm hidden ps o (snd (step norm hidden st o)) (dump_of (fst (step norm hidden st o))) "") = "" /\
  PInv (fst (step norm hidden st o)) (fst (p_step norm hidden ps o (snd (step norm hidden st o)) (dump_of (fst (step norm hidden st o))) "")).
Proof.
  intros [I1 I2 I3 I4] Hr. unfold p_step. rewrite I1, I2.
  destruct (sstep_abs st o I3 Hr) as [A1 A2].
  destruct (sstep norm hidden (abs st) o) as [s' x] eqn:Es. cbn [fst snd] in A1, A2. subst s'.
  pose proof (WF_step st o I3) as W'.
  pose proof (changes_ok_step norm hidden st o I3) as Hck.
  pose proof (changeinfo_step norm hidden st o) as Hci.
  (* the oracle *)
  assert (oracle x (abs (fst (step norm hidden st o))) o (snd (step norm hidden st o))
                 (dump_of (fst (step norm hidden st o))) = "") as Hor.
  { apply oracle_ok; auto. intros Hok. unfold step in *.
    assert (WF norm (S (st_clock st)) st) as W1 by (eapply WF_mono; [|exact I3]; lia).
    pose proof (attrs_ok_step norm hidden (S (st_clock st)) (S (st_clock st)) st o W1) as Ha.
    destruct (step_core norm hidden st o) as [st1 r]. cbn [fst snd] in *. now apply Ha. }
  (* listings *)
  assert (exists ss' rk,
            match o with
            | OVReadDir d c p => readdir_check norm hidden (p_sess ps) (abs st) d c p (snd (step norm hidden st o))
            | _ => (p_sess ps, "")
            end = (ss', rk) /\ rk = "" /\ SessInv norm hidden (fst (step norm hidden st o)) ss') as [ss' [rk [E1 [E2 E3]]]].
  { assert (SessInv norm hidden (fst (step norm hidden st o)) (p_sess ps)) as Hdef.
    { apply (SessInv_step norm hidden st (fst (step norm hidden st o)) (p_sess ps) I3); auto.
      - pose proof (step_EVA norm hidden st o I3) as Hev. unfold step.
        destruct (step_core norm hidden st o) as [st1 r]. cbn [fst] in *. exact Hev.
      - rewrite clock_step. lia. }
    destruct o; try (exists (p_sess ps), ""; split; [reflexivity|split; [reflexivity|exact Hdef]]).
    now apply rd_case. }
  rewrite E1. cbn [fst snd]. rewrite Hor, Hck, Hci, E2. rewrite nlinks_abs_step. cbn.
  split; [reflexivity|]. constructor; auto.
Qed.

Lemma first_viol_model ops : forall st ps i,
  PInv st ps -> no_riod_from norm hidden (abs st) ops = true ->
  first_viol norm hidden i ps (map (fun t => (t, "")) (trace norm hidden st ops)) = None.
Proof.
  induction ops as [|o t IH]; intros st ps i HI Hn; cbn [trace map first_viol]; auto.
  cbn [no_riod_from] in Hn. apply andb_prop in Hn as [Hr Hn]. apply negb_true_iff in Hr.
  destruct (p_step_model st ps o HI Hr) as [P1 P2].
  destruct (sstep_abs st o (pi_wf _ _ HI) Hr) as [A1 _]. rewrite A1 in Hn.
  destruct (step norm hidden st o) as [st1 r]. cbn [fst snd map first_viol] in *.
  destruct (p_step norm hidden ps o r (dump_of st1) "") as [ps' k]. cbn [fst snd] in *. subst k.
  cbn. now apply IH.
Qed.

Lemma abs_init_state : abs init_state = sinit.
Proof. reflexivity. Qed.

(* P holds along the model trace of every history that does not rename a
   directory into itself or its own descendant. *)
Lemma trace_ok_model_l ops :
  no_rename_into_own_descendant norm hidden ops -> trace_ok norm hidden (mtrace norm hidden ops) = true.
Proof.
  intros Hn. unfold trace_ok, mtrace. rewrite (first_viol_model ops init_state pinit 0); auto using PInv_init.
Qed.

(* dir_refines: the reference hierarchy simulates the model step by step
   (abstraction commutes) and its oracle accepts every output. *)
Lemma dir_refines_from ops : forall st,
  WF norm (st_clock st) st -> no_riod_from norm hidden (abs st) ops = true ->
  srun norm hidden (abs st) ops = abs (run norm hidden st ops) /\
  oracle_all norm hidden (abs st) (trace norm hidden st ops) = true.
Proof.
  induction ops as [|o t IH]; intros st W Hn; cbn [srun run trace oracle_all]; auto.
  cbn [no_riod_from] in Hn. apply andb_prop in Hn as [Hr Hn]. apply negb_true_iff in Hr.
  destruct (sstep_abs st o W Hr) as [A1 A2]. rewrite A1 in Hn.
  pose proof (WF_step st o W) as W'.
  assert (oracle (snd (sstep norm hidden (abs st) o)) (abs (fst (step norm hidden st o))) o
                 (snd (step norm hidden st o)) (dump_of (fst (step norm hidden st o))) = "") as Hor.
  { apply oracle_ok; auto. intros Hok. unfold step in *.
    assert (WF norm (S (st_clock st)) st) as W1 by (eapply WF_mono; [|exact W]; lia).
    pose proof (attrs_ok_step norm hidden (S (st_clock st)) (S (st_clock st)) st o W1) as Ha.
    destruct (step_core norm hidden st o) as [st1 r]. cbn [fst snd] in *. now apply Ha. }
  destruct (IH _ W' Hn) as [I1 I2].
  destruct (sstep norm hidden (abs st) o) as [s' x] eqn:Es. cbn [fst snd] in *. subst s'.
  destruct (step norm hidden st o) as [st1 r]. cbn [fst snd oracle_all] in *.
  rewrite Es, Hor. cbn. auto.
Qed.

Lemma dir_refines_l ops :
  no_rename_into_own_descendant norm hidden ops ->
  srun norm hidden sinit ops = abs (run norm hidden init_state ops) /\
  oracle_all norm hidden sinit (trace norm hidden init_state ops) = true.
Proof. intros Hn. apply (dir_refines_from ops init_state); auto. apply WF_init_state. Qed.

(* changeid_strict: for every history (no hypothesis) and every further
   operation, the change counter of every directory never decreases, it
   strictly increases if the directory's bindings changed, and it stays
   the same otherwise. *)
Lemma changeid_strict_l ops o x d d' :
  let st := run norm hidden init_state ops in
  get_dir st x = Some d -> get_dir (fst (step norm hidden st o)) x = Some d' ->
  (d_change d <= d_change d')%N /\
  (modified (abs_dir d) (abs_dir d') = true -> (d_change d < d_change d')%N) /\
  (modified (abs_dir d) (abs_dir d') = false -> d_change d = d_change d').
Proof.
  intros st Hd Hd'. pose proof (WF_run ops) as W. fold st in W.
  pose proof (step_EVA norm hidden st o W) as Hev. unfold step in Hd'.
  destruct (step_core norm hidden st o) as [st1 r]. cbn [fst] in *.
  destruct (Hev x d Hd) as [d1 [E1 E2]]. change (get_dir (tick (S (st_clock st)) st1) x) with (get_dir st1 x) in Hd'.
  rewrite E1 in Hd'. injection Hd' as <-.
  pose proof (evA_final norm _ _ _ d d1 (W x d Hd) E2) as Hf. unfold dir_step_ok in Hf.
  split; [apply (evA_le _ _ _ E2)|]. destruct (modified (abs_dir d) (abs_dir d1)).
  - split; [intros _; now apply N.ltb_lt|discriminate].
  - split; [discriminate|intros _; now apply N.eqb_eq].
Qed.

End Main.
