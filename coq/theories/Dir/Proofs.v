(* Proofs about the directory model (work in progress: see Properties.v). *)
From Coq Require Import Lia ZifyBool ZifyN ZifyNat.
From VF Require Import Dir.Model Dir.Spec.
Open Scope string_scope.

(* The model trace of a history, in the shape P reads (no lock can leak in the model). *)
Definition mtrace (norm : string -> string) (hidden : string -> bool) (ops : list op)
  : list (op * out * dump * string) :=
  map (fun t => (t, "")) (trace norm hidden init_state ops).

(* F8: without the hypothesis the statement is false of the (faithful) model. *)
Definition riod_witness : list op := [OVMkdir 0 "a"; OVRename 0 "a" 1 "b"].

Lemma trace_ok_refuted_l :
  exists ops, trace_ok (fun s => s) hidden_dot_h (mtrace (fun s => s) hidden_dot_h ops) = false.
Proof. exists riod_witness. vm_compute. reflexivity. Qed.
