(* What the front-end adapter (Front.v, harness/cmd/dir/front*.go) assumes,
   proved: status decoding inverts the encoding of the Go front ends;
   directory offsets are a strictly monotone, injective image of cookies
   that never collides with the reserved positions; a listing addressed by
   offsets is the offset image of the model's listing addressed by
   cookies, so readdir_complete holds of it. *)
From Coq Require Import Lia ZifyBool ZifyN ZifyNat FinFun.
From VF Require Import Dir.Model Dir.Spec Dir.Abs Dir.Refine Dir.WF Dir.Rec Dir.Step Dir.Evolve Dir.ChangeId
  Dir.ReadDir Dir.Proofs Dir.Listing Dir.Corr Dir.Front.
Open Scope string_scope.

(* ---- statuses ---------------------------------------------------------------- *)

Lemma fuse_status_errno_l s e : fuse_errno s = Some e -> fuse_status e = s.
Proof. destruct s; cbn; intros H; inversion H; reflexivity. Qed.

Lemma nfs_status_stat_l s e : nfs_stat s = Some e -> nfs_status e = s.
Proof. destruct s; cbn; intros H; inversion H; reflexivity. Qed.

Lemma fuse_errno_inj_l a b e : fuse_errno a = Some e -> fuse_errno b = Some e -> a = b.
Proof. intros Ha Hb. apply fuse_status_errno_l in Ha, Hb. congruence. Qed.

Lemma nfs_stat_inj_l a b e : nfs_stat a = Some e -> nfs_stat b = Some e -> a = b.
Proof. intros Ha Hb. apply nfs_status_stat_l in Ha, Hb. congruence. Qed.

(* ---- offsets ------------------------------------------------------------------ *)

Lemma off_mono_l a b : (a < b)%N -> (off_of_cookie a < off_of_cookie b)%N.
Proof. unfold off_of_cookie, reserved. lia. Qed.

Lemma off_inj_l : Injective off_of_cookie.
Proof. intros a b. unfold off_of_cookie, reserved. lia. Qed.

Lemma cookie_off_l c : cookie_of_off (off_of_cookie c) = c.
Proof. unfold cookie_of_off, off_of_cookie, reserved. lia. Qed.

Lemma off_cookie_l o : (reserved <= o)%N -> off_of_cookie (cookie_of_off o) = o.
Proof. unfold cookie_of_off, off_of_cookie, reserved. lia. Qed.

Lemma cookie_mono_l a b : (reserved <= a)%N -> (a < b)%N -> (cookie_of_off a < cookie_of_off b)%N.
Proof. unfold cookie_of_off, reserved. lia. Qed.

Lemma cookie_reserved_l o : (o <= reserved)%N -> cookie_of_off o = 0%N.
Proof. unfold cookie_of_off, reserved. lia. Qed.

Lemma off_beyond_reserved_l c : (0 < c)%N -> (reserved < off_of_cookie c)%N.
Proof. unfold off_of_cookie, reserved. lia. Qed.

(* ---- listings addressed by offsets ----------------------------------------------- *)

Record fentry := mkF { f_off : N; f_name : string; f_child : child }.

(* What ReadDir / ReadDirPlus / READDIR make of an entry reported by
   VirtualReadDir: toFUSEDirEntry (Off = dotDotEntriesCount + nextCookie),
   readdirReporter.ReportEntry (Cookie = lastReservedCookie + nextCookie). *)
Definition to_front (r : rentry) : fentry := mkF (off_of_cookie (r_cookie r)) (r_name r) (r_child r).

Section FL.
Variable norm : string -> string.
Variable hidden : string -> bool.

(* A listing as the kernel / an NFS client performs it: every page is
   requested at the offset of the last entry received so far (the first one
   at [off]), the front end serves it from VirtualReadDir at
   [cookie_of_off] of that offset; arbitrary operations in between. *)
Fixpoint flisting (st : state) (x : nat) (off : N) (segs : list (list op * nat))
  : state * list (list fentry) * bool :=
  match segs with
  | [] => (st, [], false)
  | (ops, p) :: t =>
    let st1 := run norm hidden st ops in
    let '(st2, r) := step norm hidden st1 (OVReadDir x (cookie_of_off off) p) in
    let es := map to_front (o_entries r) in
    let short := Nat.ltb (length es) p in
    match t with
    | [] => (st2, [es], short)
    | _ => let '(st3, pages, fin) := flisting st2 x (last (map f_off es) off) t in
           (st3, es :: pages, fin)
    end
  end.

Lemma last_round (l : list rentry) d :
  cookie_of_off (last (map f_off (map to_front l)) d) = last (map r_cookie l) (cookie_of_off d).
Proof.
  induction l as [|a t IH]; [reflexivity|].
  destruct t as [|b t'].
  - cbn. apply cookie_off_l.
  - change (last (map f_off (map to_front (a :: b :: t'))) d) with (last (map f_off (map to_front (b :: t'))) d).
    change (last (map r_cookie (a :: b :: t')) (cookie_of_off d)) with (last (map r_cookie (b :: t')) (cookie_of_off d)).
    exact IH.
Qed.

(* The offset-addressed listing is the offset image of the cookie-addressed one. *)
Lemma flisting_listing_l segs : forall st x off,
  flisting st x off segs =
  (let '(st', pages, fin) := listing norm hidden st x (cookie_of_off off) segs in
   (st', map (map to_front) pages, fin)).
Proof.
  induction segs as [|[ops p] t IH]; intros st x off; [reflexivity|].
  cbn [flisting listing].
  destruct (step norm hidden (run norm hidden st ops) (OVReadDir x (cookie_of_off off) p)) as [st2 r].
  rewrite map_length.
  destruct t as [|seg t']; [reflexivity|].
  rewrite IH, last_round.
  destruct (listing norm hidden st2 x (last (map r_cookie (o_entries r)) (cookie_of_off off)) (seg :: t')) as [[st3 pages] fin].
  reflexivity.
Qed.

Lemma map_off_front (l : list rentry) : map f_off (map to_front l) = map off_of_cookie (map r_cookie l).
Proof. rewrite !map_map. reflexivity. Qed.

(* readdir_complete for the front ends.  From any offset inside the
   reserved range (0: a fresh listing; 1, 2: resumed after "." / ".."):
   no offset is handed out twice, none collides with the reserved
   positions, and when the last page comes back short every visible entry
   that was attached before the first page and is still attached at the
   last has been delivered, at the offset of its cookie. *)
Lemma front_readdir_complete_l ops0 x off0 segs d0 :
  let st0 := run norm hidden init_state ops0 in
  get_dir st0 x = Some d0 -> segs <> [] -> (off0 <= reserved)%N ->
  let stf := fst (fst (flisting st0 x off0 segs)) in
  let all := concat (snd (fst (flisting st0 x off0 segs))) in
  NoDup (map f_off all) /\
  (forall f, In f all -> (reserved < f_off f)%N) /\
  (snd (flisting st0 x off0 segs) = true ->
   forall df e, get_dir stf x = Some df -> In e (d_entries d0) -> In e (d_entries df) ->
     visible hidden e = true ->
     exists f, In f all /\ f_off f = off_of_cookie (e_cookie e + 1) /\ f_name f = e_name e /\ f_child f = e_child e).
Proof.
  intros st0 Hd0 Hne Hoff stf all.
  pose proof (readdir_complete_l norm hidden ops0 x segs d0 Hd0 Hne) as [HN HC].
  pose proof (WF_run norm hidden ops0) as W0. fold st0 in W0.
  destruct (listing_inv norm hidden (st_clock st0) x segs st0 0%N [] Hne W0 (Nat.le_refl _)) as [[hi Q1] _].
  { exists d0. split; auto. intros; lia. }
  { cbn. lia. }
  cbn [app] in Q1.
  subst stf all. rewrite flisting_listing_l, (cookie_reserved_l _ Hoff). fold st0 in HN, HC |- *.
  destruct (listing norm hidden st0 x 0 segs) as [[stf pages] fin]. cbn [fst snd] in *.
  rewrite <- concat_map, map_off_front.
  split; [|split].
  - apply Injective_map_NoDup; [exact off_inj_l|exact HN].
  - intros f Hf. apply in_map_iff in Hf as [r [<- Hr]]. cbn [to_front f_off].
    apply off_beyond_reserved_l.
    assert (In (r_cookie r) (map r_cookie (concat pages))) as Hin by (now apply in_map).
    pose proof (incr_upto_lt _ _ _ _ Q1 Hin). lia.
  - intros Hfin df e Hdf He0 Hef Hv.
    destruct (HC Hfin df e Hdf He0 Hef Hv) as [r [Hr [R1 [R2 R3]]]].
    exists (to_front r). split; [now apply in_map|]. cbn [to_front f_off f_name f_child].
    rewrite R1. auto.
Qed.

End FL.

(* Non-vacuity: a FUSE style listing (pages of 2, 1, 5 resumed at the
   offsets received, with a removal and a creation in between) delivers
   a, c, d at offsets 3, 5, 7 and reaches its end. *)
Example demo_flisting :
  let '(_, pages, fin) :=
    flisting lower hidden_dot_h (run lower hidden_dot_h init_state [OVMkdir 0 "a"; OVMkdir 0 "b"; OVMkdir 0 "c"]) 0 0
             [([], 1); ([OVRemove 0 "b" true true; OVMkdir 0 "d"], 1); ([], 5)] in
  (map (map (fun f => (f_off f, f_name f))) pages, fin) = ([[(3%N, "a")]; [(5%N, "c")]; [(7%N, "d")]], true).
Proof. vm_compute. reflexivity. Qed.
