(* Well-formedness of model states and its preservation by the store
   primitives: normalised names unique per directory, cookies strictly
   increasing along the entry list and below the change counter, birth
   stamps below the operation counter, uninitialised directories empty,
   references in range. *)
From Coq Require Import Lia ZifyBool ZifyN ZifyNat.
From VF Require Import Dir.Model Dir.Spec Dir.Abs Dir.Refine.
Open Scope string_scope.

Fixpoint csorted (es : list entry) (hi : N) : Prop :=
  match es with
  | [] => True
  | e :: t => (forall e', In e' t -> (e_cookie e < e_cookie e')%N) /\ (e_cookie e < hi)%N /\ csorted t hi
  end.

Definition child_ok (nd nl : nat) (c : child) : Prop :=
  match c with CDir y => y < nd | CLeaf l => l < nl end.

Section WFS.
Variable norm : string -> string.

Record dir_ok (c nd nl : nat) (d : dir) : Prop := mkOk {
  ok_keys : NoDup (map e_norm (d_entries d));
  ok_norm : forall e, In e (d_entries d) -> e_norm e = norm (e_name e);
  ok_cookies : csorted (d_entries d) (d_change d);
  ok_births : forall e, In e (d_entries d) -> e_birth e < c;
  ok_uninit : d_uninit d = true -> d_entries d = [];
  ok_refs : forall e, In e (d_entries d) -> child_ok nd nl (e_child e) }.

Definition WF (c : nat) (st : state) : Prop :=
  forall x d, get_dir st x = Some d -> dir_ok c (length (st_dirs st)) (length (st_leaves st)) d.

Lemma child_ok_mono nd nl nd' nl' ch : nd <= nd' -> nl <= nl' -> child_ok nd nl ch -> child_ok nd' nl' ch.
Proof. destruct ch; cbn; lia. Qed.

Lemma dir_ok_mono c nd nl c' nd' nl' d :
  c <= c' -> nd <= nd' -> nl <= nl' -> dir_ok c nd nl d -> dir_ok c' nd' nl' d.
Proof.
  intros Hc Hd Hl [K1 K2 K3 K4 K5 K6]. constructor; auto.
  - intros e He. specialize (K4 e He). lia.
  - intros e He. eapply child_ok_mono; eauto.
Qed.

(* ---- cookies ------------------------------------------------------------------ *)

Lemma csorted_mono es hi hi' : (hi <= hi')%N -> csorted es hi -> csorted es hi'.
Proof. induction es as [|e t IH]; cbn; auto. intros H [H1 [H2 H3]]. repeat split; auto. lia. Qed.

Lemma csorted_lt es hi e : csorted es hi -> In e es -> (e_cookie e < hi)%N.
Proof. induction es as [|a t IH]; cbn; [tauto|]. intros [H1 [H2 H3]] [->|H]; auto. Qed.

Lemma csorted_filter p es hi : csorted es hi -> csorted (filter p es) hi.
Proof.
  induction es as [|e t IH]; cbn; auto. intros [H1 [H2 H3]].
  destruct (p e); cbn; auto. repeat split; auto.
  intros e' He'. apply filter_In in He' as [He' _]. auto.
Qed.

Lemma csorted_snoc es hi e hi' :
  csorted es hi -> (hi <= e_cookie e)%N -> (e_cookie e < hi')%N -> csorted (es ++ [e]) hi'.
Proof.
  induction es as [|a t IH]; cbn; intros H Hlo Hhi.
  - repeat split; auto. intros ? [].
  - destruct H as [H1 [H2 H3]]. repeat split.
    + intros e' He'. apply in_app_or in He' as [He'|[<-|[]]]; auto. lia.
    + lia.
    + apply IH; auto.
Qed.

(* ---- keys --------------------------------------------------------------------- *)

Lemma find_entry_none k es : find_entry k es = None -> ~ In k (map e_norm es).
Proof.
  unfold find_entry. induction es as [|e t IH]; cbn; [tauto|].
  destruct (String.eqb (e_norm e) k) eqn:E; [discriminate|].
  intros H [H'|H']; [|now apply IH]. subst. now rewrite String.eqb_refl in E.
Qed.

Lemma find_entry_some k es e : find_entry k es = Some e -> In e es /\ e_norm e = k.
Proof.
  unfold find_entry. intros H. apply find_some in H as [H1 H2]. apply String.eqb_eq in H2. auto.
Qed.

Lemma find_entry_filter_self k es :
  find_entry k (filter (fun e => negb (String.eqb (e_norm e) k)) es) = None.
Proof.
  unfold find_entry. induction es as [|e t IH]; cbn; auto.
  destruct (String.eqb (e_norm e) k) eqn:E; cbn; auto. rewrite E; auto.
Qed.

Lemma find_entry_filter_none k p es : find_entry k es = None -> find_entry k (filter p es) = None.
Proof.
  unfold find_entry. induction es as [|e t IH]; cbn; auto.
  destruct (String.eqb (e_norm e) k) eqn:E; [discriminate|]. intros H.
  destruct (p e); cbn; auto. rewrite E; auto.
Qed.

Lemma NoDup_map_filter {A B} (f : A -> B) p l : NoDup (map f l) -> NoDup (map f (filter p l)).
Proof.
  induction l as [|a t IH]; cbn; auto. intros H. inversion H; subst.
  destruct (p a); cbn; auto. constructor; auto.
  intros Hin. apply in_map_iff in Hin as [x [Hx1 Hx2]]. apply filter_In in Hx2 as [Hx2 _].
  apply H2. rewrite <- Hx1. now apply in_map.
Qed.

Lemma NoDup_app_snoc {A} (l : list A) x : NoDup l -> ~ In x l -> NoDup (l ++ [x]).
Proof.
  induction l as [|a t IH]; cbn; intros H Hn.
  - repeat constructor; auto.
  - inversion H; subst. constructor.
    + intros Hin. apply in_app_or in Hin as [Hin|[<-|[]]]; auto.
    + apply IH; auto.
Qed.

(* ---- directories --------------------------------------------------------------- *)

Lemma dir_ok_attach c nd nl d b name key ch :
  dir_ok c nd nl d -> find_entry key (d_entries d) = None -> key = norm name ->
  child_ok nd nl ch -> b < c -> d_uninit d = false ->
  dir_ok c nd nl (attach b name key ch d).
Proof.
  intros [K1 K2 K3 K4 K5 K6] Hf Hk Hc Hb Hu. unfold attach. constructor; cbn.
  - rewrite map_app. cbn. apply NoDup_app_snoc; auto. now apply find_entry_none.
  - intros e He. apply in_app_or in He as [He|[<-|[]]]; auto.
  - eapply csorted_snoc; eauto; cbn; lia.
  - intros e He. apply in_app_or in He as [He|[<-|[]]]; auto.
  - congruence.
  - intros e He. apply in_app_or in He as [He|[<-|[]]]; auto.
Qed.

Lemma dir_ok_detach c nd nl d k : dir_ok c nd nl d -> dir_ok c nd nl (detach k d).
Proof.
  intros [K1 K2 K3 K4 K5 K6]. unfold detach. constructor; cbn.
  - now apply NoDup_map_filter.
  - intros e He. apply filter_In in He as [He _]. auto.
  - apply csorted_filter. eapply csorted_mono; eauto. lia.
  - intros e He. apply filter_In in He as [He _]. auto.
  - intros Hu. now rewrite K5.
  - intros e He. apply filter_In in He as [He _]. auto.
Qed.

Lemma dir_ok_initialise c nd nl d : dir_ok c nd nl d -> dir_ok c nd nl (initialise d).
Proof. intros [K1 K2 K3 K4 K5 K6]. constructor; cbn; auto. discriminate. Qed.

Lemma dir_ok_clear c nd nl del chg un hooks : dir_ok c nd nl (mkDir [] del chg un hooks).
Proof. constructor; cbn; auto; try tauto. constructor. Qed.

Lemma dir_ok_hooks c nd nl d t :
  dir_ok c nd nl d -> dir_ok c nd nl (mkDir (d_entries d) (d_deleted d) (d_change d) (d_uninit d) t).
Proof. intros [K1 K2 K3 K4 K5 K6]. constructor; cbn; auto. Qed.

(* ---- states ---------------------------------------------------------------------- *)

Lemma ndirs_mod_dir st x f : length (st_dirs (mod_dir st x f)) = length (st_dirs st).
Proof. unfold mod_dir. destruct (get_dir st x); auto. cbn. apply upd_length. Qed.
Lemma nleaves_mod_dir st x f : length (st_leaves (mod_dir st x f)) = length (st_leaves st).
Proof. unfold mod_dir. destruct (get_dir st x); auto. Qed.
Lemma ndirs_mod_leaf st x f : length (st_dirs (mod_leaf st x f)) = length (st_dirs st).
Proof. unfold mod_leaf. destruct (get_leaf st x); auto. Qed.
Lemma nleaves_mod_leaf st x f : length (st_leaves (mod_leaf st x f)) = length (st_leaves st).
Proof. unfold mod_leaf. destruct (get_leaf st x); auto. cbn. apply upd_length. Qed.

Lemma WF_mod_dir c st x f :
  WF c st ->
  (forall d, get_dir st x = Some d ->
             dir_ok c (length (st_dirs st)) (length (st_leaves st)) d ->
             dir_ok c (length (st_dirs st)) (length (st_leaves st)) (f d)) ->
  WF c (mod_dir st x f).
Proof.
  intros H Hf y d Hy. rewrite ndirs_mod_dir, nleaves_mod_dir. rewrite get_dir_mod_dir in Hy.
  destruct (Nat.eqb y x) eqn:E; [|now apply (H y)].
  apply Nat.eqb_eq in E; subst y. destruct (get_dir st x) as [d0|] eqn:E0; [|discriminate].
  injection Hy as <-. apply Hf; auto. now apply (H x).
Qed.

Lemma WF_mod_leaf c st l f : WF c st -> WF c (mod_leaf st l f).
Proof.
  intros H y d Hy. rewrite ndirs_mod_leaf, nleaves_mod_leaf. rewrite get_dir_mod_leaf in Hy. now apply (H y).
Qed.

Lemma WF_init c st x : WF c st -> WF c (init st x).
Proof. intros H. apply WF_mod_dir; auto. intros; now apply dir_ok_initialise. Qed.

Lemma WF_unlink c st l : WF c st -> WF c (unlink st l).
Proof. apply WF_mod_leaf. Qed.

Lemma WF_link c st l : WF c st -> WF c (link st l).
Proof. apply WF_mod_leaf. Qed.

Lemma WF_detach c st x k : WF c st -> WF c (mod_dir st x (detach k)).
Proof. intros H. apply WF_mod_dir; auto. intros; now apply dir_ok_detach. Qed.

Lemma get_dir_add_leaf st lf x : get_dir (fst (add_leaf st lf)) x = get_dir st x.
Proof. reflexivity. Qed.

Lemma get_dir_add_dir st d0 x :
  get_dir (fst (add_dir st d0)) x =
  if Nat.eqb x (length (st_dirs st)) then Some d0
  else get_dir st x.
Proof.
  unfold add_dir, get_dir; cbn.
  destruct (Nat.eqb x (length (st_dirs st))) eqn:E.
  - apply Nat.eqb_eq in E; subst. rewrite nth_error_app2, Nat.sub_diag; auto.
  - apply Nat.eqb_neq in E. destruct (Nat.lt_ge_cases x (length (st_dirs st))).
    + now rewrite nth_error_app1.
    + rewrite nth_error_app2 by lia. destruct (x - length (st_dirs st)) as [|k] eqn:Ek; [lia|].
      cbn. destruct k; cbn; symmetry; apply nth_error_None; lia.
Qed.

Lemma get_dir_lt st x d : get_dir st x = Some d -> x < length (st_dirs st).
Proof. unfold get_dir. intros H. apply nth_error_Some. congruence. Qed.

Lemma get_leaf_lt st x d : get_leaf st x = Some d -> x < length (st_leaves st).
Proof. unfold get_leaf. intros H. apply nth_error_Some. congruence. Qed.

Lemma get_dir_add_dir_old st d0 x d : get_dir st x = Some d -> get_dir (fst (add_dir st d0)) x = Some d.
Proof.
  intros H. rewrite get_dir_add_dir. pose proof (get_dir_lt _ _ _ H).
  destruct (Nat.eqb x (length (st_dirs st))) eqn:E; auto. apply Nat.eqb_eq in E. lia.
Qed.

Lemma WF_add_leaf c st lf : WF c st -> WF c (fst (add_leaf st lf)).
Proof.
  intros H y d Hy. unfold add_leaf in *. cbn in *. rewrite app_length. cbn.
  eapply dir_ok_mono; [| | |apply (H y d Hy)]; lia.
Qed.

Lemma WF_add_dir c st h : WF c st -> WF c (fst (add_dir st (new_dir h))).
Proof.
  intros H y d Hy. rewrite get_dir_add_dir in Hy. unfold add_dir. cbn. rewrite app_length. cbn.
  destruct (Nat.eqb y (length (st_dirs st))).
  - injection Hy as <-. apply dir_ok_clear.
  - eapply dir_ok_mono; [| | |apply (H y d Hy)]; lia.
Qed.

Lemma WF_mono c c' st : c <= c' -> WF c st -> WF c' st.
Proof. intros Hc H y d Hy. eapply dir_ok_mono; [| | |apply (H y d Hy)]; auto. Qed.

Lemma WF_fold_unlink c es st :
  WF c st -> WF c (fold_left (fun s e => match e_child e with CLeaf l => unlink s l | CDir _ => s end) es st).
Proof. revert st; induction es as [|e t IH]; intros st H; cbn; auto. apply IH. destruct (e_child e); auto using WF_unlink. Qed.

Lemma WF_mark_deleted c st x : WF c st -> WF c (mark_deleted st x).
Proof.
  intros H. unfold mark_deleted. destruct (get_dir st x) as [d|]; auto. destruct (d_deleted d); auto.
  apply WF_mod_dir; [now apply WF_fold_unlink|]. intros; apply dir_ok_clear.
Qed.

Lemma WF_tick c k st : WF c st -> WF c (tick k st).
Proof. intros H y d Hy. apply (H y d Hy). Qed.

(* Attaching to directory [x]: what has to be known about it right now. *)
Definition attachable (st : state) (x : nat) (key : string) : Prop :=
  forall d, get_dir st x = Some d -> find_entry key (d_entries d) = None /\ d_uninit d = false.

Lemma WF_attach c st x b name key ch :
  WF c st -> attachable st x key -> key = norm name ->
  child_ok (length (st_dirs st)) (length (st_leaves st)) ch -> b < c ->
  WF c (mod_dir st x (attach b name key ch)).
Proof.
  intros H Ha Hk Hc Hb. apply WF_mod_dir; auto. intros d Hd Hok.
  destruct (Ha d Hd). now apply dir_ok_attach.
Qed.

Definition inited (st : state) (x : nat) : Prop :=
  forall d, get_dir st x = Some d -> d_uninit d = false.

Definition keeps_free (k : string) (f : dir -> dir) : Prop :=
  (forall d, find_entry k (d_entries d) = None -> find_entry k (d_entries (f d)) = None) /\
  (forall d, d_uninit d = false -> d_uninit (f d) = false).

Lemma inited_init_self st x : inited (init st x) x.
Proof. intros d H. rewrite get_dir_init_same in H. destruct (get_dir st x); [|discriminate]. now injection H as <-. Qed.

Lemma inited_mod_dir st y f x :
  (forall d, d_uninit d = false -> d_uninit (f d) = false) -> inited st x -> inited (mod_dir st y f) x.
Proof.
  intros Hf H d Hd. rewrite get_dir_mod_dir in Hd. destruct (Nat.eqb x y); [|now apply H].
  destruct (get_dir st x) as [d0|] eqn:E; [|discriminate]. injection Hd as <-. apply Hf. now apply H.
Qed.

Lemma inited_mod_leaf st l f x : inited st x -> inited (mod_leaf st l f) x.
Proof. intros H d Hd. rewrite get_dir_mod_leaf in Hd. now apply H. Qed.

Lemma attachable_mod_dir st y f x k :
  keeps_free k f -> attachable st x k -> attachable (mod_dir st y f) x k.
Proof.
  intros [Hf1 Hf2] H d Hd. rewrite get_dir_mod_dir in Hd. destruct (Nat.eqb x y); [|now apply H].
  destruct (get_dir st x) as [d0|] eqn:E; [|discriminate]. injection Hd as <-.
  destruct (H d0 E). split; auto.
Qed.

Lemma attachable_mod_leaf st l f x k : attachable st x k -> attachable (mod_leaf st l f) x k.
Proof. intros H d Hd. rewrite get_dir_mod_leaf in Hd. now apply H. Qed.

Lemma keeps_free_detach k k' : keeps_free k (detach k').
Proof. split; intros d H; cbn; auto. now apply find_entry_filter_none. Qed.

Lemma keeps_free_initialise k : keeps_free k initialise.
Proof. split; intros d H; cbn; auto. Qed.

Lemma keeps_free_clear k (g : dir -> N) del : keeps_free k (fun d' => mkDir [] (del d') (g d') (d_uninit d') (d_hooks d')).
Proof. split; intros d H; cbn; auto. Qed.

Lemma attachable_detach_self st x k : inited st x -> attachable (mod_dir st x (detach k)) x k.
Proof.
  intros H d Hd. rewrite get_dir_mod_dir_same in Hd. destruct (get_dir st x) as [d0|] eqn:E; [|discriminate].
  cbn in Hd. injection Hd as <-. split; [apply find_entry_filter_self|]. unfold detach; cbn. now apply H.
Qed.

Lemma attachable_found st x d k :
  get_dir st x = Some d -> find_entry k (d_entries d) = None -> d_uninit d = false -> attachable st x k.
Proof. intros H1 H2 H3 d' Hd'. rewrite H1 in Hd'. injection Hd' as <-. auto. Qed.

Lemma attachable_fold_unlink es st x k :
  attachable st x k ->
  attachable (fold_left (fun s e => match e_child e with CLeaf l => unlink s l | CDir _ => s end) es st) x k.
Proof.
  revert st; induction es as [|e t IH]; intros st H; cbn; auto. apply IH.
  destruct (e_child e); auto. now apply attachable_mod_leaf.
Qed.

Lemma attachable_mark_deleted st y x k : attachable st x k -> attachable (mark_deleted st y) x k.
Proof.
  intros H. unfold mark_deleted. destruct (get_dir st y) as [d|]; auto. destruct (d_deleted d); auto.
  apply attachable_mod_dir; [|now apply attachable_fold_unlink].
  split; intros d' H'; cbn; auto.
Qed.

Lemma attachable_add_leaf st lf x k : attachable st x k -> attachable (fst (add_leaf st lf)) x k.
Proof. intros H d Hd. now apply H. Qed.

Lemma attachable_add_dir st h x k d0 :
  get_dir st x = Some d0 -> attachable st x k -> attachable (fst (add_dir st (new_dir h))) x k.
Proof.
  intros H0 H d Hd. rewrite (get_dir_add_dir_old _ _ _ _ H0) in Hd. injection Hd as <-. now apply H.
Qed.

Lemma init_d_uninit st x d : get_dir (init st x) x = Some d -> d_uninit d = false.
Proof. apply inited_init_self. Qed.

Lemma add_leaf_fresh st lf st1 l :
  add_leaf st lf = (st1, l) ->
  l < length (st_leaves st1) /\ length (st_dirs st1) = length (st_dirs st) /\ st1 = fst (add_leaf st lf).
Proof. intros E. pose proof E as E'. unfold add_leaf in E. injection E as <- <-. cbn. rewrite app_length. cbn. rewrite E'. repeat split; auto. lia. Qed.

Lemma add_dir_fresh st d0 st1 y :
  add_dir st d0 = (st1, y) ->
  y < length (st_dirs st1) /\ length (st_leaves st1) = length (st_leaves st) /\ st1 = fst (add_dir st d0).
Proof. intros E. pose proof E as E'. unfold add_dir in E. injection E as <- <-. cbn. rewrite app_length. cbn. rewrite E'. repeat split; auto. lia. Qed.

Variable hidden : string -> bool.

Ltac wf_auto :=
  repeat first
    [ assumption
    | apply WF_init | apply WF_unlink | apply WF_link | apply WF_detach | apply WF_mark_deleted
    | apply WF_add_leaf | apply WF_add_dir ].

Lemma WF_v_open c st x n cr ex f :
  WF c st -> st_clock st < c -> WF c (fst (v_open norm st x n cr ex f)).
Proof.
  intros H Hc. unfold v_open.
  destruct (get_dir (init st x) x) as [d|] eqn:Ed; cbn [fst]; [|wf_auto].
  destruct (find_entry (norm n) (d_entries d)) as [e|] eqn:F.
  - destruct (negb ex); cbn [fst]; [wf_auto|]. destruct (e_child e); cbn [fst]; [wf_auto|].
    destruct (get_leaf (init st x) l) as [lf|]; cbn [fst]; [|wf_auto].
    destruct (open_status (l_kind lf)); cbn [fst]; wf_auto.
  - destruct (d_deleted d || negb cr); cbn [fst]; [wf_auto|]. destruct f; cbn [fst]; [wf_auto|].
    destruct (add_leaf (init st x) _) as [st1 l] eqn:E. apply add_leaf_fresh in E as [E1 [E2 ->]].
    cbn [fst]. apply WF_attach; auto; [wf_auto| |now rewrite clock_init].
    apply attachable_add_leaf. eapply attachable_found; eauto using init_d_uninit.
Qed.

Lemma WF_v_mkdir c st x n :
  WF c st -> st_clock st < c -> WF c (fst (v_mkdir norm st x n)).
Proof.
  intros H Hc. unfold v_mkdir.
  destruct (get_dir (init st x) x) as [d|] eqn:Ed; cbn [fst]; [|wf_auto].
  unfold may_attach. destruct (d_deleted d); cbn [fst]; [wf_auto|].
  destruct (find_entry (norm n) (d_entries d)) as [e|] eqn:F; cbn [fst]; [wf_auto|].
  destruct (add_dir (init st x) _) as [st1 y] eqn:E. apply add_dir_fresh in E as [E1 [E2 ->]].
  cbn [fst]. apply WF_attach; auto; [wf_auto| |now rewrite clock_init].
  eapply attachable_add_dir; eauto. eapply attachable_found; eauto using init_d_uninit.
Qed.

Lemma WF_v_mknod c st x n k f :
  WF c st -> st_clock st < c -> WF c (fst (v_mknod norm st x n k f)).
Proof.
  intros H Hc. unfold v_mknod.
  destruct (get_dir (init st x) x) as [d|] eqn:Ed; cbn [fst]; [|wf_auto].
  unfold may_attach. destruct (d_deleted d); cbn [fst]; [wf_auto|].
  destruct (find_entry (norm n) (d_entries d)) as [e|] eqn:F; cbn [fst]; [wf_auto|].
  assert (forall lk tag, WF c (fst (let '(st1, l) := add_leaf (init st x) (mkLeaf lk 1 tag) in
              let st2 := mod_dir st1 x (attach (st_clock (init st x)) n (norm n) (CLeaf l)) in
              (st2, out_child (CLeaf l) 1 tag [(d_change d, change_of st2 x)])))) as Hmk.
  { intros lk tag. destruct (add_leaf (init st x) _) as [st1 l] eqn:E. apply add_leaf_fresh in E as [E1 [E2 ->]].
    cbn [fst]. apply WF_attach; auto; [wf_auto| |now rewrite clock_init].
    apply attachable_add_leaf. eapply attachable_found; eauto using init_d_uninit. }
  destruct k; try apply Hmk; cbn [fst]; try wf_auto. destruct f; [cbn [fst]; wf_auto|apply Hmk].
Qed.

Lemma WF_v_link c st x n l :
  WF c st -> st_clock st < c -> WF c (fst (v_link norm st x n l)).
Proof.
  intros H Hc. unfold v_link.
  destruct (get_leaf st l) as [lf|] eqn:El; cbn [fst]; [|wf_auto].
  destruct (get_dir (init st x) x) as [d|] eqn:Ed; cbn [fst]; [|wf_auto].
  unfold may_attach. destruct (d_deleted d); cbn [fst]; [wf_auto|].
  destruct (find_entry (norm n) (d_entries d)) as [e|] eqn:F; cbn [fst]; [wf_auto|].
  destruct (link_status lf); cbn [fst]; try wf_auto.
  apply WF_attach; auto; [wf_auto| | |now rewrite clock_init].
  - apply attachable_mod_leaf. eapply attachable_found; eauto using init_d_uninit.
  - cbn. unfold link. rewrite nleaves_mod_leaf. unfold init. rewrite nleaves_mod_dir. eapply get_leaf_lt; eauto.
Qed.

Lemma WF_v_remove c st x n rd rl :
  WF c st -> WF c (fst (v_remove norm hidden st x n rd rl)).
Proof.
  intros H. unfold v_remove.
  destruct (get_dir (init st x) x) as [d|] eqn:Ed; cbn [fst]; [|wf_auto].
  destruct (find_entry (norm n) (d_entries d)) as [e|] eqn:F; cbn [fst]; [|wf_auto].
  destruct (e_child e) as [y|l].
  - destruct (negb rd); cbn [fst]; [wf_auto|].
    destruct (get_dir (init (init st x) y) y) as [dy|]; cbn [fst]; [|wf_auto].
    destruct (negb (deletable hidden dy)); cbn [fst]; wf_auto.
  - destruct (negb rl); cbn [fst]; wf_auto.
Qed.

Lemma WF_remove c st x n :
  WF c st -> WF c (fst (remove norm hidden st x n)).
Proof.
  intros H. unfold remove.
  destruct (get_dir (init st x) x) as [d|] eqn:Ed; cbn [fst]; [|wf_auto].
  destruct (find_entry (norm n) (d_entries d)) as [e|] eqn:F; cbn [fst]; [|wf_auto].
  destruct (e_child e) as [y|l]; cbn [fst]; [|wf_auto].
  destruct (get_dir (init (init st x) y) y) as [dy|]; cbn [fst]; [|wf_auto].
  destruct (negb (deletable hidden dy)); cbn [fst]; wf_auto.
Qed.

Lemma child_ok_found c st x d k e :
  WF c st -> get_dir st x = Some d -> find_entry k (d_entries d) = Some e ->
  child_ok (length (st_dirs st)) (length (st_leaves st)) (e_child e).
Proof. intros H Hd F. apply find_entry_some in F as [F _]. eapply ok_refs; eauto. Qed.

Lemma WF_v_rename c st x1 n1 x2 n2 :
  WF c st -> st_clock st < c -> WF c (fst (v_rename norm hidden st x1 n1 x2 n2)).
Proof.
  intros H Hc. unfold v_rename.
  set (st0 := init (init st x1) x2).
  assert (WF c st0) as H0 by (unfold st0; wf_auto).
  assert (inited st0 x2) as I2 by apply inited_init_self.
  assert (st_clock st0 < c) as Hc0 by (unfold st0; now rewrite !clock_init).
  destruct (get_dir st0 x1) as [d1|] eqn:E1; cbn [fst]; [|wf_auto].
  destruct (get_dir st0 x2) as [d2|] eqn:E2; cbn [fst]; [|wf_auto].
  destruct (find_entry (norm n2) (d_entries d2)) as [ne|] eqn:F2.
  - destruct (find_entry (norm n1) (d_entries d1)) as [oe|] eqn:F1; cbn [fst]; [|wf_auto].
    pose proof (child_ok_found _ _ _ _ _ _ H0 E1 F1) as Hoe.
    destruct (e_child ne) as [nd|nl]; destruct (e_child oe) as [od|ol] eqn:Co; cbn [fst]; try wf_auto.
    + destruct (Nat.eqb nd od); cbn [fst]; [wf_auto|].
      destruct (get_dir (init st0 nd) nd) as [dn|]; cbn [fst]; [|wf_auto].
      destruct (negb (deletable hidden dn)); cbn [fst]; [wf_auto|].
      apply WF_attach; auto; [wf_auto| |].
      * apply attachable_mark_deleted, attachable_detach_self.
        apply inited_mod_dir; [auto|]. apply inited_mod_dir; auto.
      * unfold mark_deleted. 
        assert (forall s, length (st_dirs (mark_deleted s nd)) = length (st_dirs s)) as L1.
        { intros s. unfold mark_deleted. destruct (get_dir s nd) as [dd|]; auto. destruct (d_deleted dd); auto.
          rewrite ndirs_mod_dir. generalize (d_entries dd). intros es. revert s. induction es as [|a t IH]; intros s; cbn; auto.
          rewrite IH. destruct (e_child a); auto. unfold unlink. now rewrite ndirs_mod_leaf. }
        fold (mark_deleted (mod_dir (mod_dir (init st0 nd) x1 (detach (norm n1))) x2 (detach (norm n2))) nd).
        rewrite L1, !ndirs_mod_dir. unfold init. rewrite ndirs_mod_dir. cbn in Hoe. cbn. exact Hoe.
    + destruct (Nat.eqb nl ol); cbn [fst]; [wf_auto|].
      apply WF_attach; auto; [wf_auto| |].
      * apply attachable_mod_leaf, attachable_detach_self. apply inited_mod_dir; auto.
      * cbn. unfold unlink. rewrite nleaves_mod_leaf, !nleaves_mod_dir. exact Hoe.
  - destruct (d_deleted d2); cbn [fst]; [wf_auto|].
    destruct (find_entry (norm n1) (d_entries d1)) as [oe|] eqn:F1; cbn [fst]; [|wf_auto].
    pose proof (child_ok_found _ _ _ _ _ _ H0 E1 F1) as Hoe.
    apply WF_attach; auto; [wf_auto| |].
    + apply attachable_mod_dir; [apply keeps_free_detach|]. eapply attachable_found; eauto.
    + rewrite ndirs_mod_dir, nleaves_mod_dir. exact Hoe.
Qed.

Lemma WF_create_and_enter c st x n :
  WF c st -> st_clock st < c -> WF c (fst (create_and_enter norm st x n)).
Proof.
  intros H Hc. unfold create_and_enter.
  destruct (get_dir (init st x) x) as [d|] eqn:Ed; cbn [fst]; [|wf_auto].
  assert (forall st0, WF c st0 -> attachable st0 x (norm n) -> (exists d0, get_dir st0 x = Some d0) ->
    WF c (fst (let '(st1, y) := add_dir st0 (new_dir (d_hooks d)) in
              (mod_dir st1 x (attach (st_clock (init st x)) n (norm n) (CDir y)), out_child (CDir y) (-1) 0 [])))) as Hmk.
  { intros st0 W A [d0 Hd0]. destruct (add_dir st0 _) as [st1 y] eqn:E. apply add_dir_fresh in E as [E1 [E2 ->]].
    cbn [fst]. apply WF_attach; auto; [wf_auto| |now rewrite clock_init].
    eapply attachable_add_dir; eauto. }
  destruct (find_entry (norm n) (d_entries d)) as [e|] eqn:F.
  - destruct (e_child e) as [y|l]; cbn [fst]; [wf_auto|].
    apply Hmk; [wf_auto| |].
    + apply attachable_mod_leaf, attachable_detach_self, inited_init_self.
    + unfold unlink. rewrite get_dir_mod_leaf, get_dir_mod_dir_same, Ed. cbn. eauto.
  - destruct (d_deleted d); cbn [fst]; [wf_auto|].
    apply Hmk; [wf_auto| |eauto]. eapply attachable_found; eauto using init_d_uninit.
Qed.

Lemma WF_install_hooks c st x t : WF c st -> WF c (fst (install_hooks st x t)).
Proof.
  intros H. unfold install_hooks. destruct (get_dir st x); cbn [fst]; auto.
  apply WF_mod_dir; auto. intros; now apply dir_ok_hooks.
Qed.

End WFS.
