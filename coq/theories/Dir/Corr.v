(* Correspondence evaluator for the directory area: the model against the
   implementation (mismatch), and the property predicate P of Spec.v
   evaluated on the implementation's own trace (violation). *)
From VF Require Import Common.Verdict Dir.Model Dir.Spec.
Open Scope string_scope.

Record obs := mkObs {
  ob_out : out;         (* what the call returned *)
  ob_dump : dump;       (* change counters, released handles, link counts after the call *)
  ob_leak : string }.   (* "" or the method after which a directory lock was still held *)

Record case := mkCase {
  c_ci : bool;          (* case-insensitive normaliser *)
  c_ops : list op;
  c_obs : list obs }.

Definition rentry_eqb (a b : rentry) : bool :=
  N.eqb (r_cookie a) (r_cookie b) && String.eqb (r_name a) (r_name b)
  && child_eqb (r_child a) (r_child b) && Z.eqb (r_attr a) (r_attr b).

Definition out_diff (a b : out) : string :=
  if negb (status_eqb (o_status a) (o_status b)) then "status" else
  if negb (ochild_eqb (o_child a) (o_child b)) then "child" else
  if negb (Z.eqb (o_attr a) (o_attr b)) then "attr" else
  if negb (Nat.eqb (o_tag a) (o_tag b)) then "tag" else
  if negb (list_eqb ci_eqb (o_ci a) (o_ci b)) then "changeinfo" else
  if negb (list_eqb rentry_eqb (o_entries a) (o_entries b)) then "entries" else
  if negb (list_eqb Nat.eqb (o_visited a) (o_visited b)) then "visited" else
  if negb (Nat.eqb (o_uninit a) (o_uninit b)) then "uninit" else "".

Definition dump_diff (a b : dump) : string :=
  if negb (list_eqb (fun x y => N.eqb (fst x) (fst y)) (dm_dirs a) (dm_dirs b)) then "changeids" else
  if negb (list_eqb (fun x y => Bool.eqb (snd x) (snd y)) (dm_dirs a) (dm_dirs b)) then "released" else
  if negb (list_eqb Z.eqb (dm_leaves a) (dm_leaves b)) then "linkcounts" else "".

Section Eval.
Variable norm : string -> string.
Variable hidden : string -> bool.

Fixpoint viol_from (i : nat) (ps : pstate) (ops : list op) (os : list obs) : verdict :=
  match ops, os with
  | o :: ops', b :: os' =>
    let '(ps', k) := p_step norm hidden ps o (ob_out b) (ob_dump b) (ob_leak b) in
    if String.eqb k "" then viol_from (S i) ps' ops' os' else VViolation i k
  | [], [] => VOk
  | _, _ => VMismatch i "malformed case"
  end.

Fixpoint mism_from (i : nat) (st : state) (ops : list op) (os : list obs) : verdict :=
  match ops, os with
  | o :: ops', b :: os' =>
    let '(st', r) := step norm hidden st o in
    let k := out_diff r (ob_out b) in
    if negb (String.eqb k "") then VMismatch i (op_name o ++ " " ++ k) else
    let k2 := dump_diff (dump_of st') (ob_dump b) in
    if negb (String.eqb k2 "") then VMismatch i (op_name o ++ " " ++ k2)
    else mism_from (S i) st' ops' os'
  | _, _ => VOk
  end.
End Eval.

Definition check_case (c : case) : verdict :=
  let norm := norm_of (c_ci c) in
  vcombine (viol_from norm hidden_dot_h 0 pinit (c_ops c) (c_obs c))
           (mism_from norm hidden_dot_h 0 init_state (c_ops c) (c_obs c)).

(* viol_from is first_viol of Spec.v on the zipped trace. *)
