(* Executable model of pkg/filesystem/virtual/in_memory_prepopulated_directory.go.

   Object store: directories (entries in attach order, each with display
   name, normalised name, cookie, child and a ghost birth stamp;
   isDeleted; changeID; "not yet initialised" = initialContentsFetcher
   != nil; hooks tag = which FileAllocator/SymlinkFactory InstallHooks
   put on the subtree) and leaves (kind, ghost link count = Link() minus
   Unlink() calls, allocator tag).  Object identities are allocation
   order: directory [n] is the n-th directory for which
   createNewDirectory() ran (0 = root), leaf [n] the n-th leaf handed
   out by the file allocator / symlink factory / handle allocator /
   caller of CreateChildren.

   entriesMap+entriesList of the Go code are one list here; the map
   lookup is "first entry with that normalised name" and uniqueness of
   normalised names is an invariant (Proofs.v).  Everything is written
   as sequential reads/writes of the store in the order of the Go code,
   so that the model stays faithful even on the cyclic structures that
   VirtualRename can create (DESIGN §6 F8).

   Not modelled: lazily fetched non-empty initial contents (every
   directory is created with EmptyInitialContentsFetcher; C17 extends
   this), timestamps, named attributes, lock acquisition order
   (single-threaded histories; C14 covers the locks). *)
From Coq Require Export String Ascii List NArith ZArith Bool Arith.
Export ListNotations.
Open Scope string_scope.

(* ---- Vocabulary --------------------------------------------------------- *)

Inductive status :=
| SOK | SExist | SIO | SIsDir | SNoEnt | SNotDir | SNotEmpty | SPerm | SStale
| SSymlink | SWrongType | SXDev | SInval
| SPanic      (* the Go code panicked *)
| SHang       (* the call did not return (harness watchdog) *)
| SDiverged   (* model recursion ran out of fuel: unbounded recursion in Go *)
| SBadOp      (* operation addressed an object that does not exist *)
| SOther.

Inductive lkind := KFile | KSymlink | KFifo | KSocket.
Inductive mkkind := MSymlink | MFifo | MSocket | MBlock.
Inductive child := CDir (d : nat) | CLeaf (l : nat).
Inductive cchild := NewDirC | NewLeafC (k : lkind).

Record entry := mkEntry {
  e_name : string;     (* name as given by the caller *)
  e_norm : string;     (* normalised name: the key of entriesMap *)
  e_cookie : N;        (* changeID at attach time *)
  e_child : child;
  e_birth : nat }.     (* ghost: index of the operation that attached it *)

Record dir := mkDir {
  d_entries : list entry;   (* entriesList, attach order *)
  d_deleted : bool;
  d_change : N;
  d_uninit : bool;          (* initialContentsFetcher != nil *)
  d_hooks : nat }.

Record leaf := mkLeaf { l_kind : lkind; l_nlink : Z; l_tag : nat }.

Record state := mkState { st_dirs : list dir; st_leaves : list leaf; st_clock : nat }.

Inductive op :=
| OVLookup (d : nat) (n : string)
| OVOpen (d : nat) (n : string) (create existing fail : bool)
| OVMkdir (d : nat) (n : string)
| OVMknod (d : nat) (n : string) (k : mkkind) (fail : bool)
| OVLink (d : nat) (n : string) (l : nat)
| OVLinkForeign (d : nat) (n : string)
| OVRemove (d : nat) (n : string) (rmdir rmleaf : bool)
| OVRename (d1 : nat) (n1 : string) (d2 : nat) (n2 : string)
| OVReadDir (d : nat) (cookie : N) (page : nat)
| OLookupChild (d : nat) (n : string)
| OLookupAll (d : nat)
| OReadDir (d : nat)
| ORemove (d : nat) (n : string)
| ORemoveAll (d : nat) (n : string)
| ORemoveAllChildren (d : nat) (forbid : bool)
| OCreateChildren (d : nat) (cs : list (string * cchild)) (overwrite : bool)
| OCreateAndEnter (d : nat) (n : string)
| OFilter (d : nat) (rm : list nat) (stop : option nat) (rmu : bool)
| OInstallHooks (d : nat) (tag : nat).

Record rentry := mkR { r_cookie : N; r_name : string; r_child : child; r_attr : Z }.

Record out := mkOut {
  o_status : status;
  o_child : option child;     (* object returned, if any *)
  o_attr : Z;                 (* changeID of a returned directory / link count of a returned leaf; -1 = none *)
  o_tag : nat;                (* allocator tag of a freshly created leaf, else 0 *)
  o_ci : list (N * N);        (* ChangeInfo pairs (before, after), only on success *)
  o_entries : list rentry;    (* listings *)
  o_visited : list nat;       (* FilterChildren: leaves offered to the callback, in order *)
  o_uninit : nat }.           (* FilterChildren: uninitialised directories offered *)

Definition out_s (s : status) : out := mkOut s None (-1) 0 [] [] [] 0.
Definition out_child (c : child) (a : Z) (tag : nat) (ci : list (N * N)) : out :=
  mkOut SOK (Some c) a tag ci [] [] 0.
Definition out_ci (ci : list (N * N)) : out := mkOut SOK None (-1) 0 ci [] [] 0.
Definition out_list (l : list rentry) : out := mkOut SOK None (-1) 0 [] l [] 0.

(* What is observable of the whole store after every operation. *)
Record dump := mkDump {
  dm_dirs : list (N * bool);   (* per directory: changeID, handle released *)
  dm_leaves : list Z }.        (* per leaf: link count *)

(* ---- Store -------------------------------------------------------------- *)

Fixpoint upd {A} (l : list A) (i : nat) (x : A) : list A :=
  match l, i with
  | [], _ => []
  | _ :: t, O => x :: t
  | h :: t, S i' => h :: upd t i' x
  end.

Definition get_dir (st : state) (x : nat) : option dir := nth_error (st_dirs st) x.
Definition get_leaf (st : state) (l : nat) : option leaf := nth_error (st_leaves st) l.
Definition set_dir (st : state) (x : nat) (d : dir) : state :=
  mkState (upd (st_dirs st) x d) (st_leaves st) (st_clock st).
Definition set_leaf (st : state) (l : nat) (lf : leaf) : state :=
  mkState (st_dirs st) (upd (st_leaves st) l lf) (st_clock st).
Definition mod_dir (st : state) (x : nat) (f : dir -> dir) : state :=
  match get_dir st x with Some d => set_dir st x (f d) | None => st end.
Definition mod_leaf (st : state) (l : nat) (f : leaf -> leaf) : state :=
  match get_leaf st l with Some lf => set_leaf st l (f lf) | None => st end.
Definition add_dir (st : state) (d : dir) : state * nat :=
  (mkState (st_dirs st ++ [d]) (st_leaves st) (st_clock st), length (st_dirs st)).
Definition add_leaf (st : state) (lf : leaf) : state * nat :=
  (mkState (st_dirs st) (st_leaves st ++ [lf]) (st_clock st), length (st_leaves st)).

Definition new_dir (hooks : nat) : dir := mkDir [] false 0 true hooks.
Definition init_state : state := mkState [new_dir 0] [] 0.

Definition dump_of (st : state) : dump :=
  mkDump (map (fun d => (d_change d, d_deleted d)) (st_dirs st))
         (map l_nlink (st_leaves st)).

(* ---- Directory contents primitives (inMemoryDirectoryContents) ---------- *)

Definition find_entry (k : string) (es : list entry) : option entry :=
  find (fun e => String.eqb (e_norm e) k) es.

(* attach(): cookie = changeID, append, touch(). *)
Definition attach (clock : nat) (name key : string) (c : child) (d : dir) : dir :=
  mkDir (d_entries d ++ [mkEntry name key (d_change d) c clock]) (d_deleted d)
        (d_change d + 1) (d_uninit d) (d_hooks d).

(* detach(): unlink the entry from map and list, touch(). *)
Definition detach (key : string) (d : dir) : dir :=
  mkDir (filter (fun e => negb (String.eqb (e_norm e) key)) (d_entries d)) (d_deleted d)
        (d_change d + 1) (d_uninit d) (d_hooks d).

(* getContents(): with an empty fetcher this only clears the fetcher. *)
Definition initialise (d : dir) : dir :=
  mkDir (d_entries d) (d_deleted d) (d_change d) false (d_hooks d).
Definition init (st : state) (x : nat) : state := mod_dir st x initialise.

Definition unlink (st : state) (l : nat) : state :=
  mod_leaf st l (fun lf => mkLeaf (l_kind lf) (l_nlink lf - 1) (l_tag lf)).
Definition link (st : state) (l : nat) : state :=
  mod_leaf st l (fun lf => mkLeaf (l_kind lf) (l_nlink lf + 1) (l_tag lf)).

(* Link() of the harness leaves: like pool backed files, a regular file
   whose link count dropped to zero is gone; placeholders always link. *)
Definition link_status (lf : leaf) : status :=
  match l_kind lf with
  | KFile => if (l_nlink lf <=? 0)%Z then SStale else SOK
  | _ => SOK
  end.

(* VirtualOpenSelf() of the harness leaves. *)
Definition open_status (k : lkind) : status :=
  match k with KFile => SOK | KSymlink => SSymlink | _ => SWrongType end.

Definition child_attr (st : state) (c : child) : Z :=
  match c with
  | CDir x => match get_dir st x with Some d => Z.of_N (d_change d) | None => (-1)%Z end
  | CLeaf l => match get_leaf st l with Some lf => l_nlink lf | None => (-1)%Z end
  end.

Section WithNames.
Variable norm : string -> string.     (* ComponentNormalizer *)
Variable hidden : string -> bool.     (* hiddenFilesMatcher *)

(* isDeletable(): only hidden leaves left. *)
Definition deletable (d : dir) : bool :=
  forallb (fun e => match e_child e with CDir _ => false | CLeaf _ => hidden (e_name e) end)
          (d_entries d).

(* markDeleted(): drop the remaining (hidden) files, set the flag. *)
Definition mark_deleted (st : state) (x : nat) : state :=
  match get_dir st x with
  | Some d =>
    if d_deleted d then st else
    let st1 := fold_left (fun s e => match e_child e with CLeaf l => unlink s l | CDir _ => s end)
                         (d_entries d) st in
    mod_dir st1 x (fun d' => mkDir [] true (d_change d' + N.of_nat (length (d_entries d')))
                                   (d_uninit d') (d_hooks d'))
  | None => st
  end.

Definition may_attach (d : dir) (key : string) : status :=
  if d_deleted d then SNoEnt
  else match find_entry key (d_entries d) with Some _ => SExist | None => SOK end.

Definition change_of (st : state) (x : nat) : N :=
  match get_dir st x with Some d => d_change d | None => 0%N end.

(* ---- Kernel-facing operations ------------------------------------------- *)

Definition v_lookup (st : state) (x : nat) (name : string) : state * out :=
  let st := init st x in
  match get_dir st x with
  | None => (st, out_s SBadOp)
  | Some d =>
    match find_entry (norm name) (d_entries d) with
    | Some e => (st, out_child (e_child e) (child_attr st (e_child e)) 0 [])
    | None => (st, out_s SNoEnt)
    end
  end.

Definition v_open (st : state) (x : nat) (name : string) (create existing fail : bool) : state * out :=
  let st := init st x in
  match get_dir st x with
  | None => (st, out_s SBadOp)
  | Some d =>
    let key := norm name in
    match find_entry key (d_entries d) with
    | Some e =>
      if negb existing then (st, out_s SExist) else
      match e_child e with
      | CDir _ => (st, out_s SIsDir)
      | CLeaf l =>
        match get_leaf st l with
        | None => (st, out_s SBadOp)
        | Some lf =>
          match open_status (l_kind lf) with
          | SOK => (st, out_child (CLeaf l) (l_nlink lf) 0 [(d_change d, d_change d)])
          | s => (st, out_s s)
          end
        end
      end
    | None =>
      if d_deleted d || negb create then (st, out_s SNoEnt) else
      if fail then (st, out_s SIO) else
      let '(st1, l) := add_leaf st (mkLeaf KFile 1 (d_hooks d)) in
      let st2 := mod_dir st1 x (attach (st_clock st) name key (CLeaf l)) in
      (st2, out_child (CLeaf l) 1 (d_hooks d) [(d_change d, change_of st2 x)])
    end
  end.

Definition v_mkdir (st : state) (x : nat) (name : string) : state * out :=
  let st := init st x in
  match get_dir st x with
  | None => (st, out_s SBadOp)
  | Some d =>
    let key := norm name in
    match may_attach d key with
    | SOK =>
      let '(st1, y) := add_dir st (new_dir (d_hooks d)) in
      let st2 := mod_dir st1 x (attach (st_clock st) name key (CDir y)) in
      (st2, out_child (CDir y) 0 0 [(d_change d, change_of st2 x)])
    | s => (st, out_s s)
    end
  end.

Definition v_mknod (st : state) (x : nat) (name : string) (k : mkkind) (fail : bool) : state * out :=
  let st := init st x in
  match get_dir st x with
  | None => (st, out_s SBadOp)
  | Some d =>
    let key := norm name in
    match may_attach d key with
    | SOK =>
      let mk (lk : lkind) (tag : nat) :=
        let '(st1, l) := add_leaf st (mkLeaf lk 1 tag) in
        let st2 := mod_dir st1 x (attach (st_clock st) name key (CLeaf l)) in
        (st2, out_child (CLeaf l) 1 tag [(d_change d, change_of st2 x)]) in
      match k with
      | MFifo => mk KFifo 0
      | MSocket => mk KSocket 0
      | MSymlink => if fail then (st, out_s SIO) else mk KSymlink (d_hooks d)
      | MBlock => (st, out_s SPerm)
      end
    | s => (st, out_s s)
    end
  end.

Definition v_link (st : state) (x : nat) (name : string) (l : nat) : state * out :=
  match get_leaf st l with
  | None => (st, out_s SBadOp)
  | Some lf =>
    let st := init st x in
    match get_dir st x with
    | None => (st, out_s SBadOp)
    | Some d =>
      let key := norm name in
      match may_attach d key with
      | SOK =>
        match link_status lf with
        | SOK =>
          let st1 := link st l in
          let st2 := mod_dir st1 x (attach (st_clock st) name key (CLeaf l)) in
          (st2, mkOut SOK None (l_nlink lf + 1) 0 [(d_change d, change_of st2 x)] [] [] 0)
        | s => (st, out_s s)
        end
      | s => (st, out_s s)
      end
    end
  end.

(* VirtualLink() of a leaf that is not a LinkableLeaf: rejected before
   the directory is even looked at. *)
Definition v_link_foreign (st : state) (x : nat) : state * out := (st, out_s SXDev).

Definition v_remove (st : state) (x : nat) (name : string) (rmdir rmleaf : bool) : state * out :=
  let st := init st x in
  match get_dir st x with
  | None => (st, out_s SBadOp)
  | Some d =>
    let key := norm name in
    match find_entry key (d_entries d) with
    | None => (st, out_s SNoEnt)
    | Some e =>
      let finish (st1 : state) :=
        let before := change_of st1 x in
        let st2 := mod_dir st1 x (detach key) in
        (st2, out_ci [(before, change_of st2 x)]) in
      match e_child e with
      | CDir y =>
        if negb rmdir then (st, out_s SPerm) else
        let st1 := init st y in
        match get_dir st1 y with
        | None => (st1, out_s SBadOp)
        | Some dy =>
          if negb (deletable dy) then (st1, out_s SNotEmpty)
          else finish (mark_deleted st1 y)
        end
      | CLeaf l =>
        if negb rmleaf then (st, out_s SNotDir) else finish (unlink st l)
      end
    end
  end.

Definition child_eqb (a b : child) : bool :=
  match a, b with
  | CDir x, CDir y => Nat.eqb x y
  | CLeaf x, CLeaf y => Nat.eqb x y
  | _, _ => false
  end.

Definition v_rename (st : state) (x1 : nat) (n1 : string) (x2 : nat) (n2 : string) : state * out :=
  let st := init (init st x1) x2 in
  match get_dir st x1, get_dir st x2 with
  | Some d1, Some d2 =>
    let k1 := norm n1 in
    let k2 := norm n2 in
    let done (st' : state) :=
      (st', out_ci [(d_change d1, change_of st' x1); (d_change d2, change_of st' x2)]) in
    match find_entry k2 (d_entries d2) with
    | Some ne =>
      match find_entry k1 (d_entries d1) with
      | None => (st, out_s SNoEnt)
      | Some oe =>
        match e_child ne with
        | CDir nd =>
          match e_child oe with
          | CLeaf _ => (st, out_s SIsDir)
          | CDir od =>
            if Nat.eqb nd od then done st else
            let st1 := init st nd in
            match get_dir st1 nd with
            | None => (st1, out_s SBadOp)
            | Some dn =>
              if negb (deletable dn) then (st1, out_s SNotEmpty) else
              let st2 := mod_dir st1 x1 (detach k1) in
              (* no check that x2 lies below od: TODO in the Go code *)
              let st3 := mod_dir st2 x2 (detach k2) in
              let st4 := mark_deleted st3 nd in
              let st5 := mod_dir st4 x2 (attach (st_clock st) n2 k2 (CDir od)) in
              done st5
            end
          end
        | CLeaf nl =>
          match e_child oe with
          | CDir _ => (st, out_s SNotDir)
          | CLeaf ol =>
            if Nat.eqb nl ol then done st else
            let st2 := mod_dir st x1 (detach k1) in
            let st3 := mod_dir st2 x2 (detach k2) in
            let st4 := unlink st3 nl in
            let st5 := mod_dir st4 x2 (attach (st_clock st) n2 k2 (CLeaf ol)) in
            done st5
          end
        end
      end
    | None =>
      if d_deleted d2 then (st, out_s SNoEnt) else
      match find_entry k1 (d_entries d1) with
      | None => (st, out_s SNoEnt)
      | Some oe =>
        let st2 := mod_dir st x1 (detach k1) in
        let st3 := mod_dir st2 x2 (attach (st_clock st) n2 k2 (e_child oe)) in
        done st3
      end
    end
  | _, _ => (st, out_s SBadOp)
  end.

(* getEntryAtCookie() *)
Fixpoint seek (first : N) (es : list entry) : list entry :=
  match es with
  | [] => []
  | e :: t => if (first <=? e_cookie e)%N then es else seek first t
  end.

Definition visible (e : entry) : bool :=
  match e_child e with CDir _ => true | CLeaf _ => negb (hidden (e_name e)) end.

Definition report (st : state) (e : entry) : rentry :=
  mkR (e_cookie e + 1) (e_name e) (e_child e) (child_attr st (e_child e)).

Definition v_readdir (st : state) (x : nat) (first : N) (page : nat) : state * out :=
  let st := init st x in
  match get_dir st x with
  | None => (st, out_s SBadOp)
  | Some d => (st, out_list (map (report st) (firstn page (filter visible (seek first (d_entries d))))))
  end.

(* ---- Worker-facing operations ------------------------------------------- *)

Fixpoint insert_by {A} (key : A -> string) (x : A) (l : list A) : list A :=
  match l with
  | [] => [x]
  | y :: t => if String.leb (key x) (key y) then x :: l else y :: insert_by key x t
  end.
Definition sort_by {A} (key : A -> string) (l : list A) : list A :=
  fold_right (insert_by key) [] l.

Definition is_dir_entry (e : entry) : bool :=
  match e_child e with CDir _ => true | CLeaf _ => false end.

Definition lookup_child (st : state) (x : nat) (name : string) : state * out :=
  let st := init st x in
  match get_dir st x with
  | None => (st, out_s SBadOp)
  | Some d =>
    match find_entry (norm name) (d_entries d) with
    | Some e => (st, out_child (e_child e) (-1) 0 [])
    | None => (st, out_s SNoEnt)
    end
  end.

Definition plain (e : entry) : rentry := mkR 0 (e_name e) (e_child e) (-1).

Definition lookup_all (st : state) (x : nat) : state * out :=
  let st := init st x in
  match get_dir st x with
  | None => (st, out_s SBadOp)
  | Some d =>
    let ds := filter is_dir_entry (d_entries d) in
    let ls := filter (fun e => negb (is_dir_entry e) && visible e) (d_entries d) in
    (st, out_list (map plain (sort_by e_name ds ++ sort_by e_name ls)))
  end.

Definition kind_code (k : lkind) : Z :=
  match k with KFile => 1 | KSymlink => 2 | KFifo => 3 | KSocket => 4 end%Z.

(* ReadDir() yields names and file types only. *)
Definition typed (st : state) (e : entry) : rentry :=
  match e_child e with
  | CDir _ => mkR 0 (e_name e) (CDir 0) 0
  | CLeaf l => mkR 0 (e_name e) (CLeaf 0)
                   (match get_leaf st l with Some lf => kind_code (l_kind lf) | None => (-1)%Z end)
  end.

Definition read_dir (st : state) (x : nat) : state * out :=
  let st := init st x in
  match get_dir st x with
  | None => (st, out_s SBadOp)
  | Some d => (st, out_list (map (typed st) (sort_by e_name (filter visible (d_entries d)))))
  end.

Definition remove (st : state) (x : nat) (name : string) : state * out :=
  let st := init st x in
  match get_dir st x with
  | None => (st, out_s SBadOp)
  | Some d =>
    let key := norm name in
    match find_entry key (d_entries d) with
    | None => (st, out_s SNoEnt)
    | Some e =>
      match e_child e with
      | CDir y =>
        let st1 := init st y in
        match get_dir st1 y with
        | None => (st1, out_s SBadOp)
        | Some dy =>
          if negb (deletable dy) then (st1, out_s SNotEmpty)
          else (mod_dir (mark_deleted st1 y) x (detach key), out_s SOK)
        end
      | CLeaf l => (mod_dir (unlink st l) x (detach key), out_s SOK)
      end
    end
  end.

(* removeAllChildren() + postRemoveChildren().  The entries are pushed on
   a stack while being detached and processed from the top, i.e. in
   reverse list order.  [fuel] bounds the directory nesting depth. *)
Fixpoint post_remove (rec : state -> nat -> state * bool) (es : list entry) (st : state) : state * bool :=
  match es with
  | [] => (st, true)
  | e :: t =>
    match e_child e with
    | CDir y => let '(st1, ok) := rec st y in
                let '(st2, ok2) := post_remove rec t st1 in (st2, ok && ok2)
    | CLeaf l => post_remove rec t (unlink st l)
    end
  end.

Fixpoint remove_all_children (fuel : nat) (st : state) (x : nat) (del_self : bool) : state * bool :=
  match fuel with
  | O => (st, false)
  | S f =>
    match get_dir st x with
    | None => (st, true)
    | Some d =>
      if d_uninit d then
        let st1 := mod_dir st x (fun d' => mkDir [] (d_deleted d') (d_change d') false (d_hooks d')) in
        (if del_self then mark_deleted st1 x else st1, true)
      else
        let st1 := mod_dir st x (fun d' => mkDir [] (d_deleted d')
                                  (d_change d' + N.of_nat (length (d_entries d'))) (d_uninit d') (d_hooks d')) in
        let st2 := if del_self then mark_deleted st1 x else st1 in
        post_remove (fun s y => remove_all_children f s y true) (rev (d_entries d)) st2
    end
  end.

Definition depth_fuel (st : state) : nat := S (S (length (st_dirs st))).

Definition remove_all (st : state) (x : nat) (name : string) : state * out :=
  let st := init st x in
  match get_dir st x with
  | None => (st, out_s SBadOp)
  | Some d =>
    let key := norm name in
    match find_entry key (d_entries d) with
    | None => (st, out_s SNoEnt)
    | Some e =>
      let st1 := mod_dir st x (detach key) in
      match e_child e with
      | CDir y => let '(st2, ok) := remove_all_children (depth_fuel st) st1 y true in
                  (st2, out_s (if ok then SOK else SDiverged))
      | CLeaf l => (unlink st1 l, out_s SOK)
      end
    end
  end.

Definition remove_all_children_op (st : state) (x : nat) (forbid : bool) : state * out :=
  match get_dir st x with
  | None => (st, out_s SBadOp)
  | Some _ => let '(st1, ok) := remove_all_children (depth_fuel st) st x forbid in
              (st1, out_s (if ok then SOK else SDiverged))
  end.

(* CreateChildren().  The caller (harness) creates the leaves first, in the
   order of [cs], each with link count 1, and drops that reference again
   if the call fails. *)
Inductive rchild := RNewDir | RLeaf (l : nat).

Fixpoint alloc_children (st : state) (cs : list (string * cchild)) : state * list (string * rchild) :=
  match cs with
  | [] => (st, [])
  | (n, NewDirC) :: t => let '(st1, r) := alloc_children st t in (st1, (n, RNewDir) :: r)
  | (n, NewLeafC k) :: t =>
    let '(st0, l) := add_leaf st (mkLeaf k 1 0) in
    let '(st1, r) := alloc_children st0 t in (st1, (n, RLeaf l) :: r)
  end.

Definition drop_children (st : state) (rs : list (string * rchild)) : state :=
  fold_left (fun s nr => match snd nr with RLeaf l => unlink s l | RNewDir => s end) rs st.

Fixpoint nodup_keys (ks : list string) : bool :=
  match ks with
  | [] => true
  | k :: t => negb (existsb (String.eqb k) t) && nodup_keys t
  end.

Definition attach_child (clock : nat) (x : nat) (st : state) (nr : string * rchild) : state :=
  let '(n, r) := nr in
  match r with
  | RNewDir =>
    let '(st1, y) := add_dir st (new_dir (match get_dir st x with Some d => d_hooks d | None => 0 end)) in
    mod_dir st1 x (attach clock n (norm n) (CDir y))
  | RLeaf l => mod_dir st x (attach clock n (norm n) (CLeaf l))
  end.

Definition create_children (st : state) (x : nat) (cs : list (string * cchild)) (overwrite : bool) : state * out :=
  let '(st, rs) := alloc_children st cs in
  let st := init st x in
  match get_dir st x with
  | None => (st, out_s SBadOp)
  | Some d =>
    let keys := map (fun nr => norm (fst nr)) rs in
    if negb (nodup_keys keys) then (st, out_s SPanic) else
    if d_deleted d then (drop_children st rs, out_s SNoEnt) else
    let bound k := match find_entry k (d_entries d) with Some _ => true | None => false end in
    if negb overwrite && existsb bound keys then (drop_children st rs, out_s SExist) else
    let overwritten :=
      fold_left (fun acc k => match find_entry k (d_entries d) with Some e => e :: acc | None => acc end)
                keys [] in
    let st1 := fold_left (fun s k => if bound k then mod_dir s x (detach k) else s) keys st in
    let st2 := fold_left (attach_child (st_clock st) x) (sort_by fst rs) st1 in
    let '(st3, ok) := post_remove (fun s y => remove_all_children (depth_fuel st) s y true) overwritten st2 in
    (st3, out_s (if ok then SOK else SDiverged))
  end.

Definition create_and_enter (st : state) (x : nat) (name : string) : state * out :=
  let st := init st x in
  match get_dir st x with
  | None => (st, out_s SBadOp)
  | Some d =>
    let key := norm name in
    let mk (st0 : state) :=
      let '(st1, y) := add_dir st0 (new_dir (d_hooks d)) in
      (mod_dir st1 x (attach (st_clock st) name key (CDir y)), out_child (CDir y) (-1) 0 []) in
    match find_entry key (d_entries d) with
    | Some e =>
      match e_child e with
      | CDir y => (st, out_child (CDir y) (-1) 0 [])
      | CLeaf l => mk (unlink (mod_dir st x (detach key)) l)
      end
    | None => if d_deleted d then (st, out_s SNoEnt) else mk st
    end
  end.

(* FilterChildren(): leaves of a directory first (list order), then its
   sub-directories, depth first; a directory that was never initialised
   is offered as a whole.  The harness callback removes the leaves named
   in [rm] (through the ChildRemover, i.e. Remove(name)), stops at leaf
   [stop], and empties uninitialised directories if [rmu]. *)
Record facc := mkFacc { fa_visited : list nat; fa_uninit : nat }.
Inductive fstat := FCont | FStop | FDiv.   (* go on / callback said stop / out of fuel *)

Fixpoint filter_leaves (x : nat) (rm : list nat) (stop : option nat)
    (ls : list (string * nat)) (st : state) (acc : facc) : state * facc * fstat :=
  match ls with
  | [] => (st, acc, FCont)
  | (n, l) :: t =>
    let acc1 := mkFacc (fa_visited acc ++ [l]) (fa_uninit acc) in
    if match stop with Some s => Nat.eqb s l | None => false end then (st, acc1, FStop) else
    let st1 := if existsb (Nat.eqb l) rm then fst (remove st x n) else st in
    filter_leaves x rm stop t st1 acc1
  end.

Fixpoint filter_dirs (rec : state -> nat -> facc -> state * facc * fstat) (ds : list nat)
    (st : state) (acc : facc) : state * facc * fstat :=
  match ds with
  | [] => (st, acc, FCont)
  | y :: t =>
    let '(st1, acc1, c) := rec st y acc in
    match c with FCont => filter_dirs rec t st1 acc1 | _ => (st1, acc1, c) end
  end.

Definition leaf_entries (es : list entry) : list (string * nat) :=
  flat_map (fun e => match e_child e with CLeaf l => [(e_name e, l)] | CDir _ => [] end) es.
Definition dir_entries (es : list entry) : list nat :=
  flat_map (fun e => match e_child e with CDir y => [y] | CLeaf _ => [] end) es.

Fixpoint filter_rec (fuel : nat) (rm : list nat) (stop : option nat) (rmu : bool)
    (st : state) (x : nat) (acc : facc) : state * facc * fstat :=
  match fuel with
  | O => (st, acc, FDiv)
  | S f =>
    match get_dir st x with
    | None => (st, acc, FCont)
    | Some d =>
      if d_uninit d then
        let st1 := if rmu then fst (remove_all_children (depth_fuel st) st x false) else st in
        (st1, mkFacc (fa_visited acc) (S (fa_uninit acc)), FCont)
      else
        let '(st1, acc1, c) := filter_leaves x rm stop (leaf_entries (d_entries d)) st acc in
        match c with
        | FCont => filter_dirs (filter_rec f rm stop rmu) (dir_entries (d_entries d)) st1 acc1
        | _ => (st1, acc1, c)
        end
    end
  end.

Definition filter_children (st : state) (x : nat) (rm : list nat) (stop : option nat) (rmu : bool) : state * out :=
  match get_dir st x with
  | None => (st, out_s SBadOp)
  | Some _ =>
    let '(st1, acc, c) := filter_rec (depth_fuel st) rm stop rmu st x (mkFacc [] 0) in
    (st1, mkOut (match c with FDiv => SDiverged | _ => SOK end) None (-1) 0 [] []
                (fa_visited acc) (fa_uninit acc))
  end.

Definition install_hooks (st : state) (x : nat) (tag : nat) : state * out :=
  match get_dir st x with
  | None => (st, out_s SBadOp)
  | Some _ => (mod_dir st x (fun d => mkDir (d_entries d) (d_deleted d) (d_change d) (d_uninit d) tag), out_s SOK)
  end.

(* ---- One operation ------------------------------------------------------- *)

Definition step_core (st : state) (o : op) : state * out :=
  match o with
  | OVLookup d n => v_lookup st d n
  | OVOpen d n c e f => v_open st d n c e f
  | OVMkdir d n => v_mkdir st d n
  | OVMknod d n k f => v_mknod st d n k f
  | OVLink d n l => v_link st d n l
  | OVLinkForeign d n => v_link_foreign st d
  | OVRemove d n rd rl => v_remove st d n rd rl
  | OVRename d1 n1 d2 n2 => v_rename st d1 n1 d2 n2
  | OVReadDir d c p => v_readdir st d c p
  | OLookupChild d n => lookup_child st d n
  | OLookupAll d => lookup_all st d
  | OReadDir d => read_dir st d
  | ORemove d n => remove st d n
  | ORemoveAll d n => remove_all st d n
  | ORemoveAllChildren d f => remove_all_children_op st d f
  | OCreateChildren d cs ow => create_children st d cs ow
  | OCreateAndEnter d n => create_and_enter st d n
  | OFilter d rm stop rmu => filter_children st d rm stop rmu
  | OInstallHooks d t => install_hooks st d t
  end.

Definition tick (k : nat) (st : state) : state := mkState (st_dirs st) (st_leaves st) k.

Definition step (st : state) (o : op) : state * out :=
  let '(st1, r) := step_core st o in (tick (S (st_clock st)) st1, r).

Fixpoint run (st : state) (ops : list op) : state :=
  match ops with [] => st | o :: t => run (fst (step st o)) t end.

(* The observable trace: per operation its output and the dump after it. *)
Fixpoint trace (st : state) (ops : list op) : list (op * out * dump) :=
  match ops with
  | [] => []
  | o :: t => let '(st1, r) := step st o in (o, r, dump_of st1) :: trace st1 t
  end.

End WithNames.

(* ---- The two normalisers and the matcher used by the harness ------------ *)

Definition lower_ascii (a : ascii) : ascii :=
  let n := N_of_ascii a in
  if ((65 <=? n) && (n <=? 90))%N then ascii_of_N (n + 32) else a.
Fixpoint lower (s : string) : string :=
  match s with EmptyString => EmptyString | String a t => String (lower_ascii a) (lower t) end.
Definition norm_of (case_insensitive : bool) : string -> string :=
  if case_insensitive then lower else fun s => s.
(* Hidden files: names starting with ".h" (stands for the "^\._" style
   patterns of production configurations). *)
Definition hidden_dot_h (s : string) : bool := prefix ".h" s.
