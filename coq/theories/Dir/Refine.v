(* Every operation of the model commutes with the abstraction function and
   returns what the reference hierarchy expects (non-recursive operations;
   the recursive ones are in RefineRec.v). *)
From Coq Require Import Lia ZifyBool ZifyN ZifyNat.
From VF Require Import Dir.Model Dir.Spec Dir.Abs.
Open Scope string_scope.

Global Arguments find_entry : simpl never.
Global Arguments init : simpl never.
Global Arguments mod_dir : simpl never.
Global Arguments mod_leaf : simpl never.
Global Arguments get_dir : simpl never.
Global Arguments get_leaf : simpl never.
Global Arguments abs : simpl never.
Global Arguments attach : simpl never.
Global Arguments detach : simpl never.
Global Arguments unlink : simpl never.
Global Arguments link : simpl never.
Global Arguments mark_deleted : simpl never.
Global Arguments sdelete : simpl never.
Global Arguments smod : simpl never.
Global Arguments sunlink : simpl never.
Global Arguments slink : simpl never.
Global Arguments sget : simpl never.
Global Arguments sget_leaf : simpl never.
Global Arguments lookup : simpl never.
Global Arguments child_attr : simpl never.
Global Arguments nlink_of : simpl never.
Global Arguments add_leaf : simpl never.
Global Arguments add_dir : simpl never.
Global Arguments snew_leaf : simpl never.
Global Arguments snew_dir : simpl never.
Global Arguments change_of : simpl never.

(* ---- frame lemmas for the store -------------------------------------------- *)

Lemma get_dir_mod_dir st y f x :
  get_dir (mod_dir st y f) x = if Nat.eqb x y then option_map f (get_dir st x) else get_dir st x.
Proof.
  unfold mod_dir. destruct (get_dir st y) as [d|] eqn:E.
  - unfold get_dir, set_dir; cbn. rewrite nth_error_upd. unfold get_dir in E.
    destruct (Nat.eqb x y) eqn:Exy; auto. apply Nat.eqb_eq in Exy; subst. now rewrite E.
  - destruct (Nat.eqb x y) eqn:Exy; auto. apply Nat.eqb_eq in Exy; subst. now rewrite E.
Qed.

Lemma get_dir_mod_dir_same st x f : get_dir (mod_dir st x f) x = option_map f (get_dir st x).
Proof. rewrite get_dir_mod_dir. now rewrite Nat.eqb_refl. Qed.

Lemma get_leaf_mod_dir st y f l : get_leaf (mod_dir st y f) l = get_leaf st l.
Proof. unfold mod_dir. destruct (get_dir st y); auto. Qed.

Lemma get_dir_mod_leaf st l f x : get_dir (mod_leaf st l f) x = get_dir st x.
Proof. unfold mod_leaf. destruct (get_leaf st l); auto. Qed.

Lemma get_leaf_mod_leaf st y f l :
  get_leaf (mod_leaf st y f) l = if Nat.eqb l y then option_map f (get_leaf st l) else get_leaf st l.
Proof.
  unfold mod_leaf. destruct (get_leaf st y) as [d|] eqn:E.
  - unfold get_leaf, set_leaf; cbn. rewrite nth_error_upd. unfold get_leaf in E.
    destruct (Nat.eqb l y) eqn:Exy; auto. apply Nat.eqb_eq in Exy; subst. now rewrite E.
  - destruct (Nat.eqb l y) eqn:Exy; auto. apply Nat.eqb_eq in Exy; subst. now rewrite E.
Qed.

Lemma get_dir_init st y x : get_dir (init st y) x = if Nat.eqb x y then option_map initialise (get_dir st x) else get_dir st x.
Proof. apply get_dir_mod_dir. Qed.

Lemma get_dir_init_same st x : get_dir (init st x) x = option_map initialise (get_dir st x).
Proof. apply get_dir_mod_dir_same. Qed.

Lemma get_leaf_init st y l : get_leaf (init st y) l = get_leaf st l.
Proof. apply get_leaf_mod_dir. Qed.

Lemma clock_mod_dir st y f : st_clock (mod_dir st y f) = st_clock st.
Proof. unfold mod_dir. destruct (get_dir st y); auto. Qed.

Lemma clock_mod_leaf st y f : st_clock (mod_leaf st y f) = st_clock st.
Proof. unfold mod_leaf. destruct (get_leaf st y); auto. Qed.

Lemma clock_unlink st l : st_clock (unlink st l) = st_clock st.
Proof. apply clock_mod_leaf. Qed.

Lemma clock_link st l : st_clock (link st l) = st_clock st.
Proof. apply clock_mod_leaf. Qed.

Lemma clock_fold_unlink es st :
  st_clock (fold_left (fun s e => match e_child e with CLeaf l => unlink s l | CDir _ => s end) es st) = st_clock st.
Proof. revert st; induction es as [|e t IH]; intros; cbn; auto. rewrite IH. destruct (e_child e); auto using clock_unlink. Qed.

Lemma clock_mark_deleted st x : st_clock (mark_deleted st x) = st_clock st.
Proof.
  unfold mark_deleted. destruct (get_dir st x) as [d|]; auto. destruct (d_deleted d); auto.
  now rewrite clock_mod_dir, clock_fold_unlink.
Qed.

Lemma clock_init st y : st_clock (init st y) = st_clock st.
Proof. apply clock_mod_dir. Qed.

(* ---- what "returns the spec's result" means ---------------------------------- *)

Definition matches (e : expect) (r : out) : Prop :=
  x_riod e = false /\ x_status e = o_status r /\
  (o_status r = SOK ->
     (forall c, x_child e = Some c -> o_child r = Some c) /\
     (forall n, x_nlink e = Some n -> o_attr r = n) /\
     listing_ok (x_listing e) r = true).

Lemma matches_err s : s <> SOK -> matches (xs s) (out_s s).
Proof. intros H. repeat split; auto; cbn; intros; congruence. Qed.

Lemma matches_ok_plain : matches (xs SOK) (out_s SOK).
Proof. repeat split; cbn; intros; congruence. Qed.

Lemma matches_ok_ci ci : matches (xs SOK) (out_ci ci).
Proof. repeat split; cbn; intros; congruence. Qed.

Local Hint Resolve matches_err matches_ok_plain matches_ok_ci : core.

Ltac err := apply matches_err; discriminate.

(* From a read of the model store to the same read of the abstract store. *)
Ltac absget H :=
  let A := fresh "A" in
  match type of H with
  | get_dir ?S ?y = ?v =>
    pose proof (sget_abs S y) as A; rewrite H in A; cbn [option_map] in A;
    rewrite ?abs_init in A; rewrite A
  | get_leaf ?S ?y = ?v =>
    pose proof (sget_leaf_abs S y) as A; rewrite H in A; cbn [option_map] in A;
    rewrite ?abs_init in A; rewrite A
  end.

Ltac bad := cbn [fst snd]; rewrite ?abs_init; split; [reflexivity|err].

Section Ops.
Variable norm : string -> string.
Variable hidden : string -> bool.

Lemma ref_v_lookup st x n :
  fst (s_lookup norm (abs st) x n) = abs (fst (v_lookup norm st x n)) /\
  matches (snd (s_lookup norm (abs st) x n)) (snd (v_lookup norm st x n)).
Proof.
  unfold s_lookup, v_lookup. rewrite get_dir_init_same, sget_abs.
  destruct (get_dir st x) as [d|]; cbn; rewrite ?abs_init; [|split; auto; err].
  rewrite lookup_abs. destruct (find_entry (norm n) (d_entries d)) as [e|]; cbn; rewrite ?abs_init; [|split; auto; err].
  split; auto. repeat split; cbn; auto; try congruence.
  intros m. destruct (e_child e) as [y|l]; [discriminate|].
  unfold nlink_of, child_attr. rewrite sget_leaf_abs, get_leaf_init. destruct (get_leaf st l); cbn; congruence.
Qed.

Lemma ref_lookup_child st x n :
  fst (s_lookup norm (abs st) x n) = abs (fst (lookup_child norm st x n)) /\
  matches (let e := snd (s_lookup norm (abs st) x n) in mkX (x_status e) (x_child e) None LNone false)
          (snd (lookup_child norm st x n)).
Proof.
  unfold s_lookup, lookup_child. rewrite get_dir_init_same, sget_abs.
  destruct (get_dir st x) as [d|]; cbn; rewrite ?abs_init; [|split; auto; err].
  rewrite lookup_abs. destruct (find_entry (norm n) (d_entries d)) as [e|]; cbn; rewrite ?abs_init; [|split; auto; err].
  split; auto. repeat split; cbn; auto; try congruence.
Qed.

Lemma ref_v_open st x n c ex f :
  fst (s_open norm (abs st) x n c ex f) = abs (fst (v_open norm st x n c ex f)) /\
  matches (snd (s_open norm (abs st) x n c ex f)) (snd (v_open norm st x n c ex f)).
Proof.
  unfold s_open, v_open. rewrite get_dir_init_same, sget_abs.
  destruct (get_dir st x) as [d|] eqn:Ed; cbn; rewrite ?abs_init; [|split; auto; err].
  rewrite lookup_abs. destruct (find_entry (norm n) (d_entries d)) as [e|]; cbn.
  - destruct ex; cbn; rewrite ?abs_init; [|split; auto; err].
    destruct (e_child e) as [y|l]; cbn; rewrite ?abs_init; [split; auto; err|].
    rewrite sget_leaf_abs, get_leaf_init. destruct (get_leaf st l) as [lf|]; cbn; rewrite ?abs_init; [|split; auto; err].
    destruct (l_kind lf); cbn; rewrite ?abs_init; split; auto; try err.
    repeat split; cbn; auto; congruence.
  - destruct (d_deleted d || negb c); cbn; rewrite ?abs_init; [split; auto; err|].
    destruct f; cbn; rewrite ?abs_init; [split; auto; err|].
    destruct (add_leaf (init st x) _) as [st1 l] eqn:E.
    pose proof E as E'. apply add_leaf_abs in E. rewrite abs_init in E. rewrite E, clock_init.
    cbn [fst snd]. rewrite abs_attach. split; auto.
    repeat split; cbn; auto; congruence.
Qed.

Lemma ref_v_mkdir st x n :
  fst (s_mkdir norm (abs st) x n) = abs (fst (v_mkdir norm st x n)) /\
  matches (snd (s_mkdir norm (abs st) x n)) (snd (v_mkdir norm st x n)).
Proof.
  unfold s_mkdir, v_mkdir.
  destruct (get_dir (init st x) x) as [d|] eqn:Ed; absget Ed; [|bad].
  rewrite creatable_abs. destruct (may_attach d (norm n)); try bad.
  destruct (add_dir (init st x) _) as [st1 y] eqn:E.
  apply add_dir_abs in E. rewrite abs_init in E. rewrite E, clock_init.
  cbn [fst snd]. rewrite abs_attach. split; auto.
  repeat split; cbn; auto; congruence.
Qed.

Lemma ref_v_mknod st x n k f :
  fst (s_mknod norm (abs st) x n k f) = abs (fst (v_mknod norm st x n k f)) /\
  matches (snd (s_mknod norm (abs st) x n k f)) (snd (v_mknod norm st x n k f)).
Proof.
  unfold s_mknod, v_mknod.
  destruct (get_dir (init st x) x) as [d|] eqn:Ed; absget Ed; [|bad].
  rewrite creatable_abs. destruct (may_attach d (norm n)); try bad.
  assert (forall lk tag,
    fst (let '(s1, l) := snew_leaf (abs st) lk in
         (smod s1 x (bind (ss_clock (abs st)) n (norm n) (CLeaf l)), xchild (CLeaf l) (Some 1%Z))) =
    abs (fst (let '(st1, l) := add_leaf (init st x) (mkLeaf lk 1 tag) in
              let st2 := mod_dir st1 x (attach (st_clock (init st x)) n (norm n) (CLeaf l)) in
              (st2, out_child (CLeaf l) 1 tag [(d_change d, change_of st2 x)]))) /\
    matches (snd (let '(s1, l) := snew_leaf (abs st) lk in
         (smod s1 x (bind (ss_clock (abs st)) n (norm n) (CLeaf l)), xchild (CLeaf l) (Some 1%Z))))
      (snd (let '(st1, l) := add_leaf (init st x) (mkLeaf lk 1 tag) in
              let st2 := mod_dir st1 x (attach (st_clock (init st x)) n (norm n) (CLeaf l)) in
              (st2, out_child (CLeaf l) 1 tag [(d_change d, change_of st2 x)])))) as Hmk.
  { intros lk tag. destruct (add_leaf (init st x) _) as [st1 l] eqn:E.
    apply add_leaf_abs in E. rewrite abs_init in E. rewrite E, clock_init.
    cbn [fst snd]. rewrite abs_attach. split; auto.
    repeat split; cbn; auto; congruence. }
  destruct k; try apply Hmk; try bad. destruct f; [bad|apply Hmk].
Qed.

Lemma link_status_abs lf : linkable (abs_leaf lf) = link_status lf.
Proof. reflexivity. Qed.

Lemma ref_v_link st x n l :
  fst (s_link norm (abs st) x n l) = abs (fst (v_link norm st x n l)) /\
  matches (snd (s_link norm (abs st) x n l)) (snd (v_link norm st x n l)).
Proof.
  unfold s_link, v_link.
  destruct (get_leaf st l) as [lf|] eqn:El; absget El; [|split; auto; err].
  destruct (get_dir (init st x) x) as [d|] eqn:Ed; absget Ed; [|bad].
  rewrite creatable_abs. destruct (may_attach d (norm n)); try bad.
  rewrite link_status_abs. destruct (link_status lf); try bad.
  cbn [fst snd]. rewrite abs_attach, abs_link, abs_init, clock_init. split; auto.
  repeat split; cbn; auto; try congruence.
Qed.

Lemma deletable_initialise d : deletable hidden (initialise d) = deletable hidden d.
Proof. reflexivity. Qed.

Lemma ref_v_remove st x n rd rl :
  fst (s_remove norm hidden (abs st) x n rd rl) = abs (fst (v_remove norm hidden st x n rd rl)) /\
  matches (snd (s_remove norm hidden (abs st) x n rd rl)) (snd (v_remove norm hidden st x n rd rl)).
Proof.
  unfold s_remove, v_remove.
  destruct (get_dir (init st x) x) as [d|] eqn:Ed; absget Ed; [|bad].
  rewrite lookup_abs. destruct (find_entry (norm n) (d_entries d)) as [e|]; cbn [option_map]; [|bad].
  cbn [abs_entry snd sb_child]. destruct (e_child e) as [y|l].
  - destruct rd; cbn [negb]; [|bad].
    destruct (get_dir (init (init st x) y) y) as [dy|] eqn:Ey; absget Ey; [|bad].
    rewrite sempty_abs. destruct (deletable hidden dy); cbn [negb]; [|bad].
    cbn [fst snd]. rewrite abs_detach, abs_mark_deleted, !abs_init. split; auto.
  - destruct rl; cbn [negb]; [|bad].
    cbn [fst snd]. rewrite abs_detach, abs_unlink, !abs_init. split; auto.
Qed.

Lemma ref_remove st x n :
  fst (s_remove norm hidden (abs st) x n true true) = abs (fst (remove norm hidden st x n)) /\
  matches (snd (s_remove norm hidden (abs st) x n true true)) (snd (remove norm hidden st x n)).
Proof.
  unfold s_remove, remove.
  destruct (get_dir (init st x) x) as [d|] eqn:Ed; absget Ed; [|bad].
  rewrite lookup_abs. destruct (find_entry (norm n) (d_entries d)) as [e|]; cbn [option_map]; [|bad].
  cbn [abs_entry snd sb_child negb]. destruct (e_child e) as [y|l].
  - destruct (get_dir (init (init st x) y) y) as [dy|] eqn:Ey; absget Ey; [|bad].
    rewrite sempty_abs. destruct (deletable hidden dy); cbn [negb]; [|bad].
    cbn [fst snd]. rewrite abs_detach, abs_mark_deleted, !abs_init. split; auto.
  - cbn [fst snd]. rewrite abs_detach, abs_unlink, !abs_init. split; auto.
Qed.

Lemma ref_create_and_enter st x n :
  fst (s_create_and_enter norm (abs st) x n) = abs (fst (create_and_enter norm st x n)) /\
  matches (snd (s_create_and_enter norm (abs st) x n)) (snd (create_and_enter norm st x n)).
Proof.
  unfold s_create_and_enter, create_and_enter.
  destruct (get_dir (init st x) x) as [d|] eqn:Ed; absget Ed; [|bad].
  assert (forall st0 s0, s0 = abs st0 ->
    fst (let '(s1, y) := snew_dir s0 in
         (smod s1 x (bind (ss_clock (abs st)) n (norm n) (CDir y)), xchild (CDir y) None)) =
    abs (fst (let '(st1, y) := add_dir st0 (new_dir (d_hooks d)) in
              (mod_dir st1 x (attach (st_clock (init st x)) n (norm n) (CDir y)), out_child (CDir y) (-1) 0 []))) /\
    matches (snd (let '(s1, y) := snew_dir s0 in
         (smod s1 x (bind (ss_clock (abs st)) n (norm n) (CDir y)), xchild (CDir y) None)))
      (snd (let '(st1, y) := add_dir st0 (new_dir (d_hooks d)) in
              (mod_dir st1 x (attach (st_clock (init st x)) n (norm n) (CDir y)), out_child (CDir y) (-1) 0 [])))) as Hmk.
  { intros st0 s0 ->. destruct (add_dir st0 _) as [st1 y] eqn:E.
    apply add_dir_abs in E. rewrite E, clock_init.
    cbn [fst snd]. rewrite abs_attach. split; auto.
    repeat split; cbn; auto; congruence. }
  rewrite lookup_abs. destruct (find_entry (norm n) (d_entries d)) as [e|]; cbn [option_map].
  - cbn [abs_entry snd sb_child]. destruct (e_child e) as [y|l].
    + cbn [fst snd]. rewrite abs_init. split; auto. repeat split; cbn; auto; congruence.
    + apply Hmk. now rewrite abs_unlink, abs_detach, abs_init.
  - cbn [abs_dir sd_deleted]. destruct (d_deleted d); [bad|].
    apply Hmk. now rewrite abs_init.
Qed.

Lemma ref_install_hooks st x t :
  abs st = abs (fst (install_hooks st x t)) /\
  matches (match sget (abs st) x with Some _ => xs SOK | None => xs SBadOp end) (snd (install_hooks st x t)).
Proof.
  unfold install_hooks. destruct (get_dir st x) as [d|] eqn:Ed; absget Ed; cbn [fst snd].
  - split; auto. symmetry. apply abs_mod_dir_id. reflexivity.
  - split; auto. err.
Qed.

(* ---- listings ------------------------------------------------------------------ *)

Lemma child_eqb_refl c : child_eqb c c = true.
Proof. destruct c; cbn; apply Nat.eqb_refl. Qed.

Lemma child_eqb_eq a b : child_eqb a b = true -> a = b.
Proof. destruct a, b; cbn; try discriminate; intros H; apply Nat.eqb_eq in H; congruence. Qed.

Lemma nc_eqb_refl a : nc_eqb a a = true.
Proof. unfold nc_eqb. now rewrite String.eqb_refl, child_eqb_refl. Qed.

Lemma list_eqb_refl {A} (eqb : A -> A -> bool) l : (forall x, eqb x x = true) -> list_eqb eqb l l = true.
Proof. intros H. induction l; cbn; auto. now rewrite H, IHl. Qed.

Lemma insert_by_map {A B} (g : A -> B) (k : A -> string) (k' : B -> string) x l :
  (forall a, k' (g a) = k a) ->
  map g (insert_by k x l) = insert_by k' (g x) (map g l).
Proof.
  intros H. induction l as [|y t IH]; cbn; auto.
  rewrite !H. destruct (String.leb (k x) (k y)); cbn; auto. now rewrite IH.
Qed.

Lemma sort_by_map {A B} (g : A -> B) (k : A -> string) (k' : B -> string) l :
  (forall a, k' (g a) = k a) ->
  map g (sort_by k l) = sort_by k' (map g l).
Proof.
  intros H. induction l as [|y t IH]; cbn; auto.
  unfold sort_by in *. cbn. erewrite insert_by_map by eauto. now rewrite IH.
Qed.

Definition nc_of (e : entry) : string * child := (e_name e, e_child e).

Lemma names_of_filter (p : entry -> bool) (q : string * sbind -> bool) es :
  (forall e, q (abs_entry e) = p e) ->
  names_of (filter q (map abs_entry es)) = map nc_of (filter p es).
Proof.
  intros H. unfold names_of. induction es as [|e t IH]; cbn [map filter]; auto.
  rewrite H. destruct (p e); cbn [map]; now rewrite IH.
Qed.

Lemma shown_abs e : shown hidden (snd (abs_entry e)) = visible hidden e.
Proof. reflexivity. Qed.

Lemma ref_lookup_all st x :
  fst (s_lookup_all hidden (abs st) x) = abs (fst (lookup_all hidden st x)) /\
  matches (snd (s_lookup_all hidden (abs st) x)) (snd (lookup_all hidden st x)).
Proof.
  unfold s_lookup_all, lookup_all.
  destruct (get_dir (init st x) x) as [d|] eqn:Ed; absget Ed; [|bad].
  cbn [fst snd]. rewrite abs_init. split; auto.
  repeat split; cbn [x_riod x_status x_child x_nlink xlist out_list o_status o_child]; auto; try congruence.
  cbn [x_listing listing_ok xlist]. unfold reported, out_list. cbn [o_entries abs_dir sd_map].
  rewrite (names_of_filter is_dir_entry) by reflexivity.
  rewrite (names_of_filter (fun e => negb (is_dir_entry e) && visible hidden e)) by reflexivity.
  rewrite map_map, map_app.
  rewrite <- !(sort_by_map nc_of e_name fst) by reflexivity.
  apply list_eqb_refl, nc_eqb_refl.
Qed.

Lemma ref_read_dir st x :
  fst (s_read_dir hidden (abs st) x) = abs (fst (read_dir hidden st x)) /\
  matches (snd (s_read_dir hidden (abs st) x)) (snd (read_dir hidden st x)).
Proof.
  unfold s_read_dir, read_dir.
  destruct (get_dir (init st x) x) as [d|] eqn:Ed; absget Ed; [|bad].
  cbn [fst snd]. rewrite abs_init. split; auto.
  repeat split; cbn [x_riod x_status x_child x_nlink xlist out_list o_status o_child]; auto; try congruence.
  cbn [x_listing listing_ok xlist]. unfold out_list. cbn [o_entries abs_dir sd_map].
  set (ty := fun p : string * sbind => _).
  set (ty' := fun e : entry => (r_name (typed (init st x) e), r_attr (typed (init st x) e))).
  assert (map ty (filter (fun p => shown hidden (snd p)) (map abs_entry (d_entries d))) =
          map ty' (filter (visible hidden) (d_entries d))) as ->.
  { induction (d_entries d) as [|e t IH]; cbn [map filter]; auto.
    rewrite shown_abs. destruct (visible hidden e); cbn [map]; rewrite IH; auto.
    f_equal. unfold ty, ty', typed. cbn [abs_entry snd sb_name sb_child].
    destruct (e_child e) as [y|l]; cbn; auto.
    rewrite sget_leaf_abs, get_leaf_init. destruct (get_leaf st l); auto. }
  rewrite map_map. fold ty'.
  rewrite <- (sort_by_map ty' e_name fst).
  - apply list_eqb_refl. intros a. now rewrite String.eqb_refl, Z.eqb_refl.
  - intros e. unfold ty', typed. destruct (e_child e); auto.
Qed.

Inductive sub {A} : list A -> list A -> Prop :=
| sub_nil : sub [] []
| sub_skip x l' l : sub l' l -> sub l' (x :: l)
| sub_keep x l' l : sub l' l -> sub (x :: l') (x :: l).

Lemma sub_refl {A} (l : list A) : sub l l.
Proof. induction l; [apply sub_nil|apply sub_keep; auto]. Qed.

Lemma sub_nil_l {A} (l : list A) : sub [] l.
Proof. induction l; constructor; auto. Qed.

Lemma sub_trans {A} (a b c : list A) : sub a b -> sub b c -> sub a c.
Proof.
  intros H1 H2. revert a H1. induction H2; intros a H1; auto.
  - apply sub_skip; auto.
  - inversion H1; subst; [apply sub_skip|apply sub_keep]; auto.
Qed.

Lemma sub_filter {A} (p : A -> bool) l : sub (filter p l) l.
Proof. induction l; cbn; [constructor|]. destruct (p a); [apply sub_keep|apply sub_skip]; auto. Qed.

Lemma sub_firstn {A} n (l : list A) : sub (firstn n l) l.
Proof. revert n; induction l; intros [|n]; cbn; auto using sub_nil_l, sub_nil, sub_keep. Qed.

Lemma sub_seek c es : sub (seek c es) es.
Proof. induction es; cbn; [constructor|]. destruct (c <=? e_cookie a)%N; [apply sub_refl|apply sub_skip; auto]. Qed.

Lemma sub_in {A} (a b : list A) x : sub a b -> In x a -> In x b.
Proof. induction 1; cbn; auto. intros [->|H']; auto. Qed.

Lemma sub_map {A B} (f : A -> B) a b : sub a b -> sub (map f a) (map f b).
Proof. induction 1; cbn; [apply sub_nil|apply sub_skip|apply sub_keep]; auto. Qed.

Lemma existsb_eqb_in k l : existsb (String.eqb k) l = true <-> In k l.
Proof.
  rewrite existsb_exists. split.
  - intros [x [H1 H2]]. apply String.eqb_eq in H2. now subst.
  - intros H. exists k. split; auto. apply String.eqb_refl.
Qed.

Lemma nodup_keys_sub a b : sub a b -> nodup_keys b = true -> nodup_keys a = true.
Proof.
  induction 1; cbn; auto.
  - intros H'. apply andb_prop in H' as [_ H']. auto.
  - intros H'. apply andb_prop in H' as [H1 H2]. rewrite IHsub by auto. rewrite andb_true_r.
    apply negb_true_iff in H1. apply negb_true_iff.
    destruct (existsb (String.eqb x) l') eqn:E; auto.
    apply existsb_eqb_in in E. eapply sub_in in E; eauto. apply existsb_eqb_in in E. congruence.
Qed.

Lemma ref_v_readdir st x c p :
  fst (s_readdir hidden (abs st) x) = abs (fst (v_readdir hidden st x c p)) /\
  ((forall d, get_dir st x = Some d -> nodup_keys (map e_name (d_entries d)) = true) ->
   matches (snd (s_readdir hidden (abs st) x)) (snd (v_readdir hidden st x c p))).
Proof.
  unfold s_readdir, v_readdir.
  destruct (get_dir (init st x) x) as [d|] eqn:Ed; absget Ed; [|cbn [fst snd]; rewrite abs_init; split; auto; intros; err].
  cbn [fst snd]. rewrite abs_init. split; auto. intros Hnd.
  repeat split; cbn [x_riod x_status x_child x_nlink xlist out_list o_status o_child]; auto; try congruence.
  cbn [x_listing listing_ok xlist]. unfold reported, out_list. cbn [o_entries abs_dir sd_map].
  rewrite (names_of_filter (visible hidden)) by reflexivity.
  rewrite map_map. cbn [r_name r_child report].
  set (sel := firstn p (filter (visible hidden) (seek c (d_entries d)))).
  assert (sub sel (filter (visible hidden) (d_entries d))) as Hsub.
  { unfold sel. eapply sub_trans; [apply sub_firstn|].
    generalize (sub_seek c (d_entries d)). generalize (seek c (d_entries d)) as l'.
    intros l' Hs. induction Hs; cbn; try apply sub_nil.
    - destruct (visible hidden x0); [apply sub_skip|]; auto.
    - destruct (visible hidden x0); [apply sub_keep|]; auto. }
  apply andb_true_intro. split.
  - apply forallb_forall. intros nc Hin. apply existsb_exists. exists nc. split; [|apply nc_eqb_refl].
    eapply sub_in; [apply (sub_map nc_of); eauto|]. exact Hin.
  - rewrite map_map. cbn [fst].
    eapply nodup_keys_sub; [apply (sub_map e_name); eapply sub_trans; [exact Hsub|apply sub_filter]|].
    rewrite get_dir_init_same in Ed. destruct (get_dir st x) as [d0|] eqn:E0; [|discriminate].
    injection Ed as <-. cbn [initialise d_entries]. eauto.
Qed.

(* ---- rename ---------------------------------------------------------------------- *)

Lemma child_eqb_dir a b : child_eqb (CDir a) (CDir b) = Nat.eqb a b.
Proof. reflexivity. Qed.

Lemma ref_v_rename st x1 n1 x2 n2 :
  x_riod (snd (s_rename norm hidden (abs st) x1 n1 x2 n2)) = false ->
  fst (s_rename norm hidden (abs st) x1 n1 x2 n2) = abs (fst (v_rename norm hidden st x1 n1 x2 n2)) /\
  matches (snd (s_rename norm hidden (abs st) x1 n1 x2 n2)) (snd (v_rename norm hidden st x1 n1 x2 n2)).
Proof.
  unfold s_rename, v_rename.
  set (st0 := init (init st x1) x2).
  assert (abs st0 = abs st) as H0 by (unfold st0; now rewrite !abs_init).
  assert (st_clock st0 = st_clock st) as Hc by (unfold st0; now rewrite !clock_init).
  rewrite <- H0, !sget_abs.
  destruct (get_dir st0 x1) as [d1|] eqn:E1; cbn [option_map]; [|intros _; split; auto; err].
  destruct (get_dir st0 x2) as [d2|] eqn:E2; cbn [option_map]; [|intros _; split; auto; err].
  rewrite !lookup_abs.
  destruct (find_entry (norm n1) (d_entries d1)) as [oe|] eqn:F1; cbn [option_map];
  destruct (find_entry (norm n2) (d_entries d2)) as [ne|] eqn:F2; cbn [option_map].
  - (* both exist *)
    cbn [abs_entry snd sb_child].
    destruct (e_child ne) as [nd|nl] eqn:Cn; destruct (e_child oe) as [od|ol] eqn:Co.
    + (* directory over directory *)
      rewrite child_eqb_dir, (Nat.eqb_sym od nd).
      destruct (Nat.eqb nd od) eqn:Eq.
      * intros _. cbn [fst snd]. split; [auto|first [solve [auto]|repeat split; cbn; auto; congruence]].
      * rewrite sget_abs.
        destruct (get_dir (init st0 nd) nd) as [dn|] eqn:En.
        -- rewrite get_dir_init_same in En. destruct (get_dir st0 nd) as [dn0|]; [|discriminate].
           injection En as <-. cbn [option_map]. rewrite sempty_abs, deletable_initialise.
           destruct (deletable hidden dn0); cbn [negb]; [|intros _; bad].
           destruct (reaches _ _ _ _); [discriminate|]. intros _.
           cbn [fst snd]. rewrite abs_attach, abs_mark_deleted, !abs_detach, abs_init. rewrite abs_clock. split; [auto|first [solve [auto]|repeat split; cbn; auto; congruence]].
        -- rewrite get_dir_init_same in En. destruct (get_dir st0 nd) as [dn0|]; [discriminate|].
           cbn [option_map]. intros _. bad.
    + intros _. cbn [child_eqb]. split; auto. err.
    + intros _. cbn [child_eqb]. split; auto. err.
    + cbn [child_eqb]. rewrite (Nat.eqb_sym ol nl). destruct (Nat.eqb nl ol) eqn:Eq; intros _.
      * cbn [fst snd]. split; [auto|first [solve [auto]|repeat split; cbn; auto; congruence]].
      * cbn [fst snd]. rewrite abs_attach, abs_unlink, !abs_detach. rewrite abs_clock. split; [auto|first [solve [auto]|repeat split; cbn; auto; congruence]].
  - (* target free *)
    cbn [abs_entry snd sb_child abs_dir sd_deleted].
    destruct (d_deleted d2); [intros _; split; auto; err|].
    match goal with |- context [if ?b then _ else _] => destruct b end; [discriminate|]. intros _.
    cbn [fst snd]. rewrite abs_attach, abs_detach. rewrite abs_clock. split; auto.
  - intros _. split; auto. err.
  - intros _. cbn [abs_dir sd_deleted]. destruct (d_deleted d2); split; auto; err.
Qed.

End Ops.
