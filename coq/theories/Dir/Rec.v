(* The recursive operations (RemoveAll, RemoveAllChildren, CreateChildren,
   FilterChildren): commutation with the abstraction function and
   preservation of well-formedness, proved together because the
   commutation needs "uninitialised directories are empty". *)
From Coq Require Import Lia ZifyBool ZifyN ZifyNat Permutation.
From VF Require Import Dir.Model Dir.Spec Dir.Abs Dir.Refine Dir.WF.
Open Scope string_scope.

Global Arguments remove_all_children : simpl never.
Global Arguments s_destroy : simpl never.

Ltac bad3 := cbn [fst snd]; rewrite ?abs_init; split; [reflexivity|split; [err|auto using WF_init]].
Ltac fin3 := split; [auto|split; [first [solve [auto]|repeat split; cbn; auto; congruence]|]].

Section RecOps.
Variable norm : string -> string.
Variable hidden : string -> bool.
Notation WF := (WF norm).

(* ---- removeAllChildren ------------------------------------------------------------ *)

Lemma post_remove_sim c rec rec' :
  (forall st y, WF c st -> rec' (abs st) y = (abs (fst (rec st y)), snd (rec st y)) /\ WF c (fst (rec st y))) ->
  forall es st, WF c st ->
    s_post rec' (map abs_entry es) (abs st) = (abs (fst (post_remove rec es st)), snd (post_remove rec es st)) /\
    WF c (fst (post_remove rec es st)).
Proof.
  intros Hrec es. induction es as [|e t IH]; intros st H; cbn [map post_remove s_post fst snd]; auto.
  cbn [abs_entry snd sb_child]. destruct (e_child e) as [y|l].
  - destruct (Hrec st y H) as [R1 R2]. rewrite R1.
    destruct (rec st y) as [st1 ok] eqn:Er. cbn [fst snd] in *.
    destruct (IH st1 R2) as [I1 I2]. rewrite I1.
    destruct (post_remove rec t st1) as [st2 ok2]. cbn [fst snd] in *. auto.
  - rewrite <- abs_unlink. apply IH. now apply WF_unlink.
Qed.

Lemma smod_clear_abs st x g un :
  abs (mod_dir st x (fun d' => mkDir [] (d_deleted d') (g d') (un d') (d_hooks d'))) =
  smod (abs st) x (fun d' => mkSDir [] (sd_deleted d')).
Proof. apply abs_mod_dir. reflexivity. Qed.

Lemma rac_sim c : forall f st x ds, WF c st ->
  s_destroy f (abs st) x ds = (abs (fst (remove_all_children f st x ds)), snd (remove_all_children f st x ds)) /\
  WF c (fst (remove_all_children f st x ds)).
Proof.
  induction f as [|f IH]; intros st x ds H.
  - cbn. auto.
  - unfold remove_all_children; fold remove_all_children. unfold s_destroy; fold s_destroy.
    rewrite sget_abs. destruct (get_dir st x) as [d|] eqn:Ed; cbn [option_map]; [|auto].
    pose proof (H x d Ed) as Hok.
    destruct (d_uninit d) eqn:Eu.
    + cbn [abs_dir sd_map]. rewrite (ok_uninit _ _ _ _ _ Hok Eu). cbn [map rev s_post].
      rewrite <- smod_clear_abs with (g := d_change) (un := fun _ => false).
      assert (WF c (mod_dir st x (fun d' => mkDir [] (d_deleted d') (d_change d') false (d_hooks d')))) as H1.
      { apply WF_mod_dir; auto. intros; apply dir_ok_clear. }
      destruct ds; cbn [fst snd].
      * rewrite abs_mark_deleted. split; auto. now apply WF_mark_deleted.
      * split; auto.
    + cbn [abs_dir sd_map]. rewrite <- map_rev.
      set (st1 := mod_dir st x _).
      assert (abs st1 = smod (abs st) x (fun d' => mkSDir [] (sd_deleted d'))) as A1 by apply smod_clear_abs.
      assert (WF c st1) as H1.
      { apply WF_mod_dir; auto. intros; apply dir_ok_clear. }
      rewrite <- A1.
      assert (WF c (if ds then mark_deleted st1 x else st1)) as H2 by (destruct ds; auto using WF_mark_deleted).
      replace (if ds then sdelete (abs st1) x else abs st1) with (abs (if ds then mark_deleted st1 x else st1))
        by (destruct ds; auto using abs_mark_deleted).
      apply post_remove_sim; auto.
Qed.

Lemma abs_depth_fuel st : sfuel (abs st) = depth_fuel st.
Proof. unfold sfuel, depth_fuel. now rewrite abs_ndirs. Qed.

Lemma ref_remove_all c st x n : WF c st ->
  fst (s_remove_all norm (abs st) x n) = abs (fst (remove_all norm st x n)) /\
  matches (snd (s_remove_all norm (abs st) x n)) (snd (remove_all norm st x n)) /\
  WF c (fst (remove_all norm st x n)).
Proof.
  intros H. unfold s_remove_all, remove_all.
  destruct (get_dir (init st x) x) as [d|] eqn:Ed; absget Ed; [|bad3].
  rewrite lookup_abs. destruct (find_entry (norm n) (d_entries d)) as [e|]; cbn [option_map];
    [|bad3].
  cbn [abs_entry snd sb_child]. destruct (e_child e) as [y|l].
  - assert (smod (abs st) x (unbind (norm n)) = abs (mod_dir (init st x) x (detach (norm n)))) as E0
      by now rewrite abs_detach, abs_init.
    assert (depth_fuel (init st x) = depth_fuel st) as E1
      by (unfold depth_fuel, init; now rewrite ndirs_mod_dir).
    rewrite abs_depth_fuel, E0, E1.
    assert (WF c (mod_dir (init st x) x (detach (norm n)))) as H1 by auto using WF_detach, WF_init.
    destruct (rac_sim c (depth_fuel st) _ y true H1) as [R1 R2].
    rewrite R1. destruct (remove_all_children _ _ y true) as [st2 ok]. cbn [fst snd] in *.
    split; auto. split; auto. destruct ok; [apply matches_ok_plain|err].
  - cbn [fst snd]. rewrite abs_unlink, abs_detach, abs_init. split; auto. split; [apply matches_ok_plain|].
    auto using WF_unlink, WF_detach, WF_init.
Qed.

Lemma ref_remove_all_children_op c st x fb : WF c st ->
  fst (s_remove_all_children (abs st) x fb) = abs (fst (remove_all_children_op st x fb)) /\
  matches (snd (s_remove_all_children (abs st) x fb)) (snd (remove_all_children_op st x fb)) /\
  WF c (fst (remove_all_children_op st x fb)).
Proof.
  intros H. unfold s_remove_all_children, remove_all_children_op.
  destruct (get_dir st x) as [d|] eqn:Ed; absget Ed; [|cbn [fst snd]; split; [reflexivity|split; [err|auto]]].
  rewrite abs_depth_fuel.
  destruct (rac_sim c (depth_fuel st) st x fb H) as [R1 R2]. rewrite R1.
  destruct (remove_all_children _ _ x fb) as [st2 ok]. cbn [fst snd] in *.
  split; auto. split; auto. destruct ok; [apply matches_ok_plain|err].
Qed.

(* ---- FilterChildren ------------------------------------------------------------------- *)

Lemma filter_leaves_sim c x rm stop : forall ls st acc, WF c st ->
  s_filter_leaves norm hidden x rm stop ls (abs st) (fa_visited acc) =
    (abs (fst (fst (filter_leaves norm hidden x rm stop ls st acc))),
     fa_visited (snd (fst (filter_leaves norm hidden x rm stop ls st acc))),
     snd (filter_leaves norm hidden x rm stop ls st acc)) /\
  WF c (fst (fst (filter_leaves norm hidden x rm stop ls st acc))).
Proof.
  induction ls as [|[n l] t IH]; intros st acc H; cbn [filter_leaves s_filter_leaves fst snd]; auto.
  destruct (match stop with Some s => Nat.eqb s l | None => false end); cbn [fst snd fa_visited]; auto.
  destruct (existsb (Nat.eqb l) rm).
  - destruct (ref_remove norm hidden st x n) as [R _]. rewrite R.
    apply (IH _ (mkFacc (fa_visited acc ++ [l]) (fa_uninit acc))). now apply WF_remove.
  - apply (IH _ (mkFacc (fa_visited acc ++ [l]) (fa_uninit acc))). auto.
Qed.

Lemma filter_dirs_sim c rec rec' :
  (forall st y acc, WF c st ->
     rec' (abs st) y (fa_visited acc) =
       (abs (fst (fst (rec st y acc))), fa_visited (snd (fst (rec st y acc))), snd (rec st y acc)) /\
     WF c (fst (fst (rec st y acc)))) ->
  forall ds st acc, WF c st ->
    s_filter_dirs rec' ds (abs st) (fa_visited acc) =
      (abs (fst (fst (filter_dirs rec ds st acc))), fa_visited (snd (fst (filter_dirs rec ds st acc))),
       snd (filter_dirs rec ds st acc)) /\
    WF c (fst (fst (filter_dirs rec ds st acc))).
Proof.
  intros Hrec ds. induction ds as [|y t IH]; intros st acc H; cbn [filter_dirs s_filter_dirs fst snd]; auto.
  destruct (Hrec st y acc H) as [R1 R2]. rewrite R1.
  destruct (rec st y acc) as [[st1 acc1] cnt]. cbn [fst snd] in *.
  destruct cnt; cbn [fst snd]; auto.
Qed.

Lemma flat_leaves_abs es :
  flat_map (fun p : string * sbind => match sb_child (snd p) with CLeaf l => [(sb_name (snd p), l)] | CDir _ => [] end)
           (map abs_entry es) = leaf_entries es.
Proof. unfold leaf_entries. induction es as [|e t IH]; cbn; auto. rewrite IH. destruct (e_child e); auto. Qed.

Lemma flat_dirs_abs es :
  flat_map (fun p : string * sbind => match sb_child (snd p) with CDir y => [y] | CLeaf _ => [] end)
           (map abs_entry es) = dir_entries es.
Proof. unfold dir_entries. induction es as [|e t IH]; cbn; auto. rewrite IH. destruct (e_child e); auto. Qed.

Lemma s_destroy_empty f s x d :
  sget s x = Some d -> sd_map d = [] -> s_destroy (S f) s x false = (s, true).
Proof.
  intros Hd Hm. unfold s_destroy; fold s_destroy. rewrite Hd, Hm. cbn [rev s_post]. f_equal.
  unfold smod. rewrite Hd. destruct s as [ds ls cl]. cbn. f_equal. apply upd_same.
  unfold sget in Hd. cbn in Hd. rewrite Hd. destruct d; cbn in *. now subst.
Qed.

Lemma filter_rec_sim c rm stop rmu : forall f st x acc, WF c st ->
  s_filter_rec norm hidden f rm stop (abs st) x (fa_visited acc) =
    (abs (fst (fst (filter_rec norm hidden f rm stop rmu st x acc))),
     fa_visited (snd (fst (filter_rec norm hidden f rm stop rmu st x acc))),
     snd (filter_rec norm hidden f rm stop rmu st x acc)) /\
  WF c (fst (fst (filter_rec norm hidden f rm stop rmu st x acc))).
Proof.
  induction f as [|f IH]; intros st x acc H; cbn [filter_rec s_filter_rec fst snd]; auto.
  rewrite sget_abs. destruct (get_dir st x) as [d|] eqn:Ed; cbn [option_map fst snd]; auto.
  pose proof (H x d Ed) as Hok.
  cbn [abs_dir sd_map]. rewrite flat_leaves_abs, flat_dirs_abs.
  destruct (d_uninit d) eqn:Eu.
  - rewrite (ok_uninit _ _ _ _ _ Hok Eu). cbn [leaf_entries dir_entries flat_map s_filter_leaves s_filter_dirs fst snd fa_visited].
    destruct rmu; auto.
    destruct (rac_sim c (depth_fuel st) st x false H) as [R1 R2].
    unfold depth_fuel in R1 at 1.
    erewrite s_destroy_empty in R1.
    + apply (f_equal fst) in R1. cbn [fst] in R1. rewrite <- R1. auto.
    + rewrite sget_abs, Ed. reflexivity.
    + cbn. now rewrite (ok_uninit _ _ _ _ _ Hok Eu).
  - destruct (filter_leaves_sim c x rm stop (leaf_entries (d_entries d)) st acc H) as [L1 L2]. rewrite L1.
    destruct (filter_leaves norm hidden x rm stop (leaf_entries (d_entries d)) st acc) as [[st1 acc1] cnt].
    cbn [fst snd] in *. destruct cnt; cbn [fst snd]; auto.
    apply filter_dirs_sim; auto.
Qed.

Lemma ref_filter_children c st x rm stop rmu : WF c st ->
  fst (s_filter norm hidden (abs st) x rm stop) = abs (fst (filter_children norm hidden st x rm stop rmu)) /\
  matches (snd (s_filter norm hidden (abs st) x rm stop)) (snd (filter_children norm hidden st x rm stop rmu)) /\
  WF c (fst (filter_children norm hidden st x rm stop rmu)).
Proof.
  intros H. unfold s_filter, filter_children.
  destruct (get_dir st x) as [d|] eqn:Ed; absget Ed; [|cbn [fst snd]; split; [reflexivity|split; [err|auto]]].
  rewrite abs_depth_fuel.
  destruct (filter_rec_sim c rm stop rmu (depth_fuel st) st x (mkFacc [] 0) H) as [R1 R2].
  cbn [fa_visited] in R1. rewrite R1.
  destruct (filter_rec norm hidden (depth_fuel st) rm stop rmu st x (mkFacc [] 0)) as [[st1 acc1] cnt].
  cbn [fst snd] in *. split; auto. split; auto.
  destruct cnt; (split; [reflexivity|split; [reflexivity|]]); cbn; try congruence.
  all: intros _; split; [intros ? [=]|split; [intros ? [=]|]]; apply list_eqb_refl, Nat.eqb_refl.
Qed.

(* ---- CreateChildren -------------------------------------------------------------------- *)

Lemma nodup_keys_NoDup ks : nodup_keys ks = true <-> NoDup ks.
Proof.
  induction ks as [|k t IH]; cbn.
  - split; auto. constructor.
  - rewrite andb_true_iff, negb_true_iff, IH. split.
    + intros [H1 H2]. constructor; auto. intros Hin. apply existsb_eqb_in in Hin. congruence.
    + intros H. inversion H; subst. split; auto.
      destruct (existsb (String.eqb k) t) eqn:E; auto. apply existsb_eqb_in in E. tauto.
Qed.

Lemma insert_by_perm {A} (k : A -> string) x l : Permutation (insert_by k x l) (x :: l).
Proof.
  induction l as [|y t IH]; cbn; auto.
  destruct (String.leb (k x) (k y)); auto.
  rewrite IH. apply perm_swap.
Qed.

Lemma sort_by_perm {A} (k : A -> string) l : Permutation (sort_by k l) l.
Proof.
  unfold sort_by. induction l as [|y t IH]; cbn; auto.
  rewrite insert_by_perm. now constructor.
Qed.

Lemma alloc_sim c : forall cs st, WF c st ->
  s_alloc (abs st) cs = (abs (fst (alloc_children st cs)), snd (alloc_children st cs)) /\
  WF c (fst (alloc_children st cs)) /\
  st_dirs (fst (alloc_children st cs)) = st_dirs st /\
  st_clock (fst (alloc_children st cs)) = st_clock st /\
  length (st_leaves st) <= length (st_leaves (fst (alloc_children st cs))) /\
  (forall n l, In (n, RLeaf l) (snd (alloc_children st cs)) ->
     l < length (st_leaves (fst (alloc_children st cs)))).
Proof.
  induction cs as [|[n [|k]] t IH]; intros st H; cbn [alloc_children s_alloc].
  - cbn [fst snd]. split; [reflexivity|split; [assumption|split; [reflexivity|split; [reflexivity|split; [lia|intros ? ? []]]]]].
  - destruct (IH st H) as [I1 [I2 [I3 [I4 [I5 I6]]]]]. rewrite I1.
    destruct (alloc_children st t) as [st1 r]. cbn [fst snd] in *.
    split; [reflexivity|split; [assumption|split; [assumption|split; [assumption|split; [assumption|]]]]].
    intros n0 l [E|Hin]; [discriminate|eauto].
  - destruct (add_leaf st (mkLeaf k 1 0)) as [st0 l] eqn:E.
    pose proof (add_leaf_abs _ _ _ _ _ E) as E'. rewrite E'.
    apply add_leaf_fresh in E as [F1 [F2 ->]].
    assert (WF c (fst (add_leaf st (mkLeaf k 1 0)))) as H0 by now apply WF_add_leaf.
    destruct (IH _ H0) as [I1 [I2 [I3 [I4 [I5 I6]]]]]. rewrite I1.
    destruct (alloc_children (fst (add_leaf st (mkLeaf k 1 0))) t) as [st1 r]. cbn [fst snd] in *.
    split; [reflexivity|split; [assumption|split; [assumption|split; [assumption|split]]]].
    + unfold add_leaf in I5. cbn in I5. rewrite app_length in I5. cbn in I5. lia.
    + intros n0 l0 [E|Hin]; [|eauto]. injection E as _ <-. lia.
Qed.

Lemma drop_sim c : forall rs st, WF c st ->
  abs (drop_children st rs) = s_drop (abs st) rs /\ WF c (drop_children st rs).
Proof.
  unfold drop_children, s_drop. induction rs as [|[n [|l]] t IH]; intros st H; cbn [fold_left snd]; auto.
  rewrite <- abs_unlink. apply IH. now apply WF_unlink.
Qed.

Lemma overwritten_sim d keys : forall acc,
  fold_left (fun acc k => match find (fun p : string * sbind => String.eqb (fst p) k) (sd_map (abs_dir d)) with
                          | Some p => p :: acc | None => acc end) keys (map abs_entry acc) =
  map abs_entry (fold_left (fun acc k => match find_entry k (d_entries d) with Some e => e :: acc | None => acc end)
                           keys acc).
Proof.
  induction keys as [|k t IH]; intros acc; cbn [fold_left]; auto.
  rewrite find_abs. destruct (find_entry k (d_entries d)) as [e|]; cbn [option_map]; auto.
  apply (IH (e :: acc)).
Qed.

Section Folds.
Variable x : nat.
Variable bound : string -> bool.

Definition detach_fold (ks : list string) (s : state) : state :=
  fold_left (fun s k => if bound k then mod_dir s x (detach k) else s) ks s.

Lemma detach_fold_sim c ks : forall s, WF c s ->
  abs (detach_fold ks s) = fold_left (fun s' k => if bound k then smod s' x (unbind k) else s') ks (abs s) /\
  WF c (detach_fold ks s) /\
  length (st_dirs (detach_fold ks s)) = length (st_dirs s) /\
  length (st_leaves (detach_fold ks s)) = length (st_leaves s) /\
  st_clock (detach_fold ks s) = st_clock s.
Proof.
  unfold detach_fold. induction ks as [|k t IH]; intros s H; cbn [fold_left]; auto.
  destruct (bound k); auto.
  destruct (IH (mod_dir s x (detach k)) (WF_detach _ _ _ _ _ H)) as [I1 [I2 [I3 [I4 I5]]]].
  rewrite I1, I3, I4, I5, abs_detach, ndirs_mod_dir, nleaves_mod_dir, clock_mod_dir. auto.
Qed.

Lemma detach_fold_keeps ks k : forall s, attachable s x k -> attachable (detach_fold ks s) x k.
Proof.
  unfold detach_fold. induction ks as [|k' t IH]; intros s H; cbn [fold_left]; auto.
  apply IH. destruct (bound k'); auto. apply attachable_mod_dir; auto using keeps_free_detach.
Qed.

Lemma detach_fold_inited ks : forall s, inited s x -> inited (detach_fold ks s) x.
Proof.
  unfold detach_fold. induction ks as [|k' t IH]; intros s H; cbn [fold_left]; auto.
  apply IH. destruct (bound k'); auto. apply inited_mod_dir; auto.
Qed.

Lemma detach_fold_frees ks k : forall s, In k ks -> bound k = true -> inited s x ->
  attachable (detach_fold ks s) x k.
Proof.
  induction ks as [|k' t IH]; intros s Hin Hb Hi; [destruct Hin|].
  destruct Hin as [->|Hin].
  - unfold detach_fold. cbn [fold_left]. rewrite Hb. apply detach_fold_keeps.
    now apply attachable_detach_self.
  - unfold detach_fold. cbn [fold_left]. apply IH; auto.
    destruct (bound k'); auto. apply inited_mod_dir; auto.
Qed.

Lemma detach_fold_get ks : forall s d, get_dir s x = Some d -> exists d', get_dir (detach_fold ks s) x = Some d'.
Proof.
  unfold detach_fold. induction ks as [|k' t IH]; intros s d H; cbn [fold_left]; eauto.
  destruct (bound k'); eauto. eapply IH. rewrite get_dir_mod_dir_same, H. reflexivity.
Qed.
End Folds.

Lemma find_entry_snoc_other k es e : e_norm e <> k -> find_entry k (es ++ [e]) = find_entry k es.
Proof.
  intros Hn. unfold find_entry. induction es as [|a t IH]; cbn.
  - destruct (String.eqb (e_norm e) k) eqn:E; auto. apply String.eqb_eq in E. congruence.
  - destruct (String.eqb (e_norm a) k); auto.
Qed.

Lemma attachable_attach_other st x b n k' ch k :
  k' <> k -> attachable st x k -> attachable (mod_dir st x (attach b n k' ch)) x k.
Proof.
  intros Hn H. apply attachable_mod_dir; auto. split; intros d Hd; unfold attach; cbn; auto.
  now rewrite find_entry_snoc_other.
Qed.

Lemma attach_child_sim clock x st nr :
  abs (attach_child norm clock x st nr) = s_attach_child norm clock x (abs st) nr.
Proof.
  destruct nr as [n [|l]]; cbn [attach_child s_attach_child].
  - destruct (add_dir st _) as [st1 y] eqn:E. apply add_dir_abs in E. rewrite E. apply abs_attach.
  - apply abs_attach.
Qed.

Lemma attach_fold_sim clock x rs : forall st,
  abs (fold_left (attach_child norm clock x) rs st) = fold_left (s_attach_child norm clock x) rs (abs st).
Proof. induction rs as [|nr t IH]; intros st; cbn [fold_left]; auto. now rewrite IH, attach_child_sim. Qed.

Lemma attach_fold_WF c clock x : clock < c -> forall rs st d0,
  WF c st -> get_dir st x = Some d0 ->
  NoDup (map (fun nr => norm (fst nr)) rs) ->
  (forall n r, In (n, r) rs -> attachable st x (norm n)) ->
  (forall n l, In (n, RLeaf l) rs -> l < length (st_leaves st)) ->
  WF c (fold_left (attach_child norm clock x) rs st).
Proof.
  intros Hc. induction rs as [|[n r] t IH]; intros st d0 H Hd Hnd Ha Hl; cbn [fold_left]; auto.
  cbn [map fst] in Hnd. inversion Hnd as [|? ? Hnotin Hnd']; subst.
  assert (forall n' r', In (n', r') t -> norm n <> norm n') as Hne.
  { intros n' r' Hin E. apply Hnotin. rewrite E. apply (in_map (fun nr => norm (fst nr)) _ (n', r')). exact Hin. }
  destruct r as [|l]; cbn [attach_child].
  - destruct (add_dir st _) as [st1 y] eqn:E. apply add_dir_fresh in E as [F1 [F2 ->]].
    assert (WF c (mod_dir (fst (add_dir st (new_dir (match get_dir st x with Some d => d_hooks d | None => 0 end)))) x
                    (attach clock n (norm n) (CDir y)))) as H1.
    { apply WF_attach; auto; [now apply WF_add_dir|].
      eapply attachable_add_dir; eauto. apply (Ha n RNewDir). now left. }
    eapply (IH _ (attach clock n (norm n) (CDir y) d0)); auto.
    + rewrite get_dir_mod_dir_same. erewrite get_dir_add_dir_old; eauto. reflexivity.
    + intros n' r' Hin. apply attachable_attach_other; [eapply Hne; eauto|].
      eapply attachable_add_dir; eauto. apply (Ha n' r'). now right.
    + intros n' l' Hin. rewrite nleaves_mod_dir, F2. apply (Hl n' l'). now right.
  - assert (WF c (mod_dir st x (attach clock n (norm n) (CLeaf l)))) as H1.
    { apply WF_attach; auto. apply (Ha n (RLeaf l)). now left. cbn. apply (Hl n l). now left. }
    eapply (IH _ (attach clock n (norm n) (CLeaf l) d0)); auto.
    + rewrite get_dir_mod_dir_same, Hd. reflexivity.
    + intros n' r' Hin. apply attachable_attach_other; [eapply Hne; eauto|]. apply (Ha n' r'). now right.
    + intros n' l' Hin. rewrite nleaves_mod_dir. apply (Hl n' l'). now right.
Qed.

Lemma existsb_ext' {A} (f g : A -> bool) l : (forall a, f a = g a) -> existsb f l = existsb g l.
Proof. intros H. induction l; cbn; auto. now rewrite H, IHl. Qed.

Lemma ref_create_children c st x cs ow : WF c st -> st_clock st < c ->
  fst (s_create_children norm (abs st) x cs ow) = abs (fst (create_children norm st x cs ow)) /\
  matches (snd (s_create_children norm (abs st) x cs ow)) (snd (create_children norm st x cs ow)) /\
  WF c (fst (create_children norm st x cs ow)).
Proof.
  intros H Hc. unfold s_create_children, create_children.
  destruct (alloc_sim c cs st H) as [A1 [A2 [A3 [A4 [A5 A6]]]]]. rewrite A1.
  destruct (alloc_children st cs) as [sta rs]. cbn [fst snd] in *.
  assert (WF c (init sta x)) as Hi by now apply WF_init.
  destruct (get_dir (init sta x) x) as [d|] eqn:Ed; absget Ed; [|bad3].
  set (keys := map (fun nr : string * rchild => norm (fst nr)) rs).
  destruct (nodup_keys keys) eqn:Enk; cbn [negb]; [|bad3].
  cbn [abs_dir sd_deleted]. destruct (d_deleted d).
  { destruct (drop_sim c rs _ Hi) as [D1 D2]. cbn [fst snd]. rewrite D1, abs_init. split; auto. split; auto. err. }
  set (bound := fun k => match find_entry k (d_entries d) with Some _ => true | None => false end).
  assert (forall k, match lookup k (abs_dir d) with Some _ => true | None => false end = bound k) as Hb.
  { intros k. rewrite lookup_abs. unfold bound. destruct (find_entry k (d_entries d)); auto. }
  rewrite (existsb_ext' _ _ keys Hb).
  destruct (negb ow && existsb bound keys).
  { destruct (drop_sim c rs _ Hi) as [D1 D2]. cbn [fst snd]. rewrite D1, abs_init. split; auto. split; auto. err. }
  (* overwritten entries *)
  pose proof (overwritten_sim d keys []) as Ov. cbn [map] in Ov. rewrite Ov. clear Ov.
  set (ovw := fold_left _ keys []).
  (* detaching *)
  destruct (detach_fold_sim x bound c keys (init sta x) Hi) as [F1 [F2 [F3 [F4 F5]]]].
  assert (fold_left (fun s' k => if match lookup k (abs_dir d) with Some _ => true | None => false end
                                 then smod s' x (unbind k) else s') keys (abs sta) =
          abs (detach_fold x bound keys (init sta x))) as F1'.
  { rewrite F1, abs_init. clear - Hb. generalize (abs sta). induction keys as [|k t IH]; intros s0; cbn [fold_left]; auto.
    rewrite Hb. apply IH. }
  rewrite F1'. fold (detach_fold x bound keys (init sta x)).
  set (st1 := detach_fold x bound keys (init sta x)) in *.
  (* attaching *)
  rewrite <- attach_fold_sim. rewrite abs_clock.
  assert (abs_clock' : st_clock sta = st_clock (init sta x)) by now rewrite clock_init.
  rewrite abs_clock'.
  destruct (detach_fold_get x bound keys (init sta x) d Ed) as [d1 Hd1]. fold st1 in Hd1.
  assert (WF c (fold_left (attach_child norm (st_clock (init sta x)) x) (sort_by fst rs) st1)) as H2.
  { eapply attach_fold_WF; eauto.
    - rewrite clock_init, A4. exact Hc.
    - apply nodup_keys_NoDup in Enk. unfold keys in Enk.
      eapply Permutation_NoDup; [|exact Enk]. apply Permutation_map. symmetry. apply sort_by_perm.
    - intros n r Hin. eapply Permutation_in in Hin; [|apply sort_by_perm].
      assert (In (norm n) keys) as Hk by (unfold keys; apply (in_map (fun nr => norm (fst nr)) _ (n, r)); exact Hin).
      destruct (bound (norm n)) eqn:Ebn.
      + apply detach_fold_frees; auto. apply inited_init_self.
      + apply detach_fold_keeps. eapply attachable_found; eauto.
        * unfold bound in Ebn. destruct (find_entry (norm n) (d_entries d)); [discriminate|auto].
        * eapply init_d_uninit; eauto.
    - intros n l Hin. eapply Permutation_in in Hin; [|apply sort_by_perm].
      rewrite F4. unfold init. rewrite nleaves_mod_dir. eauto. }
  (* removing what was overwritten *)
  rewrite abs_depth_fuel.
  assert (depth_fuel (init sta x) = depth_fuel sta) as E1
    by (unfold depth_fuel, init; now rewrite ndirs_mod_dir).
  rewrite <- E1.
  destruct (post_remove_sim c (fun s y => remove_all_children (depth_fuel (init sta x)) s y true)
              (fun s' y => s_destroy (depth_fuel (init sta x)) s' y true)
              (fun s y W => rac_sim c _ s y true W) ovw _ H2) as [P1 P2].
  rewrite P1. destruct (post_remove _ ovw _) as [st3 ok]. cbn [fst snd] in *.
  split; auto. split; auto. destruct ok; [apply matches_ok_plain|err].
Qed.

End RecOps.
