(* C16 — the property theorems, and nothing else.

   [reach l x sz om es] is the state of a pool-backed file created by
   NewFile(isExecutable = x, size = sz, shareAccess = om) behind link layer
   [l] after the event sequence [es].  One event is one critical section
   under the file's lock, so [es] ranges over every interleaving of
   open/close/link/unlink/read/write/truncate/allocate/setattr/seek,
   uploads, frozen handles, stat calls and the wake-ups of parked calls,
   with every scripted I/O failure. *)
From VF Require Import File.Model File.Spec File.Proofs.

(* The monitor is the proved predicate: P (Spec.p_step, evaluated by Corr.v
   on implementation traces) holds on every step of every model trace. *)
Theorem trace_ok_all : forall l x sz om es,
  trace_ok (observe (init l x sz om)) (trace_of (init l x sz om) es) = true.
Proof. exact trace_all_ok. Qed.
Print Assumptions trace_ok_all.

(* referenceCount = [linked] + sum of popcounts of the share masks still
   held + frozen readers / uploads in progress; frozenDescriptorsCount and
   writableDescriptorsCount are exactly the frozen handles and the held
   masks with the write bit. *)
Theorem refcount_exact : forall l x sz om es, let s := reach l x sz om es in
  rc s = (base_links (lay s) (links s) + held_count (held s) + nholding (thr s))%N
  /\ fz s = nholding (thr s) /\ wr s = writers_of (held s).
Proof. exact refcount_exact_l. Qed.
Print Assumptions refcount_exact.

(* The pool file has been closed once iff the count is zero, and Close is
   called in exactly the step that takes the count from non-zero to zero. *)
Theorem closed_exactly_once_at_zero : forall l x sz om es e,
  let s := reach l x sz om es in let s' := fst (step s e) in
  closes s = (if rc s =? 0 then 1 else 0)%N
  /\ closes s' = (closes s + (if negb (rc s =? 0) && (rc s' =? 0) then 1 else 0))%N.
Proof. exact closed_once_l. Qed.
Print Assumptions closed_exactly_once_at_zero.

(* After zero: every event (a case split over every Virtual* method, Link,
   the Apply* operations, and the wake-up of calls that were parked) leaves
   the released pool file untouched, does not panic, stays at zero, and
   reports failure (VirtualGetAttributes has no status to report). *)
Theorem no_use_after_release : forall l x sz om es e, let s := reach l x sz om es in
  rc s = 0%N ->
  let s' := fst (step s e) in let out := snd (step s e) in
  calls s' = calls s /\ cac s' = 0%N /\ rc s' = 0%N /\ out <> OPanic /\ (out_ok out = false \/ e = EGetAttr).
Proof. exact no_use_after_release_l. Qed.
Print Assumptions no_use_after_release.

(* A frozen handle keeps the file referenced (so frozenFileBackedFile.ReadAt /
   GetNextRegionOffset never see the nil pool file), a referenced file is
   not closed, and no pool-file method is ever called after Close. *)
Theorem frozen_implies_referenced : forall l x sz om es, let s := reach l x sz om es in
  ((0 < fz s)%N -> (0 < rc s)%N) /\ ((0 < rc s)%N -> closes s = 0%N) /\ cac s = 0%N.
Proof. exact frozen_implies_referenced_l. Qed.
Print Assumptions frozen_implies_referenced.

(* While any frozen reader exists no event changes content or size ... *)
Theorem frozen_content_stable : forall l x sz om es e, let s := reach l x sz om es in
  (0 < fz s)%N -> bytes (fst (step s e)) = bytes s /\ size (fst (step s e)) = size s.
Proof. exact frozen_content_stable_l. Qed.
Print Assumptions frozen_content_stable.

(* ... hence the digest an upload returns is the hash of the file's content,
   and what the CAS read through the buffer is that content (a prefix of it
   if the CAS stopped early). *)
Theorem upload_digest_matches : forall l x sz om es e d err recv complete,
  let s := reach l x sz om es in
  snd (step s e) = OUpDone (Some d) err recv complete ->
  exists fn, d = DBytes fn (bytes s)
    /\ recv = firstn (length recv) (bytes s)
    /\ (complete = true -> recv = bytes s).
Proof. exact upload_digest_l. Qed.
Print Assumptions upload_digest_matches.

(* The cached digest, when present, is the digest of the current content
   bytes[0..size). *)
Theorem cache_invalidated : forall l x sz om es, let s := reach l x sz om es in
  nlen (bytes s) = size s /\ (cached s = None \/ exists fn, cached s = Some (DBytes fn (bytes s))).
Proof. exact cache_invalidated_l. Qed.
Print Assumptions cache_invalidated.

(* Liveness as enabledness + progress (partial: that the Go scheduler runs
   the woken goroutine is not provable here): a call parked in
   lockMutatingData while no frozen reader exists, or in
   waitAndOpenReadFrozen while no writer exists, has had its channel closed;
   its wake event is enabled and the call does not park again. *)
Theorem wake_enabled : forall l x sz om es t, let s := reach l x sz om es in
  (forall m g, tlookup t (thr s) = Some (CMut m g) -> fz s = 0%N ->
     (g < ugen s)%N /\ snd (step s (EWakeMut t)) <> ONone /\ snd (step s (EWakeMut t)) <> OParked)
  /\ (forall k g, tlookup t (thr s) = Some (CWait k g) -> wr s = 0%N ->
     (g < wgen s)%N /\ snd (step s (EWakeWait t false)) <> ONone /\ snd (step s (EWakeWait t false)) <> OParked).
Proof. exact wake_enabled_l. Qed.
Print Assumptions wake_enabled.

(* ---- non-vacuity ------------------------------------------------------------ *)

Open Scope N_scope.

(* An upload that waits for the writer, freezes, hashes, and is read by the
   CAS in two chunks while a second writer is parked behind it. *)
Definition ex_upload : list event :=
  [ EMut 1 (MWriteOp 0 [7; 8; 9] None);
    EFreeze 2 (KUp 0);                   (* parks: a writer is open *)
    EClose MRW;                          (* closes noMoreWritersWakeup *)
    EWakeWait 2 false; ERun 2 RGet; ERun 2 (RHash false); ERun 2 RStore;
    EOpen MWrite;
    EMut 3 (MWriteOp 1 [1] None);        (* parks: frozen *)
    ERun 2 (RPutRead 2); ERun 2 (RPutRead 5) ].

Example ex_upload_result :
  snd (step (reach LNfs false 0 (Some MRW) ex_upload) (ERun 2 (RPutEnd true)))
  = OUpDone (Some (DBytes 0 [7; 8; 9])) ENone [7; 8; 9] true.
Proof. vm_compute. reflexivity. Qed.

Example ex_upload_parked :
  let s := reach LNfs false 0 (Some MRW) ex_upload in
  (rc s, fz s, wr s, nsleep (thr s), cached s) = (3, 1, 1, 1, Some (DBytes 0 [7; 8; 9])).
Proof. vm_compute. reflexivity. Qed.

(* the parked writer then runs and invalidates the cached digest *)
Example ex_upload_then_write :
  let s := reach LNfs false 0 (Some MRW) (ex_upload ++ [ERun 2 (RPutEnd true); EWakeMut 3]) in
  (bytes s, cached s, fz s) = ([7; 1; 9], None, 0).
Proof. vm_compute. reflexivity. Qed.

(* the last reference goes away, the pool file is closed once, later calls are stale *)
Example ex_release :
  let s := reach LFuse false 3 (Some MRead) [EUnlink; EClose MRead] in
  (rc s, closes s, snd (step s (ERead 0 2 false)), snd (step s (EMut 1 (MSetSize 0 None false))))
  = (0, 1, ORead SStale 0 false [], OAttrs SStale None).
Proof. vm_compute. reflexivity. Qed.
