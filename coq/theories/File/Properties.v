(* C16 — the property theorems, and nothing else. *)
From VF Require Import File.Model File.Spec File.Proofs.

Theorem open_after_release_is_stale : forall s m,
  rc s = 0%N -> step s (EOpen m) = (s, OAttrs SStale None).
Proof. exact open_after_release_stale. Qed.
Print Assumptions open_after_release_is_stale.
