(* Property C16 as decidable predicates over what a caller / the harness
   can see.  [p_step] is (a) proved of the model for every event sequence
   in Proofs.v and (b) evaluated on implementation traces by Corr.v.

   An observation [obs] is taken through the exported API only:
   VirtualGetAttributes (size, change ID, permissions, link count),
   ApplyAppendOutputPathPersistencyDirectoryNode (the cached digest), the
   instrumented pool file (Close count, call count, calls after Close,
   content), the instrumented NamedAttributes (Release count), plus the
   caller's own ledger of the references it holds (directory links, open
   share masks, frozen handles / uploads in progress). *)
From Coq Require Export String.
From VF Require Export File.Model.
Open Scope N_scope.

Record obs := mkObs {
  o_lay : layer;
  o_links : N;            (* ledger: directory entries pointing at the file *)
  o_held : list mask;     (* ledger: share masks held by openers *)
  o_fh : N;               (* ledger: frozen handles outstanding (incl. uploads in progress) *)
  o_sleep : N;            (* calls currently parked inside the file (lockMutatingData / waitAndOpenReadFrozen) *)
  o_stuck : N;            (* parked calls whose wake-up condition holds but whose channel was not closed *)
  o_size : N; o_chg : N; o_perm : N; o_nlink : N;
  o_cached : option dg;
  o_closes : N; o_rel : N; o_calls : N; o_cac : N;
  o_bytes : list N }.

Fixpoint held_count (l : list mask) : N :=
  match l with [] => 0 | m :: tl => mcount m + held_count tl end.

Fixpoint writers_of (l : list mask) : N :=
  match l with [] => 0 | m :: tl => (if mwrite m then 1 else 0) + writers_of tl end.

Fixpoint nsleep (l : list (N * cont)) : N :=
  match l with
  | [] => 0
  | (_, c) :: tl => (if holds c then 0 else 1) + nsleep tl
  end.

(* sleepers whose condition is true (no frozen handle / no writer left, by
   the callers' ledger) although the channel they captured is still open *)
Fixpoint nstuck (nofrozen nowriter : bool) (ug wg : N) (l : list (N * cont)) : N :=
  match l with
  | [] => 0
  | (_, CMut _ g) :: tl => (if nofrozen && negb (g <? ug) then 1 else 0) + nstuck nofrozen nowriter ug wg tl
  | (_, CWait _ g) :: tl => (if nowriter && negb (g <? wg) then 1 else 0) + nstuck nofrozen nowriter ug wg tl
  | _ :: tl => nstuck nofrozen nowriter ug wg tl
  end.

Definition observe (s : state) : obs :=
  let a := attrs s in
  mkObs (lay s) (links s) (held s) (nholding (thr s)) (nsleep (thr s))
        (nstuck (nholding (thr s) =? 0) (writers_of (held s) =? 0) (ugen s) (wgen s) (thr s))
        (a_size a) (a_chg a) (a_perm a) (a_nlink a)
        (cached s) (closes s) (closes s) (calls s) (cac s) (bytes s).

(* ---- equality tests ------------------------------------------------------ *)

Fixpoint list_eqb {A} (eqb : A -> A -> bool) (a b : list A) : bool :=
  match a, b with
  | [], [] => true
  | x :: a', y :: b' => eqb x y && list_eqb eqb a' b'
  | _, _ => false
  end.

Definition bytes_eqb := list_eqb N.eqb.

Definition dg_eqb (a b : dg) : bool :=
  match a, b with
  | DBytes f x, DBytes g y => (f =? g) && bytes_eqb x y
  | DUnknown, DUnknown => true
  | _, _ => false
  end.

Fixpoint prefix_eqb (p l : list N) : bool :=
  match p, l with
  | [], _ => true
  | x :: p', y :: l' => (x =? y) && prefix_eqb p' l'
  | _ :: _, [] => false
  end.

(* ---- the references a caller can account for ------------------------------ *)

(* what the link layer contributes to the file's reference count *)
Definition base_links (l : layer) (n : N) : N :=
  match l with LBare => n | _ => if 0 <? n then 1 else 0 end.

(* links + descriptors + frozen readers / uploads in progress *)
Definition refs (o : obs) : N := base_links (o_lay o) (o_links o) + held_count (o_held o) + o_fh o.

(* ---- state part of P ----------------------------------------------------- *)

Definition p_obs (o : obs) : string :=
  if 1 <? o_closes o then "double-close"
  else if (0 <? refs o) && (0 <? o_closes o) then "closed-while-referenced"
  else if (refs o =? 0) && (o_closes o =? 0) then "not-closed-at-zero"
  else if negb (o_rel o =? o_closes o) then "named-attributes-release"
  else if 0 <? o_cac o then "pool-file-used-after-close"
  else if negb (o_size o =? nlen (o_bytes o)) then "size-vs-storage"
  else if match o_cached o with
          | None => false
          | Some d => negb (bytes_eqb (dbytes d) (o_bytes o)) || dg_eqb d DUnknown
          end then "stale-cached-digest"
  else if match o_lay o with LBare => false | _ => negb (o_nlink o =? o_links o) end then "link-count"
  else if 0 <? o_stuck o then "lost-wakeup"
  else "".

(* ---- transition part of P ------------------------------------------------- *)

Definition ev_name (e : event) : string :=
  match e with
  | EOpen _ => "open" | EClose _ => "close" | ELink => "link" | EUnlink => "unlink"
  | ERead _ _ _ => "read" | ESeek _ _ _ => "seek" | EGetAttr => "getattr"
  | ESetAttr _ => "setattr" | EChown => "chown"
  | EMut _ (MWriteOp _ _ _) => "write"
  | EMut _ (MOpenTrunc _ _) => "open-trunc"
  | EMut _ (MSetSize _ _ _) => "setattr-size"
  | EMut _ (MAlloc _ _ _) => "allocate"
  | EWakeMut _ => "wake-mutator"
  | EFreeze _ (KFr) => "open-frozen" | EFreeze _ _ => "upload"
  | EWakeWait _ _ => "wake-upload" | EStat _ _ => "stat"
  | ERun _ _ => "run"
  end.

(* outputs that mean "the call succeeded / did something" *)
Definition out_ok (x : out) : bool :=
  match x with
  | OStatus SOk | OAttrs SOk _ | ORead SOk _ _ _ | OWrite SOk _ | OSeek SOk _ => true
  | OFroze | OFOpen true => true
  | OUpDone (Some _) _ _ _ => true
  | OStat _ (Some _) => true
  | OParked => true
  | _ => false
  end.

(* the digest an upload returns equals the hash of what the CAS received *)
Definition upload_ok (x : out) : bool :=
  match x with
  | OUpDone (Some d) _ recv complete =>
    negb (dg_eqb d DUnknown) &&
    (if complete then bytes_eqb recv (dbytes d) else prefix_eqb recv (dbytes d))
  | _ => true
  end.

(* mutating operations may change the content; nothing else may *)
Definition may_mutate (e : event) : bool :=
  match e with EMut _ _ | EWakeMut _ => true | _ => false end.

Definition p_trans (pre : obs) (e : event) (x : out) (post : obs) : string :=
  if 0 <? o_closes pre then
    (* the last reference is gone: the pool file has been released *)
    match x with
    | OPanic => "use-after-release-" ++ ev_name e
    | _ =>
      if negb (o_calls post =? o_calls pre) then "pool-file-touched-after-release"
      else if out_ok x && negb (match e with EGetAttr => true | _ => false end)
           then "succeeded-after-release-" ++ ev_name e
      else ""
    end
  else
    match x with
    | OPanic => "panic-" ++ ev_name e
    | _ =>
      if (0 <? o_fh pre) && negb (bytes_eqb (o_bytes post) (o_bytes pre) && (o_size post =? o_size pre))
      then "mutation-while-frozen"
      else if negb (may_mutate e) && negb (bytes_eqb (o_bytes post) (o_bytes pre) && (o_size post =? o_size pre))
      then "contents-changed-by-" ++ ev_name e
      else if negb (upload_ok x) then "upload-digest-mismatch"
      else ""
    end.

Definition p_step (pre : obs) (e : event) (x : out) (post : obs) : string :=
  let k := p_obs post in
  if String.eqb k "" then p_trans pre e x post else k.

(* A trace: the initial observation and, per event, the output and the
   observation after it. *)
Fixpoint trace_ok (pre : obs) (tr : list (event * out * obs)) : bool :=
  match tr with
  | [] => true
  | (e, x, post) :: tl => String.eqb (p_step pre e x post) "" && trace_ok post tl
  end.

Fixpoint trace_of (s : state) (es : list event) : list (event * out * obs) :=
  match es with
  | [] => []
  | e :: tl => let '(s', x) := step s e in (e, x, observe s') :: trace_of s' tl
  end.
