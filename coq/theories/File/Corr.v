(* Correspondence evaluator for C16: the model against the implementation,
   and the property predicate P (Spec.p_step) on the implementation's own
   trace.  Observations are optional per step: sections of uploadFile /
   getBazelOutputServiceStat between which the harness has no way to
   stop the real goroutine (getCachedDigest, the hashing read, the digest
   store) carry no observation; P is then evaluated at the next step that
   has one (state part only). *)
From VF Require Import Common.Verdict File.Model File.Spec.
Open Scope N_scope.

Record case := mkCase {
  c_lay : layer; c_exec : bool; c_size : N; c_mask : option mask;   (* NewFile arguments *)
  c_obs0 : obs;
  c_steps : list (event * out * option obs) }.

(* ---- equality on outputs / observations ----------------------------------- *)

Definition mask_eqb (a b : mask) : bool :=
  match a, b with MRead, MRead | MWrite, MWrite | MRW, MRW => true | _, _ => false end.
Definition layer_eqb (a b : layer) : bool :=
  match a, b with LBare, LBare | LFuse, LFuse | LNfs, LNfs => true | _, _ => false end.
Definition status_eqb (a b : status) : bool :=
  match a, b with SOk, SOk | SIO, SIO | SNXIO, SNXIO | SPerm, SPerm | SStale, SStale => true | _, _ => false end.
Definition ecode_eqb (a b : ecode) : bool :=
  match a, b with ENone, ENone | ENotFound, ENotFound | EInternal, EInternal | EOther, EOther => true | _, _ => false end.
Definition opt_eqb {A} (eqb : A -> A -> bool) (a b : option A) : bool :=
  match a, b with Some x, Some y => eqb x y | None, None => true | _, _ => false end.
Definition attr_eqb (a b : attr) : bool :=
  (a_size a =? a_size b) && (a_chg a =? a_chg b) && (a_perm a =? a_perm b) && (a_nlink a =? a_nlink b).

Definition out_eqb (a b : out) : bool :=
  match a, b with
  | ONone, ONone | OParked, OParked | OPanic, OPanic | ODone, ODone | OInternal, OInternal | OFroze, OFroze => true
  | OStatus x, OStatus y => status_eqb x y
  | OAttrs x p, OAttrs y q => status_eqb x y && opt_eqb attr_eqb p q
  | ORead x n e d, ORead y m f c => status_eqb x y && (n =? m) && Bool.eqb e f && bytes_eqb d c
  | OWrite x n, OWrite y m => status_eqb x y && (n =? m)
  | OSeek x r, OSeek y q => status_eqb x y && opt_eqb N.eqb r q
  | OUpDone d e r c, OUpDone d' e' r' c' =>
    opt_eqb dg_eqb d d' && ecode_eqb e e' && bytes_eqb r r' && Bool.eqb c c'
  | OStat e l, OStat e' l' => ecode_eqb e e' && opt_eqb dg_eqb l l'
  | OFOpen x, OFOpen y => Bool.eqb x y
  | OPutRead d, OPutRead c => bytes_eqb d c
  | OFRead n e d, OFRead m f c => (n =? m) && (e =? f) && bytes_eqb d c
  | OFLen n, OFLen m => n =? m
  | OFSeek e r, OFSeek f q => (e =? f) && (r =? q)
  | _, _ => false
  end.

(* first differing field, "" if equal *)
Definition obs_diff (a b : obs) : string :=
  if negb (layer_eqb (o_lay a) (o_lay b)) then "layer"
  else if negb (o_links a =? o_links b) then "ledger-links"
  else if negb (list_eqb mask_eqb (o_held a) (o_held b)) then "ledger-held"
  else if negb (o_fh a =? o_fh b) then "ledger-frozen"
  else if negb (o_sleep a =? o_sleep b) then "parked-calls"
  else if negb (o_stuck a =? o_stuck b) then "stuck-calls"
  else if negb (o_size a =? o_size b) then "size"
  else if negb (o_chg a =? o_chg b) then "change-id"
  else if negb (o_perm a =? o_perm b) then "permissions"
  else if negb (o_nlink a =? o_nlink b) then "link-count"
  else if negb (opt_eqb dg_eqb (o_cached a) (o_cached b)) then "cached-digest"
  else if negb (o_closes a =? o_closes b) then "close-count"
  else if negb (o_rel a =? o_rel b) then "release-count"
  else if negb (o_calls a =? o_calls b) then "pool-file-calls"
  else if negb (o_cac a =? o_cac b) then "calls-after-close"
  else if negb (bytes_eqb (o_bytes a) (o_bytes b)) then "content"
  else "".

(* ---- P on the implementation trace ---------------------------------------- *)

(* [last] is the most recent observation, [fresh] says whether it was taken
   right before this step.  A panic is always classified, against the most
   recent observation if need be. *)
Fixpoint viol_from (i : nat) (last : obs) (fresh : bool) (steps : list (event * out * option obs)) : verdict :=
  match steps with
  | [] => VOk
  | (e, x, d) :: tl =>
    let k : string := match d with
             | Some q => if fresh then p_step last e x q else p_obs q
             | None => match x with OPanic => p_trans last e x last | _ => EmptyString end
             end in
    if String.eqb k "" then
      match d with
      | Some q => viol_from (S i) q true tl
      | None => viol_from (S i) last false tl
      end
    else VViolation i k
  end.

(* ---- model vs implementation ---------------------------------------------- *)

Fixpoint mism_from (i : nat) (s : state) (steps : list (event * out * option obs)) : verdict :=
  match steps with
  | [] => VOk
  | (e, x, d) :: tl =>
    let '(s', y) := step s e in
    if negb (out_eqb x y) then VMismatch i ("output of " ++ ev_name e)
    else match d with
         | Some q =>
           let k := obs_diff q (observe s') in
           if String.eqb k "" then mism_from (S i) s' tl else VMismatch i k
         | None => mism_from (S i) s' tl
         end
  end.

Definition check_case (c : case) : verdict :=
  let s0 := init (c_lay c) (c_exec c) (c_size c) (c_mask c) in
  let v0 := let k := p_obs (c_obs0 c) in
            if String.eqb k "" then viol_from 0 (c_obs0 c) true (c_steps c) else VViolation 0 k in
  let m0 := let k := obs_diff (c_obs0 c) (observe s0) in
            if String.eqb k "" then mism_from 0 s0 (c_steps c) else VMismatch 0 ("initial " ++ k) in
  vcombine v0 m0.
