(* Proofs about the file model (C16). *)
From Coq Require Import Lia ZifyBool ZifyN ZifyNat.
From VF Require Import File.Model File.Spec.
Open Scope N_scope.

Lemma open_after_release_stale s m : rc s = 0 -> step s (EOpen m) = (s, OAttrs SStale None).
Proof. intros H. cbn [step]. rewrite H. reflexivity. Qed.
