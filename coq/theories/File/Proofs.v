(* Proofs about the file model (C16): an inductive invariant over all
   event sequences, and the trace predicate of Spec.v for all traces. *)
From Coq Require Import Lia ZifyBool ZifyN ZifyNat.
From VF Require Import File.Model File.Spec.
Open Scope N_scope.

(* ---- thread-table lemmas --------------------------------------------------- *)

Definition hb (c : cont) : N := if holds c then 1 else 0.

Lemma nholding_app l1 l2 : nholding (l1 ++ l2) = nholding l1 + nholding l2.
Proof. induction l1 as [|[k c] tl IH]; cbn [nholding app]; [reflexivity|rewrite IH; lia]. Qed.

Lemma nsleep_app l1 l2 : nsleep (l1 ++ l2) = nsleep l1 + nsleep l2.
Proof. induction l1 as [|[k c] tl IH]; cbn [nsleep app]; [reflexivity|rewrite IH; lia]. Qed.

Lemma nholding_tset t c c' l :
  tlookup t l = Some c -> nholding (tset t c' l) + hb c = nholding l + hb c'.
Proof.
  induction l as [|[k x] tl IH]; cbn [tlookup tset nholding]; [discriminate|].
  destruct (k =? t) eqn:E.
  - intros [= ->]. cbn [nholding]. unfold hb. lia.
  - intros H. cbn [nholding]. specialize (IH H). lia.
Qed.

Lemma nholding_tremove t c l :
  tlookup t l = Some c -> nholding (tremove t l) + hb c = nholding l.
Proof.
  induction l as [|[k x] tl IH]; cbn [tlookup tremove nholding]; [discriminate|].
  destruct (k =? t) eqn:E.
  - intros [= ->]. unfold hb. lia.
  - intros H. cbn [nholding]. specialize (IH H). lia.
Qed.

Lemma tlookup_In t c l : tlookup t l = Some c -> In (t, c) l.
Proof.
  induction l as [|[k x] tl IH]; cbn [tlookup]; [discriminate|].
  destruct (k =? t) eqn:E.
  - intros [= ->]. left. f_equal. lia.
  - intros H. right. auto.
Qed.

Lemma Forall_tset {P : N * cont -> Prop} t c' l :
  Forall P l -> P (t, c') -> Forall P (tset t c' l).
Proof.
  intros H Hc. induction H as [|[k x] tl Hx Htl IH]; cbn [tset]; [constructor|].
  destruct (k =? t) eqn:E.
  - constructor; [|exact Htl]. assert (k = t) as -> by lia. exact Hc.
  - constructor; assumption.
Qed.

Lemma Forall_tremove {P : N * cont -> Prop} t l : Forall P l -> Forall P (tremove t l).
Proof.
  intros H. induction H as [|[k x] tl Hx Htl IH]; cbn [tremove]; [constructor|].
  destruct (k =? t); [exact Htl|constructor; assumption].
Qed.

Lemma Forall_snoc {A} (P : A -> Prop) l x : Forall P l -> P x -> Forall P (l ++ [x]).
Proof. intros H Hx. apply Forall_app. split; [exact H|constructor; [exact Hx|constructor]]. Qed.

Lemma Forall_lookup {P : N * cont -> Prop} t c l : Forall P l -> tlookup t l = Some c -> P (t, c).
Proof. intros H Hl. apply tlookup_In in Hl. rewrite Forall_forall in H. auto. Qed.

(* ---- the invariant ----------------------------------------------------------- *)

(* what a thread that holds a frozen handle knows about the content *)
Definition dig_ok (b : list N) (tc : N * cont) : Prop :=
  match snd tc with
  | CStore k d => d = DBytes (kfn k) b
  | CPut d pos recv => (exists fn, d = DBytes fn b) /\ recv = firstn (N.to_nat pos) b /\ pos <= nlen b
  | CClose k (Some d) => exists fn, d = DBytes fn b
  | _ => True
  end.

(* a sleeper's captured channel has been closed whenever its condition holds *)
Definition gen_ok (ug wg fzv wrv : N) (tc : N * cont) : Prop :=
  match snd tc with
  | CMut _ g => g <= ug /\ (fzv = 0 -> g < ug)
  | CWait _ g => g <= wg /\ (wrv = 0 -> g < wg)
  | _ => True
  end.

Record Inv (s : state) : Prop := mkInv {
  i_rc : rc s = base_links (lay s) (links s) + held_count (held s) + nholding (thr s);
  i_fz : fz s = nholding (thr s);
  i_wr : wr s = writers_of (held s);
  i_cl : closes s = if rc s =? 0 then 1 else 0;
  i_cac : cac s = 0;
  i_len : nlen (bytes s) = size s;
  i_cached : match cached s with None => True | Some d => exists fn, d = DBytes fn (bytes s) end;
  i_dig : Forall (dig_ok (bytes s)) (thr s);
  i_gen : Forall (gen_ok (ugen s) (wgen s) (fz s) (wr s)) (thr s) }.

Lemma dig_ok_nohold b b' l : nholding l = 0 -> Forall (dig_ok b) l -> Forall (dig_ok b') l.
Proof.
  induction l as [|[k c] tl IH]; intros Hn H; [constructor|].
  cbn [nholding] in Hn. inversion H as [|? ? Hc Htl]; subst.
  constructor; [|apply IH; [lia|exact Htl]].
  unfold dig_ok in *; cbn [snd] in *. destruct c; cbn [holds] in Hn; try lia; exact I.
Qed.

Lemma gen_ok_mono ug wg fzv wrv ug' wg' fzv' wrv' l :
  Forall (gen_ok ug wg fzv wrv) l ->
  ug <= ug' -> wg <= wg' ->
  (fzv' = 0 -> fzv = 0 \/ ug < ug') ->
  (wrv' = 0 -> wrv = 0 \/ wg < wg') ->
  Forall (gen_ok ug' wg' fzv' wrv') l.
Proof.
  intros H Hu Hw Hf Hr. eapply Forall_impl; [|exact H].
  intros [k c]. unfold gen_ok; cbn [snd]. destruct c; auto; intros [H1 H2]; (split; [lia|]); intros E.
  - destruct (Hf E) as [E'|E']; [specialize (H2 E')|]; lia.
  - destruct (Hr E) as [E'|E']; [specialize (H2 E')|]; lia.
Qed.

Lemma init_inv l x sz om : Inv (init l x sz om).
Proof.
  constructor; cbn.
  - destruct l, om as [[]|]; cbn; lia.
  - reflexivity.
  - destruct om as [[]|]; reflexivity.
  - destruct om as [[]|]; reflexivity.
  - reflexivity.
  - unfold nlen. rewrite repeat_length. lia.
  - exact I.
  - constructor.
  - constructor.
Qed.

(* ---- every event preserves the invariant ------------------------------------ *)

Ltac proj :=
  cbn [lay links hchg rc wr fz size exec cached chg closes calls cac bytes ugen wgen held thr
       set_links set_hchg set_rc set_wr set_fz set_size set_exec set_cached set_chg set_closes
       set_calls set_cac set_bytes set_ugen set_wgen set_held set_thr] in *.

Lemma held_count_remove m l h : remove_mask m l = Some h -> held_count l = mcount m + held_count h.
Proof.
  revert h. induction l as [|x tl IH]; cbn [remove_mask]; [discriminate|]. intros h.
  destruct (match x, m with MRead, MRead | MWrite, MWrite | MRW, MRW => true | _, _ => false end) eqn:E.
  - intros [= <-]. cbn [held_count]. destruct x, m; try discriminate; reflexivity.
  - destruct (remove_mask m tl) as [r|]; [|discriminate]. intros [= <-].
    cbn [held_count]. specialize (IH r eq_refl). lia.
Qed.

Lemma writers_of_remove m l h :
  remove_mask m l = Some h -> writers_of l = (if mwrite m then 1 else 0) + writers_of h.
Proof.
  revert h. induction l as [|x tl IH]; cbn [remove_mask]; [discriminate|]. intros h.
  destruct (match x, m with MRead, MRead | MWrite, MWrite | MRW, MRW => true | _, _ => false end) eqn:E.
  - intros [= <-]. cbn [writers_of]. destruct x, m; try discriminate; reflexivity.
  - destruct (remove_mask m tl) as [r|]; [|discriminate]. intros [= <-].
    cbn [writers_of]. specialize (IH r eq_refl). lia.
Qed.

Lemma mcount_pos m : 0 < mcount m.
Proof. destruct m; cbn; lia. Qed.

Ltac splitifs :=
  repeat match goal with
  | |- context [if ?c then _ else _] => let E := fresh "E" in destruct c eqn:E
  | H : context [if ?c then _ else _] |- _ => let E := fresh "E" in destruct c eqn:E
  end; try discriminate.

Ltac rfst := cbv beta iota zeta delta [fst].

Ltac fin :=
  first [ assumption | reflexivity | lia | exact I
        | (splitifs; lia)
        | (eapply gen_ok_mono; [eassumption|lia|lia|lia|lia])
        | (eapply gen_ok_mono; [eassumption|splitifs; lia|splitifs; lia|splitifs; lia|splitifs; lia]) ].

Lemma inv_open s m : Inv s -> Inv (fst (step s (EOpen m))).
Proof.
  intros HI. cbn [step]. destruct (rc s =? 0) eqn:E0; rfst; [exact HI|].
  destruct HI as [H1 H2 H3 H4 H5 H6 H7 H8 H9].
  unfold acquire. pose proof (mcount_pos m).
  destruct (mwrite m) eqn:Em; constructor; proj; cbn [held_count writers_of]; rewrite ?Em; fin.
Qed.

Lemma fcall_eq s : Inv s -> rc s <> 0 -> fcall s = set_calls (calls s + 1) s.
Proof.
  intros HI Hr. unfold fcall. proj. rewrite (i_cl s HI).
  destruct (rc s =? 0) eqn:E; [lia|]. reflexivity.
Qed.

Lemma inv_set_calls s v : Inv s -> Inv (set_calls v s).
Proof. intros [H1 H2 H3 H4 H5 H6 H7 H8 H9]. constructor; proj; assumption. Qed.

Lemma inv_fcall s : Inv s -> rc s <> 0 -> Inv (fcall s).
Proof. intros HI Hr. rewrite (fcall_eq s HI Hr). apply inv_set_calls, HI. Qed.

(* release of n references that the ledger accounts for *)
Lemma inv_close s m : Inv s -> Inv (fst (step s (EClose m))).
Proof.
  intros HI. cbn [step]. destruct (remove_mask m (held s)) as [h|] eqn:Eh; rfst; [|exact HI].
  destruct HI as [H1 H2 H3 H4 H5 H6 H7 H8 H9].
  pose proof (held_count_remove _ _ _ Eh) as Hc. pose proof (writers_of_remove _ _ _ Eh) as Hw.
  pose proof (mcount_pos m).
  unfold release, fcall. destruct (mwrite m) eqn:Em; proj.
  all: splitifs; constructor; proj; fin.
Qed.

Lemma inv_link s : Inv s -> Inv (fst (step s ELink)).
Proof.
  intros HI. cbn [step]. destruct (lay s) eqn:El.
  - destruct (rc s =? 0) eqn:E0; rfst; [exact HI|].
    destruct HI as [H1 H2 H3 H4 H5 H6 H7 H8 H9]. constructor; proj; rewrite ?El in *; cbn [base_links] in *; fin.
  - destruct (links s =? 0) eqn:E0; rfst; [exact HI|].
    destruct HI as [H1 H2 H3 H4 H5 H6 H7 H8 H9]. constructor; proj; rewrite ?El in *; cbn [base_links] in *; fin.
  - destruct (links s =? 0) eqn:E0; rfst; [exact HI|].
    destruct HI as [H1 H2 H3 H4 H5 H6 H7 H8 H9]. constructor; proj; rewrite ?El in *; cbn [base_links] in *; fin.
Qed.

Lemma inv_unlink s : Inv s -> Inv (fst (step s EUnlink)).
Proof.
  intros HI. cbn [step]. destruct (links s =? 0) eqn:E0; rfst; [exact HI|].
  destruct HI as [H1 H2 H3 H4 H5 H6 H7 H8 H9].
  unfold release, fcall; proj. destruct (lay s) eqn:El; proj; rewrite ?El; proj.
  all: splitifs; rfst; constructor; proj; rewrite ?El in *; cbn [base_links] in *; fin.
Qed.

Lemma inv_read s off len fail : Inv s -> Inv (fst (step s (ERead off len fail))).
Proof.
  intros HI. cbn [step]. destruct (rc s =? 0) eqn:E0; rfst; [exact HI|].
  assert (rc s <> 0) by lia.
  destruct (size s <=? off); [|destruct (size s - off <=? len)].
  all: destruct (0 <? _); [destruct fail|]; rfst; auto using inv_fcall.
Qed.

Lemma inv_seek s off rt sc : Inv s -> Inv (fst (step s (ESeek off rt sc))).
Proof.
  intros HI. cbn [step]. destruct (rc s =? 0) eqn:E0; rfst; [exact HI|].
  assert (rc s <> 0) by lia.
  destruct (size s <=? off); rfst; [exact HI|].
  destruct sc; [destruct (nlen (bytes (fcall s)) <=? off)| |]; rfst; auto using inv_fcall.
Qed.

Lemma inv_setattr s p : Inv s -> Inv (fst (step s (ESetAttr p))).
Proof.
  intros HI. cbn [step]. destruct (rc s =? 0) eqn:E0; rfst; [exact HI|].
  destruct p; [|exact HI]. destruct HI as [H1 H2 H3 H4 H5 H6 H7 H8 H9]. constructor; proj; fin.
Qed.

Lemma nlen_resize n l : nlen (resize n l) = N.of_nat n.
Proof. unfold nlen, resize. rewrite app_length, firstn_length, repeat_length. lia. Qed.

Lemma nlen_write_at off d l :
  nlen (write_at off d l) = N.max (nlen l) (N.of_nat off + nlen d).
Proof.
  unfold nlen, write_at. rewrite !app_length, firstn_length, skipn_length, !app_length, repeat_length. lia.
Qed.

Lemma inv_mutate s b sz c g :
  Inv s -> fz s = 0 -> nlen b = sz ->
  Inv (set_chg g (set_size sz (set_cached None (set_bytes b (set_calls c s))))).
Proof.
  intros [H1 H2 H3 H4 H5 H6 H7 H8 H9] Hz Hl. constructor; proj; try fin.
  eapply dig_ok_nohold; [|exact H8]. lia.
Qed.

Lemma inv_acquire s m : Inv s -> rc s <> 0 -> Inv (acquire m s).
Proof.
  intros [H1 H2 H3 H4 H5 H6 H7 H8 H9] Hr. unfold acquire. pose proof (mcount_pos m).
  destruct (mwrite m) eqn:Em; constructor; proj; cbn [held_count writers_of]; rewrite ?Em; fin.
Qed.

Lemma inv_set_perm s x : Inv s -> Inv (set_chg (chg s + 1) (set_exec x s)).
Proof. intros [H1 H2 H3 H4 H5 H6 H7 H8 H9]. constructor; proj; fin. Qed.

Lemma vtruncate_inv s sz tf :
  Inv s -> fz s = 0 -> rc s <> 0 ->
  Inv (fst (vtruncate sz tf s)) /\ rc (fst (vtruncate sz tf s)) = rc s /\ fz (fst (vtruncate sz tf s)) = 0.
Proof.
  intros HI Hz Hr. unfold vtruncate. rewrite (fcall_eq s HI Hr). destruct tf; rfst.
  - split; [apply inv_set_calls, HI|]. proj. auto.
  - split; [|proj; auto]. proj. apply inv_mutate; auto. rewrite nlen_resize. lia.
Qed.

Lemma mut_body_inv s m : Inv s -> fz s = 0 -> Inv (fst (mut_body s m)).
Proof.
  intros HI Hz. unfold mut_body. destruct (rc s =? 0) eqn:E0; [exact HI|].
  assert (Hr : rc s <> 0) by lia.
  destruct m as [off data wf|mk tf|sz perm tf|off len tf].
  - rewrite (fcall_eq s HI Hr). proj.
    set (n := match wf with Some k => N.min k (nlen data) | None => nlen data end).
    destruct (0 <? n) eqn:En; rfst; [|apply inv_set_calls, HI].
    set (b := write_at _ _ _).
    assert (Hb : nlen b = N.max (size s) (off + n)).
    { unfold b. rewrite nlen_write_at. proj. rewrite (i_len s HI).
      assert (n <= nlen data) by (unfold n; destruct wf; lia).
      assert (nlen (firstn (N.to_nat n) data) = n) by (unfold nlen in *; rewrite firstn_length; lia).
      lia. }
    destruct (size s <? off + n) eqn:Es; proj.
    + replace (set_chg (chg s + 1) (set_size (off + n) (set_bytes b (set_cached None (set_calls (calls s + 1) s)))))
        with (set_chg (chg s + 1) (set_size (off + n) (set_cached None (set_bytes b (set_calls (calls s + 1) s))))) by reflexivity.
      apply inv_mutate; auto. lia.
    + replace (set_chg (chg s + 1) (set_bytes b (set_cached None (set_calls (calls s + 1) s))))
        with (set_chg (chg s + 1) (set_size (size s) (set_cached None (set_bytes b (set_calls (calls s + 1) s))))) by (destruct s; reflexivity).
      apply inv_mutate; auto. lia.
  - destruct (vtruncate_inv s 0 tf HI Hz Hr) as (Hi & Hrc & Hfz).
    destruct (vtruncate 0 tf s) as [s1 ok]. cbn [fst] in *. destruct ok; rfst; [|exact Hi].
    apply inv_acquire; [exact Hi|lia].
  - destruct (vtruncate_inv s sz tf HI Hz Hr) as (Hi & Hrc & Hfz).
    destruct (vtruncate sz tf s) as [s1 ok]. cbn [fst] in *. destruct ok; rfst; [|exact Hi].
    destruct perm; [apply inv_set_perm, Hi|exact Hi].
  - destruct (size s <? off + len); [|exact HI].
    destruct (vtruncate_inv s (off + len) tf HI Hz Hr) as (Hi & Hrc & Hfz).
    destruct (vtruncate (off + len) tf s) as [s1 ok]. cbn [fst] in *. exact Hi.
Qed.

Lemma inv_remove_sleeper s t c :
  Inv s -> tlookup t (thr s) = Some c -> holds c = false -> Inv (set_thr (tremove t (thr s)) s).
Proof.
  intros [H1 H2 H3 H4 H5 H6 H7 H8 H9] Hl Hh.
  pose proof (nholding_tremove _ _ _ Hl) as Hn. unfold hb in Hn. rewrite Hh in Hn.
  constructor; proj; try fin; apply Forall_tremove; assumption.
Qed.

Lemma inv_park_mut s t m (fresh : bool) c0 :
  Inv s -> (0 <? fz s) = true -> (fresh = false -> tlookup t (thr s) = Some c0 /\ holds c0 = false) ->
  Inv (set_thr (if fresh then thr s ++ [(t, CMut m (ugen s))] else tset t (CMut m (ugen s)) (thr s)) s).
Proof.
  intros [H1 H2 H3 H4 H5 H6 H7 H8 H9] Hz Hf.
  assert (Hg : gen_ok (ugen s) (wgen s) (fz s) (wr s) (t, CMut m (ugen s))) by (unfold gen_ok; cbn [snd]; lia).
  assert (Hd : dig_ok (bytes s) (t, CMut m (ugen s))) by exact I.
  destruct fresh.
  - constructor; proj; rewrite ?nholding_app; cbn [nholding holds]; try fin; apply Forall_snoc; assumption.
  - destruct (Hf eq_refl) as [Hl Hh]. pose proof (nholding_tset _ _ (CMut m (ugen s)) _ Hl) as Hn.
    unfold hb in Hn. rewrite Hh in Hn. cbn [holds] in Hn.
    constructor; proj; try fin; apply Forall_tset; assumption.
Qed.

Lemma mut_enter_inv s t m (fresh : bool) c0 :
  Inv s -> (fresh = false -> tlookup t (thr s) = Some c0 /\ holds c0 = false) ->
  Inv (fst (mut_enter s t m fresh)).
Proof.
  intros HI Hf. unfold mut_enter. destruct (0 <? fz s) eqn:Ez; rfst.
  - eapply inv_park_mut; eauto.
  - apply mut_body_inv.
    + destruct fresh; [exact HI|]. destruct (Hf eq_refl). eapply inv_remove_sleeper; eauto.
    + destruct fresh; proj; lia.
Qed.

Lemma inv_mut s t m : Inv s -> Inv (fst (step s (EMut t m))).
Proof.
  intros HI. cbn [step]. destruct (tlookup t (thr s)); [exact HI|].
  apply (mut_enter_inv s t m true (CMut m 0)); auto. discriminate.
Qed.

Lemma inv_wakemut s t : Inv s -> Inv (fst (step s (EWakeMut t))).
Proof.
  intros HI. cbn [step]. destruct (tlookup t (thr s)) as [[m g| | | | | | |]|] eqn:El; try exact HI.
  destruct (g <? ugen s); [|exact HI].
  apply (mut_enter_inv s t m false (CMut m g)); auto.
Qed.

(* openReadFrozen *)
Lemma freeze_now_inv s t k : Inv s -> Inv (fst (freeze_now s t k)).
Proof.
  intros HI. unfold freeze_now. destruct (rc s =? 0) eqn:E0; [exact HI|].
  destruct HI as [H1 H2 H3 H4 H5 H6 H7 H8 H9].
  destruct k; rfst; constructor; proj; rewrite ?nholding_app; cbn [nholding holds]; try fin;
    apply Forall_snoc; try assumption; try exact I;
    try (eapply gen_ok_mono; [eassumption|lia|lia|lia|lia]).
Qed.

Lemma inv_park_wait s t k (fresh : bool) c0 :
  Inv s -> (0 <? wr s) = true -> (fresh = false -> tlookup t (thr s) = Some c0 /\ holds c0 = false) ->
  Inv (set_thr (if fresh then thr s ++ [(t, CWait k (wgen s))] else tset t (CWait k (wgen s)) (thr s)) s).
Proof.
  intros [H1 H2 H3 H4 H5 H6 H7 H8 H9] Hz Hf.
  assert (Hg : gen_ok (ugen s) (wgen s) (fz s) (wr s) (t, CWait k (wgen s))) by (unfold gen_ok; cbn [snd]; lia).
  assert (Hd : dig_ok (bytes s) (t, CWait k (wgen s))) by exact I.
  destruct fresh.
  - constructor; proj; rewrite ?nholding_app; cbn [nholding holds]; try fin; apply Forall_snoc; assumption.
  - destruct (Hf eq_refl) as [Hl Hh]. pose proof (nholding_tset _ _ (CWait k (wgen s)) _ Hl) as Hn.
    unfold hb in Hn. rewrite Hh in Hn. cbn [holds] in Hn.
    constructor; proj; try fin; apply Forall_tset; assumption.
Qed.

Lemma inv_freeze s t k : Inv s -> Inv (fst (step s (EFreeze t k))).
Proof.
  intros HI. cbn [step]. destruct (tlookup t (thr s)); [exact HI|].
  destruct (0 <? wr s) eqn:Ew; rfst.
  - apply (inv_park_wait s t k true CHandle); auto. discriminate.
  - apply freeze_now_inv, HI.
Qed.

Lemma inv_wakewait s t timeout : Inv s -> Inv (fst (step s (EWakeWait t timeout))).
Proof.
  intros HI. cbn [step]. destruct (tlookup t (thr s)) as [[| k g | | | | | |]|] eqn:El; try exact HI.
  assert (Hrm : Inv (set_thr (tremove t (thr s)) s)) by (eapply inv_remove_sleeper; eauto).
  destruct timeout; [apply freeze_now_inv, Hrm|].
  destruct (g <? wgen s); [|exact HI].
  destruct (0 <? wr s) eqn:Ew; rfst.
  - apply (inv_park_wait s t k false (CWait k g)); auto.
  - apply freeze_now_inv, Hrm.
Qed.

Lemma inv_stat s t fn : Inv s -> Inv (fst (step s (EStat t fn))).
Proof.
  intros HI. cbn [step]. destruct (tlookup t (thr s)); [exact HI|].
  destruct (0 <? wr s); [exact HI|apply freeze_now_inv, HI].
Qed.

Lemma holding_pos s t c : Inv s -> tlookup t (thr s) = Some c -> holds c = true -> 1 <= nholding (thr s) /\ rc s <> 0.
Proof.
  intros HI Hl Hh. pose proof (nholding_tremove _ _ _ Hl) as Hn. unfold hb in Hn. rewrite Hh in Hn.
  pose proof (i_rc s HI). lia.
Qed.

Lemma gen_ok_holds ug wg f w t c : holds c = true -> gen_ok ug wg f w (t, c).
Proof. unfold gen_ok; cbn [snd]. destruct c; cbn [holds]; try discriminate; auto. Qed.

Lemma inv_tset_hold s t c c' :
  Inv s -> tlookup t (thr s) = Some c -> holds c = true -> holds c' = true ->
  dig_ok (bytes s) (t, c') -> Inv (set_thr (tset t c' (thr s)) s).
Proof.
  intros [H1 H2 H3 H4 H5 H6 H7 H8 H9] Hl Hh Hh' Hd.
  pose proof (nholding_tset _ _ c' _ Hl) as Hn. unfold hb in Hn. rewrite Hh, Hh' in Hn.
  constructor; proj; try fin; apply Forall_tset; auto using gen_ok_holds.
Qed.

Lemma close_frozen_inv s t c :
  Inv s -> tlookup t (thr s) = Some c -> holds c = true ->
  Inv (close_frozen (set_thr (tremove t (thr s)) s)).
Proof.
  intros HI Hl Hh. destruct (holding_pos s t c HI Hl Hh) as [Hp Hr].
  pose proof (nholding_tremove _ _ _ Hl) as Hn. unfold hb in Hn. rewrite Hh in Hn.
  destruct HI as [H1 H2 H3 H4 H5 H6 H7 H8 H9].
  unfold close_frozen, release, fcall; proj.
  splitifs; constructor; proj; try fin; try (apply Forall_tremove; assumption).
  all: apply Forall_tremove; eapply gen_ok_mono; [eassumption|lia|lia|lia|lia].
Qed.

Lemma firstn_slice {A} a b (l : list A) : firstn a l ++ firstn b (skipn a l) = firstn (a + b) l.
Proof.
  revert l. induction a as [|a IH]; intros l; [reflexivity|].
  destruct l as [|x tl]; cbn [firstn skipn app plus]; [now rewrite firstn_nil|]. now rewrite IH.
Qed.

Lemma with_digest_ok b t k d : (exists fn, d = DBytes fn b) -> dig_ok b (t, with_digest k d).
Proof.
  intros H. unfold dig_ok, with_digest; cbn [snd]. destruct k; auto.
  split; [exact H|]. split; [reflexivity|lia].
Qed.

Lemma with_digest_holds k d : holds (with_digest k d) = true.
Proof. destruct k; reflexivity. Qed.

Lemma inv_run s t a : Inv s -> Inv (fst (run s t a)).
Proof.
  intros HI. unfold run.
  destruct (tlookup t (thr s)) as [c|] eqn:El; [|destruct a; exact HI].
  destruct c as [m g|k g|k|k|k d|d pos recv|k r|]; destruct a; try exact HI; rfst.
  - (* CGet, RGet *)
    eapply inv_tset_hold; eauto.
    + destruct (cached s) as [[f b|]|]; try reflexivity. destruct (f =? kfn k); [apply with_digest_holds|reflexivity].
    + pose proof (i_cached s HI) as Hc. destruct (cached s) as [[f b|]|]; try exact I.
      destruct (f =? kfn k); [|exact I]. apply with_digest_ok. destruct Hc as [fn Hc]. inversion Hc; subst. eauto.
  - (* CHash, RHash *)
    destruct (holding_pos s t _ HI El eq_refl) as [_ Hr].
    destruct (0 <? size s) eqn:Es.
    + rewrite (fcall_eq s HI Hr). destruct fail; rfst; proj.
      * eapply (inv_tset_hold (set_calls (calls s + 1) s)); eauto using inv_set_calls. exact I.
      * eapply (inv_tset_hold (set_calls (calls s + 1) s)); eauto using inv_set_calls.
        unfold dig_ok; cbn [snd]; proj. f_equal. unfold slice. cbn [skipn].
        pose proof (i_len s HI) as Hlen. unfold nlen in Hlen.
        replace (N.to_nat (size s)) with (length (bytes s)) by lia. apply firstn_all.
    + rfst. eapply inv_tset_hold; eauto. unfold dig_ok; cbn [snd]. f_equal.
      pose proof (i_len s HI) as Hlen. unfold nlen in Hlen. destruct (bytes s); [reflexivity|cbn [length] in Hlen; lia].
  - (* CStore, RStore *)
    pose proof (Forall_lookup _ _ _ (i_dig s HI) El) as Hd. unfold dig_ok in Hd; cbn [snd] in Hd.
    assert (HI' : Inv (set_cached (Some d) s)).
    { destruct HI as [H1 H2 H3 H4 H5 H6 H7 H8 H9]. constructor; proj; try fin. eauto. }
    eapply (inv_tset_hold (set_cached (Some d) s)); eauto using with_digest_holds.
    apply with_digest_ok. proj. eauto.
  - (* CPut, RPutRead *)
    destruct (holding_pos s t _ HI El eq_refl) as [_ Hr].
    destruct (nlen (dbytes d) <=? pos) eqn:Elim; rfst; [exact HI|].
    rewrite (fcall_eq s HI Hr). unfold raw_read; proj.
    pose proof (Forall_lookup _ _ _ (i_dig s HI) El) as Hd. unfold dig_ok in Hd; cbn [snd] in Hd.
    destruct Hd as ((fn & ->) & Hrecv & Hpos). cbn [dbytes] in *.
    eapply (inv_tset_hold (set_calls (calls s + 1) s)); eauto using inv_set_calls.
    unfold dig_ok; cbn [snd]; proj. split; [eauto|].
    set (m := N.min n (nlen (bytes s) - pos)).
    assert (Hdl : nlen (slice (N.to_nat pos) (N.to_nat m) (bytes s)) = m).
    { unfold nlen, slice. rewrite firstn_length, skipn_length. unfold nlen in *. lia. }
    split; [|lia].
    rewrite Hdl, Hrecv. unfold slice. rewrite firstn_slice. f_equal. lia.
  - (* CPut, RPutEnd *)
    eapply close_frozen_inv; eauto.
  - (* CClose, RClose *)
    eapply close_frozen_inv; eauto.
  - (* CHandle, RFRead *)
    destruct (holding_pos s t _ HI El eq_refl) as [_ Hr].
    rewrite (fcall_eq s HI Hr). destruct fail; rfst; [apply inv_set_calls, HI|].
    destruct (raw_read _ _ _) as [[? ?] ?]. rfst. apply inv_set_calls, HI.
  - (* RFSeek *)
    destruct (holding_pos s t _ HI El eq_refl) as [_ Hr].
    rewrite (fcall_eq s HI Hr). destruct (_ <=? off); rfst; apply inv_set_calls, HI.
  - (* RFClose *)
    eapply close_frozen_inv; eauto.
Qed.

Theorem step_inv s e : Inv s -> Inv (fst (step s e)).
Proof.
  destruct e; intros HI.
  - apply inv_open, HI.
  - apply inv_close, HI.
  - apply inv_link, HI.
  - apply inv_unlink, HI.
  - apply inv_read, HI.
  - apply inv_seek, HI.
  - exact HI.
  - apply inv_setattr, HI.
  - exact HI.
  - apply inv_mut, HI.
  - apply inv_wakemut, HI.
  - apply inv_freeze, HI.
  - apply inv_wakewait, HI.
  - apply inv_stat, HI.
  - apply inv_run, HI.
Qed.

Theorem run_inv es : forall s, Inv s -> Inv (run_events s es).
Proof. induction es as [|e tl IH]; intros s HI; cbn [run_events]; [exact HI|]. apply IH, step_inv, HI. Qed.

(* ---- the state part of P holds in every reachable state ------------------------ *)

Lemma bytes_eqb_refl l : bytes_eqb l l = true.
Proof. induction l as [|x tl IH]; cbn; [reflexivity|]. rewrite N.eqb_refl. exact IH. Qed.

Lemma prefix_firstn n l : prefix_eqb (firstn n l) l = true.
Proof.
  revert l. induction n as [|n IH]; intros l; [reflexivity|].
  destruct l as [|x tl]; cbn; [reflexivity|]. rewrite N.eqb_refl. apply IH.
Qed.

Lemma nstuck_zero ug wg fzv wrv l :
  Forall (gen_ok ug wg fzv wrv) l -> nstuck (fzv =? 0) (wrv =? 0) ug wg l = 0.
Proof.
  induction 1 as [|[k c] tl Hc Htl IH]; [reflexivity|].
  unfold gen_ok in Hc; cbn [snd] in Hc. cbn [nstuck].
  destruct c; try exact IH; rewrite IH; destruct Hc as [H1 H2].
  - destruct (fzv =? 0) eqn:E; cbn [andb]; [|reflexivity]. assert (gen < ug) by (apply H2; lia).
    destruct (gen <? ug) eqn:E'; [reflexivity|lia].
  - destruct (wrv =? 0) eqn:E; cbn [andb]; [|reflexivity]. assert (gen < wg) by (apply H2; lia).
    destruct (gen <? wg) eqn:E'; [reflexivity|lia].
Qed.

Lemma refs_observe s : Inv s -> refs (observe s) = rc s.
Proof. intros HI. unfold refs, observe; cbn. rewrite (i_rc s HI). reflexivity. Qed.

Theorem p_obs_ok s : Inv s -> p_obs (observe s) = ""%string.
Proof.
  intros HI. unfold p_obs. rewrite (refs_observe s HI).
  pose proof HI as [H1 H2 H3 H4 H5 H6 H7 H8 H9].
  unfold observe; cbn [o_closes o_rel o_cac o_size o_bytes o_cached o_lay o_nlink o_links o_stuck attrs a_size a_nlink].
  rewrite <- H2, <- H3, (nstuck_zero _ _ _ _ _ H9).
  replace (1 <? closes s) with false by (destruct (rc s =? 0); lia).
  replace ((0 <? rc s) && (0 <? closes s)) with false by (destruct (rc s =? 0) eqn:E; lia).
  replace ((rc s =? 0) && (closes s =? 0)) with false by (destruct (rc s =? 0) eqn:E; lia).
  rewrite N.eqb_refl. cbn [negb]. rewrite H5. cbn [N.ltb N.compare].
  replace (size s =? nlen (bytes s)) with true by lia. cbn [negb].
  replace (match cached s with Some d => negb (bytes_eqb (dbytes d) (bytes s)) || dg_eqb d DUnknown | None => false end) with false.
  2:{ destruct (cached s) as [d|]; [|reflexivity]. destruct H7 as [fn ->]. cbn [dbytes dg_eqb]. now rewrite bytes_eqb_refl. }
  destruct (lay s); rewrite ?N.eqb_refl; reflexivity.
Qed.

(* ---- the transition part ---------------------------------------------------------- *)

Ltac brk :=
  repeat match goal with
  | |- context [match ?x with _ => _ end] => let E := fresh "B" in destruct x eqn:E
  end.

(* no event of the model panics *)
Lemma mut_body_nopanic s m : snd (mut_body s m) <> OPanic.
Proof. unfold mut_body, stale_out, vtruncate. brk; cbn [snd]; discriminate. Qed.

Lemma step_nopanic s e : snd (step s e) <> OPanic.
Proof.
  destruct e; cbn [step]; try (brk; cbn [snd]; discriminate).
  - destruct (tlookup tid (thr s)); [cbn; discriminate|]. unfold mut_enter. destruct (0 <? fz s); [cbn; discriminate|apply mut_body_nopanic].
  - destruct (tlookup tid (thr s)) as [[]|]; try (cbn; discriminate). destruct (gen <? ugen s); [|cbn; discriminate].
    unfold mut_enter. destruct (0 <? fz s); [cbn; discriminate|apply mut_body_nopanic].
  - unfold freeze_now, fail_out. brk; cbn [snd]; discriminate.
  - unfold freeze_now, fail_out. brk; cbn [snd]; discriminate.
  - unfold freeze_now, fail_out. brk; cbn [snd]; discriminate.
  - unfold run, raw_read. brk; cbn [snd]; discriminate.
Qed.

Definition same_content (s s' : state) : Prop := bytes s' = bytes s /\ size s' = size s.

Lemma same_refl s : same_content s s. Proof. split; reflexivity. Qed.

Lemma release_same n s : same_content s (release n s).
Proof. unfold same_content, release, fcall; proj. splitifs; proj; auto. Qed.

Lemma close_frozen_same s : same_content s (close_frozen s).
Proof. unfold same_content, close_frozen, release, fcall; proj. splitifs; proj; auto. Qed.

Lemma freeze_now_same s t k : same_content s (fst (freeze_now s t k)).
Proof. unfold same_content, freeze_now. brk; rfst; proj; auto. Qed.

Lemma run_same s t a : same_content s (fst (run s t a)).
Proof.
  unfold run.
  destruct (tlookup t (thr s)) as [c|]; [|destruct a; apply same_refl].
  destruct c; destruct a; try apply same_refl.
  all: unfold same_content, close_frozen, release, fcall, raw_read; proj; brk; rfst; proj; auto.
Qed.

(* events other than the mutating ones never change the content *)
Lemma step_same_nonmut s e : may_mutate e = false -> same_content s (fst (step s e)).
Proof.
  destruct e; cbn [may_mutate]; try discriminate; intros _; cbn [step].
  - unfold same_content, acquire. brk; rfst; proj; auto.
  - destruct (remove_mask m (held s)); [|apply same_refl]. rfst.
    unfold same_content, release, fcall; proj. brk; proj; auto.
  - unfold same_content. brk; rfst; proj; auto.
  - destruct (links s =? 0); [apply same_refl|]. unfold same_content, release, fcall; proj. brk; rfst; proj; auto.
  - unfold same_content, fcall. brk; rfst; proj; auto.
  - unfold same_content, fcall. brk; rfst; proj; auto.
  - apply same_refl.
  - unfold same_content. brk; rfst; proj; auto.
  - apply same_refl.
  - destruct (tlookup tid (thr s)); [apply same_refl|]. destruct (0 <? wr s); [split; reflexivity|apply freeze_now_same].
  - destruct (tlookup tid (thr s)) as [[]|]; try apply same_refl.
    destruct timeout; [apply (freeze_now_same (set_thr _ s))|].
    destruct (gen <? wgen s); [|apply same_refl]. destruct (0 <? wr s); [split; reflexivity|apply (freeze_now_same (set_thr _ s))].
  - destruct (tlookup tid (thr s)); [apply same_refl|]. destruct (0 <? wr s); [apply same_refl|apply freeze_now_same].
  - apply run_same.
Qed.

(* while a frozen reader exists, nothing changes the content *)
Lemma step_same_frozen s e : 0 < fz s -> same_content s (fst (step s e)).
Proof.
  intros Hz. destruct (may_mutate e) eqn:Em; [|apply step_same_nonmut, Em].
  destruct e; try discriminate; cbn [step].
  - destruct (tlookup tid (thr s)); [apply same_refl|]. unfold mut_enter.
    destruct (0 <? fz s) eqn:E; [split; reflexivity|lia].
  - destruct (tlookup tid (thr s)) as [[]|]; try apply same_refl.
    destruct (gen <? ugen s); [|apply same_refl]. unfold mut_enter.
    destruct (0 <? fz s) eqn:E; [split; reflexivity|lia].
Qed.

(* ---- after the last reference is gone ------------------------------------------------ *)

Lemma held_count_zero l : held_count l = 0 -> l = [].
Proof. destruct l as [|m tl]; [reflexivity|]. cbn [held_count]. pose proof (mcount_pos m). lia. Qed.

Lemma released_facts s : Inv s -> rc s = 0 ->
  held s = [] /\ nholding (thr s) = 0 /\ links s = 0 /\ fz s = 0 /\ wr s = 0.
Proof.
  intros [H1 H2 H3 H4 H5 H6 H7 H8 H9] Hr.
  assert (Hh : held s = []) by (apply held_count_zero; lia).
  assert (Hl : links s = 0).
  { destruct (lay s); cbn [base_links] in H1; [lia| |]; destruct (0 <? links s) eqn:E; lia. }
  rewrite Hh in H3. cbn in H3. repeat split; auto; lia.
Qed.

Lemma nohold_lookup t c l : nholding l = 0 -> tlookup t l = Some c -> holds c = false.
Proof.
  intros Hn Hl. pose proof (nholding_tremove _ _ _ Hl) as H. unfold hb in H. destruct (holds c); [lia|reflexivity].
Qed.

Lemma mut_body_released s m : rc s = 0 ->
  calls (fst (mut_body s m)) = calls s /\ out_ok (snd (mut_body s m)) = false.
Proof. intros Hr. unfold mut_body. rewrite Hr. cbn [N.eqb fst snd]. destruct m; auto. Qed.

Lemma freeze_now_released s t k : rc s = 0 ->
  calls (fst (freeze_now s t k)) = calls s /\ out_ok (snd (freeze_now s t k)) = false.
Proof. intros Hr. unfold freeze_now. rewrite Hr. cbn [N.eqb fst snd]. destruct k; auto. Qed.

Lemma step_released s e : Inv s -> rc s = 0 ->
  calls (fst (step s e)) = calls s /\ (out_ok (snd (step s e)) = false \/ e = EGetAttr).
Proof.
  intros HI Hr. destruct (released_facts s HI Hr) as (Hh & Hn & Hl & Hz & Hw).
  destruct e; cbn [step]; rewrite ?Hr, ?Hh, ?Hl, ?Hw; cbn [N.eqb N.ltb N.compare remove_mask fst snd]; auto.
  - destruct (lay s); rewrite ?Hr, ?Hl; cbn; auto.
  - destruct (tlookup tid (thr s)); [cbn; auto|]. unfold mut_enter. rewrite Hz. cbn [N.ltb N.compare].
    destruct (mut_body_released s m Hr); auto.
  - destruct (tlookup tid (thr s)) as [[]|]; try (cbn; auto; fail).
    destruct (gen <? ugen s); [|cbn; auto]. unfold mut_enter. rewrite Hz. cbn [N.ltb N.compare].
    destruct (mut_body_released (set_thr (tremove tid (thr s)) s) m Hr); auto.
  - destruct (tlookup tid (thr s)); [cbn; auto|]. destruct (freeze_now_released s tid k Hr); auto.
  - destruct (tlookup tid (thr s)) as [[]|]; try (cbn; auto; fail).
    destruct timeout.
    + destruct (freeze_now_released (set_thr (tremove tid (thr s)) s) tid k Hr); auto.
    + destruct (gen <? wgen s); [|cbn; auto].
      destruct (freeze_now_released (set_thr (tremove tid (thr s)) s) tid k Hr); auto.
  - destruct (tlookup tid (thr s)); [cbn; auto|]. destruct (freeze_now_released s tid (KSt fn) Hr); auto.
  - unfold run. destruct (tlookup tid (thr s)) as [c|] eqn:El; [|destruct a; cbn; auto].
    pose proof (nohold_lookup _ _ _ Hn El) as Hc.
    destruct c; cbn [holds] in Hc; try discriminate; destruct a; cbn; auto.
Qed.

(* ---- uploads ------------------------------------------------------------------------- *)

Lemma upload_ok_step s e : Inv s -> upload_ok (snd (step s e)) = true.
Proof.
  intros HI. destruct e; cbn [step]; try (brk; reflexivity).
  - destruct (tlookup tid (thr s)); [reflexivity|]. unfold mut_enter, mut_body, stale_out, vtruncate. brk; reflexivity.
  - destruct (tlookup tid (thr s)) as [[]|]; try reflexivity. destruct (gen <? ugen s); [|reflexivity].
    unfold mut_enter, mut_body, stale_out, vtruncate. brk; reflexivity.
  - unfold freeze_now, fail_out. brk; reflexivity.
  - unfold freeze_now, fail_out. brk; reflexivity.
  - unfold freeze_now, fail_out. brk; reflexivity.
  - unfold run. destruct (tlookup tid (thr s)) as [c|] eqn:El; [|destruct a; reflexivity].
    destruct c; destruct a; try reflexivity; try (unfold raw_read; brk; reflexivity).
    destruct ok; [|reflexivity]. cbn [snd upload_ok].
    pose proof (Forall_lookup _ _ _ (i_dig s HI) El) as Hd. unfold dig_ok in Hd; cbn [snd] in Hd.
    destruct Hd as ((fn & ->) & -> & Hpos). cbn [dbytes dg_eqb negb andb].
    destruct (pos =? nlen (bytes s)) eqn:E.
    + replace (N.to_nat pos) with (length (bytes s)) by (unfold nlen in *; lia).
      rewrite firstn_all. apply bytes_eqb_refl.
    + apply prefix_firstn.
Qed.

(* ---- P holds on every step of the model ------------------------------------------------ *)

Theorem p_step_ok s e : Inv s ->
  p_step (observe s) e (snd (step s e)) (observe (fst (step s e))) = ""%string.
Proof.
  intros HI. pose proof (step_inv s e HI) as HI'.
  unfold p_step. rewrite (p_obs_ok _ HI'). cbn [String.eqb].
  unfold p_trans. pose proof (step_nopanic s e) as Hnp.
  pose proof (i_cl s HI) as Hcl.
  cbn [observe o_closes o_calls o_fh o_bytes o_size attrs a_size].
  destruct (rc s =? 0) eqn:Er.
  - assert (Hr : rc s = 0) by lia. rewrite Hcl. cbn [N.ltb N.compare].
    destruct (step_released s e HI Hr) as [Hc Ho].
    destruct (snd (step s e)) eqn:Ex; try congruence; rewrite Hc, N.eqb_refl; cbn [negb];
      (destruct Ho as [Ho| ->]; [rewrite Ho|]; try reflexivity; rewrite Bool.andb_false_r; reflexivity).
  - rewrite Hcl. cbn [N.ltb N.compare].
    assert (Hu := upload_ok_step s e HI).
    assert (Hsame : (0 <? nholding (thr s)) = true \/ may_mutate e = false -> same_content s (fst (step s e))).
    { intros [H|H]; [apply step_same_frozen; rewrite (i_fz s HI); lia|apply step_same_nonmut, H]. }
    destruct (snd (step s e)) eqn:Ex; try congruence; rewrite ?Hu; cbn [negb].
    all: destruct (0 <? nholding (thr s)) eqn:Eh;
      [destruct (Hsame (or_introl eq_refl)) as [-> ->]; rewrite bytes_eqb_refl, N.eqb_refl; cbn [andb negb]; rewrite ?Bool.andb_false_r; reflexivity|].
    all: cbn [andb]; destruct (may_mutate e) eqn:Em; cbn [negb andb]; try reflexivity.
    all: destruct (Hsame (or_intror eq_refl)) as [-> ->]; rewrite bytes_eqb_refl, N.eqb_refl; reflexivity.
Qed.

(* ---- the theorems, over all event sequences ---------------------------------------------- *)

Definition reach (l : layer) (x : bool) (sz : N) (om : option mask) (es : list event) : state :=
  run_events (init l x sz om) es.

Lemma reach_inv l x sz om es : Inv (reach l x sz om es).
Proof. apply run_inv, init_inv. Qed.

Lemma trace_ok_inv es : forall s, Inv s -> trace_ok (observe s) (trace_of s es) = true.
Proof.
  induction es as [|e tl IH]; intros s HI; cbn [trace_of trace_ok]; [reflexivity|].
  pose proof (p_step_ok s e HI) as Hp. pose proof (step_inv s e HI) as HI'.
  destruct (step s e) as [s' x]. cbn [fst snd] in *. cbn [trace_ok]. rewrite Hp. cbn. apply IH, HI'.
Qed.

Lemma trace_all_ok l x sz om es :
  trace_ok (observe (init l x sz om)) (trace_of (init l x sz om) es) = true.
Proof. apply trace_ok_inv, init_inv. Qed.

Lemma refcount_exact_l l x sz om es : let s := reach l x sz om es in
  rc s = base_links (lay s) (links s) + held_count (held s) + nholding (thr s)
  /\ fz s = nholding (thr s) /\ wr s = writers_of (held s).
Proof. cbv zeta. pose proof (reach_inv l x sz om es) as [H1 H2 H3 _ _ _ _ _ _]. auto. Qed.

Lemma closes_step s e : Inv s ->
  closes (fst (step s e)) = closes s + (if negb (rc s =? 0) && (rc (fst (step s e)) =? 0) then 1 else 0).
Proof.
  intros HI. pose proof (step_inv s e HI) as HI'.
  rewrite (i_cl _ HI'), (i_cl _ HI).
  destruct (rc s =? 0) eqn:E.
  - (* absorbing: the ledger is empty and nothing can add to it *)
    assert (Hr : rc s = 0) by lia.
    enough (rc (fst (step s e)) = 0) as -> by reflexivity.
    destruct (released_facts s HI Hr) as (Hh & Hn & Hl & Hz & Hw).
    destruct e; cbn [step]; rewrite ?Hr, ?Hh, ?Hl, ?Hw; cbn [N.eqb N.ltb N.compare remove_mask fst]; auto.
    + destruct (lay s); rewrite ?Hr, ?Hl; cbn; auto.
    + destruct (tlookup tid (thr s)); [auto|]. unfold mut_enter, mut_body. rewrite Hz. cbn [N.ltb N.compare]. now rewrite Hr.
    + destruct (tlookup tid (thr s)) as [[]|]; auto. destruct (gen <? ugen s); auto.
      unfold mut_enter, mut_body. rewrite Hz. cbn [N.ltb N.compare]. proj. now rewrite Hr.
    + destruct (tlookup tid (thr s)); [auto|]. unfold freeze_now. now rewrite Hr.
    + destruct (tlookup tid (thr s)) as [[]|]; auto. unfold freeze_now. proj. rewrite Hr. cbn [N.eqb fst].
      destruct timeout; [auto|]. destruct (gen <? wgen s); auto.
    + destruct (tlookup tid (thr s)); [auto|]. unfold freeze_now. now rewrite Hr.
    + unfold run. destruct (tlookup tid (thr s)) as [c|] eqn:El; [|destruct a; auto].
      pose proof (nohold_lookup _ _ _ Hn El) as Hc.
      destruct c; cbn [holds] in Hc; try discriminate; destruct a; auto.
  - cbn [negb andb]. destruct (rc (fst (step s e)) =? 0); reflexivity.
Qed.

Lemma closed_once_l l x sz om es e : let s := reach l x sz om es in let s' := fst (step s e) in
  closes s = (if rc s =? 0 then 1 else 0)
  /\ closes s' = closes s + (if negb (rc s =? 0) && (rc s' =? 0) then 1 else 0).
Proof. cbv zeta. pose proof (reach_inv l x sz om es) as HI. split; [apply (i_cl _ HI)|apply closes_step, HI]. Qed.

Lemma no_use_after_release_l l x sz om es e : let s := reach l x sz om es in
  rc s = 0 ->
  let s' := fst (step s e) in let out := snd (step s e) in
  calls s' = calls s /\ cac s' = 0 /\ rc s' = 0 /\ out <> OPanic /\ (out_ok out = false \/ e = EGetAttr).
Proof.
  cbv zeta. intros Hr. pose proof (reach_inv l x sz om es) as HI.
  destruct (step_released _ e HI Hr) as [Hc Ho]. pose proof (step_inv _ e HI) as HI'.
  pose proof (closes_step _ e HI) as Hcl. rewrite (i_cl _ HI), (i_cl _ HI') in Hcl. rewrite Hr in Hcl. cbn in Hcl.
  repeat split; auto using step_nopanic, (i_cac _ HI').
  destruct (rc (fst (step (reach l x sz om es) e)) =? 0) eqn:E; lia.
Qed.

Lemma frozen_implies_referenced_l l x sz om es : let s := reach l x sz om es in
  (0 < fz s -> 0 < rc s) /\ (0 < rc s -> closes s = 0) /\ cac s = 0.
Proof.
  cbv zeta. pose proof (reach_inv l x sz om es) as [H1 H2 H3 H4 H5 _ _ _ _].
  repeat split; auto; [lia|]. intros H. destruct (rc _ =? 0) eqn:E; lia.
Qed.

Lemma upload_digest_l l x sz om es e d err recv complete : let s := reach l x sz om es in
  snd (step s e) = OUpDone (Some d) err recv complete ->
  exists fn, d = DBytes fn (bytes s)
    /\ recv = firstn (length recv) (bytes s)
    /\ (complete = true -> recv = bytes s).
Proof.
  cbv zeta. pose proof (reach_inv l x sz om es) as HI. set (s := reach l x sz om es) in *.
  destruct e; cbn [step]; try (brk; cbn [snd]; discriminate).
  - destruct (tlookup tid (thr s)); [cbn; discriminate|]. unfold mut_enter, mut_body, stale_out, vtruncate. brk; cbn [snd]; discriminate.
  - destruct (tlookup tid (thr s)) as [[]|]; try (cbn; discriminate). destruct (gen <? ugen s); [|cbn; discriminate].
    unfold mut_enter, mut_body, stale_out, vtruncate. brk; cbn [snd]; discriminate.
  - unfold freeze_now, fail_out. brk; cbn [snd]; discriminate.
  - unfold freeze_now, fail_out. brk; cbn [snd]; discriminate.
  - unfold freeze_now, fail_out. brk; cbn [snd]; discriminate.
  - unfold run. destruct (tlookup tid (thr s)) as [c|] eqn:El; [|destruct a; cbn; discriminate].
    destruct c; destruct a; try (cbn; discriminate); try (unfold raw_read; brk; cbn [snd]; discriminate).
    cbn [snd]. destruct ok; [|discriminate]. intros [= <- _ <- <-].
    pose proof (Forall_lookup _ _ _ (i_dig s HI) El) as Hd. unfold dig_ok in Hd; cbn [snd] in Hd.
    destruct Hd as ((fn & ->) & -> & Hpos). exists fn. cbn [dbytes]. split; [reflexivity|].
    assert (Hlen : length (firstn (N.to_nat pos) (bytes s)) = N.to_nat pos) by (rewrite firstn_length; unfold nlen in *; lia).
    split; [now rewrite Hlen|].
    intros E. replace (N.to_nat pos) with (length (bytes s)) by (unfold nlen in *; lia). apply firstn_all.
Qed.

Lemma frozen_content_stable_l l x sz om es e : let s := reach l x sz om es in
  0 < fz s -> bytes (fst (step s e)) = bytes s /\ size (fst (step s e)) = size s.
Proof. cbv zeta. intros H. apply step_same_frozen, H. Qed.

Lemma cache_invalidated_l l x sz om es : let s := reach l x sz om es in
  nlen (bytes s) = size s /\ (cached s = None \/ exists fn, cached s = Some (DBytes fn (bytes s))).
Proof.
  cbv zeta. pose proof (reach_inv l x sz om es) as [_ _ _ _ _ H6 H7 _ _]. split; [exact H6|].
  destruct (cached _) as [d|]; [right|left; reflexivity]. destruct H7 as [fn ->]. eauto.
Qed.

(* liveness, as enabledness + progress: a call parked although its wake-up
   condition holds has had its channel closed; its wake event is enabled and
   the call does not park again *)
Lemma wake_enabled_l l x sz om es t : let s := reach l x sz om es in
  (forall m g, tlookup t (thr s) = Some (CMut m g) -> fz s = 0 ->
     g < ugen s /\ snd (step s (EWakeMut t)) <> ONone /\ snd (step s (EWakeMut t)) <> OParked)
  /\ (forall k g, tlookup t (thr s) = Some (CWait k g) -> wr s = 0 ->
     g < wgen s /\ snd (step s (EWakeWait t false)) <> ONone /\ snd (step s (EWakeWait t false)) <> OParked).
Proof.
  cbv zeta. pose proof (reach_inv l x sz om es) as HI. set (s := reach l x sz om es) in *. split.
  - intros m g El Hz. pose proof (Forall_lookup _ _ _ (i_gen s HI) El) as Hg. unfold gen_ok in Hg; cbn [snd] in Hg.
    destruct Hg as [_ Hg]. specialize (Hg Hz). split; [exact Hg|].
    cbn [step]. rewrite El. replace (g <? ugen s) with true by lia. unfold mut_enter. rewrite Hz. cbn [N.ltb N.compare].
    unfold mut_body, stale_out, vtruncate. split; brk; cbn [snd]; discriminate.
  - intros k g El Hw. pose proof (Forall_lookup _ _ _ (i_gen s HI) El) as Hg. unfold gen_ok in Hg; cbn [snd] in Hg.
    destruct Hg as [_ Hg]. specialize (Hg Hw). split; [exact Hg|].
    cbn [step]. rewrite El. replace (g <? wgen s) with true by lia. rewrite Hw. cbn [N.ltb N.compare].
    unfold freeze_now, fail_out. split; brk; cbn [snd]; discriminate.
Qed.
