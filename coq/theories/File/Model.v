(* Executable model of pkg/filesystem/virtual/pool_backed_file_allocator.go
   (fileBackedFile + frozenFileBackedFile) behind the link-count layer of
   fuse_handle_allocator.go / nfs_handle_allocator.go (or no layer), and
   of the upload path fileBackedFile.uploadFile / getBazelOutputServiceStat
   as driven by builder.virtualBuildDirectory.UploadFile.

   One [event] = one critical section under f.lock (or under the handle
   pool's lock for Link/Unlink of the handle layer).  A call that blocks
   (lockMutatingData while frozen readers exist, waitAndOpenReadFrozen
   while writers exist, every lock release inside uploadFile) leaves a
   continuation [cont] in the thread table [thr]; its later sections are
   separate events.  A list of events is therefore an arbitrary
   interleaving at lock granularity.  Channels are generation counters:
   a sleeper captured generation g; its channel has been closed iff the
   current generation is larger.

   Digests are modelled by the hashed byte list itself (an injective
   "hash"); SHA-256/MD5 collision freedom is a trusted-base entry.

   The pool file is the harness's in-memory file: [bytes] is its content,
   [calls] counts method calls on it (incl. Close), [closes] counts Close,
   [cac] counts calls made after Close.  Scripted I/O failures are
   parameters of the events. *)
From Coq Require Export List NArith Bool.
Export ListNotations.
Open Scope N_scope.

(* ---- Vocabulary --------------------------------------------------------- *)

Inductive layer := LBare | LFuse | LNfs.

(* ShareMask: read, write, read|write (never 0: neither FUSE nor NFSv4
   opens a file with an empty share mask). *)
Inductive mask := MRead | MWrite | MRW.
Definition mcount (m : mask) : N := match m with MRW => 2 | _ => 1 end.   (* ShareMask.Count *)
Definition mwrite (m : mask) : bool := match m with MRead => false | _ => true end.

Inductive status := SOk | SIO | SNXIO | SPerm | SStale.
Inductive ecode := ENone | ENotFound | EInternal | EOther.

(* digest = (digest function, hashed bytes); DUnknown only ever appears in
   implementation traces (a digest of no content the file ever had) *)
Inductive dg := DBytes (fn : N) (b : list N) | DUnknown.

Inductive region := RData | RHole.
Inductive seekscript := SkNormal | SkEOF | SkFail.

(* operations that go through lockMutatingData *)
Inductive mutop :=
| MWriteOp (off : N) (data : list N) (wf : option N)  (* wf = Some k: WriteAt fails after k bytes *)
| MOpenTrunc (m : mask) (tf : bool)                    (* VirtualOpenSelf with Truncate; tf: Truncate fails *)
| MSetSize (sz : N) (perm : option bool) (tf : bool)   (* VirtualSetAttributes with a size *)
| MAlloc (off len : N) (tf : bool).                    (* VirtualAllocate *)

Inductive ukind := KUp (fn : N) | KSt (fn : N) | KFr.

(* continuation of a call that has released f.lock *)
Inductive cont :=
| CMut (m : mutop) (gen : N)          (* parked in lockMutatingData, captured unfreezeWakeup *)
| CWait (k : ukind) (gen : N)         (* parked in waitAndOpenReadFrozen, captured noMoreWritersWakeup *)
| CGet (k : ukind)                    (* frozen; about to call getCachedDigest *)
| CHash (k : ukind)                   (* about to read the file for hashing *)
| CStore (k : ukind) (d : dg)         (* about to store the computed digest *)
| CPut (d : dg) (pos : N) (recv : list N)   (* inside BlobAccess.Put; CAS has read recv *)
| CClose (k : ukind) (r : option dg)  (* about to close the frozen handle and return *)
| CHandle.                            (* frozen handle handed to the caller (ApplyOpenReadFrozen) *)

Definition holds (c : cont) : bool :=
  match c with CMut _ _ | CWait _ _ => false | _ => true end.

Inductive runarg :=
| RGet | RHash (fail : bool) | RStore
| RPutRead (n : N) | RPutEnd (ok : bool)
| RClose
| RFRead (off len : N) (fail : bool) | RFLen | RFSeek (off : N) (rt : region) | RFClose.

Inductive event :=
| EOpen (m : mask)
| EClose (m : mask)
| ELink
| EUnlink
| ERead (off len : N) (fail : bool)
| ESeek (off : N) (rt : region) (sc : seekscript)
| EGetAttr
| ESetAttr (perm : option bool)         (* VirtualSetAttributes without a size *)
| EChown                                 (* VirtualSetAttributes with an owner *)
| EMut (tid : N) (m : mutop)
| EWakeMut (tid : N)
| EFreeze (tid : N) (k : ukind)          (* uploadFile / ApplyOpenReadFrozen: first section *)
| EWakeWait (tid : N) (timeout : bool)
| EStat (tid : N) (fn : N)               (* getBazelOutputServiceStat: first section *)
| ERun (tid : N) (a : runarg).

Record attr := mkAttr { a_size : N; a_chg : N; a_perm : N; a_nlink : N }.

Inductive out :=
| ONone                                   (* event not enabled: nothing happened *)
| OParked
| OPanic
| ODone
| OInternal
| OStatus (st : status)
| OAttrs (st : status) (a : option attr)
| ORead (st : status) (n : N) (eof : bool) (data : list N)
| OWrite (st : status) (n : N)
| OSeek (st : status) (r : option N)
| OFroze
| OUpDone (d : option dg) (err : ecode) (recv : list N) (complete : bool)
| OStat (err : ecode) (loc : option dg)
| OFOpen (ok : bool)
| OPutRead (data : list N)
| OFRead (n : N) (err : N) (data : list N)     (* err: 0 none, 1 io.EOF, 2 I/O error *)
| OFLen (n : N)
| OFSeek (err : N) (r : N).

(* ---- State -------------------------------------------------------------- *)

Record state := mkState {
  lay : layer;
  links : N;          (* link count of the handle layer (LBare: directory entries, ghost) *)
  hchg : N;           (* nfsStatefulLinkableLeaf.changeID *)
  rc : N;             (* referenceCount *)
  wr : N;             (* writableDescriptorsCount *)
  fz : N;             (* frozenDescriptorsCount *)
  size : N;
  exec : bool;
  cached : option dg;
  chg : N;
  closes : N; calls : N; cac : N;   (* instrumented pool file *)
  bytes : list N;
  ugen : N;           (* generation of unfreezeWakeup *)
  wgen : N;           (* generation of noMoreWritersWakeup *)
  held : list mask;   (* ghost: share masks the callers still hold *)
  thr : list (N * cont) }.

Definition set_links v s := mkState (lay s) v (hchg s) (rc s) (wr s) (fz s) (size s) (exec s) (cached s) (chg s) (closes s) (calls s) (cac s) (bytes s) (ugen s) (wgen s) (held s) (thr s).
Definition set_hchg v s := mkState (lay s) (links s) v (rc s) (wr s) (fz s) (size s) (exec s) (cached s) (chg s) (closes s) (calls s) (cac s) (bytes s) (ugen s) (wgen s) (held s) (thr s).
Definition set_rc v s := mkState (lay s) (links s) (hchg s) v (wr s) (fz s) (size s) (exec s) (cached s) (chg s) (closes s) (calls s) (cac s) (bytes s) (ugen s) (wgen s) (held s) (thr s).
Definition set_wr v s := mkState (lay s) (links s) (hchg s) (rc s) v (fz s) (size s) (exec s) (cached s) (chg s) (closes s) (calls s) (cac s) (bytes s) (ugen s) (wgen s) (held s) (thr s).
Definition set_fz v s := mkState (lay s) (links s) (hchg s) (rc s) (wr s) v (size s) (exec s) (cached s) (chg s) (closes s) (calls s) (cac s) (bytes s) (ugen s) (wgen s) (held s) (thr s).
Definition set_size v s := mkState (lay s) (links s) (hchg s) (rc s) (wr s) (fz s) v (exec s) (cached s) (chg s) (closes s) (calls s) (cac s) (bytes s) (ugen s) (wgen s) (held s) (thr s).
Definition set_exec v s := mkState (lay s) (links s) (hchg s) (rc s) (wr s) (fz s) (size s) v (cached s) (chg s) (closes s) (calls s) (cac s) (bytes s) (ugen s) (wgen s) (held s) (thr s).
Definition set_cached v s := mkState (lay s) (links s) (hchg s) (rc s) (wr s) (fz s) (size s) (exec s) v (chg s) (closes s) (calls s) (cac s) (bytes s) (ugen s) (wgen s) (held s) (thr s).
Definition set_chg v s := mkState (lay s) (links s) (hchg s) (rc s) (wr s) (fz s) (size s) (exec s) (cached s) v (closes s) (calls s) (cac s) (bytes s) (ugen s) (wgen s) (held s) (thr s).
Definition set_closes v s := mkState (lay s) (links s) (hchg s) (rc s) (wr s) (fz s) (size s) (exec s) (cached s) (chg s) v (calls s) (cac s) (bytes s) (ugen s) (wgen s) (held s) (thr s).
Definition set_calls v s := mkState (lay s) (links s) (hchg s) (rc s) (wr s) (fz s) (size s) (exec s) (cached s) (chg s) (closes s) v (cac s) (bytes s) (ugen s) (wgen s) (held s) (thr s).
Definition set_cac v s := mkState (lay s) (links s) (hchg s) (rc s) (wr s) (fz s) (size s) (exec s) (cached s) (chg s) (closes s) (calls s) v (bytes s) (ugen s) (wgen s) (held s) (thr s).
Definition set_bytes v s := mkState (lay s) (links s) (hchg s) (rc s) (wr s) (fz s) (size s) (exec s) (cached s) (chg s) (closes s) (calls s) (cac s) v (ugen s) (wgen s) (held s) (thr s).
Definition set_ugen v s := mkState (lay s) (links s) (hchg s) (rc s) (wr s) (fz s) (size s) (exec s) (cached s) (chg s) (closes s) (calls s) (cac s) (bytes s) v (wgen s) (held s) (thr s).
Definition set_wgen v s := mkState (lay s) (links s) (hchg s) (rc s) (wr s) (fz s) (size s) (exec s) (cached s) (chg s) (closes s) (calls s) (cac s) (bytes s) (ugen s) v (held s) (thr s).
Definition set_held v s := mkState (lay s) (links s) (hchg s) (rc s) (wr s) (fz s) (size s) (exec s) (cached s) (chg s) (closes s) (calls s) (cac s) (bytes s) (ugen s) (wgen s) v (thr s).
Definition set_thr v s := mkState (lay s) (links s) (hchg s) (rc s) (wr s) (fz s) (size s) (exec s) (cached s) (chg s) (closes s) (calls s) (cac s) (bytes s) (ugen s) (wgen s) (held s) v.

(* NewFile(holeSource, isExecutable, size, shareAccess) wrapped by the
   layer: referenceCount = 1 + Count(shareAccess); the file starts with
   [sz] zero bytes. *)
Definition init (l : layer) (x : bool) (sz : N) (om : option mask) : state :=
  mkState l 1 0
    (1 + match om with Some m => mcount m | None => 0 end)
    (match om with Some m => if mwrite m then 1 else 0 | None => 0 end)
    0 sz x None 0 0 0 0 (repeat 0 (N.to_nat sz)) 0 0
    (match om with Some m => [m] | None => [] end) [].

(* ---- Thread table ------------------------------------------------------- *)

Fixpoint tlookup (t : N) (l : list (N * cont)) : option cont :=
  match l with
  | [] => None
  | (k, c) :: tl => if k =? t then Some c else tlookup t tl
  end.

Fixpoint tremove (t : N) (l : list (N * cont)) : list (N * cont) :=
  match l with
  | [] => []
  | (k, c) :: tl => if k =? t then tl else (k, c) :: tremove t tl
  end.

Fixpoint tset (t : N) (c' : cont) (l : list (N * cont)) : list (N * cont) :=
  match l with
  | [] => []
  | (k, c) :: tl => if k =? t then (k, c') :: tl else (k, c) :: tset t c' tl
  end.

Fixpoint nholding (l : list (N * cont)) : N :=
  match l with
  | [] => 0
  | (_, c) :: tl => (if holds c then 1 else 0) + nholding tl
  end.

Fixpoint remove_mask (m : mask) (l : list mask) : option (list mask) :=
  match l with
  | [] => None
  | x :: tl =>
    if (match x, m with MRead, MRead | MWrite, MWrite | MRW, MRW => true | _, _ => false end)
    then Some tl
    else match remove_mask m tl with Some r => Some (x :: r) | None => None end
  end.

(* ---- The in-memory pool file -------------------------------------------- *)

Definition resize (n : nat) (l : list N) : list N := firstn n l ++ repeat 0 (n - length l)%nat.

Definition write_at (off : nat) (d l : list N) : list N :=
  let l' := l ++ repeat 0 (off - length l)%nat in
  firstn off l' ++ d ++ skipn (off + length d)%nat l'.

Definition slice (off n : nat) (l : list N) : list N := firstn n (skipn off l).

Definition nlen (l : list N) : N := N.of_nat (length l).

(* any method call on the pool file *)
Definition fcall (s : state) : state :=
  let s := set_calls (calls s + 1) s in
  if 0 <? closes s then set_cac (cac s + 1) s else s.

(* ---- Pieces of fileBackedFile -------------------------------------------- *)

Definition perm_of (s : state) : N := if exec s then 7 else 3.

Definition attrs (s : state) : attr :=
  mkAttr (size s)
         (match lay s with LNfs => chg s + hchg s | _ => chg s end)
         (perm_of s)
         (match lay s with LBare => 0 | _ => links s end).

(* releaseReferencesLocked *)
Definition release (n : N) (s : state) : state :=
  let s := set_rc (rc s - n) s in
  if rc s =? 0 then set_closes (closes s + 1) (fcall s) else s.

(* acquireShareAccessLocked (+ the caller's ghost) *)
Definition acquire (m : mask) (s : state) : state :=
  let s := set_rc (rc s + mcount m) s in
  let s := if mwrite m then set_wr (wr s + 1) s else s in
  set_held (m :: held s) s.

(* virtualTruncate; tf = the pool file's Truncate fails *)
Definition vtruncate (sz : N) (tf : bool) (s : state) : state * bool :=
  let s := fcall s in
  if tf then (s, false)
  else (set_chg (chg s + 1) (set_size sz (set_cached None
          (set_bytes (resize (N.to_nat sz) (bytes s)) s))), true).

Definition stale_out (m : mutop) : out :=
  match m with
  | MWriteOp _ _ _ => OWrite SStale 0
  | MOpenTrunc _ _ => OAttrs SStale None
  | MSetSize _ _ _ => OAttrs SStale None
  | MAlloc _ _ _ => OStatus SStale
  end.

(* body of a mutating operation, entered with f.lock held and no frozen
   readers *)
Definition mut_body (s : state) (m : mutop) : state * out :=
  if rc s =? 0 then (s, stale_out m) else
  match m with
  | MWriteOp off data wf =>
    let s := fcall s in
    let n := match wf with None => nlen data | Some k => N.min k (nlen data) end in
    let st := match wf with None => SOk | Some _ => SIO end in
    if 0 <? n then
      let b := write_at (N.to_nat off) (firstn (N.to_nat n) data) (bytes s) in
      let s := set_bytes b (set_cached None s) in
      let s := if size s <? off + n then set_size (off + n) s else s in
      (set_chg (chg s + 1) s, OWrite st n)
    else (s, OWrite st n)
  | MOpenTrunc mk tf =>
    let '(s, ok) := vtruncate 0 tf s in
    if ok then let s := acquire mk s in (s, OAttrs SOk (Some (attrs s)))
    else (s, OAttrs SIO None)
  | MSetSize sz perm tf =>
    let '(s, ok) := vtruncate sz tf s in
    if ok then
      let s := match perm with Some x => set_chg (chg s + 1) (set_exec x s) | None => s end in
      (s, OAttrs SOk (Some (attrs s)))
    else (s, OAttrs SIO None)
  | MAlloc off len tf =>
    if size s <? off + len then
      let '(s, ok) := vtruncate (off + len) tf s in
      (s, OStatus (if ok then SOk else SIO))
    else (s, OStatus SOk)
  end.

(* lockMutatingData followed by the body, or parking *)
Definition mut_enter (s : state) (t : N) (m : mutop) (fresh : bool) : state * out :=
  if 0 <? fz s then
    let c := CMut m (ugen s) in
    (set_thr (if fresh then thr s ++ [(t, c)] else tset t c (thr s)) s, OParked)
  else
    mut_body (if fresh then s else set_thr (tremove t (thr s)) s) m.

Definition fail_out (k : ukind) : out :=
  match k with
  | KUp _ => OUpDone None ENotFound [] false
  | KSt _ => OStat ENotFound None
  | KFr => OFOpen false
  end.

(* openReadFrozen at the end of waitAndOpenReadFrozen; the thread entry of
   [t] (if any) has already been removed from [s] *)
Definition freeze_now (s : state) (t : N) (k : ukind) : state * out :=
  if rc s =? 0 then (s, fail_out k)
  else
    let s := set_fz (fz s + 1) (set_rc (rc s + 1) s) in
    match k with
    | KFr => (set_thr (thr s ++ [(t, CHandle)]) s, OFOpen true)
    | _ => (set_thr (thr s ++ [(t, CGet k)]) s, OFroze)
    end.

(* frozenFileBackedFile.Close *)
Definition close_frozen (s : state) : state :=
  let s := set_fz (fz s - 1) s in
  let s := if fz s =? 0 then set_ugen (ugen s + 1) s else s in
  release 1 s.

Definition dbytes (d : dg) : list N := match d with DBytes _ b => b | DUnknown => [] end.
Definition kfn (k : ukind) : N := match k with KUp f | KSt f => f | KFr => 0 end.

(* after the digest is known *)
Definition with_digest (k : ukind) (d : dg) : cont :=
  match k with
  | KUp _ => CPut d 0 []
  | _ => CClose k (Some d)
  end.

(* raw ReadAt of the in-memory file: (n, err, data), err 1 = io.EOF *)
Definition raw_read (s : state) (off len : N) : N * N * list N :=
  let d := slice (N.to_nat off) (N.to_nat len) (bytes s) in
  (nlen d, (if nlen d <? len then 1 else 0), d).

Definition run (s : state) (t : N) (a : runarg) : state * out :=
  match tlookup t (thr s), a with
  | Some (CGet k), RGet =>
    let c := match cached s with
             | Some (DBytes f b) => if f =? kfn k then with_digest k (DBytes f b) else CHash k
             | _ => CHash k
             end in
    (set_thr (tset t c (thr s)) s, OInternal)
  | Some (CHash k), RHash fail =>
    if 0 <? size s then
      let s := fcall s in
      if fail then (set_thr (tset t (CClose k None) (thr s)) s, OInternal)
      else (set_thr (tset t (CStore k (DBytes (kfn k) (slice 0 (N.to_nat (size s)) (bytes s)))) (thr s)) s, OInternal)
    else (set_thr (tset t (CStore k (DBytes (kfn k) [])) (thr s)) s, OInternal)
  | Some (CStore k d), RStore =>
    (set_thr (tset t (with_digest k d) (thr s)) (set_cached (Some d) s), OInternal)
  | Some (CPut d pos recv), RPutRead n =>
    let limit := nlen (dbytes d) in
    if limit <=? pos then (s, OPutRead [])
    else
      let s := fcall s in
      let '(m, _, data) := raw_read s pos (N.min n (limit - pos)) in
      (set_thr (tset t (CPut d (pos + m) (recv ++ data)) (thr s)) s, OPutRead data)
  | Some (CPut d pos recv), RPutEnd ok =>
    let s := close_frozen (set_thr (tremove t (thr s)) s) in
    (s, OUpDone (if ok then Some d else None) (if ok then ENone else EOther) recv (pos =? nlen (dbytes d)))
  | Some (CClose k r), RClose =>
    let s := close_frozen (set_thr (tremove t (thr s)) s) in
    (s, match k, r with
        | KUp _, _ => OUpDone None EInternal [] false
        | _, Some d => OStat ENone (Some d)
        | _, None => OStat EInternal None
        end)
  | Some CHandle, RFRead off len fail =>
    let s := fcall s in
    if fail then (s, OFRead 0 2 [])
    else let '(n, e, data) := raw_read s off len in (s, OFRead n e data)
  | Some CHandle, RFLen => (s, OFLen (size s))
  | Some CHandle, RFSeek off rt =>
    let s := fcall s in
    if nlen (bytes s) <=? off then (s, OFSeek 1 0)
    else (s, OFSeek 0 (match rt with RData => off | RHole => nlen (bytes s) end))
  | Some CHandle, RFClose =>
    (close_frozen (set_thr (tremove t (thr s)) s), ODone)
  | _, RGet | _, RHash _ | _, RStore => (s, OInternal)
  | _, _ => (s, ONone)
  end.

(* ---- step ---------------------------------------------------------------- *)

Definition step (s : state) (e : event) : state * out :=
  match e with
  | EOpen m =>
    if rc s =? 0 then (s, OAttrs SStale None)
    else let s := acquire m s in (s, OAttrs SOk (Some (attrs s)))
  | EClose m =>
    match remove_mask m (held s) with
    | None => (s, ONone)
    | Some h =>
      let s := set_held h s in
      let s := if mwrite m then
                 let s := set_wr (wr s - 1) s in
                 if wr s =? 0 then set_wgen (wgen s + 1) s else s
               else s in
      (release (mcount m) s, ODone)
    end
  | ELink =>
    match lay s with
    | LBare => if rc s =? 0 then (s, OStatus SStale)
               else (set_links (links s + 1) (set_rc (rc s + 1) s), OStatus SOk)
    | LFuse => if links s =? 0 then (s, OStatus SStale)
               else (set_links (links s + 1) s, OStatus SOk)
    | LNfs => if links s =? 0 then (s, OStatus SStale)
              else (set_hchg (hchg s + 1) (set_links (links s + 1) s), OStatus SOk)
    end
  | EUnlink =>
    if links s =? 0 then (s, ONone)
    else
      let s := set_links (links s - 1) s in
      let s := match lay s with LNfs => set_hchg (hchg s + 1) s | _ => s end in
      match lay s with
      | LBare => (release 1 s, ODone)
      | _ => if links s =? 0 then (release 1 s, ODone) else (s, ODone)
      end
  | ERead off len fail =>
    if rc s =? 0 then (s, ORead SStale 0 false []) else
    let '(n, eof) := if size s <=? off then (0, true)
                     else if size s - off <=? len then (size s - off, true)
                     else (len, false) in
    if 0 <? n then
      let s := fcall s in
      if fail then (s, ORead SIO 0 false [])
      else (s, ORead SOk n eof (slice (N.to_nat off) (N.to_nat n) (bytes s)))
    else (s, ORead SOk 0 eof [])
  | ESeek off rt sc =>
    if rc s =? 0 then (s, OSeek SStale None) else
    if size s <=? off then (s, OSeek SNXIO None)
    else
      let s := fcall s in
      match sc with
      | SkEOF => (s, OSeek SOk None)
      | SkFail => (s, OSeek SIO None)
      | SkNormal =>
        if nlen (bytes s) <=? off then (s, OSeek SOk None)
        else (s, OSeek SOk (Some (match rt with RData => off | RHole => nlen (bytes s) end)))
      end
  | EGetAttr => (s, OAttrs SOk (Some (attrs s)))
  | ESetAttr perm =>
    if rc s =? 0 then (s, OAttrs SStale None) else
    let s := match perm with Some x => set_chg (chg s + 1) (set_exec x s) | None => s end in
    (s, OAttrs SOk (Some (attrs s)))
  | EChown => (s, OAttrs SPerm None)
  | EMut t m =>
    match tlookup t (thr s) with
    | Some _ => (s, ONone)
    | None => mut_enter s t m true
    end
  | EWakeMut t =>
    match tlookup t (thr s) with
    | Some (CMut m g) => if g <? ugen s then mut_enter s t m false else (s, ONone)
    | _ => (s, ONone)
    end
  | EFreeze t k =>
    match tlookup t (thr s) with
    | Some _ => (s, ONone)
    | None =>
      if 0 <? wr s then (set_thr (thr s ++ [(t, CWait k (wgen s))]) s, OParked)
      else freeze_now s t k
    end
  | EWakeWait t timeout =>
    match tlookup t (thr s) with
    | Some (CWait k g) =>
      if timeout then freeze_now (set_thr (tremove t (thr s)) s) t k
      else if g <? wgen s then
        if 0 <? wr s then (set_thr (tset t (CWait k (wgen s)) (thr s)) s, OParked)
        else freeze_now (set_thr (tremove t (thr s)) s) t k
      else (s, ONone)
    | _ => (s, ONone)
    end
  | EStat t fn =>
    match tlookup t (thr s) with
    | Some _ => (s, ONone)
    | None =>
      if 0 <? wr s then (s, OStat ENone None)
      else freeze_now s t (KSt fn)
    end
  | ERun t a => run s t a
  end.

Fixpoint run_events (s : state) (es : list event) : state :=
  match es with
  | [] => s
  | e :: tl => run_events (fst (step s e)) tl
  end.
