(* Set(): well-formedness is preserved, the panics are unreachable, and the
   per-byte meaning of the result (for every lock table, every request). *)
From Coq Require Import Lia ZifyBool ZifyN.
From VF Require Import LockSet.Model LockSet.Spec LockSet.ProofsBase.
Open Scope N_scope.

(* Types as numbers, so that [lia] can reason about their equality. *)
Definition tn (t : ltype) : N := match t with Unlocked => 0 | Exclusive => 1 | Shared => 2 end.

Lemma ltype_eqb_tn a b : ltype_eqb a b = (tn a =? tn b).
Proof. now destruct a, b. Qed.

Lemma tn_inj a b : tn a = tn b -> a = b.
Proof. destruct a, b; cbn; congruence. Qed.

Ltac nrm :=
  unfold apart, entry_ok, covers in *;
  cbn [lstart lend lowner ltyp with_start with_end] in *;
  rewrite ?ltype_eqb_tn in *;
  change (tn Unlocked) with 0 in *; change (tn Exclusive) with 1 in *;
  change (tn Shared) with 2 in *.

Ltac brk :=
  repeat match goal with
  | |- context [if ?c then _ else _] => destruct c eqn:?
  end.

(* ---- wf as facts --------------------------------------------------------- *)

Lemma wf_cons s l :
  wf (s :: l) = true <->
  entry_ok s = true /\ (forall t, In t l -> apart s t = true) /\ wf l = true.
Proof.
  cbn [wf]. rewrite !andb_true_iff, forallb_forall. tauto.
Qed.

Lemma wf_hd_le s l u : wf (s :: l) = true -> In u l -> lstart s <= lstart u.
Proof.
  intros H Hu. apply wf_cons in H as (_ & H & _). specialize (H u Hu). nrm. lia.
Qed.

Lemma wf_entry l x : wf l = true -> In x l -> entry_ok x = true.
Proof.
  induction l as [|s tl IH]; intros H Hin; [destruct Hin|].
  apply wf_cons in H as (H1 & H2 & H3). destruct Hin as [<-|Hin]; auto.
Qed.

(* ---- where the entries of the result come from ------------------------ *)

Definition from_old (l : list lock) (x : lock) : Prop :=
  exists t, In t l /\ lowner x = lowner t /\ ltyp x = ltyp t /\ lstart t <= lstart x.

Lemma from_old_cons s l x : from_old l x -> from_old (s :: l) x.
Proof. intros (t & H & R). exists t. split; [now right|exact R]. Qed.

Lemma from_old_self s l : from_old (s :: l) s.
Proof. exists s. repeat split; try lia. now left. Qed.

Lemma fin_new_props l : forall nw,
  lstart (fin_new l nw) = lstart nw /\ lowner (fin_new l nw) = lowner nw /\
  ltyp (fin_new l nw) = ltyp nw /\ lend nw <= lend (fin_new l nw).
Proof.
  induction l as [|s tl IH]; intros nw; cbn [fin_new]; [repeat split; lia|].
  brk; try (repeat split; lia); try apply IH.
  destruct (IH (with_end nw (lend s))) as (H1 & H2 & H3 & H4).
  cbn [lstart lend lowner ltyp with_end] in *. repeat split; auto. lia.
Qed.

Lemma fin_post_members l : forall nw tr x,
  In x (fin_post l nw tr) -> from_old l x \/ tr = Some x.
Proof.
  induction l as [|s tl IH]; intros nw tr x; cbn [fin_post].
  - destruct tr; cbn; intros []; try tauto. right. congruence.
  - brk.
    + intros H. apply in_app_or in H as [H|H].
      * destruct tr; cbn in H; [|tauto]. destruct H as [<-|[]]. now right.
      * left. destruct H as [<-|H]; [apply from_old_self|].
        exists x. repeat split; try lia. now right.
    + intros H. apply IH in H as [H|H]; auto using from_old_cons.
    + intros H. apply IH in H as [H|H]; auto using from_old_cons.
    + intros H. apply IH in H as [H|H]; auto using from_old_cons.
      injection H as <-. left. exists s. cbn. repeat split; try lia. now left.
    + intros [<-|H]; [left; apply from_old_self|].
      apply IH in H as [H|H]; auto using from_old_cons.
Qed.

Definition is_new (nw x : lock) : Prop :=
  lowner x = lowner nw /\ ltyp x = ltyp nw /\ lstart x = lstart nw.

Lemma done_members l nw tr x :
  In x (done l nw tr) -> from_old l x \/ is_new nw x \/ tr = Some x.
Proof.
  unfold done. intros H. apply in_app_or in H as [H|H].
  - right; left. destruct (ltyp nw); cbn in H; try tauto;
    destruct H as [<-|[]]; destruct (fin_new_props l nw) as (H1 & H2 & H3 & _);
    unfold is_new; auto.
  - apply fin_post_members in H. tauto.
Qed.

Lemma setl_members l : forall nw tr x, lstart nw < lend nw ->
  In x (setl l nw tr) -> from_old l x \/ is_new nw x \/ tr = Some x.
Proof.
  induction l as [|s tl IH]; intros nw tr x Hne; cbn [setl].
  - apply done_members.
  - brk; try apply done_members;
    try (intros [<-|H]; [left; apply from_old_self|];
         apply IH in H as [H|[H|H]]; auto using from_old_cons).
    + (* grow *)
      intros H. apply done_members in H as [H|[H|H]]; auto.
      left. destruct H as (H1 & H2 & H3). cbn [lowner ltyp lstart with_start] in *.
      exists s. nrm. repeat split; try lia; [now left|rewrite H2; apply tn_inj; lia].
    + (* split *)
      intros [<-|H]; [left; exists s; cbn; repeat split; try lia; now left|].
      apply IH in H as [H|[H|H]]; auto using from_old_cons.
      injection H as <-. left. exists s. cbn. repeat split; try lia. now left.
    + (* truncate *)
      intros [<-|H]; [left; exists s; cbn; repeat split; try lia; now left|].
      apply IH in H as [H|[H|H]]; auto using from_old_cons.
Qed.


(* ---- the invariant on the pending trailing entry ------------------------ *)

Definition tr_ok (l : list lock) (nw : lock) (tr : option lock) : Prop :=
  match tr with
  | None => True
  | Some t =>
    lowner t = lowner nw /\ lstart t = lend nw /\ lstart t < lend t /\
    tn (ltyp t) <> 0 /\ tn (ltyp t) <> tn (ltyp nw) /\
    forall u, In u l -> lowner u = lowner nw ->
      lend t <= lstart u /\ (lend t = lstart u -> tn (ltyp t) <> tn (ltyp u))
  end.

Lemma tr_ok_tl s l nw tr : tr_ok (s :: l) nw tr -> tr_ok l nw tr.
Proof.
  destruct tr as [t|]; cbn; auto. intros (T1 & T2 & T3 & T4 & T5 & T6).
  repeat split; auto; apply T6; auto.
Qed.

Lemma tr_ok_none s l nw tr :
  tr_ok (s :: l) nw tr -> lowner s = lowner nw -> lstart s <= lend nw -> tr = None.
Proof.
  destruct tr as [t|]; cbn; auto. intros (T1 & T2 & T3 & T4 & T5 & T6) Ho Hle.
  destruct (T6 s (or_introl eq_refl) Ho). lia.
Qed.

Lemma apart_mono s s' t x :
  apart s t = true ->
  lstart s' = lstart s -> lend s' <= lend s -> lowner s' = lowner s -> ltyp s' = ltyp s ->
  lowner x = lowner t -> ltyp x = ltyp t -> lstart t <= lstart x ->
  apart s' x = true.
Proof.
  intros H A1 A2 A3 A4 B1 B2 B3. nrm. rewrite A4, B2. lia.
Qed.

Lemma apart_from_old s s' l x :
  (forall t, In t l -> apart s t = true) ->
  lstart s' = lstart s -> lend s' <= lend s -> lowner s' = lowner s -> ltyp s' = ltyp s ->
  from_old l x -> apart s' x = true.
Proof.
  intros H A1 A2 A3 A4 (t & Hin & B1 & B2 & B3).
  eapply apart_mono; eauto.
Qed.

Lemma fin_wf l : forall nw tr,
  wf l = true -> lstart nw < lend nw ->
  (forall u, In u l -> lstart nw <= lstart u) -> tr_ok l nw tr ->
  wf (fin_post l nw tr) = true /\
  forall x, In x (fin_post l nw tr) -> apart (fin_new l nw) x = true.
Proof.
  induction l as [|s tl IH]; intros nw tr Hwf Hne Hlo Htr; cbn [fin_post fin_new].
  - destruct tr as [t|]; cbn [otl].
    + destruct Htr as (T1 & T2 & T3 & T4 & T5 & T6). split.
      * apply wf_cons. repeat split; [nrm; lia| intros ? [] ].
      * intros x [<-|[]]. nrm. lia.
    + split; [reflexivity|intros ? []].
  - pose proof Hwf as Hwf'. apply wf_cons in Hwf' as (Hs & Hap & Hwtl).
    assert (Hlo' : forall u, In u tl -> lstart nw <= lstart u) by (intros; apply Hlo; now right).
    assert (Hs0 : lstart nw <= lstart s) by (apply Hlo; now left).
    assert (Hsrt : forall u, In u (s :: tl) -> lstart s <= lstart u).
    { intros u [<-|Hu]; [lia|]. eapply wf_hd_le; eauto. }
    destruct (lend nw <? lstart s) eqn:E1.
    + (* stop *)
      assert (Hnw : forall x, In x (s :: tl) -> apart nw x = true).
      { intros x Hx. specialize (Hsrt x Hx). specialize (Hlo x Hx). nrm. lia. }
      destruct tr as [t|]; cbn [otl app].
      * destruct Htr as (T1 & T2 & T3 & T4 & T5 & T6). split.
        -- apply wf_cons. repeat split; [nrm; lia| |exact Hwf].
           intros u Hu. specialize (Hsrt u Hu). 
           destruct (lowner u =? lowner nw) eqn:Eo.
           ++ destruct (T6 u Hu) as [T7 T8]; [lia|]. nrm. lia.
           ++ nrm. lia.
        -- intros x [<-|Hx]; [nrm; lia|auto].
      * split; auto.
    + destruct (lowner s =? lowner nw) eqn:E2.
      * assert (tr = None) as -> by (eapply tr_ok_none; eauto; lia).
        destruct (lend s <=? lend nw) eqn:E3; [apply IH; cbn; auto|].
        destruct (ltype_eqb (ltyp nw) (ltyp s)) eqn:E4.
        -- apply IH; cbn; auto. nrm. lia.
        -- apply IH; auto. cbn. repeat (split; [nrm; lia|]).
           intros u Hu Ho. specialize (Hap u Hu). nrm. lia.
      * destruct (IH nw tr Hwtl Hne Hlo' (tr_ok_tl _ _ _ _ Htr)) as [I1 I2]. split.
        -- apply wf_cons. repeat split; auto.
           intros x Hx. apply fin_post_members in Hx as [Hx|Hx].
           ++ apply (apart_from_old s s tl x Hap); auto; lia.
           ++ subst tr. destruct Htr as (T1 & T2 & T3 & T4 & T5 & T6). nrm. lia.
        -- intros x [<-|Hx]; auto.
           destruct (fin_new_props tl nw) as (F1 & F2 & F3 & F4). nrm. lia.
Qed.

Lemma done_wf l nw tr :
  wf l = true -> lstart nw < lend nw ->
  (forall u, In u l -> lstart nw <= lstart u) -> tr_ok l nw tr ->
  wf (done l nw tr) = true.
Proof.
  intros Hwf Hne Hlo Htr. destruct (fin_wf l nw tr) as [I1 I2]; auto. unfold done.
  destruct (fin_new_props l nw) as (F1 & F2 & F3 & F4).
  destruct (ltyp nw) eqn:Et; cbn [ins app]; auto;
  apply wf_cons; repeat split; auto; nrm; rewrite F3; cbn [tn]; lia.
Qed.

Lemma setl_wf l : forall nw tr,
  wf l = true -> lstart nw < lend nw -> tr_ok l nw tr -> wf (setl l nw tr) = true.
Proof.
  induction l as [|s tl IH]; intros nw tr Hwf Hne Htr; cbn [setl].
  - apply done_wf; auto. intros ? [].
  - pose proof Hwf as Hwf'. apply wf_cons in Hwf' as (Hs & Hap & Hwtl).
    assert (Hsrt : forall u, In u (s :: tl) -> lstart s <= lstart u).
    { intros u [<-|Hu]; [lia|]. eapply wf_hd_le; eauto. }
    pose proof (tr_ok_tl _ _ _ _ Htr) as Htr'.
    assert (Hcons : forall s' tr',
      entry_ok s' = true ->
      lstart s' = lstart s -> lend s' <= lend s -> lowner s' = lowner s -> ltyp s' = ltyp s ->
      tr_ok tl nw tr' ->
      (forall x, is_new nw x -> apart s' x = true) ->
      (forall x, tr' = Some x -> apart s' x = true) ->
      wf (s' :: setl tl nw tr') = true).
    { intros s' tr' C1 C2 C3 C4 C5 C6 C7 C8. apply wf_cons. repeat split; auto.
      intros x Hx. apply setl_members in Hx as [Hx|[Hx|Hx]]; auto.
      apply (apart_from_old s s' tl x Hap); auto. }
    assert (Hold : forall x, lstart s < lstart nw -> tr = Some x -> apart s x = true).
    { intros x Hlt ->. destruct Htr as (T1 & T2 & T3 & T4 & T5 & T6).
      specialize (T6 s (or_introl eq_refl)). nrm. lia. }
    destruct (lstart nw <=? lstart s) eqn:E1.
    + apply done_wf; auto. intros u Hu. specialize (Hsrt u Hu). lia.
    + destruct (lowner s =? lowner nw) eqn:E2.
      * destruct (ltype_eqb (ltyp nw) (ltyp s)) eqn:E3.
        -- destruct (lstart nw <=? lend s) eqn:E4.
           ++ assert (tr = None) as -> by (eapply tr_ok_none; eauto; lia).
              apply done_wf; cbn; auto. nrm; lia.
           ++ apply Hcons; auto; try lia.
              ** intros x (N1 & N2 & N3). nrm. rewrite N2. lia.
              ** intros x Hx. apply Hold; auto. lia.
        -- destruct (lstart nw <? lend s) eqn:E4.
           ++ destruct (lend nw <? lend s) eqn:E5.
              ** assert (tr = None) as -> by (eapply tr_ok_none; eauto; lia).
                 apply Hcons; cbn; auto; try (nrm; lia).
                 --- repeat (split; [nrm; lia|]).
                     intros u Hu Ho. specialize (Hap u Hu). nrm. lia.
                 --- intros x (N1 & N2 & N3). nrm. rewrite N2. lia.
                 --- intros x [= <-]. nrm. lia.
              ** apply Hcons; cbn; auto; try (nrm; lia).
                 --- intros x (N1 & N2 & N3). nrm. rewrite N2. lia.
                 --- intros x ->. destruct Htr as (T1 & T2 & T3 & T4 & T5 & T6).
                     specialize (T6 s (or_introl eq_refl)). nrm. lia.
           ++ apply Hcons; auto; try lia.
              ** intros x (N1 & N2 & N3). nrm. rewrite N2. lia.
              ** intros x Hx. apply Hold; auto. lia.
      * apply Hcons; auto; try lia.
        -- intros x (N1 & N2 & N3). nrm. lia.
        -- intros x Hx. apply Hold; auto. lia.
Qed.


Lemma tr_ok_trail s tl nw :
  wf (s :: tl) = true -> lowner s = lowner nw -> lstart s <= lend nw -> lend nw < lend s ->
  tn (ltyp nw) <> tn (ltyp s) ->
  tr_ok tl nw (Some (mkLock (lend nw) (lend s) (lowner s) (ltyp s))).
Proof.
  intros Hwf Ho H1 H2 Ht. apply wf_cons in Hwf as (Hs & Hap & Hwtl).
  cbn. repeat (split; [nrm; lia|]).
  intros u Hu Hou. specialize (Hap u Hu). nrm. lia.
Qed.

(* ---- panics are unreachable ------------------------------------------- *)

Lemma fin_panic_same l : forall nw tr pn,
  wf l = true -> tr_ok l nw tr -> fin_panic l nw tr pn = pn.
Proof.
  induction l as [|s tl IH]; intros nw tr pn Hwf Htr; cbn [fin_panic]; auto.
  pose proof Hwf as Hwf'. apply wf_cons in Hwf' as (Hs & Hap & Hwtl).
  pose proof (tr_ok_tl _ _ _ _ Htr) as Htr'.
  destruct (lend nw <? lstart s) eqn:E1; auto.
  destruct (lowner s =? lowner nw) eqn:E2; auto.
  assert (tr = None) as -> by (eapply tr_ok_none; eauto; lia).
  destruct (lend s <=? lend nw) eqn:E3; auto.
  destruct (ltype_eqb (ltyp nw) (ltyp s)) eqn:E4; [apply IH; cbn; auto|].
  apply IH; auto. apply tr_ok_trail; auto; nrm; lia.
Qed.

Lemma setp_same l : forall nw tr pn,
  wf l = true -> lstart nw < lend nw -> tr_ok l nw tr -> setp l nw tr pn = pn.
Proof.
  induction l as [|s tl IH]; intros nw tr pn Hwf Hne Htr; cbn [setp]; auto.
  pose proof Hwf as Hwf'. apply wf_cons in Hwf' as (Hs & Hap & Hwtl).
  pose proof (tr_ok_tl _ _ _ _ Htr) as Htr'.
  destruct (lstart nw <=? lstart s) eqn:E1; [apply fin_panic_same; auto|].
  destruct (lowner s =? lowner nw) eqn:E2; auto.
  destruct (ltype_eqb (ltyp nw) (ltyp s)) eqn:E3.
  - destruct (lstart nw <=? lend s) eqn:E4; auto.
    assert (tr = None) as -> by (eapply tr_ok_none; eauto; lia).
    apply fin_panic_same; cbn; auto.
  - destruct (lstart nw <? lend s) eqn:E4; auto.
    destruct (lend nw <? lend s) eqn:E5; auto.
    assert (tr = None) as -> by (eapply tr_ok_none; eauto; lia).
    apply IH; auto. apply tr_ok_trail; auto; nrm; lia.
Qed.

(* ---- bytes ---------------------------------------------------------------- *)

Lemma kind_at_app a r o b :
  kind_at (a ++ r) o b = match kind_at a o b with Some k => Some k | None => kind_at r o b end.
Proof. induction a as [|x a IH]; cbn [kind_at app]; auto. destruct (covers x o b); auto. Qed.

Lemma kind_at_ins t n r o b :
  kind_at (ins t n ++ r) o b =
  if negb (tn t =? 0) && covers n o b then Some (ltyp n) else kind_at r o b.
Proof. destruct t; cbn [ins app kind_at tn]; auto; destruct (covers n o b); auto. Qed.

Lemma kind_at_otl tr r o b :
  kind_at (otl tr ++ r) o b =
  match tr with
  | Some t => if covers t o b then Some (ltyp t) else kind_at r o b
  | None => kind_at r o b
  end.
Proof. destruct tr; reflexivity. Qed.

Lemma kind_at_none_before l o b :
  (forall u, In u l -> b < lstart u) -> kind_at l o b = None.
Proof.
  induction l as [|s tl IH]; intros H; cbn [kind_at]; auto.
  destruct (covers s o b) eqn:E.
  - specialize (H s (or_introl eq_refl)). nrm. lia.
  - apply IH. intros; apply H; now right.
Qed.

Lemma kreq_locked t : tn t <> 0 -> kreq t = Some t.
Proof. destruct t; cbn; auto; lia. Qed.

Lemma kreq_unlocked t : tn t = 0 -> kreq t = None.
Proof. destruct t; cbn; auto; lia. Qed.

Ltac fin_opt :=
  try reflexivity;
  try (exfalso; nrm; lia);
  try (rewrite kreq_locked by (nrm; lia); f_equal; apply tn_inj; nrm; lia);
  try (rewrite kreq_unlocked by (nrm; lia); reflexivity).

Lemma done_bytes l : forall nw tr o b,
  wf l = true -> lstart nw < lend nw ->
  (forall u, In u l -> lstart nw <= lstart u) -> tr_ok l nw tr ->
  kind_at (done l nw tr) o b =
  if covers nw o b then kreq (ltyp nw) else kind_at (otl tr ++ l) o b.
Proof.
  induction l as [|s tl IH]; intros nw tr o b Hwf Hne Hlo Htr.
  - unfold done. cbn [fin_new fin_post]. rewrite kind_at_ins, app_nil_r.
    destruct tr as [t|]; [destruct Htr as (T1 & T2 & T3 & T4 & T5 & T6)|]; cbn [otl kind_at];
    brk; fin_opt.
  - pose proof Hwf as Hwf'. apply wf_cons in Hwf' as (Hs & Hap & Hwtl).
    assert (Hlo' : forall u, In u tl -> lstart nw <= lstart u) by (intros; apply Hlo; now right).
    assert (Hs0 : lstart nw <= lstart s) by (apply Hlo; now left).
    pose proof (tr_ok_tl _ _ _ _ Htr) as Htr'.
    unfold done. cbn [fin_new fin_post].
    destruct (lend nw <? lstart s) eqn:E1.
    + (* stop *)
      rewrite kind_at_ins. destruct (covers nw o b) eqn:Ec.
      * assert (kind_at (otl tr ++ s :: tl) o b = None) as ->.
        { apply kind_at_none_before. intros u Hu. apply in_app_or in Hu as [Hu|Hu].
          - destruct tr as [t|]; [|destruct Hu]. destruct Hu as [<-|[]].
            destruct Htr as (T1 & T2 & T3 & T4 & T5 & T6). nrm. lia.
          - assert (lstart s <= lstart u).
            { destruct Hu as [<-|Hu]; [lia|]. eapply wf_hd_le; eauto. }
            nrm. lia. }
        brk; fin_opt.
      * rewrite andb_false_r. reflexivity.
    + destruct (lowner s =? lowner nw) eqn:E2.
      * assert (tr = None) as -> by (eapply tr_ok_none; eauto; lia).
        cbn [otl app kind_at].
        destruct (lend s <=? lend nw) eqn:E3.
        { fold (done tl nw None). rewrite IH; auto. cbn [otl app]. brk; fin_opt. }
        destruct (ltype_eqb (ltyp nw) (ltyp s)) eqn:E4.
        { change (ltyp nw) with (ltyp (with_end nw (lend s))) at 1.
          fold (done tl (with_end nw (lend s)) None). rewrite IH; cbn; auto; [|nrm; lia].
          brk; fin_opt. }
        fold (done tl nw (Some (with_start s (lend nw)))). rewrite IH; auto.
        { rewrite kind_at_otl. brk; fin_opt. }
        { apply tr_ok_trail; auto; nrm; lia. }
      * rewrite kind_at_ins. rewrite kind_at_otl. cbn [kind_at].
        specialize (IH nw tr o b Hwtl Hne Hlo' Htr'). unfold done in IH.
        rewrite kind_at_ins, kind_at_otl in IH.
        destruct (fin_new_props tl nw) as (F1 & F2 & F3 & F4).
        destruct (covers s o b) eqn:Es.
        -- destruct tr as [t|]; [destruct Htr as (T1 & T2 & T3 & T4 & T5 & T6)|];
           brk; fin_opt.
        -- exact IH.
Qed.

Lemma setl_bytes l : forall nw tr o b,
  wf l = true -> lstart nw < lend nw -> tr_ok l nw tr ->
  kind_at (setl l nw tr) o b =
  if covers nw o b then kreq (ltyp nw) else kind_at (otl tr ++ l) o b.
Proof.
  induction l as [|s tl IH]; intros nw tr o b Hwf Hne Htr; cbn [setl].
  - apply done_bytes; auto. intros ? [].
  - pose proof Hwf as Hwf'. apply wf_cons in Hwf' as (Hs & Hap & Hwtl).
    assert (Hsrt : forall u, In u (s :: tl) -> lstart s <= lstart u).
    { intros u [<-|Hu]; [lia|]. eapply wf_hd_le; eauto. }
    pose proof (tr_ok_tl _ _ _ _ Htr) as Htr'.
    assert (Hskip : lstart s < lstart nw ->
      (covers s o b = true -> covers nw o b = false) ->
      kind_at (s :: setl tl nw tr) o b =
      if covers nw o b then kreq (ltyp nw) else kind_at (otl tr ++ s :: tl) o b).
    { intros Hlt Hc. cbn [kind_at]. rewrite IH; auto. rewrite !kind_at_otl. cbn [kind_at].
      destruct tr as [t|]; [destruct Htr as (T1 & T2 & T3 & T4 & T5 & T6);
        specialize (T6 s (or_introl eq_refl))|];
      destruct (covers s o b) eqn:Es; [rewrite Hc by auto| | rewrite Hc by auto|]; brk; fin_opt. }
    destruct (lstart nw <=? lstart s) eqn:E1.
    + apply done_bytes; auto. intros u Hu. specialize (Hsrt u Hu). lia.
    + destruct (lowner s =? lowner nw) eqn:E2.
      * destruct (ltype_eqb (ltyp nw) (ltyp s)) eqn:E3.
        -- destruct (lstart nw <=? lend s) eqn:E4.
           ++ assert (tr = None) as -> by (eapply tr_ok_none; eauto; lia).
              rewrite done_bytes; cbn [lstart lend with_start]; auto; try lia.
              cbn [otl app kind_at ltyp with_start]. brk; fin_opt.
           ++ apply Hskip; [lia|]. intros Hc. nrm. lia.
        -- destruct (lstart nw <? lend s) eqn:E4.
           ++ assert (tr = None) as -> by (eapply tr_ok_none; eauto; lia).
              destruct (lend nw <? lend s) eqn:E5.
              ** cbn [kind_at]. rewrite IH; auto.
                 { rewrite kind_at_otl. cbn [otl app kind_at]. brk; fin_opt. }
                 { apply tr_ok_trail; auto; nrm; lia. }
              ** cbn [kind_at]. rewrite IH; auto.
                 cbn [otl app kind_at]. brk; fin_opt.
           ++ apply Hskip; [lia|]. intros Hc. nrm. lia.
      * apply Hskip; [lia|]. intros Hc. nrm. lia.
Qed.

(* ---- the statements about [set] ------------------------------------------ *)

Theorem set_wf l q :
  wf l = true -> lstart q < lend q -> wf (set_list (set l q)) = true.
Proof. intros. rewrite set_list_setl. apply setl_wf; cbn; auto. Qed.

Theorem set_no_panic l q :
  wf l = true -> lstart q < lend q -> set_panic (set l q) = false.
Proof. intros. rewrite set_panic_setp. apply setp_same; cbn; auto. Qed.

Theorem set_bytes l q o b :
  wf l = true -> lstart q < lend q ->
  kind_at (set_list (set l q)) o b = expected_kind l q o b.
Proof.
  intros. rewrite set_list_setl, setl_bytes; cbn; auto.
Qed.
