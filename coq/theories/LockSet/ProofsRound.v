(* C20 — a round of simultaneous LOCK requests on a table that only grows
   (the oracle of harness/cmd/lockrace): in every sequential order of LOCK
   requests of pairwise different owners, requests that were both granted do
   not conflict. *)
From VF Require Import LockSet.Model LockSet.Spec LockSet.Proofs
  LockSet.ProofsBase LockSet.ProofsSet LockSet.ProofsHist.
From Coq Require Import Lia List.
Import ListNotations.
Open Scope N_scope.

Record req := mkReq { rown : N; rex : bool; rs : N; re : N }.

Definition req_op (r : req) : op := OLock (rown r) (rex r) (rs r) (re r).

Definition req_conflict (p q : req) : bool :=
  negb (rown p =? rown q) && (rs p <? re q) && (rs q <? re p) && (rex p || rex q).

Definition is_granted (x : out) : bool := match x with Granted _ => true | _ => false end.

(* the requests of the round in the order in which they take effect, each with
   whether it was granted *)
Fixpoint round (l : list lock) (rq : list req) : list (req * bool) :=
  match rq with
  | [] => []
  | r :: tl => let '(l1, x) := step l (req_op r) in (r, is_granted x) :: round l1 tl
  end.

Definition held (l : list lock) (p : req) : Prop :=
  forall b, rs p <= b -> b < re p -> kind_at l (rown p) b = Some (ty_of (rex p)).

Lemma req_conflict_sym p q : req_conflict p q = req_conflict q p.
Proof.
  unfold req_conflict. rewrite (N.eqb_sym (rown p) (rown q)), (Bool.orb_comm (rex p) (rex q)).
  destruct (negb _), (rs p <? re q), (rs q <? re p), (rex q || rex p)%bool; reflexivity.
Qed.

Lemma ty_of_excl ex : ty_of ex = Exclusive <-> ex = true.
Proof. destruct ex; cbn; split; congruence. Qed.

Lemma granted_no_conflict l p r : wf l = true -> rs r < re r -> rs p < re p ->
  held l p -> rown p <> rown r ->
  test l (mkLock (rs r) (re r) (rown r) (ty_of (rex r))) = None ->
  req_conflict p r = false.
Proof.
  intros Hwf Hr Hp Hh Ho Ht.
  destruct (req_conflict p r) eqn:E; [|reflexivity]. exfalso.
  unfold req_conflict in E. rewrite !Bool.andb_true_iff in E. destruct E as [[[_ E1] E2] E3].
  apply N.ltb_lt in E1, E2.
  pose proof (proj1 (test_none_bytes l (mkLock (rs r) (re r) (rown r) (ty_of (rex r))) Hwf Hr) Ht) as H. cbn [lowner lstart lend ltyp] in H.
  set (b := N.max (rs p) (rs r)).
  assert (Hb1 : rs p <= b /\ b < re p) by (unfold b; lia).
  assert (Hb2 : rs r <= b /\ b < re r) by (unfold b; lia).
  specialize (H (rown p) b (ty_of (rex p)) Ho).
  assert (Hc : covers (mkLock (rs r) (re r) (rown r) (ty_of (rex r))) (rown r) b = true).
  { unfold covers. cbn [lowner lstart lend]. rewrite N.eqb_refl. cbn [andb].
    apply Bool.andb_true_iff. split; [apply N.leb_le|apply N.ltb_lt]; lia. }
  specialize (H Hc (Hh b (proj1 Hb1) (proj2 Hb1))). destruct H as [H1 H2].
  apply Bool.orb_true_iff in E3. destruct E3 as [E3|E3].
  - apply H1. apply ty_of_excl. exact E3.
  - apply H2. apply ty_of_excl. exact E3.
Qed.

Lemma round_inv : forall rq l G,
  wf l = true ->
  Forall (fun r => rs r < re r) rq -> Forall (fun r => rs r < re r) G ->
  NoDup (map rown rq) ->
  (forall p r, In p G -> In r rq -> rown p <> rown r) ->
  (forall p, In p G -> held l p) ->
  (forall p q, In p G -> In q G -> rown p <> rown q -> req_conflict p q = false) ->
  forall p q, (In p G \/ In (p, true) (round l rq)) -> (In q G \/ In (q, true) (round l rq)) ->
    rown p <> rown q -> req_conflict p q = false.
Proof.
  induction rq as [|r tl IH]; intros l G Hwf Hv HvG Hnd Hdis Hheld Hpair p q Hp Hq Hne.
  - cbn in Hp, Hq. destruct Hp as [Hp|[]], Hq as [Hq|[]]. auto.
  - inversion Hv as [|? ? Hr Hvt]; subst. inversion Hnd as [|? ? Hnin Hndt]; subst.
    cbn [round] in Hp, Hq.
    destruct (step l (req_op r)) as [l1 x] eqn:Es.
    pose proof Es as Es'. unfold req_op in Es'. cbn [step step_base] in Es'.
    destruct (test l (mkLock (rs r) (re r) (rown r) (ty_of (rex r)))) as [c|] eqn:Et.
    + (* denied: table unchanged, request not granted *)
      inversion Es'; subst l1 x. cbn [is_granted] in Hp, Hq.
      apply (IH l G); auto.
      * intros p0 r0 H1 H2. apply Hdis; [auto|right; auto].
      * destruct Hp as [Hp|[Hp|Hp]]; [left; auto|discriminate|right; auto].
      * destruct Hq as [Hq|[Hq|Hq]]; [left; auto|discriminate|right; auto].
    + (* granted *)
      rewrite (set_no_panic l (mkLock (rs r) (re r) (rown r) (ty_of (rex r))) Hwf Hr) in Es'. inversion Es'; subst l1 x. cbn [is_granted] in Hp, Hq.
      apply (IH (set_list (set l (mkLock (rs r) (re r) (rown r) (ty_of (rex r))))) (r :: G)); auto.
      * apply set_wf; auto.
      * intros p0 r0 [<-|H1] H2.
        -- intros E. apply Hnin. rewrite E. apply in_map. exact H2.
        -- apply Hdis; [auto|right; auto].
      * (* held after the insertion *)
        assert (Hstep : forall o b, kind_at (set_list (set l (mkLock (rs r) (re r) (rown r) (ty_of (rex r))))) o b =
                  if ((o =? rown r) && (rs r <=? b) && (b <? re r))%bool then Some (ty_of (rex r)) else kind_at l o b).
        { intros o b.
          pose proof (lock_bytes l (rown r) (rex r) (rs r) (re r) (set_delta (set l (mkLock (rs r) (re r) (rown r) (ty_of (rex r))))) o b Hwf Hr) as H.
          cbn [step step_base] in H. rewrite Et, (set_no_panic l (mkLock (rs r) (re r) (rown r) (ty_of (rex r))) Hwf Hr) in H. cbn [fst snd] in H. apply H. reflexivity. }
        intros p0 [<-|H1] b Hb1 Hb2; rewrite Hstep.
        -- rewrite N.eqb_refl. cbn [andb].
           replace (rs r <=? b) with true by (symmetry; apply N.leb_le; lia).
           replace (b <? re r) with true by (symmetry; apply N.ltb_lt; lia). reflexivity.
        -- assert (rown p0 <> rown r) by (apply Hdis; [auto|left; auto]).
           replace (rown p0 =? rown r) with false by (symmetry; apply N.eqb_neq; auto). cbn [andb].
           apply Hheld; auto.
      * intros p0 q0 [<-|H1] [<-|H2] Hn; [congruence| | |apply Hpair; auto].
        -- rewrite req_conflict_sym. eapply granted_no_conflict; eauto.
           rewrite Forall_forall in HvG. auto.
        -- eapply granted_no_conflict; eauto. rewrite Forall_forall in HvG. auto.
      * destruct Hp as [Hp|[Hp|Hp]]; [left; right; auto|left; left; congruence|right; auto].
      * destruct Hq as [Hq|[Hq|Hq]]; [left; right; auto|left; left; congruence|right; auto].
Qed.

(* Every order of LOCK requests of pairwise different owners on the empty
   table: two granted requests never conflict. *)
Lemma round_granted_compatible : forall rq,
  Forall (fun r => rs r < re r) rq -> NoDup (map rown rq) ->
  forall p q, In (p, true) (round [] rq) -> In (q, true) (round [] rq) ->
    rown p <> rown q -> req_conflict p q = false.
Proof.
  intros rq Hv Hnd p q Hp Hq Hne.
  apply (round_inv rq [] []); auto; try (intros; contradiction).
Qed.

(* The request that takes effect first on the empty table is granted. *)
Lemma round_first : forall r tl, rs r < re r ->
  exists rest, round [] (r :: tl) = (r, true) :: rest.
Proof.
  intros r tl Hr. cbn [round].
  destruct (step [] (req_op r)) as [l1 x] eqn:Es.
  unfold req_op in Es. cbn [step step_base] in Es.
  assert (Ht : test [] (mkLock (rs r) (re r) (rown r) (ty_of (rex r))) = None).
  { apply (test_none_bytes [] (mkLock (rs r) (re r) (rown r) (ty_of (rex r))) eq_refl Hr).
    intros o b k _ _ Hk. cbn in Hk. discriminate. }
  rewrite Ht, (set_no_panic [] (mkLock (rs r) (re r) (rown r) (ty_of (rex r))) eq_refl Hr) in Es.
  inversion Es; subst. eexists. reflexivity.
Qed.

(* Every held byte has a cause among the granted requests. *)
Definition caused (l : list lock) (G : list req) : Prop :=
  forall o b k, kind_at l o b = Some k ->
    exists p, In p G /\ rown p = o /\ rs p <= b /\ b < re p /\ ty_of (rex p) = k.

Lemma denied_has_cause l G q c : wf l = true -> rs q < re q -> caused l G ->
  test l (mkLock (rs q) (re q) (rown q) (ty_of (rex q))) = Some c ->
  exists p, In p G /\ req_conflict p q = true.
Proof.
  intros Hwf Hq HJ Ht. apply test_some in Ht as [Hin Hc].
  unfold conflicts, overlaps in Hc. cbn [lowner lstart lend ltyp] in Hc.
  rewrite !Bool.andb_true_iff in Hc. destruct Hc as [[Ho [Ho1 Ho2]] Hx].
  apply N.ltb_lt in Ho1, Ho2. apply Bool.negb_true_iff, N.eqb_neq in Ho.
  pose proof (wf_entry l c Hwf Hin) as He. unfold entry_ok in He.
  apply Bool.andb_true_iff in He. destruct He as [He _]. apply N.ltb_lt in He.
  set (b := N.max (lstart c) (rs q)).
  assert (Hcov : covers c (lowner c) b = true).
  { unfold covers. rewrite N.eqb_refl. cbn [andb]. apply Bool.andb_true_iff.
    split; [apply N.leb_le|apply N.ltb_lt]; unfold b; lia. }
  pose proof (kind_at_unique l c (lowner c) b Hwf Hin Hcov) as Hk.
  destruct (HJ _ _ _ Hk) as (p & Hp & Hop & Hb1 & Hb2 & Hty).
  exists p. split; [exact Hp|]. unfold req_conflict.
  replace (rown p =? rown q) with false by (symmetry; apply N.eqb_neq; congruence). cbn [negb andb].
  replace (rs p <? re q) with true by (symmetry; apply N.ltb_lt; unfold b in *; lia).
  replace (rs q <? re p) with true by (symmetry; apply N.ltb_lt; unfold b in *; lia). cbn [andb].
  rewrite <- Hty in Hx. destruct (rex p), (rex q); cbn in Hx |- *; congruence.
Qed.

Lemma round_inv_denied : forall rq l G,
  wf l = true -> Forall (fun r => rs r < re r) rq -> caused l G ->
  forall q, In (q, false) (round l rq) ->
    exists p, (In p G \/ In (p, true) (round l rq)) /\ req_conflict p q = true.
Proof.
  induction rq as [|r tl IH]; intros l G Hwf Hv HJ q Hq; [destruct Hq|].
  inversion Hv as [|? ? Hr Hvt]; subst.
  cbn [round] in Hq |- *.
  destruct (step l (req_op r)) as [l1 x] eqn:Es.
  pose proof Es as Es'. unfold req_op in Es'. cbn [step step_base] in Es'.
  destruct (test l (mkLock (rs r) (re r) (rown r) (ty_of (rex r)))) as [c|] eqn:Et.
  - inversion Es'; subst l1 x. cbn [is_granted] in Hq |- *.
    destruct Hq as [Hq|Hq].
    + inversion Hq; subst q. destruct (denied_has_cause l G r c Hwf Hr HJ Et) as (p & Hp & Hc).
      exists p. split; [left; exact Hp|exact Hc].
    + destruct (IH l G Hwf Hvt HJ q Hq) as (p & [Hp|Hp] & Hc); exists p; (split; [|exact Hc]).
      * left; exact Hp.
      * right; right; exact Hp.
  - rewrite (set_no_panic l (mkLock (rs r) (re r) (rown r) (ty_of (rex r))) Hwf Hr) in Es'.
    inversion Es'; subst l1 x. cbn [is_granted] in Hq |- *.
    destruct Hq as [Hq|Hq]; [discriminate|].
    assert (HJ' : caused (set_list (set l (mkLock (rs r) (re r) (rown r) (ty_of (rex r))))) (r :: G)).
    { intros o b k Hk.
      pose proof (lock_bytes l (rown r) (rex r) (rs r) (re r) (set_delta (set l (mkLock (rs r) (re r) (rown r) (ty_of (rex r))))) o b Hwf Hr) as H.
      cbn [step step_base] in H.
      rewrite Et, (set_no_panic l (mkLock (rs r) (re r) (rown r) (ty_of (rex r))) Hwf Hr) in H.
      cbn [fst snd] in H. rewrite (H eq_refl) in Hk.
      destruct ((o =? rown r) && (rs r <=? b) && (b <? re r))%bool eqn:E.
      - rewrite !Bool.andb_true_iff in E. destruct E as [[E1 E2] E3].
        apply N.eqb_eq in E1. apply N.leb_le in E2. apply N.ltb_lt in E3.
        exists r. repeat split; auto; [left; reflexivity|congruence].
      - destruct (HJ _ _ _ Hk) as (p & Hp & Hrest). exists p. split; [right; exact Hp|exact Hrest]. }
    destruct (IH _ (r :: G) (set_wf l (mkLock (rs r) (re r) (rown r) (ty_of (rex r))) Hwf Hr) Hvt HJ' q Hq) as (p & Hp & Hc).
    exists p. split; [|exact Hc]. destruct Hp as [[Hp|Hp]|Hp].
    + right; left; rewrite Hp; reflexivity.
    + left; exact Hp.
    + right; right; exact Hp.
Qed.

(* Every denied request of a round conflicts with a granted one. *)
Lemma round_denied_conflicts : forall rq, Forall (fun r => rs r < re r) rq ->
  forall q, In (q, false) (round [] rq) ->
    exists p, In (p, true) (round [] rq) /\ req_conflict p q = true.
Proof.
  intros rq Hv q Hq.
  destruct (round_inv_denied rq [] [] eq_refl Hv (fun o b k H => ltac:(discriminate H)) q Hq) as (p & [[]|Hp] & Hc).
  exists p. split; assumption.
Qed.
