(* C20 — the property theorems, and nothing else. *)
From VF Require Import LockSet.Model LockSet.Spec LockSet.Proofs.

(* A lock test reports a conflict only for an entry of the table that
   really conflicts with the request ... *)
Theorem test_reports_real_conflict : forall l q c,
  test l q = Some c -> In c l /\ conflicts c q = true.
Proof. exact test_some. Qed.
Print Assumptions test_reports_real_conflict.

(* ... and reports none only if no entry of the table conflicts. *)
Theorem test_misses_no_conflict : forall l q,
  sorted l -> test l q = None -> forall c, In c l -> conflicts c q = false.
Proof. exact test_none. Qed.
Print Assumptions test_misses_no_conflict.
