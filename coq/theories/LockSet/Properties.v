(* C20 — the property theorems, and nothing else.  Lock table =
   ByteRangeLockSet (Model.v); [wf], [compatible], [kind_at],
   [expected_kind], [p_step], [trace_ok], [valid_ops] are in Spec.v. *)
From VF Require Import LockSet.Model LockSet.Spec LockSet.Proofs
  LockSet.ProofsBase LockSet.ProofsSet LockSet.ProofsHist LockSet.ProofsRound.
From Coq Require Import List.
From Coq Require Import Lia.
Open Scope N_scope.

(* ---- Test ----------------------------------------------------------------- *)

(* A lock test reports a conflict only for an entry of the table that
   really conflicts with the request ... *)
Theorem test_reports_real_conflict : forall l q c,
  test l q = Some c -> In c l /\ conflicts c q = true.
Proof. exact test_some. Qed.
Print Assumptions test_reports_real_conflict.

(* ... and reports none only if no entry of the table conflicts. *)
Theorem test_misses_no_conflict : forall l q,
  sorted l -> test l q = None -> forall c, In c l -> conflicts c q = false.
Proof. exact test_none. Qed.
Print Assumptions test_misses_no_conflict.

(* Test = None exactly when no entry conflicts. *)
Theorem test_iff_no_conflict : forall l q, wf l = true ->
  (test l q = None <-> forallb (fun c => negb (conflicts c q)) l = true).
Proof. exact test_none_iff. Qed.
Print Assumptions test_iff_no_conflict.

(* The same, per byte: no conflict iff no byte of the request is held by
   another owner unless both sides are shared. *)
Theorem test_iff_denied : forall l q, wf l = true -> lstart q < lend q ->
  (test l q = None <->
   forall o b k, o <> lowner q -> covers q (lowner q) b = true -> kind_at l o b = Some k ->
     k <> Exclusive /\ ltyp q <> Exclusive).
Proof. exact test_none_bytes. Qed.
Print Assumptions test_iff_denied.

(* An owner's own locks never block it. *)
Theorem own_locks_never_conflict : forall l q c,
  test l q = Some c -> lowner c <> lowner q.
Proof. exact test_other_owner. Qed.
Print Assumptions own_locks_never_conflict.

(* LOCKT answers DENIED(c) exactly when LOCK would. *)
Theorem lockt_iff_lock : forall l ow ex s e c,
  snd (step l (OTest ow ex s e)) = Denied c <-> snd (step l (OLock ow ex s e)) = Denied c.
Proof. exact ProofsHist.lockt_iff_lock. Qed.
Print Assumptions lockt_iff_lock.

Theorem lockt_ok_iff_lock_granted : forall l ow ex s e, wf l = true -> s < e ->
  (snd (step l (OTest ow ex s e)) = TestOk <->
   exists d, snd (step l (OLock ow ex s e)) = Granted d).
Proof. exact lockt_ok_iff_lock. Qed.
Print Assumptions lockt_ok_iff_lock_granted.

(* ---- Set ------------------------------------------------------------------ *)

(* Set preserves the list invariant, for every request type. *)
Theorem wf_preserved : forall l q,
  wf l = true -> lstart q < lend q -> wf (set_list (set l q)) = true.
Proof. exact set_wf. Qed.
Print Assumptions wf_preserved.

(* The two panics of Set() are unreachable. *)
Theorem set_never_panics : forall l q,
  wf l = true -> lstart q < lend q -> set_panic (set l q) = false.
Proof. exact set_no_panic. Qed.
Print Assumptions set_never_panics.

(* Per byte: the requester's bytes in [start,end) become the requested type
   (or unlocked); every other byte of every owner is unchanged. *)
Theorem set_refines_bytes : forall l q o b,
  wf l = true -> lstart q < lend q ->
  kind_at (set_list (set l q)) o b = expected_kind l q o b.
Proof. exact set_bytes. Qed.
Print Assumptions set_refines_bytes.

Theorem unlock_releases_exactly : forall l ow s e o b, wf l = true -> s < e ->
  kind_at (fst (step l (OUnlock ow s e))) o b =
  if (o =? ow) && (s <=? b) && (b <? e) then None else kind_at l o b.
Proof. exact unlock_bytes. Qed.
Print Assumptions unlock_releases_exactly.

Theorem lock_grants_exactly : forall l ow ex s e d o b, wf l = true -> s < e ->
  snd (step l (OLock ow ex s e)) = Granted d ->
  kind_at (fst (step l (OLock ow ex s e))) o b =
  if (o =? ow) && (s <=? b) && (b <? e) then Some (ty_of ex) else kind_at l o b.
Proof. exact lock_bytes. Qed.
Print Assumptions lock_grants_exactly.

(* The returned delta is the change of the number of entries (no
   hypothesis on the table). *)
Theorem delta_is_length_change : forall l q,
  set_delta (set l q) = (Z.of_nat (length (set_list (set l q))) - Z.of_nat (length l))%Z.
Proof. exact set_delta_length. Qed.
Print Assumptions delta_is_length_change.

(* On well-formed tables the entry-wise and the per-byte formulation of
   exclusion coincide. *)
Theorem compatible_iff_excl_bytes : forall l, wf l = true ->
  (compatible l = true <-> excl_bytes l).
Proof. exact compatible_excl. Qed.
Print Assumptions compatible_iff_excl_bytes.

(* Set keeps different owners apart when Test found no conflict (or when
   unlocking). *)
Theorem set_preserves_exclusion : forall l q,
  wf l = true -> lstart q < lend q -> excl_bytes l ->
  (ltyp q <> Unlocked -> forall c, In c l -> conflicts c q = false) ->
  excl_bytes (set_list (set l q)).
Proof.
  exact (fun l q Hwf Hne Hex Hnc =>
    set_excl l q Hwf Hne Hex
      (fun Ht => Hnc (fun E => Ht (f_equal tn E)))).
Qed.
Print Assumptions set_preserves_exclusion.

(* ---- all histories -------------------------------------------------------- *)

(* Every table reachable by any sequence of requests (raw Set calls
   included) is well formed. *)
Theorem wf_all_histories : forall ops, valid_ops ops -> wf (state_after ops) = true.
Proof. exact history_wf. Qed.
Print Assumptions wf_all_histories.

(* With Test-then-Set (the way OpenedFile drives the table), no two entries
   of different owners overlap unless both are shared ... *)
Theorem exclusion : forall ops, valid_ops ops -> no_raw ops ->
  compatible (state_after ops) = true.
Proof. exact history_compatible. Qed.
Print Assumptions exclusion.

(* ... i.e. no byte has two owners unless both hold it shared. *)
Theorem exclusion_per_byte : forall ops, valid_ops ops -> no_raw ops ->
  forall o1 o2 b k1 k2, o1 <> o2 ->
    kind_at (state_after ops) o1 b = Some k1 -> kind_at (state_after ops) o2 b = Some k2 ->
    k1 = Shared /\ k2 = Shared.
Proof. exact history_excl_bytes. Qed.
Print Assumptions exclusion_per_byte.

(* A round of simultaneous LOCK requests (the oracle of the concurrent
   failing-input search harness/cmd/lockrace): whatever the order in which
   LOCK requests of pairwise different owners take effect on the empty
   table, two requests that were both granted do not conflict (different
   owners, overlapping bytes, one of them exclusive). *)
Theorem round_granted_never_conflict : forall rq,
  Forall (fun r => rs r < re r) rq -> NoDup (map rown rq) ->
  forall p q, In (p, true) (round nil rq) -> In (q, true) (round nil rq) ->
    rown p <> rown q -> req_conflict p q = false.
Proof. exact round_granted_compatible. Qed.
Print Assumptions round_granted_never_conflict.

(* ... and the request that takes effect first is granted: a round on the
   empty table has at least one grant. *)
Theorem round_first_granted : forall r tl, rs r < re r ->
  exists rest, round nil (r :: tl) = (r, true) :: rest.
Proof. exact round_first. Qed.
Print Assumptions round_first_granted.

(* ... and every denied request conflicts with a granted request of the
   round (no NoDup hypothesis needed). *)
Theorem round_denied_has_cause : forall rq, Forall (fun r => rs r < re r) rq ->
  forall q, In (q, false) (round nil rq) ->
    exists p, In (p, true) (round nil rq) /\ req_conflict p q = true.
Proof. exact round_denied_conflicts. Qed.
Print Assumptions round_denied_has_cause.

(* non-vacuity: a round with a grant, a denial and a compatible shared grant *)
Example round_example :
  round nil (mkReq 1 true 3 5 :: mkReq 2 true 2 6 :: mkReq 3 false 7 9 :: nil)
  = (mkReq 1 true 3 5, true) :: (mkReq 2 true 2 6, false) :: (mkReq 3 false 7 9, true) :: nil.
Proof. vm_compute. reflexivity. Qed.

(* The monitor link: the predicate Corr.v evaluates on implementation
   traces holds on every trace of the model. *)
Theorem monitor_holds_on_model : forall ops, valid_ops ops -> trace_ok [] ops = true.
Proof. exact trace_ok_all. Qed.
Print Assumptions monitor_holds_on_model.

(* Full statement wanted: forall ops (uint64 arguments), trace_ok [] ops = true.
   It is false of the model, which follows the code: LOCK with
   offset = length = 2^64-1 is accepted as the empty range [2^64-1, 2^64-1),
   two owners are both granted an exclusive lock "from the last offset to
   end of file", and an entry holding no byte enters the table
   (known finding "empty-range-accepted"; [valid_ops] excludes exactly this
   pair). *)
Theorem monitor_refuted_on_empty_range :
  exists ops, trace_ok [] ops = false /\
    snd (run [] ops) = [Granted 1; Granted 1] /\ wf (state_after ops) = false.
Proof. exact trace_ok_refuted_without_valid. Qed.
Print Assumptions monitor_refuted_on_empty_range.

(* ---- offsetLengthToStartEnd ----------------------------------------------- *)

Theorem offset_length_exact : forall off len, off <= max_u64 -> len <= max_u64 ->
  offset_length_to_start_end off len =
  if len =? 0 then None
  else if len =? max_u64 then Some (off, max_u64)
  else if off + len <=? max_u64 then Some (off, off + len) else None.
Proof. exact olse_spec. Qed.
Print Assumptions offset_length_exact.

Theorem offset_length_range : forall off len s e, off <= max_u64 -> len <= max_u64 ->
  offset_length_to_start_end off len = Some (s, e) ->
  s = off /\ s <= e /\ e <= max_u64 /\ (s < e \/ (off = max_u64 /\ len = max_u64)).
Proof. exact olse_range. Qed.
Print Assumptions offset_length_range.

(* Full statement wanted: forall off len <= max_u64, Some (s, e) -> s < e.
   It is false (see [offset_length_nonempty_refuted]); what holds: *)
Theorem offset_length_nonempty_partial : forall off len s e,
  off < max_u64 -> len <= max_u64 ->
  offset_length_to_start_end off len = Some (s, e) -> s < e.
Proof. exact olse_nonempty. Qed.
Print Assumptions offset_length_nonempty_partial.

Theorem offset_length_nonempty_refuted :
  exists off len s e, off <= max_u64 /\ len <= max_u64 /\
    offset_length_to_start_end off len = Some (s, e) /\ ~ s < e.
Proof. exact olse_nonempty_refuted. Qed.
Print Assumptions offset_length_nonempty_refuted.

(* ---- non-vacuity ---------------------------------------------------------- *)

Example demo_valid : valid_ops demo_ops /\ no_raw demo_ops.
Proof.
  split; [|repeat constructor].
  repeat (constructor; [cbn; unfold max_u64; lia|]). constructor.
Qed.

(* A reachable table after a split (+2), two denials, a merge (-3), a
   range ending at 2^64-1, and requests through OpenedFile (denied with the
   conflicting lock as (offset, length); length 0 rejected; UnlockAll). *)
Example demo_run : run [] demo_ops =
  ([mkLock 0 1 2 Shared; mkLock 0 10 1 Shared; mkLock 2 3 2 Shared;
    mkLock 18446744073709551614 18446744073709551615 4 Shared],
   [Granted 1; Granted 2; Granted 1; Denied (mkLock 0 3 1 Shared);
    Denied (mkLock 3 6 1 Exclusive); Granted 1; Granted (-3); Granted 1; Granted 1;
    DeniedNfs 12 18446744073709551615 true 3; Inval;
    DeniedNfs 12 18446744073709551615 true 3; Granted (-1); Granted 1]).
Proof. vm_compute. reflexivity. Qed.

Example demo_monitor : trace_ok [] demo_ops = true.
Proof. vm_compute. reflexivity. Qed.

(* Without Test, Set does produce incompatible tables: [no_raw] is needed. *)
Example raw_set_breaks_exclusion :
  compatible (state_after [ORawSet 1 Exclusive 0 5; ORawSet 2 Exclusive 3 8]) = false.
Proof. vm_compute. reflexivity. Qed.

(* The monitor is not trivially true: it rejects wrong post-states. *)
Example monitor_rejects :
  p_step [mkLock 0 10 1 Shared] [mkLock 0 10 1 Shared] (OUnlock 1 3 6) (Granted 0) = "bytes"%string
  /\ p_step [mkLock 0 10 1 Exclusive] [mkLock 0 10 1 Exclusive; mkLock 3 6 2 Shared]
       (OLock 2 false 3 6) (Granted 1) = "granted-despite-conflict"%string.
Proof. vm_compute. split; reflexivity. Qed.
