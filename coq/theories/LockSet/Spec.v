(* The property C20 as decidable predicates: [p_step] is the per-step
   predicate P that is (a) proved of the model for every history in
   Proofs.v and (b) evaluated on implementation traces by Corr.v. *)
From Coq Require Export String.
From VF Require Export LockSet.Model.
Open Scope N_scope.

Definition lock_eqb (a b : lock) : bool :=
  (lstart a =? lstart b) && (lend a =? lend b) && (lowner a =? lowner b)
  && ltype_eqb (ltyp a) (ltyp b).

Fixpoint list_eqb {A} (eqb : A -> A -> bool) (a b : list A) : bool :=
  match a, b with
  | [], [] => true
  | x :: a', y :: b' => eqb x y && list_eqb eqb a' b'
  | _, _ => false
  end.

Definition out_eqb (a b : out) : bool :=
  match a, b with
  | Granted d1, Granted d2 => Z.eqb d1 d2
  | Denied c1, Denied c2 => lock_eqb c1 c2
  | TestOk, TestOk => true
  | Panicked, Panicked => true
  | _, _ => false
  end.

(* ---- The property predicate P, on one observed step -------------------- *)

(* Which kind of lock owner [o] holds on byte [b] according to list [l]:
   the first entry of [o] covering [b]. *)
Definition covers (s : lock) (o b : N) : bool :=
  (lowner s =? o) && (lstart s <=? b) && (b <? lend s).

Fixpoint kind_at (l : list lock) (o b : N) : option ltype :=
  match l with
  | [] => None
  | s :: tl => if covers s o b then Some (ltyp s) else kind_at tl o b
  end.

Definition okind_eqb (a b : option ltype) : bool :=
  match a, b with
  | None, None => true
  | Some x, Some y => ltype_eqb x y
  | _, _ => false
  end.

Definition overlaps (a b : lock) : bool := (lstart a <? lend b) && (lstart b <? lend a).

Definition conflicts (a b : lock) : bool :=
  negb (lowner a =? lowner b) && overlaps a b
  && (ltype_eqb (ltyp a) Exclusive || ltype_eqb (ltyp b) Exclusive).

(* No two entries of different owners overlap unless both are shared. *)
Fixpoint compatible (l : list lock) : bool :=
  match l with
  | [] => true
  | s :: tl => forallb (fun t => negb (conflicts s t)) tl && compatible tl
  end.

(* Entries are non-empty, locked, sorted by start; entries of one owner
   are pairwise disjoint, and touching ones have different types. *)
Definition entry_ok (s : lock) : bool :=
  (lstart s <? lend s) && negb (ltype_eqb (ltyp s) Unlocked).

Definition apart (s t : lock) : bool :=   (* s before t in the list *)
  (lstart s <=? lstart t) &&
  (negb (lowner s =? lowner t) ||
   (lend s <? lstart t) || ((lend s =? lstart t) && negb (ltype_eqb (ltyp s) (ltyp t)))).

Fixpoint wf (l : list lock) : bool :=
  match l with
  | [] => true
  | s :: tl => entry_ok s && forallb (apart s) tl && wf tl
  end.

(* Sample points: every boundary of every entry and of the request, and
   the byte before it.  kind_at is piecewise constant between boundaries,
   so agreement on these points is agreement on all bytes (this is proved
   for the model in Proofs.v; here it is the monitor for the code). *)
Definition points_of (l : list lock) : list N :=
  flat_map (fun s => [lstart s; N.pred (lstart s); lend s; N.pred (lend s)]) l.

Definition owners_of (l : list lock) : list N := map lowner l.

(* What a request of type [t] leaves on the bytes it covers. *)
Definition kreq (t : ltype) : option ltype :=
  match t with Unlocked => None | t => Some t end.

Definition expected_kind (pre : list lock) (q : lock) (o b : N) : option ltype :=
  if covers q o b then kreq (ltyp q) else kind_at pre o b.

Definition bytes_ok (pre post : list lock) (q : lock) : bool :=
  let pts := points_of (q :: pre ++ post) in
  let ows := owners_of (q :: pre ++ post) in
  forallb (fun o => forallb (fun b =>
     okind_eqb (kind_at post o b) (expected_kind pre q o b)) pts) ows.

Definition unchanged (pre post : list lock) : bool := list_eqb lock_eqb pre post.

Definition p_set (pre post : list lock) (q : lock) (x : out) : string :=
  match x with
  | Granted d =>
    if negb (bytes_ok pre post q) then "bytes"
    else if negb (Z.eqb d (Z.of_nat (length post) - Z.of_nat (length pre))) then "delta"
    else if negb (wf post) then "wf"
    else ""
  | _ => "set-outcome"
  end%string.

Definition p_step (pre post : list lock) (o : op) (x : out) : string :=
  match o with
  | OLock ow ex s e =>
    let q := mkLock s e ow (ty_of ex) in
    match x with
    | Denied c =>
      if negb (existsb (lock_eqb c) pre && conflicts c q) then "denied-without-conflict"
      else if negb (unchanged pre post) then "denied-changed-state"
      else ""
    | Granted _ =>
      if existsb (fun c => conflicts c q) pre then "granted-despite-conflict"
      else let r := p_set pre post q x in
           if String.eqb r "" then (if negb (compatible pre) || compatible post then "" else "exclusion") else r
    | _ => "lock-outcome"
    end
  | OUnlock ow s e => p_set pre post (mkLock s e ow Unlocked) x
  | OTest ow ex s e =>
    let q := mkLock s e ow (ty_of ex) in
    if negb (unchanged pre post) then "test-changed-state" else
    match x with
    | Denied c =>
      if existsb (lock_eqb c) pre && conflicts c q then "" else "denied-without-conflict"
    | TestOk => if existsb (fun c => conflicts c q) pre then "test-missed-conflict" else ""
    | _ => "test-outcome"
    end
  | ORawSet ow t s e => p_set pre post (mkLock s e ow t) x
  end%string.


(* ---- P over a whole trace ------------------------------------------------ *)

(* The fold of [p_step] over the model's own run: pre-state, post-state,
   operation and output of every step.  Corr.v folds the same [p_step] over
   the implementation's recorded (pre, post, op, out). *)
Fixpoint trace_ok (l : list lock) (ops : list op) : bool :=
  match ops with
  | [] => true
  | o :: tl => let '(l', x) := step l o in
               String.eqb (p_step l l' o x) "" && trace_ok l' tl
  end.

(* Requests as the callers of the lock table produce them: non-empty
   ranges (see [offset_length_to_start_end]). *)
Definition op_range (o : op) : N * N :=
  match o with
  | OLock _ _ s e | OUnlock _ s e | OTest _ _ s e | ORawSet _ _ s e => (s, e)
  end.

Definition valid_op (o : op) : Prop := fst (op_range o) < snd (op_range o).
Definition valid_ops (ops : list op) : Prop := Forall valid_op ops.

(* Histories in which Set is only reached the way OpenedFile.Lock/Unlock
   reach it (Test first, or type Unlocked). *)
Definition is_raw (o : op) : bool := match o with ORawSet _ _ _ _ => true | _ => false end.
Definition no_raw (ops : list op) : Prop := Forall (fun o => is_raw o = false) ops.

(* Per byte: two different owners never both hold a byte unless both
   hold it shared. *)
Definition excl_bytes (l : list lock) : Prop :=
  forall o1 o2 b k1 k2, o1 <> o2 ->
    kind_at l o1 b = Some k1 -> kind_at l o2 b = Some k2 ->
    k1 = Shared /\ k2 = Shared.
